import PttVerif.Model.C18Ansi
import PttVerif.Proofs.C18
/-
C18 (group 2) — helper lemmas for cmsys.StripAnsi:
the index/fuel model equals a structural state machine `run`; `run` against the lexer grammar.
-/
namespace PttVerif.C18
open PttVerif

/-- Go bytes. -/
def Bytes (s : List Nat) : Prop := ∀ b ∈ s, b < 256

theorem Bytes.append_left {a b : List Nat} (h : Bytes (a ++ b)) : Bytes a := fun x hx => h x (by simp [hx])
theorem Bytes.append_right {a b : List Nat} (h : Bytes (a ++ b)) : Bytes b := fun x hx => h x (by simp [hx])

/-! ### the regenerated table -/

theorem escapeFlag_length : escapeFlag.length = 256 := by decide +kernel
theorem flag_nul : flagOf 0 = 0 := by decide +kernel
theorem ESC_eq : ESC = 27 := by decide +kernel
theorem ESC_ne_zero : ESC ≠ 0 := by decide +kernel
theorem modes_eq : STRIP_ANSI_ALL = 0 ∧ STRIP_ANSI_ONLY_COLOR = 1 ∧ STRIP_ANSI_NO_RELOAD = 2 := by decide +kernel

theorem isParamB_nul : isParamB 0 = false := by simp [isParamB, flag_nul]
theorem isCmdB_nul : isCmdB 0 = false := by simp [isCmdB, flag_nul]

theorem idx_flag (x : Nat) (h : x < 256) : idx escapeFlag x = .ok (flagOf x) := by
  have hl : x < escapeFlag.length := by rw [escapeFlag_length]; exact h
  simp [idx, flagOf, List.getD, List.getElem?_eq_getElem hl]

theorem isEscapeParam_eq (x : Nat) (h : x < 256) : isEscapeParam x = .ok (isParamB x) := by
  simp [isEscapeParam, idx_flag x h, isParamB, bind, Except.bind, pure, Except.pure]

theorem isEscapeCommand_eq (x : Nat) (h : x < 256) : isEscapeCommand x = .ok (isCmdB x) := by
  simp [isEscapeCommand, idx_flag x h, isCmdB, bind, Except.bind, pure, Except.pure]

/-! ### the structural state machine -/

inductive St where
  | text
  | esc
  | csi (acc : List Nat)

def keepB (flag f : Nat) : Bool :=
  (decide (flag = STRIP_ANSI_NO_RELOAD) && isCmdB f) || (decide (flag = STRIP_ANSI_ONLY_COLOR) && decide (f = 109))

def run (flag : Nat) : St → List Nat → List Nat
  | .text, [] => []
  | .text, c :: r => if c = 0 then [] else if c = ESC then run flag .esc r else c :: run flag .text r
  | .esc, [] => []
  | .esc, p :: r => if p = 91 then run flag (.csi []) r else if p = 0 then [] else run flag .text r
  | .csi _, [] => []
  | .csi acc, c :: r =>
    if isParamB c = true then run flag (.csi (acc ++ [c])) r
    else (if keepB flag c = true then ESC :: 91 :: (acc ++ [c]) else []) ++ (if c = 0 then [] else run flag .text r)

theorem run_csi_params (flag : Nat) (acc ps rest : List Nat) (hps : ∀ p ∈ ps, isParamB p = true) :
    run flag (.csi acc) (ps ++ rest) = run flag (.csi (acc ++ ps)) rest := by
  induction ps generalizing acc with
  | nil => simp
  | cons p ps ih =>
    have hp : isParamB p = true := hps p (by simp)
    simp only [List.cons_append, run, hp, if_true]
    rw [ih (acc ++ [p]) (fun q hq => hps q (by simp [hq]))]
    simp

/-- every string splits into its parameter-byte prefix and a rest that is empty or starts with a non-parameter. -/
theorem split_params (s : List Nat) :
    ∃ ps rest, s = ps ++ rest ∧ (∀ p ∈ ps, isParamB p = true) ∧
      (rest = [] ∨ ∃ f t, rest = f :: t ∧ isParamB f = false) := by
  induction s with
  | nil => exact ⟨[], [], rfl, by simp, .inl rfl⟩
  | cons c r ih =>
    by_cases hc : isParamB c = true
    · obtain ⟨ps, rest, h1, h2, h3⟩ := ih
      refine ⟨c :: ps, rest, by simp [h1], ?_, h3⟩
      intro p hp
      simp only [List.mem_cons] at hp
      rcases hp with rfl | hp
      · exact hc
      · exact h2 p hp
    · exact ⟨[], c :: r, rfl, by simp, .inr ⟨c, r, rfl, by simpa using hc⟩⟩

/-! ### index model = state machine -/

theorem idx_append_mid {α} (pre mid : List α) (c : α) (s : List α) :
    idx (pre ++ mid ++ c :: s) (pre.length + mid.length) = .ok c := by
  simp [idx, List.getElem?_append_right]

theorem idx_append_len {α} (pre : List α) (c : α) (s : List α) : idx (pre ++ c :: s) pre.length = .ok c := by
  simp [idx]

theorem scanParams_spec (pre ps rest : List Nat) (fuel : Nat) (hb : Bytes (pre ++ (ps ++ rest)))
    (hps : ∀ p ∈ ps, isParamB p = true)
    (hrest : rest = [] ∨ ∃ f t, rest = f :: t ∧ isParamB f = false) (hf : fuel ≥ ps.length + 1) :
    scanParams (pre ++ (ps ++ rest)) fuel pre.length = .ok (pre.length + ps.length) := by
  induction ps generalizing pre fuel with
  | nil =>
    cases fuel with
    | zero => omega
    | succ fuel =>
      rcases hrest with rfl | ⟨f, t, rfl, hfp⟩
      · simp [scanParams, pure, Except.pure]
      · have hfb : f < 256 := hb f (by simp)
        have hlt : pre.length < (pre ++ ([] ++ f :: t)).length := by simp
        have hi : idx (pre ++ ([] ++ f :: t)) pre.length = .ok f := by simpa using idx_append_len pre f t
        simp only [scanParams, hlt, if_true, hi, isEscapeParam_eq f hfb, hfp, bind, Except.bind]
        simp [pure, Except.pure]
  | cons p ps ih =>
    cases fuel with
    | zero => omega
    | succ fuel =>
      have hp : isParamB p = true := hps p (by simp)
      have hpb : p < 256 := hb p (by simp)
      have hlt : pre.length < (pre ++ (p :: ps ++ rest)).length := by simp
      have h1 : idx (pre ++ (p :: ps ++ rest)) pre.length = .ok p := by
        simpa using idx_append_len pre p (ps ++ rest)
      have h2 : scanParams (pre ++ (p :: ps ++ rest)) fuel (pre.length + 1) = .ok (pre.length + 1 + ps.length) := by
        have := ih (pre ++ [p]) fuel (by simpa using hb) (fun q hq => hps q (by simp [hq]))
          (by simp at hf; omega)
        simpa using this
      simp only [scanParams, hlt, if_true, h1, isEscapeParam_eq p hpb, hp, bind, Except.bind]
      rw [h2]
      simp only [List.length_cons]
      congr 1
      omega

theorem keepSeq_eq (flag f : Nat) (hf : f < 256) : keepSeq flag f = .ok (keepB flag f) := by
  unfold keepSeq keepB
  by_cases h : flag = STRIP_ANSI_NO_RELOAD
  · simp [h, isEscapeCommand_eq f hf, bind, Except.bind, pure, Except.pure]
  · simp [h, bind, Except.bind, pure, Except.pure]

theorem copySeq_eq (pre ps : List Nat) (f : Nat) (t out : List Nat) (hout : out.length ≤ pre.length) :
    copySeq (pre ++ ESC :: 91 :: (ps ++ f :: t)) pre.length (pre.length + 2 + ps.length) out =
      .ok (out ++ ESC :: 91 :: (ps ++ [f])) := by
  unfold copySeq
  have e1 : pre.length + 2 + ps.length - pre.length + 1 = ps.length + 3 := by omega
  simp only [e1]
  rw [if_pos (by simp; omega)]
  have hslice : slice (pre ++ ESC :: 91 :: (ps ++ f :: t)) pre.length (pre.length + (ps.length + 3)) =
      .ok (ESC :: 91 :: (ps ++ [f])) := by
    unfold slice
    rw [if_pos (by simp)]
    have e : ESC :: 91 :: (ps ++ f :: t) = (ESC :: 91 :: (ps ++ [f])) ++ t := by simp
    have hl : (ESC :: 91 :: (ps ++ [f])).length = ps.length + 3 := by simp
    rw [e, List.take_append, List.take_of_length_le (by omega), Nat.add_sub_cancel_left, List.take_append,
      List.take_of_length_le (by omega), hl, Nat.sub_self, List.take_zero, List.append_nil, List.drop_left]
  rw [hslice]; rfl

theorem stripLoop_spec (flag : Nat) (fuel : Nat) (pre s out : List Nat) (hb : Bytes (pre ++ s))
    (hout : out.length ≤ pre.length) (hf : fuel ≥ s.length + 1) :
    stripLoop (pre ++ s) flag fuel pre.length out = .ok (out ++ run flag .text s) := by
  induction fuel generalizing pre s out with
  | zero => omega
  | succ fuel ih =>
    cases s with
    | nil => simp [stripLoop, run, pure, Except.pure]
    | cons each s1 =>
      have hlt : pre.length < (pre ++ each :: s1).length := by simp
      have hi : idx (pre ++ each :: s1) pre.length = .ok each := idx_append_len pre each s1
      rw [stripLoop]
      simp only [hlt, not_true, if_false, hi, bind, Except.bind]
      by_cases h0 : each = 0
      · simp [h0, run, pure, Except.pure]
      · simp only [h0, if_false]
        by_cases hesc : each = ESC
        · -- ESC
          subst hesc
          simp only [ne_eq, not_true, if_false]
          cases s1 with
          | nil => simp [run, h0, pure, Except.pure]
          | cons p s2 =>
            have hne : ¬ (pre.length + 1 = (pre ++ ESC :: p :: s2).length) := by simp
            have hip : idx (pre ++ ESC :: p :: s2) (pre.length + 1) = .ok p := by
              have := idx_append_mid pre [ESC] p s2
              simpa using this
            simp only [hne, if_false, hip]
            by_cases hp : p = 91
            · -- CSI
              subst hp
              simp only [ne_eq, not_true, if_false]
              obtain ⟨ps, rest, hs2, hps, hrest⟩ := split_params s2
              subst hs2
              have hsrc : pre ++ ESC :: 91 :: (ps ++ rest) = (pre ++ [ESC, 91]) ++ (ps ++ rest) := by simp
              have hscan' : scanParams (pre ++ ESC :: 91 :: (ps ++ rest))
                  ((pre ++ ESC :: 91 :: (ps ++ rest)).length + 1) (pre.length + 2) = .ok (pre.length + 2 + ps.length) := by
                have := scanParams_spec (pre ++ [ESC, 91]) ps rest ((pre ++ ESC :: 91 :: (ps ++ rest)).length + 1)
                  (by rw [← hsrc]; exact hb) hps hrest (by simp; omega)
                rw [← hsrc] at this
                simpa using this
              rw [hscan']
              simp only [run, h0, if_false, if_true]
              rw [run_csi_params flag [] ps rest hps]
              rcases hrest with rfl | ⟨f, t, rfl, hfp⟩
              · have : pre.length + 2 + ps.length = (pre ++ ESC :: 91 :: (ps ++ [])).length := by simp; omega
                simp [this, run, pure, Except.pure]
              · have hfb : f < 256 := hb f (by simp)
                have hne2 : ¬ (pre.length + 2 + ps.length = (pre ++ ESC :: 91 :: (ps ++ f :: t)).length) := by
                  simp; omega
                have hif : idx (pre ++ ESC :: 91 :: (ps ++ f :: t)) (pre.length + 2 + ps.length) = .ok f := by
                  have := idx_append_mid pre (ESC :: 91 :: ps) f t
                  simp only [List.length_cons] at this
                  have e : pre ++ ESC :: 91 :: ps ++ f :: t = pre ++ ESC :: 91 :: (ps ++ f :: t) := by simp
                  rw [e] at this
                  rw [← this]; congr 1; omega
                simp only [hne2, if_false, hif, keepSeq_eq flag f hfb]
                have hsrc2 : pre ++ ESC :: 91 :: (ps ++ f :: t) = (pre ++ ESC :: 91 :: (ps ++ [f])) ++ t := by simp
                have hlen2 : (pre ++ ESC :: 91 :: (ps ++ [f])).length = pre.length + 2 + ps.length + 1 := by
                  simp; omega
                by_cases hkeep : keepB flag f = true
                · simp only [hkeep, if_true, copySeq_eq pre ps f t out hout]
                  by_cases hf0 : f = 0
                  · subst hf0
                    simp [keepB, isCmdB_nul] at hkeep
                  · have hrec := ih (pre ++ ESC :: 91 :: (ps ++ [f])) t (out ++ ESC :: 91 :: (ps ++ [f]))
                      (by rw [← hsrc2]; exact hb) (by simp; omega) (by simp at hf; omega)
                    rw [← hsrc2, hlen2] at hrec
                    simp only [hf0, if_false]
                    rw [hrec]
                    simp [run, hfp, hkeep, hf0]
                · simp only [hkeep, Bool.false_eq_true, if_false]
                  by_cases hf0 : f = 0
                  · simp [hf0, run, isParamB_nul, pure, Except.pure, hkeep]
                    simp [hf0] at hkeep
                    simp [hkeep]
                  · have hrec := ih (pre ++ ESC :: 91 :: (ps ++ [f])) t out
                      (by rw [← hsrc2]; exact hb) (by simp; omega) (by simp at hf; omega)
                    rw [← hsrc2, hlen2] at hrec
                    simp only [hf0, if_false, pure, Except.pure]
                    rw [hrec]
                    simp [run, hfp, hkeep, hf0]
            · -- ESC x, x ≠ '['
              simp only [ne_eq, hp, not_false_eq_true, if_true]
              by_cases hp0 : p = 0
              · simp [hp0, run, h0, pure, Except.pure]
              · have hsrc : pre ++ ESC :: p :: s2 = (pre ++ [ESC, p]) ++ s2 := by simp
                have hrec := ih (pre ++ [ESC, p]) s2 out (by rw [← hsrc]; exact hb) (by simp; omega)
                  (by simp at hf; omega)
                rw [← hsrc] at hrec
                simp only [List.length_append, List.length_cons, List.length_nil] at hrec
                simp only [hp0, if_false]
                rw [hrec]
                simp [run, h0, hp, hp0]
        · -- plain byte
          simp only [ne_eq, hesc, not_false_eq_true, if_true]
          have hlt2 : out.length < (pre ++ each :: s1).length := by simp; omega
          simp only [hlt2, if_true]
          have hsrc : pre ++ each :: s1 = (pre ++ [each]) ++ s1 := by simp
          have hrec := ih (pre ++ [each]) s1 (out ++ [each]) (by rw [← hsrc]; exact hb) (by simp; omega)
            (by simp at hf; omega)
          rw [← hsrc] at hrec
          simp only [List.length_append, List.length_cons, List.length_nil] at hrec
          rw [hrec]
          simp [run, h0, hesc]

theorem stripAnsi_eq_run (src : List Nat) (flag : Nat) (hb : Bytes src) :
    stripAnsi src flag = .ok (run flag .text src) := by
  have := stripLoop_spec flag (src.length + 1) [] src [] (by simpa using hb) (by simp) (by omega)
  simpa [stripAnsi] using this

/-! ### the state machine against the lexer grammar -/

theorem keepB_iff (flag f : Nat) :
    keepB flag f = true ↔ ((flag = STRIP_ANSI_NO_RELOAD ∧ isCmdB f = true) ∨ (flag = STRIP_ANSI_ONLY_COLOR ∧ f = 109)) := by
  simp [keepB]

/-- one complete unit in front: the machine emits what the mode keeps of it and is back in the text state. -/
theorem run_tok (flag : Nat) (t : Tok) (X : List Nat) (hok : t.ok) (hc : t.complete)
    (h0 : ∀ b ∈ t.bytes, b ≠ 0) : run flag .text (t.bytes ++ X) = keepTok flag t ++ run flag .text X := by
  cases t with
  | plain b =>
    have hb0 : b ≠ 0 := h0 b (by simp [Tok.bytes])
    have hbe : b ≠ ESC := hok
    simp [Tok.bytes, run, keepTok, hb0, hbe]
  | escOther b =>
    have hb0 : b ≠ 0 := h0 b (by simp [Tok.bytes])
    have hb : b ≠ 91 := hok
    simp [Tok.bytes, run, keepTok, ESC_ne_zero, hb0, hb]
  | csi ps f =>
    obtain ⟨hps, hf⟩ := hok
    have hf0 : f ≠ 0 := h0 f (by simp [Tok.bytes])
    have e : (Tok.csi ps f).bytes ++ X = ESC :: 91 :: (ps ++ f :: X) := by simp [Tok.bytes]
    rw [e]
    simp only [run, ESC_ne_zero, if_false, if_true]
    rw [run_csi_params flag [] ps (f :: X) hps]
    simp only [run, hf, Bool.false_eq_true, if_false, hf0, List.nil_append, keepTok, Tok.bytes]
    by_cases hk : keepB flag f = true
    · rw [if_pos hk, if_pos ((keepB_iff flag f).mp hk)]
    · rw [if_neg hk, if_neg (fun h => hk ((keepB_iff flag f).mpr h))]
  | csiTrunc ps => exact absurd hc (by simp [Tok.complete])
  | escEnd => exact absurd hc (by simp [Tok.complete])

/-- a unit cut off by the end of the input: nothing is emitted. -/
theorem run_tok_last (flag : Nat) (t : Tok) (hok : t.ok) (hc : ¬ t.complete) :
    run flag .text t.bytes = keepTok flag t := by
  cases t with
  | plain b => exact absurd (by simp [Tok.complete]) hc
  | escOther b => exact absurd (by simp [Tok.complete]) hc
  | csi ps f => exact absurd (by simp [Tok.complete]) hc
  | csiTrunc ps =>
    have hps : ∀ p ∈ ps, isParamB p = true := hok
    have := run_csi_params flag [] ps [] hps
    simp only [List.append_nil] at this
    simp [Tok.bytes, run, ESC_ne_zero, keepTok, this]
  | escEnd => simp [Tok.bytes, run, ESC_ne_zero, keepTok]

theorem run_toks (flag : Nat) (toks : List Tok) (hwf : WF toks) (h0 : ∀ b ∈ bytesOf toks, b ≠ 0) :
    run flag .text (bytesOf toks) = toks.flatMap (keepTok flag) := by
  induction toks with
  | nil => simp [bytesOf, run]
  | cons t rest ih =>
    obtain ⟨hok, hcomp, hwf'⟩ := hwf
    have h0t : ∀ b ∈ t.bytes, b ≠ 0 := fun b hb => h0 b (by simp [bytesOf, hb])
    have h0r : ∀ b ∈ bytesOf rest, b ≠ 0 := fun b hb => h0 b (by
      simp only [bytesOf, List.flatMap_cons, List.mem_append]; exact .inr hb)
    by_cases hc : t.complete
    · have : bytesOf (t :: rest) = t.bytes ++ bytesOf rest := by simp [bytesOf]
      rw [this, run_tok flag t _ hok hc h0t, ih hwf' h0r]
      simp
    · have hrest : rest = [] := by
        by_cases hr : rest = []
        · exact hr
        · exact absurd (hcomp hr) hc
      subst hrest
      simp [bytesOf, run_tok_last flag t hok hc]

/-- the lexer (a proof device: it shows that every NUL-free string has a lexing). -/
def lexRun : St → List Nat → List Tok
  | .text, [] => []
  | .text, c :: r => if c = ESC then lexRun .esc r else .plain c :: lexRun .text r
  | .esc, [] => [.escEnd]
  | .esc, p :: r => if p = 91 then lexRun (.csi []) r else .escOther p :: lexRun .text r
  | .csi acc, [] => [.csiTrunc acc]
  | .csi acc, c :: r => if isParamB c = true then lexRun (.csi (acc ++ [c])) r else .csi acc c :: lexRun .text r

def St.pend : St → List Nat
  | .text => []
  | .esc => [ESC]
  | .csi acc => ESC :: 91 :: acc

def St.accOk : St → Prop
  | .csi acc => ∀ p ∈ acc, isParamB p = true
  | _ => True

theorem lexRun_bytes (st : St) (s : List Nat) : bytesOf (lexRun st s) = st.pend ++ s := by
  induction s generalizing st with
  | nil => cases st <;> simp [lexRun, bytesOf, St.pend, Tok.bytes]
  | cons c r ih =>
    cases st with
    | text =>
      by_cases hc : c = ESC
      · simp only [lexRun, hc, if_true, ih, St.pend]; simp
      · simp only [lexRun, hc, if_false]
        have := ih .text
        simp only [bytesOf, St.pend, List.nil_append] at this ⊢
        simp [this, Tok.bytes]
    | esc =>
      by_cases hc : c = 91
      · simp only [lexRun, hc, if_true, ih, St.pend]; simp
      · simp only [lexRun, hc, if_false]
        have := ih .text
        simp only [bytesOf, St.pend, List.nil_append] at this ⊢
        simp [this, Tok.bytes]
    | csi acc =>
      by_cases hc : isParamB c = true
      · simp only [lexRun, hc, if_true, ih, St.pend]; simp
      · simp only [lexRun, hc, if_false]
        have := ih .text
        simp only [bytesOf, St.pend, List.nil_append] at this ⊢
        simp [this, Tok.bytes]

theorem lexRun_wf (st : St) (s : List Nat) (hacc : st.accOk) : WF (lexRun st s) := by
  induction s generalizing st with
  | nil => cases st <;> simp [lexRun, WF, Tok.ok] <;> exact hacc
  | cons c r ih =>
    cases st with
    | text =>
      by_cases hc : c = ESC
      · simp only [lexRun, hc, if_true]; exact ih .esc trivial
      · simp only [lexRun, hc, if_false]
        exact ⟨hc, fun _ => trivial, ih .text trivial⟩
    | esc =>
      by_cases hc : c = 91
      · simp only [lexRun, hc, if_true]; exact ih (.csi []) (by simp [St.accOk])
      · simp only [lexRun, hc, if_false]
        exact ⟨hc, fun _ => trivial, ih .text trivial⟩
    | csi acc =>
      by_cases hc : isParamB c = true
      · simp only [lexRun, hc, if_true]
        refine ih (.csi (acc ++ [c])) ?_
        intro p hp
        simp only [List.mem_append, List.mem_singleton] at hp
        rcases hp with hp | rfl
        · exact hacc p hp
        · exact hc
      · simp only [lexRun, hc, if_false]
        exact ⟨⟨hacc, by simpa using hc⟩, fun _ => trivial, ih .text trivial⟩

/-! ### NUL is the end of the string -/

theorem run_cstr (flag : Nat) (st : St) (s : List Nat) : run flag st (cstr s) = run flag st s := by
  induction s generalizing st with
  | nil => rfl
  | cons c r ih =>
    rw [cstr_cons]
    by_cases hc : c = 0
    · subst hc
      cases st with
      | text => simp [run]
      | esc => simp [run]
      | csi acc => simp [run, isParamB_nul, keepB, isCmdB_nul]
    · simp only [hc, if_false]
      cases st with
      | text => simp only [run, hc, if_false, ih]
      | esc => simp only [run, hc, if_false, ih]
      | csi acc => simp only [run, hc, if_false, ih]

/-! ### strip-all -/

theorem run_all_no_esc (flag : Nat) (h1 : flag ≠ STRIP_ANSI_NO_RELOAD) (h2 : flag ≠ STRIP_ANSI_ONLY_COLOR)
    (st : St) (s : List Nat) : ESC ∉ run flag st s := by
  have hk : ∀ f, keepB flag f = false := by intro f; simp [keepB, h1, h2]
  induction s generalizing st with
  | nil => cases st <;> simp [run]
  | cons c r ih =>
    cases st with
    | text =>
      simp only [run]
      by_cases hc0 : c = 0
      · simp [hc0]
      · by_cases hce : c = ESC
        · simp only [hc0, hce, if_false, if_true]; exact ih .esc
        · simp only [hc0, hce, if_false, List.mem_cons, not_or]
          exact ⟨fun h => hce h.symm, ih .text⟩
    | esc =>
      simp only [run]
      by_cases hc : c = 91
      · simp only [hc, if_true]; exact ih _
      · by_cases hc0 : c = 0
        · simp [hc, hc0]
        · simp only [hc, hc0, if_false]; exact ih _
    | csi acc =>
      simp only [run, hk]
      by_cases hc : isParamB c = true
      · simp only [hc, if_true]; exact ih _
      · by_cases hc0 : c = 0
        · subst hc0; simp [isParamB_nul]
        · simp only [hc, hc0, Bool.false_eq_true, if_false, List.nil_append]; exact ih _

theorem run_no_nul (flag : Nat) (st : St) (s : List Nat) (hacc : ∀ p ∈ st.pend, p ≠ 0) : 0 ∉ run flag st s := by
  induction s generalizing st with
  | nil => cases st <;> simp [run]
  | cons c r ih =>
    cases st with
    | text =>
      simp only [run]
      by_cases hc0 : c = 0
      · simp [hc0]
      · by_cases hce : c = ESC
        · simp only [hc0, hce, if_false, if_true]; exact ih .esc (by simp [St.pend, ESC_ne_zero])
        · simp only [hc0, hce, if_false, List.mem_cons, not_or]
          exact ⟨fun h => hc0 h.symm, ih .text (by simp [St.pend])⟩
    | esc =>
      simp only [run]
      by_cases hc : c = 91
      · simp only [hc, if_true]; exact ih _ (by simp [St.pend, ESC_ne_zero])
      · by_cases hc0 : c = 0
        · simp [hc, hc0]
        · simp only [hc, hc0, if_false]; exact ih _ (by simp [St.pend])
    | csi acc =>
      simp only [run]
      by_cases hc : isParamB c = true
      · have hc0 : c ≠ 0 := by intro h; rw [h, isParamB_nul] at hc; exact absurd hc (by simp)
        simp only [hc, if_true]
        refine ih _ ?_
        intro p hp
        simp only [St.pend, List.mem_cons, List.mem_append, List.mem_singleton, List.not_mem_nil, or_false] at hp
        rcases hp with rfl | rfl | hp | rfl
        · exact ESC_ne_zero
        · omega
        · exact hacc p (by simp [St.pend, hp])
        · exact hc0
      · by_cases hc0 : c = 0
        · subst hc0; simp [isParamB_nul, keepB, isCmdB_nul]
        · simp only [hc, hc0, Bool.false_eq_true, if_false, List.mem_append, not_or]
          refine ⟨?_, ih _ (by simp [St.pend])⟩
          by_cases hk : keepB flag c = true
          · simp only [hk, if_true]
            intro hm
            simp only [List.mem_cons, List.mem_append, List.mem_singleton, List.not_mem_nil, or_false] at hm
            rcases hm with h | h | h | h
            · exact ESC_ne_zero h.symm
            · omega
            · exact hacc 0 (by simp [St.pend, h]) rfl
            · exact hc0 h.symm
          · simp [hk]

theorem run_plain (flag : Nat) (s : List Nat) (h : ∀ b ∈ s, b ≠ 0 ∧ b ≠ ESC) : run flag .text s = s := by
  induction s with
  | nil => rfl
  | cons c r ih =>
    obtain ⟨h1, h2⟩ := h c (by simp)
    simp only [run, h1, h2, if_false]
    rw [ih (fun b hb => h b (by simp [hb]))]

/-! ### idempotence, every mode -/

theorem keepTok_cases (flag : Nat) (t : Tok) : keepTok flag t = [] ∨ (keepTok flag t = t.bytes ∧ t.complete) := by
  cases t with
  | plain b => exact .inr ⟨rfl, trivial⟩
  | escOther b => exact .inl rfl
  | csi ps f =>
    simp only [keepTok]
    split
    · exact .inr ⟨rfl, trivial⟩
    · exact .inl rfl
  | csiTrunc ps => exact .inl rfl
  | escEnd => exact .inl rfl

theorem run_kept_toks (flag : Nat) (toks : List Tok) (hwf : WF toks) (h0 : ∀ b ∈ bytesOf toks, b ≠ 0) :
    run flag .text (toks.flatMap (keepTok flag)) = toks.flatMap (keepTok flag) := by
  induction toks with
  | nil => simp [run]
  | cons t rest ih =>
    obtain ⟨hok, _, hwf'⟩ := hwf
    have h0t : ∀ b ∈ t.bytes, b ≠ 0 := fun b hb => h0 b (by simp [bytesOf, hb])
    have h0r : ∀ b ∈ bytesOf rest, b ≠ 0 := fun b hb => h0 b (by
      simp only [bytesOf, List.flatMap_cons, List.mem_append]; exact .inr hb)
    simp only [List.flatMap_cons]
    rcases keepTok_cases flag t with h | ⟨h, hc⟩
    · rw [h]; simpa using ih hwf' h0r
    · rw [h, run_tok flag t _ hok hc h0t, h, ih hwf' h0r]

end PttVerif.C18
