import PttVerif.Model.C03
/-
C03 — helper lemmas (character classes, C strings, the id validator, the index search, the refinement relation and
its preservation by every operation).  Core Lean only.
-/
namespace PttVerif.C03
open PttVerif

/-! ### character classes (over the regenerated interval lists) -/

theorem isAlpha_iff (c : Nat) : isAlpha c = true ↔ isLetter c := by
  simp [isAlpha, inRanges, Gen.Acct.alphaRanges, isLetter]

theorem isNumber_iff (c : Nat) : isNumber c = true ↔ isDigit c := by
  simp [isNumber, inRanges, Gen.Acct.numberRanges, isDigit]

theorem isAlnum_iff (c : Nat) : isAlnum c = true ↔ (isLetter c ∨ isDigit c) := by
  simp [isAlnum, isAlpha_iff, isNumber_iff]

theorem lenGuard_iff (n : Nat) :
    Gen.Acct.lenGuard.any (fun g => cmpOp g.1 n g.2) = true ↔ (n < 2 ∨ n > 12) := by
  simp [Gen.Acct.lenGuard, cmpOp]

theorem tolower_eq_zero (c : Nat) : tolower c = 0 ↔ c = 0 := by
  unfold tolower; split <;> omega

theorem tolower_idem (c : Nat) : tolower (tolower c) = tolower c := by
  by_cases h : 65 ≤ c ∧ c ≤ 90
  · simp [tolower, h]; omega
  · simp [tolower, h]

/-! ### C strings -/

theorem cstr_nil : cstr [] = [] := rfl

theorem cstr_cons (x : Nat) (xs : List Nat) : cstr (x :: xs) = if x = 0 then [] else x :: cstr xs := by
  unfold cstr; by_cases h : x = 0 <;> simp [h]

theorem cstr_map_tolower (a : Bytes) : cstr (a.map tolower) = (cstr a).map tolower := by
  induction a with
  | nil => rfl
  | cons x xs ih =>
    rw [List.map_cons, cstr_cons, cstr_cons]
    by_cases h : x = 0
    · simp [h, tolower]
    · have : tolower x ≠ 0 := fun e => h ((tolower_eq_zero x).1 e)
      simp [h, this, ih]

theorem cstr_no_zero (a : Bytes) : ∀ c ∈ cstr a, c ≠ 0 := by
  induction a with
  | nil => intro c hc; simp [cstr_nil] at hc
  | cons x xs ih =>
    intro c hc
    rw [cstr_cons] at hc
    by_cases hx : x = 0
    · simp [hx] at hc
    · simp only [hx, if_false, List.mem_cons] at hc
      rcases hc with rfl | hc
      · exact hx
      · exact ih c hc

theorem cstr_of_no_zero (a : Bytes) (h : ∀ c ∈ a, c ≠ 0) : cstr a = a := by
  induction a with
  | nil => rfl
  | cons x xs ih =>
    rw [cstr_cons, if_neg (h x (by simp)), ih (fun c hc => h c (by simp [hc]))]

theorem cstr_idem (a : Bytes) : cstr (cstr a) = cstr a := cstr_of_no_zero _ (cstr_no_zero a)

theorem cstr_append_zeros (l : Bytes) (k : Nat) : cstr (l ++ List.replicate k 0) = cstr l := by
  induction l with
  | nil =>
    cases k with
    | zero => rfl
    | succ k => simp [List.replicate_succ, cstr_cons, cstr_nil]
  | cons x xs ih =>
    rw [List.cons_append, cstr_cons, cstr_cons, ih]

theorem takeWhile_take {α} (p : α → Bool) (n : Nat) (l : List α) :
    (l.take n).takeWhile p = (l.takeWhile p).take n := by
  induction l generalizing n with
  | nil => simp
  | cons x xs ih =>
    cases n with
    | zero => simp
    | succ n =>
      rw [List.take_succ_cons, List.takeWhile_cons, List.takeWhile_cons]
      by_cases h : p x
      · simp [h, ih]
      · simp [h]

/-- what the fixed-size `copy` leaves of a submitted string: its C-string reading cut at the array size. -/
theorem cstr_copyInto (n : Nat) (src : Bytes) : cstr (copyInto n src) = (cstr src).take n := by
  unfold copyInto
  simp only []
  rw [cstr_append_zeros]
  unfold cstr
  exact takeWhile_take _ n src

theorem cstr_headD (a : Bytes) : a.headD 0 = 0 ↔ cstr a = [] := by
  cases a with
  | nil => simp [cstr_nil]
  | cons x xs =>
    rw [cstr_cons]
    by_cases h : x = 0 <;> simp [h]

theorem cstr_headD_eq (a : Bytes) (h : cstr a ≠ []) : a.headD 0 = (cstr a).headD 0 := by
  cases a with
  | nil => simp [cstr_nil] at h
  | cons x xs =>
    rw [cstr_cons] at h ⊢
    by_cases hx : x = 0
    · simp [hx] at h
    · simp [hx]

/-! ### Cstrcmp / Cstrcasecmp decide equality of the C-string readings -/

theorem cstrcmp_zero_iff (a b : Bytes) : cstrcmp a b = 0 ↔ cstr a = cstr b := by
  induction a generalizing b with
  | nil =>
    cases b with
    | nil => simp [cstrcmp]
    | cons y ys =>
      simp only [cstrcmp, cstr_nil, cstr_cons]
      by_cases hy : y = 0
      · simp [hy]
      · simp [hy]
  | cons x xs ih =>
    cases b with
    | nil =>
      simp only [cstrcmp, cstr_nil, cstr_cons]
      by_cases hx : x = 0
      · simp [hx]
      · simp [hx]
    | cons y ys =>
      simp only [cstrcmp, cstr_cons]
      by_cases hx : x = 0
      · by_cases hy : y = 0
        · simp [hx, hy]
        · simp [hx, hy]
      · by_cases hxy : x = y
        · subst hxy
          simp [hx, ih]
        · have : y = 0 ∨ y ≠ 0 := by omega
          rcases this with hy | hy
          · simp [hx, hy]
          · simp [hx, hy, hxy]; omega

theorem foldId_eq (a : Bytes) : foldId a = cstr (a.map tolower) := by
  rw [foldId, cstr_map_tolower]

theorem cstrcasecmp_zero_iff (a b : Bytes) : cstrcasecmp a b = 0 ↔ foldId a = foldId b := by
  rw [cstrcasecmp, cstrcmp_zero_iff, foldId_eq, foldId_eq]

theorem foldId_nil_iff (a : Bytes) : foldId a = [] ↔ a.headD 0 = 0 := by
  rw [cstr_headD, foldId]; simp

theorem foldId_length (a : Bytes) : (foldId a).length = (cstr a).length := by simp [foldId]

theorem foldId_copyInto (n : Nat) (src : Bytes) : foldId (copyInto n src) = (foldId src).take n := by
  rw [foldId, cstr_copyInto, foldId, List.map_take]

theorem foldId_of_no_zero (a : Bytes) (h : ∀ c ∈ a, c ≠ 0) : foldId a = a.map tolower := by
  rw [foldId, cstr_of_no_zero a h]

/-! ### the id validator -/

theorem consts : IDLEN = 12 ∧ IDSZ = 13 ∧ EMAILSZ = 50 ∧ MAX = 50 ∧ USHM = 31 ∧
    STR_GUEST = [103, 117, 101, 115, 116] ∧ STR_REGNEW = [110, 101, 119] := by decide

theorem take_cstr_length (u : Bytes) : u.take (cstr u).length = cstr u := by
  induction u with
  | nil => rfl
  | cons x xs ih =>
    rw [cstr_cons]
    by_cases h : x = 0
    · simp [h]
    · simp [h, ih]

theorem validLoop_iff (u : Bytes) (idx n : Nat) (h : idx ≤ n) :
    validLoop u idx n = true ↔ ∀ c ∈ u.take (n - idx), isAlnum c = true := by
  induction u generalizing idx with
  | nil => simp [validLoop]
  | cons c cs ih =>
    unfold validLoop
    by_cases he : idx = n
    · simp [he]
    · have : n - idx = (n - (idx + 1)) + 1 := by omega
      rw [if_neg he, this, List.take_succ_cons]
      by_cases hc : isAlnum c = true
      · simp [hc, ih (idx + 1) (by omega)]
      · simp [hc]

/-- `UserID_t.IsValid` accepts exactly the arrays whose C-string reading is 2–12 alphanumerics with a leading letter. -/
theorem isValidId_iff (u : Bytes) : isValidId u = true ↔ WellFormed (cstr u) := by
  unfold isValidId WellFormed
  simp only []
  by_cases hg : (cstr u).length < 2 ∨ (cstr u).length > 12
  · rw [if_pos ((lenGuard_iff _).2 hg)]
    constructor
    · intro h; cases h
    · intro h; omega
  · rw [if_neg (fun h => hg ((lenGuard_iff _).1 h))]
    have hne : cstr u ≠ [] := by intro e; rw [e] at hg; simp at hg
    have hhead : u.headD 0 = (cstr u).headD 0 := cstr_headD_eq u hne
    have hl : validLoop u 0 (cstr u).length = true ↔ ∀ c ∈ cstr u, isLetter c ∨ isDigit c := by
      rw [validLoop_iff u 0 _ (Nat.zero_le _), Nat.sub_zero, take_cstr_length]
      constructor
      · intro h c hc; exact (isAlnum_iff c).1 (h c hc)
      · intro h c hc; exact (isAlnum_iff c).2 (h c hc)
    obtain ⟨x, xs, hx⟩ := List.exists_cons_of_ne_nil hne
    have hx0 : (cstr u).headD 0 = x := by rw [hx]; rfl
    rw [hhead, hx0]
    by_cases ha : isAlpha x = true
    · have hL := (isAlpha_iff x).1 ha
      simp only [ha, Bool.not_true, Bool.false_eq_true, if_false]
      rw [hl]
      constructor
      · intro h; exact ⟨by omega, by omega, ⟨x, by rw [hx]; rfl, hL⟩, h⟩
      · intro h; exact h.2.2.2
    · have hL : ¬ isLetter x := fun h => ha ((isAlpha_iff x).2 h)
      simp only [ha, Bool.not_false, if_true]
      constructor
      · intro h; cases h
      · rintro ⟨_, _, ⟨c, hc, hcl⟩, _⟩
        rw [hx] at hc
        simp at hc; subst hc; exact absurd hcl hL

theorem wellFormed_no_zero {s : Bytes} (h : WellFormed s) : ∀ c ∈ s, c ≠ 0 := by
  intro c hc e
  rcases h.2.2.2 c hc with hl | hd
  · unfold isLetter at hl; omega
  · unfold isDigit at hd; omega

theorem wellFormed_ne_nil {s : Bytes} (h : WellFormed s) : s ≠ [] := by
  intro e; have := h.1; rw [e] at this; simp at this

theorem contains_zero_iff (s : Bytes) : s.contains 0 = false ↔ ∀ c ∈ s, c ≠ 0 := by
  induction s with
  | nil => simp
  | cons x xs ih =>
    simp only [List.contains_cons, Bool.or_eq_false_iff, ih, List.mem_cons, forall_eq_or_imp]
    constructor
    · rintro ⟨h1, h2⟩; exact ⟨by intro e; subst e; simp at h1, h2⟩
    · rintro ⟨h1, h2⟩; exact ⟨by simp; exact fun e => h1 e.symm, h2⟩

/-- the C-string reading of the array a valid submitted string is copied into is that string. -/
theorem cstr_copy_of_wf {s : Bytes} (h : WellFormed (cstr s)) : cstr (copyInto IDSZ s) = cstr s := by
  rw [cstr_copyInto, List.take_of_length_le]
  have := h.2.1; rw [consts.2.1]; omega

theorem wf_copy_iff (s : Bytes) : WellFormed (cstr (copyInto IDSZ s)) ↔ WellFormed (cstr s) := by
  constructor
  · intro h
    rw [cstr_copyInto] at h
    have hl := h.2.1
    rw [List.length_take, consts.2.1] at hl
    have h13 : (cstr s).length ≤ IDSZ := by rw [consts.2.1]; omega
    rwa [List.take_of_length_le h13] at h
  · intro h; rw [cstr_copy_of_wf h]; exact h

theorem foldId_copy_of_wf {s : Bytes} (h : WellFormed (cstr s)) : foldId (copyInto IDSZ s) = foldId s := by
  rw [foldId, cstr_copy_of_wf h, foldId]

theorem isBadUserID_iff (u : Bytes) :
    isBadUserID u = false ↔ (WellFormed (cstr u) ∧ foldId u ≠ foldId STR_REGNEW ∧ foldId u ≠ foldId STR_GUEST) := by
  unfold isBadUserID
  have hg : STR_GUEST ≠ [] := by decide
  by_cases hv : isValidId u = true
  · have hw := (isValidId_iff u).1 hv
    simp only [hv, Bool.not_true, Bool.false_eq_true, if_false, cstrcasecmp_zero_iff]
    by_cases h1 : foldId u = foldId STR_REGNEW
    · simp [h1]
    · by_cases h2 : foldId u = foldId STR_GUEST
      · simp [h2, hg]
      · simp [h1, h2, hw]
  · have hw : ¬ WellFormed (cstr u) := fun h => hv ((isValidId_iff u).2 h)
    simp [hv, hw]

theorem isReservedUserID_iff (rs : List Bytes) (u : Bytes) :
    isReservedUserID rs u = true ↔ ∃ r ∈ rs, foldId u = foldId r := by
  simp [isReservedUserID, cstrcasecmp_zero_iff]

theorem foldId_consts : foldId STR_REGNEW = STR_REGNEW.map tolower ∧ foldId STR_GUEST = STR_GUEST.map tolower := by decide

/-- the three gates of a registration (NUL test of the wrapper, isBadUserID, isReservedUserID) pass exactly for
the submitted strings that are well-formed and not reserved. -/
theorem gate_iff (rs : List Bytes) (name : Bytes) :
    (name.contains 0 = false ∧ isBadUserID (copyInto IDSZ name) = false ∧ isReservedUserID rs (copyInto IDSZ name) = false) ↔
      (WellFormed name ∧ ¬ Reserved rs name) := by
  constructor
  · rintro ⟨hz, hb, hr⟩
    have hnz := (contains_zero_iff name).1 hz
    have hc : cstr name = name := cstr_of_no_zero name hnz
    obtain ⟨hw, h1, h2⟩ := (isBadUserID_iff _).1 hb
    have hw' : WellFormed (cstr name) := (wf_copy_iff name).1 hw
    have hf : foldId (copyInto IDSZ name) = name.map tolower := by
      rw [foldId_copy_of_wf hw', foldId, hc]
    rw [hf, foldId_consts.1] at h1
    rw [hf, foldId_consts.2] at h2
    refine ⟨hc ▸ hw', ?_⟩
    rintro (h | h | ⟨r, hr1, hr2⟩)
    · exact h1 h
    · exact h2 h
    · have : isReservedUserID rs (copyInto IDSZ name) = true :=
        (isReservedUserID_iff rs _).2 ⟨r, hr1, by rw [hf]; exact hr2⟩
      rw [this] at hr; cases hr
  · rintro ⟨hw, hres⟩
    have hnz := wellFormed_no_zero hw
    have hc : cstr name = name := cstr_of_no_zero name hnz
    have hw' : WellFormed (cstr name) := by rw [hc]; exact hw
    have hf : foldId (copyInto IDSZ name) = name.map tolower := by
      rw [foldId_copy_of_wf hw', foldId, hc]
    refine ⟨(contains_zero_iff name).2 hnz, (isBadUserID_iff _).2 ⟨(wf_copy_iff name).2 hw', ?_, ?_⟩, ?_⟩
    · rw [hf, foldId_consts.1]; exact fun h => hres (Or.inl h)
    · rw [hf, foldId_consts.2]; exact fun h => hres (Or.inr (Or.inl h))
    · cases hr : isReservedUserID rs (copyInto IDSZ name) with
      | false => rfl
      | true =>
        obtain ⟨r, hr1, hr2⟩ := (isReservedUserID_iff rs _).1 hr
        exact absurd (Or.inr (Or.inr ⟨r, hr1, by rw [← hf]; exact hr2⟩)) hres

/-! ### the index search -/

section
variable {C : Crypto}

/-- a slot is in use when its id is not the empty C string. -/
def inUse (r : Rec C) : Prop := r.id.headD 0 ≠ 0

theorem inUse_iff_fold (r : Rec C) : inUse r ↔ foldId r.id ≠ [] := by
  unfold inUse; rw [Ne, Ne, foldId_nil_iff]

theorem searchFrom_zero (rs : List (Rec C)) (q : Bytes) (i : Nat) :
    searchFrom rs q i = 0 ↔ ∀ (k : Nat) (r : Rec C), rs[k]? = some r → foldId q ≠ foldId r.id := by
  induction rs generalizing i with
  | nil => simp [searchFrom]
  | cons x xs ih =>
    unfold searchFrom
    by_cases h : cstrcasecmp q x.id = 0
    · rw [if_pos h]
      constructor
      · intro e; omega
      · intro hh; exact absurd ((cstrcasecmp_zero_iff _ _).1 h) (hh 0 x rfl)
    · rw [if_neg h, ih]
      constructor
      · intro hh k r hk
        cases k with
        | zero => simp at hk; subst hk; exact fun e => h ((cstrcasecmp_zero_iff _ _).2 e)
        | succ k => exact hh k r (by simpa using hk)
      · intro hh k r hk; exact hh (k + 1) r (by simpa using hk)

theorem searchFrom_pos (rs : List (Rec C)) (q : Bytes) (i : Nat) (h : searchFrom rs q i ≠ 0) :
    ∃ (k : Nat) (r : Rec C), searchFrom rs q i = i + k + 1 ∧ rs[k]? = some r ∧ foldId q = foldId r.id ∧
      ∀ (j : Nat) (r' : Rec C), j < k → rs[j]? = some r' → foldId q ≠ foldId r'.id := by
  induction rs generalizing i with
  | nil => simp [searchFrom] at h
  | cons x xs ih =>
    unfold searchFrom at h ⊢
    by_cases hc : cstrcasecmp q x.id = 0
    · rw [if_pos hc]
      exact ⟨0, x, rfl, rfl, (cstrcasecmp_zero_iff _ _).1 hc, fun j _ hj => absurd hj (Nat.not_lt_zero j)⟩
    · rw [if_neg hc] at h ⊢
      obtain ⟨k, r, h1, h2, h3, h4⟩ := ih (i + 1) h
      refine ⟨k + 1, r, by omega, by simpa using h2, h3, ?_⟩
      intro j r' hj hr'
      cases j with
      | zero => simp at hr'; subst hr'; exact fun e => hc ((cstrcasecmp_zero_iff _ _).2 e)
      | succ j => exact h4 j r' (by omega) (by simpa using hr')

theorem foldId_zeros (n : Nat) : foldId (List.replicate n 0) = [] := by
  cases n with
  | zero => rfl
  | succ n => simp [foldId, List.replicate_succ, cstr_cons]

/-! ### counting free slots -/

def isFree (r : Rec C) : Bool := r.id.headD 0 == 0

theorem isFree_iff (r : Rec C) : isFree r = true ↔ ¬ inUse r := by simp [isFree, inUse]

theorem countP_set_same {α} (p : α → Bool) (l : List α) (i : Nat) (x y : α) (hx : l[i]? = some x) (hp : p y = p x) :
    (l.set i y).countP p = l.countP p := by
  induction l generalizing i with
  | nil => simp at hx
  | cons a as ih =>
    cases i with
    | zero => simp at hx; subst hx; simp [List.countP_cons, hp]
    | succ i => simp only [List.set_cons_succ, List.countP_cons]; rw [ih i (by simpa using hx)]

theorem countP_set_drop {α} (p : α → Bool) (l : List α) (i : Nat) (x y : α) (hx : l[i]? = some x) (hpx : p x = true)
    (hpy : p y = false) : (l.set i y).countP p + 1 = l.countP p := by
  induction l generalizing i with
  | nil => simp at hx
  | cons a as ih =>
    cases i with
    | zero => simp at hx; subst hx; simp [hpx, hpy]
    | succ i =>
      simp only [List.set_cons_succ, List.countP_cons]
      have := ih i (by simpa using hx)
      omega

/-! ### the refinement relation -/

/-- the stored hash behaves, on the passwords of the universe `pws`, like the account's password says. -/
def HashRel (C : Crypto) (pws : List Bytes) (h : C.H) (pw : Option Bytes) : Prop :=
  ∀ q ∈ pws, C.check h q = decide (pw = some (effKey8 q))

/-- the key of the account that holds uid. -/
def keyOf (s : State C) (uid : Nat) : Bytes :=
  match recOf s uid with
  | some r => foldId r.id
  | none => []

structure R (C : Crypto) (pws : List Bytes) (s : State C) (t : Table) : Prop where
  len : s.recs.length = MAX
  valid : ∀ (i : Nat) (r : Rec C), s.recs[i]? = some r → inUse r → isValidId r.id = true
  uniq : ∀ (i j : Nat) (ri rj : Rec C), s.recs[i]? = some ri → s.recs[j]? = some rj → inUse ri →
    foldId ri.id = foldId rj.id → i = j
  sound : ∀ (i : Nat) (r : Rec C), s.recs[i]? = some r → inUse r →
    ∃ a, t.acc (foldId r.id) = some a ∧ a.id = cstr r.id ∧ a.email = r.email ∧ HashRel C pws r.hash a.pw
  complete : ∀ k a, t.acc k = some a → ∃ (i : Nat) (r : Rec C), s.recs[i]? = some r ∧ inUse r ∧ foldId r.id = k
  free : t.free = s.recs.countP isFree
  sess_eq : t.sess = s.sess.map (keyOf s)
  sess_ok : ∀ uid ∈ s.sess, 1 ≤ uid ∧ ∃ r, recOf s uid = some r ∧ inUse r

theorem uidValid_succ (i : Nat) : uidValid (i + 1) = true ↔ i < MAX := by
  simp [uidValid]; omega

theorem recOf_succ (s : State C) (i : Nat) : recOf s (i + 1) = s.recs[i]? := by simp [recOf]

theorem setRec_recs (s : State C) (i : Nat) (r : Rec C) : (setRec s (i + 1) r).recs = s.recs.set i r := by
  simp [setRec]

variable {pws : List Bytes} {s : State C} {t : Table}

theorem R.lookup_missing (h : R C pws s t) (q : Bytes) (hq : t.acc (foldId q) = none) : searchUserRaw s q = 0 := by
  unfold searchUserRaw
  by_cases h0 : q.headD 0 = 0
  · rw [if_pos h0]
  · rw [if_neg h0]
    unfold doSearchUserRaw
    rw [searchFrom_zero]
    intro k r hk e
    have hu : inUse r := by
      rw [inUse_iff_fold, ← e, Ne, foldId_nil_iff]; exact h0
    obtain ⟨a, ha, _⟩ := h.sound k r hk hu
    rw [← e, hq] at ha; cases ha

theorem R.lookup_found (h : R C pws s t) (q : Bytes) (a : Account) (hq : t.acc (foldId q) = some a)
    (hne : q.headD 0 ≠ 0) :
    ∃ (i : Nat) (r : Rec C), searchUserRaw s q = i + 1 ∧ i < MAX ∧ s.recs[i]? = some r ∧ inUse r ∧ foldId r.id = foldId q ∧
      a.id = cstr r.id ∧ a.email = r.email ∧ HashRel C pws r.hash a.pw := by
  obtain ⟨i0, r0, hr0, hu0, hk0⟩ := h.complete _ _ hq
  have hnz : searchFrom s.recs q 0 ≠ 0 := by
    intro e
    exact (searchFrom_zero _ _ _).1 e i0 r0 hr0 hk0.symm
  obtain ⟨k, r, h1, h2, h3, _⟩ := searchFrom_pos _ _ _ hnz
  have hu : inUse r := by rw [inUse_iff_fold, ← h3, Ne, foldId_nil_iff]; exact hne
  obtain ⟨a', ha', hid, hem, hh⟩ := h.sound k r h2 hu
  rw [← h3, hq] at ha'; cases ha'
  have hk : k < MAX := by
    have := (List.getElem?_eq_some_iff.1 h2).1
    rw [h.len] at this; exact this
  refine ⟨k, r, ?_, hk, h2, hu, h3.symm, hid, hem, hh⟩
  unfold searchUserRaw doSearchUserRaw
  rw [if_neg hne, h1]; omega

/-- the empty-slot search: 0 exactly when no slot is free, else the first free slot. -/
theorem R.free_search (h : R C pws s t) :
    (t.free = 0 → doSearchUserRaw s (List.replicate IDSZ 0) = 0) ∧
    (t.free ≠ 0 → ∃ (i : Nat) (e : Rec C), doSearchUserRaw s (List.replicate IDSZ 0) = i + 1 ∧ i < MAX ∧ s.recs[i]? = some e ∧ ¬ inUse e) := by
  unfold doSearchUserRaw
  constructor
  · intro h0
    rw [searchFrom_zero]
    intro k r hk e
    rw [h.free, List.countP_eq_zero] at h0
    have hm : r ∈ s.recs := List.mem_of_getElem? hk
    have := h0 r hm
    rw [foldId_zeros] at e
    have hu : ¬ inUse r := by rw [inUse_iff_fold]; exact fun x => x e.symm
    exact this ((isFree_iff r).2 hu)
  · intro hne
    have hnz : searchFrom s.recs (List.replicate IDSZ 0) 0 ≠ 0 := by
      intro e
      apply hne
      rw [h.free, List.countP_eq_zero]
      intro r hm hf
      obtain ⟨k, hk⟩ := List.getElem?_of_mem hm
      have := (searchFrom_zero _ _ _).1 e k r hk
      rw [foldId_zeros] at this
      have hu : ¬ inUse r := (isFree_iff r).1 hf
      rw [inUse_iff_fold] at hu
      exact this (Classical.not_not.1 hu).symm
    obtain ⟨k, r, h1, h2, h3, _⟩ := searchFrom_pos _ _ _ hnz
    have hk : k < MAX := by
      have := (List.getElem?_eq_some_iff.1 h2).1
      rw [h.len] at this; exact this
    rw [foldId_zeros] at h3
    refine ⟨k, r, by omega, hk, h2, ?_⟩
    rw [inUse_iff_fold]; exact fun x => x h3.symm


/-! ### writing one record -/

theorem set_cases {α} (l : List α) (i : Nat) (y : α) (j : Nat) (z : α) (h : (l.set i y)[j]? = some z) :
    (j = i ∧ z = y) ∨ (j ≠ i ∧ l[j]? = some z) := by
  by_cases e : i = j
  · subst e
    rw [List.getElem?_set_self'] at h
    cases hl : l[i]? with
    | none => rw [hl] at h; simp at h
    | some x => rw [hl] at h; simp at h; exact Or.inl ⟨rfl, h.symm⟩
  · rw [List.getElem?_set_ne e] at h
    exact Or.inr ⟨fun x => e x.symm, h⟩

theorem set_self {α} (l : List α) (i : Nat) (x y : α) (hx : l[i]? = some x) : (l.set i y)[i]? = some y := by
  rw [List.getElem?_set_self ((List.getElem?_eq_some_iff.1 hx).1)]

theorem updAcc_self (f : Bytes → Option Account) (k : Bytes) (a : Account) (h : f k = some a) : updAcc f k a = f := by
  funext k'; unfold updAcc; by_cases e : k' = k
  · rw [if_pos e, e, h]
  · rw [if_neg e]

theorem keyOf_sess (s : State C) (l : List Nat) (uid : Nat) : keyOf { s with sess := l } uid = keyOf s uid := rfl

/-- (A) a record is rewritten with the same id. -/
theorem R.update (h : R C pws s t) {i : Nat} {r r' : Rec C} (hi : s.recs[i]? = some r) (hu : inUse r)
    (hid : r'.id = r.id) {pw' : Option Bytes} (hh : HashRel C pws r'.hash pw') :
    R C pws (setRec s (i + 1) r') { t with acc := updAcc t.acc (foldId r.id) ⟨cstr r.id, pw', r'.email⟩ } := by
  have hu' : inUse r' := by unfold inUse; rw [hid]; exact hu
  -- every record of the new file has the id the old file has in that slot
  have old : ∀ (j : Nat) (z : Rec C), (s.recs.set i r')[j]? = some z →
      ∃ z0, s.recs[j]? = some z0 ∧ z.id = z0.id ∧ (j ≠ i → z = z0) ∧ (j = i → z = r' ∧ z0 = r) := by
    intro j z hz
    rcases set_cases _ _ _ _ _ hz with ⟨rfl, rfl⟩ | ⟨hne, hz'⟩
    · exact ⟨r, hi, hid, fun x => absurd rfl x, fun _ => ⟨rfl, rfl⟩⟩
    · exact ⟨z, hz', rfl, fun _ => rfl, fun x => absurd x hne⟩
  have inU : ∀ (z z0 : Rec C), z.id = z0.id → (inUse z ↔ inUse z0) := by
    intro z z0 e; unfold inUse; rw [e]
  refine ⟨?_, ?_, ?_, ?_, ?_, ?_, ?_, ?_⟩
  · rw [setRec_recs, List.length_set]; exact h.len
  · intro j z hz huz
    rw [setRec_recs] at hz
    obtain ⟨z0, h0, e, _, _⟩ := old j z hz
    rw [e]; exact h.valid j z0 h0 ((inU z z0 e).1 huz)
  · intro j1 j2 z1 z2 hz1 hz2 hu1 hf
    rw [setRec_recs] at hz1 hz2
    obtain ⟨y1, h1, e1, _, _⟩ := old j1 z1 hz1
    obtain ⟨y2, h2, e2, _, _⟩ := old j2 z2 hz2
    exact h.uniq j1 j2 y1 y2 h1 h2 ((inU z1 y1 e1).1 hu1) (by rw [← e1, ← e2]; exact hf)
  · intro j z hz huz
    rw [setRec_recs] at hz
    obtain ⟨z0, h0, e, hne, heq⟩ := old j z hz
    by_cases hj : j = i
    · obtain ⟨rfl, rfl⟩ := heq hj
      refine ⟨⟨cstr z0.id, pw', z.email⟩, ?_, by rw [hid], rfl, hh⟩
      show updAcc t.acc (foldId z0.id) _ (foldId z.id) = _
      rw [hid]; simp [updAcc]
    · have hz0 := hne hj; subst hz0
      have hk : foldId z.id ≠ foldId r.id := by
        intro ek
        exact hj (h.uniq j i z r h0 hi huz ek)
      obtain ⟨a, ha, r1, r2, r3⟩ := h.sound j z h0 huz
      exact ⟨a, by show updAcc t.acc _ _ _ = _; simp [updAcc, hk, ha], r1, r2, r3⟩
  · intro k a hk
    change updAcc t.acc (foldId r.id) _ k = some a at hk
    unfold updAcc at hk
    by_cases e : k = foldId r.id
    · refine ⟨i, r', ?_, hu', by rw [hid, e]⟩
      rw [setRec_recs]; exact set_self _ _ _ _ hi
    · rw [if_neg e] at hk
      obtain ⟨j, z, hz, huz, hkz⟩ := h.complete k a hk
      have hj : j ≠ i := by
        intro x; subst x; rw [hi] at hz; cases hz; exact e hkz.symm
      refine ⟨j, z, ?_, huz, hkz⟩
      rw [setRec_recs, List.getElem?_set_ne (fun x => hj x.symm)]; exact hz
  · show t.free = _
    rw [setRec_recs, countP_set_same isFree _ _ r r' hi (by unfold isFree; rw [hid])]; exact h.free
  · show t.sess = _
    rw [h.sess_eq]
    apply List.map_congr_left
    intro uid _
    unfold keyOf recOf
    rw [setRec_recs]
    by_cases e : uid - 1 = i
    · rw [e, hi, set_self _ _ _ _ hi]; simp only [hid]
    · rw [List.getElem?_set_ne (fun x => e x.symm)]
  · intro uid hm
    obtain ⟨h1, r0, hr0, hu0⟩ := h.sess_ok uid hm
    refine ⟨h1, ?_⟩
    unfold recOf at hr0 ⊢
    rw [setRec_recs]
    by_cases e : uid - 1 = i
    · rw [e, set_self _ _ _ _ hi]; exact ⟨r', rfl, hu'⟩
    · rw [List.getElem?_set_ne (fun x => e x.symm)]; exact ⟨r0, hr0, hu0⟩

/-- who holds a session: uid ↔ key. -/
theorem R.sess_mem (h : R C pws s t) {i : Nat} {r : Rec C} (hi : s.recs[i]? = some r) (_hu : inUse r) :
    (i + 1) ∈ s.sess ↔ foldId r.id ∈ t.sess := by
  rw [h.sess_eq, List.mem_map]
  constructor
  · intro hm; exact ⟨i + 1, hm, by unfold keyOf; rw [recOf_succ, hi]⟩
  · rintro ⟨uid, hm, hk⟩
    obtain ⟨h1, r0, hr0, hu0⟩ := h.sess_ok uid hm
    unfold keyOf at hk; rw [hr0] at hk
    unfold recOf at hr0
    have := h.uniq (uid - 1) i r0 r hr0 hi hu0 hk
    have : uid = i + 1 := by omega
    rw [← this]; exact hm

/-- (B) the account in slot i opens a session (or keeps the one it has). -/
theorem R.enter (h : R C pws s t) {i : Nat} {r : Rec C} (hi : s.recs[i]? = some r) (hu : inUse r)
    (hroom : foldId r.id ∈ t.sess ∨ t.sess.length < USHM) :
    ∃ sess', utmpEnter s.sess (i + 1) = some sess' ∧
      R C pws { s with sess := sess' } { t with sess := sessAdd t.sess (foldId r.id) } := by
  have hlen : t.sess.length = s.sess.length := by rw [h.sess_eq, List.length_map]
  have hmem := h.sess_mem hi hu
  unfold utmpEnter sessAdd
  by_cases hm : (i + 1) ∈ s.sess
  · rw [if_pos hm, if_pos (hmem.1 hm)]
    exact ⟨_, rfl, ⟨h.len, h.valid, h.uniq, h.sound, h.complete, h.free, h.sess_eq, h.sess_ok⟩⟩
  · have hk : foldId r.id ∉ t.sess := fun x => hm (hmem.2 x)
    have hl : s.sess.length < USHM := by
      rcases hroom with x | x
      · exact absurd x hk
      · omega
    rw [if_neg hm, if_pos hl, if_neg hk]
    refine ⟨_, rfl, ⟨h.len, h.valid, h.uniq, h.sound, h.complete, h.free, ?_, ?_⟩⟩
    · show t.sess ++ [foldId r.id] = (s.sess ++ [i + 1]).map (keyOf s)
      rw [List.map_append, ← h.sess_eq]
      simp [keyOf, recOf_succ, hi]
    · intro uid hx
      change uid ∈ s.sess ++ [i + 1] at hx
      rw [List.mem_append] at hx
      rcases hx with hx | hx
      · exact h.sess_ok uid hx
      · simp at hx; subst hx
        exact ⟨by omega, r, by rw [recOf_succ]; exact hi, hu⟩

/-- with all entries taken and none of them the user's, `getNewUtmpEnt` fails. -/
theorem R.enter_full (h : R C pws s t) {i : Nat} {r : Rec C} (hi : s.recs[i]? = some r) (hu : inUse r)
    (hk : foldId r.id ∉ t.sess) (hfull : ¬ t.sess.length < USHM) : utmpEnter s.sess (i + 1) = none := by
  have hlen : t.sess.length = s.sess.length := by rw [h.sess_eq, List.length_map]
  have hm : (i + 1) ∉ s.sess := fun x => hk ((h.sess_mem hi hu).1 x)
  unfold utmpEnter
  rw [if_neg hm, if_neg (by omega)]

/-- (C) a free slot receives a new account. -/
theorem R.insert (h : R C pws s t) {i : Nat} {e n : Rec C} (hi : s.recs[i]? = some e) (he : ¬ inUse e)
    (hv : isValidId n.id = true) (hun : inUse n)
    (hnew : ∀ (k : Nat) (r : Rec C), s.recs[k]? = some r → foldId n.id ≠ foldId r.id)
    {pw : Option Bytes} (hh : HashRel C pws n.hash pw) :
    R C pws (setRec s (i + 1) n)
      { acc := updAcc t.acc (foldId n.id) ⟨cstr n.id, pw, n.email⟩, free := t.free - 1, sess := t.sess } := by
  refine ⟨?_, ?_, ?_, ?_, ?_, ?_, ?_, ?_⟩
  · rw [setRec_recs, List.length_set]; exact h.len
  · intro j z hz huz
    rw [setRec_recs] at hz
    rcases set_cases _ _ _ _ _ hz with ⟨_, rfl⟩ | ⟨_, hz'⟩
    · exact hv
    · exact h.valid j z hz' huz
  · intro j1 j2 z1 z2 hz1 hz2 hu1 hf
    rw [setRec_recs] at hz1 hz2
    rcases set_cases _ _ _ _ _ hz1 with ⟨rfl, rfl⟩ | ⟨hn1, hz1'⟩
    · rcases set_cases _ _ _ _ _ hz2 with ⟨rfl, _⟩ | ⟨_, hz2'⟩
      · rfl
      · exact absurd hf (hnew j2 z2 hz2')
    · rcases set_cases _ _ _ _ _ hz2 with ⟨rfl, rfl⟩ | ⟨_, hz2'⟩
      · exact absurd hf.symm (hnew j1 z1 hz1')
      · exact h.uniq j1 j2 z1 z2 hz1' hz2' hu1 hf
  · intro j z hz huz
    rw [setRec_recs] at hz
    rcases set_cases _ _ _ _ _ hz with ⟨_, rfl⟩ | ⟨_, hz'⟩
    · exact ⟨⟨cstr z.id, pw, z.email⟩, by show updAcc _ _ _ _ = _; simp [updAcc], rfl, rfl, hh⟩
    · obtain ⟨a, ha, r1, r2, r3⟩ := h.sound j z hz' huz
      have hk : foldId z.id ≠ foldId n.id := fun x => hnew j z hz' x.symm
      exact ⟨a, by show updAcc _ _ _ _ = _; simp [updAcc, hk, ha], r1, r2, r3⟩
  · intro k a hk
    change updAcc t.acc (foldId n.id) _ k = some a at hk
    unfold updAcc at hk
    by_cases ek : k = foldId n.id
    · refine ⟨i, n, ?_, hun, ek.symm⟩
      rw [setRec_recs]; exact set_self _ _ _ _ hi
    · rw [if_neg ek] at hk
      obtain ⟨j, z, hz, huz, hkz⟩ := h.complete k a hk
      have hj : j ≠ i := by
        intro x; subst x; rw [hi] at hz; cases hz; exact he huz
      refine ⟨j, z, ?_, huz, hkz⟩
      rw [setRec_recs, List.getElem?_set_ne (fun x => hj x.symm)]; exact hz
  · show t.free - 1 = _
    rw [setRec_recs]
    have := countP_set_drop isFree s.recs i e n hi ((isFree_iff e).2 he)
      (by cases hx : isFree n with
          | false => rfl
          | true => exact absurd hun ((isFree_iff n).1 hx))
    rw [h.free]; omega
  · show t.sess = _
    rw [h.sess_eq]
    apply List.map_congr_left
    intro uid hm
    obtain ⟨_, r0, hr0, hu0⟩ := h.sess_ok uid hm
    unfold keyOf recOf
    rw [setRec_recs]
    unfold recOf at hr0
    have hne : uid - 1 ≠ i := by
      intro x; rw [x, hi] at hr0; cases hr0; exact he hu0
    rw [List.getElem?_set_ne (fun x => hne x.symm)]
  · intro uid hm
    obtain ⟨h1, r0, hr0, hu0⟩ := h.sess_ok uid hm
    refine ⟨h1, r0, ?_, hu0⟩
    unfold recOf at hr0 ⊢
    have hne : uid - 1 ≠ i := by
      intro x; rw [x, hi] at hr0; cases hr0; exact he hu0
    rw [setRec_recs, List.getElem?_set_ne (fun x => hne x.symm)]; exact hr0


/-! ### what is assumed of the password hash -/

/-- the facts property C02 proves of GenPasswd / CheckPasswd (`Proofs/C03Crypt.lean` instantiates them with the
DES model of C02): a fresh hash verifies its password, for every salt; passwords with one effective key are not
told apart by any stored hash; the all-zero hash verifies nothing. -/
structure Lawful (C : Crypto) : Prop where
  check_gen : ∀ (r : Nat) (p : Bytes), p ≠ [] → p.headD 0 ≠ 0 → C.check (C.gen r p) p = true
  same_key : ∀ (h : C.H) (p q : Bytes), effKey8 p = effKey8 q → C.check h p = C.check h q
  zero : ∀ q : Bytes, C.check C.zero q = false

/-- the hypothesis C02 cannot prove (DES collisions): among the passwords of the universe `pws`, a hash generated
for one effective key does not verify a password with another one. -/
def Sep (C : Crypto) (pws : List Bytes) : Prop :=
  ∀ (r : Nat) (p q : Bytes), p ∈ pws → q ∈ pws → p ≠ [] → p.headD 0 ≠ 0 → effKey8 p ≠ effKey8 q →
    C.check (C.gen r p) q = false

theorem hashRel_gen (L : Lawful C) (S : Sep C pws) (r : Nat) (p : Bytes) (hp : p ∈ pws) :
    HashRel C pws (genPasswd C r p) (pwOf p) := by
  unfold genPasswd pwOf
  by_cases hz : p.length = 0 ∨ p.headD 0 = 0
  · rw [if_pos hz, if_pos hz]
    intro q _; rw [L.zero]; simp
  · rw [if_neg hz, if_neg hz]
    have h1 : p ≠ [] := by intro e; apply hz; left; rw [e]; rfl
    have h2 : p.headD 0 ≠ 0 := fun e => hz (Or.inr e)
    intro q hq
    by_cases hk : effKey8 p = effKey8 q
    · rw [← L.same_key _ p q hk, L.check_gen r p h1 h2]; simp [hk]
    · rw [S r p q hp hq h1 h2 hk]; simp [hk]

theorem hashRel_check {h : C.H} {a : Account} (hr : HashRel C pws h a.pw) {q : Bytes} (hq : q ∈ pws) :
    C.check h q = true ↔ pwOk a q := by
  rw [hr q hq]; simp [pwOk]

/-- the passwords an operation mentions belong to the universe. -/
def OpPws (pws : List Bytes) : Op → Prop
  | .register _ pw _ _ _ => pw ∈ pws
  | .login _ pw _ => pw ∈ pws
  | .checkPasswd _ pw => pw ∈ pws
  | .changePasswd _ old new _ => old ∈ pws ∧ new ∈ pws
  | _ => True

/-- the implementation's answer is the one the specification's result class stands for. -/
def AnsAgree (op : Op) (a : Ans) (sa : SpecAns) : Prop :=
  a.err = errOf op sa.res ∧
    match op with
    | .getUser _ => (sa.res ≠ .ok → a.out = sa.out) ∧
        (sa.res = .ok → ∃ id em, a.out = [id, em] ∧ sa.out = [cstr id, em])   -- GetUser hands out the raw UserID field
    | _ => a.out = sa.out

/-! ### facts about the copied id -/

theorem copy_facts {id : Bytes} (hw : WellFormed (cstr id)) :
    isValidId (copyInto IDSZ id) = true ∧ (copyInto IDSZ id).headD 0 ≠ 0 ∧ foldId (copyInto IDSZ id) = foldId id := by
  have hv := (isValidId_iff _).2 ((wf_copy_iff id).2 hw)
  refine ⟨hv, ?_, foldId_copy_of_wf hw⟩
  intro e
  have := (cstr_headD _).1 e
  rw [cstr_copy_of_wf hw] at this
  exact wellFormed_ne_nil hw this

theorem copy_invalid {id : Bytes} (hw : ¬ WellFormed (cstr id)) : isValidId (copyInto IDSZ id) = false := by
  cases h : isValidId (copyInto IDSZ id) with
  | false => rfl
  | true => exact absurd ((wf_copy_iff id).1 ((isValidId_iff _).1 h)) hw

theorem toUUserID_valid {u : Bytes} (h : isValidId u = true) : toUUserID u = cstr u := by
  unfold toUUserID; rw [if_pos h]

theorem cstrcmp_guest (u : Bytes) : cstrcmp u STR_GUEST ≠ 0 ↔ cstr u ≠ STR_GUEST := by
  rw [Ne, cstrcmp_zero_iff]
  have : cstr STR_GUEST = STR_GUEST := by decide
  rw [this]

end

end PttVerif.C03
