import PttVerif.Model.C03
/-
C03 — helper lemmas (character classes, C strings, the id validator, the index search, the refinement relation and
its preservation by every operation).  Core Lean only.
-/
namespace PttVerif.C03
open PttVerif

/-! ### character classes (over the regenerated interval lists) -/

theorem isAlpha_iff (c : Nat) : isAlpha c = true ↔ isLetter c := by
  simp [isAlpha, inRanges, Gen.Acct.alphaRanges, isLetter]

theorem isNumber_iff (c : Nat) : isNumber c = true ↔ isDigit c := by
  simp [isNumber, inRanges, Gen.Acct.numberRanges, isDigit]

theorem isAlnum_iff (c : Nat) : isAlnum c = true ↔ (isLetter c ∨ isDigit c) := by
  simp [isAlnum, isAlpha_iff, isNumber_iff]

theorem lenGuard_iff (n : Nat) :
    Gen.Acct.lenGuard.any (fun g => cmpOp g.1 n g.2) = true ↔ (n < 2 ∨ n > 12) := by
  simp [Gen.Acct.lenGuard, cmpOp]

theorem tolower_eq_zero (c : Nat) : tolower c = 0 ↔ c = 0 := by
  unfold tolower; split <;> omega

theorem tolower_idem (c : Nat) : tolower (tolower c) = tolower c := by
  by_cases h : 65 ≤ c ∧ c ≤ 90
  · simp [tolower, h]; omega
  · simp [tolower, h]

/-! ### C strings -/

theorem cstr_nil : cstr [] = [] := rfl

theorem cstr_cons (x : Nat) (xs : List Nat) : cstr (x :: xs) = if x = 0 then [] else x :: cstr xs := by
  unfold cstr; by_cases h : x = 0 <;> simp [h]

theorem cstr_map_tolower (a : Bytes) : cstr (a.map tolower) = (cstr a).map tolower := by
  induction a with
  | nil => rfl
  | cons x xs ih =>
    rw [List.map_cons, cstr_cons, cstr_cons]
    by_cases h : x = 0
    · simp [h, tolower]
    · have : tolower x ≠ 0 := fun e => h ((tolower_eq_zero x).1 e)
      simp [h, this, ih]

theorem cstr_no_zero (a : Bytes) : ∀ c ∈ cstr a, c ≠ 0 := by
  induction a with
  | nil => intro c hc; simp [cstr_nil] at hc
  | cons x xs ih =>
    intro c hc
    rw [cstr_cons] at hc
    by_cases hx : x = 0
    · simp [hx] at hc
    · simp only [hx, if_false, List.mem_cons] at hc
      rcases hc with rfl | hc
      · exact hx
      · exact ih c hc

theorem cstr_of_no_zero (a : Bytes) (h : ∀ c ∈ a, c ≠ 0) : cstr a = a := by
  induction a with
  | nil => rfl
  | cons x xs ih =>
    rw [cstr_cons, if_neg (h x (by simp)), ih (fun c hc => h c (by simp [hc]))]

theorem cstr_idem (a : Bytes) : cstr (cstr a) = cstr a := cstr_of_no_zero _ (cstr_no_zero a)

theorem cstr_append_zeros (l : Bytes) (k : Nat) : cstr (l ++ List.replicate k 0) = cstr l := by
  induction l with
  | nil =>
    cases k with
    | zero => rfl
    | succ k => simp [List.replicate_succ, cstr_cons, cstr_nil]
  | cons x xs ih =>
    rw [List.cons_append, cstr_cons, cstr_cons, ih]

theorem takeWhile_take {α} (p : α → Bool) (n : Nat) (l : List α) :
    (l.take n).takeWhile p = (l.takeWhile p).take n := by
  induction l generalizing n with
  | nil => simp
  | cons x xs ih =>
    cases n with
    | zero => simp
    | succ n =>
      rw [List.take_succ_cons, List.takeWhile_cons, List.takeWhile_cons]
      by_cases h : p x
      · simp [h, ih]
      · simp [h]

/-- what the fixed-size `copy` leaves of a submitted string: its C-string reading cut at the array size. -/
theorem cstr_copyInto (n : Nat) (src : Bytes) : cstr (copyInto n src) = (cstr src).take n := by
  unfold copyInto
  simp only []
  rw [cstr_append_zeros]
  unfold cstr
  exact takeWhile_take _ n src

theorem cstr_headD (a : Bytes) : a.headD 0 = 0 ↔ cstr a = [] := by
  cases a with
  | nil => simp [cstr_nil]
  | cons x xs =>
    rw [cstr_cons]
    by_cases h : x = 0 <;> simp [h]

theorem cstr_headD_eq (a : Bytes) (h : cstr a ≠ []) : a.headD 0 = (cstr a).headD 0 := by
  cases a with
  | nil => simp [cstr_nil] at h
  | cons x xs =>
    rw [cstr_cons] at h ⊢
    by_cases hx : x = 0
    · simp [hx] at h
    · simp [hx]

/-! ### Cstrcmp / Cstrcasecmp decide equality of the C-string readings -/

theorem cstrcmp_zero_iff (a b : Bytes) : cstrcmp a b = 0 ↔ cstr a = cstr b := by
  induction a generalizing b with
  | nil =>
    cases b with
    | nil => simp [cstrcmp]
    | cons y ys =>
      simp only [cstrcmp, cstr_nil, cstr_cons]
      by_cases hy : y = 0
      · simp [hy]
      · simp [hy]
  | cons x xs ih =>
    cases b with
    | nil =>
      simp only [cstrcmp, cstr_nil, cstr_cons]
      by_cases hx : x = 0
      · simp [hx]
      · simp [hx]
    | cons y ys =>
      simp only [cstrcmp, cstr_cons]
      by_cases hx : x = 0
      · by_cases hy : y = 0
        · simp [hx, hy]
        · simp [hx, hy]
      · by_cases hxy : x = y
        · subst hxy
          simp [hx, ih]
        · have : y = 0 ∨ y ≠ 0 := by omega
          rcases this with hy | hy
          · simp [hx, hy]
          · simp [hx, hy, hxy]; omega

theorem foldId_eq (a : Bytes) : foldId a = cstr (a.map tolower) := by
  rw [foldId, cstr_map_tolower]

theorem cstrcasecmp_zero_iff (a b : Bytes) : cstrcasecmp a b = 0 ↔ foldId a = foldId b := by
  rw [cstrcasecmp, cstrcmp_zero_iff, foldId_eq, foldId_eq]

theorem foldId_nil_iff (a : Bytes) : foldId a = [] ↔ a.headD 0 = 0 := by
  rw [cstr_headD, foldId]; simp

theorem foldId_length (a : Bytes) : (foldId a).length = (cstr a).length := by simp [foldId]

theorem foldId_copyInto (n : Nat) (src : Bytes) : foldId (copyInto n src) = (foldId src).take n := by
  rw [foldId, cstr_copyInto, foldId, List.map_take]

theorem foldId_of_no_zero (a : Bytes) (h : ∀ c ∈ a, c ≠ 0) : foldId a = a.map tolower := by
  rw [foldId, cstr_of_no_zero a h]

/-! ### the id validator -/

theorem consts : IDLEN = 12 ∧ IDSZ = 13 ∧ EMAILSZ = 50 ∧ MAX = 50 ∧ USHM = 31 ∧
    STR_GUEST = [103, 117, 101, 115, 116] ∧ STR_REGNEW = [110, 101, 119] := by decide

theorem take_cstr_length (u : Bytes) : u.take (cstr u).length = cstr u := by
  induction u with
  | nil => rfl
  | cons x xs ih =>
    rw [cstr_cons]
    by_cases h : x = 0
    · simp [h]
    · simp [h, ih]

theorem validLoop_iff (u : Bytes) (idx n : Nat) (h : idx ≤ n) :
    validLoop u idx n = true ↔ ∀ c ∈ u.take (n - idx), isAlnum c = true := by
  induction u generalizing idx with
  | nil => simp [validLoop]
  | cons c cs ih =>
    unfold validLoop
    by_cases he : idx = n
    · simp [he]
    · have : n - idx = (n - (idx + 1)) + 1 := by omega
      rw [if_neg he, this, List.take_succ_cons]
      by_cases hc : isAlnum c = true
      · simp [hc, ih (idx + 1) (by omega)]
      · simp [hc]

/-- `UserID_t.IsValid` accepts exactly the arrays whose C-string reading is 2–12 alphanumerics with a leading letter. -/
theorem isValidId_iff (u : Bytes) : isValidId u = true ↔ WellFormed (cstr u) := by
  unfold isValidId WellFormed
  simp only []
  by_cases hg : (cstr u).length < 2 ∨ (cstr u).length > 12
  · rw [if_pos ((lenGuard_iff _).2 hg)]
    constructor
    · intro h; cases h
    · intro h; omega
  · rw [if_neg (fun h => hg ((lenGuard_iff _).1 h))]
    have hne : cstr u ≠ [] := by intro e; rw [e] at hg; simp at hg
    have hhead : u.headD 0 = (cstr u).headD 0 := cstr_headD_eq u hne
    have hl : validLoop u 0 (cstr u).length = true ↔ ∀ c ∈ cstr u, isLetter c ∨ isDigit c := by
      rw [validLoop_iff u 0 _ (Nat.zero_le _), Nat.sub_zero, take_cstr_length]
      constructor
      · intro h c hc; exact (isAlnum_iff c).1 (h c hc)
      · intro h c hc; exact (isAlnum_iff c).2 (h c hc)
    obtain ⟨x, xs, hx⟩ := List.exists_cons_of_ne_nil hne
    have hx0 : (cstr u).headD 0 = x := by rw [hx]; rfl
    rw [hhead, hx0]
    by_cases ha : isAlpha x = true
    · have hL := (isAlpha_iff x).1 ha
      simp only [ha, Bool.not_true, Bool.false_eq_true, if_false]
      rw [hl]
      constructor
      · intro h; exact ⟨by omega, by omega, ⟨x, by rw [hx]; rfl, hL⟩, h⟩
      · intro h; exact h.2.2.2
    · have hL : ¬ isLetter x := fun h => ha ((isAlpha_iff x).2 h)
      simp only [ha, Bool.not_false, if_true]
      constructor
      · intro h; cases h
      · rintro ⟨_, _, ⟨c, hc, hcl⟩, _⟩
        rw [hx] at hc
        simp at hc; subst hc; exact absurd hcl hL

theorem wellFormed_no_zero {s : Bytes} (h : WellFormed s) : ∀ c ∈ s, c ≠ 0 := by
  intro c hc e
  rcases h.2.2.2 c hc with hl | hd
  · unfold isLetter at hl; omega
  · unfold isDigit at hd; omega

theorem wellFormed_ne_nil {s : Bytes} (h : WellFormed s) : s ≠ [] := by
  intro e; have := h.1; rw [e] at this; simp at this

theorem contains_zero_iff (s : Bytes) : s.contains 0 = false ↔ ∀ c ∈ s, c ≠ 0 := by
  induction s with
  | nil => simp
  | cons x xs ih =>
    simp only [List.contains_cons, Bool.or_eq_false_iff, ih, List.mem_cons, forall_eq_or_imp]
    constructor
    · rintro ⟨h1, h2⟩; exact ⟨by intro e; subst e; simp at h1, h2⟩
    · rintro ⟨h1, h2⟩; exact ⟨by simp; exact fun e => h1 e.symm, h2⟩

/-- the C-string reading of the array a valid submitted string is copied into is that string. -/
theorem cstr_copy_of_wf {s : Bytes} (h : WellFormed (cstr s)) : cstr (copyInto IDSZ s) = cstr s := by
  rw [cstr_copyInto, List.take_of_length_le]
  have := h.2.1; rw [consts.2.1]; omega

theorem wf_copy_iff (s : Bytes) : WellFormed (cstr (copyInto IDSZ s)) ↔ WellFormed (cstr s) := by
  constructor
  · intro h
    rw [cstr_copyInto] at h
    have hl := h.2.1
    rw [List.length_take, consts.2.1] at hl
    have h13 : (cstr s).length ≤ IDSZ := by rw [consts.2.1]; omega
    rwa [List.take_of_length_le h13] at h
  · intro h; rw [cstr_copy_of_wf h]; exact h

theorem foldId_copy_of_wf {s : Bytes} (h : WellFormed (cstr s)) : foldId (copyInto IDSZ s) = foldId s := by
  rw [foldId, cstr_copy_of_wf h, foldId]

theorem isBadUserID_iff (u : Bytes) :
    isBadUserID u = false ↔ (WellFormed (cstr u) ∧ foldId u ≠ foldId STR_REGNEW ∧ foldId u ≠ foldId STR_GUEST) := by
  unfold isBadUserID
  have hg : STR_GUEST ≠ [] := by decide
  by_cases hv : isValidId u = true
  · have hw := (isValidId_iff u).1 hv
    simp only [hv, Bool.not_true, Bool.false_eq_true, if_false, cstrcasecmp_zero_iff]
    by_cases h1 : foldId u = foldId STR_REGNEW
    · simp [h1]
    · by_cases h2 : foldId u = foldId STR_GUEST
      · simp [h2, hg]
      · simp [h1, h2, hw]
  · have hw : ¬ WellFormed (cstr u) := fun h => hv ((isValidId_iff u).2 h)
    simp [hv, hw]

theorem isReservedUserID_iff (rs : List Bytes) (u : Bytes) :
    isReservedUserID rs u = true ↔ ∃ r ∈ rs, foldId u = foldId r := by
  simp [isReservedUserID, cstrcasecmp_zero_iff]

theorem foldId_consts : foldId STR_REGNEW = STR_REGNEW.map tolower ∧ foldId STR_GUEST = STR_GUEST.map tolower := by decide

/-- the three gates of a registration (NUL test of the wrapper, isBadUserID, isReservedUserID) pass exactly for
the submitted strings that are well-formed and not reserved. -/
theorem gate_iff (rs : List Bytes) (name : Bytes) :
    (name.contains 0 = false ∧ isBadUserID (copyInto IDSZ name) = false ∧ isReservedUserID rs (copyInto IDSZ name) = false) ↔
      (WellFormed name ∧ ¬ Reserved rs name) := by
  constructor
  · rintro ⟨hz, hb, hr⟩
    have hnz := (contains_zero_iff name).1 hz
    have hc : cstr name = name := cstr_of_no_zero name hnz
    obtain ⟨hw, h1, h2⟩ := (isBadUserID_iff _).1 hb
    have hw' : WellFormed (cstr name) := (wf_copy_iff name).1 hw
    have hf : foldId (copyInto IDSZ name) = name.map tolower := by
      rw [foldId_copy_of_wf hw', foldId, hc]
    rw [hf, foldId_consts.1] at h1
    rw [hf, foldId_consts.2] at h2
    refine ⟨hc ▸ hw', ?_⟩
    rintro (h | h | ⟨r, hr1, hr2⟩)
    · exact h1 h
    · exact h2 h
    · have : isReservedUserID rs (copyInto IDSZ name) = true :=
        (isReservedUserID_iff rs _).2 ⟨r, hr1, by rw [hf]; exact hr2⟩
      rw [this] at hr; cases hr
  · rintro ⟨hw, hres⟩
    have hnz := wellFormed_no_zero hw
    have hc : cstr name = name := cstr_of_no_zero name hnz
    have hw' : WellFormed (cstr name) := by rw [hc]; exact hw
    have hf : foldId (copyInto IDSZ name) = name.map tolower := by
      rw [foldId_copy_of_wf hw', foldId, hc]
    refine ⟨(contains_zero_iff name).2 hnz, (isBadUserID_iff _).2 ⟨(wf_copy_iff name).2 hw', ?_, ?_⟩, ?_⟩
    · rw [hf, foldId_consts.1]; exact fun h => hres (Or.inl h)
    · rw [hf, foldId_consts.2]; exact fun h => hres (Or.inr (Or.inl h))
    · cases hr : isReservedUserID rs (copyInto IDSZ name) with
      | false => rfl
      | true =>
        obtain ⟨r, hr1, hr2⟩ := (isReservedUserID_iff rs _).1 hr
        exact absurd (Or.inr (Or.inr ⟨r, hr1, by rw [← hf]; exact hr2⟩)) hres

/-! ### the index search -/

section
variable {C : Crypto}

/-- a slot is in use when its id is not the empty C string. -/
def inUse (r : Rec C) : Prop := r.id.headD 0 ≠ 0

theorem inUse_iff_fold (r : Rec C) : inUse r ↔ foldId r.id ≠ [] := by
  unfold inUse; rw [Ne, Ne, foldId_nil_iff]

theorem searchFrom_zero (rs : List (Rec C)) (q : Bytes) (i : Nat) :
    searchFrom rs q i = 0 ↔ ∀ (k : Nat) (r : Rec C), rs[k]? = some r → foldId q ≠ foldId r.id := by
  induction rs generalizing i with
  | nil => simp [searchFrom]
  | cons x xs ih =>
    unfold searchFrom
    by_cases h : cstrcasecmp q x.id = 0
    · rw [if_pos h]
      constructor
      · intro e; omega
      · intro hh; exact absurd ((cstrcasecmp_zero_iff _ _).1 h) (hh 0 x rfl)
    · rw [if_neg h, ih]
      constructor
      · intro hh k r hk
        cases k with
        | zero => simp at hk; subst hk; exact fun e => h ((cstrcasecmp_zero_iff _ _).2 e)
        | succ k => exact hh k r (by simpa using hk)
      · intro hh k r hk; exact hh (k + 1) r (by simpa using hk)

theorem searchFrom_pos (rs : List (Rec C)) (q : Bytes) (i : Nat) (h : searchFrom rs q i ≠ 0) :
    ∃ (k : Nat) (r : Rec C), searchFrom rs q i = i + k + 1 ∧ rs[k]? = some r ∧ foldId q = foldId r.id ∧
      ∀ (j : Nat) (r' : Rec C), j < k → rs[j]? = some r' → foldId q ≠ foldId r'.id := by
  induction rs generalizing i with
  | nil => simp [searchFrom] at h
  | cons x xs ih =>
    unfold searchFrom at h ⊢
    by_cases hc : cstrcasecmp q x.id = 0
    · rw [if_pos hc]
      exact ⟨0, x, rfl, rfl, (cstrcasecmp_zero_iff _ _).1 hc, fun j _ hj => absurd hj (Nat.not_lt_zero j)⟩
    · rw [if_neg hc] at h ⊢
      obtain ⟨k, r, h1, h2, h3, h4⟩ := ih (i + 1) h
      refine ⟨k + 1, r, by omega, by simpa using h2, h3, ?_⟩
      intro j r' hj hr'
      cases j with
      | zero => simp at hr'; subst hr'; exact fun e => hc ((cstrcasecmp_zero_iff _ _).2 e)
      | succ j => exact h4 j r' (by omega) (by simpa using hr')

theorem foldId_zeros (n : Nat) : foldId (List.replicate n 0) = [] := by
  cases n with
  | zero => rfl
  | succ n => simp [foldId, List.replicate_succ, cstr_cons]

/-! ### counting free slots -/

def isFree (r : Rec C) : Bool := r.id.headD 0 == 0

theorem isFree_iff (r : Rec C) : isFree r = true ↔ ¬ inUse r := by simp [isFree, inUse]

theorem countP_set_same {α} (p : α → Bool) (l : List α) (i : Nat) (x y : α) (hx : l[i]? = some x) (hp : p y = p x) :
    (l.set i y).countP p = l.countP p := by
  induction l generalizing i with
  | nil => simp at hx
  | cons a as ih =>
    cases i with
    | zero => simp at hx; subst hx; simp [List.countP_cons, hp]
    | succ i => simp only [List.set_cons_succ, List.countP_cons]; rw [ih i (by simpa using hx)]

theorem countP_set_drop {α} (p : α → Bool) (l : List α) (i : Nat) (x y : α) (hx : l[i]? = some x) (hpx : p x = true)
    (hpy : p y = false) : (l.set i y).countP p + 1 = l.countP p := by
  induction l generalizing i with
  | nil => simp at hx
  | cons a as ih =>
    cases i with
    | zero => simp at hx; subst hx; simp [hpx, hpy]
    | succ i =>
      simp only [List.set_cons_succ, List.countP_cons]
      have := ih i (by simpa using hx)
      omega

/-! ### the refinement relation -/

/-- the stored hash behaves, on the passwords of the universe `pws`, like the account's password says. -/
def HashRel (C : Crypto) (pws : List Bytes) (h : C.H) (pw : Option Bytes) : Prop :=
  ∀ q ∈ pws, C.check h q = decide (pw = some (effKey8 q))

/-- the key of the account that holds uid. -/
def keyOf (s : State C) (uid : Nat) : Bytes :=
  match recOf s uid with
  | some r => foldId r.id
  | none => []

structure R (C : Crypto) (pws : List Bytes) (s : State C) (t : Table) : Prop where
  len : s.recs.length = MAX
  valid : ∀ (i : Nat) (r : Rec C), s.recs[i]? = some r → inUse r → isValidId r.id = true
  uniq : ∀ (i j : Nat) (ri rj : Rec C), s.recs[i]? = some ri → s.recs[j]? = some rj → inUse ri →
    foldId ri.id = foldId rj.id → i = j
  sound : ∀ (i : Nat) (r : Rec C), s.recs[i]? = some r → inUse r →
    ∃ a, t.acc (foldId r.id) = some a ∧ a.id = cstr r.id ∧ a.email = r.email ∧ HashRel C pws r.hash a.pw
  complete : ∀ k a, t.acc k = some a → ∃ (i : Nat) (r : Rec C), s.recs[i]? = some r ∧ inUse r ∧ foldId r.id = k
  free : t.free = s.recs.countP isFree
  sess_eq : t.sess = s.sess.map (keyOf s)
  sess_ok : ∀ uid ∈ s.sess, 1 ≤ uid ∧ ∃ r, recOf s uid = some r ∧ inUse r

theorem uidValid_succ (i : Nat) : uidValid (i + 1) = true ↔ i < MAX := by
  simp [uidValid]; omega

theorem recOf_succ (s : State C) (i : Nat) : recOf s (i + 1) = s.recs[i]? := by simp [recOf]

theorem setRec_recs (s : State C) (i : Nat) (r : Rec C) : (setRec s (i + 1) r).recs = s.recs.set i r := by
  simp [setRec]

variable {pws : List Bytes} {s : State C} {t : Table}

theorem R.lookup_missing (h : R C pws s t) (q : Bytes) (hq : t.acc (foldId q) = none) : searchUserRaw s q = 0 := by
  unfold searchUserRaw
  by_cases h0 : q.headD 0 = 0
  · rw [if_pos h0]
  · rw [if_neg h0]
    unfold doSearchUserRaw
    rw [searchFrom_zero]
    intro k r hk e
    have hu : inUse r := by
      rw [inUse_iff_fold, ← e, Ne, foldId_nil_iff]; exact h0
    obtain ⟨a, ha, _⟩ := h.sound k r hk hu
    rw [← e, hq] at ha; cases ha

theorem R.lookup_found (h : R C pws s t) (q : Bytes) (a : Account) (hq : t.acc (foldId q) = some a)
    (hne : q.headD 0 ≠ 0) :
    ∃ (i : Nat) (r : Rec C), searchUserRaw s q = i + 1 ∧ i < MAX ∧ s.recs[i]? = some r ∧ inUse r ∧ foldId r.id = foldId q ∧
      a.id = cstr r.id ∧ a.email = r.email ∧ HashRel C pws r.hash a.pw := by
  obtain ⟨i0, r0, hr0, hu0, hk0⟩ := h.complete _ _ hq
  have hnz : searchFrom s.recs q 0 ≠ 0 := by
    intro e
    exact (searchFrom_zero _ _ _).1 e i0 r0 hr0 hk0.symm
  obtain ⟨k, r, h1, h2, h3, _⟩ := searchFrom_pos _ _ _ hnz
  have hu : inUse r := by rw [inUse_iff_fold, ← h3, Ne, foldId_nil_iff]; exact hne
  obtain ⟨a', ha', hid, hem, hh⟩ := h.sound k r h2 hu
  rw [← h3, hq] at ha'; cases ha'
  have hk : k < MAX := by
    have := (List.getElem?_eq_some_iff.1 h2).1
    rw [h.len] at this; exact this
  refine ⟨k, r, ?_, hk, h2, hu, h3.symm, hid, hem, hh⟩
  unfold searchUserRaw doSearchUserRaw
  rw [if_neg hne, h1]; omega

/-- the empty-slot search: 0 exactly when no slot is free, else the first free slot. -/
theorem R.free_search (h : R C pws s t) :
    (t.free = 0 → doSearchUserRaw s (List.replicate IDSZ 0) = 0) ∧
    (t.free ≠ 0 → ∃ (i : Nat) (e : Rec C), doSearchUserRaw s (List.replicate IDSZ 0) = i + 1 ∧ i < MAX ∧ s.recs[i]? = some e ∧ ¬ inUse e) := by
  unfold doSearchUserRaw
  constructor
  · intro h0
    rw [searchFrom_zero]
    intro k r hk e
    rw [h.free, List.countP_eq_zero] at h0
    have hm : r ∈ s.recs := List.mem_of_getElem? hk
    have := h0 r hm
    rw [foldId_zeros] at e
    have hu : ¬ inUse r := by rw [inUse_iff_fold]; exact fun x => x e.symm
    exact this ((isFree_iff r).2 hu)
  · intro hne
    have hnz : searchFrom s.recs (List.replicate IDSZ 0) 0 ≠ 0 := by
      intro e
      apply hne
      rw [h.free, List.countP_eq_zero]
      intro r hm hf
      obtain ⟨k, hk⟩ := List.getElem?_of_mem hm
      have := (searchFrom_zero _ _ _).1 e k r hk
      rw [foldId_zeros] at this
      have hu : ¬ inUse r := (isFree_iff r).1 hf
      rw [inUse_iff_fold] at hu
      exact this (Classical.not_not.1 hu).symm
    obtain ⟨k, r, h1, h2, h3, _⟩ := searchFrom_pos _ _ _ hnz
    have hk : k < MAX := by
      have := (List.getElem?_eq_some_iff.1 h2).1
      rw [h.len] at this; exact this
    rw [foldId_zeros] at h3
    refine ⟨k, r, by omega, hk, h2, ?_⟩
    rw [inUse_iff_fold]; exact fun x => x h3.symm


/-! ### writing one record -/

theorem set_cases {α} (l : List α) (i : Nat) (y : α) (j : Nat) (z : α) (h : (l.set i y)[j]? = some z) :
    (j = i ∧ z = y) ∨ (j ≠ i ∧ l[j]? = some z) := by
  by_cases e : i = j
  · subst e
    rw [List.getElem?_set_self'] at h
    cases hl : l[i]? with
    | none => rw [hl] at h; simp at h
    | some x => rw [hl] at h; simp at h; exact Or.inl ⟨rfl, h.symm⟩
  · rw [List.getElem?_set_ne e] at h
    exact Or.inr ⟨fun x => e x.symm, h⟩

theorem set_self {α} (l : List α) (i : Nat) (x y : α) (hx : l[i]? = some x) : (l.set i y)[i]? = some y := by
  rw [List.getElem?_set_self ((List.getElem?_eq_some_iff.1 hx).1)]

theorem updAcc_self (f : Bytes → Option Account) (k : Bytes) (a : Account) (h : f k = some a) : updAcc f k a = f := by
  funext k'; unfold updAcc; by_cases e : k' = k
  · rw [if_pos e, e, h]
  · rw [if_neg e]

theorem keyOf_sess (s : State C) (l : List Nat) (uid : Nat) : keyOf { s with sess := l } uid = keyOf s uid := rfl

/-- (A) a record is rewritten with the same id. -/
theorem R.update (h : R C pws s t) {i : Nat} {r r' : Rec C} (hi : s.recs[i]? = some r) (hu : inUse r)
    (hid : r'.id = r.id) {pw' : Option Bytes} (hh : HashRel C pws r'.hash pw') :
    R C pws (setRec s (i + 1) r') { t with acc := updAcc t.acc (foldId r.id) ⟨cstr r.id, pw', r'.email⟩ } := by
  have hu' : inUse r' := by unfold inUse; rw [hid]; exact hu
  -- every record of the new file has the id the old file has in that slot
  have old : ∀ (j : Nat) (z : Rec C), (s.recs.set i r')[j]? = some z →
      ∃ z0, s.recs[j]? = some z0 ∧ z.id = z0.id ∧ (j ≠ i → z = z0) ∧ (j = i → z = r' ∧ z0 = r) := by
    intro j z hz
    rcases set_cases _ _ _ _ _ hz with ⟨rfl, rfl⟩ | ⟨hne, hz'⟩
    · exact ⟨r, hi, hid, fun x => absurd rfl x, fun _ => ⟨rfl, rfl⟩⟩
    · exact ⟨z, hz', rfl, fun _ => rfl, fun x => absurd x hne⟩
  have inU : ∀ (z z0 : Rec C), z.id = z0.id → (inUse z ↔ inUse z0) := by
    intro z z0 e; unfold inUse; rw [e]
  refine ⟨?_, ?_, ?_, ?_, ?_, ?_, ?_, ?_⟩
  · rw [setRec_recs, List.length_set]; exact h.len
  · intro j z hz huz
    rw [setRec_recs] at hz
    obtain ⟨z0, h0, e, _, _⟩ := old j z hz
    rw [e]; exact h.valid j z0 h0 ((inU z z0 e).1 huz)
  · intro j1 j2 z1 z2 hz1 hz2 hu1 hf
    rw [setRec_recs] at hz1 hz2
    obtain ⟨y1, h1, e1, _, _⟩ := old j1 z1 hz1
    obtain ⟨y2, h2, e2, _, _⟩ := old j2 z2 hz2
    exact h.uniq j1 j2 y1 y2 h1 h2 ((inU z1 y1 e1).1 hu1) (by rw [← e1, ← e2]; exact hf)
  · intro j z hz huz
    rw [setRec_recs] at hz
    obtain ⟨z0, h0, e, hne, heq⟩ := old j z hz
    by_cases hj : j = i
    · obtain ⟨rfl, rfl⟩ := heq hj
      refine ⟨⟨cstr z0.id, pw', z.email⟩, ?_, by rw [hid], rfl, hh⟩
      show updAcc t.acc (foldId z0.id) _ (foldId z.id) = _
      rw [hid]; simp [updAcc]
    · have hz0 := hne hj; subst hz0
      have hk : foldId z.id ≠ foldId r.id := by
        intro ek
        exact hj (h.uniq j i z r h0 hi huz ek)
      obtain ⟨a, ha, r1, r2, r3⟩ := h.sound j z h0 huz
      exact ⟨a, by show updAcc t.acc _ _ _ = _; simp [updAcc, hk, ha], r1, r2, r3⟩
  · intro k a hk
    change updAcc t.acc (foldId r.id) _ k = some a at hk
    unfold updAcc at hk
    by_cases e : k = foldId r.id
    · refine ⟨i, r', ?_, hu', by rw [hid, e]⟩
      rw [setRec_recs]; exact set_self _ _ _ _ hi
    · rw [if_neg e] at hk
      obtain ⟨j, z, hz, huz, hkz⟩ := h.complete k a hk
      have hj : j ≠ i := by
        intro x; subst x; rw [hi] at hz; cases hz; exact e hkz.symm
      refine ⟨j, z, ?_, huz, hkz⟩
      rw [setRec_recs, List.getElem?_set_ne (fun x => hj x.symm)]; exact hz
  · show t.free = _
    rw [setRec_recs, countP_set_same isFree _ _ r r' hi (by unfold isFree; rw [hid])]; exact h.free
  · show t.sess = _
    rw [h.sess_eq]
    apply List.map_congr_left
    intro uid _
    unfold keyOf recOf
    rw [setRec_recs]
    by_cases e : uid - 1 = i
    · rw [e, hi, set_self _ _ _ _ hi]; simp only [hid]
    · rw [List.getElem?_set_ne (fun x => e x.symm)]
  · intro uid hm
    obtain ⟨h1, r0, hr0, hu0⟩ := h.sess_ok uid hm
    refine ⟨h1, ?_⟩
    unfold recOf at hr0 ⊢
    rw [setRec_recs]
    by_cases e : uid - 1 = i
    · rw [e, set_self _ _ _ _ hi]; exact ⟨r', rfl, hu'⟩
    · rw [List.getElem?_set_ne (fun x => e x.symm)]; exact ⟨r0, hr0, hu0⟩

/-- who holds a session: uid ↔ key. -/
theorem R.sess_mem (h : R C pws s t) {i : Nat} {r : Rec C} (hi : s.recs[i]? = some r) (_hu : inUse r) :
    (i + 1) ∈ s.sess ↔ foldId r.id ∈ t.sess := by
  rw [h.sess_eq, List.mem_map]
  constructor
  · intro hm; exact ⟨i + 1, hm, by unfold keyOf; rw [recOf_succ, hi]⟩
  · rintro ⟨uid, hm, hk⟩
    obtain ⟨h1, r0, hr0, hu0⟩ := h.sess_ok uid hm
    unfold keyOf at hk; rw [hr0] at hk
    unfold recOf at hr0
    have := h.uniq (uid - 1) i r0 r hr0 hi hu0 hk
    have : uid = i + 1 := by omega
    rw [← this]; exact hm

/-- (B) the account in slot i opens a session (or keeps the one it has). -/
theorem R.enter (h : R C pws s t) {i : Nat} {r : Rec C} (hi : s.recs[i]? = some r) (hu : inUse r)
    (hroom : foldId r.id ∈ t.sess ∨ t.sess.length < USHM) :
    ∃ sess', utmpEnter s.sess (i + 1) = some sess' ∧
      R C pws { s with sess := sess' } { t with sess := sessAdd t.sess (foldId r.id) } := by
  have hlen : t.sess.length = s.sess.length := by rw [h.sess_eq, List.length_map]
  have hmem := h.sess_mem hi hu
  unfold utmpEnter sessAdd
  by_cases hm : (i + 1) ∈ s.sess
  · rw [if_pos hm, if_pos (hmem.1 hm)]
    exact ⟨_, rfl, ⟨h.len, h.valid, h.uniq, h.sound, h.complete, h.free, h.sess_eq, h.sess_ok⟩⟩
  · have hk : foldId r.id ∉ t.sess := fun x => hm (hmem.2 x)
    have hl : s.sess.length < USHM := by
      rcases hroom with x | x
      · exact absurd x hk
      · omega
    rw [if_neg hm, if_pos hl, if_neg hk]
    refine ⟨_, rfl, ⟨h.len, h.valid, h.uniq, h.sound, h.complete, h.free, ?_, ?_⟩⟩
    · show t.sess ++ [foldId r.id] = (s.sess ++ [i + 1]).map (keyOf s)
      rw [List.map_append, ← h.sess_eq]
      simp [keyOf, recOf_succ, hi]
    · intro uid hx
      change uid ∈ s.sess ++ [i + 1] at hx
      rw [List.mem_append] at hx
      rcases hx with hx | hx
      · exact h.sess_ok uid hx
      · simp at hx; subst hx
        exact ⟨by omega, r, by rw [recOf_succ]; exact hi, hu⟩

/-- with all entries taken and none of them the user's, `getNewUtmpEnt` fails. -/
theorem R.enter_full (h : R C pws s t) {i : Nat} {r : Rec C} (hi : s.recs[i]? = some r) (hu : inUse r)
    (hk : foldId r.id ∉ t.sess) (hfull : ¬ t.sess.length < USHM) : utmpEnter s.sess (i + 1) = none := by
  have hlen : t.sess.length = s.sess.length := by rw [h.sess_eq, List.length_map]
  have hm : (i + 1) ∉ s.sess := fun x => hk ((h.sess_mem hi hu).1 x)
  unfold utmpEnter
  rw [if_neg hm, if_neg (by omega)]

/-- (C) a free slot receives a new account. -/
theorem R.insert (h : R C pws s t) {i : Nat} {e n : Rec C} (hi : s.recs[i]? = some e) (he : ¬ inUse e)
    (hv : isValidId n.id = true) (hun : inUse n)
    (hnew : ∀ (k : Nat) (r : Rec C), s.recs[k]? = some r → foldId n.id ≠ foldId r.id)
    {pw : Option Bytes} (hh : HashRel C pws n.hash pw) :
    R C pws (setRec s (i + 1) n)
      { acc := updAcc t.acc (foldId n.id) ⟨cstr n.id, pw, n.email⟩, free := t.free - 1, sess := t.sess } := by
  refine ⟨?_, ?_, ?_, ?_, ?_, ?_, ?_, ?_⟩
  · rw [setRec_recs, List.length_set]; exact h.len
  · intro j z hz huz
    rw [setRec_recs] at hz
    rcases set_cases _ _ _ _ _ hz with ⟨_, rfl⟩ | ⟨_, hz'⟩
    · exact hv
    · exact h.valid j z hz' huz
  · intro j1 j2 z1 z2 hz1 hz2 hu1 hf
    rw [setRec_recs] at hz1 hz2
    rcases set_cases _ _ _ _ _ hz1 with ⟨rfl, rfl⟩ | ⟨hn1, hz1'⟩
    · rcases set_cases _ _ _ _ _ hz2 with ⟨rfl, _⟩ | ⟨_, hz2'⟩
      · rfl
      · exact absurd hf (hnew j2 z2 hz2')
    · rcases set_cases _ _ _ _ _ hz2 with ⟨rfl, rfl⟩ | ⟨_, hz2'⟩
      · exact absurd hf.symm (hnew j1 z1 hz1')
      · exact h.uniq j1 j2 z1 z2 hz1' hz2' hu1 hf
  · intro j z hz huz
    rw [setRec_recs] at hz
    rcases set_cases _ _ _ _ _ hz with ⟨_, rfl⟩ | ⟨_, hz'⟩
    · exact ⟨⟨cstr z.id, pw, z.email⟩, by show updAcc _ _ _ _ = _; simp [updAcc], rfl, rfl, hh⟩
    · obtain ⟨a, ha, r1, r2, r3⟩ := h.sound j z hz' huz
      have hk : foldId z.id ≠ foldId n.id := fun x => hnew j z hz' x.symm
      exact ⟨a, by show updAcc _ _ _ _ = _; simp [updAcc, hk, ha], r1, r2, r3⟩
  · intro k a hk
    change updAcc t.acc (foldId n.id) _ k = some a at hk
    unfold updAcc at hk
    by_cases ek : k = foldId n.id
    · refine ⟨i, n, ?_, hun, ek.symm⟩
      rw [setRec_recs]; exact set_self _ _ _ _ hi
    · rw [if_neg ek] at hk
      obtain ⟨j, z, hz, huz, hkz⟩ := h.complete k a hk
      have hj : j ≠ i := by
        intro x; subst x; rw [hi] at hz; cases hz; exact he huz
      refine ⟨j, z, ?_, huz, hkz⟩
      rw [setRec_recs, List.getElem?_set_ne (fun x => hj x.symm)]; exact hz
  · show t.free - 1 = _
    rw [setRec_recs]
    have := countP_set_drop isFree s.recs i e n hi ((isFree_iff e).2 he)
      (by cases hx : isFree n with
          | false => rfl
          | true => exact absurd hun ((isFree_iff n).1 hx))
    rw [h.free]; omega
  · show t.sess = _
    rw [h.sess_eq]
    apply List.map_congr_left
    intro uid hm
    obtain ⟨_, r0, hr0, hu0⟩ := h.sess_ok uid hm
    unfold keyOf recOf
    rw [setRec_recs]
    unfold recOf at hr0
    have hne : uid - 1 ≠ i := by
      intro x; rw [x, hi] at hr0; cases hr0; exact he hu0
    rw [List.getElem?_set_ne (fun x => hne x.symm)]
  · intro uid hm
    obtain ⟨h1, r0, hr0, hu0⟩ := h.sess_ok uid hm
    refine ⟨h1, r0, ?_, hu0⟩
    unfold recOf at hr0 ⊢
    have hne : uid - 1 ≠ i := by
      intro x; rw [x, hi] at hr0; cases hr0; exact he hu0
    rw [setRec_recs, List.getElem?_set_ne (fun x => hne x.symm)]; exact hr0


/-! ### what is assumed of the password hash -/

/-- the facts property C02 proves of GenPasswd / CheckPasswd (`Proofs/C03Crypt.lean` instantiates them with the
DES model of C02): a fresh hash verifies its password, for every salt; passwords with one effective key are not
told apart by any stored hash; the all-zero hash verifies nothing. -/
structure Lawful (C : Crypto) : Prop where
  check_gen : ∀ (r : Nat) (p : Bytes), p ≠ [] → p.headD 0 ≠ 0 → C.check (C.gen r p) p = true
  same_key : ∀ (h : C.H) (p q : Bytes), effKey8 p = effKey8 q → C.check h p = C.check h q
  zero : ∀ q : Bytes, C.check C.zero q = false

/-- the hypothesis C02 cannot prove (DES collisions): among the passwords of the universe `pws`, a hash generated
for one effective key does not verify a password with another one. -/
def Sep (C : Crypto) (pws : List Bytes) : Prop :=
  ∀ (r : Nat) (p q : Bytes), p ∈ pws → q ∈ pws → p ≠ [] → p.headD 0 ≠ 0 → effKey8 p ≠ effKey8 q →
    C.check (C.gen r p) q = false

theorem hashRel_gen (L : Lawful C) (S : Sep C pws) (r : Nat) (p : Bytes) (hp : p ∈ pws) :
    HashRel C pws (genPasswd C r p) (pwOf p) := by
  unfold genPasswd pwOf
  by_cases hz : p.length = 0 ∨ p.headD 0 = 0
  · rw [if_pos hz, if_pos hz]
    intro q _; rw [L.zero]; simp
  · rw [if_neg hz, if_neg hz]
    have h1 : p ≠ [] := by intro e; apply hz; left; rw [e]; rfl
    have h2 : p.headD 0 ≠ 0 := fun e => hz (Or.inr e)
    intro q hq
    by_cases hk : effKey8 p = effKey8 q
    · rw [← L.same_key _ p q hk, L.check_gen r p h1 h2]; simp [hk]
    · rw [S r p q hp hq h1 h2 hk]; simp [hk]

theorem hashRel_check {h : C.H} {a : Account} (hr : HashRel C pws h a.pw) {q : Bytes} (hq : q ∈ pws) :
    C.check h q = true ↔ pwOk a q := by
  rw [hr q hq]; simp [pwOk]

/-- the passwords an operation mentions belong to the universe. -/
def OpPws (pws : List Bytes) : Op → Prop
  | .register _ pw _ _ _ => pw ∈ pws
  | .login _ pw _ => pw ∈ pws
  | .checkPasswd _ pw => pw ∈ pws
  | .changePasswd _ old new _ => old ∈ pws ∧ new ∈ pws
  | _ => True

/-- the implementation's answer is the one the specification's result class stands for. -/
def AnsAgree (op : Op) (a : Ans) (sa : SpecAns) : Prop :=
  a.err = errOf op sa.res ∧
    match op with
    | .getUser _ => (sa.res ≠ .ok → a.out = sa.out) ∧
        (sa.res = .ok → ∃ id em, a.out = [id, em] ∧ sa.out = [cstr id, em])   -- GetUser hands out the raw UserID field
    | _ => a.out = sa.out

/-! ### facts about the copied id -/

theorem copy_facts {id : Bytes} (hw : WellFormed (cstr id)) :
    isValidId (copyInto IDSZ id) = true ∧ (copyInto IDSZ id).headD 0 ≠ 0 ∧ foldId (copyInto IDSZ id) = foldId id := by
  have hv := (isValidId_iff _).2 ((wf_copy_iff id).2 hw)
  refine ⟨hv, ?_, foldId_copy_of_wf hw⟩
  intro e
  have := (cstr_headD _).1 e
  rw [cstr_copy_of_wf hw] at this
  exact wellFormed_ne_nil hw this

theorem copy_invalid {id : Bytes} (hw : ¬ WellFormed (cstr id)) : isValidId (copyInto IDSZ id) = false := by
  cases h : isValidId (copyInto IDSZ id) with
  | false => rfl
  | true => exact absurd ((wf_copy_iff id).1 ((isValidId_iff _).1 h)) hw

theorem toUUserID_valid {u : Bytes} (h : isValidId u = true) : toUUserID u = cstr u := by
  unfold toUUserID; rw [if_pos h]

theorem cstrcmp_guest (u : Bytes) : cstrcmp u STR_GUEST ≠ 0 ↔ cstr u ≠ STR_GUEST := by
  rw [Ne, cstrcmp_zero_iff]
  have : cstr STR_GUEST = STR_GUEST := by decide
  rw [this]

/-! ### every operation refines the abstract table -/

theorem uidValid_zero : uidValid 0 = false := by decide

theorem userLogin_ok (h : R C pws s t) {i : Nat} {r : Rec C} (hi : s.recs[i]? = some r) (hu : inUse r)
    (hroom : foldId r.id ∈ t.sess ∨ t.sess.length < USHM) (rest : Nat) :
    (userLogin s (i + 1) rest).2 = .none ∧
      R C pws (userLogin s (i + 1) rest).1 { t with sess := sessAdd t.sess (foldId r.id) } := by
  obtain ⟨sess', he, hR⟩ := h.enter hi hu hroom
  obtain ⟨a, ha, h6, h7, h8⟩ := h.sound i r hi hu
  unfold userLogin
  rw [he]
  simp only [recOf_succ, hi]
  refine ⟨by first | rfl | trivial, ?_⟩
  have hi' : ({ s with sess := sess' } : State C).recs[i]? = some r := hi
  have := hR.update (r' := { r with rest := rest }) hi' hu rfl (pw' := a.pw) h8
  have hacc : updAcc t.acc (foldId r.id) ⟨cstr r.id, a.pw, r.email⟩ = t.acc := by
    apply updAcc_self
    rw [ha, ← h6, ← h7]
  simp only [hacc] at this
  exact this

theorem login_refines (rs : List Bytes) (h : R C pws s t) (id pw : Bytes) (rest : Nat)
    (hp : pw ∈ pws) (hroom : Room t (.login id pw rest)) :
    R C pws (login s id pw rest).1 (specStep rs t (.login id pw rest)).1 ∧
      AnsAgree (.login id pw rest) (login s id pw rest).2 (specStep rs t (.login id pw rest)).2 := by
  unfold login specStep
  simp only []
  by_cases hw : WellFormed (cstr id)
  · obtain ⟨hv, hh, hf⟩ := copy_facts hw
    simp only [hv, hw, Bool.not_true, Bool.false_eq_true, if_false, not_true_eq_false, hh]
    cases ha : t.acc (foldId id) with
    | none =>
      have := h.lookup_missing (copyInto IDSZ id) (by rw [hf]; exact ha)
      simp only [this, uidValid_zero, Bool.not_false, if_true]
      exact ⟨h, rfl, rfl⟩
    | some a =>
      obtain ⟨i, r, h1, h2, h3, h4, h5, h6, h7, h8⟩ := h.lookup_found (copyInto IDSZ id) a (by rw [hf]; exact ha) hh
      have hval := (uidValid_succ i).2 h2
      simp only [h1, hval, recOf_succ, h3, Bool.not_true, Bool.false_eq_true, if_false]
      have hc : (cstrcmp r.id STR_GUEST ≠ 0 ∧ (!C.check r.hash pw) = true) ↔ (a.id ≠ STR_GUEST ∧ ¬ pwOk a pw) := by
        rw [cstrcmp_guest, h6, ← hashRel_check h8 hp]; simp
      by_cases hb : a.id ≠ STR_GUEST ∧ ¬ pwOk a pw
      · rw [if_pos (hc.2 hb), if_pos hb]
        exact ⟨h, rfl, rfl⟩
      · rw [if_neg (fun x => hb (hc.1 x)), if_neg hb]
        have hk : foldId r.id = foldId id := by rw [h5, hf]
        obtain ⟨e1, e2⟩ := userLogin_ok h h3 h4 (by rw [hk]; exact hroom) rest
        rw [if_neg (by rw [e1]; simp)]
        refine ⟨by rw [← hk]; exact e2, rfl, ?_⟩
        show [toUUserID r.id] = [a.id]
        rw [toUUserID_valid (h.valid i r h3 h4), h6]
  · have hv := copy_invalid hw
    simp only [hv, hw, Bool.not_false, if_true, not_false_eq_true]
    exact ⟨h, rfl, rfl⟩
theorem checkPasswd_refines (rs : List Bytes) (h : R C pws s t) (id pw : Bytes) (hp : pw ∈ pws) :
    R C pws (checkPasswd s id pw).1 (specStep rs t (.checkPasswd id pw)).1 ∧
      AnsAgree (.checkPasswd id pw) (checkPasswd s id pw).2 (specStep rs t (.checkPasswd id pw)).2 := by
  unfold checkPasswd specStep
  simp only []
  by_cases hw : WellFormed (cstr id)
  · obtain ⟨hv, hh, hf⟩ := copy_facts hw
    simp only [hv, hw, Bool.not_true, Bool.false_eq_true, if_false, not_true_eq_false, hh]
    cases ha : t.acc (foldId id) with
    | none =>
      have := h.lookup_missing (copyInto IDSZ id) (by rw [hf]; exact ha)
      simp only [this, uidValid_zero, Bool.not_false, if_true]
      exact ⟨h, rfl, rfl⟩
    | some a =>
      obtain ⟨i, r, h1, h2, h3, h4, h5, h6, h7, h8⟩ := h.lookup_found (copyInto IDSZ id) a (by rw [hf]; exact ha) hh
      have hval := (uidValid_succ i).2 h2
      simp only [h1, hval, recOf_succ, h3, Bool.not_true, Bool.false_eq_true, if_false]
      by_cases hb : pwOk a pw
      · have := (hashRel_check h8 hp).2 hb
        simp only [this, Bool.not_true, Bool.false_eq_true, if_false, hb, if_true]
        exact ⟨h, rfl, rfl⟩
      · have : C.check r.hash pw = false := by
          cases hx : C.check r.hash pw with
          | false => rfl
          | true => exact absurd ((hashRel_check h8 hp).1 hx) hb
        simp only [this, Bool.not_false, if_true, hb, if_false]
        exact ⟨h, rfl, rfl⟩
  · have hv := copy_invalid hw
    simp only [hv, hw, Bool.not_false, if_true, not_false_eq_true]
    exact ⟨h, rfl, rfl⟩

theorem changePasswd_refines (L : Lawful C) (S : Sep C pws) (rs : List Bytes) (h : R C pws s t) (id old new : Bytes)
    (salt : Nat) (hp : old ∈ pws) (hn : new ∈ pws) :
    R C pws (changePasswd s id old new salt).1 (specStep rs t (.changePasswd id old new salt)).1 ∧
      AnsAgree (.changePasswd id old new salt) (changePasswd s id old new salt).2
        (specStep rs t (.changePasswd id old new salt)).2 := by
  unfold changePasswd specStep
  simp only []
  by_cases hw : WellFormed (cstr id)
  · obtain ⟨hv, hh, hf⟩ := copy_facts hw
    simp only [hv, hw, Bool.not_true, Bool.false_eq_true, if_false, not_true_eq_false, hh]
    cases ha : t.acc (foldId id) with
    | none =>
      have := h.lookup_missing (copyInto IDSZ id) (by rw [hf]; exact ha)
      simp only [this, uidValid_zero, Bool.not_false, if_true]
      exact ⟨h, rfl, rfl⟩
    | some a =>
      obtain ⟨i, r, h1, h2, h3, h4, h5, h6, h7, h8⟩ := h.lookup_found (copyInto IDSZ id) a (by rw [hf]; exact ha) hh
      have hval := (uidValid_succ i).2 h2
      simp only [h1, hval, recOf_succ, h3, Bool.not_true, Bool.false_eq_true, if_false]
      by_cases hb : pwOk a old
      · have := (hashRel_check h8 hp).2 hb
        simp only [this, Bool.not_true, Bool.false_eq_true, if_false, hb, not_true_eq_false]
        have hk : foldId r.id = foldId id := by rw [h5, hf]
        have hR := h.update (r' := { r with hash := genPasswd C salt new }) h3 h4 rfl (hashRel_gen L S salt new hn)
        refine ⟨?_, rfl, rfl⟩
        have e : ({ a with pw := pwOf new } : Account) = ⟨cstr r.id, pwOf new, r.email⟩ := by
          rw [← h6, ← h7]
        rw [e, ← hk]; exact hR
      · have : C.check r.hash old = false := by
          cases hx : C.check r.hash old with
          | false => rfl
          | true => exact absurd ((hashRel_check h8 hp).1 hx) hb
        simp only [this, Bool.not_false, if_true, hb, not_false_eq_true]
        exact ⟨h, rfl, rfl⟩
  · have hv := copy_invalid hw
    simp only [hv, hw, Bool.not_false, if_true, not_false_eq_true]
    exact ⟨h, rfl, rfl⟩

theorem changeEmail_refines (rs : List Bytes) (h : R C pws s t) (id email : Bytes) :
    R C pws (changeEmail s id email).1 (specStep rs t (.changeEmail id email)).1 ∧
      AnsAgree (.changeEmail id email) (changeEmail s id email).2 (specStep rs t (.changeEmail id email)).2 := by
  unfold changeEmail specStep
  simp only []
  by_cases hw : WellFormed (cstr id)
  · obtain ⟨hv, hh, hf⟩ := copy_facts hw
    simp only [hv, hw, Bool.not_true, Bool.false_eq_true, if_false, not_true_eq_false, hh]
    cases ha : t.acc (foldId id) with
    | none =>
      have := h.lookup_missing (copyInto IDSZ id) (by rw [hf]; exact ha)
      simp only [this, uidValid_zero, Bool.not_false, if_true]
      exact ⟨h, rfl, rfl⟩
    | some a =>
      obtain ⟨i, r, h1, h2, h3, h4, h5, h6, h7, h8⟩ := h.lookup_found (copyInto IDSZ id) a (by rw [hf]; exact ha) hh
      have hval := (uidValid_succ i).2 h2
      simp only [h1, hval, recOf_succ, h3, Bool.not_true, Bool.false_eq_true, if_false]
      have hk : foldId r.id = foldId id := by rw [h5, hf]
      have hR := h.update (r' := { r with email := copyInto EMAILSZ email }) h3 h4 rfl (pw' := a.pw) h8
      refine ⟨?_, rfl, rfl⟩
      have e : ({ a with email := copyInto EMAILSZ email } : Account) = ⟨cstr r.id, a.pw, copyInto EMAILSZ email⟩ := by
        rw [← h6]
      rw [e, ← hk]; exact hR
  · have hv := copy_invalid hw
    simp only [hv, hw, Bool.not_false, if_true, not_false_eq_true]
    exact ⟨h, rfl, rfl⟩

theorem exists_refines (rs : List Bytes) (h : R C pws s t) (id : Bytes) :
    R C pws (checkExists s id).1 (specStep rs t (.exists_ id)).1 ∧
      AnsAgree (.exists_ id) (checkExists s id).2 (specStep rs t (.exists_ id)).2 := by
  unfold checkExists specStep
  simp only []
  by_cases hw : WellFormed (cstr id)
  · obtain ⟨hv, hh, hf⟩ := copy_facts hw
    simp only [hv, hw, Bool.not_true, Bool.false_eq_true, if_false, not_true_eq_false]
    cases ha : t.acc (foldId id) with
    | none =>
      have := h.lookup_missing (copyInto IDSZ id) (by rw [hf]; exact ha)
      simp only [this, uidValid_zero, Bool.not_false, if_true]
      exact ⟨h, rfl, rfl⟩
    | some a =>
      obtain ⟨i, r, h1, h2, h3, h4, h5, h6, h7, h8⟩ := h.lookup_found (copyInto IDSZ id) a (by rw [hf]; exact ha) hh
      have hval := (uidValid_succ i).2 h2
      simp only [h1, hval, Bool.not_true, Bool.false_eq_true, if_false]
      exact ⟨h, rfl, rfl⟩
  · have hv := copy_invalid hw
    simp only [hv, hw, Bool.not_false, if_true, not_false_eq_true]
    exact ⟨h, rfl, rfl⟩

theorem R.key_facts (h : R C pws s t) {k : Bytes} {a : Account} (hk : t.acc k = some a) : k ≠ [] ∧ k.length ≤ 12 := by
  obtain ⟨i, r, hr, hu, hf⟩ := h.complete k a hk
  have hw := (isValidId_iff r.id).1 (h.valid i r hr hu)
  rw [← hf]
  exact ⟨(inUse_iff_fold r).1 hu, by rw [foldId_length]; exact hw.2.1⟩

theorem getUser_refines (rs : List Bytes) (h : R C pws s t) (id : Bytes) :
    R C pws (getUser s id).1 (specStep rs t (.getUser id)).1 ∧
      AnsAgree (.getUser id) (getUser s id).2 (specStep rs t (.getUser id)).2 := by
  unfold getUser specStep
  simp only []
  -- the key the array is looked up under
  have hkey : t.acc (foldId (copyInto IDSZ id)) = t.acc (foldId id) := by
    by_cases hl : (cstr id).length ≤ 12
    · rw [foldId_copyInto, List.take_of_length_le (by rw [foldId_length, consts.2.1]; omega)]
    · have h1 : t.acc (foldId id) = none := by
        cases hx : t.acc (foldId id) with
        | none => rfl
        | some a => have := (h.key_facts hx).2; rw [foldId_length] at this; omega
      have h2 : t.acc (foldId (copyInto IDSZ id)) = none := by
        cases hx : t.acc (foldId (copyInto IDSZ id)) with
        | none => rfl
        | some a =>
          have := (h.key_facts hx).2
          rw [foldId_copyInto, List.length_take, foldId_length, consts.2.1] at this; omega
      rw [h1, h2]
  cases ha : t.acc (foldId id) with
  | none =>
    have := h.lookup_missing (copyInto IDSZ id) (by rw [hkey]; exact ha)
    simp only [this, uidValid_zero, Bool.not_false, if_true]
    exact ⟨h, rfl, fun _ => rfl, fun x => by cases x⟩
  | some a =>
    have hne : (copyInto IDSZ id).headD 0 ≠ 0 := by
      intro e
      have := (h.key_facts (hkey.trans ha)).1
      exact this ((foldId_nil_iff _).2 e)
    obtain ⟨i, r, h1, h2, h3, h4, h5, h6, h7, h8⟩ := h.lookup_found (copyInto IDSZ id) a (hkey.trans ha) hne
    have hval := (uidValid_succ i).2 h2
    simp only [h1, hval, recOf_succ, h3, Bool.not_true, Bool.false_eq_true, if_false]
    exact ⟨h, rfl, fun x => absurd rfl x, fun _ => ⟨r.id, r.email, rfl, by rw [h6, h7]⟩⟩

theorem register_refused (rs : List Bytes) (s : State C) (id pw email : Bytes) (salt rest : Nat)
    (hg : ¬ (WellFormed id ∧ ¬ Reserved rs id)) :
    register rs s id pw email salt rest = (s, ⟨.invalidUserID, [[]]⟩) := by
  unfold register
  simp only []
  cases h1 : id.contains 0 with
  | true => simp
  | false =>
    cases h2 : isBadUserID (copyInto IDSZ id) with
    | true => simp
    | false =>
      cases h3 : isReservedUserID rs (copyInto IDSZ id) with
      | true => simp
      | false => exact absurd ((gate_iff rs id).1 ⟨h1, h2, h3⟩) hg

theorem register_refines (L : Lawful C) (S : Sep C pws) (rs : List Bytes) (h : R C pws s t) (id pw email : Bytes)
    (salt rest : Nat) (hp : pw ∈ pws) (hroom : Room t (.register id pw email salt rest)) :
    R C pws (register rs s id pw email salt rest).1 (specStep rs t (.register id pw email salt rest)).1 ∧
      AnsAgree (.register id pw email salt rest) (register rs s id pw email salt rest).2
        (specStep rs t (.register id pw email salt rest)).2 := by
  by_cases hg : WellFormed id ∧ ¬ Reserved rs id
  · obtain ⟨hw, hres⟩ := hg
    obtain ⟨g1, g2, g3⟩ := (gate_iff rs id).2 ⟨hw, hres⟩
    have hnz := wellFormed_no_zero hw
    have hc : cstr id = id := cstr_of_no_zero id hnz
    have hw' : WellFormed (cstr id) := by rw [hc]; exact hw
    obtain ⟨hv, hh, hf⟩ := copy_facts hw'
    have hfold : foldId (copyInto IDSZ id) = id.map tolower := by rw [hf, foldId, hc]
    have hcs : cstr (copyInto IDSZ id) = id := by rw [cstr_copy_of_wf hw', hc]
    have hds : doSearchUserRaw s (copyInto IDSZ id) = searchUserRaw s (copyInto IDSZ id) := by
      unfold searchUserRaw; rw [if_neg hh]
    let n : Rec C := { id := copyInto IDSZ id, hash := genPasswd C salt pw, email := copyInto EMAILSZ email, rest := rest }
    unfold register specStep
    simp only [g1, g2, g3, Bool.false_eq_true, if_false, hw, hres, not_true_eq_false]
    cases ha : t.acc (id.map tolower) with
    | some a =>
      obtain ⟨i, r, h1, _⟩ := h.lookup_found (copyInto IDSZ id) a (by rw [hfold]; exact ha) hh
      have hs : setupNewUser s n = (s, .userExists) := by
        unfold setupNewUser; simp only [n, hds, h1]; simp
      simp only [n] at hs
      simp only [hs]
      simp
      exact ⟨h, rfl, rfl⟩
    | none =>
      have h0 := h.lookup_missing (copyInto IDSZ id) (by rw [hfold]; exact ha)
      by_cases hfree : t.free = 0
      · have := h.free_search.1 hfree
        have hs : setupNewUser s n = (s, .invalidUID) := by
          unfold setupNewUser; simp only [n, hds, h0, this, uidValid_zero]; simp
        simp only [n] at hs
        simp only [hs, hfree]
        simp
        exact ⟨h, rfl, rfl⟩
      · obtain ⟨i, e, f1, f2, f3, f4⟩ := h.free_search.2 hfree
        have hval := (uidValid_succ i).2 f2
        have hs : setupNewUser s n = (setRec s (i + 1) n, .none) := by
          unfold setupNewUser; simp only [n, hds, h0, f1, hval]; simp
        -- the record that is written
        have hnew : ∀ (k : Nat) (r : Rec C), s.recs[k]? = some r → foldId (copyInto IDSZ id) ≠ foldId r.id := by
          have : searchFrom s.recs (copyInto IDSZ id) 0 = 0 := by
            have := h0; unfold searchUserRaw doSearchUserRaw at this; rwa [if_neg hh] at this
          exact (searchFrom_zero _ _ _).1 this
        have hR1 := h.insert (n := n) f3 f4 hv hh hnew (hashRel_gen L S salt pw hp)
        have hacc : (updAcc t.acc (foldId n.id) ⟨cstr n.id, pwOf pw, n.email⟩) (foldId (copyInto IDSZ id)) =
            some ⟨cstr n.id, pwOf pw, n.email⟩ := by simp [updAcc, n]
        obtain ⟨i', r', k1, k2, k3, k4, k5, _⟩ := hR1.lookup_found (copyInto IDSZ id) _ hacc hh
        have hin : (setRec s (i + 1) n).recs[i]? = some n := by rw [setRec_recs]; exact set_self _ _ _ _ f3
        have hii : i' = i := hR1.uniq i' i r' n k3 hin k4 k5
        subst hii
        rw [hin] at k3; cases k3
        have hroom' : foldId n.id ∈ t.sess ∨ t.sess.length < USHM := Or.inr hroom
        obtain ⟨e1, e2⟩ := userLogin_ok hR1 hin hh hroom' rest
        have hs' := hs
        simp only [n] at hs' k1 hin e1
        simp only [hs', k1, hval, recOf_succ, hin, e1, hfree]
        simp
        refine ⟨?_, rfl, ?_⟩
        · have : foldId n.id = id.map tolower := hfold
          have hcn : cstr n.id = id := hcs
          rw [this, hcn] at e2
          exact e2
        · show [toUUserID n.id] = [id]
          rw [toUUserID_valid hv, hcs]
  · rw [register_refused rs s id pw email salt rest hg]
    unfold specStep
    simp only []
    by_cases hw : WellFormed id
    · have hr : Reserved rs id := Classical.not_not.1 (fun x => hg ⟨hw, x⟩)
      simp only [hw, hr, not_true_eq_false, if_false, if_true]
      exact ⟨h, rfl, rfl⟩
    · simp only [hw, not_false_eq_true, if_true]
      exact ⟨h, rfl, rfl⟩

theorem step_refines (L : Lawful C) (S : Sep C pws) (rs : List Bytes) (h : R C pws s t) (op : Op)
    (hp : OpPws pws op) (hroom : Room t op) :
    R C pws (step rs s op).1 (specStep rs t op).1 ∧ AnsAgree op (step rs s op).2 (specStep rs t op).2 := by
  cases op with
  | register id pw email salt rest => exact register_refines L S rs h id pw email salt rest hp hroom
  | login id pw rest => exact login_refines rs h id pw rest hp hroom
  | checkPasswd id pw => exact checkPasswd_refines rs h id pw hp
  | changePasswd id old new salt => exact changePasswd_refines L S rs h id old new salt hp.1 hp.2
  | changeEmail id email => exact changeEmail_refines rs h id email
  | exists_ id => exact exists_refines rs h id
  | getUser id => exact getUser_refines rs h id

/-- answers agree, position by position. -/
def AnsAgreeAll : List Op → List Ans → List SpecAns → Prop
  | [], [], [] => True
  | o :: os, a :: as, b :: bs => AnsAgree o a b ∧ AnsAgreeAll os as bs
  | _, _, _ => False

theorem run_refines (L : Lawful C) (S : Sep C pws) (rs : List Bytes) (ops : List Op) :
    ∀ (s : State C) (t : Table), R C pws s t → (∀ o ∈ ops, OpPws pws o) → RoomRun rs t ops →
      R C pws (run rs s ops) (specRun rs t ops) ∧ AnsAgreeAll ops (outputs rs s ops) (specOutputs rs t ops) := by
  induction ops with
  | nil => intro s t h _ _; exact ⟨h, trivial⟩
  | cons o os ih =>
    intro s t h hp hroom
    obtain ⟨h1, h2⟩ := step_refines L S rs h o (hp o (by simp)) hroom.1
    obtain ⟨h3, h4⟩ := ih _ _ h1 (fun o' ho' => hp o' (by simp [ho'])) hroom.2
    exact ⟨h3, h2, h4⟩

/-! ### frame: which record an operation may touch -/

/-- the uid of the one record the operation may write: the first free slot for a registration, the slot the index
resolves the submitted id to for everything else. -/
def target (s : State C) : Op → Nat
  | .register .. => doSearchUserRaw s (List.replicate IDSZ 0)
  | .login id .. => searchUserRaw s (copyInto IDSZ id)
  | .checkPasswd id _ => searchUserRaw s (copyInto IDSZ id)
  | .changePasswd id .. => searchUserRaw s (copyInto IDSZ id)
  | .changeEmail id _ => searchUserRaw s (copyInto IDSZ id)
  | .exists_ id => searchUserRaw s (copyInto IDSZ id)
  | .getUser id => searchUserRaw s (copyInto IDSZ id)

theorem setRec_other (s : State C) (uid : Nat) (r : Rec C) (j : Nat) (h : j + 1 ≠ uid) (h1 : 1 ≤ uid) :
    (setRec s uid r).recs[j]? = s.recs[j]? := by
  unfold setRec
  simp only []
  rw [List.getElem?_set_ne (by omega)]

theorem userLogin_other (s : State C) (uid rest : Nat) (j : Nat) (h : j + 1 ≠ uid) (h1 : 1 ≤ uid) :
    (userLogin s uid rest).1.recs[j]? = s.recs[j]? := by
  unfold userLogin
  cases utmpEnter s.sess uid with
  | none => rfl
  | some sess' =>
    simp only []
    cases recOf s uid with
    | none => rfl
    | some u => exact setRec_other _ _ _ _ h h1

theorem uidValid_pos {u : Nat} (h : uidValid u = true) : 1 ≤ u := by
  simp [uidValid] at h; exact h.1

theorem setupNewUser_other (s : State C) (n : Rec C) (j : Nat) (h : j + 1 ≠ doSearchUserRaw s (List.replicate IDSZ 0)) :
    (setupNewUser s n).1.recs[j]? = s.recs[j]? := by
  unfold setupNewUser
  simp only []
  split
  · rfl
  · split
    · rfl
    · rename_i hv
      exact setRec_other _ _ _ _ h (uidValid_pos (by simpa using hv))

theorem searchFrom_set_new (rs : List (Rec C)) (i k : Nat) (e n : Rec C) (q : Bytes)
    (h0 : searchFrom rs q k = 0) (hi : rs[i]? = some e) (hq : cstrcasecmp q n.id = 0) :
    searchFrom (rs.set i n) q k = k + i + 1 := by
  induction rs generalizing i k with
  | nil => simp at hi
  | cons x xs ih =>
    unfold searchFrom at h0
    by_cases hx : cstrcasecmp q x.id = 0
    · rw [if_pos hx] at h0; omega
    · rw [if_neg hx] at h0
      cases i with
      | zero => simp only [List.set_cons_zero]; unfold searchFrom; rw [if_pos hq]
      | succ i =>
        simp only [List.set_cons_succ]
        unfold searchFrom
        rw [if_neg hx, ih i (k + 1) h0 (by simpa using hi)]; omega

theorem cstrcasecmp_self (u : Bytes) : cstrcasecmp u u = 0 := (cstrcasecmp_zero_iff u u).2 rfl

/-- every operation, in every state: all records except the target's are what they were. -/
theorem frame_all (rs : List Bytes) (s : State C) (op : Op) (j : Nat) (h : j + 1 ≠ target s op) :
    (step rs s op).1.recs[j]? = s.recs[j]? := by
  cases op with
  | register id pw email salt rest =>
    simp only [step, target] at h ⊢
    unfold register
    simp only []
    split
    · rfl
    · split
      · rfl
      · split
        · rfl
        · -- the gates are passed
          rename_i g1 hb g3
          generalize hn : ({ id := copyInto IDSZ id, hash := genPasswd C salt pw, email := copyInto EMAILSZ email, rest := rest } : Rec C) = n
          have hs1 := setupNewUser_other s n j h
          split
          · exact hs1
          · rename_i he
            have he' : (setupNewUser s n).2 = .none := by simpa using he
            -- the setup wrote slot `target`; the login that follows addresses the same uid
            have hshape : (setupNewUser s n) =
                (setRec s (doSearchUserRaw s (List.replicate IDSZ 0)) n, .none) ∧
                doSearchUserRaw s n.id = 0 ∧ uidValid (doSearchUserRaw s (List.replicate IDSZ 0)) = true := by
              by_cases c1 : doSearchUserRaw s n.id = 0
              · by_cases c3 : uidValid (doSearchUserRaw s (List.replicate IDSZ 0)) = true
                · refine ⟨?_, c1, c3⟩
                  unfold setupNewUser; simp [c1, c3]
                · exfalso
                  have : setupNewUser s n = (s, .invalidUID) := by unfold setupNewUser; simp [c1, c3]
                  rw [this] at he'; cases he'
              · exfalso
                have : setupNewUser s n = (s, .userExists) := by unfold setupNewUser; simp [c1]
                rw [this] at he'; cases he'
            obtain ⟨hset, hz, hv⟩ := hshape
            have hpos := uidValid_pos hv
            have hlt : doSearchUserRaw s (List.replicate IDSZ 0) - 1 < s.recs.length := by
              -- a found slot is inside the list
              have hnz : searchFrom s.recs (List.replicate IDSZ 0) 0 ≠ 0 := by
                unfold doSearchUserRaw at hpos; omega
              obtain ⟨k, r, e1, e2, _⟩ := searchFrom_pos _ _ _ hnz
              unfold doSearchUserRaw
              rw [e1]
              have := (List.getElem?_eq_some_iff.1 e2).1
              omega
            have hid : n.id = copyInto IDSZ id := by rw [← hn]
            have hhead : (copyInto IDSZ id).headD 0 ≠ 0 := by
              have hv' : isValidId (copyInto IDSZ id) = true := by
                cases hx : isValidId (copyInto IDSZ id) with
                | true => rfl
                | false => exfalso; apply hb; unfold isBadUserID; simp [hx]
              have hw := (isValidId_iff _).1 hv'
              intro e
              exact wellFormed_ne_nil hw ((cstr_headD _).1 e)
            have hsearch : searchUserRaw (setupNewUser s n).1 (copyInto IDSZ id) =
                doSearchUserRaw s (List.replicate IDSZ 0) := by
              rw [hset]
              unfold searchUserRaw doSearchUserRaw setRec
              rw [if_neg hhead]
              simp only []
              obtain ⟨e, he⟩ : ∃ e, s.recs[doSearchUserRaw s (List.replicate IDSZ 0) - 1]? = some e :=
                ⟨_, List.getElem?_eq_getElem hlt⟩
              have := searchFrom_set_new s.recs _ 0 e n (copyInto IDSZ id)
                (by unfold doSearchUserRaw at hz; rw [hid] at hz; exact hz) he (by rw [hid]; exact cstrcasecmp_self _)
              unfold doSearchUserRaw at this hpos
              rw [this]; omega
            rw [hsearch, hv]
            simp only [Bool.not_true, Bool.false_eq_true, if_false]
            cases recOf (setupNewUser s n).1 (doSearchUserRaw s (List.replicate IDSZ 0)) with
            | none => exact hs1
            | some user =>
              simp only []
              have hl := userLogin_other (setupNewUser s n).1 (doSearchUserRaw s (List.replicate IDSZ 0)) rest j h hpos
              split
              · rw [hl]; exact hs1
              · rw [hl]; exact hs1
  | login id pw rest =>
    simp only [step, target] at h ⊢
    unfold login
    simp only []
    split
    · rfl
    · split
      · rfl
      · split
        · rfl
        · rename_i hv
          have hpos := uidValid_pos (by simpa using hv)
          cases recOf s (searchUserRaw s (copyInto IDSZ id)) with
          | none => rfl
          | some user =>
            simp only []
            have hl := userLogin_other s _ rest j h hpos
            split
            · rfl
            · split
              · exact hl
              · exact hl
  | checkPasswd id pw =>
    simp only [step]
    unfold checkPasswd
    simp only []
    repeat' split
    all_goals rfl
  | changePasswd id old new salt =>
    simp only [step, target] at h ⊢
    unfold changePasswd
    simp only []
    split
    · rfl
    · split
      · rfl
      · split
        · rfl
        · rename_i hv
          have hpos := uidValid_pos (by simpa using hv)
          cases recOf s (searchUserRaw s (copyInto IDSZ id)) with
          | none => rfl
          | some user =>
            simp only []
            split
            · rfl
            · exact setRec_other _ _ _ _ h hpos
  | changeEmail id email =>
    simp only [step, target] at h ⊢
    unfold changeEmail
    simp only []
    split
    · rfl
    · split
      · rfl
      · split
        · rfl
        · rename_i hv
          have hpos := uidValid_pos (by simpa using hv)
          cases recOf s (searchUserRaw s (copyInto IDSZ id)) with
          | none => rfl
          | some user => exact setRec_other _ _ _ _ h hpos
  | exists_ id =>
    simp only [step]
    unfold checkExists
    simp only []
    repeat' split
    all_goals rfl
  | getUser id =>
    simp only [step]
    unfold getUser
    simp only []
    repeat' split
    all_goals rfl

theorem setupNewUser_shape (s : State C) (n : Rec C) :
    ((setupNewUser s n).2 ≠ .none ∧ (setupNewUser s n).1 = s) ∨
    (setupNewUser s n = (setRec s (doSearchUserRaw s (List.replicate IDSZ 0)) n, .none) ∧
      doSearchUserRaw s n.id = 0 ∧ uidValid (doSearchUserRaw s (List.replicate IDSZ 0)) = true) := by
  by_cases c1 : doSearchUserRaw s n.id = 0
  · by_cases c3 : uidValid (doSearchUserRaw s (List.replicate IDSZ 0)) = true
    · right; refine ⟨?_, c1, c3⟩
      unfold setupNewUser; simp [c1, c3]
    · left
      have : setupNewUser s n = (s, .invalidUID) := by unfold setupNewUser; simp [c1, c3]
      rw [this]; exact ⟨by simp, rfl⟩
  · left
    have : setupNewUser s n = (s, .userExists) := by unfold setupNewUser; simp [c1]
    rw [this]; exact ⟨by simp, rfl⟩

theorem search_after_setup (s : State C) (n : Rec C) (hh : n.id.headD 0 ≠ 0) (hz : doSearchUserRaw s n.id = 0)
    (hv : uidValid (doSearchUserRaw s (List.replicate IDSZ 0)) = true) :
    searchUserRaw (setRec s (doSearchUserRaw s (List.replicate IDSZ 0)) n) n.id = doSearchUserRaw s (List.replicate IDSZ 0) ∧
      recOf (setRec s (doSearchUserRaw s (List.replicate IDSZ 0)) n) (doSearchUserRaw s (List.replicate IDSZ 0)) = some n := by
  have hpos := uidValid_pos hv
  have hnz : searchFrom s.recs (List.replicate IDSZ 0) 0 ≠ 0 := by unfold doSearchUserRaw at hpos; omega
  obtain ⟨k, r, e1, e2, _⟩ := searchFrom_pos _ _ _ hnz
  have hu : doSearchUserRaw s (List.replicate IDSZ 0) = k + 1 := by unfold doSearchUserRaw; rw [e1]; omega
  rw [hu]
  constructor
  · unfold searchUserRaw doSearchUserRaw
    rw [if_neg hh, setRec_recs]
    have := searchFrom_set_new s.recs k 0 r n n.id (by unfold doSearchUserRaw at hz; exact hz) e2 (cstrcasecmp_self _)
    rw [this]; omega
  · rw [recOf_succ, setRec_recs]; exact set_self _ _ _ _ e2

theorem userLogin_cases (s : State C) (uid rest : Nat) :
    (userLogin s uid rest).2 = .none ∨ ((userLogin s uid rest).2 = .newUtmp ∧ (userLogin s uid rest).1 = s) ∨
      (userLogin s uid rest).2 = .io := by
  unfold userLogin
  cases utmpEnter s.sess uid with
  | none => right; left; exact ⟨rfl, rfl⟩
  | some sess' =>
    simp only []
    cases recOf s uid with
    | none => right; right; rfl
    | some u => left; rfl

/-- an operation that returns an error leaves the whole state (file and session table) as it was — except that a
registration can return ErrNewUtmp after having created the account (the known finding), and file errors. -/
theorem refused_noop (rs : List Bytes) (s : State C) (op : Op) (h1 : (step rs s op).2.err ≠ .none)
    (h2 : (step rs s op).2.err ≠ .io)
    (h3 : ∀ id pw em sa re, op = .register id pw em sa re → (step rs s op).2.err ≠ .newUtmp) :
    (step rs s op).1 = s := by
  cases op with
  | register id pw email salt rest =>
    have h3' := h3 id pw email salt rest rfl
    simp only [step] at h1 h2 h3' ⊢
    unfold register at h1 h2 h3' ⊢
    simp only [] at h1 h2 h3' ⊢
    split
    · rfl
    · split
      · rfl
      · split
        · rfl
        · rename_i g1 hb g3
          rw [if_neg g1, if_neg hb, if_neg g3] at h1 h2 h3'
          generalize hn : ({ id := copyInto IDSZ id, hash := genPasswd C salt pw, email := copyInto EMAILSZ email, rest := rest } : Rec C) = n at h1 h2 h3' ⊢
          have hid : n.id = copyInto IDSZ id := by rw [← hn]
          have hhead : n.id.headD 0 ≠ 0 := by
            rw [hid]
            have hv' : isValidId (copyInto IDSZ id) = true := by
              cases hx : isValidId (copyInto IDSZ id) with
              | true => rfl
              | false => exfalso; apply hb; unfold isBadUserID; simp [hx]
            have hw := (isValidId_iff _).1 hv'
            intro e
            exact wellFormed_ne_nil hw ((cstr_headD _).1 e)
          rcases setupNewUser_shape s n with ⟨e1, e2⟩ | ⟨e1, hz, hv⟩
          · rw [if_pos e1]; exact e2
          · obtain ⟨k1, k2⟩ := search_after_setup s n hhead hz hv
            rw [← hid] at h1 h2 h3' ⊢
            simp only [e1, k1, k2, hv, Bool.not_true, Bool.false_eq_true, if_false, ne_eq, not_true_eq_false] at h1 h2 h3' ⊢
            rcases userLogin_cases (setRec s (doSearchUserRaw s (List.replicate IDSZ 0)) n)
              (doSearchUserRaw s (List.replicate IDSZ 0)) rest with e | ⟨e, _⟩ | e
            · simp [e] at h1
            · simp [e] at h3'
            · simp [e] at h2
  | login id pw rest =>
    simp only [step] at h1 h2 ⊢
    unfold login at h1 h2 ⊢
    simp only [] at h1 h2 ⊢
    split
    · rfl
    · split
      · rfl
      · split
        · rfl
        · rename_i g1 g2 g3
          rw [if_neg g1, if_neg g2, if_neg g3] at h1 h2
          cases hr : recOf s (searchUserRaw s (copyInto IDSZ id)) with
          | none => rfl
          | some user =>
            rw [hr] at h1 h2
            simp only [] at h1 h2 ⊢
            split
            · rfl
            · rename_i g4
              rw [if_neg g4] at h1 h2
              rcases userLogin_cases s (searchUserRaw s (copyInto IDSZ id)) rest with e | ⟨e, e'⟩ | e
              · simp [e] at h1
              · simp [e, e']
              · simp [e] at h2
  | checkPasswd id pw =>
    simp only [step]
    unfold checkPasswd
    simp only []
    repeat' split
    all_goals rfl
  | changePasswd id old new salt =>
    simp only [step] at h1 ⊢
    unfold changePasswd at h1 ⊢
    simp only [] at h1 ⊢
    split
    · rfl
    · split
      · rfl
      · split
        · rfl
        · rename_i g1 g2 g3
          rw [if_neg g1, if_neg g2, if_neg g3] at h1
          cases hr : recOf s (searchUserRaw s (copyInto IDSZ id)) with
          | none => rfl
          | some user =>
            rw [hr] at h1
            simp only [] at h1 ⊢
            split
            · rfl
            · rename_i g4
              rw [if_neg g4] at h1
              simp at h1
  | changeEmail id email =>
    simp only [step] at h1 ⊢
    unfold changeEmail at h1 ⊢
    simp only [] at h1 ⊢
    split
    · rfl
    · split
      · rfl
      · split
        · rfl
        · rename_i g1 g2 g3
          rw [if_neg g1, if_neg g2, if_neg g3] at h1
          cases hr : recOf s (searchUserRaw s (copyInto IDSZ id)) with
          | none => rfl
          | some user =>
            rw [hr] at h1
            simp at h1
  | exists_ id =>
    simp only [step]
    unfold checkExists
    simp only []
    repeat' split
    all_goals rfl
  | getUser id =>
    simp only [step]
    unfold getUser
    simp only []
    repeat' split
    all_goals rfl

/-- which fields of a record an operation leaves alone (registration writes a whole new record). -/
def Kept : Op → Rec C → Rec C → Prop
  | .register .., _, _ => True
  | .login .., r, r' => r'.id = r.id ∧ r'.hash = r.hash ∧ r'.email = r.email
  | .changePasswd .., r, r' => r'.id = r.id ∧ r'.email = r.email ∧ r'.rest = r.rest
  | .changeEmail .., r, r' => r'.id = r.id ∧ r'.hash = r.hash ∧ r'.rest = r.rest
  | _, r, r' => r' = r

theorem setRec_cases (s : State C) (uid : Nat) (user r' : Rec C) (hu : recOf s uid = some user)
    (j : Nat) (r r1 : Rec C) (hr : s.recs[j]? = some r) (h1 : (setRec s uid r').recs[j]? = some r1) :
    r1 = r ∨ (r = user ∧ r1 = r') := by
  unfold setRec at h1
  simp only [] at h1
  rcases set_cases _ _ _ _ _ h1 with ⟨e1, e2⟩ | ⟨_, e⟩
  · right
    unfold recOf at hu
    rw [← e1, hr] at hu
    exact ⟨by cases hu; rfl, e2⟩
  · left; rw [hr] at e; cases e; rfl

theorem userLogin_kept (s : State C) (uid rest : Nat) (j : Nat) (r r1 : Rec C) (hr : s.recs[j]? = some r)
    (h1 : (userLogin s uid rest).1.recs[j]? = some r1) : r1.id = r.id ∧ r1.hash = r.hash ∧ r1.email = r.email := by
  unfold userLogin at h1
  cases hu : utmpEnter s.sess uid with
  | none => rw [hu] at h1; rw [hr] at h1; cases h1; exact ⟨rfl, rfl, rfl⟩
  | some sess' =>
    rw [hu] at h1
    simp only [] at h1
    cases hq : recOf s uid with
    | none =>
      rw [hq] at h1
      change s.recs[j]? = some r1 at h1
      rw [hr] at h1; cases h1; exact ⟨rfl, rfl, rfl⟩
    | some u =>
      have e : recOf ({ s with sess := sess' } : State C) uid = some u := hq
      rw [hq] at h1
      simp only [] at h1
      rcases setRec_cases { s with sess := sess' } uid u _ e j r r1 hr h1 with x | ⟨x, y⟩
      · rw [x]; exact ⟨rfl, rfl, rfl⟩
      · rw [x, y]; exact ⟨rfl, rfl, rfl⟩

/-- every operation except a registration keeps, in EVERY record, the fields it has no business with: a login
rewrites only the clock-dependent rest, a password change only the hash, an e-mail change only the e-mail,
everything else nothing. -/
theorem kept_all (rs : List Bytes) (s : State C) (op : Op) (j : Nat) (r r1 : Rec C) (hr : s.recs[j]? = some r)
    (h1 : (step rs s op).1.recs[j]? = some r1) : Kept op r r1 := by
  cases op with
  | register id pw email salt rest => trivial
  | login id pw rest =>
    simp only [step] at h1
    show r1.id = r.id ∧ r1.hash = r.hash ∧ r1.email = r.email
    unfold login at h1
    simp only [] at h1
    have same : s.recs[j]? = some r1 → r1.id = r.id ∧ r1.hash = r.hash ∧ r1.email = r.email := by
      intro x; rw [hr] at x; cases x; exact ⟨rfl, rfl, rfl⟩
    split at h1
    · exact same h1
    · split at h1
      · exact same h1
      · split at h1
        · exact same h1
        · cases hq : recOf s (searchUserRaw s (copyInto IDSZ id)) with
          | none => rw [hq] at h1; exact same h1
          | some user =>
            rw [hq] at h1
            simp only [] at h1
            split at h1
            · exact same h1
            · split at h1
              · exact userLogin_kept s _ rest j r r1 hr h1
              · exact userLogin_kept s _ rest j r r1 hr h1
  | checkPasswd id pw =>
    simp only [step] at h1
    show r1 = r
    have : (checkPasswd s id pw).1 = s := by
      unfold checkPasswd; simp only []; repeat' split
      all_goals rfl
    rw [this, hr] at h1; cases h1; rfl
  | changePasswd id old new salt =>
    simp only [step] at h1
    show r1.id = r.id ∧ r1.email = r.email ∧ r1.rest = r.rest
    unfold changePasswd at h1
    simp only [] at h1
    have same : s.recs[j]? = some r1 → r1.id = r.id ∧ r1.email = r.email ∧ r1.rest = r.rest := by
      intro x; rw [hr] at x; cases x; exact ⟨rfl, rfl, rfl⟩
    split at h1
    · exact same h1
    · split at h1
      · exact same h1
      · split at h1
        · exact same h1
        · cases hq : recOf s (searchUserRaw s (copyInto IDSZ id)) with
          | none => rw [hq] at h1; exact same h1
          | some user =>
            rw [hq] at h1
            simp only [] at h1
            split at h1
            · exact same h1
            · rcases setRec_cases s _ user _ hq j r r1 hr h1 with x | ⟨x, y⟩
              · rw [x]; exact ⟨rfl, rfl, rfl⟩
              · rw [x, y]; exact ⟨rfl, rfl, rfl⟩
  | changeEmail id email =>
    simp only [step] at h1
    show r1.id = r.id ∧ r1.hash = r.hash ∧ r1.rest = r.rest
    unfold changeEmail at h1
    simp only [] at h1
    have same : s.recs[j]? = some r1 → r1.id = r.id ∧ r1.hash = r.hash ∧ r1.rest = r.rest := by
      intro x; rw [hr] at x; cases x; exact ⟨rfl, rfl, rfl⟩
    split at h1
    · exact same h1
    · split at h1
      · exact same h1
      · split at h1
        · exact same h1
        · cases hq : recOf s (searchUserRaw s (copyInto IDSZ id)) with
          | none => rw [hq] at h1; exact same h1
          | some user =>
            rw [hq] at h1
            simp only [] at h1
            rcases setRec_cases s _ user _ hq j r r1 hr h1 with x | ⟨x, y⟩
            · rw [x]; exact ⟨rfl, rfl, rfl⟩
            · rw [x, y]; exact ⟨rfl, rfl, rfl⟩
  | exists_ id =>
    simp only [step] at h1
    show r1 = r
    have : (checkExists s id).1 = s := by
      unfold checkExists; simp only []; repeat' split
      all_goals rfl
    rw [this, hr] at h1; cases h1; rfl
  | getUser id =>
    simp only [step] at h1
    show r1 = r
    have : (getUser s id).1 = s := by
      unfold getUser; simp only []; repeat' split
      all_goals rfl
    rw [this, hr] at h1; cases h1; rfl

/-! ### the session table is full (known finding) -/

/-- a registration the specification accepts, up to the point where `userLogin` is called: the account has been
written to the first free slot. -/
theorem register_setup (L : Lawful C) (S : Sep C pws) (rs : List Bytes) (h : R C pws s t) (id pw email : Bytes)
    (salt rest : Nat) (hp : pw ∈ pws) (hw : WellFormed id) (hres : ¬ Reserved rs id)
    (hnone : t.acc (id.map tolower) = none) (hfree : t.free ≠ 0) :
    ∃ (i : Nat) (n : Rec C), n.id = copyInto IDSZ id ∧ inUse n ∧ foldId n.id = id.map tolower ∧ cstr n.id = id ∧
      (setRec s (i + 1) n).recs[i]? = some n ∧ searchUserRaw (setRec s (i + 1) n) (copyInto IDSZ id) = i + 1 ∧
      R C pws (setRec s (i + 1) n)
        { acc := updAcc t.acc (id.map tolower) ⟨id, pwOf pw, copyInto EMAILSZ email⟩, free := t.free - 1, sess := t.sess } ∧
      (id.map tolower) ∉ t.sess ∧
      register rs s id pw email salt rest =
        (if (userLogin (setRec s (i + 1) n) (i + 1) rest).2 ≠ .none
          then ((userLogin (setRec s (i + 1) n) (i + 1) rest).1, ⟨(userLogin (setRec s (i + 1) n) (i + 1) rest).2, [[]]⟩)
          else ((userLogin (setRec s (i + 1) n) (i + 1) rest).1, ⟨.none, [id]⟩)) := by
  obtain ⟨g1, g2, g3⟩ := (gate_iff rs id).2 ⟨hw, hres⟩
  have hnz := wellFormed_no_zero hw
  have hc : cstr id = id := cstr_of_no_zero id hnz
  have hw' : WellFormed (cstr id) := by rw [hc]; exact hw
  obtain ⟨hv, hh, hf⟩ := copy_facts hw'
  have hfold : foldId (copyInto IDSZ id) = id.map tolower := by rw [hf, foldId, hc]
  have hcs : cstr (copyInto IDSZ id) = id := by rw [cstr_copy_of_wf hw', hc]
  have hds : doSearchUserRaw s (copyInto IDSZ id) = searchUserRaw s (copyInto IDSZ id) := by
    unfold searchUserRaw; rw [if_neg hh]
  let n : Rec C := { id := copyInto IDSZ id, hash := genPasswd C salt pw, email := copyInto EMAILSZ email, rest := rest }
  have h0 := h.lookup_missing (copyInto IDSZ id) (by rw [hfold]; exact hnone)
  obtain ⟨i, e, f1, f2, f3, f4⟩ := h.free_search.2 hfree
  have hval := (uidValid_succ i).2 f2
  have hs : setupNewUser s n = (setRec s (i + 1) n, .none) := by
    unfold setupNewUser; simp only [n, hds, h0, f1, hval]; simp
  have hnew : ∀ (k : Nat) (r : Rec C), s.recs[k]? = some r → foldId (copyInto IDSZ id) ≠ foldId r.id := by
    have : searchFrom s.recs (copyInto IDSZ id) 0 = 0 := by
      have := h0; unfold searchUserRaw doSearchUserRaw at this; rwa [if_neg hh] at this
    exact (searchFrom_zero _ _ _).1 this
  have hR1 := h.insert (n := n) f3 f4 hv hh hnew (hashRel_gen L S salt pw hp)
  have hacc : (updAcc t.acc (foldId n.id) ⟨cstr n.id, pwOf pw, n.email⟩) (foldId (copyInto IDSZ id)) =
      some ⟨cstr n.id, pwOf pw, n.email⟩ := by simp [updAcc, n]
  obtain ⟨i', r', k1, k2, k3, k4, k5, _⟩ := hR1.lookup_found (copyInto IDSZ id) _ hacc hh
  have hin : (setRec s (i + 1) n).recs[i]? = some n := by rw [setRec_recs]; exact set_self _ _ _ _ f3
  have hii : i' = i := hR1.uniq i' i r' n k3 hin k4 k5
  subst hii
  rw [hin] at k3; cases k3
  have hfn : foldId n.id = id.map tolower := hfold
  have hcn : cstr n.id = id := hcs
  rw [hfn, hcn] at hR1
  refine ⟨i', n, rfl, hh, hfn, hcn, hin, k1, hR1, ?_, ?_⟩
  · intro hm
    rw [h.sess_eq, List.mem_map] at hm
    obtain ⟨uid, hu1, hu2⟩ := hm
    obtain ⟨_, r0, hr0, _⟩ := h.sess_ok uid hu1
    unfold keyOf at hu2; rw [hr0] at hu2
    unfold recOf at hr0
    exact hnew _ r0 hr0 (by rw [hfold]; exact hu2.symm)
  · unfold register
    have hs' := hs
    simp only [n] at hs' k1 hin
    simp only [g1, g2, g3, Bool.false_eq_true, if_false, hs', k1, hval, recOf_succ, hin, Bool.not_true]
    simp only [ne_eq, not_true_eq_false, if_false]
    have : toUUserID (copyInto IDSZ id) = id := by rw [toUUserID_valid hv, hcs]
    rw [this]

/-- with every session entry taken, a registration that the specification accepts returns ErrNewUtmp — and the
account exists afterwards. -/
theorem register_session_full (L : Lawful C) (S : Sep C pws) (rs : List Bytes) (h : R C pws s t) (id pw email : Bytes)
    (salt rest : Nat) (hp : pw ∈ pws) (hw : WellFormed id) (hres : ¬ Reserved rs id)
    (hnone : t.acc (id.map tolower) = none) (hfree : t.free ≠ 0) (hfull : ¬ t.sess.length < USHM) :
    (specStep rs t (.register id pw email salt rest)).2 = ⟨.ok, [id]⟩ ∧
    (register rs s id pw email salt rest).2 = ⟨.newUtmp, [[]]⟩ ∧
    searchUserRaw (register rs s id pw email salt rest).1 (copyInto IDSZ id) ≠ 0 ∧
    (register rs s id pw email salt rest).1.recs ≠ s.recs := by
  obtain ⟨i, n, e1, e2, e3, e4, e5, e6, e7, e8, e9⟩ := register_setup L S rs h id pw email salt rest hp hw hres hnone hfree
  have hfullu : utmpEnter (setRec s (i + 1) n).sess (i + 1) = none :=
    e7.enter_full e5 e2 (by rw [e3]; exact e8) hfull
  have hul : userLogin (setRec s (i + 1) n) (i + 1) rest = (setRec s (i + 1) n, .newUtmp) := by
    unfold userLogin; rw [hfullu]
  refine ⟨?_, ?_, ?_, ?_⟩
  · unfold specStep
    simp [hw, hres, hnone, hfree]
  · rw [e9, hul]; simp
  · rw [e9, hul]; simp [e6]
  · rw [e9, hul]
    simp only [ne_eq, reduceCtorEq, not_false_eq_true, if_true]
    intro x
    have h1 : (setRec s (i + 1) n).recs[i]? = s.recs[i]? := by rw [x]
    rw [e5] at h1
    -- the slot was free before
    obtain ⟨a, ha, _⟩ := h.sound i n h1.symm e2
    rw [e3, hnone] at ha; cases ha

/-- with every session entry taken, the right password of a user who holds no entry is refused with ErrNewUtmp. -/
theorem login_session_full (rs : List Bytes) (h : R C pws s t) (id pw : Bytes) (rest : Nat) (hp : pw ∈ pws)
    (hw : WellFormed (cstr id)) (a : Account) (ha : t.acc (foldId id) = some a) (hpw : pwOk a pw)
    (hk : foldId id ∉ t.sess) (hfull : ¬ t.sess.length < USHM) :
    (specStep rs t (.login id pw rest)).2 = ⟨.ok, [a.id]⟩ ∧ login s id pw rest = (s, ⟨.newUtmp, [[]]⟩) := by
  obtain ⟨hv, hh, hf⟩ := copy_facts hw
  obtain ⟨i, r, h1, h2, h3, h4, h5, h6, h7, h8⟩ := h.lookup_found (copyInto IDSZ id) a (by rw [hf]; exact ha) hh
  have hval := (uidValid_succ i).2 h2
  have hchk := (hashRel_check h8 hp).2 hpw
  have hkk : foldId r.id ∉ t.sess := by rw [h5, hf]; exact hk
  have hu := h.enter_full h3 h4 hkk hfull
  constructor
  · unfold specStep; simp [hw, ha, hpw]
  · unfold login
    simp only [hv, hh, h1, hval, recOf_succ, h3, hchk]
    unfold userLogin
    rw [hu]; simp


/-! ### only the account whose stored id IS "guest" logs in without its password -/

/-- in ANY represented state: an existing account whose id is not exactly `guest` (guest01, guestbook, myguest …)
is refused with a password that does not have the effective key of its current one; nothing changes. -/
theorem login_needs_password (rs : List Bytes) (h : R C pws s t) (id pw : Bytes) (rest : Nat) (hp : pw ∈ pws)
    (hw : WellFormed (cstr id)) (a : Account) (ha : t.acc (foldId id) = some a) (hg : a.id ≠ STR_GUEST)
    (hpw : ¬ pwOk a pw) :
    (specStep rs t (.login id pw rest)).2 = ⟨.badPassword, [[]]⟩ ∧ login s id pw rest = (s, ⟨.invalidUserID, [[]]⟩) := by
  obtain ⟨hv, hh, hf⟩ := copy_facts hw
  obtain ⟨i, r, h1, h2, h3, h4, h5, h6, h7, h8⟩ := h.lookup_found (copyInto IDSZ id) a (by rw [hf]; exact ha) hh
  have hval := (uidValid_succ i).2 h2
  have hchk : C.check r.hash pw = false := by
    cases hx : C.check r.hash pw with
    | false => rfl
    | true => exact absurd ((hashRel_check h8 hp).1 hx) hpw
  have hgc : cstrcmp r.id STR_GUEST ≠ 0 := (cstrcmp_guest r.id).2 (by rw [← h6]; exact hg)
  constructor
  · unfold specStep; simp [hw, ha, hpw, hg]
  · unfold login
    simp only [hv, hh, h1, hval, recOf_succ, h3, hchk]
    simp [hgc]

/-! ### read-only requests -/

/-- password checks and lookups: the requests that only read. -/
def Pure : Op → Prop
  | .checkPasswd .. => True
  | .exists_ _ => True
  | .getUser _ => True
  | _ => False

theorem pure_state (rs : List Bytes) (s : State C) (o : Op) (h : Pure o) : (step rs s o).1 = s := by
  cases o with
  | checkPasswd id pw =>
    simp only [step]; unfold checkPasswd; simp only []; repeat' split
    all_goals rfl
  | exists_ id =>
    simp only [step]; unfold checkExists; simp only []; repeat' split
    all_goals rfl
  | getUser id =>
    simp only [step]; unfold getUser; simp only []; repeat' split
    all_goals rfl
  | register id pw email salt rest => cases h
  | login id pw rest => cases h
  | changePasswd id old new salt => cases h
  | changeEmail id email => cases h

theorem pure_run (rs : List Bytes) (s : State C) (ops : List Op) (h : ∀ o ∈ ops, Pure o) :
    run rs s ops = s ∧ outputs rs s ops = ops.map (fun o => (step rs s o).2) := by
  induction ops with
  | nil => exact ⟨rfl, rfl⟩
  | cons o os ih =>
    have h1 := pure_state rs s o (h o (by simp))
    have ih' := ih (fun o' ho' => h o' (by simp [ho']))
    unfold run outputs
    rw [h1]
    exact ⟨ih'.1, by rw [ih'.2]; rfl⟩

/-! ### a start state, the ideal hash -/

def emptyRec (C : Crypto) : Rec C := { id := List.replicate IDSZ 0, hash := C.zero, email := List.replicate EMAILSZ 0, rest := 0 }

/-- a .PASSWDS of MAX_USERS all-zero records, no session. -/
def emptyState (C : Crypto) : State C := { recs := List.replicate MAX (emptyRec C), sess := [] }

def emptyTable : Table := { acc := fun _ => none, free := MAX, sess := [] }

theorem emptyRec_free (C : Crypto) : ¬ inUse (emptyRec C) := by
  unfold inUse emptyRec; simp [consts.2.1]

theorem R_empty (C : Crypto) (pws : List Bytes) : R C pws (emptyState C) emptyTable := by
  have hmem : ∀ (i : Nat) (r : Rec C), (emptyState C).recs[i]? = some r → r = emptyRec C := by
    intro i r hr
    have := List.mem_of_getElem? hr
    exact List.eq_of_mem_replicate this
  refine ⟨by simp [emptyState], ?_, ?_, ?_, ?_, ?_, rfl, ?_⟩
  · intro i r hr hu; rw [hmem i r hr] at hu; exact absurd hu (emptyRec_free C)
  · intro i j ri rj hi _ hu _; rw [hmem i ri hi] at hu; exact absurd hu (emptyRec_free C)
  · intro i r hr hu; rw [hmem i r hr] at hu; exact absurd hu (emptyRec_free C)
  · intro k a hk; cases hk
  · show MAX = _
    unfold emptyState
    simp only []
    rw [List.countP_replicate, if_pos ((isFree_iff _).2 (emptyRec_free C))]
  · intro uid hm; cases hm

theorem ideal_lawful : Lawful ideal := by
  refine ⟨?_, ?_, ?_⟩
  · intro r p _ _; simp [ideal]
  · intro h p q e; simp [ideal, e]
  · intro q; simp [ideal]

theorem ideal_sep (pws : List Bytes) : Sep ideal pws := by
  intro r p q _ _ _ _ hk
  simp [ideal, hk]

end

theorem agreeAll_get : ∀ (ops : List Op) (as : List Ans) (bs : List SpecAns), AnsAgreeAll ops as bs →
    ∀ (i : Nat) (o : Op) (a : Ans) (b : SpecAns), ops[i]? = some o → as[i]? = some a → bs[i]? = some b → AnsAgree o a b
  | [], [], [], _, i, o, _, _, ho, _, _ => by simp at ho
  | o' :: os, a' :: as, b' :: bs, h, i, o, a, b, ho, ha, hb => by
    cases i with
    | zero => simp at ho ha hb; subst ho; subst ha; subst hb; exact h.1
    | succ i => exact agreeAll_get os as bs h.2 i o a b (by simpa using ho) (by simpa using ha) (by simpa using hb)
  | [], _ :: _, _, h, _, _, _, _, _, _, _ => by cases h
  | [], [], _ :: _, h, _, _, _, _, _, _, _ => by cases h
  | _ :: _, [], _, h, _, _, _, _, _, _, _ => by cases h
  | _ :: _, _ :: _, [], h, _, _, _, _, _, _, _ => by cases h


end PttVerif.C03
