import PttVerif.Proofs.C02Sbox
/-
C02, stage 4 — the salt: the `E0`/`E1` swap network of `dEncrypt` against `Spec.saltE`, for all 4096 salts and all
32-bit halves.  Both sides are bilinear in (data, salt): linear in the data for a fixed (symbolic) salt — the checker
never inspects an and-mask — and, at a fixed unit data vector, linear in the 12 salt bits.
-/
namespace PttVerif.C02.Lin
open PttVerif PttVerif.C02 PttVerif.Gen.CryptTables

/-- `t = R ^ (R >> 16)` of `dEncrypt`, over the FIPS half. -/
def ttE : LE := LE.xor (rhoE LE.inp) (LE.shr (rhoE LE.inp) 16)

/-- `e ^ (e >> 24)` of `Spec.saltE`. -/
def ecE : LE := LE.xor (LE.perm Spec.E 32 LE.inp) (LE.shr (LE.perm Spec.E 32 LE.inp) 24)

/-- the salt-dependent part of the S-box index `b` in `dEncrypt`: `(u ^ (u << 16))` resp. its rotation by 4
(written with xor: the two halves of a rotation are disjoint), with `u = t & E0` resp. `t & E1`. -/
def fsCore (b : Nat) (q : LE) : LE :=
  let sw := LE.xor q (LE.shl q 16)
  if b % 2 = 0 then LE.and (LE.shr sw (8 * (b / 2))) 0x3f
  else LE.and (LE.shr (LE.xor (LE.shr sw 4) (LE.shl sw 28)) (8 * (b / 2))) 0x3f

/-- … as a circuit over the data, salt masks as constants. -/
def fsRE (b E0 E1 : Nat) : LE := fsCore b (LE.and ttE (if b % 2 = 0 then E0 else E1))

/-- … as a circuit over the packed salt `σ = v0 + 64·v1`, the data-dependent word `T` as a constant. -/
def fsSE (b T : Nat) : LE :=
  fsCore b (LE.and (if b % 2 = 0 then LE.and LE.inp 63 else LE.shl (LE.shr LE.inp 6) 4) T)

/-- the salt-dependent part of block `b` of `Spec.saltE`: `d ^ (d << 24)`, `d = (e ^ (e >> 24)) & mask`. -/
def gsCore (b : Nat) (d : LE) : LE := chunkE (LE.xor d (LE.shlN d 24)) b

def gsRE (b m : Nat) : LE := gsCore b (LE.and ecE m)

def maskSE : LE := LE.or (LE.shlN (LE.rev 6 (LE.and LE.inp 63)) 18) (LE.shlN (LE.rev 6 (LE.shr LE.inp 6)) 12)

def gsSE (b c : Nat) : LE := gsCore b (LE.and maskSE c)

/-- the whole table: for every box and every unit data vector both circuits over the salt are checked and agree on
the 12 unit salts. -/
theorem salt_table : (List.range 8).all (fun b => (List.range 32).all (fun i =>
    ok (2 ^ 12 - 1) (fsSE b (eval (2 ^ i) ttE)) && ok (2 ^ 12 - 1) (gsSE b (eval (2 ^ i) ecE)) &&
    (List.range 12).all (fun j => eval (2 ^ j) (fsSE b (eval (2 ^ i) ttE)) == eval (2 ^ j) (gsSE b (eval (2 ^ i) ecE))))) = true := by
  decide +kernel

theorem b_cases {b : Nat} (hb : b < 8) : b = 0 ∨ b = 1 ∨ b = 2 ∨ b = 3 ∨ b = 4 ∨ b = 5 ∨ b = 6 ∨ b = 7 := by omega

/-- the data-side circuits are checked whatever the salt masks are. -/
theorem fsRE_ok (b E0 E1 : Nat) (hb : b < 8) : ok (2 ^ 32 - 1) (fsRE b E0 E1) = true := by
  rcases b_cases hb with rfl | rfl | rfl | rfl | rfl | rfl | rfl | rfl <;> rfl

theorem gsRE_ok (b m : Nat) (hb : b < 8) : ok (2 ^ 32 - 1) (gsRE b m) = true := by
  rcases b_cases hb with rfl | rfl | rfl | rfl | rfl | rfl | rfl | rfl <;> rfl

theorem mask_or (a c : Nat) (hc : c < 64) : a * 2 ^ 18 + c * 2 ^ 12 = (a <<< 18) ||| (c <<< 12) := by
  rw [Nat.shiftLeft_eq, Nat.shiftLeft_eq, Nat.mul_comm a, Nat.two_pow_add_eq_or_of_lt (by omega)]

theorem fs_views (b R σ : Nat) (hb : b < 8) :
    eval R (fsRE b (σ &&& 63) (shl (σ >>> 6) 4)) = eval σ (fsSE b (eval R ttE)) := by
  rcases b_cases hb with rfl | rfl | rfl | rfl | rfl | rfl | rfl | rfl <;>
    simp only [fsRE, fsSE, fsCore, eval, Nat.reduceMod, Nat.reduceDiv, if_true, if_false, reduceIte, Nat.reduceEqDiff] <;>
    rw [Nat.and_comm (eval R ttE)]

theorem gs_views (b R σ : Nat) (hb : b < 8) :
    eval R (gsRE b (Spec.saltMaskOf (σ &&& 63) (σ >>> 6))) = eval σ (gsSE b (eval R ecE)) := by
  have hm : Spec.saltMaskOf (σ &&& 63) (σ >>> 6) = eval σ maskSE := by
    show Spec.revBits 6 (σ &&& 63) * 2 ^ 18 + Spec.revBits 6 (σ >>> 6) * 2 ^ 12 = _
    rw [mask_or _ _ (revBits_lt 6 _)]; rfl
  rw [hm]
  simp only [gsRE, gsSE, gsCore, chunkE, eval]
  rw [Nat.and_comm (eval R ecE)]

/-- for every S-box, every 32-bit half and every one of the 4096 salts: the salt-dependent part of the index
`dEncrypt` computes is (bit-reversed) the salt-dependent part of that block of `Spec.saltE`. -/
theorem fs_eq_gs (b R σ : Nat) (hb : b < 8) (hR : R < 2 ^ 32) (hσ : σ < 2 ^ 12) :
    eval R (fsRE b (σ &&& 63) (shl (σ >>> 6) 4)) = eval R (gsRE b (Spec.saltMaskOf (σ &&& 63) (σ >>> 6))) := by
  refine lin_ext 32 (fun R => eval R (fsRE b (σ &&& 63) (shl (σ >>> 6) 4)))
    (fun R => eval R (gsRE b (Spec.saltMaskOf (σ &&& 63) (σ >>> 6)))) ?_ ?_ ?_ R hR
  · intro x y hx hy; exact le_lin 32 _ (fsRE_ok b _ _ hb) x y hx hy
  · intro x y hx hy; exact le_lin 32 _ (gsRE_ok b _ hb) x y hx hy
  · intro i hi
    show eval (2 ^ i) (fsRE b _ _) = eval (2 ^ i) (gsRE b _)
    rw [fs_views b _ σ hb, gs_views b _ σ hb]
    have h := salt_table
    rw [List.all_eq_true] at h
    have h := h b (List.mem_range.mpr hb)
    rw [List.all_eq_true] at h
    have h := h i (List.mem_range.mpr hi)
    simp only [Bool.and_eq_true] at h
    exact le_ext 12 _ _ h.1.1 h.1.2 h.2 σ hσ

end PttVerif.C02.Lin
