import PttVerif.Model.C04
/-
Helper lemmas for Props/C04.lean: chains as lists, the loops of the model against those lists,
the well-formedness invariant and its preservation.
-/
namespace PttVerif.C04
open PttVerif

/-! ### the Except monad -/

@[simp] theorem bind_ok {α β} (a : α) (f : α → M β) : ((Except.ok a : M α) >>= f) = f a := rfl
@[simp] theorem bind_error {α β} (x : Fault) (f : α → M β) : ((Except.error x : M α) >>= f) = .error x := rfl
@[simp] theorem pure_ok {α} (a : α) : (pure a : M α) = .ok a := rfl

/-! ### checked accesses -/

theorem idx_ok {α} {a : List α} {i : Nat} {x : α} (h : a[i]? = some x) : idx a i = .ok x := by
  simp [idx, h]

theorem idx_ok_iff {α} {a : List α} {i : Nat} {x : α} : idx a i = .ok x ↔ a[i]? = some x := by
  unfold idx; cases h : a[i]? <;> simp

theorem idxI_nat {α} (a : List α) (n : Nat) : idxI a (n : Int) = idx a n := rfl

theorem setM_ok {α} {a : List α} {i : Nat} (v : α) (h : i < a.length) : setM a i v = .ok (a.set i v) := by
  simp [setM, h]

theorem setI_nat {α} (a : List α) (n : Nat) (v : α) : setI a (n : Int) v = setM a n v := rfl

theorem getElem?_of_lt {α} {a : List α} {i : Nat} (h : i < a.length) : ∃ x, a[i]? = some x :=
  ⟨a[i], List.getElem?_eq_getElem h⟩

/-! ### pigeonhole on lists of small naturals -/

theorem nodup_length_le : ∀ (n : Nat) (l : List Nat), l.Nodup → (∀ x ∈ l, x < n) → l.length ≤ n := by
  intro n
  induction n with
  | zero =>
    intro l _ h
    cases l with
    | nil => simp
    | cons a t => exact absurd (h a (by simp)) (by omega)
  | succ n ih =>
    intro l hnd h
    have h1 : (l.erase n).Nodup := hnd.erase n
    have h2 : ∀ x ∈ l.erase n, x < n := by
      intro x hx
      have hx' := (List.Nodup.mem_erase_iff hnd).1 hx
      have := h x hx'.2
      omega
    have h3 := ih (l.erase n) h1 h2
    have h4 := List.length_erase_of_mem (a := n) (l := l)
    by_cases hm : n ∈ l
    · have := h4 hm
      omega
    · rw [List.erase_of_not_mem hm] at h3
      omega

theorem nodup_length_lt (n : Nat) (l : List Nat) (k : Nat) (hnd : l.Nodup) (h : ∀ x ∈ l, x < n)
    (hk : k < n) (hkl : k ∉ l) : l.length < n := by
  have : (k :: l).length ≤ n :=
    nodup_length_le n (k :: l) (List.nodup_cons.2 ⟨hkl, hnd⟩) (by
      intro x hx
      rcases List.mem_cons.1 hx with rfl | hx
      · exact hk
      · exact h x hx)
  simp at this
  omega

/-! ### chains -/

/-- `l` is the list of slots visited from pointer value `v` until the terminator -1. -/
def IsChain (next : List Int) : Int → List Nat → Prop
  | v, [] => v = -1
  | v, k :: l => v = (k : Int) ∧ ∃ nx, next[k]? = some nx ∧ IsChain next nx l

theorem isChain_unique {next : List Int} : ∀ {l₁ l₂ : List Nat} {v : Int},
    IsChain next v l₁ → IsChain next v l₂ → l₁ = l₂ := by
  intro l₁
  induction l₁ with
  | nil =>
    intro l₂ v h1 h2
    cases l₂ with
    | nil => rfl
    | cons k l =>
      simp only [IsChain] at h1 h2
      omega
  | cons a t ih =>
    intro l₂ v h1 h2
    cases l₂ with
    | nil =>
      simp only [IsChain] at h1 h2
      omega
    | cons k l =>
      simp only [IsChain] at h1 h2
      obtain ⟨ha, nx, hnx, hc⟩ := h1
      obtain ⟨hk, nx', hnx', hc'⟩ := h2
      have hak : a = k := by omega
      subst hak
      rw [hnx] at hnx'
      cases hnx'
      rw [ih hc hc']

theorem isChain_lt {next : List Int} : ∀ {l : List Nat} {v : Int}, IsChain next v l → ∀ k ∈ l, k < next.length := by
  intro l
  induction l with
  | nil => intro v _ k hk; cases hk
  | cons a t ih =>
    intro v h k hk
    simp only [IsChain] at h
    obtain ⟨_, nx, hnx, hc⟩ := h
    rcases List.mem_cons.1 hk with rfl | hk
    · exact (List.getElem?_eq_some_iff.1 hnx).1
    · exact ih hc k hk

/-- a chain only depends on the `next` cells of its own nodes. -/
theorem isChain_frame {next next' : List Int} : ∀ {l : List Nat} {v : Int},
    IsChain next v l → (∀ k ∈ l, next'[k]? = next[k]?) → IsChain next' v l := by
  intro l
  induction l with
  | nil => intro v h _; exact h
  | cons a t ih =>
    intro v h hf
    simp only [IsChain] at h ⊢
    obtain ⟨ha, nx, hnx, hc⟩ := h
    refine ⟨ha, nx, ?_, ih hc (fun k hk => hf k (List.mem_cons_of_mem _ hk))⟩
    rw [hf a (by simp), hnx]

theorem isChain_set_of_not_mem {next : List Int} {l : List Nat} {v : Int} (j : Nat) (x : Int)
    (h : IsChain next v l) (hj : j ∉ l) : IsChain (next.set j x) v l := by
  refine isChain_frame h ?_
  intro k hk
  have : j ≠ k := fun e => hj (e ▸ hk)
  simp [List.getElem?_set_ne this]

/-- the cell that holds the terminator of a chain starting in cell `c` -/
def tailCell (c : Cell) (l : List Nat) : Cell :=
  match l.getLast? with
  | none => c
  | some t => .next t

@[simp] theorem tailCell_nil (c : Cell) : tailCell c [] = c := rfl

theorem tailCell_cons (c : Cell) (a : Nat) (t : List Nat) : tailCell c (a :: t) = tailCell (.next a) t := by
  cases t with
  | nil => simp [tailCell]
  | cons b u =>
    simp only [tailCell, List.getLast?_cons_cons]
    cases h : (b :: u).getLast? with
    | none => simp at h
    | some t => rfl

/-- appending a fresh node `k` behind the last node of a non-empty chain -/
theorem isChain_snoc {next : List Int} (k : Nat) (hk : k < next.length) : ∀ {l : List Nat} {v : Int} (a : Nat),
    IsChain next v (a :: l) → (a :: l).Nodup → k ∉ a :: l →
    IsChain ((next.set ((a :: l).getLast (by simp)) (k : Int)).set k (-1)) v (a :: l ++ [k]) := by
  intro l
  induction l with
  | nil =>
    intro v a h _ hkl
    simp only [IsChain] at h
    obtain ⟨ha, nx, hnx, hc⟩ := h
    have hak : a ≠ k := by simpa [eq_comm] using hkl
    have ha_lt : a < next.length := (List.getElem?_eq_some_iff.1 hnx).1
    simp only [List.getLast_singleton, List.cons_append, List.nil_append, IsChain]
    refine ⟨ha, (k : Int), ?_, rfl, -1, ?_, rfl⟩
    · rw [List.getElem?_set_ne (by omega)]
      simp [ha_lt]
    · simp [hk]
  | cons b u ih =>
    intro v a h hnd hkl
    simp only [IsChain] at h
    obtain ⟨ha, nx, hnx, hc⟩ := h
    have hnd' : (b :: u).Nodup := (List.nodup_cons.1 hnd).2
    have ha_notin : a ∉ b :: u := (List.nodup_cons.1 hnd).1
    have hkl' : k ∉ b :: u := fun hm => hkl (List.mem_cons_of_mem _ hm)
    have hak : a ≠ k := fun e => hkl (e ▸ List.mem_cons_self)
    have hlast : (a :: b :: u).getLast (by simp) = (b :: u).getLast (by simp) := by
      simp [List.getLast_cons]
    have hlast_mem : (b :: u).getLast (by simp) ∈ b :: u := List.getLast_mem _
    have hne : (b :: u).getLast (by simp) ≠ a := fun e => ha_notin (e ▸ hlast_mem)
    have := ih b hc hnd' hkl'
    rw [hlast]
    show IsChain _ v (a :: (b :: u ++ [k]))
    simp only [IsChain]
    refine ⟨ha, nx, ?_, ?_⟩
    · rw [List.getElem?_set_ne (by omega), List.getElem?_set_ne hne, hnx]
    · exact this

/-- unlinking node `k` that sits behind a non-empty prefix `l₁` -/
theorem isChain_unlink {next : List Int} (k : Nat) : ∀ {l₁ : List Nat} (a : Nat) {l₂ : List Nat} {v nk : Int},
    IsChain next v (a :: l₁ ++ k :: l₂) → (a :: l₁ ++ k :: l₂).Nodup → next[k]? = some nk →
    IsChain (next.set ((a :: l₁).getLast (by simp)) nk) v (a :: l₁ ++ l₂) := by
  intro l₁
  induction l₁ with
  | nil =>
    intro a l₂ v nk h hnd hnk
    simp only [List.cons_append, List.nil_append, IsChain] at h
    obtain ⟨ha, nx, hnx, hk, nx2, hnx2, hc⟩ := h
    have ha_lt : a < next.length := (List.getElem?_eq_some_iff.1 hnx).1
    rw [hnk] at hnx2; cases hnx2
    simp only [List.cons_append, List.nil_append] at hnd
    have ha_notin : a ∉ l₂ := fun hm => (List.nodup_cons.1 hnd).1 (List.mem_cons_of_mem _ hm)
    simp only [List.getLast_singleton, List.cons_append, List.nil_append, IsChain]
    refine ⟨ha, nk, by simp [ha_lt], isChain_set_of_not_mem a nk hc ha_notin⟩
  | cons b u ih =>
    intro a l₂ v nk h hnd hnk
    simp only [List.cons_append, IsChain] at h
    obtain ⟨ha, nx, hnx, hc⟩ := h
    simp only [List.cons_append] at hnd
    have hnd' : (b :: u ++ k :: l₂).Nodup := (List.nodup_cons.1 hnd).2
    have ha_notin : a ∉ b :: (u ++ k :: l₂) := (List.nodup_cons.1 hnd).1
    have hlast : (a :: b :: u).getLast (by simp) = (b :: u).getLast (by simp) := by
      simp [List.getLast_cons]
    have hlast_mem : (b :: u).getLast (by simp) ∈ b :: u := List.getLast_mem _
    have hne : (b :: u).getLast (by simp) ≠ a := by
      intro e
      apply ha_notin
      have : a ∈ b :: u := e ▸ hlast_mem
      rcases List.mem_cons.1 this with h1 | h1
      · exact h1 ▸ List.mem_cons_self
      · exact List.mem_cons_of_mem _ (List.mem_append_left _ h1)
    have := ih b (l₂ := l₂) (v := nx) (nk := nk) hc hnd' hnk
    rw [hlast]
    show IsChain _ v (a :: (b :: u ++ l₂))
    simp only [IsChain]
    exact ⟨ha, nx, by rw [List.getElem?_set_ne hne, hnx], this⟩

/-! ### the loops of the model, against chains -/

theorem addLoop_spec {next : List Int} : ∀ {l : List Nat} {v : Int} (fuel : Nat) (c : Cell),
    IsChain next v l → l.length < fuel → addLoop next fuel c v = .ok (some (tailCell c l)) := by
  intro l
  induction l with
  | nil =>
    intro v fuel c h hf
    simp only [IsChain] at h
    subst h
    cases fuel with
    | zero => simp at hf
    | succ f => simp [addLoop]
  | cons a t ih =>
    intro v fuel c h hf
    simp only [IsChain] at h
    obtain ⟨ha, nx, hnx, hc⟩ := h
    subst ha
    cases fuel with
    | zero => simp at hf
    | succ f =>
      have hne : ((a : Nat) : Int) ≠ -1 := by omega
      rw [addLoop]
      simp only [hne, if_false, idxI_nat, idx_ok hnx, Int.toNat_natCast]
      rw [tailCell_cons]
      exact ih f (.next a) hc (by simpa using hf)

theorem removeLoop_found {next : List Int} (k : Nat) : ∀ {l₁ : List Nat} {l₂ : List Nat} {v : Int} (fuel : Nat) (c : Cell),
    IsChain next v (l₁ ++ k :: l₂) → k ∉ l₁ → l₁.length < fuel →
    removeLoop next (k : Int) fuel c v = .ok (some (tailCell c l₁, (k : Int))) := by
  intro l₁
  induction l₁ with
  | nil =>
    intro l₂ v fuel c h _ hf
    simp only [List.nil_append, IsChain] at h
    obtain ⟨hv, _⟩ := h
    subst hv
    cases fuel with
    | zero => simp at hf
    | succ f => simp [removeLoop]
  | cons a t ih =>
    intro l₂ v fuel c h hk hf
    simp only [List.cons_append, IsChain] at h
    obtain ⟨ha, nx, hnx, hc⟩ := h
    subst ha
    have hak : a ≠ k := fun e => hk (e ▸ List.mem_cons_self)
    cases fuel with
    | zero => simp at hf
    | succ f =>
      have hne : ¬ (((a : Nat) : Int) = -1 ∨ ((a : Nat) : Int) = (k : Int)) := by omega
      rw [removeLoop]
      simp only [hne, if_false, idxI_nat, idx_ok hnx, Int.toNat_natCast]
      rw [tailCell_cons]
      exact ih f (.next a) hc (fun hm => hk (List.mem_cons_of_mem _ hm)) (by simpa using hf)

theorem removeLoop_notfound {next : List Int} (k : Nat) : ∀ {l : List Nat} {v : Int} (fuel : Nat) (c : Cell),
    IsChain next v l → k ∉ l → l.length < fuel →
    removeLoop next (k : Int) fuel c v = .ok (some (tailCell c l, -1)) := by
  intro l
  induction l with
  | nil =>
    intro v fuel c h _ hf
    simp only [IsChain] at h
    subst h
    cases fuel with
    | zero => simp at hf
    | succ f => simp [removeLoop]
  | cons a t ih =>
    intro v fuel c h hk hf
    simp only [IsChain] at h
    obtain ⟨ha, nx, hnx, hc⟩ := h
    subst ha
    have hak : a ≠ k := fun e => hk (e ▸ List.mem_cons_self)
    cases fuel with
    | zero => simp at hf
    | succ f =>
      have hne : ¬ (((a : Nat) : Int) = -1 ∨ ((a : Nat) : Int) = (k : Int)) := by omega
      rw [removeLoop]
      simp only [hne, if_false, idxI_nat, idx_ok hnx, Int.toNat_natCast]
      rw [tailCell_cons]
      exact ih f (.next a) hc (fun hm => hk (List.mem_cons_of_mem _ hm)) (by simpa using hf)

section
variable {Id : Type} (e : Env Id)

/-- first node of the list whose stored id equals `q` up to letter case -/
def findOn (s : St Id) (q : Id) : List Nat → Option (Nat × Id)
  | [] => none
  | k :: l =>
    match s.userid[k]? with
    | some id => if e.ceq q id then some (k, id) else findOn s q l
    | none => none

def searchResult : Option (Nat × Id) → Int × Option Id
  | some (k, id) => ((k : Int) + 1, some id)
  | none => (0, none)

theorem searchLoop_spec (s : St Id) (q : Id) : ∀ {l : List Nat} {p : Int} (fuel : Nat),
    IsChain s.next p l → (∀ k ∈ l, k < e.MAX ∧ ∃ id, s.userid[k]? = some id) → l.length ≤ fuel →
    searchLoop e s q fuel p = .ok (searchResult (findOn e s q l)) := by
  intro l
  induction l with
  | nil =>
    intro p fuel h _ _
    simp only [IsChain] at h
    subst h
    cases fuel with
    | zero => rfl
    | succ f => simp [searchLoop, findOn, searchResult]
  | cons a t ih =>
    intro p fuel h hl hf
    simp only [IsChain] at h
    obtain ⟨ha, nx, hnx, hc⟩ := h
    subst ha
    obtain ⟨ha_lt, id, hid⟩ := hl a (by simp)
    cases fuel with
    | zero => simp at hf
    | succ f =>
      have hne : ¬ (((a : Nat) : Int) = -1 ∨ ((a : Nat) : Int) ≥ (e.MAX : Int)) := by omega
      rw [searchLoop]
      simp only [hne, if_false, idxI_nat, idx_ok hid, idx_ok hnx, findOn, hid]
      by_cases hq : e.ceq q id = true
      · simp [hq, searchResult]
      · simp only [hq, bind_ok, Bool.false_eq_true, if_false]
        exact ih f hc (fun k hk => hl k (List.mem_cons_of_mem _ hk)) (by simpa using hf)

theorem loaderLoop_spec {next : List Int} (onfly : Bool) (k : Nat) : ∀ {l : List Nat} {v : Int} (fuel : Nat) (c : Cell),
    IsChain next v l → (∀ x ∈ l, x < e.MAX) → l.length ≤ fuel →
    loaderLoop e next onfly k fuel c v = .ok (if onfly = true ∧ k ∈ l then none else some (tailCell c l)) := by
  intro l
  induction l with
  | nil =>
    intro v fuel c h _ _
    simp only [IsChain] at h
    subst h
    cases fuel <;> simp [loaderLoop] <;> rfl
  | cons a t ih =>
    intro v fuel c h hl hf
    simp only [IsChain] at h
    obtain ⟨ha, nx, hnx, hc⟩ := h
    subst ha
    have ha_lt := hl a (by simp)
    have hin : (0 : Int) ≤ (a : Int) ∧ (a : Int) < (e.MAX : Int) := by omega
    by_cases hfound : onfly = true ∧ ((a : Nat) : Int) = (k : Int)
    · have hka : k = a := by omega
      cases fuel <;> simp [loaderLoop, hfound, hka, ha_lt]
    · cases fuel with
      | zero => simp at hf
      | succ f =>
        rw [loaderLoop]
        simp only [hin, and_self, if_true, hfound, if_false, idxI_nat, idx_ok hnx, Int.toNat_natCast]
        rw [tailCell_cons]
        have := ih f (.next a) hc (fun x hx => hl x (List.mem_cons_of_mem _ hx)) (by simpa using hf)
        simp only [bind_ok]
        rw [this]
        have hiff : (onfly = true ∧ k ∈ a :: t) ↔ (onfly = true ∧ k ∈ t) := by
          constructor
          · rintro ⟨ho, hm⟩
            rcases List.mem_cons.1 hm with rfl | hm
            · exact absurd ⟨ho, rfl⟩ hfound
            · exact ⟨ho, hm⟩
          · rintro ⟨ho, hm⟩
            exact ⟨ho, List.mem_cons_of_mem _ hm⟩
        simp only [hiff]

theorem checkLoop_id (h : Nat) (s : St Id) : ∀ {l : List Nat} {v : Int} (fuel : Nat) (c : Cell),
    IsChain s.next v l → (∀ x ∈ l, x < e.MAX ∧ ∃ id, s.userid[x]? = some id ∧ e.hash id = h) → l.length ≤ fuel →
    checkLoop e h fuel s c v = .ok s := by
  intro l
  induction l with
  | nil =>
    intro v fuel c hc _ _
    simp only [IsChain] at hc
    subst hc
    cases fuel <;> simp [checkLoop] <;> rfl
  | cons a t ih =>
    intro v fuel c hc hl hf
    simp only [IsChain] at hc
    obtain ⟨ha, nx, hnx, hc⟩ := hc
    subst ha
    obtain ⟨ha_lt, id, hid, hh⟩ := hl a (by simp)
    cases fuel with
    | zero => simp at hf
    | succ f =>
      have h1 : ¬ ((a : Int) = -1) := by omega
      have h2 : ¬ ((a : Int) < -1 ∨ (a : Int) ≥ (e.MAX : Int)) := by omega
      rw [checkLoop]
      simp only [h1, h2, if_false, idxI_nat, idx_ok hid, idx_ok hnx, Int.toNat_natCast]
      simp only [bind_ok, ne_eq, hh, not_true_eq_false, if_false]
      exact ih f (.next a) hc (fun x hx => hl x (List.mem_cons_of_mem _ hx)) (by simpa using hf)

end

/-! ### the invariant -/

section
variable {Id : Type} (e : Env Id)

structure Shape (s : St Id) : Prop where
  hu : s.userid.length = e.MAX
  hn : s.next.length = e.MAX
  hh : s.head.length = e.B

/-- bucket `h`: the walk from `HashHead[h]` is the list `l` of distinct slots, ends in -1, and every slot on it
holds an id that hashes to `h`. -/
def ChainOK (s : St Id) (h : Nat) (l : List Nat) : Prop :=
  ∃ v, s.head[h]? = some v ∧ IsChain s.next v l ∧ l.Nodup ∧
    ∀ k ∈ l, ∃ id, s.userid[k]? = some id ∧ e.hash id = h

/-- well-formed chains: `ch h` is the chain of bucket `h`. -/
def WF (s : St Id) (ch : Nat → List Nat) : Prop :=
  Shape e s ∧ ∀ h, h < e.B → ChainOK e s h (ch h)

/-- slot `k` is on no chain -/
def Free (ch : Nat → List Nat) (k : Nat) : Prop := ∀ h, h < e.B → k ∉ ch h

def upd (ch : Nat → List Nat) (h : Nat) (l : List Nat) : Nat → List Nat := fun x => if x = h then l else ch x

variable {e}

theorem wf_lt {s : St Id} {ch : Nat → List Nat} (hwf : WF e s ch) {h k : Nat} (hh : h < e.B) (hk : k ∈ ch h) :
    k < e.MAX := by
  obtain ⟨v, _, _, _, hid⟩ := hwf.2 h hh
  obtain ⟨id, hid, _⟩ := hid k hk
  have := (List.getElem?_eq_some_iff.1 hid).1
  rw [hwf.1.hu] at this
  exact this

/-- chains of different buckets are disjoint -/
theorem wf_disjoint {s : St Id} {ch : Nat → List Nat} (hwf : WF e s ch) {h h' k : Nat} (hh : h < e.B) (hh' : h' < e.B)
    (hk : k ∈ ch h) (hk' : k ∈ ch h') : h = h' := by
  obtain ⟨_, _, _, _, hid⟩ := hwf.2 h hh
  obtain ⟨_, _, _, _, hid'⟩ := hwf.2 h' hh'
  obtain ⟨id, h1, h2⟩ := hid k hk
  obtain ⟨id', h1', h2'⟩ := hid' k hk'
  rw [h1] at h1'
  cases h1'
  omega

theorem wf_length_le {s : St Id} {ch : Nat → List Nat} (hwf : WF e s ch) {h : Nat} (hh : h < e.B) :
    (ch h).length ≤ e.MAX := by
  obtain ⟨v, _, _, hnd, _⟩ := hwf.2 h hh
  exact nodup_length_le e.MAX (ch h) hnd (fun x hx => wf_lt hwf hh hx)

theorem tailCell_ne_nil (c : Cell) (l : List Nat) (h : l ≠ []) : tailCell c l = .next (l.getLast h) := by
  simp [tailCell, List.getLast?_eq_some_getLast h]

/-- writing the id of a slot that is on no chain keeps the chains -/
theorem wf_setid {s : St Id} {ch : Nat → List Nat} (hwf : WF e s ch) {k : Nat} (hfree : Free e ch k) (id : Id) :
    WF e { s with userid := s.userid.set k id } ch := by
  refine ⟨⟨by simp [hwf.1.hu], hwf.1.hn, hwf.1.hh⟩, ?_⟩
  intro h hh
  obtain ⟨v, hv, hc, hnd, hid⟩ := hwf.2 h hh
  refine ⟨v, hv, hc, hnd, ?_⟩
  intro x hx
  obtain ⟨i, h1, h2⟩ := hid x hx
  have : k ≠ x := fun e' => hfree h hh (e' ▸ hx)
  exact ⟨i, by simp [List.getElem?_set_ne this, h1], h2⟩

/-- linking a free slot `k` (whose stored id hashes to `h`) behind the tail of chain `h`:
the two writes every add path performs. -/
theorem wf_link {s : St Id} {ch : Nat → List Nat} (hwf : WF e s ch) {k h : Nat} (hk : k < e.MAX)
    (hfree : Free e ch k) (hh : h < e.B) {id : Id} (hid : s.userid[k]? = some id) (hhash : e.hash id = h) :
    ∃ s1, writeCell s (tailCell (.head h) (ch h)) (k : Int) = .ok s1 ∧
      setM s1.next k (-1) = .ok (s1.next.set k (-1)) ∧
      WF e { s1 with next := s1.next.set k (-1) } (upd ch h (ch h ++ [k])) ∧ s1.userid = s.userid := by
  obtain ⟨v, hv, hc, hnd, hids⟩ := hwf.2 h hh
  have hkn : k < s.next.length := by rw [hwf.1.hn]; exact hk
  have hkl : k ∉ ch h := hfree h hh
  -- chains of the other buckets are untouched
  have others : ∀ (nx' : List Int) (hd' : List Int),
      (∀ h', h' < e.B → h' ≠ h → hd'[h']? = s.head[h']?) →
      (∀ h', h' < e.B → h' ≠ h → ∀ x ∈ ch h', nx'[x]? = s.next[x]?) →
      ∀ h', h' < e.B → h' ≠ h → ChainOK e { s with head := hd', next := nx' } h' (ch h') := by
    intro nx' hd' hhd hnx h' hh' hne
    obtain ⟨v', hv', hc', hnd', hids'⟩ := hwf.2 h' hh'
    exact ⟨v', by simp [hhd h' hh' hne, hv'], isChain_frame hc' (hnx h' hh' hne), hnd', hids'⟩
  cases hl : ch h with
  | nil =>
    rw [hl] at hc
    have hhd : h < s.head.length := by rw [hwf.1.hh]; exact hh
    refine ⟨{ s with head := s.head.set h (k : Int) }, ?_, ?_, ?_, rfl⟩
    · simp [tailCell, writeCell, setM, hhd]
    · simp [setM, hkn]
    · refine ⟨⟨hwf.1.hu, by simp [hwf.1.hn], by simp [hwf.1.hh]⟩, ?_⟩
      intro h' hh'
      by_cases hne : h' = h
      · subst hne
        simp only [upd, if_true, List.nil_append]
        refine ⟨(k : Int), by simp [hhd], ?_, by simp, ?_⟩
        · exact (show (k : Int) = (k : Int) ∧ ∃ nx, (s.next.set k (-1))[k]? = some nx ∧ IsChain _ nx [] from
            ⟨rfl, -1, by simp [hkn], rfl⟩)
        · intro x hx
          simp at hx
          subst hx
          exact ⟨id, hid, hhash⟩
      · simp only [upd, hne, if_false]
        refine others (s.next.set k (-1)) (s.head.set h (k : Int)) ?_ ?_ h' hh' hne
        · intro h'' _ hne''
          simp [List.getElem?_set_ne (Ne.symm hne'')]
        · intro h'' hh'' _ x hx
          have : k ≠ x := fun e' => hfree h'' hh'' (e' ▸ hx)
          simp [List.getElem?_set_ne this]
  | cons a l =>
    rw [hl] at hc hnd hids hkl
    have hne_nil : (a :: l) ≠ [] := by simp
    have ht_mem : (a :: l).getLast hne_nil ∈ a :: l := List.getLast_mem _
    have ht_lt : (a :: l).getLast hne_nil < s.next.length := isChain_lt hc _ ht_mem
    refine ⟨{ s with next := s.next.set ((a :: l).getLast hne_nil) (k : Int) }, ?_, ?_, ?_, rfl⟩
    · rw [tailCell_ne_nil _ _ hne_nil]
      simp [writeCell, setM, ht_lt]
    · simp [setM, hkn]
    · refine ⟨⟨hwf.1.hu, by simp [hwf.1.hn], hwf.1.hh⟩, ?_⟩
      intro h' hh'
      by_cases hne : h' = h
      · subst hne
        simp only [upd, if_true]
        refine ⟨v, hv, isChain_snoc k hkn a hc hnd hkl, ?_, ?_⟩
        · rw [List.nodup_append]
          refine ⟨hnd, by simp, ?_⟩
          intro x hx y hy
          simp at hy
          subst hy
          exact fun e' => hkl (e' ▸ hx)
        · intro x hx
          rcases List.mem_append.1 hx with hx | hx
          · exact hids x hx
          · simp at hx
            subst hx
            exact ⟨id, hid, hhash⟩
      · simp only [upd, hne, if_false]
        refine others ((s.next.set ((a :: l).getLast hne_nil) (k : Int)).set k (-1)) s.head ?_ ?_ h' hh' hne
        · intro _ _ _; rfl
        · intro h'' hh'' hne'' x hx
          have h1 : k ≠ x := fun e' => hfree h'' hh'' (e' ▸ hx)
          have h2 : (a :: l).getLast hne_nil ≠ x := by
            intro e'
            have : x ∈ ch h := by rw [hl]; exact e' ▸ ht_mem
            exact hne'' (wf_disjoint hwf hh'' hh hx this)
          simp [List.getElem?_set_ne h1, List.getElem?_set_ne h2]

end

section
variable {Id : Type} {e : Env Id}

theorem add_spec (hlt : ∀ a, e.hash a < e.B) {s : St Id} {ch : Nat → List Nat} (hwf : WF e s ch) {k : Nat}
    (hk : k < e.MAX) (hfree : Free e ch k) (id : Id) :
    ∃ s', addToUHash e s (k : Int) id = .ok (s', .ok) ∧
      WF e s' (upd ch (e.hash id) (ch (e.hash id) ++ [k])) ∧ s'.userid = s.userid.set k id ∧
      s'.number = s.number ∧ s'.loaded = s.loaded := by
  have hwf1 := wf_setid hwf hfree id
  have hh := hlt id
  obtain ⟨v, hv, hc, hnd, hids⟩ := hwf1.2 _ hh
  have hku : k < s.userid.length := by rw [hwf.1.hu]; exact hk
  have hid0 : ({ s with userid := s.userid.set k id } : St Id).userid[k]? = some id := by simp [hku]
  obtain ⟨s1, hw, hs, hwf2, hu⟩ := wf_link hwf1 hk hfree hh hid0 rfl
  have hlen : (ch (e.hash id)).length < e.MAX :=
    nodup_length_lt e.MAX _ k hnd (fun x hx => wf_lt hwf hh hx) hk (hfree _ hh)
  have hnl : s1.number = s.number ∧ s1.loaded = s.loaded := by
    revert hw
    cases tailCell (Cell.head (e.hash id)) (ch (e.hash id)) <;>
      simp only [writeCell, setM] <;> split <;> intro hw <;> simp at hw <;> subst hw <;> exact ⟨rfl, rfl⟩
  refine ⟨{ s1 with next := s1.next.set k (-1) }, ?_, hwf2, hu, hnl.1, hnl.2⟩
  unfold addToUHash
  simp only [setI_nat, setM_ok _ hku, bind_ok]
  have hv' : s.head[e.hash id]? = some v := hv
  simp only [idx_ok hv', bind_ok, addLoop_spec e.MAX _ hc hlen, hw, setM_ok _ (by
    have := hwf2.1.hn; simp at this; rw [this]; exact hk : k < s1.next.length), pure_ok]

theorem erase_split {k : Nat} {l₁ l₂ : List Nat} (h : k ∉ l₁) : (l₁ ++ k :: l₂).erase k = l₁ ++ l₂ := by
  rw [List.erase_append_right _ h]
  simp

theorem remove_spec (hlt : ∀ a, e.hash a < e.B) {s : St Id} {ch : Nat → List Nat} (hwf : WF e s ch) {k : Nat}
    (hk : k < e.MAX) :
    ∃ s', removeFromUHash e s (k : Int) = .ok (s', .ok) ∧
      WF e s' (fun h => (ch h).erase k) ∧ s'.userid = s.userid ∧ s'.number = s.number ∧ s'.loaded = s.loaded := by
  have hku : k < s.userid.length := by rw [hwf.1.hu]; exact hk
  have hkn : k < s.next.length := by rw [hwf.1.hn]; exact hk
  obtain ⟨id, hid⟩ := getElem?_of_lt hku
  obtain ⟨nk, hnk⟩ := getElem?_of_lt hkn
  have hh := hlt id
  obtain ⟨v, hv, hc, hnd, hids⟩ := hwf.2 _ hh
  -- `k` can only be on the chain of its own bucket
  have honly : ∀ h', h' < e.B → k ∈ ch h' → h' = e.hash id := by
    intro h' hh' hm
    obtain ⟨_, _, _, _, hids'⟩ := hwf.2 h' hh'
    obtain ⟨id', h1, h2⟩ := hids' k hm
    rw [hid] at h1; cases h1; exact h2.symm
  by_cases hm : k ∈ ch (e.hash id)
  · obtain ⟨l₁, l₂, hsplit⟩ := List.append_of_mem hm
    rw [hsplit] at hc hnd hids
    have hk1 : k ∉ l₁ := by
      intro hx
      have := (List.nodup_append.1 hnd).2.2 k hx k (by simp)
      exact this rfl
    have hlen1 : l₁.length < e.MAX := by
      have := wf_length_le hwf hh
      rw [hsplit] at this
      simp at this
      omega
    have hloop := removeLoop_found k e.MAX (.head (e.hash id)) hc hk1 hlen1
    -- the state after the relink
    have hother : ∀ (s' : St Id), s'.userid = s.userid →
        (∀ h', h' < e.B → h' ≠ e.hash id → s'.head[h']? = s.head[h']?) →
        (∀ x, x ∉ l₁ → s'.next[x]? = s.next[x]?) → s'.next.length = s.next.length → s'.head.length = s.head.length →
        ChainOK e s' (e.hash id) (l₁ ++ l₂) → WF e s' (fun h => (ch h).erase k) := by
      intro s' hu' hhd hnx hnl hhl hmine
      refine ⟨⟨by rw [hu']; exact hwf.1.hu, by rw [hnl]; exact hwf.1.hn, by rw [hhl]; exact hwf.1.hh⟩, ?_⟩
      intro h' hh'
      by_cases hne : h' = e.hash id
      · subst hne
        show ChainOK e s' _ ((ch (e.hash id)).erase k)
        rw [hsplit, erase_split hk1]
        exact hmine
      · have hk' : k ∉ ch h' := fun hx => hne (honly h' hh' hx)
        show ChainOK e s' h' ((ch h').erase k)
        rw [List.erase_of_not_mem hk']
        obtain ⟨v', hv', hc', hnd', hids'⟩ := hwf.2 h' hh'
        refine ⟨v', by rw [hhd h' hh' hne]; exact hv', isChain_frame hc' ?_, hnd', by rw [hu']; exact hids'⟩
        intro x hx
        apply hnx
        intro hx1
        have : x ∈ ch (e.hash id) := by rw [hsplit]; exact List.mem_append_left _ hx1
        exact hne (wf_disjoint hwf hh' hh hx this)
    have hids12 : ∀ x ∈ l₁ ++ l₂, ∃ id', s.userid[x]? = some id' ∧ e.hash id' = e.hash id := by
      intro x hx
      apply hids
      rcases List.mem_append.1 hx with hx | hx
      · exact List.mem_append_left _ hx
      · exact List.mem_append_right _ (List.mem_cons_of_mem _ hx)
    have hnd12 : (l₁ ++ l₂).Nodup := by
      have := hnd.erase k
      rwa [erase_split hk1] at this
    cases hl1 : l₁ with
    | nil =>
      subst hl1
      simp only [List.nil_append] at hc hnd hids hsplit hloop hids12 hnd12
      simp only [IsChain] at hc
      obtain ⟨hvk, nx, hnx, hc2⟩ := hc
      rw [hnk] at hnx; cases hnx
      have hhd : e.hash id < s.head.length := by rw [hwf.1.hh]; exact hh
      refine ⟨{ s with head := s.head.set (e.hash id) nk }, ?_, ?_, rfl, rfl, rfl⟩
      · unfold removeFromUHash
        simp only [idxI_nat, idx_ok hid, idx_ok hv, idx_ok hnk, bind_ok, hloop, tailCell_nil, if_true, writeCell,
          setM_ok _ hhd, pure_ok]
      · refine hother _ rfl ?_ (fun _ _ => rfl) rfl (by simp) ?_
        · intro h' _ hne
          simp [List.getElem?_set_ne (Ne.symm hne)]
        · exact ⟨nk, by simp [hhd], hc2, hnd12, hids12⟩
    | cons a t =>
      subst hl1
      have hne_nil : (a :: t) ≠ [] := by simp
      have ht_mem : (a :: t).getLast hne_nil ∈ a :: t := List.getLast_mem _
      have ht_lt : (a :: t).getLast hne_nil < s.next.length :=
        isChain_lt hc _ (List.mem_append_left _ ht_mem)
      refine ⟨{ s with next := s.next.set ((a :: t).getLast hne_nil) nk }, ?_, ?_, rfl, rfl, rfl⟩
      · unfold removeFromUHash
        simp only [idxI_nat, idx_ok hid, idx_ok hv, idx_ok hnk, bind_ok, hloop, tailCell_ne_nil _ _ hne_nil, if_true,
          writeCell, setM_ok _ ht_lt, pure_ok]
      · refine hother _ rfl (fun _ _ _ => rfl) ?_ (by simp) rfl ?_
        · intro x hx
          have : (a :: t).getLast hne_nil ≠ x := fun e' => hx (e' ▸ ht_mem)
          simp [List.getElem?_set_ne this]
        · exact ⟨v, hv, isChain_unlink k a hc hnd hnk, hnd12, hids12⟩
  · have hlen : (ch (e.hash id)).length < e.MAX :=
      nodup_length_lt e.MAX _ k hnd (fun x hx => wf_lt hwf hh hx) hk hm
    have hloop := removeLoop_notfound k e.MAX (.head (e.hash id)) hc hm hlen
    have hkne : ¬ ((-1 : Int) = (k : Int)) := by omega
    refine ⟨s, ?_, ?_, rfl, rfl, rfl⟩
    · unfold removeFromUHash
      simp only [idxI_nat, idx_ok hid, idx_ok hv, bind_ok, hloop, hkne, if_false, pure_ok]
    · refine ⟨hwf.1, ?_⟩
      intro h' hh'
      have hk' : k ∉ ch h' := by
        intro hx
        have := honly h' hh' hx
        subst this
        exact hm hx
      show ChainOK e s h' ((ch h').erase k)
      rw [List.erase_of_not_mem hk']
      exact hwf.2 h' hh'

end

/-! ### the invariant with detached slots, and its preservation by add / remove / set -/

section
variable {Id : Type}

/-- The laws the theorems need about the id operations.  `fold` is the case folding (it is not used by the code). -/
structure Laws (e : Env Id) (fold : Id → Id) : Prop where
  hash_lt : ∀ a, e.hash a < e.B
  hash_fold : ∀ a, e.hash (fold a) = e.hash a
  ceq_iff : ∀ a b, e.ceq a b = true ↔ fold a = fold b
  seq_fold : ∀ a b, e.seq a b = true → fold a = fold b
  isEmpty_fold : ∀ a b, fold a = fold b → e.isEmpty a = e.isEmpty b
  zero_empty : e.isEmpty e.zero = true

theorem Laws.hash_eq {e : Env Id} {fold : Id → Id} (L : Laws e fold) {a b : Id} (h : fold a = fold b) :
    e.hash a = e.hash b := by
  rw [← L.hash_fold a, ← L.hash_fold b, h]

variable (e : Env Id)

/-- every slot holding a non-empty id, except the detached ones, is on the chain its hash selects -/
def Cover (D : List Nat) (s : St Id) (ch : Nat → List Nat) : Prop :=
  ∀ k id, s.userid[k]? = some id → e.isEmpty id = false → k ∉ D → k ∈ ch (e.hash id)

/-- The invariant.  `D` lists the slots detached by a bare RemoveFromUHash and not re-added yet
(SetUserID detaches and re-adds in one call, so between calls of SetUserID `D = []`). -/
def InvD (D : List Nat) (s : St Id) : Prop :=
  ∃ ch, WF e s ch ∧ (∀ k ∈ D, Free e ch k) ∧ Cover e D s ch

def Inv (s : St Id) : Prop := InvD e [] s

/-- slot `k` is on no chain -/
def Unlinked (s : St Id) (k : Nat) : Prop := ∀ ch, WF e s ch → Free e ch k

variable {e}

theorem wf_unique {s : St Id} {ch ch' : Nat → List Nat} (h1 : WF e s ch) (h2 : WF e s ch') {h : Nat} (hh : h < e.B) :
    ch h = ch' h := by
  obtain ⟨v, hv, hc, _, _⟩ := h1.2 h hh
  obtain ⟨v', hv', hc', _, _⟩ := h2.2 h hh
  rw [hv] at hv'; cases hv'
  exact isChain_unique hc hc'

theorem unlinked_of_mem {D : List Nat} {s : St Id} (hinv : InvD e D s) {k : Nat} (hk : k ∈ D) : Unlinked e s k := by
  obtain ⟨ch, hwf, hfree, _⟩ := hinv
  intro ch' hwf' h hh
  rw [← wf_unique hwf hwf' hh]
  exact hfree k hk h hh

theorem inv_add_aux (hlt : ∀ a, e.hash a < e.B) {D : List Nat} {s : St Id} (hinv : InvD e D s) {k : Nat} (hk : k < e.MAX)
    (hun : Unlinked e s k) (id : Id) :
    ∃ s', addToUHash e s (k : Int) id = .ok (s', .ok) ∧ InvD e (D.filter (· ≠ k)) s' ∧
      s'.userid = s.userid.set k id ∧ s'.number = s.number ∧ s'.loaded = s.loaded := by
  obtain ⟨ch, hwf, hfree, hcov⟩ := hinv
  have hf := hun ch hwf
  obtain ⟨s', hrun, hwf', hu, hn, hl⟩ := add_spec hlt hwf hk hf id
  have hku : k < s.userid.length := by rw [hwf.1.hu]; exact hk
  refine ⟨s', hrun, ⟨_, hwf', ?_, ?_⟩, hu, hn, hl⟩
  · intro k' hk' h hh
    simp only [List.mem_filter, decide_eq_true_eq] at hk'
    simp only [upd]
    split
    · intro hm
      rcases List.mem_append.1 hm with hm | hm
      · exact hfree k' hk'.1 _ (hlt id) hm
      · simp at hm; exact hk'.2 hm
    · exact hfree k' hk'.1 h hh
  · intro k' id' hid' hne hD
    rw [hu] at hid'
    by_cases hkk : k' = k
    · subst hkk
      simp [hku] at hid'
      subst hid'
      simp [upd]
    · rw [List.getElem?_set_ne (Ne.symm hkk)] at hid'
      have hD' : k' ∉ D := by
        intro hm
        exact hD (by simp [List.mem_filter, hm, hkk])
      have := hcov k' id' hid' hne hD'
      simp only [upd]
      split
      · rename_i heq
        rw [heq] at this
        exact List.mem_append_left _ this
      · exact this

theorem inv_remove_aux (hlt : ∀ a, e.hash a < e.B) {D : List Nat} {s : St Id} (hinv : InvD e D s) {k : Nat}
    (hk : k < e.MAX) :
    ∃ s', removeFromUHash e s (k : Int) = .ok (s', .ok) ∧ InvD e (k :: D) s' ∧
      s'.userid = s.userid ∧ s'.number = s.number ∧ s'.loaded = s.loaded := by
  obtain ⟨ch, hwf, hfree, hcov⟩ := hinv
  obtain ⟨s', hrun, hwf', hu, hn, hl⟩ := remove_spec hlt hwf hk
  refine ⟨s', hrun, ⟨_, hwf', ?_, ?_⟩, hu, hn, hl⟩
  · intro k' hk' h hh
    rcases List.mem_cons.1 hk' with rfl | hk'
    · obtain ⟨_, _, _, hnd, _⟩ := hwf.2 h hh
      intro hm
      exact ((List.Nodup.mem_erase_iff hnd).1 hm).1 rfl
    · intro hm
      exact hfree k' hk' h hh (List.mem_of_mem_erase hm)
  · intro k' id' hid' hne hD
    rw [hu] at hid'
    have hkk : k' ≠ k := fun e' => hD (e' ▸ List.mem_cons_self)
    have hD' : k' ∉ D := fun hm => hD (List.mem_cons_of_mem _ hm)
    have := hcov k' id' hid' hne hD'
    exact (List.mem_erase_of_ne hkk).2 this

theorem filter_cons_self (D : List Nat) (k : Nat) : (k :: D).filter (· ≠ k) = D.filter (· ≠ k) := by
  simp

theorem inv_set_aux (hlt : ∀ a, e.hash a < e.B) {D : List Nat} {s : St Id} (hinv : InvD e D s) {k : Nat}
    (hk : k < e.MAX) (id : Id) :
    ∃ s', setUserID e s ((k : Int) + 1) id = .ok (s', .ok) ∧ InvD e (D.filter (· ≠ k)) s' ∧
      s'.userid = s.userid.set k id ∧ s'.number = s.number ∧ s'.loaded = s.loaded := by
  obtain ⟨s1, hr1, hinv1, hu1, hn1, hl1⟩ := inv_remove_aux hlt hinv hk
  have hun : Unlinked e s1 k := unlinked_of_mem hinv1 List.mem_cons_self
  obtain ⟨s2, hr2, hinv2, hu2, hn2, hl2⟩ := inv_add_aux hlt hinv1 hk hun id
  rw [filter_cons_self] at hinv2
  refine ⟨s2, ?_, hinv2, by rw [hu2, hu1], by rw [hn2, hn1], by rw [hl2, hl1]⟩
  unfold setUserID
  have hr : ¬ ((k : Int) + 1 ≤ 0 ∨ (k : Int) + 1 > (e.MAX : Int)) := by omega
  simp only [hr, if_false, Int.add_sub_cancel, hr1, bind_ok, hr2, pure_ok]
  rfl

theorem set_out_of_range (s : St Id) (uid : Int) (id : Id) (h : uid ≤ 0 ∨ uid > (e.MAX : Int)) :
    setUserID e s uid id = .ok (s, .errInvalidUID) := by
  simp [setUserID, h]

end


/-! ### lookups -/

section
variable {Id : Type} {e : Env Id}

theorem findOn_some {s : St Id} {q : Id} : ∀ {l : List Nat} {k : Nat} {id : Id},
    findOn e s q l = some (k, id) → k ∈ l ∧ s.userid[k]? = some id ∧ e.ceq q id = true := by
  intro l
  induction l with
  | nil => intro k id h; simp [findOn] at h
  | cons a t ih =>
    intro k id h
    simp only [findOn] at h
    cases ha : s.userid[a]? with
    | none => simp [ha] at h
    | some ida =>
      simp only [ha] at h
      by_cases hq : e.ceq q ida = true
      · simp only [hq, if_true, Option.some.injEq, Prod.mk.injEq] at h
        obtain ⟨rfl, rfl⟩ := h
        exact ⟨List.mem_cons_self, ha, hq⟩
      · simp only [hq] at h
        obtain ⟨h1, h2, h3⟩ := ih h
        exact ⟨List.mem_cons_of_mem _ h1, h2, h3⟩

theorem findOn_none {s : St Id} {q : Id} : ∀ {l : List Nat}, (∀ k ∈ l, ∃ id, s.userid[k]? = some id) →
    findOn e s q l = none → ∀ k ∈ l, ∀ id, s.userid[k]? = some id → e.ceq q id = false := by
  intro l
  induction l with
  | nil => intro _ _ k hk; cases hk
  | cons a t ih =>
    intro hall h k hk id hid
    obtain ⟨ida, ha⟩ := hall a List.mem_cons_self
    simp only [findOn, ha] at h
    by_cases hq : e.ceq q ida = true
    · simp [hq] at h
    · simp only [hq] at h
      rcases List.mem_cons.1 hk with rfl | hk
      · rw [ha] at hid; cases hid
        simpa using hq
      · exact ih (fun k hk => hall k (List.mem_cons_of_mem _ hk)) h k hk id hid

/-- under well-formed chains the guarded loop of DoSearchUserRaw is the plain search of the chain the hash selects:
the `times < MAX_USERS` guard never cuts it short. -/
theorem doSearch_spec (hlt : ∀ a, e.hash a < e.B) {s : St Id} {ch : Nat → List Nat} (hwf : WF e s ch) (q : Id) :
    doSearchUserRaw e s q =
      .ok ((searchResult (findOn e s q (ch (e.hash q)))).1,
           if e.isEmpty q then none else (searchResult (findOn e s q (ch (e.hash q)))).2) := by
  have hh := hlt q
  obtain ⟨v, hv, hc, hnd, hids⟩ := hwf.2 _ hh
  have hspec := searchLoop_spec e s q e.MAX hc
    (fun k hk => ⟨wf_lt hwf hh hk, (hids k hk).imp (fun _ h => h.1)⟩) (wf_length_le hwf hh)
  unfold doSearchUserRaw
  simp only [idx_ok hv, bind_ok, hspec, pure_ok]

/-- slot `k` holds `q` in some letter case -/
def Holds (fold : Id → Id) (s : St Id) (k : Nat) (q : Id) : Prop :=
  ∃ id, s.userid[k]? = some id ∧ fold id = fold q

/-- no two slots hold the same non-empty id up to letter case -/
def UniqueFold (e : Env Id) (fold : Id → Id) (s : St Id) : Prop :=
  ∀ (i j : Nat) (idi idj : Id), s.userid[i]? = some idi → s.userid[j]? = some idj → e.isEmpty idi = false →
    fold idi = fold idj → i = j

theorem search_empty (s : St Id) (q : Id) (hq : e.isEmpty q = true) : searchUserRaw e s q = .ok (0, none) := by
  simp [searchUserRaw, hq]

theorem search_found {fold : Id → Id} (L : Laws e fold) {D : List Nat} {s : St Id} (hinv : InvD e D s) (q : Id)
    (hq : e.isEmpty q = false) {k : Nat} {id : Id} (hid : s.userid[k]? = some id) (hf : fold id = fold q)
    (hD : k ∉ D) :
    ∃ (k' : Nat) (id' : Id), searchUserRaw e s q = .ok ((k' : Int) + 1, some id') ∧ s.userid[k']? = some id' ∧ fold id' = fold q := by
  obtain ⟨ch, hwf, _, hcov⟩ := hinv
  have hne : e.isEmpty id = false := by rw [L.isEmpty_fold id q hf]; exact hq
  have hmem : k ∈ ch (e.hash q) := by
    have := hcov k id hid hne hD
    rwa [L.hash_eq hf] at this
  have hh := L.hash_lt q
  obtain ⟨v, hv, hc, hnd, hids⟩ := hwf.2 _ hh
  unfold searchUserRaw
  simp only [hq, Bool.false_eq_true, if_false, doSearch_spec L.hash_lt hwf q]
  cases hfo : findOn e s q (ch (e.hash q)) with
  | none =>
    have := findOn_none (fun k hk => (hids k hk).imp (fun _ h => h.1)) hfo k hmem id hid
    have hceq : e.ceq q id = true := (L.ceq_iff q id).2 hf.symm
    rw [hceq] at this
    cases this
  | some r =>
    obtain ⟨k', id'⟩ := r
    obtain ⟨_, h2, h3⟩ := findOn_some hfo
    exact ⟨k', id', by simp [searchResult], h2, ((L.ceq_iff q id').1 h3).symm⟩

theorem search_absent {fold : Id → Id} (L : Laws e fold) {D : List Nat} {s : St Id} (hinv : InvD e D s) (q : Id)
    (habs : ∀ (k : Nat) (id : Id), s.userid[k]? = some id → fold id ≠ fold q) :
    searchUserRaw e s q = .ok (0, none) := by
  obtain ⟨ch, hwf, _, _⟩ := hinv
  unfold searchUserRaw
  split
  · rfl
  · rw [doSearch_spec L.hash_lt hwf q]
    cases hfo : findOn e s q (ch (e.hash q)) with
    | none => simp [searchResult]
    | some r =>
      obtain ⟨k', id'⟩ := r
      obtain ⟨_, h2, h3⟩ := findOn_some hfo
      exact absurd ((L.ceq_iff q id').1 h3).symm (habs k' id' h2)

/-- whatever a lookup returns is a slot that holds the id (no uniqueness needed) -/
theorem search_sound_aux {fold : Id → Id} (L : Laws e fold) {D : List Nat} {s : St Id} (hinv : InvD e D s) (q : Id)
    {u : Int} {r : Option Id} (hres : searchUserRaw e s q = .ok (u, r)) :
    (u = 0 ∧ r = none) ∨ ∃ (k : Nat) (id : Id), u = (k : Int) + 1 ∧ k < e.MAX ∧ s.userid[k]? = some id ∧ fold id = fold q ∧ r = some id := by
  obtain ⟨ch, hwf, _, _⟩ := hinv
  unfold searchUserRaw at hres
  split at hres
  · simp at hres
    exact Or.inl ⟨hres.1.symm, hres.2.symm⟩
  · rename_i hq
    rw [doSearch_spec L.hash_lt hwf q] at hres
    simp only [hq, if_false] at hres
    cases hfo : findOn e s q (ch (e.hash q)) with
    | none =>
      simp [hfo, searchResult] at hres
      exact Or.inl ⟨hres.1.symm, hres.2.symm⟩
    | some p =>
      obtain ⟨k', id'⟩ := p
      obtain ⟨h1, h2, h3⟩ := findOn_some hfo
      simp [hfo, searchResult] at hres
      refine Or.inr ⟨k', id', hres.1.symm, wf_lt hwf (L.hash_lt q) h1, h2, ((L.ceq_iff q id').1 h3).symm, hres.2.symm⟩

end

/-! ### the loader -/

section
variable {Id : Type} {e : Env Id}

theorem writeCell_frame {s s1 : St Id} {c : Cell} {v : Int} (h : writeCell s c v = .ok s1) :
    s1.userid = s.userid ∧ s1.number = s.number ∧ s1.loaded = s.loaded := by
  cases c <;> simp only [writeCell, setM] at h <;> split at h <;> simp at h <;> subst h <;> exact ⟨rfl, rfl, rfl⟩

/-- userecRawAddToUHash on a slot that is on no chain, cold mode: skip, or write the id and link the slot. -/
theorem loaderAdd_cold (hlt : ∀ a, e.hash a < e.B) {s : St Id} {ch : Nat → List Nat} (hwf : WF e s ch) {k : Nat}
    (hk : k < e.MAX) (hfree : Free e ch k) (id : Id) (cnt : Nat) :
    (loaderAdd e false s k id cnt = .ok (s, if e.valid id = true then cnt else cnt + 1) ∧
      e.valid id = false ∧ cnt + 1 > e.PRE) ∨
    ∃ s', loaderAdd e false s k id cnt = .ok (s', if e.valid id = true then cnt else cnt + 1) ∧
      WF e s' (upd ch (e.hash id) (ch (e.hash id) ++ [k])) ∧ s'.userid = s.userid.set k id ∧
      s'.number = s.number ∧ s'.loaded = s.loaded := by
  by_cases hskip : (!e.valid id) = true ∧ (if e.valid id = true then cnt else cnt + 1) > e.PRE
  · left
    have hv : e.valid id = false := by simpa using hskip.1
    refine ⟨by simp only [loaderAdd, hskip, and_self, if_true, pure_ok], hv, ?_⟩
    have := hskip.2
    simpa [hv] using this
  · right
    have hwf1 := wf_setid hwf hfree id
    have hh := hlt id
    obtain ⟨v, hv, hc, hnd, hids⟩ := hwf1.2 _ hh
    have hku : k < s.userid.length := by rw [hwf.1.hu]; exact hk
    obtain ⟨cur, hcur⟩ := getElem?_of_lt hku
    have hid0 : ({ s with userid := s.userid.set k id } : St Id).userid[k]? = some id := by simp [hku]
    obtain ⟨s1, hw, hs, hwf2, hu⟩ := wf_link hwf1 hk hfree hh hid0 rfl
    have hlen : (ch (e.hash id)).length ≤ e.MAX := wf_length_le hwf hh
    have hf := writeCell_frame hw
    refine ⟨{ s1 with next := s1.next.set k (-1) }, ?_, hwf2, hu, hf.2.1, hf.2.2⟩
    have hv' : s.head[e.hash id]? = some v := hv
    have hloop := loaderLoop_spec e false k e.MAX (.head (e.hash id)) hc (fun x hx => wf_lt hwf hh hx) hlen
    simp only [Bool.false_eq_true, false_and, if_false] at hloop
    simp only [loaderAdd, hskip, if_false, idx_ok hcur, bind_ok, Bool.not_false, Bool.true_or, if_true,
      setM_ok _ hku, pure_ok, idx_ok hv', hloop, hw, hs]

/-- userecRawAddToUHash, on-the-fly mode, for a record whose id equals the live id as a C string:
nothing is written to Userid; the slot is left where it is or linked behind its chain (so a slot that a bare
RemoveFromUHash had detached is linked again), unless the record is skipped as one invalid id too many. -/
theorem loaderAdd_onfly {fold : Id → Id} (L : Laws e fold) {s : St Id} {ch : Nat → List Nat} (hwf : WF e s ch) {k : Nat}
    (hk : k < e.MAX) (id cur : Id) (hcur : s.userid[k]? = some cur) (hagree : e.seq id cur = true) (cnt : Nat) :
    ∃ s' ch', loaderAdd e true s k id cnt = .ok (s', if e.valid id = true then cnt else cnt + 1) ∧ WF e s' ch' ∧
      (∀ h x, x ∈ ch h → x ∈ ch' h) ∧ s'.userid = s.userid ∧ s'.number = s.number ∧ s'.loaded = s.loaded ∧
      (∀ h x, x ∈ ch' h → x ∈ ch h ∨ x = k) ∧
      (¬ (e.valid id = false ∧ cnt + 1 > e.PRE) → k ∈ ch' (e.hash id)) := by
  by_cases hskip : (!e.valid id) = true ∧ (if e.valid id = true then cnt else cnt + 1) > e.PRE
  · refine ⟨s, ch, by simp only [loaderAdd, hskip, and_self, if_true, pure_ok], hwf, fun _ _ h => h, rfl, rfl, rfl,
      fun _ _ h => Or.inl h, ?_⟩
    intro hn
    exfalso
    apply hn
    have hv : e.valid id = false := by simpa using hskip.1
    refine ⟨hv, ?_⟩
    have := hskip.2
    simpa [hv] using this
  · have hhash : e.hash cur = e.hash id := (L.hash_eq (L.seq_fold id cur hagree)).symm
    have hh := L.hash_lt id
    obtain ⟨v, hv, hc, hnd, hids⟩ := hwf.2 _ hh
    have hlen : (ch (e.hash id)).length ≤ e.MAX := wf_length_le hwf hh
    have hloop := loaderLoop_spec e true k e.MAX (.head (e.hash id)) hc (fun x hx => wf_lt hwf hh hx) hlen
    simp only [true_and] at hloop
    by_cases hm : k ∈ ch (e.hash id)
    · refine ⟨s, ch, ?_, hwf, fun _ _ h => h, rfl, rfl, rfl, fun _ _ h => Or.inl h, fun _ => hm⟩
      simp only [hm, if_true] at hloop
      simp only [loaderAdd, hskip, if_false, idx_ok hcur, bind_ok, Bool.not_true, hagree, Bool.or_self,
        Bool.false_eq_true, pure_ok, idx_ok hv, hloop]
    · have hfree : Free e ch k := by
        intro h' hh' hx
        obtain ⟨_, _, _, _, hids'⟩ := hwf.2 h' hh'
        obtain ⟨id', h1, h2⟩ := hids' k hx
        rw [hcur] at h1; cases h1
        rw [hhash] at h2
        exact hm (h2 ▸ hx)
      obtain ⟨s1, hw, hs, hwf2, hu⟩ := wf_link hwf hk hfree hh hcur hhash
      have hf := writeCell_frame hw
      refine ⟨{ s1 with next := s1.next.set k (-1) }, _, ?_, hwf2, ?_, hu, hf.2.1, hf.2.2, ?_, ?_⟩
      · simp only [hm, if_false] at hloop
        simp only [loaderAdd, hskip, if_false, idx_ok hcur, bind_ok, Bool.not_true, hagree, Bool.or_self,
          Bool.false_eq_true, pure_ok, idx_ok hv, hloop, hw, hs]
      · intro h x hx
        simp only [upd]
        split
        · rename_i heq; subst heq; exact List.mem_append_left _ hx
        · exact hx
      · intro h x hx
        simp only [upd] at hx
        split at hx
        · rename_i heq; subst heq
          rcases List.mem_append.1 hx with hx | hx
          · exact Or.inl hx
          · simp at hx; exact Or.inr hx
        · exact Or.inl hx
      · intro _
        simp [upd]

/-- fillUHash's record loop, cold mode -/
theorem fillLoop_cold (hlt : ∀ a, e.hash a < e.B) : ∀ (recs : List Id) (i cnt : Nat) (s : St Id) (ch : Nat → List Nat),
    WF e s ch → (∀ h, h < e.B → ∀ x ∈ ch h, x < i) → Cover e [] s ch → i + recs.length ≤ e.MAX →
    ∃ s' ch', fillLoop e false recs i cnt s = .ok s' ∧ WF e s' ch' ∧ Cover e [] s' ch' ∧
      s'.number = s.number ∧ s'.loaded = s.loaded ∧
      (∀ j, j < i ∨ i + recs.length ≤ j → s'.userid[j]? = s.userid[j]?) ∧
      (∀ j r, recs[j]? = some r → s'.userid[i + j]? = some r ∨ s'.userid[i + j]? = s.userid[i + j]?) ∧
      (∀ h x, x ∈ ch h → x ∈ ch' h) ∧
      (cnt + (recs.filter (fun r => !e.valid r)).length ≤ e.PRE →
        ∀ j r, recs[j]? = some r → s'.userid[i + j]? = some r ∧ i + j ∈ ch' (e.hash r)) := by
  intro recs
  induction recs with
  | nil =>
    intro i cnt s ch hwf _ hcov _
    exact ⟨s, ch, rfl, hwf, hcov, rfl, rfl, fun _ _ => rfl, fun j r h => by simp at h, fun _ _ h => h,
      fun _ j r h => by simp at h⟩
  | cons r rs ih =>
    intro i cnt s ch hwf hbelow hcov hlen
    have hi : i < e.MAX := by simp at hlen; omega
    have hfree : Free e ch i := fun h hh hx => by have := hbelow h hh i hx; omega
    have hiu : i < s.userid.length := by rw [hwf.1.hu]; exact hi
    rcases loaderAdd_cold hlt hwf hi hfree r cnt with ⟨hrun, hinv, hpre⟩ | ⟨s1, hrun, hwf1, hu1, hn1, hl1⟩
    · obtain ⟨s', ch', hr', hwf', hcov', hn', hl', hout, hin, hmono, _⟩ :=
        ih (i + 1) (if e.valid r = true then cnt else cnt + 1) s ch hwf
          (fun h hh x hx => by have := hbelow h hh x hx; omega) hcov (by simp at hlen; omega)
      refine ⟨s', ch', ?_, hwf', hcov', hn', hl', ?_, ?_, hmono, ?_⟩
      · simp only [fillLoop, hrun, bind_ok, hr']
      · intro j hj
        apply hout
        simp at hj
        omega
      · intro j r' hj
        cases j with
        | zero => right; exact hout i (by omega)
        | succ j =>
          have := hin j r' (by simpa using hj)
          rw [show i + 1 + j = i + (j + 1) by omega] at this
          exact this
      · intro hP
        exfalso
        simp only [List.filter_cons, hinv, Bool.not_false, if_true, List.length_cons] at hP
        omega
    · have hbelow1 : ∀ h, h < e.B → ∀ x ∈ upd ch (e.hash r) (ch (e.hash r) ++ [i]) h, x < i + 1 := by
        intro h hh x hx
        simp only [upd] at hx
        split at hx
        · rcases List.mem_append.1 hx with hx | hx
          · have := hbelow _ (hlt r) x hx; omega
          · simp at hx; omega
        · have := hbelow h hh x hx; omega
      have hcov1 : Cover e [] s1 (upd ch (e.hash r) (ch (e.hash r) ++ [i])) := by
        intro k' id' hid' hne _
        rw [hu1] at hid'
        by_cases hkk : k' = i
        · subst hkk
          simp [hiu] at hid'
          subst hid'
          simp [upd]
        · rw [List.getElem?_set_ne (Ne.symm hkk)] at hid'
          have := hcov k' id' hid' hne (by simp)
          simp only [upd]
          split
          · rename_i heq; rw [heq] at this; exact List.mem_append_left _ this
          · exact this
      have hmono1 : ∀ h x, x ∈ ch h → x ∈ upd ch (e.hash r) (ch (e.hash r) ++ [i]) h := by
        intro h x hx
        simp only [upd]
        split
        · rename_i heq; subst heq; exact List.mem_append_left _ hx
        · exact hx
      obtain ⟨s', ch', hr', hwf', hcov', hn', hl', hout, hin, hmono, htab⟩ :=
        ih (i + 1) (if e.valid r = true then cnt else cnt + 1) s1 _ hwf1 hbelow1 hcov1 (by simp at hlen; omega)
      have hi_tab : s'.userid[i]? = some r := by
        rw [hout i (by omega), hu1]
        simp [hiu]
      refine ⟨s', ch', ?_, hwf', hcov', by rw [hn', hn1], by rw [hl', hl1], ?_, ?_,
        fun h x hx => hmono h x (hmono1 h x hx), ?_⟩
      · simp only [fillLoop, hrun, bind_ok, hr']
      · intro j hj
        have hj' : j < i + 1 ∨ i + 1 + rs.length ≤ j := by simp at hj; omega
        rw [hout j hj', hu1]
        have : i ≠ j := by simp at hj; omega
        rw [List.getElem?_set_ne this]
      · intro j r' hj
        cases j with
        | zero =>
          left
          simp at hj; subst hj
          exact hi_tab
        | succ j =>
          have := hin j r' (by simpa using hj)
          rw [show i + 1 + j = i + (j + 1) by omega, hu1, List.getElem?_set_ne (by omega)] at this
          exact this
      · intro hP j r' hj
        have hP' : (if e.valid r = true then cnt else cnt + 1) + (rs.filter (fun r => !e.valid r)).length ≤ e.PRE := by
          simp only [List.filter_cons] at hP
          cases hv : e.valid r <;> simp [hv] at hP ⊢ <;> omega
        cases j with
        | zero =>
          simp at hj; subst hj
          refine ⟨hi_tab, hmono _ _ ?_⟩
          simp [upd]
        | succ j =>
          have := htab hP' j r' (by simpa using hj)
          rw [show i + 1 + j = i + (j + 1) by omega] at this
          exact this

/-- fillUHash's record loop, on-the-fly mode, over records that agree with the live ids -/
theorem fillLoop_onfly {fold : Id → Id} (L : Laws e fold) (D : List Nat) : ∀ (recs : List Id) (i cnt : Nat) (s : St Id) (ch : Nat → List Nat),
    WF e s ch → Cover e D s ch →
    (∀ j r, recs[j]? = some r → ∃ cur, s.userid[i + j]? = some cur ∧ e.seq r cur = true) →
    ∃ s' ch', fillLoop e true recs i cnt s = .ok s' ∧ WF e s' ch' ∧ Cover e D s' ch' ∧
      s'.userid = s.userid ∧ s'.number = s.number ∧ s'.loaded = s.loaded ∧
      (∀ h x, x ∈ ch h → x ∈ ch' h) ∧
      (∀ h x, x ∈ ch' h → x ∈ ch h ∨ (i ≤ x ∧ x < i + recs.length)) ∧
      (cnt + (recs.filter (fun r => !e.valid r)).length ≤ e.PRE →
        ∀ j r, recs[j]? = some r → i + j ∈ ch' (e.hash r)) := by
  intro recs
  induction recs with
  | nil =>
    intro i cnt s ch hwf hcov _
    exact ⟨s, ch, rfl, hwf, hcov, rfl, rfl, rfl, fun _ _ h => h, fun _ _ h => Or.inl h, fun _ j r h => by simp at h⟩
  | cons r rs ih =>
    intro i cnt s ch hwf hcov hag
    obtain ⟨cur, hcur, hseq⟩ := hag 0 r (by simp)
    simp only [Nat.add_zero] at hcur
    have hi : i < e.MAX := by
      have := (List.getElem?_eq_some_iff.1 hcur).1
      rw [hwf.1.hu] at this
      exact this
    obtain ⟨s1, ch1, hrun, hwf1, hgrow, hu1, hn1, hl1, hbound1, hlink1⟩ := loaderAdd_onfly L hwf hi r cur hcur hseq cnt
    have hcov1 : Cover e D s1 ch1 := by
      intro k' id' hid' hne hD
      rw [hu1] at hid'
      exact hgrow _ _ (hcov k' id' hid' hne hD)
    obtain ⟨s', ch', hr', hwf', hcov', hu', hn', hl', hmono, hbound, hlink⟩ :=
      ih (i + 1) (if e.valid r = true then cnt else cnt + 1) s1 ch1 hwf1 hcov1 (by
        intro j r' hj
        have := hag (j + 1) r' (by simpa using hj)
        rw [hu1, show i + 1 + j = i + (j + 1) by omega]
        exact this)
    refine ⟨s', ch', by simp only [fillLoop, hrun, bind_ok, hr'], hwf', hcov', by rw [hu', hu1], by rw [hn', hn1],
      by rw [hl', hl1], fun h x hx => hmono h x (hgrow h x hx), ?_, ?_⟩
    · intro h x hx
      rcases hbound h x hx with hx | hx
      · rcases hbound1 h x hx with hx | hx
        · exact Or.inl hx
        · right; simp; omega
      · right; simp; omega
    · intro hP j r' hj
      have hP' : (if e.valid r = true then cnt else cnt + 1) + (rs.filter (fun r => !e.valid r)).length ≤ e.PRE := by
        simp only [List.filter_cons] at hP
        cases hv : e.valid r <;> simp [hv] at hP ⊢ <;> omega
      cases j with
      | zero =>
        simp at hj; subst hj
        apply hmono
        apply hlink1
        rintro ⟨hv, hgt⟩
        simp only [List.filter_cons, hv, Bool.not_false, if_true, List.length_cons] at hP
        omega
      | succ j =>
        have := hlink hP' j r' (by simpa using hj)
        rw [show i + 1 + j = i + (j + 1) by omega] at this
        exact this

/-- InitFillUHash(true) under well-formed chains repairs nothing -/
theorem checkAllFrom_id {s : St Id} {ch : Nat → List Nat} (hwf : WF e s ch) : ∀ (hs : List Int) (h0 : Nat),
    (∀ j v, hs[j]? = some v → s.head[h0 + j]? = some v) → checkAllFrom e hs h0 s = .ok s := by
  intro hs
  induction hs with
  | nil => intro _ _; rfl
  | cons v rest ih =>
    intro h0 hhs
    have hv : s.head[h0]? = some v := by simpa using hhs 0 v (by simp)
    have hh : h0 < e.B := by
      have := (List.getElem?_eq_some_iff.1 hv).1
      rw [hwf.1.hh] at this
      exact this
    obtain ⟨v', hv', hc, hnd, hids⟩ := hwf.2 h0 hh
    rw [hv] at hv'; cases hv'
    have := checkLoop_id e h0 s e.MAX (.head h0) hc (fun x hx => ⟨wf_lt hwf hh hx, hids x hx⟩) (wf_length_le hwf hh)
    simp only [checkAllFrom, this, bind_ok]
    apply ih
    intro j w hj
    have := hhs (j + 1) w (by simpa using hj)
    rw [show h0 + 1 + j = h0 + (j + 1) by omega]
    exact this

theorem initFill_onfly_id {s : St Id} {ch : Nat → List Nat} (hwf : WF e s ch) : initFill e true s = .ok s := by
  simp only [initFill, if_true]
  exact checkAllFrom_id hwf s.head 0 (fun j v h => by simpa using h)

end

section
variable {Id : Type} {e : Env Id}

theorem writeCell_head_frame {s s1 : St Id} {c : Cell} {v : Int} {h : Nat} (hc : ∀ h', c = .head h' → h' = h)
    (hw : writeCell s c v = .ok s1) : s1.head.length = s.head.length ∧ ∀ j, j ≠ h → s1.head[j]? = s.head[j]? := by
  cases c with
  | head h' =>
    have := hc h' rfl
    subst this
    simp only [writeCell, setM] at hw
    split at hw
    · simp at hw; subst hw
      exact ⟨by simp, fun j hj => by simp [List.getElem?_set_ne (Ne.symm hj)]⟩
    · simp at hw
  | next k =>
    simp only [writeCell, setM] at hw
    split at hw
    · simp at hw; subst hw; exact ⟨rfl, fun _ _ => rfl⟩
    · simp at hw

/-- checkHash(h) writes no head cell other than `HashHead[h]`. -/
theorem checkLoop_head_frame (h : Nat) : ∀ (fuel : Nat) (s : St Id) (c : Cell) (v : Int) (s' : St Id),
    (∀ h', c = .head h' → h' = h) → checkLoop e h fuel s c v = .ok s' →
    s'.head.length = s.head.length ∧ ∀ j, j ≠ h → s'.head[j]? = s.head[j]? := by
  intro fuel
  induction fuel with
  | zero =>
    intro s c v s' hc hrun
    rw [checkLoop] at hrun
    split at hrun
    · simp at hrun; subst hrun; exact ⟨rfl, fun _ _ => rfl⟩
    · split at hrun
      · exact writeCell_head_frame hc hrun
      · simp at hrun
  | succ f ih =>
    intro s c v s' hc hrun
    rw [checkLoop] at hrun
    split at hrun
    · simp at hrun; subst hrun; exact ⟨rfl, fun _ _ => rfl⟩
    · split at hrun
      · exact writeCell_head_frame hc hrun
      · cases h1 : idxI s.userid v with
        | error x => simp [h1] at hrun
        | ok id =>
          cases h2 : idxI s.next v with
          | error x => simp [h1, h2] at hrun
          | ok nxt =>
            simp only [h1, h2, bind_ok] at hrun
            split at hrun
            · cases h3 : writeCell s c nxt with
              | error x => simp [h3] at hrun
              | ok s1 =>
                simp only [h3, bind_ok] at hrun
                have f1 := writeCell_head_frame hc h3
                have f2 := ih s1 c nxt s' hc hrun
                exact ⟨by rw [f2.1, f1.1], fun j hj => by rw [f2.2 j hj, f1.2 j hj]⟩
            · exact ih s (.next v.toNat) nxt s' (fun h' hh => by cases hh) hrun

/-- The one-pass form of InitFillUHash(true) used by the model equals the literal loop of the source. -/
theorem checkAllFrom_eq_checkAll : ∀ (hs : List Int) (h0 : Nat) (s : St Id), s.head.drop h0 = hs →
    checkAllFrom e hs h0 s = checkAll e s (List.range' h0 hs.length) := by
  intro hs
  induction hs with
  | nil => intro h0 s _; rfl
  | cons v rest ih =>
    intro h0 s hd
    have hv : s.head[h0]? = some v := by
      have : (s.head.drop h0)[0]? = some v := by rw [hd]; rfl
      simpa using this
    simp only [List.length_cons, List.range'_succ, checkAll, checkHash, idx_ok hv, bind_ok, checkAllFrom]
    cases hrun : checkLoop e h0 e.MAX s (.head h0) v with
    | error x => rfl
    | ok s' =>
      simp only [bind_ok]
      apply ih
      obtain ⟨hl, hf⟩ := checkLoop_head_frame h0 e.MAX s (.head h0) v s' (fun h' hh => by cases hh; rfl) hrun
      apply List.ext_getElem?
      intro j
      have : (s.head.drop h0)[j + 1]? = rest[j]? := by rw [hd]; rfl
      rw [← this]
      simp only [List.getElem?_drop]
      rw [hf (h0 + 1 + j) (by omega)]
      congr 1
      omega

end

/-! ### the id operations of the real build satisfy the laws -/

/-- case folding of an id: the bytes before the first NUL, upper-cased -/
def realFold (a : List Nat) : List Nat := (cstr a).map toupper

theorem toupper_ne_zero {c : Nat} (h : c ≠ 0) : toupper c ≠ 0 := by
  unfold toupper; split <;> omega

theorem tolower_eq_zero_iff (c : Nat) : tolower c = 0 ↔ c = 0 := by
  unfold tolower; split <;> omega

theorem toupper_eq_zero_iff (c : Nat) : toupper c = 0 ↔ c = 0 := by
  unfold toupper; split <;> omega

theorem toupper_idem (c : Nat) : toupper (toupper c) = toupper c := by
  unfold toupper; (repeat' split) <;> omega

theorem toupper_tolower (c : Nat) : toupper (tolower c) = toupper c := by
  unfold toupper tolower; (repeat' split) <;> omega

theorem lower_eq_iff_upper_eq (x y : Nat) : tolower x = tolower y ↔ toupper x = toupper y := by
  unfold toupper tolower; (repeat' split) <;> omega

theorem cstr_nil : cstr [] = [] := rfl

theorem cstr_cons (c : Nat) (cs : List Nat) : cstr (c :: cs) = if c = 0 then [] else c :: cstr cs := by
  unfold cstr
  by_cases h : c = 0 <;> simp [h]

theorem cstr_map {f : Nat → Nat} (hf : ∀ c, f c = 0 ↔ c = 0) (a : List Nat) : cstr (a.map f) = (cstr a).map f := by
  induction a with
  | nil => rfl
  | cons c cs ih =>
    simp only [List.map_cons, cstr_cons, hf]
    split <;> simp [ih]

theorem fnv_fold (a : List Nat) : ∀ h, fnv1a32StrCase (realFold a) h = fnv1a32StrCase a h := by
  induction a with
  | nil => intro h; rfl
  | cons c cs ih =>
    intro h
    unfold realFold at *
    rw [cstr_cons]
    by_cases hc : c = 0
    · simp [hc, fnv1a32StrCase]
    · simp only [hc, if_false, List.map_cons, fnv1a32StrCase, toupper_ne_zero hc, toupper_idem]
      exact ih _

theorem hashMod_pos : 0 < hashMod := Nat.pow_pos (by decide)

theorem cstrcmp_eq_zero_iff : ∀ (a b : List Nat), cstrcmp a b = 0 ↔ cstr a = cstr b := by
  intro a
  induction a with
  | nil =>
    intro b
    cases b with
    | nil => simp [cstrcmp]
    | cons y ys =>
      simp only [cstrcmp, cstr_nil, cstr_cons]
      by_cases hy : y = 0
      · simp [hy]
      · simp only [hy, if_false]
        constructor
        · intro h; omega
        · intro h; cases h
  | cons x xs ih =>
    intro b
    cases b with
    | nil =>
      simp only [cstrcmp, cstr_nil, cstr_cons]
      by_cases hx : x = 0
      · simp [hx]
      · simp only [hx, if_false]
        constructor
        · intro h; omega
        · intro h; cases h
    | cons y ys =>
      simp only [cstrcmp, cstr_cons]
      by_cases hx : x = 0
      · simp only [hx, if_true]
        by_cases hy : y = 0
        · simp [hy]
        · simp only [hy, if_false]
          constructor
          · intro h; omega
          · intro h; cases h
      · simp only [hx, if_false]
        by_cases hxy : x = y
        · subst hxy
          simp only [ne_eq, not_true_eq_false, if_false, hx]
          rw [ih ys]
          simp
        · simp only [ne_eq, hxy, not_false_eq_true, if_true]
          constructor
          · intro h; omega
          · intro h
            by_cases hy : y = 0
            · simp [hy] at h
            · simp only [hy, if_false] at h
              exact absurd (List.cons.inj h).1 hxy

theorem map_eq_iff_of_pointwise {f g : Nat → Nat} (h : ∀ x y, f x = f y ↔ g x = g y) :
    ∀ (l₁ l₂ : List Nat), l₁.map f = l₂.map f ↔ l₁.map g = l₂.map g := by
  intro l₁
  induction l₁ with
  | nil => intro l₂; cases l₂ <;> simp
  | cons a t ih =>
    intro l₂
    cases l₂ with
    | nil => simp
    | cons b u => simp [h a b, ih u]

theorem ceq_iff_real (a b : List Nat) : (cstrcasecmp a b == 0) = true ↔ realFold a = realFold b := by
  simp only [beq_iff_eq, cstrcasecmp, cstrcmp_eq_zero_iff, cstr_map tolower_eq_zero_iff, realFold]
  exact map_eq_iff_of_pointwise lower_eq_iff_upper_eq _ _

theorem isEmpty_iff_real (a : List Nat) : (a.headD 0 == 0) = true ↔ realFold a = [] := by
  cases a with
  | nil => simp [realFold, cstr_nil]
  | cons c cs =>
    simp only [List.headD_cons, beq_iff_eq, realFold, cstr_cons]
    by_cases hc : c = 0 <;> simp [hc]

theorem real_laws : Laws realEnv realFold where
  hash_lt a := Nat.mod_lt _ hashMod_pos
  hash_fold a := by
    show stringHashWithHashBits (realFold a) = stringHashWithHashBits a
    simp only [stringHashWithHashBits, stringHash, fnv_fold]
  ceq_iff a b := ceq_iff_real a b
  seq_fold a b h := by
    have : cstrcmp a b = 0 := by simpa [realEnv] using h
    rw [cstrcmp_eq_zero_iff] at this
    simp only [realFold, this]
  isEmpty_fold a b h := by
    have ha := isEmpty_iff_real a
    have hb := isEmpty_iff_real b
    rw [h] at ha
    show (a.headD 0 == 0) = (b.headD 0 == 0)
    rw [Bool.eq_iff_iff, ha, hb]
  zero_empty := by
    show ((List.replicate idSize 0).headD 0 == 0) = true
    cases idSize <;> simp [List.replicate]

end PttVerif.C04
