import PttVerif.Model.C14
/-
The inductive invariant of the append protocol and its preservation by every atomic step.
-/
namespace PttVerif.C14

/-- the thread owns its process's lock-table entry. -/
def owns : PC → Bool
  | .wantFlock | .haveLock | .seeked _ | .written _ | .unlocked _ | .lockFailed | .bodyFailed | .unlockedErr => true
  | _ => false

/-- the thread's open file description holds the flock. -/
def holds : PC → Bool
  | .haveLock | .seeked _ | .written _ | .bodyFailed => true
  | _ => false

/-- the record index the thread has written (and will return / has returned). -/
def wroteAt : PC → Option Nat
  | .written i | .unlocked i | .doneOk i => some i
  | _ => none

structure Inv (proc : Nat → Nat) (n0 : Nat) (s : Sys) : Prop where
  holder_iff : ∀ t, s.holder = some t ↔ holds (s.pc t) = true
  owns_table : ∀ t, owns (s.pc t) = true → s.table (proc t) = true
  owner_unique : ∀ t u, owns (s.pc t) = true → owns (s.pc u) = true → proc t = proc u → t = u
  table_owner : ∀ p, s.table p = true → ∃ t, proc t = p ∧ owns (s.pc t) = true
  seeked_len : ∀ t i, s.pc t = .seeked i → i = s.recs.length
  written_at : ∀ t i, wroteAt (s.pc t) = some i → s.recs[i]? = some (some t)
  writers : ∃ ws : List Nat, s.recs = List.replicate n0 none ++ ws.map some ∧ ws.Nodup ∧
      ∀ t, t ∈ ws ↔ (wroteAt (s.pc t)).isSome = true

@[simp] theorem setPc_same (s : Sys) (t : Nat) (p : PC) : setPc s t p t = p := by simp [setPc]
theorem setPc_other (s : Sys) (t u : Nat) (p : PC) (h : u ≠ t) : setPc s t p u = s.pc u := by
  simp [setPc, h]

theorem holds_unique {proc n0 s} (inv : Inv proc n0 s) (t u : Nat)
    (ht : holds (s.pc t) = true) (hu : holds (s.pc u) = true) : t = u := by
  have a := (inv.holder_iff t).2 ht
  have b := (inv.holder_iff u).2 hu
  rw [a] at b; exact Option.some.inj b

theorem inv_init (proc : Nat → Nat) (n0 : Nat) : Inv proc n0 (init n0) where
  holder_iff := by intro t; simp [init, holds]
  owns_table := by intro t h; simp [init, owns] at h
  owner_unique := by intro t u h; simp [init, owns] at h
  table_owner := by intro p h; simp [init] at h
  seeked_len := by intro t i h; simp [init] at h
  written_at := by intro t i h; simp [init, wroteAt] at h
  writers := ⟨[], by simp [init], List.nodup_nil, by intro t; simp [init, wroteAt]⟩

theorem writeRec_at_end (recs : List (Option Nat)) (t : Nat) :
    writeRec recs recs.length t = recs ++ [some t] := by
  simp [writeRec]

/-- every atomic step preserves the invariant. -/
theorem inv_step (proc : Nat → Nat) (n0 : Nat) (s s' : Sys) (t : Nat)
    (inv : Inv proc n0 s) (h : step proc true s t = some s') : Inv proc n0 s' := by
  unfold step at h
  cases hpc : s.pc t with
  | start =>
    rw [hpc] at h
    by_cases htab : s.table (proc t) = true
    · -- lockFD fails: the call returns ErrPttLock
      simp only [htab, if_true, Option.some.injEq] at h
      subst h
      have same : ∀ u, holds (setPc s t .doneErr u) = holds (s.pc u) ∧ owns (setPc s t .doneErr u) = owns (s.pc u)
          ∧ wroteAt (setPc s t .doneErr u) = wroteAt (s.pc u) := by
        intro u
        by_cases hu : u = t
        · subst hu; simp [hpc, holds, owns, wroteAt]
        · simp [setPc_other _ _ _ _ hu]
      refine ⟨?_, ?_, ?_, ?_, ?_, ?_, ?_⟩
      · intro u; simp only []; rw [(same u).1]; exact inv.holder_iff u
      · intro u; simp only []; rw [(same u).2.1]; exact inv.owns_table u
      · intro u v; simp only []; rw [(same u).2.1, (same v).2.1]; exact inv.owner_unique u v
      · intro p hp
        obtain ⟨w, hw1, hw2⟩ := inv.table_owner p hp
        exact ⟨w, hw1, by simp only []; rw [(same w).2.1]; exact hw2⟩
      · intro u i hu
        by_cases hut : u = t
        · subst hut; simp at hu
        · simp only [setPc_other _ _ _ _ hut] at hu; exact inv.seeked_len u i hu
      · intro u i hu; simp only [] at hu; rw [(same u).2.2] at hu; exact inv.written_at u i hu
      · obtain ⟨ws, h1, h2, h3⟩ := inv.writers
        exact ⟨ws, h1, h2, by intro u; simp only []; rw [(same u).2.2]; exact h3 u⟩
    · -- lockFD succeeds: the table entry is inserted
      have htab' : s.table (proc t) = false := by simpa using htab
      simp only [htab', Bool.false_eq_true, if_false, Option.some.injEq] at h
      subst h
      have hh : ∀ u, holds (setPc s t .wantFlock u) = holds (s.pc u) ∧ wroteAt (setPc s t .wantFlock u) = wroteAt (s.pc u) := by
        intro u
        by_cases hu : u = t
        · subst hu; simp [hpc, holds, wroteAt]
        · simp [setPc_other _ _ _ _ hu]
      refine ⟨?_, ?_, ?_, ?_, ?_, ?_, ?_⟩
      · intro u; simp only []; rw [(hh u).1]; exact inv.holder_iff u
      · intro u hu
        simp only [setTable]
        by_cases hp : proc u = proc t
        · simp [hp]
        · simp only [hp, if_false]
          have hut : u ≠ t := fun e => hp (by rw [e])
          simp only [setPc_other _ _ _ _ hut] at hu
          exact inv.owns_table u hu
      · intro u v hu hv hp
        simp only [] at hu hv
        by_cases hut : u = t
        · by_cases hvt : v = t
          · rw [hut, hvt]
          · exfalso
            rw [setPc_other _ _ _ _ hvt] at hv
            have := inv.owns_table v hv
            rw [← hp, hut] at this; rw [this] at htab'; exact absurd htab' (by simp)
        · by_cases hvt : v = t
          · exfalso
            rw [setPc_other _ _ _ _ hut] at hu
            have := inv.owns_table u hu
            rw [hp, hvt] at this; rw [this] at htab'; exact absurd htab' (by simp)
          · rw [setPc_other _ _ _ _ hut] at hu; rw [setPc_other _ _ _ _ hvt] at hv
            exact inv.owner_unique u v hu hv hp
      · intro p hp
        simp only [setTable] at hp
        by_cases hpt : p = proc t
        · exact ⟨t, hpt.symm, by simp [owns]⟩
        · simp only [hpt, if_false] at hp
          obtain ⟨w, hw1, hw2⟩ := inv.table_owner p hp
          have hwt : w ≠ t := fun e => hpt (by rw [← hw1, e])
          exact ⟨w, hw1, by simp only [setPc_other _ _ _ _ hwt]; exact hw2⟩
      · intro u i hu
        by_cases hut : u = t
        · subst hut; simp at hu
        · simp only [setPc_other _ _ _ _ hut] at hu; exact inv.seeked_len u i hu
      · intro u i hu; simp only [] at hu; rw [(hh u).2] at hu; exact inv.written_at u i hu
      · obtain ⟨ws, h1, h2, h3⟩ := inv.writers
        exact ⟨ws, h1, h2, by intro u; simp only []; rw [(hh u).2]; exact h3 u⟩
  | wantFlock =>
    rw [hpc] at h
    cases hhold : s.holder with
    | some x => rw [hhold] at h; simp at h
    | none =>
      rw [hhold] at h
      simp only [Option.some.injEq] at h
      subst h
      have nobody : ∀ u, holds (s.pc u) = false := by
        intro u
        cases hb : holds (s.pc u) with
        | false => rfl
        | true => have := (inv.holder_iff u).2 hb; rw [hhold] at this; simp at this
      have hh : ∀ u, owns (setPc s t .haveLock u) = owns (s.pc u) ∧ wroteAt (setPc s t .haveLock u) = wroteAt (s.pc u) := by
        intro u
        by_cases hu : u = t
        · subst hu; simp [hpc, owns, wroteAt]
        · simp [setPc_other _ _ _ _ hu]
      refine ⟨?_, ?_, ?_, ?_, ?_, ?_, ?_⟩
      · intro u
        simp only []
        by_cases hu : u = t
        · subst hu; simp [holds]
        · rw [setPc_other _ _ _ _ hu, nobody u]
          constructor
          · intro e; exact absurd (Option.some.inj e).symm hu
          · intro e; simp at e
      · intro u; simp only []; rw [(hh u).1]; exact inv.owns_table u
      · intro u v; simp only []; rw [(hh u).1, (hh v).1]; exact inv.owner_unique u v
      · intro p hp
        obtain ⟨w, hw1, hw2⟩ := inv.table_owner p hp
        exact ⟨w, hw1, by simp only []; rw [(hh w).1]; exact hw2⟩
      · intro u i hu
        by_cases hut : u = t
        · subst hut; simp at hu
        · simp only [setPc_other _ _ _ _ hut] at hu; exact inv.seeked_len u i hu
      · intro u i hu; simp only [] at hu; rw [(hh u).2] at hu; exact inv.written_at u i hu
      · obtain ⟨ws, h1, h2, h3⟩ := inv.writers
        exact ⟨ws, h1, h2, by intro u; simp only []; rw [(hh u).2]; exact h3 u⟩
  | haveLock =>
    rw [hpc] at h
    simp only [Option.some.injEq] at h
    subst h
    have hh : ∀ u, holds (setPc s t (.seeked s.recs.length) u) = holds (s.pc u)
        ∧ owns (setPc s t (.seeked s.recs.length) u) = owns (s.pc u)
        ∧ wroteAt (setPc s t (.seeked s.recs.length) u) = wroteAt (s.pc u) := by
      intro u
      by_cases hu : u = t
      · subst hu; simp [hpc, holds, owns, wroteAt]
      · simp [setPc_other _ _ _ _ hu]
    refine ⟨?_, ?_, ?_, ?_, ?_, ?_, ?_⟩
    · intro u; simp only []; rw [(hh u).1]; exact inv.holder_iff u
    · intro u; simp only []; rw [(hh u).2.1]; exact inv.owns_table u
    · intro u v; simp only []; rw [(hh u).2.1, (hh v).2.1]; exact inv.owner_unique u v
    · intro p hp
      obtain ⟨w, hw1, hw2⟩ := inv.table_owner p hp
      exact ⟨w, hw1, by simp only []; rw [(hh w).2.1]; exact hw2⟩
    · intro u i hu
      by_cases hut : u = t
      · subst hut; simp at hu; exact hu.symm
      · simp only [setPc_other _ _ _ _ hut] at hu; exact inv.seeked_len u i hu
    · intro u i hu; simp only [] at hu; rw [(hh u).2.2] at hu; exact inv.written_at u i hu
    · obtain ⟨ws, h1, h2, h3⟩ := inv.writers
      exact ⟨ws, h1, h2, by intro u; simp only []; rw [(hh u).2.2]; exact h3 u⟩
  | seeked i =>
    rw [hpc] at h
    simp only [Option.some.injEq] at h
    subst h
    have hi : i = s.recs.length := inv.seeked_len t i hpc
    subst hi
    have htholds : holds (s.pc t) = true := by rw [hpc]; rfl
    have hh : ∀ u, holds (setPc s t (.written s.recs.length) u) = holds (s.pc u)
        ∧ owns (setPc s t (.written s.recs.length) u) = owns (s.pc u) := by
      intro u
      by_cases hu : u = t
      · subst hu; simp [hpc, holds, owns]
      · simp [setPc_other _ _ _ _ hu]
    refine ⟨?_, ?_, ?_, ?_, ?_, ?_, ?_⟩
    · intro u; simp only []; rw [(hh u).1]; exact inv.holder_iff u
    · intro u; simp only []; rw [(hh u).2]; exact inv.owns_table u
    · intro u v; simp only []; rw [(hh u).2, (hh v).2]; exact inv.owner_unique u v
    · intro p hp
      obtain ⟨w, hw1, hw2⟩ := inv.table_owner p hp
      exact ⟨w, hw1, by simp only []; rw [(hh w).2]; exact hw2⟩
    · intro u j hu
      by_cases hut : u = t
      · subst hut; simp at hu
      · exfalso
        simp only [setPc_other _ _ _ _ hut] at hu
        have : holds (s.pc u) = true := by rw [hu]; rfl
        exact hut (holds_unique inv u t this htholds)
    · intro u j hu
      simp only [writeRec_at_end]
      by_cases hut : u = t
      · subst hut
        simp [wroteAt] at hu
        subst hu; simp
      · simp only [setPc_other _ _ _ _ hut] at hu
        have old := inv.written_at u j hu
        have hj : j < s.recs.length := by
          rcases Nat.lt_or_ge j s.recs.length with h | h
          · exact h
          · rw [List.getElem?_eq_none h] at old; simp at old
        rw [List.getElem?_append_left hj]; exact old
    · obtain ⟨ws, h1, h2, h3⟩ := inv.writers
      have htn : t ∉ ws := by
        intro hm
        have := (h3 t).1 hm
        rw [hpc] at this; simp [wroteAt] at this
      refine ⟨ws ++ [t], ?_, ?_, ?_⟩
      · simp only [writeRec_at_end]; rw [h1]; simp
      · rw [List.nodup_append]
        refine ⟨h2, by simp, ?_⟩
        intro a ha b hb
        simp at hb; subst hb
        intro e; subst e; exact htn ha
      · intro u
        by_cases hut : u = t
        · subst hut; simp [wroteAt]
        · simp only [setPc_other _ _ _ _ hut, List.mem_append, List.mem_singleton, hut, or_false]
          exact h3 u
  | written i =>
    rw [hpc] at h
    simp only [Option.some.injEq] at h
    subst h
    have htholds : holds (s.pc t) = true := by rw [hpc]; rfl
    have hh : ∀ u, owns (setPc s t (.unlocked i) u) = owns (s.pc u)
        ∧ wroteAt (setPc s t (.unlocked i) u) = wroteAt (s.pc u) := by
      intro u
      by_cases hu : u = t
      · subst hu; simp [hpc, owns, wroteAt]
      · simp [setPc_other _ _ _ _ hu]
    refine ⟨?_, ?_, ?_, ?_, ?_, ?_, ?_⟩
    · intro u
      simp only []
      by_cases hu : u = t
      · subst hu; simp [holds]
      · rw [setPc_other _ _ _ _ hu]
        constructor
        · intro e; simp at e
        · intro e; exact absurd (holds_unique inv u t e htholds) hu
    · intro u; simp only []; rw [(hh u).1]; exact inv.owns_table u
    · intro u v; simp only []; rw [(hh u).1, (hh v).1]; exact inv.owner_unique u v
    · intro p hp
      obtain ⟨w, hw1, hw2⟩ := inv.table_owner p hp
      exact ⟨w, hw1, by simp only []; rw [(hh w).1]; exact hw2⟩
    · intro u j hu
      by_cases hut : u = t
      · subst hut; simp at hu
      · simp only [setPc_other _ _ _ _ hut] at hu; exact inv.seeked_len u j hu
    · intro u j hu; simp only [] at hu; rw [(hh u).2] at hu; exact inv.written_at u j hu
    · obtain ⟨ws, h1, h2, h3⟩ := inv.writers
      exact ⟨ws, h1, h2, by intro u; simp only []; rw [(hh u).2]; exact h3 u⟩
  | unlocked i =>
    rw [hpc] at h
    simp only [Option.some.injEq] at h
    subst h
    have htowns : owns (s.pc t) = true := by rw [hpc]; rfl
    have hh : ∀ u, holds (setPc s t (.doneOk i) u) = holds (s.pc u)
        ∧ wroteAt (setPc s t (.doneOk i) u) = wroteAt (s.pc u) := by
      intro u
      by_cases hu : u = t
      · subst hu; simp [hpc, holds, wroteAt]
      · simp [setPc_other _ _ _ _ hu]
    refine ⟨?_, ?_, ?_, ?_, ?_, ?_, ?_⟩
    · intro u; simp only []; rw [(hh u).1]; exact inv.holder_iff u
    · intro u hu
      simp only [] at hu
      have hut : u ≠ t := by intro e; subst e; simp [owns] at hu
      rw [setPc_other _ _ _ _ hut] at hu
      have hp : proc u ≠ proc t := fun e => hut (inv.owner_unique u t hu htowns e)
      simp only [setTable, hp, if_false]
      exact inv.owns_table u hu
    · intro u v hu hv hp
      simp only [] at hu hv
      have hut : u ≠ t := by intro e; subst e; simp [owns] at hu
      have hvt : v ≠ t := by intro e; subst e; simp [owns] at hv
      rw [setPc_other _ _ _ _ hut] at hu; rw [setPc_other _ _ _ _ hvt] at hv
      exact inv.owner_unique u v hu hv hp
    · intro p hp
      simp only [setTable] at hp
      by_cases hpt : p = proc t
      · simp [hpt] at hp
      · simp only [hpt, if_false] at hp
        obtain ⟨w, hw1, hw2⟩ := inv.table_owner p hp
        have hwt : w ≠ t := fun e => hpt (by rw [← hw1, e])
        exact ⟨w, hw1, by simp only [setPc_other _ _ _ _ hwt]; exact hw2⟩
    · intro u j hu
      by_cases hut : u = t
      · subst hut; simp at hu
      · simp only [setPc_other _ _ _ _ hut] at hu; exact inv.seeked_len u j hu
    · intro u j hu; simp only [] at hu; rw [(hh u).2] at hu; exact inv.written_at u j hu
    · obtain ⟨ws, h1, h2, h3⟩ := inv.writers
      exact ⟨ws, h1, h2, by intro u; simp only []; rw [(hh u).2]; exact h3 u⟩
  | doneOk i => rw [hpc] at h; simp at h
  | doneErr => rw [hpc] at h; simp at h
  | doneFail => rw [hpc] at h; simp at h
  | bodyFailed =>
    -- the deferred GoFunlock releases the flock
    rw [hpc] at h
    simp only [Option.some.injEq] at h
    subst h
    have htholds : holds (s.pc t) = true := by rw [hpc]; rfl
    have hh : ∀ u, owns (setPc s t .unlockedErr u) = owns (s.pc u)
        ∧ wroteAt (setPc s t .unlockedErr u) = wroteAt (s.pc u) := by
      intro u
      by_cases hu : u = t
      · subst hu; simp [hpc, owns, wroteAt]
      · simp [setPc_other _ _ _ _ hu]
    refine ⟨?_, ?_, ?_, ?_, ?_, ?_, ?_⟩
    · intro u
      simp only []
      by_cases hu : u = t
      · subst hu; simp [holds]
      · rw [setPc_other _ _ _ _ hu]
        constructor
        · intro e; simp at e
        · intro e; exact absurd (holds_unique inv u t e htholds) hu
    · intro u; simp only []; rw [(hh u).1]; exact inv.owns_table u
    · intro u v; simp only []; rw [(hh u).1, (hh v).1]; exact inv.owner_unique u v
    · intro p hp
      obtain ⟨w, hw1, hw2⟩ := inv.table_owner p hp
      exact ⟨w, hw1, by simp only []; rw [(hh w).1]; exact hw2⟩
    · intro u j hu
      by_cases hut : u = t
      · subst hut; simp at hu
      · simp only [setPc_other _ _ _ _ hut] at hu; exact inv.seeked_len u j hu
    · intro u j hu; simp only [] at hu; rw [(hh u).2] at hu; exact inv.written_at u j hu
    · obtain ⟨ws, h1, h2, h3⟩ := inv.writers
      exact ⟨ws, h1, h2, by intro u; simp only []; rw [(hh u).2]; exact h3 u⟩
  | unlockedErr =>
    -- unlockFD, then the call returns the error of the seek / write
    rw [hpc] at h
    simp only [Option.some.injEq] at h
    subst h
    have htowns : owns (s.pc t) = true := by rw [hpc]; rfl
    have hh : ∀ u, holds (setPc s t .doneFail u) = holds (s.pc u)
        ∧ wroteAt (setPc s t .doneFail u) = wroteAt (s.pc u) := by
      intro u
      by_cases hu : u = t
      · subst hu; simp [hpc, holds, wroteAt]
      · simp [setPc_other _ _ _ _ hu]
    refine ⟨?_, ?_, ?_, ?_, ?_, ?_, ?_⟩
    · intro u; simp only []; rw [(hh u).1]; exact inv.holder_iff u
    · intro u hu
      simp only [] at hu
      have hut : u ≠ t := by intro e; subst e; simp [owns] at hu
      rw [setPc_other _ _ _ _ hut] at hu
      have hp : proc u ≠ proc t := fun e => hut (inv.owner_unique u t hu htowns e)
      simp only [setTable, hp, if_false]
      exact inv.owns_table u hu
    · intro u v hu hv hp
      simp only [] at hu hv
      have hut : u ≠ t := by intro e; subst e; simp [owns] at hu
      have hvt : v ≠ t := by intro e; subst e; simp [owns] at hv
      rw [setPc_other _ _ _ _ hut] at hu; rw [setPc_other _ _ _ _ hvt] at hv
      exact inv.owner_unique u v hu hv hp
    · intro p hp
      simp only [setTable] at hp
      by_cases hpt : p = proc t
      · simp [hpt] at hp
      · simp only [hpt, if_false] at hp
        obtain ⟨w, hw1, hw2⟩ := inv.table_owner p hp
        have hwt : w ≠ t := fun e => hpt (by rw [← hw1, e])
        exact ⟨w, hw1, by simp only [setPc_other _ _ _ _ hwt]; exact hw2⟩
    · intro u j hu
      by_cases hut : u = t
      · subst hut; simp at hu
      · simp only [setPc_other _ _ _ _ hut] at hu; exact inv.seeked_len u j hu
    · intro u j hu; simp only [] at hu; rw [(hh u).2] at hu; exact inv.written_at u j hu
    · obtain ⟨ws, h1, h2, h3⟩ := inv.writers
      exact ⟨ws, h1, h2, by intro u; simp only []; rw [(hh u).2]; exact h3 u⟩
  | lockFailed =>
    -- the lock function removes the key again and returns the kernel's error
    rw [hpc] at h
    simp only [if_true, Option.some.injEq] at h
    subst h
    have htowns : owns (s.pc t) = true := by rw [hpc]; rfl
    have hh : ∀ u, holds (setPc s t .doneErr u) = holds (s.pc u)
        ∧ wroteAt (setPc s t .doneErr u) = wroteAt (s.pc u) := by
      intro u
      by_cases hu : u = t
      · subst hu; simp [hpc, holds, wroteAt]
      · simp [setPc_other _ _ _ _ hu]
    refine ⟨?_, ?_, ?_, ?_, ?_, ?_, ?_⟩
    · intro u; simp only []; rw [(hh u).1]; exact inv.holder_iff u
    · intro u hu
      simp only [] at hu
      have hut : u ≠ t := by intro e; subst e; simp [owns] at hu
      rw [setPc_other _ _ _ _ hut] at hu
      have hp : proc u ≠ proc t := fun e => hut (inv.owner_unique u t hu htowns e)
      simp only [setTable, hp, if_false]
      exact inv.owns_table u hu
    · intro u v hu hv hp
      simp only [] at hu hv
      have hut : u ≠ t := by intro e; subst e; simp [owns] at hu
      have hvt : v ≠ t := by intro e; subst e; simp [owns] at hv
      rw [setPc_other _ _ _ _ hut] at hu; rw [setPc_other _ _ _ _ hvt] at hv
      exact inv.owner_unique u v hu hv hp
    · intro p hp
      simp only [setTable] at hp
      by_cases hpt : p = proc t
      · simp [hpt] at hp
      · simp only [hpt, if_false] at hp
        obtain ⟨w, hw1, hw2⟩ := inv.table_owner p hp
        have hwt : w ≠ t := fun e => hpt (by rw [← hw1, e])
        exact ⟨w, hw1, by simp only [setPc_other _ _ _ _ hwt]; exact hw2⟩
    · intro u j hu
      by_cases hut : u = t
      · subst hut; simp at hu
      · simp only [setPc_other _ _ _ _ hut] at hu; exact inv.seeked_len u j hu
    · intro u j hu; simp only [] at hu; rw [(hh u).2] at hu; exact inv.written_at u j hu
    · obtain ⟨ws, h1, h2, h3⟩ := inv.writers
      exact ⟨ws, h1, h2, by intro u; simp only []; rw [(hh u).2]; exact h3 u⟩

/-- a failing system call preserves the invariant: the thread keeps what it owns and holds, and has
written nothing. -/
theorem inv_fail (proc : Nat → Nat) (n0 : Nat) (s s' : Sys) (t : Nat)
    (inv : Inv proc n0 s) (h : failStep s t = some s') : Inv proc n0 s' := by
  -- in each enabled case the new pc `q` has the same holds / owns / wroteAt as the old one
  have key : ∀ q : PC, holds q = holds (s.pc t) → owns q = owns (s.pc t) → wroteAt q = wroteAt (s.pc t) →
      (∀ i, q ≠ .seeked i) → Inv proc n0 { s with pc := setPc s t q } := by
    intro q h1 h2 h3 h4
    have hh : ∀ u, holds (setPc s t q u) = holds (s.pc u) ∧ owns (setPc s t q u) = owns (s.pc u)
        ∧ wroteAt (setPc s t q u) = wroteAt (s.pc u) := by
      intro u
      by_cases hu : u = t
      · subst hu; simp [h1, h2, h3]
      · simp [setPc_other _ _ _ _ hu]
    refine ⟨?_, ?_, ?_, ?_, ?_, ?_, ?_⟩
    · intro u; simp only []; rw [(hh u).1]; exact inv.holder_iff u
    · intro u; simp only []; rw [(hh u).2.1]; exact inv.owns_table u
    · intro u v; simp only []; rw [(hh u).2.1, (hh v).2.1]; exact inv.owner_unique u v
    · intro p hp
      obtain ⟨w, hw1, hw2⟩ := inv.table_owner p hp
      exact ⟨w, hw1, by simp only []; rw [(hh w).2.1]; exact hw2⟩
    · intro u i hu
      by_cases hut : u = t
      · subst hut; simp at hu; exact absurd hu (h4 i)
      · simp only [setPc_other _ _ _ _ hut] at hu; exact inv.seeked_len u i hu
    · intro u i hu; simp only [] at hu; rw [(hh u).2.2] at hu; exact inv.written_at u i hu
    · obtain ⟨ws, h1', h2', h3'⟩ := inv.writers
      exact ⟨ws, h1', h2', by intro u; simp only []; rw [(hh u).2.2]; exact h3' u⟩
  unfold failStep at h
  cases hpc : s.pc t <;> rw [hpc] at h <;> simp only [Option.some.injEq, reduceCtorEq] at h
  · subst h; exact key .lockFailed (by simp [hpc, holds]) (by simp [hpc, owns]) (by simp [hpc, wroteAt]) (by simp)
  · subst h; exact key .bodyFailed (by simp [hpc, holds]) (by simp [hpc, owns]) (by simp [hpc, wroteAt]) (by simp)
  · subst h; exact key .bodyFailed (by simp [hpc, holds]) (by simp [hpc, owns]) (by simp [hpc, wroteAt]) (by simp)

theorem reachable_inv (proc : Nat → Nat) (n0 : Nat) (s : Sys) (h : Reachable proc true n0 s) : Inv proc n0 s := by
  induction h with
  | init => exact inv_init proc n0
  | step t _ hs ih => exact inv_step proc n0 _ _ t ih hs
  | fail t _ hs ih => exact inv_fail proc n0 _ _ t ih hs

/-! ### descriptor numbers, other lock users, fallback writers -/

/-- in the disciplined system flock(LOCK_UN) of an appender is always on a description that holds the lock. -/
theorem funlockStep_eq {proc : Nat → Nat} {n0 : Nat} {s : Sys} (inv : Inv proc n0 s) (t : Nat) :
    funlockStep proc true s t = step proc true s t := by
  unfold funlockStep
  split
  · rename_i i hpc
    have : s.holder = some t := (inv.holder_iff t).2 (by rw [hpc]; rfl)
    simp [this]
  · rename_i hpc
    have : s.holder = some t := (inv.holder_iff t).2 (by rw [hpc]; rfl)
    simp [this]
  · rfl

/-- what the discipline gives: every number an open file was given still names that file's description;
no lock user is left with an unlock pending on a closed file; no fallback write has started. -/
structure XInv (proc procU : Nat → Nat) (x : XSys) : Prop where
  app_names : ∀ t n, x.appFd t = some n → x.names (proc t) n = some (.app t)
  usr_names : ∀ u n, (x.upc u = .opened n ∨ x.upc u = .unlocked n) → x.names (procU u) n = some (.usr u)
  no_closed : ∀ u n, x.upc u ≠ .closed n
  byp_idle : ∀ t, x.byp t = .idle

theorem xinv_init (proc procU : Nat → Nat) (n0 : Nat) : XInv proc procU (xinit n0) where
  app_names := by intro t n h; simp [xinit] at h
  usr_names := by intro u n h; simp [xinit] at h
  no_closed := by intro u n; simp [xinit]
  byp_idle := by intro t; rfl

theorem setName_other (x : XSys) (p n q m : Nat) (o : Option Owner) (h : ¬ (q = p ∧ m = n)) :
    setName x p n o q m = x.names q m := by
  simp [setName, h]

theorem setName_same (x : XSys) (p n : Nat) (o : Option Owner) : setName x p n o p n = o := by
  simp [setName]

/-- a disciplined step keeps `XInv`, and changes the appenders' system only by one of their own
atomic steps (or not at all). -/
theorem xstep_disciplined (proc procU : Nat → Nat) (n0 : Nat) (x x' : XSys) (a : XAct)
    (xi : XInv proc procU x) (r : Reachable proc true n0 x.sys)
    (h : xstep proc procU true disciplined x a = some x') :
    XInv proc procU x' ∧ Reachable proc true n0 x'.sys := by
  cases a with
  | st t =>
    simp only [xstep] at h
    split at h
    · rw [funlockStep_eq (reachable_inv proc n0 _ r) t] at h
      cases hs : step proc true x.sys t with
      | none => rw [hs] at h; simp at h
      | some s' =>
        rw [hs] at h; simp only [Option.map_some, Option.some.injEq] at h; subst h
        exact ⟨⟨xi.app_names, xi.usr_names, xi.no_closed, xi.byp_idle⟩, .step t r hs⟩
    · simp at h
  | fl t =>
    simp only [xstep] at h
    split at h
    · cases hs : failStep x.sys t with
      | none => rw [hs] at h; simp at h
      | some s' =>
        rw [hs] at h; simp only [Option.map_some, Option.some.injEq] at h; subst h
        exact ⟨⟨xi.app_names, xi.usr_names, xi.no_closed, xi.byp_idle⟩, .fail t r hs⟩
    · simp at h
  | aopen t n =>
    simp only [xstep] at h
    split at h
    · rename_i g
      obtain ⟨_, g2, g3⟩ := g
      simp only [Option.some.injEq] at h; subst h
      refine ⟨⟨?_, ?_, xi.no_closed, xi.byp_idle⟩, r⟩
      · intro u m hu
        simp only [] at hu ⊢
        by_cases hut : u = t
        · subst hut; simp at hu; subst hu; exact setName_same _ _ _ _
        · simp only [hut, if_false] at hu
          have old := xi.app_names u m hu
          rw [setName_other]; exact old
          intro ⟨e1, e2⟩; rw [e1, e2, g3] at old; simp at old
      · intro u m hu
        have old := xi.usr_names u m hu
        simp only []
        rw [setName_other]; exact old
        intro ⟨e1, e2⟩; rw [e1, e2, g3] at old; simp at old
    · simp at h
  | aclose t =>
    simp only [xstep] at h
    split at h
    · rename_i n hfd
      split at h
      · simp only [Option.some.injEq] at h; subst h
        have mine := xi.app_names t n hfd
        refine ⟨⟨?_, ?_, xi.no_closed, xi.byp_idle⟩, r⟩
        · intro u m hu
          simp only [] at hu ⊢
          by_cases hut : u = t
          · subst hut; simp at hu
          · simp only [hut, if_false] at hu
            have old := xi.app_names u m hu
            rw [setName_other]; exact old
            intro ⟨e1, e2⟩; rw [e1, e2, mine] at old
            simp only [Option.some.injEq, Owner.app.injEq] at old; exact hut old.symm
        · intro u m hu
          have old := xi.usr_names u m hu
          simp only []
          rw [setName_other]; exact old
          intro ⟨e1, e2⟩; rw [e1, e2, mine] at old; simp at old
      · simp at h
    · simp at h
  | bread t =>
    simp only [xstep, disciplined] at h
    simp at h
  | bstore t =>
    simp only [xstep] at h
    have := xi.byp_idle t
    rw [this] at h; simp at h
  | uopen u n =>
    simp only [xstep] at h
    split at h
    · rename_i g
      obtain ⟨_, g2⟩ := g
      simp only [Option.some.injEq] at h; subst h
      refine ⟨⟨?_, ?_, ?_, xi.byp_idle⟩, r⟩
      · intro t m ht
        have old := xi.app_names t m ht
        simp only []
        rw [setName_other]; exact old
        intro ⟨e1, e2⟩; rw [e1, e2, g2] at old; simp at old
      · intro v m hv
        simp only [] at hv ⊢
        by_cases hvu : v = u
        · subst hvu; simp at hv; subst hv; exact setName_same _ _ _ _
        · simp only [hvu, if_false] at hv
          have old := xi.usr_names v m hv
          rw [setName_other]; exact old
          intro ⟨e1, e2⟩; rw [e1, e2, g2] at old; simp at old
      · intro v m
        simp only []
        by_cases hvu : v = u
        · subst hvu; simp
        · simp only [hvu, if_false]; exact xi.no_closed v m
    · simp at h
  | uunlock u =>
    simp only [xstep, disciplined] at h
    split at h
    · rename_i n hpc
      simp only [Bool.false_eq_true, if_false, Option.some.injEq] at h
      have mine := xi.usr_names u n (Or.inl hpc)
      have same : unlockNum x (procU u) n = x := by simp [unlockNum, mine]
      rw [same] at h; subst h
      refine ⟨⟨xi.app_names, ?_, ?_, xi.byp_idle⟩, r⟩
      · intro v m hv
        simp only [] at hv ⊢
        by_cases hvu : v = u
        · subst hvu; simp at hv; subst hv; exact mine
        · simp only [hvu, if_false] at hv; exact xi.usr_names v m hv
      · intro v m
        simp only []
        by_cases hvu : v = u
        · subst hvu; simp
        · simp only [hvu, if_false]; exact xi.no_closed v m
    · rename_i n hpc; exact absurd hpc (xi.no_closed u n)
    · simp at h
  | uclose u =>
    simp only [xstep, disciplined] at h
    split at h
    · simp at h
    · rename_i n hpc
      simp only [Option.some.injEq] at h; subst h
      have mine := xi.usr_names u n (Or.inr hpc)
      refine ⟨⟨?_, ?_, ?_, xi.byp_idle⟩, r⟩
      · intro t m ht
        have old := xi.app_names t m ht
        simp only []
        rw [setName_other]; exact old
        intro ⟨e1, e2⟩; rw [e1, e2, mine] at old; simp at old
      · intro v m hv
        simp only [] at hv ⊢
        by_cases hvu : v = u
        · subst hvu; simp at hv
        · simp only [hvu, if_false] at hv
          have old := xi.usr_names v m hv
          rw [setName_other]; exact old
          intro ⟨e1, e2⟩; rw [e1, e2, mine] at old
          simp only [Option.some.injEq, Owner.usr.injEq] at old; exact hvu old.symm
      · intro v m
        simp only []
        by_cases hvu : v = u
        · subst hvu; simp
        · simp only [hvu, if_false]; exact xi.no_closed v m
    · simp at h

theorem xreachable_disciplined (proc procU : Nat → Nat) (n0 : Nat) (x : XSys)
    (h : XReachable proc procU true disciplined n0 x) : XInv proc procU x ∧ Reachable proc true n0 x.sys := by
  induction h with
  | init => exact ⟨xinv_init proc procU n0, .init⟩
  | step a _ hs ih => exact xstep_disciplined proc procU n0 _ _ a ih.1 ih.2 hs

end PttVerif.C14
