import PttVerif.Model.C20
/-
Helper lemmas for Props/C20.lean.
-/
namespace PttVerif.C20
open PttVerif

/-! ### int32 and its little-endian image -/

theorem wrap32_of_int32 (i : Int) (h : Int32 i) : wrap32 i = i := by
  unfold Int32 at h
  unfold wrap32
  simp only [Int.ofNat_eq_natCast, Int.negSucc_eq]
  split <;> omega

theorem le32_length (v : Int) : (le32 v).length = 4 := by simp [le32]

theorem bytes_recompose (u : Nat) (h : u < 4294967296) :
    u % 256 + 256 * (u / 256 % 256) + 65536 * (u / 65536 % 256) + 16777216 * (u / 16777216 % 256) = u := by
  omega

theorem dec32_le32 (v : Int) (h : Int32 v) : dec32? (le32 v) = some v := by
  unfold Int32 at h
  unfold le32 dec32?
  simp only
  have hu : (v % 4294967296).toNat < 4294967296 := by omega
  rw [bytes_recompose _ hu]
  congr 1
  unfold wrap32
  simp only [Int.ofNat_eq_natCast, Int.negSucc_eq]
  split <;> omega

/-! ### a positioned write into a byte list -/

theorem writeAt_length (f bs : List Nat) (off : Nat) (h : off + bs.length ≤ f.length) :
    (writeAt f off bs).length = f.length := by
  unfold writeAt
  rw [if_pos (by omega)]
  simp only [List.length_append, List.length_take, List.length_drop]
  omega

theorem getElem?_writeAt (f bs : List Nat) (off i : Nat) (h : off + bs.length ≤ f.length) :
    (writeAt f off bs)[i]? = if off ≤ i ∧ i < off + bs.length then bs[i - off]? else f[i]? := by
  unfold writeAt
  rw [if_pos (by omega)]
  have hl : (List.take off f).length = off := by simp; omega
  by_cases h1 : i < off
  · rw [if_neg (by omega), List.append_assoc, List.getElem?_append_left (by omega)]
    simp [h1]
  · by_cases h2 : i < off + bs.length
    · rw [if_pos (by omega), List.append_assoc, List.getElem?_append_right (by omega), hl,
        List.getElem?_append_left (by omega)]
    · rw [if_neg (by omega), List.getElem?_append_right (by simp; omega)]
      simp only [List.length_append, hl, List.getElem?_drop]
      congr 1; omega

theorem slice_getElem? (l : List Nat) (o n i : Nat) :
    ((l.drop o).take n)[i]? = if i < n then l[o + i]? else none := by
  simp [List.getElem?_take, List.getElem?_drop]

theorem slice_writeAt_same (f bs : List Nat) (off : Nat) (h : off + bs.length ≤ f.length) :
    ((writeAt f off bs).drop off).take bs.length = bs := by
  apply List.ext_getElem?
  intro i
  rw [slice_getElem?, getElem?_writeAt _ _ _ _ h]
  by_cases hi : i < bs.length
  · rw [if_pos hi, if_pos (by omega)]; congr 1; omega
  · rw [if_neg hi]; exact (List.getElem?_eq_none (by omega)).symm

theorem slice_writeAt_disjoint (f bs : List Nat) (off o2 n : Nat) (h : off + bs.length ≤ f.length)
    (hd : o2 + n ≤ off ∨ off + bs.length ≤ o2) :
    ((writeAt f off bs).drop o2).take n = (f.drop o2).take n := by
  apply List.ext_getElem?
  intro i
  rw [slice_getElem?, slice_getElem?]
  by_cases hi : i < n
  · rw [if_pos hi, if_pos hi, getElem?_writeAt _ _ _ _ h, if_neg (by omega)]
  · rw [if_neg hi, if_neg hi]

theorem slice_writeAt_inside (f bs : List Nat) (off o n : Nat) (h : off + bs.length ≤ f.length)
    (hin : o + n ≤ bs.length) :
    ((writeAt f off bs).drop (off + o)).take n = (bs.drop o).take n := by
  apply List.ext_getElem?
  intro i
  rw [slice_getElem?, slice_getElem?]
  by_cases hi : i < n
  · rw [if_pos hi, if_pos hi, getElem?_writeAt _ _ _ _ h, if_pos (by omega)]
    congr 1; omega
  · rw [if_neg hi, if_neg hi]

theorem writeAt_cover (f b1 b2 : List Nat) (o1 o2 : Nat) (h1 : o1 + b1.length ≤ f.length)
    (h2 : o2 + b2.length ≤ f.length) (hc : o2 ≤ o1 ∧ o1 + b1.length ≤ o2 + b2.length) :
    writeAt (writeAt f o1 b1) o2 b2 = writeAt f o2 b2 := by
  have hl := writeAt_length f b1 o1 h1
  apply List.ext_getElem?
  intro i
  rw [getElem?_writeAt _ _ _ _ (by rw [hl]; exact h2), getElem?_writeAt _ _ _ _ h2]
  by_cases hi : o2 ≤ i ∧ i < o2 + b2.length
  · rw [if_pos hi, if_pos hi]
  · rw [if_neg hi, if_neg hi, getElem?_writeAt _ _ _ _ h1, if_neg (by omega)]

theorem slice_writeAt_within (f bs : List Nat) (off o n : Nat) (h : o + n ≤ f.length)
    (hin : o ≤ off ∧ off + bs.length ≤ o + n) :
    ((writeAt f off bs).drop o).take n = writeAt ((f.drop o).take n) (off - o) bs := by
  have hsl : ((f.drop o).take n).length = n := by simp; omega
  apply List.ext_getElem?
  intro i
  have hL : (((writeAt f off bs).drop o).take n)[i]? =
      if i < n then (if off ≤ o + i ∧ o + i < off + bs.length then bs[o + i - off]? else f[o + i]?) else none := by
    rw [slice_getElem?, getElem?_writeAt _ _ _ _ (by omega)]
  have hR : (writeAt ((f.drop o).take n) (off - o) bs)[i]? =
      if off - o ≤ i ∧ i < off - o + bs.length then bs[i - (off - o)]? else (if i < n then f[o + i]? else none) := by
    rw [getElem?_writeAt _ _ _ _ (by rw [hsl]; omega), slice_getElem?]
  rw [hL, hR]
  by_cases hi : i < n
  · rw [if_pos hi, if_pos hi]
    by_cases hc : off ≤ o + i ∧ o + i < off + bs.length
    · rw [if_pos hc, if_pos (by omega)]; congr 1; omega
    · rw [if_neg hc, if_neg (by omega)]
  · rw [if_neg hi, if_neg hi, if_neg (by omega)]

/-! ### what the regenerated data says (re-checked by the kernel whenever `Gen/Money.lean` changes) -/

theorem gen_facts :
    Gen.Money.writtenField = "Money" ∧ OFF = Gen.Money.moneyOffset ∧ SZ = Gen.Money.recSize ∧
    Gen.Money.moneyOffset + 4 ≤ Gen.Money.recSize ∧ Gen.Money.moneySize = 4 ∧ 0 < MAX ∧
    Gen.Money.recSize * MAX + Gen.Money.recSize < 9223372036854775808 ∧ MAX ≤ 2147483647 ∧
    Gen.Money.littleEndian = true ∧ Gen.Money.valueBits = 32 := by decide

theorem gen_facts_level :
    Gen.Money.userLevelOffset + 4 ≤ Gen.Money.recSize ∧ Gen.Money.userLevelSize = 4 ∧
    (Gen.Money.userLevelOffset + 4 ≤ Gen.Money.moneyOffset ∨ Gen.Money.moneyOffset + 4 ≤ Gen.Money.userLevelOffset) := by
  decide

theorem uidIsValid_iff (u : Int) : uidIsValid u = true ↔ Valid u := by
  simp [uidIsValid, Valid]

theorem setGuard_iff (u : Int) : rejects Gen.Money.setGuard u = false ↔ Valid u := by
  simp [rejects, Gen.Money.setGuard, cmpOp, Valid, MAX, Gen.Money.maxUsers] <;> omega

theorem deGuard_iff (u : Int) : rejects Gen.Money.deGuard u = false ↔ Valid u := by
  simp [rejects, Gen.Money.deGuard, cmpOp, Valid, MAX, Gen.Money.maxUsers] <;> omega

theorem passwdGuard_iff (u : Int) : rejects Gen.Money.passwdGuard u = false ↔ Valid u := by
  simp [rejects, Gen.Money.passwdGuard, cmpOp, Valid, MAX, Gen.Money.maxUsers] <;> omega

theorem rejects_of_invalid {g : List (Nat × Int)} {u : Int} (h : rejects g u = false ↔ Valid u)
    (hu : ¬ Valid u) : rejects g u = true := by
  cases hr : rejects g u
  · exact absurd (h.1 hr) hu
  · rfl

/-! ### valid slots: index, offset -/

theorem valid_bounds (u : Int) (h : Valid u) : 0 ≤ u - 1 ∧ (u - 1).toNat < MAX ∧ Int32 (u - 1) := by
  have := gen_facts.2.2.2.2.2.2.2.1
  unfold Valid at h; unfold Int32; omega

theorem toIdx_valid (u : Int) (h : Valid u) : toIdx u = u - 1 :=
  wrap32_of_int32 _ (valid_bounds u h).2.2

theorem slot_ne (u v : Int) (hu : Valid u) (hv : Valid v) (h : v ≠ u) : (v - 1).toNat ≠ (u - 1).toNat := by
  unfold Valid at hu hv; omega

theorem seekOffset_valid (u : Int) (h : Valid u) :
    seekOffset (u - 1) = some (SZ * (u - 1).toNat + OFF) := by
  obtain ⟨h0, hk, _⟩ := valid_bounds u h
  obtain ⟨_, ho, hs, hlay, _, _, hbig, _⟩ := gen_facts
  have hmul : SZ * (u - 1).toNat ≤ SZ * MAX := Nat.mul_le_mul_left _ (Nat.le_of_lt hk)
  unfold seekOffset
  have e1 : ((u - 1) % 18446744073709551616).toNat = (u - 1).toNat := by omega
  simp only [e1]
  rw [ho, hs] at *
  have e2 : (Gen.Money.recSize * (u - 1).toNat + Gen.Money.moneyOffset) % 18446744073709551616
      = Gen.Money.recSize * (u - 1).toNat + Gen.Money.moneyOffset := Nat.mod_eq_of_lt (by omega)
  rw [e2, if_pos (by omega)]

/-- the Money field of slot `k < MAX` lies inside a file of `MAX` records. -/
theorem field_inside (k : Nat) (hk : k < MAX) :
    Gen.Money.recSize * k + Gen.Money.moneyOffset + 4 ≤ Gen.Money.recSize * MAX := by
  have hlay := gen_facts.2.2.2.1
  have h1 : Gen.Money.recSize * (k + 1) ≤ Gen.Money.recSize * MAX := Nat.mul_le_mul_left _ hk
  rw [Nat.mul_succ] at h1
  omega

/-- the Money fields of two different records, and a Money field and another whole record, do not meet. -/
theorem blocks_apart (a b : Nat) (h : a ≠ b) :
    Gen.Money.recSize * a + Gen.Money.recSize ≤ Gen.Money.recSize * b ∨
    Gen.Money.recSize * b + Gen.Money.recSize ≤ Gen.Money.recSize * a := by
  rcases Nat.lt_or_gt_of_ne h with h1 | h1
  · left
    have : Gen.Money.recSize * (a + 1) ≤ Gen.Money.recSize * b := Nat.mul_le_mul_left _ h1
    rwa [Nat.mul_succ] at this
  · right
    have : Gen.Money.recSize * (b + 1) ≤ Gen.Money.recSize * a := Nat.mul_le_mul_left _ h1
    rwa [Nat.mul_succ] at this

/-! ### the three functions on a valid / an invalid slot -/

theorem moneyOf_valid (s : State) (u v : Int) (hu : Valid u) (h : shmAt s u = some v) :
    moneyOf s u = .ok v := by
  obtain ⟨h0, hk, _⟩ := valid_bounds u hu
  unfold moneyOf
  simp only [toIdx_valid u hu]
  rw [if_neg (by omega)]
  unfold shmAt at h
  unfold idx
  rw [h]

/-- the state after a successful `SetUMoney(u, m)`. -/
def afterSet (s : State) (f : List Nat) (u m : Int) : State :=
  { shm := s.shm.set (u - 1).toNat m,
    file := some (writeAt f (Gen.Money.recSize * (u - 1).toNat + Gen.Money.moneyOffset) (le32 m)) }

theorem setUMoney_valid (s : State) (f : List Nat) (u m : Int) (hs : s.shm.length = MAX)
    (hf : s.file = some f) (hu : Valid u) :
    setUMoney s u m = (afterSet s f u m, .ok (m, .none)) := by
  obtain ⟨h0, hk, _⟩ := valid_bounds u hu
  obtain ⟨_, ho, hsz, _⟩ := gen_facts
  unfold setUMoney afterSet
  rw [(setGuard_iff u).2 hu]
  simp only [Bool.false_eq_true, if_false, toIdx_valid u hu]
  rw [if_neg (by omega)]
  unfold passwdUpdateMoney
  rw [(passwdGuard_iff u).2 hu]
  simp only [Bool.false_eq_true, if_false, hf, toIdx_valid u hu, seekOffset_valid u hu]
  rw [moneyOf_valid _ u m hu (by unfold shmAt; exact List.getElem?_set_self (by omega))]
  rw [ho, hsz]
  rfl

theorem setUMoney_invalid (s : State) (u m : Int) (hu : ¬ Valid u) :
    setUMoney s u m = (s, .ok (-1, .invalidUID)) := by
  unfold setUMoney
  rw [rejects_of_invalid (setGuard_iff u) hu]
  rfl

theorem deUMoney_invalid (s : State) (u m : Int) (hu : ¬ Valid u) :
    deUMoney s u m = (s, .ok (-1, .invalidUID)) := by
  unfold deUMoney
  rw [rejects_of_invalid (deGuard_iff u) hu]
  rfl

/-- on a valid slot, inside int32, `DeUMoney` is `SetUMoney` of the plain-arithmetic result. -/
theorem deUMoney_valid (s : State) (u m cur : Int) (hu : Valid u) (hc : shmAt s u = some cur)
    (hm : Int32 m) (hmin : m ≠ -2147483648) (hnew : Int32 (deNew cur m)) :
    deUMoney s u m = setUMoney s u (deNew cur m) := by
  unfold deUMoney
  rw [(deGuard_iff u).2 hu]
  simp only [Bool.false_eq_true, if_false, moneyOf_valid s u cur hu hc]
  have hneg : wrap32 (-m) = -m := wrap32_of_int32 _ (by unfold Int32 at *; omega)
  rw [hneg]
  unfold deNew at hnew ⊢
  by_cases hb : m < 0 ∧ cur < -m
  · rw [if_pos hb, if_pos hb]
  · rw [if_neg hb] at hnew
    rw [if_neg hb, if_neg hb, wrap32_of_int32 _ hnew]

/-! ### reading the state after a successful set -/

theorem shmAt_afterSet (s : State) (f : List Nat) (u m v : Int) (hs : s.shm.length = MAX)
    (hu : Valid u) (hv : Valid v) :
    shmAt (afterSet s f u m) v = if v = u then some m else shmAt s v := by
  obtain ⟨_, hk, _⟩ := valid_bounds u hu
  unfold shmAt afterSet
  by_cases h : v = u
  · subst h; rw [if_pos rfl]; exact List.getElem?_set_self (by omega)
  · rw [if_neg h]; exact List.getElem?_set_ne (Ne.symm (slot_ne u v hu hv h))

theorem moneyBytes_afterSet (f : List Nat) (u m v : Int) (hf : f.length = Gen.Money.recSize * MAX)
    (hu : Valid u) (hv : Valid v) :
    moneyBytes (writeAt f (Gen.Money.recSize * (u - 1).toNat + Gen.Money.moneyOffset) (le32 m)) v =
      if v = u then le32 m else moneyBytes f v := by
  obtain ⟨_, hk, _⟩ := valid_bounds u hu
  have hin := field_inside _ hk
  have hlen : Gen.Money.recSize * (u - 1).toNat + Gen.Money.moneyOffset + (le32 m).length ≤ f.length := by
    rw [le32_length, hf]; exact hin
  unfold moneyBytes
  by_cases h : v = u
  · subst h
    rw [if_pos rfl]
    have := slice_writeAt_same f (le32 m) _ hlen
    rwa [le32_length] at this
  · rw [if_neg h]
    apply slice_writeAt_disjoint _ _ _ _ _ hlen
    rw [le32_length]
    have hlay := gen_facts.2.2.2.1
    rcases blocks_apart _ _ (slot_ne u v hu hv h) with h1 | h1 <;> omega

theorem diskAt_afterSet (s : State) (f : List Nat) (u m v : Int) (hf : s.file = some f)
    (hlen : f.length = Gen.Money.recSize * MAX) (hu : Valid u) (hv : Valid v) (hm : Int32 m) :
    diskAt (afterSet s f u m) v = if v = u then some m else diskAt s v := by
  unfold diskAt
  rw [hf]
  simp only [afterSet, Option.bind_some]
  rw [moneyBytes_afterSet f u m v hlen hu hv]
  by_cases h : v = u
  · rw [if_pos h, if_pos h, dec32_le32 m hm]
  · rw [if_neg h, if_neg h]

theorem wf_afterSet (s : State) (f : List Nat) (u m : Int) (hs : s.shm.length = MAX)
    (hlen : f.length = Gen.Money.recSize * MAX) (hu : Valid u) : WF (afterSet s f u m) := by
  obtain ⟨_, hk, _⟩ := valid_bounds u hu
  refine ⟨by simp [afterSet, hs], _, rfl, ?_⟩
  rw [writeAt_length _ _ _ (by rw [le32_length, hlen]; exact field_inside _ hk), hlen]

/-! ### the whole-record write (`ptt.SetUserPerm` → `passwdSyncUpdate` → `cmbbs.PasswdUpdate`) -/

/-- the state after a successful whole-record write of `rec'` to slot `u`. -/
def afterSync (s : State) (f : List Nat) (u : Int) (rec' : List Nat) : State :=
  { s with file := some (writeAt f (Gen.Money.recSize * (u - 1).toNat) rec') }

theorem recSetLevel_length (rec : List Nat) (perm : Nat) (h : rec.length = Gen.Money.recSize) :
    (recSetLevel rec perm).length = Gen.Money.recSize := by
  unfold recSetLevel LOFF
  rw [writeAt_length _ _ _ (by rw [le32_length, h]; exact gen_facts_level.1), h]

theorem recSetMoney_length (rec : List Nat) (v : Int) (h : rec.length = Gen.Money.recSize) :
    (recSetMoney rec v).length = Gen.Money.recSize := by
  unfold recSetMoney MOFF
  rw [writeAt_length _ _ _ (by rw [le32_length, h]; exact gen_facts.2.2.2.1), h]

/-- the Money bytes of a record after `rec.Money = v`. -/
theorem recSetMoney_money (rec : List Nat) (v : Int) (h : rec.length = Gen.Money.recSize) :
    ((recSetMoney rec v).drop Gen.Money.moneyOffset).take 4 = le32 v := by
  unfold recSetMoney MOFF
  have := slice_writeAt_same rec (le32 v) Gen.Money.moneyOffset (by rw [le32_length, h]; exact gen_facts.2.2.2.1)
  rwa [le32_length] at this

/-- every other byte of the record is untouched by `rec.Money = v`. -/
theorem recSetMoney_other (rec : List Nat) (v : Int) (h : rec.length = Gen.Money.recSize) (j : Nat)
    (hj : ¬ (Gen.Money.moneyOffset ≤ j ∧ j < Gen.Money.moneyOffset + 4)) :
    (recSetMoney rec v)[j]? = rec[j]? := by
  unfold recSetMoney MOFF
  rw [getElem?_writeAt _ _ _ _ (by rw [le32_length, h]; exact gen_facts.2.2.2.1), le32_length, if_neg hj]

/-- the order read from the source: the balance is set before the record is written. -/
theorem regOrder_eq : regOrder = ["setMoney", "writeRecord"] := by decide

theorem passwdSyncUpdate_valid (s : State) (f : List Nat) (u v : Int) (rec : List Nat)
    (hf : s.file = some f) (hu : Valid u) (hc : shmAt s u = some v) :
    passwdSyncUpdate s u rec = (afterSync s f u (recSetMoney rec v), .ok .none) := by
  obtain ⟨h0, hk, _⟩ := valid_bounds u hu
  have hv : uidIsValid u = true := (uidIsValid_iff u).2 hu
  unfold passwdSyncUpdate passwdUpdate afterSync
  simp only [hv, Bool.not_true, Bool.false_eq_true, if_false, moneyOf_valid s u v hu hc, hf, toIdx_valid u hu]
  rw [if_neg (by omega)]
  rfl

theorem passwdSyncUpdate_invalid (s : State) (u : Int) (rec : List Nat) (hu : ¬ Valid u) :
    passwdSyncUpdate s u rec = (s, .ok .invalidUID) := by
  have hv : uidIsValid u = false := by
    cases h : uidIsValid u
    · rfl
    · exact absurd ((uidIsValid_iff u).1 h) hu
  unfold passwdSyncUpdate
  simp [hv]

/-- with the order pinned, the tail of `SetupNewUser` is `SetUMoney` followed by `passwdSyncUpdate`. -/
theorem regTail_pinned (s : State) (u m : Int) (rec : List Nat) (x : Int × Err)
    (hx : (setUMoney s u m).2 = .ok x) :
    regTail ["setMoney", "writeRecord"] s u rec m = passwdSyncUpdate (setUMoney s u m).1 u rec := by
  simp only [regTail, hx, if_true]
  simp only [show ("writeRecord" = "setMoney") = False from by decide, if_false]
  unfold passwdSyncUpdate
  split
  · rfl
  · split
    · rfl
    · rename_i v hv
      simp only
      split
      · rfl
      · rename_i h
        have : (passwdUpdate (setUMoney s u m).1 u (recSetMoney rec v)).2 = Err.none := by
          simpa using h
        rw [this]

/-- the state after an accepted registration at slot `u`. -/
def afterNew (s : State) (f : List Nat) (u : Int) (rec : List Nat) (m : Int) : State :=
  { shm := s.shm.set (u - 1).toNat m,
    file := some (writeAt f (Gen.Money.recSize * (u - 1).toNat) (recSetMoney rec m)) }

theorem newuser_valid (s : State) (f : List Nat) (u m : Int) (rec : List Nat) (hs : s.shm.length = MAX)
    (hf : s.file = some f) (hlen : f.length = Gen.Money.recSize * MAX) (hr : rec.length = Gen.Money.recSize)
    (hu : Valid u) :
    regTail regOrder s u rec m = (afterNew s f u rec m, .ok .none) := by
  obtain ⟨_, hk, _⟩ := valid_bounds u hu
  have hset := setUMoney_valid s f u m hs hf hu
  rw [regOrder_eq, regTail_pinned s u m rec (m, .none) (by rw [hset]), hset]
  have hc : shmAt (afterSet s f u m) u = some m := by
    rw [shmAt_afterSet s f u m u hs hu hu, if_pos rfl]
  rw [passwdSyncUpdate_valid (afterSet s f u m) _ u m rec rfl hu hc]
  unfold afterSync afterNew afterSet
  simp only
  have hlay := gen_facts.2.2.2.1
  have h1 : Gen.Money.recSize * ((u - 1).toNat + 1) ≤ Gen.Money.recSize * MAX := Nat.mul_le_mul_left _ hk
  rw [Nat.mul_succ] at h1
  rw [writeAt_cover f (le32 m) (recSetMoney rec m) _ _ (by rw [le32_length, hlen]; omega)
    (by rw [recSetMoney_length rec m hr, hlen]; exact h1)
    (by rw [le32_length, recSetMoney_length rec m hr]; omega)]

theorem newuser_invalid (s : State) (u m : Int) (rec : List Nat) (hu : ¬ Valid u) :
    regTail regOrder s u rec m = (s, .ok .invalidUID) := by
  have hset := setUMoney_invalid s u m hu
  rw [regOrder_eq, regTail_pinned s u m rec (-1, .invalidUID) (by rw [hset]), hset]
  exact passwdSyncUpdate_invalid s u rec hu

theorem setUserPerm_invalid (s : State) (u : Int) (rec : List Nat) (perm : Nat) (hu : ¬ Valid u) :
    setUserPerm s u rec perm = (s, .ok (0, .invalidUID)) := by
  have hv : uidIsValid u = false := by
    cases h : uidIsValid u
    · rfl
    · exact absurd ((uidIsValid_iff u).1 h) hu
  unfold setUserPerm passwdSyncUpdate
  simp [hv]

theorem setUserPerm_valid (s : State) (f : List Nat) (u v : Int) (rec : List Nat) (perm : Nat)
    (hf : s.file = some f) (hu : Valid u) (hc : shmAt s u = some v) :
    setUserPerm s u rec perm =
      (afterSync s f u (recSetMoney (recSetLevel rec perm) v), .ok (Int.ofNat perm, .none)) := by
  obtain ⟨h0, hk, _⟩ := valid_bounds u hu
  have hv : uidIsValid u = true := (uidIsValid_iff u).2 hu
  unfold setUserPerm passwdSyncUpdate passwdUpdate afterSync
  simp only [hv, Bool.not_true, Bool.false_eq_true, if_false, moneyOf_valid s u v hu hc, hf, toIdx_valid u hu]
  rw [if_neg (by omega)]
  rfl

theorem shmAt_afterSync (s : State) (f : List Nat) (u : Int) (r : List Nat) (v : Int) :
    shmAt (afterSync s f u r) v = shmAt s v := rfl

theorem moneyBytes_afterSync (f : List Nat) (u v : Int) (r : List Nat) (hf : f.length = Gen.Money.recSize * MAX)
    (hr : r.length = Gen.Money.recSize) (hu : Valid u) (hv : Valid v) :
    moneyBytes (writeAt f (Gen.Money.recSize * (u - 1).toNat) r) v =
      if v = u then (r.drop Gen.Money.moneyOffset).take 4 else moneyBytes f v := by
  obtain ⟨_, hk, _⟩ := valid_bounds u hu
  have hlay := gen_facts.2.2.2.1
  have hin : Gen.Money.recSize * (u - 1).toNat + r.length ≤ f.length := by
    have h1 : Gen.Money.recSize * ((u - 1).toNat + 1) ≤ Gen.Money.recSize * MAX := Nat.mul_le_mul_left _ hk
    rw [Nat.mul_succ] at h1
    rw [hr, hf]; exact h1
  unfold moneyBytes
  by_cases h : v = u
  · subst h
    rw [if_pos rfl]
    exact slice_writeAt_inside f r _ _ 4 hin (by rw [hr]; exact hlay)
  · rw [if_neg h]
    apply slice_writeAt_disjoint _ _ _ _ _ hin
    rw [hr]
    rcases blocks_apart _ _ (slot_ne u v hu hv h) with h1 | h1 <;> omega

theorem record_afterSync (f : List Nat) (u v : Int) (r : List Nat) (hf : f.length = Gen.Money.recSize * MAX)
    (hr : r.length = Gen.Money.recSize) (hu : Valid u) (hv : Valid v) :
    record (writeAt f (Gen.Money.recSize * (u - 1).toNat) r) v = if v = u then r else record f v := by
  obtain ⟨_, hk, _⟩ := valid_bounds u hu
  have hin : Gen.Money.recSize * (u - 1).toNat + r.length ≤ f.length := by
    have h1 : Gen.Money.recSize * ((u - 1).toNat + 1) ≤ Gen.Money.recSize * MAX := Nat.mul_le_mul_left _ hk
    rw [Nat.mul_succ] at h1
    rw [hr, hf]; exact h1
  unfold record
  by_cases h : v = u
  · subst h
    rw [if_pos rfl]
    have := slice_writeAt_same f r _ hin
    rwa [hr] at this
  · rw [if_neg h]
    apply slice_writeAt_disjoint _ _ _ _ _ hin
    rw [hr]
    rcases blocks_apart _ _ (slot_ne u v hu hv h) with h1 | h1 <;> omega

theorem wf_afterSync (s : State) (f : List Nat) (u : Int) (r : List Nat) (hs : s.shm.length = MAX)
    (hlen : f.length = Gen.Money.recSize * MAX) (hr : r.length = Gen.Money.recSize) (hu : Valid u) :
    WF (afterSync s f u r) := by
  obtain ⟨_, hk, _⟩ := valid_bounds u hu
  have hin : Gen.Money.recSize * (u - 1).toNat + r.length ≤ f.length := by
    have h1 : Gen.Money.recSize * ((u - 1).toNat + 1) ≤ Gen.Money.recSize * MAX := Nat.mul_le_mul_left _ hk
    rw [Nat.mul_succ] at h1
    rw [hr, hlen]; exact h1
  exact ⟨hs, _, rfl, by rw [writeAt_length _ _ _ hin, hlen]⟩

/-! ### the invariant carried along a history -/

/-- slots addressed by a writing operation. -/
def writes : Op → Int → Prop
  | .set u _, w => w = u
  | .de u _, w => w = u
  | .get _, _ => False
  | .sync u _ _, w => w = u
  | .load _, _ => False
  | .newuser u _ _, w => w = u

/-- on a valid slot `DeUMoney` is a `SetUMoney` of some value (no arithmetic hypothesis). -/
theorem de_is_a_set (s : State) (u m : Int) (hs : s.shm.length = MAX) (hu : Valid u) :
    ∃ m', deUMoney s u m = setUMoney s u m' := by
  obtain ⟨h0, hk, _⟩ := valid_bounds u hu
  have hc : ∃ cur, shmAt s u = some cur := by
    unfold shmAt
    exact ⟨s.shm[(u - 1).toNat]'(by omega), List.getElem?_eq_getElem (by omega)⟩
  obtain ⟨cur, hc⟩ := hc
  unfold deUMoney
  rw [(deGuard_iff u).2 hu]
  simp only [Bool.false_eq_true, if_false, moneyOf_valid s u cur hu hc]
  split
  · exact ⟨_, rfl⟩
  · exact ⟨_, rfl⟩

/-- what a step can be: nothing; a successful set of some value on the valid slot it addresses; or a whole-record
write (of `recSize` bytes) to the valid slot it addresses, which leaves the SHM entries of all other slots alone. -/
theorem step_shape (s : State) (f : List Nat) (o : Op) (hs : s.shm.length = MAX) (hf : s.file = some f)
    (hlen : f.length = Gen.Money.recSize * MAX) (hrec : RecOK o) :
    (step s o).1 = s ∨ (∃ u m', Valid u ∧ writes o u ∧ (step s o).1 = afterSet s f u m') ∨
    (∃ u r shm', Valid u ∧ writes o u ∧ recWrite o = true ∧ r.length = Gen.Money.recSize ∧
      (step s o).1 = { shm := shm', file := some (writeAt f (Gen.Money.recSize * (u - 1).toNat) r) } ∧
      (∀ v, Valid v → v ≠ u → shm'[(v - 1).toNat]? = s.shm[(v - 1).toNat]?) ∧ shm'.length = s.shm.length) := by
  cases o with
  | set u m =>
      simp only [step]
      by_cases hu : Valid u
      · right; left; exact ⟨u, m, hu, rfl, by rw [setUMoney_valid s f u m hs hf hu]⟩
      · left; rw [setUMoney_invalid s u m hu]
  | de u m =>
      simp only [step]
      by_cases hu : Valid u
      · right; left
        obtain ⟨m', e⟩ := de_is_a_set s u m hs hu
        exact ⟨u, m', hu, rfl, by rw [e, setUMoney_valid s f u m' hs hf hu]⟩
      · left; rw [deUMoney_invalid s u m hu]
  | get u => left; rfl
  | load u => left; rfl
  | sync u rec perm =>
      simp only [step]
      by_cases hu : Valid u
      · right; right
        obtain ⟨h0, hk, _⟩ := valid_bounds u hu
        have hc : ∃ cur, shmAt s u = some cur := by
          unfold shmAt
          exact ⟨s.shm[(u - 1).toNat]'(by omega), List.getElem?_eq_getElem (by omega)⟩
        obtain ⟨v, hc⟩ := hc
        refine ⟨u, recSetMoney (recSetLevel rec perm) v, s.shm, hu, rfl, rfl,
          recSetMoney_length _ _ (recSetLevel_length rec perm hrec), ?_, fun _ _ _ => rfl, rfl⟩
        rw [setUserPerm_valid s f u v rec perm hf hu hc]; rfl
      · left; rw [setUserPerm_invalid s u rec perm hu]
  | newuser u rec m =>
      simp only [step]
      by_cases hu : Valid u
      · right; right
        refine ⟨u, recSetMoney rec m, s.shm.set (u - 1).toNat m, hu, rfl, rfl, recSetMoney_length rec m hrec, ?_, ?_,
          by simp⟩
        · rw [newuser_valid s f u m rec hs hf hlen hrec hu]; rfl
        · intro v hv hne
          exact List.getElem?_set_ne (Ne.symm (slot_ne u v hu hv hne))
      · left; rw [newuser_invalid s u m rec hu]

/-- `s` represents the abstract table `b`: SHM holds `b` on every valid slot (int32 values), and `.PASSWDS`
holds `b` on the valid slots in `D`. -/
def Agree (s : State) (b : Bal) (D : Int → Prop) : Prop :=
  WF s ∧ (∀ u, Valid u → shmAt s u = some (b u) ∧ Int32 (b u)) ∧ (∀ u, Valid u → D u → diskAt s u = some (b u))

theorem agree_set (s : State) (b : Bal) (D : Int → Prop) (u m : Int) (h : Agree s b D) (hu : Valid u)
    (hm : Int32 m) :
    (setUMoney s u m).2 = .ok (m, .none) ∧
    Agree (setUMoney s u m).1 (upd b u m) (fun w => D w ∨ w = u) := by
  obtain ⟨⟨hs, f, hf, hlen⟩, hshm, hdisk⟩ := h
  rw [setUMoney_valid s f u m hs hf hu]
  refine ⟨rfl, wf_afterSet s f u m hs hlen hu, ?_, ?_⟩
  · intro v hv
    rw [shmAt_afterSet s f u m v hs hu hv]
    unfold upd
    by_cases e : v = u
    · rw [if_pos e, if_pos e]; exact ⟨rfl, hm⟩
    · rw [if_neg e, if_neg e]; exact hshm v hv
  · intro v hv hD
    rw [diskAt_afterSet s f u m v hf hlen hu hv hm]
    unfold upd
    by_cases e : v = u
    · rw [if_pos e, if_pos e]
    · rw [if_neg e, if_neg e]
      rcases hD with hD | hD
      · exact hdisk v hv hD
      · exact absurd hD e

/-- a whole-record write from ANY caller record keeps (indeed establishes, for that slot) the agreement. -/
theorem agree_sync (s : State) (b : Bal) (D : Int → Prop) (u : Int) (rec : List Nat) (perm : Nat)
    (h : Agree s b D) (hu : Valid u) (hr : rec.length = Gen.Money.recSize) :
    (setUserPerm s u rec perm).2 = .ok (Int.ofNat perm, .none) ∧
    Agree (setUserPerm s u rec perm).1 b (fun w => D w ∨ w = u) := by
  obtain ⟨⟨hs, f, hf, hlen⟩, hshm, hdisk⟩ := h
  rw [setUserPerm_valid s f u (b u) rec perm hf hu (hshm u hu).1]
  have hl1 := recSetLevel_length rec perm hr
  have hl2 := recSetMoney_length _ (b u) hl1
  refine ⟨rfl, wf_afterSync s f u _ hs hlen hl2 hu, fun v hv => hshm v hv, ?_⟩
  intro v hv hD
  unfold diskAt afterSync
  simp only [Option.bind_some]
  rw [moneyBytes_afterSync f u v _ hlen hl2 hu hv]
  by_cases e : v = u
  · rw [if_pos e, recSetMoney_money _ _ hl1, dec32_le32 _ (hshm u hu).2, e]
  · rw [if_neg e]
    rcases hD with hD | hD
    · have := hdisk v hv hD
      unfold diskAt at this
      rw [hf] at this
      exact this
    · exact absurd hD e

theorem agree_mono (s : State) (b : Bal) (D D' : Int → Prop) (h : Agree s b D) (hD : ∀ w, D' w → D w) :
    Agree s b D' := ⟨h.1, h.2.1, fun u hu hd => h.2.2 u hu (hD u hd)⟩

/-- `passwdSyncUpdate` with ANY record keeps (for that slot: establishes) the agreement. -/
theorem agree_psu (s : State) (b : Bal) (D : Int → Prop) (u : Int) (rec : List Nat)
    (h : Agree s b D) (hu : Valid u) (hr : rec.length = Gen.Money.recSize) :
    (passwdSyncUpdate s u rec).2 = .ok .none ∧
    Agree (passwdSyncUpdate s u rec).1 b (fun w => D w ∨ w = u) := by
  obtain ⟨⟨hs, f, hf, hlen⟩, hshm, hdisk⟩ := h
  rw [passwdSyncUpdate_valid s f u (b u) rec hf hu (hshm u hu).1]
  have hl2 := recSetMoney_length rec (b u) hr
  refine ⟨rfl, wf_afterSync s f u _ hs hlen hl2 hu, fun v hv => hshm v hv, ?_⟩
  intro v hv hD
  unfold diskAt afterSync
  simp only [Option.bind_some]
  rw [moneyBytes_afterSync f u v _ hlen hl2 hu hv]
  by_cases e : v = u
  · rw [if_pos e, recSetMoney_money _ _ hr, dec32_le32 _ (hshm u hu).2, e]
  · rw [if_neg e]
    rcases hD with hD | hD
    · have := hdisk v hv hD
      unfold diskAt at this
      rw [hf] at this
      exact this
    · exact absurd hD e

/-- an accepted registration at a valid slot: whatever the slot held, SHM and .PASSWDS hold the record's balance. -/
theorem agree_newuser (s : State) (b : Bal) (D : Int → Prop) (u m : Int) (rec : List Nat)
    (h : Agree s b D) (hu : Valid u) (hm : Int32 m) (hr : rec.length = Gen.Money.recSize) :
    (regTail regOrder s u rec m).2 = .ok .none ∧
    Agree (regTail regOrder s u rec m).1 (upd b u m) (fun w => D w ∨ w = u) := by
  have hset := agree_set s b D u m h hu hm
  rw [regOrder_eq, regTail_pinned s u m rec (m, .none) hset.1]
  have hp := agree_psu (setUMoney s u m).1 (upd b u m) _ u rec hset.2 hu hr
  exact ⟨hp.1, agree_mono _ _ _ _ hp.2 (fun w hw => by
    rcases hw with hw | hw
    · exact Or.inl (Or.inl hw)
    · exact Or.inr hw)⟩

/-- one step: the model step represents the abstract step, and answers what the abstract table says. -/
theorem agree_step (s : State) (b : Bal) (D : Int → Prop) (o : Op) (h : Agree s b D) (hno : NoOverflow b o) :
    Agree (step s o).1 (specStep b o) (fun w => D w ∨ writes o w) := by
  cases o with
  | set u m =>
      simp only [step, specStep]
      by_cases hu : Valid u
      · rw [if_pos hu]; exact (agree_set s b D u m h hu hno).2
      · rw [if_neg hu, setUMoney_invalid s u m hu]
        refine ⟨h.1, h.2.1, ?_⟩
        intro v hv hD
        rcases hD with hD | hD
        · exact h.2.2 v hv hD
        · exact absurd (hD ▸ hv) hu
  | de u m =>
      simp only [step, specStep]
      by_cases hu : Valid u
      · rw [if_pos hu]
        obtain ⟨hm, hrest⟩ := hno
        obtain ⟨hmin, hnew⟩ := hrest hu
        rw [deUMoney_valid s u m (b u) hu (h.2.1 u hu).1 hm hmin hnew]
        exact (agree_set s b D u _ h hu hnew).2
      · rw [if_neg hu, deUMoney_invalid s u m hu]
        refine ⟨h.1, h.2.1, ?_⟩
        intro v hv hD
        rcases hD with hD | hD
        · exact h.2.2 v hv hD
        · exact absurd (hD ▸ hv) hu
  | get u =>
      simp only [step, specStep]
      exact agree_mono _ _ _ _ ⟨h.1, h.2.1, fun v hv hD => by
        rcases hD with hD | hD
        · exact h.2.2 v hv hD
        · exact absurd hD (by simp [writes])⟩ (fun _ hw => hw)
  | load u =>
      simp only [step, specStep]
      exact agree_mono _ _ _ _ ⟨h.1, h.2.1, fun v hv hD => by
        rcases hD with hD | hD
        · exact h.2.2 v hv hD
        · exact absurd hD (by simp [writes])⟩ (fun _ hw => hw)
  | sync u rec perm =>
      simp only [step, specStep]
      by_cases hu : Valid u
      · exact (agree_sync s b D u rec perm h hu hno.1).2
      · rw [setUserPerm_invalid s u rec perm hu]
        refine ⟨h.1, h.2.1, ?_⟩
        intro v hv hD
        rcases hD with hD | hD
        · exact h.2.2 v hv hD
        · exact absurd (hD ▸ hv) hu
  | newuser u rec m =>
      simp only [step, specStep]
      by_cases hu : Valid u
      · rw [if_pos hu]; exact (agree_newuser s b D u m rec h hu hno.1 hno.2).2
      · rw [if_neg hu, newuser_invalid s u m rec hu]
        refine ⟨h.1, h.2.1, ?_⟩
        intro v hv hD
        rcases hD with hD | hD
        · exact h.2.2 v hv hD
        · exact absurd (hD ▸ hv) hu

theorem agree_run (os : List Op) : ∀ (s : State) (b : Bal) (D : Int → Prop), Agree s b D → NoOverflowRun b os →
    Agree (run s os) (specRun b os) (fun w => D w ∨ ∃ o ∈ os, writes o w) := by
  induction os with
  | nil =>
      intro s b D h _
      exact agree_mono _ _ _ _ h (fun w hw => by
        rcases hw with hw | ⟨o, ho, _⟩
        · exact hw
        · simp at ho)
  | cons o os ih =>
      intro s b D h hno
      have h1 := agree_step s b D o h hno.1
      have h2 := ih _ _ _ h1 hno.2
      exact agree_mono _ _ _ _ h2 (fun w hw => by
        rcases hw with hw | ⟨o', ho', hw⟩
        · exact Or.inl (Or.inl hw)
        · rcases List.mem_cons.1 ho' with e | e
          · exact Or.inl (Or.inr (e ▸ hw))
          · exact Or.inr ⟨o', e, hw⟩)

/-! ### non-negativity on the abstract table -/

theorem deNew_nonneg (cur m : Int) (h : 0 ≤ cur) : 0 ≤ deNew cur m := by
  unfold deNew
  split <;> omega

def SetsNonneg : List Op → Prop
  | [] => True
  | .set _ m :: os => 0 ≤ m ∧ SetsNonneg os
  | .newuser _ _ m :: os => 0 ≤ m ∧ SetsNonneg os
  | _ :: os => SetsNonneg os

theorem specRun_nonneg (os : List Op) : ∀ (b : Bal), (∀ u, Valid u → 0 ≤ b u) → SetsNonneg os →
    ∀ u, Valid u → 0 ≤ specRun b os u := by
  induction os with
  | nil => intro b hb _ u hu; exact hb u hu
  | cons o os ih =>
      intro b hb hs
      cases o with
      | set w m =>
          refine ih _ ?_ hs.2
          intro v hv
          simp only [specStep]
          split
          · unfold upd
            split
            · exact hs.1
            · exact hb v hv
          · exact hb v hv
      | de w m =>
          refine ih _ ?_ hs
          intro v hv
          simp only [specStep]
          split
          · rename_i hw
            unfold upd
            split
            · exact deNew_nonneg _ _ (hb w hw)
            · exact hb v hv
          · exact hb v hv
      | get w => exact ih _ hb hs
      | sync w rec perm => exact ih _ hb hs
      | load w => exact ih _ hb hs
      | newuser w rec m =>
          refine ih _ ?_ hs.2
          intro v hv
          simp only [specStep]
          split
          · unfold upd
            split
            · exact hs.1
            · exact hb v hv
          · exact hb v hv

/-! ### locality: what the property sees of a slot is decided by the operations addressed to that slot -/

def slotOf : Op → Int
  | .set u _ => u
  | .de u _ => u
  | .get u => u
  | .sync u _ _ => u
  | .load u => u
  | .newuser u _ _ => u

/-- everything the property says about slot `u`: its SHM entry and its whole record in `.PASSWDS`. -/
def slotView (s : State) (u : Int) : Option Int × Option (List Nat) :=
  (shmAt s u, s.file.map fun f => record f u)

theorem writes_slotOf (o : Op) (w : Int) (h : writes o w) : w = slotOf o := by
  cases o <;> simp [writes, slotOf] at * <;> exact h

theorem wf_step (s : State) (o : Op) (h : WF s) (hrec : RecOK o) : WF (step s o).1 := by
  obtain ⟨hs, f, hf, hlen⟩ := h
  rcases step_shape s f o hs hf hlen hrec with e | ⟨u, m', hu, _, e⟩ | ⟨u, r, shm', hu, _, _, hr, e, _, hl⟩
  · rw [e]; exact ⟨hs, f, hf, hlen⟩
  · rw [e]; exact wf_afterSet s f u m' hs hlen hu
  · rw [e]
    obtain ⟨_, hk, _⟩ := valid_bounds u hu
    have hin : Gen.Money.recSize * (u - 1).toNat + r.length ≤ f.length := by
      have h1 : Gen.Money.recSize * ((u - 1).toNat + 1) ≤ Gen.Money.recSize * MAX := Nat.mul_le_mul_left _ hk
      rw [Nat.mul_succ] at h1
      rw [hr, hlen]; exact h1
    exact ⟨by rw [hl]; exact hs, _, rfl, by rw [writeAt_length _ _ _ hin, hlen]⟩

theorem wf_run (os : List Op) : ∀ (s : State), WF s → (∀ o ∈ os, RecOK o) → WF (run s os) := by
  induction os with
  | nil => intro s h _; exact h
  | cons o os ih =>
      intro s h hrec
      exact ih _ (wf_step s o h (hrec o (by simp))) (fun o' ho' => hrec o' (by simp [ho']))

/-- an operation addressed to another slot leaves the view of `u` alone. -/
theorem view_other (s : State) (o : Op) (u : Int) (h : WF s) (hrec : RecOK o) (hu : Valid u)
    (hne : slotOf o ≠ u) : slotView (step s o).1 u = slotView s u := by
  obtain ⟨hs, f, hf, hlen⟩ := h
  have hnw : ∀ w, writes o w → w ≠ u := fun w hw e => hne ((writes_slotOf o w hw).symm.trans e)
  unfold slotView
  rcases step_shape s f o hs hf hlen hrec with e | ⟨w, m', hw, hww, e⟩ | ⟨w, r, shm', hw, hww, _, hr, e, hshm, _⟩
  · rw [e]
  · rw [e]
    have hn : u ≠ w := fun e' => hnw w hww e'.symm
    obtain ⟨_, hk, _⟩ := valid_bounds w hw
    have hin : Gen.Money.recSize * (w - 1).toNat + Gen.Money.moneyOffset + (le32 m').length ≤ f.length := by
      rw [le32_length, hlen]; exact field_inside _ hk
    rw [shmAt_afterSet s f w m' u hs hw hu, if_neg hn, hf]
    simp only [afterSet, Option.map_some]
    congr 2
    unfold record
    apply slice_writeAt_disjoint _ _ _ _ _ hin
    rw [le32_length]
    have hlay := gen_facts.2.2.2.1
    rcases blocks_apart _ _ (slot_ne w u hw hu hn) with h1 | h1 <;> omega
  · rw [e]
    have hn : u ≠ w := fun e' => hnw w hww e'.symm
    rw [hf]
    simp only [Option.map_some]
    rw [record_afterSync f w u _ hlen hr hw hu, if_neg hn]
    congr 1
    exact hshm u hu hn

/-- what an operation addressed to slot `u` makes of the view `(v, r)` of that slot. -/
def viewStep (o : Op) (v : Int) (r : List Nat) : Int × List Nat :=
  match o with
  | .set _ m => (m, writeAt r Gen.Money.moneyOffset (le32 m))
  | .de _ m =>
      let m' := if m < 0 ∧ v < wrap32 (-m) then 0 else wrap32 (v + m)
      (m', writeAt r Gen.Money.moneyOffset (le32 m'))
  | .get _ => (v, r)
  | .load _ => (v, r)
  | .sync _ rec perm => (v, recSetMoney (recSetLevel rec perm) v)
  | .newuser _ rec m => (m, recSetMoney rec m)

theorem deUMoney_valid_explicit (s : State) (u m v : Int) (hu : Valid u) (hc : shmAt s u = some v) :
    deUMoney s u m = setUMoney s u (if m < 0 ∧ v < wrap32 (-m) then 0 else wrap32 (v + m)) := by
  unfold deUMoney
  rw [(deGuard_iff u).2 hu]
  simp only [Bool.false_eq_true, if_false, moneyOf_valid s u v hu hc]
  by_cases hb : m < 0 ∧ v < wrap32 (-m)
  · rw [if_pos hb, if_pos hb]
  · rw [if_neg hb, if_neg hb]

theorem view_afterSet (s : State) (f : List Nat) (u m : Int) (hs : s.shm.length = MAX)
    (hlen : f.length = Gen.Money.recSize * MAX) (hu : Valid u) :
    slotView (afterSet s f u m) u = (some m, some (writeAt (record f u) Gen.Money.moneyOffset (le32 m))) := by
  obtain ⟨_, hk, _⟩ := valid_bounds u hu
  have hlay := gen_facts.2.2.2.1
  have h1 : Gen.Money.recSize * ((u - 1).toNat + 1) ≤ Gen.Money.recSize * MAX := Nat.mul_le_mul_left _ hk
  rw [Nat.mul_succ] at h1
  unfold slotView
  rw [shmAt_afterSet s f u m u hs hu hu, if_pos rfl]
  simp only [afterSet, Option.map_some]
  congr 2
  unfold record
  have := slice_writeAt_within f (le32 m) (Gen.Money.recSize * (u - 1).toNat + Gen.Money.moneyOffset)
    (Gen.Money.recSize * (u - 1).toNat) Gen.Money.recSize (by omega) (by rw [le32_length]; omega)
  rw [this]
  congr 1; omega

/-- an operation addressed to the valid slot `u` acts on the view of `u` only through that view. -/
theorem view_own (s : State) (f : List Nat) (o : Op) (v : Int) (hs : s.shm.length = MAX) (hf : s.file = some f)
    (hlen : f.length = Gen.Money.recSize * MAX) (hrec : RecOK o) (hu : Valid (slotOf o))
    (hc : shmAt s (slotOf o) = some v) :
    slotView (step s o).1 (slotOf o) =
      (some (viewStep o v (record f (slotOf o))).1, some (viewStep o v (record f (slotOf o))).2) := by
  cases o with
  | set u m =>
      simp only [step, slotOf, viewStep] at *
      rw [setUMoney_valid s f u m hs hf hu]
      exact view_afterSet s f u m hs hlen hu
  | de u m =>
      simp only [step, slotOf, viewStep] at *
      rw [deUMoney_valid_explicit s u m v hu hc, setUMoney_valid s f u _ hs hf hu]
      exact view_afterSet s f u _ hs hlen hu
  | get u =>
      simp only [step, slotOf, viewStep] at *
      unfold slotView; rw [hc, hf]; rfl
  | load u =>
      simp only [step, slotOf, viewStep] at *
      unfold slotView; rw [hc, hf]; rfl
  | sync u rec perm =>
      simp only [step, slotOf, viewStep] at *
      rw [setUserPerm_valid s f u v rec perm hf hu hc]
      have hr := recSetMoney_length _ v (recSetLevel_length rec perm hrec)
      unfold slotView
      rw [shmAt_afterSync, hc]
      simp only [afterSync, Option.map_some]
      rw [record_afterSync f u u _ hlen hr hu hu, if_pos rfl]
  | newuser u rec m =>
      simp only [step, slotOf, viewStep] at *
      rw [newuser_valid s f u m rec hs hf hlen hrec hu]
      have hr := recSetMoney_length rec m hrec
      obtain ⟨_, hk, _⟩ := valid_bounds u hu
      unfold slotView
      simp only [afterNew, Option.map_some]
      rw [record_afterSync f u u _ hlen hr hu hu, if_pos rfl]
      congr 1
      unfold shmAt
      exact List.getElem?_set_self (by omega)

/-- congruence: two well-formed states that show the same view of `u` still do after an operation addressed to `u`. -/
theorem view_congr (s s' : State) (o : Op) (h : WF s) (h' : WF s') (hrec : RecOK o) (hu : Valid (slotOf o))
    (hv : slotView s (slotOf o) = slotView s' (slotOf o)) :
    slotView (step s o).1 (slotOf o) = slotView (step s' o).1 (slotOf o) := by
  obtain ⟨hs, f, hf, hlen⟩ := h
  obtain ⟨hs', f', hf', hlen'⟩ := h'
  obtain ⟨_, hk, _⟩ := valid_bounds _ hu
  have hc : ∃ v, shmAt s (slotOf o) = some v := by
    unfold shmAt
    exact ⟨s.shm[((slotOf o) - 1).toNat]'(by omega), List.getElem?_eq_getElem (by omega)⟩
  obtain ⟨v, hc⟩ := hc
  have hvv := hv
  unfold slotView at hvv
  rw [hf, hf', hc] at hvv
  simp only [Option.map_some, Prod.mk.injEq, Option.some.injEq] at hvv
  rw [view_own s f o v hs hf hlen hrec hu hc, view_own s' f' o v hs' hf' hlen' hrec hu hvv.1.symm, hvv.2]

theorem view_run_congr (os : List Op) (u : Int) : ∀ (s s' : State), WF s → WF s' → (∀ o ∈ os, RecOK o) →
    (∀ o ∈ os, slotOf o = u) → Valid u → slotView s u = slotView s' u →
    slotView (run s os) u = slotView (run s' os) u := by
  induction os with
  | nil => intro s s' _ _ _ _ _ hv; exact hv
  | cons o os ih =>
      intro s s' h h' hrec hall hu hv
      have ho : slotOf o = u := hall o (by simp)
      have hro := hrec o (by simp)
      apply ih _ _ (wf_step s o h hro) (wf_step s' o h' hro) (fun o' ho' => hrec o' (by simp [ho']))
        (fun o' ho' => hall o' (by simp [ho'])) hu
      subst ho
      exact view_congr s s' o h h' hro hu hv

/-- after any history, the view of a valid slot is the one produced by the operations addressed to that slot alone,
in their order: operations on other slots, wherever they are interleaved, do not matter. -/
theorem view_projection (os : List Op) (u : Int) : ∀ (s : State), WF s → (∀ o ∈ os, RecOK o) → Valid u →
    slotView (run s os) u = slotView (run s (os.filter fun o => slotOf o = u)) u := by
  induction os with
  | nil => intro s _ _ _; rfl
  | cons o os ih =>
      intro s h hrec hu
      have hro := hrec o (by simp)
      have hrest : ∀ o' ∈ os, RecOK o' := fun o' ho' => hrec o' (by simp [ho'])
      by_cases ho : slotOf o = u
      · rw [List.filter_cons_of_pos (by simpa using ho)]
        exact ih _ (wf_step s o h hro) hrest hu
      · rw [List.filter_cons_of_neg (by simpa using ho)]
        show slotView (run (step s o).1 os) u = _
        rw [ih _ (wf_step s o h hro) hrest hu]
        apply view_run_congr _ u _ _ (wf_step s o h hro) h
          (fun o' ho' => hrest o' (List.mem_filter.1 ho').1)
          (fun o' ho' => by simpa using (List.mem_filter.1 ho').2) hu
        exact view_other s o u h hro hu ho

/-! ### the loader -/

theorem wrap32_int32 (i : Int) : Int32 (wrap32 i) := by
  unfold Int32 wrap32
  simp only [Int.ofNat_eq_natCast, Int.negSucc_eq]
  split <;> omega

theorem gen_facts_loader :
    loaderAssigns true "Money" = true ∧ loaderAssigns false "Money" = true ∧
    loaderAssigns true "Userid" = true ∧ loaderAssigns false "Userid" = true ∧ MAX ≤ PRE := by decide

def reloadCond (onfly : Bool) (f : List Nat) (ids : List (List Nat)) (j : Nat) : Bool :=
  !onfly || (cstr (fileId f j) != cstr (ids.getD j []))

theorem set_pointwise {α : Type} (l l0 : List α) (k : Nat) (g : Nat → α) (P : Nat → Bool)
    (hl : l.length = l0.length)
    (h : ∀ j, l[j]? = if j < k ∧ P j = true then (if j < l0.length then some (g j) else none) else l0[j]?) :
    ∀ j, (if P k = true then l.set k (g k) else l)[j]? =
      if j < k + 1 ∧ P j = true then (if j < l0.length then some (g j) else none) else l0[j]? := by
  intro j
  by_cases hP : P k = true
  · rw [if_pos hP, List.getElem?_set]
    by_cases hjk : k = j
    · subst hjk
      simp [hP, hl]
    · rw [if_neg hjk, h j]
      have : (j < k + 1 ∧ P j = true) ↔ (j < k ∧ P j = true) :=
        ⟨fun ⟨a, b⟩ => ⟨by omega, b⟩, fun ⟨a, b⟩ => ⟨by omega, b⟩⟩
      simp only [this]
  · rw [if_neg hP, h j]
    have : (j < k + 1 ∧ P j = true) ↔ (j < k ∧ P j = true) := by
      constructor
      · intro ⟨a, b⟩
        refine ⟨?_, b⟩
        by_cases e : j = k
        · subst e; exact absurd b hP
        · omega
      · intro ⟨a, b⟩; exact ⟨by omega, b⟩
    simp only [this]

theorem loadRec_eq (onfly cd : Bool) (f : List Nat) (st : LState) (i : Nat)
    (hM : loaderAssigns cd "Money" = true) (hU : loaderAssigns cd "Userid" = true) (h : st.cnt + 1 ≤ PRE) :
    (loadRec onfly cd f st i).cnt ≤ st.cnt + 1 ∧
    (loadRec onfly cd f st i).shm =
      (if (!onfly || (cstr (fileId f i) != cstr (st.ids.getD i []))) = true then st.shm.set i (fileMoney f i) else st.shm) ∧
    (loadRec onfly cd f st i).ids =
      (if (!onfly || (cstr (fileId f i) != cstr (st.ids.getD i []))) = true then st.ids.set i (fileId f i) else st.ids) := by
  unfold loadRec
  simp only [hM, hU, if_true]
  have hb : ((!idIsValid (fileId f i)) && decide (PRE < (if (!idIsValid (fileId f i)) = true then st.cnt + 1 else st.cnt))) = false := by
    cases hv : idIsValid (fileId f i) <;> simp <;> omega
  rw [hb]
  simp only [Bool.false_eq_true, if_false]
  split
  · refine ⟨?_, rfl, rfl⟩
    simp only; split <;> omega
  · refine ⟨?_, rfl, rfl⟩
    simp only; split <;> omega

theorem load_fold (onfly cd : Bool) (f : List Nat) (ids : List (List Nat)) (shm : List Int)
    (hM : loaderAssigns cd "Money" = true) (hU : loaderAssigns cd "Userid" = true) :
    ∀ k, k ≤ PRE →
      ((List.range k).foldl (loadRec onfly cd f) { ids := ids, shm := shm, cnt := 0 }).cnt ≤ k ∧
      ((List.range k).foldl (loadRec onfly cd f) { ids := ids, shm := shm, cnt := 0 }).shm.length = shm.length ∧
      ((List.range k).foldl (loadRec onfly cd f) { ids := ids, shm := shm, cnt := 0 }).ids.length = ids.length ∧
      (∀ j, ((List.range k).foldl (loadRec onfly cd f) { ids := ids, shm := shm, cnt := 0 }).shm[j]? =
        if j < k ∧ reloadCond onfly f ids j = true then (if j < shm.length then some (fileMoney f j) else none)
        else shm[j]?) ∧
      (∀ j, ((List.range k).foldl (loadRec onfly cd f) { ids := ids, shm := shm, cnt := 0 }).ids[j]? =
        if j < k ∧ reloadCond onfly f ids j = true then (if j < ids.length then some (fileId f j) else none)
        else ids[j]?) := by
  intro k
  induction k with
  | zero => intro _; simp
  | succ k ih =>
      intro hk
      obtain ⟨hc, hls, hli, hs, hi⟩ := ih (by omega)
      rw [List.range_succ, List.foldl_append]
      simp only [List.foldl_cons, List.foldl_nil]
      generalize (List.range k).foldl (loadRec onfly cd f) { ids := ids, shm := shm, cnt := 0 } = st at *
      have hidk : st.ids.getD k [] = ids.getD k [] := by
        rw [List.getD_eq_getElem?_getD, List.getD_eq_getElem?_getD, hi k, if_neg (by omega)]
      obtain ⟨e1, e2, e3⟩ := loadRec_eq onfly cd f st k hM hU (by omega)
      rw [hidk] at e2 e3
      have hcond : (!onfly || (cstr (fileId f k) != cstr (ids.getD k []))) = reloadCond onfly f ids k := rfl
      rw [hcond] at e2 e3
      refine ⟨by omega, ?_, ?_, ?_, ?_⟩
      · rw [e2]; split <;> simp [hls]
      · rw [e3]; split <;> simp [hli]
      · rw [e2]; exact set_pointwise st.shm shm k (fileMoney f) (reloadCond onfly f ids) hls hs
      · rw [e3]; exact set_pointwise st.ids ids k (fileId f) (reloadCond onfly f ids) hli hi

theorem dec32_of_length4 (l : List Nat) (h : l.length = 4) : ∃ v, dec32? l = some v ∧ Int32 v := by
  match l, h with
  | [a, b, c, d], _ => exact ⟨_, rfl, wrap32_int32 _⟩

theorem recSize_pos : 0 < Gen.Money.recSize := by
  have := gen_facts.2.2.2.1; omega

/-- the disk balance of a valid slot of a complete file exists, is an int32, and is what the loader reads. -/
theorem diskAt_fileMoney (s : State) (f : List Nat) (u : Int) (hf : s.file = some f)
    (hlen : f.length = Gen.Money.recSize * MAX) (hu : Valid u) :
    diskAt s u = some (fileMoney f (u - 1).toNat) ∧ Int32 (fileMoney f (u - 1).toNat) := by
  obtain ⟨_, hk, _⟩ := valid_bounds u hu
  have hin := field_inside _ hk
  have hl : (moneyBytes f u).length = 4 := by
    unfold moneyBytes; simp only [List.length_take, List.length_drop]; omega
  obtain ⟨v, hv, hI⟩ := dec32_of_length4 _ hl
  have e : fileMoney f (u - 1).toNat = v := by
    unfold fileMoney
    have : (f.drop (RSZ * (u - 1).toNat + MOFF)).take 4 = moneyBytes f u := rfl
    rw [this, hv]
  unfold diskAt
  rw [hf]
  simp only [Option.bind_some]
  rw [hv, e]
  exact ⟨rfl, hI⟩

/-- `LoadUHash` on a complete `.PASSWDS`: it succeeds, leaves the file alone, and slot by slot the SHM money is the
record's Money where the slot is (re)filled and the old SHM value elsewhere — under either configuration value. -/
theorem loadUHash_complete (onfly cd : Bool) (ids : List (List Nat)) (s : State) (f : List Nat)
    (hs : s.shm.length = MAX) (hi : ids.length = MAX) (hf : s.file = some f)
    (hlen : f.length = Gen.Money.recSize * MAX) :
    (loadUHash onfly cd ids s).2 = .ok .none ∧ (loadUHash onfly cd ids s).1.2.file = some f ∧
    (loadUHash onfly cd ids s).1.2.shm.length = MAX ∧ (loadUHash onfly cd ids s).1.1.length = MAX ∧
    ∀ u, Valid u → shmAt (loadUHash onfly cd ids s).1.2 u =
      if reloadCond onfly f ids (u - 1).toNat = true then some (fileMoney f (u - 1).toNat) else shmAt s u := by
  obtain ⟨hM1, hM0, hU1, hU0, hpre⟩ := gen_facts_loader
  have hM : loaderAssigns cd "Money" = true := by cases cd <;> assumption
  have hU : loaderAssigns cd "Userid" = true := by cases cd <;> assumption
  have hn : f.length / RSZ = MAX := by
    show f.length / Gen.Money.recSize = MAX
    rw [hlen]; exact Nat.mul_div_cancel_left _ recSize_pos
  have hmod : f.length % RSZ = 0 := by
    show f.length % Gen.Money.recSize = 0
    rw [hlen]; exact Nat.mul_mod_right _ _
  obtain ⟨_, hls, hli, hsv, _⟩ := load_fold onfly cd f ids s.shm hM hU MAX hpre
  have e : loadUHash onfly cd ids s =
      ((((List.range MAX).foldl (loadRec onfly cd f) { ids := ids, shm := s.shm, cnt := 0 }).ids,
        { s with shm := ((List.range MAX).foldl (loadRec onfly cd f) { ids := ids, shm := s.shm, cnt := 0 }).shm }),
       .ok .none) := by
    unfold loadUHash
    simp only [hf, hn, Nat.min_self, Nat.lt_irrefl, if_false, hmod, ne_eq, not_true_eq_false]
  rw [e]
  refine ⟨rfl, hf, by simp only; rw [hls, hs], by simp only; rw [hli, hi], ?_⟩
  intro u hu
  obtain ⟨_, hk, _⟩ := valid_bounds u hu
  unfold shmAt
  simp only
  rw [hsv]
  by_cases hc : reloadCond onfly f ids (u - 1).toNat = true
  · rw [if_pos ⟨hk, hc⟩, if_pos hc, if_pos (by omega)]
  · rw [if_neg (fun h => hc h.2), if_neg hc]

/-- the configuration value does not reach the loader's treatment of Userid / Money. -/
theorem loadRec_cooldown (onfly : Bool) (f : List Nat) (st : LState) (i : Nat) :
    loadRec onfly true f st i = loadRec onfly false f st i := by
  obtain ⟨hM1, hM0, hU1, hU0, _⟩ := gen_facts_loader
  unfold loadRec
  simp only [hM1, hM0, hU1, hU0]

end PttVerif.C20
