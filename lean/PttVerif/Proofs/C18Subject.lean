import PttVerif.Proofs.C18Misc
/-
C18 (group 3, continued) — helper lemmas for cmbbs.SubjectEx:
what `bytes.ToLower` (as modelled) can produce per rune, what a prefix match implies about the source bytes,
totality / termination / suffix, and the DBCS-boundary invariant.
-/
namespace PttVerif.C18
open PttVerif

/-! ### utf8Width / lowerRune -/

theorem utf8Width_bounds (s : List Nat) (w : Nat) (h : utf8Width s = some w) :
    1 ≤ w ∧ w ≤ s.length ∧ (w = 1 → ∃ b r, s = b :: r ∧ b < 128) ∧
      (2 ≤ w → ∃ b r, s = b :: r ∧ 0xC2 ≤ b ∧ (b = 0xEF → w = 3)) := by
  unfold utf8Width at h
  match s, h with
  | [], h => simp at h
  | b0 :: r, h =>
    simp only at h
    by_cases h1 : b0 < 0x80
    · simp only [h1, if_true, Option.some.injEq] at h
      subst h
      exact ⟨by omega, by simp, fun _ => ⟨b0, r, rfl, h1⟩, by omega⟩
    · simp only [h1, if_false] at h
      by_cases h2 : 0xC2 ≤ b0 ∧ b0 ≤ 0xDF
      · simp only [h2, and_self, if_true] at h
        match r, h with
        | [], h => simp at h
        | b1 :: r', h =>
          simp only at h
          by_cases hc : isCont b1 = true
          · simp only [hc, if_true, Option.some.injEq] at h
            subst h
            exact ⟨by omega, by simp, by omega, fun _ => ⟨b0, _, rfl, h2.1, by omega⟩⟩
          · simp [hc] at h
      · simp only [h2, if_false] at h
        by_cases h3 : 0xE0 ≤ b0 ∧ b0 ≤ 0xEF
        · simp only [h3, and_self, if_true] at h
          match r, h with
          | [], h => simp at h
          | [_], h => simp at h
          | b1 :: b2 :: r', h =>
            simp only at h
            by_cases hc : (second3 b0 b1 && isCont b2) = true
            · simp only [hc, if_true, Option.some.injEq] at h
              subst h
              exact ⟨by omega, by simp, by omega, fun _ => ⟨b0, _, rfl, by omega, fun _ => rfl⟩⟩
            · simp [hc] at h
        · simp only [h3, if_false] at h
          by_cases h4 : 0xF0 ≤ b0 ∧ b0 ≤ 0xF4
          · simp only [h4, and_self, if_true] at h
            match r, h with
            | [], h => simp at h
            | [_], h => simp at h
            | [_, _], h => simp at h
            | b1 :: b2 :: b3 :: r', h =>
              simp only at h
              by_cases hc : (second4 b0 b1 && isCont b2 && isCont b3) = true
              · simp only [hc, if_true, Option.some.injEq] at h
                subst h
                exact ⟨by omega, by simp, by omega, fun _ => ⟨b0, _, rfl, by omega, by omega⟩⟩
              · simp [hc] at h
          · simp [h4] at h

theorem utf8Width_ascii (b : Nat) (r : List Nat) (h : b < 128) : utf8Width (b :: r) = some 1 := by
  simp [utf8Width, h]

/-- what one rune of `bytes.ToLower` looks like. -/
inductive RuneCase (s : List Nat) : List Nat × Nat → Prop where
  | ascii (b : Nat) (r : List Nat) : s = b :: r → b < 128 → RuneCase s ([ccharTolower b], 1)
  | invalid (b : Nat) (r : List Nat) : s = b :: r → 128 ≤ b → RuneCase s ([0xEF, 0xBF, 0xBD], 1)
  | idot : s.take 2 = [0xC4, 0xB0] → 2 ≤ s.length → RuneCase s ([105], 2)
  | kelvin : s.take 3 = [0xE2, 0x84, 0xAA] → 3 ≤ s.length → RuneCase s ([107], 3)
  | copy (w : Nat) (b : Nat) (r : List Nat) : s = b :: r → 2 ≤ w → w ≤ s.length → 0xC2 ≤ b → (b = 0xEF → w = 3) →
      RuneCase s (s.take w, w)

theorem lowerRune_cases (b0 : Nat) (r : List Nat) : RuneCase (b0 :: r) (lowerRune (b0 :: r)) := by
  unfold lowerRune
  simp only
  cases hw : utf8Width (b0 :: r) with
  | none =>
    simp only
    by_cases hb : b0 < 128
    · rw [utf8Width_ascii b0 r hb] at hw; simp at hw
    · exact .invalid b0 r rfl (by omega)
  | some w =>
    obtain ⟨h1, h2, h3, h4⟩ := utf8Width_bounds _ w hw
    simp only
    by_cases hw1 : w = 1
    · subst hw1
      obtain ⟨b, r', e, hb⟩ := h3 rfl
      simp only [List.cons.injEq] at e
      obtain ⟨rfl, rfl⟩ := e
      simp only [if_true]
      exact .ascii b0 r rfl hb
    · simp only [hw1, if_false]
      obtain ⟨b, r', e, hb, hef⟩ := h4 (by omega)
      simp only [List.cons.injEq] at e
      obtain ⟨rfl, rfl⟩ := e
      simp only [List.length_cons] at h2
      by_cases hi : (b0 :: r).take w = [0xC4, 0xB0]
      · have hw2 : w = 2 := by
          have := congrArg List.length hi
          simp [List.length_take] at this; omega
        subst hw2
        simp only [hi, if_true]
        exact .idot hi h2
      · simp only [hi, if_false]
        by_cases hk : (b0 :: r).take w = [0xE2, 0x84, 0xAA]
        · have hw3 : w = 3 := by
            have := congrArg List.length hk
            simp [List.length_take] at this; omega
          subst hw3
          simp only [hk, if_true]
          exact .kelvin hk h2
        · simp only [hk, if_false]
          exact .copy w b0 r rfl (by omega) h2 hb hef

theorem lowerRune_w (b0 : Nat) (r : List Nat) : 1 ≤ (lowerRune (b0 :: r)).2 ∧ (lowerRune (b0 :: r)).2 ≤ (b0 :: r).length := by
  have h := lowerRune_cases b0 r
  generalize lowerRune (b0 :: r) = x at h
  cases h with
  | ascii => simp
  | invalid => simp
  | idot _ h2 => exact ⟨by omega, h2⟩
  | kelvin _ h2 => exact ⟨by omega, h2⟩
  | copy w _ _ _ h2 h3 => exact ⟨by omega, h3⟩

/-! ### goToLower unfolds rune by rune -/

theorem lowerChunks_fuel (n : Nat) : ∀ (s : List Nat) (fuel : Nat), s.length ≤ n → fuel ≥ s.length →
    lowerChunks fuel s = lowerChunks s.length s := by
  induction n with
  | zero =>
    intro s fuel hs _
    have : s = [] := List.length_eq_zero_iff.mp (by omega)
    subst this
    cases fuel <;> simp [lowerChunks]
  | succ n ih =>
    intro s fuel hs hf
    match s with
    | [] => cases fuel <;> simp [lowerChunks]
    | b0 :: r =>
      obtain ⟨hw1, hw2⟩ := lowerRune_w b0 r
      cases fuel with
      | zero => simp at hf
      | succ f =>
        have hl : ((b0 :: r).drop (lowerRune (b0 :: r)).2).length ≤ r.length := by
          simp only [List.length_drop, List.length_cons]; omega
        simp only [List.length_cons, lowerChunks]
        rw [ih _ f (by simp at hs; omega) (by simp at hf; omega), ih _ r.length (by simp at hs; omega) hl]

theorem goToLower_nil : goToLower [] = [] := rfl

theorem goToLower_cons (b0 : Nat) (r : List Nat) :
    goToLower (b0 :: r) = (lowerRune (b0 :: r)).1 ++ goToLower ((b0 :: r).drop (lowerRune (b0 :: r)).2) := by
  obtain ⟨hw1, hw2⟩ := lowerRune_w b0 r
  have hl : ((b0 :: r).drop (lowerRune (b0 :: r)).2).length ≤ r.length := by
    simp only [List.length_drop, List.length_cons]; omega
  unfold goToLower
  simp only [List.length_cons, lowerChunks, List.flatten_cons]
  rw [lowerChunks_fuel r.length _ r.length hl hl]

/-! ### what a prefix match says about the source bytes -/

theorem hasPrefix_append_single (x : Nat) (X : List Nat) (a : Nat) (t : List Nat) :
    hasPrefix ([x] ++ X) (a :: t) = (x == a && hasPrefix X t) := by
  simp [hasPrefix]

/-- target byte `a` is ASCII and neither `i` nor `k`: the source starts with one ASCII byte folding to `a`. -/
theorem match_ascii (s : List Nat) (a : Nat) (t : List Nat) (ha : a < 128) (hi : a ≠ 105) (hk : a ≠ 107)
    (h : hasPrefix (goToLower s) (a :: t) = true) :
    ∃ b r, s = b :: r ∧ b < 128 ∧ ccharTolower b = a ∧ hasPrefix (goToLower r) t = true := by
  match s with
  | [] => simp [goToLower_nil, hasPrefix] at h
  | b0 :: r =>
    rw [goToLower_cons] at h
    have hc := lowerRune_cases b0 r
    generalize lowerRune (b0 :: r) = x at h hc
    cases hc with
    | ascii b r' e hb =>
      simp only [List.cons.injEq] at e
      obtain ⟨rfl, rfl⟩ := e
      simp only [List.drop_succ_cons, List.drop_zero, hasPrefix_append_single, Bool.and_eq_true, beq_iff_eq] at h
      exact ⟨b0, r, rfl, hb, h.1, h.2⟩
    | invalid b r' e hb =>
      simp [hasPrefix] at h; omega
    | idot =>
      simp [hasPrefix] at h; omega
    | kelvin =>
      simp [hasPrefix] at h; omega
    | copy w b r' e h2 h3 hb hef =>
      simp only [List.cons.injEq] at e
      obtain ⟨rfl, rfl⟩ := e
      have : (b0 :: r).take w = b0 :: r.take (w - 1) := by
        cases w with
        | zero => omega
        | succ w => simp
      simp only [this, List.cons_append, hasPrefix, Bool.and_eq_true, beq_iff_eq] at h
      omega

/-- target `EF BF BD` (U+FFFD): the source starts with one rune that `bytes.ToLower` turns into U+FFFD —
a byte ≥ 0x80 that starts no valid encoding, or the literal three bytes EF BF BD. -/
theorem match_fffd (s : List Nat) (t : List Nat)
    (h : hasPrefix (goToLower s) (0xEF :: 0xBF :: 0xBD :: t) = true) :
    (∃ b r, s = b :: r ∧ 128 ≤ b ∧ hasPrefix (goToLower r) t = true) ∨
    (∃ r, s = 0xEF :: 0xBF :: 0xBD :: r ∧ hasPrefix (goToLower r) t = true) := by
  match s with
  | [] => simp [goToLower_nil, hasPrefix] at h
  | b0 :: r =>
    rw [goToLower_cons] at h
    have hc := lowerRune_cases b0 r
    generalize lowerRune (b0 :: r) = x at h hc
    cases hc with
    | ascii b r' e hb =>
      simp only [List.cons.injEq] at e
      obtain ⟨rfl, rfl⟩ := e
      simp only [hasPrefix_append_single, Bool.and_eq_true, beq_iff_eq] at h
      have : ccharTolower b0 < 128 := by unfold ccharTolower; split <;> omega
      omega
    | invalid b r' e hb =>
      simp only [List.cons.injEq] at e
      obtain ⟨rfl, rfl⟩ := e
      simp only [List.drop_succ_cons, List.drop_zero, List.cons_append, List.nil_append, hasPrefix, beq_self_eq_true,
        Bool.true_and] at h
      exact .inl ⟨b0, r, rfl, hb, h⟩
    | idot => simp [hasPrefix] at h
    | kelvin => simp [hasPrefix] at h
    | copy w b r' e h2 h3 hb hef =>
      simp only [List.cons.injEq] at e
      obtain ⟨rfl, rfl⟩ := e
      have htake : (b0 :: r).take w = b0 :: r.take (w - 1) := by
        cases w with
        | zero => omega
        | succ w => simp
      have hb0 : b0 = 0xEF := by
        simp only [htake, List.cons_append, hasPrefix, Bool.and_eq_true, beq_iff_eq] at h
        exact h.1
      have hw3 : w = 3 := hef hb0
      subst hw3
      match r, h3, h with
      | b1 :: b2 :: r2, _, h =>
        simp only [List.take_succ_cons, List.take_zero, List.cons_append, List.nil_append, hasPrefix, Bool.and_eq_true,
          beq_iff_eq, List.drop_succ_cons, List.drop_zero] at h
        obtain ⟨_, h1, h2', h3'⟩ := h
        subst hb0; subst h1; subst h2'
        exact .inr ⟨r2, rfl, h3'⟩
      | [_], h3, _ => simp at h3
      | [], h3, _ => simp at h3

theorem lower_reply : goToLower STR_REPLY = [114, 101, 58] := by decide +kernel
theorem lower_forward : goToLower STR_FORWARD = [102, 119, 58] := by decide +kernel
theorem lower_legacy : goToLower STR_LEGACY_FORWARD =
    [91, 0xEF, 0xBF, 0xBD, 0xEF, 0xBF, 0xBD, 0xEF, 0xBF, 0xBD, 0xEF, 0xBF, 0xBD, 93] := by decide +kernel
theorem subject_lens : STR_REPLY.length = 3 ∧ STR_FORWARD.length = 3 ∧ STR_LEGACY_FORWARD.length = 6 := by
  decide +kernel

/-- a three-letter ASCII prefix (`Re:` / `Fw:`) matched: the title starts with three ASCII bytes. -/
theorem match_ascii3 (p : List Nat) (a b c : Nat) (ha : a < 128 ∧ a ≠ 105 ∧ a ≠ 107)
    (hb : b < 128 ∧ b ≠ 105 ∧ b ≠ 107) (hc : c < 128 ∧ c ≠ 105 ∧ c ≠ 107)
    (h : hasPrefix (goToLower p) [a, b, c] = true) :
    ∃ x y z r, p = x :: y :: z :: r ∧ x < 128 ∧ y < 128 ∧ z < 128 := by
  obtain ⟨x, r1, rfl, hx, _, h1⟩ := match_ascii p a _ ha.1 ha.2.1 ha.2.2 h
  obtain ⟨y, r2, rfl, hy, _, h2⟩ := match_ascii r1 b _ hb.1 hb.2.1 hb.2.2 h1
  obtain ⟨z, r3, rfl, hz, _, _⟩ := match_ascii r2 c _ hc.1 hc.2.1 hc.2.2 h2
  exact ⟨x, y, z, r3, rfl, hx, hy, hz⟩

/-- one U+FFFD of the target consumed: at least one source byte; exactly one byte ≥ 0x80 when no EF occurs. -/
theorem match_fffd' (s t : List Nat) (h : hasPrefix (goToLower s) (0xEF :: 0xBF :: 0xBD :: t) = true) :
    ∃ w r, 1 ≤ w ∧ s.length = w + r.length ∧ r = s.drop w ∧ hasPrefix (goToLower r) t = true ∧
      (0xEF ∉ s → ∃ b, s = b :: r ∧ 128 ≤ b) := by
  rcases match_fffd s t h with ⟨b, r, rfl, hb, h'⟩ | ⟨r, rfl, h'⟩
  · exact ⟨1, r, by omega, by simp; omega, by simp, h', fun _ => ⟨b, rfl, hb⟩⟩
  · exact ⟨3, r, by omega, by simp; omega, by simp, h', fun hne => absurd (by simp) hne⟩

theorem match_legacy (p : List Nat) (h : strcaseStartsWith p STR_LEGACY_FORWARD = true) :
    6 ≤ p.length ∧ (0xEF ∉ p → ∃ h1 h2 h3 h4 r, p = 91 :: h1 :: h2 :: h3 :: h4 :: 93 :: r ∧
      128 ≤ h1 ∧ 128 ≤ h2 ∧ 128 ≤ h3 ∧ 128 ≤ h4) := by
  unfold strcaseStartsWith at h
  rw [lower_legacy] at h
  obtain ⟨x, r0, rfl, hx, hlx, h0⟩ := match_ascii p 91 _ (by omega) (by omega) (by omega) h
  have hx91 : x = 91 := by
    unfold ccharTolower at hlx; split at hlx <;> omega
  subst hx91
  obtain ⟨w1, r1, hw1, hl1, hd1, h1, e1⟩ := match_fffd' r0 _ h0
  obtain ⟨w2, r2, hw2, hl2, hd2, h2, e2⟩ := match_fffd' r1 _ h1
  obtain ⟨w3, r3, hw3, hl3, hd3, h3, e3⟩ := match_fffd' r2 _ h2
  obtain ⟨w4, r4, hw4, hl4, hd4, h4, e4⟩ := match_fffd' r3 _ h3
  obtain ⟨y, r5, hr5, hy, hly, _⟩ := match_ascii r4 93 _ (by omega) (by omega) (by omega) h4
  have hy93 : y = 93 := by
    unfold ccharTolower at hly; split at hly <;> omega
  subst hy93
  refine ⟨by simp [hr5] at hl4; simp; omega, ?_⟩
  intro hne
  have n0 : 0xEF ∉ r0 := fun hm => hne (by simp [hm])
  obtain ⟨b1, eb1, hb1⟩ := e1 n0
  have n1 : 0xEF ∉ r1 := fun hm => n0 (by rw [eb1]; simp [hm])
  obtain ⟨b2, eb2, hb2⟩ := e2 n1
  have n2 : 0xEF ∉ r2 := fun hm => n1 (by rw [eb2]; simp [hm])
  obtain ⟨b3, eb3, hb3⟩ := e3 n2
  have n3 : 0xEF ∉ r3 := fun hm => n2 (by rw [eb3]; simp [hm])
  obtain ⟨b4, eb4, hb4⟩ := e4 n3
  exact ⟨b1, b2, b3, b4, r5, by rw [eb1, eb2, eb3, eb4, hr5], hb1, hb2, hb3, hb4⟩

/-- the step function: what matched, how long it is, and what that says about the title's first bytes. -/
theorem subjectStep_spec (p : List Nat) (n ty : Nat) (h : subjectStep p = some (n, ty)) :
    n ≤ p.length ∧ 3 ≤ n ∧
    ((∃ x y z r, n = 3 ∧ p = x :: y :: z :: r ∧ x < 128 ∧ y < 128 ∧ z < 128) ∨
     (n = 6 ∧ (0xEF ∉ p → ∃ h1 h2 h3 h4 r, p = 91 :: h1 :: h2 :: h3 :: h4 :: 93 :: r ∧
        128 ≤ h1 ∧ 128 ≤ h2 ∧ 128 ≤ h3 ∧ 128 ≤ h4))) := by
  obtain ⟨l1, l2, l3⟩ := subject_lens
  unfold subjectStep at h
  by_cases c1 : strcaseStartsWith p STR_REPLY = true
  · simp only [c1, if_true, Option.some.injEq, Prod.mk.injEq] at h
    unfold strcaseStartsWith at c1
    rw [lower_reply] at c1
    obtain ⟨x, y, z, r, rfl, hx, hy, hz⟩ := match_ascii3 p 114 101 58 (by omega) (by omega) (by omega) c1
    rw [l1] at h
    exact ⟨by simp; omega, by omega, .inl ⟨x, y, z, r, by omega, rfl, hx, hy, hz⟩⟩
  · simp only [c1, Bool.false_eq_true, if_false] at h
    by_cases c2 : strcaseStartsWith p STR_FORWARD = true
    · simp only [c2, if_true, Option.some.injEq, Prod.mk.injEq] at h
      unfold strcaseStartsWith at c2
      rw [lower_forward] at c2
      obtain ⟨x, y, z, r, rfl, hx, hy, hz⟩ := match_ascii3 p 102 119 58 (by omega) (by omega) (by omega) c2
      rw [l2] at h
      exact ⟨by simp; omega, by omega, .inl ⟨x, y, z, r, by omega, rfl, hx, hy, hz⟩⟩
    · simp only [c2, Bool.false_eq_true, if_false] at h
      by_cases c3 : strcaseStartsWith p STR_LEGACY_FORWARD = true
      · simp only [c3, if_true, Option.some.injEq, Prod.mk.injEq] at h
        obtain ⟨h6, hdet⟩ := match_legacy p c3
        rw [l3] at h
        exact ⟨by omega, by omega, .inr ⟨by omega, hdet⟩⟩
      · simp [c3] at h

/-! ### the loop: total, terminating, returns a suffix, keeps the DBCS boundary when no EF occurs -/

theorem slice_drop (p : List Nat) (n : Nat) (h : n ≤ p.length) : slice p n p.length = .ok (p.drop n) := by
  unfold slice
  rw [if_pos ⟨h, Nat.le_refl _⟩]
  simp

theorem skipBlank_spec (p : List Nat) (h : p ≠ []) :
    skipBlank p = .ok (if p.head? = some 32 then p.drop 1 else p) := by
  match p, h with
  | c :: r, _ =>
    unfold skipBlank
    have hi : idx (c :: r) 0 = .ok c := by simp [idx]
    simp only [hi, bind, Except.bind]
    by_cases hc : c = 32
    · simp only [hc, if_true, List.head?_cons]
      exact slice_drop (32 :: r) 1 (by simp)
    · simp [hc, pure, Except.pure]

/-- the scan state after consuming `pre` from a state that is not "inside a character". -/
def foldFrom (st : Nat) (pre : List Nat) : Nat := pre.foldl (fun st c => dbcsNextStatus c st) st

theorem next_ascii (c st : Nat) (h : st ≠ DBCS_LEADING) (hc : c < 128) : dbcsNextStatus c st = DBCS_ASCII := by
  unfold dbcsNextStatus; rw [if_neg h, if_neg (by omega)]

theorem next_trail (c : Nat) : dbcsNextStatus c DBCS_LEADING = DBCS_TRAILING := by
  unfold dbcsNextStatus; rw [if_pos rfl]

theorem subjectLoop_spec (fuel : Nat) (p : List Nat) (ty : Nat) (hf : fuel ≥ p.length + 1) :
    ∃ ty' pre r, subjectLoop fuel p ty = .ok (ty', r) ∧ p = pre ++ r ∧
      (0xEF ∉ p → ∀ st, st ≠ DBCS_LEADING → foldFrom st pre ≠ DBCS_LEADING) := by
  obtain ⟨k0, k1, k2⟩ := dbcs_consts
  induction fuel generalizing p ty with
  | zero => omega
  | succ fuel ih =>
    rw [subjectLoop]
    by_cases hp : p.length = 0
    · exact ⟨ty, [], p, by simp [hp, pure, Except.pure], by simp, fun _ st hst => by simpa [foldFrom] using hst⟩
    · simp only [hp, if_false]
      cases hs : subjectStep p with
      | none => exact ⟨ty, [], p, by simp [pure, Except.pure], by simp, fun _ st hst => by simpa [foldFrom] using hst⟩
      | some nt =>
        obtain ⟨n, ty'⟩ := nt
        obtain ⟨hn, hn3, hshape⟩ := subjectStep_spec p n ty' hs
        simp only [slice_drop p n hn, bind, Except.bind]
        -- what was consumed by the prefix keeps the boundary
        have hpre : 0xEF ∉ p → ∀ st, st ≠ DBCS_LEADING → foldFrom st (p.take n) ≠ DBCS_LEADING := by
          intro hne st hst
          rcases hshape with ⟨x, y, z, r, rfl, rfl, hx, hy, hz⟩ | ⟨rfl, hdet⟩
          · simp only [List.take_succ_cons, List.take_zero, foldFrom, List.foldl_cons, List.foldl_nil]
            rw [next_ascii x st hst hx, next_ascii y _ (by omega) hy, next_ascii z _ (by omega) hz]; omega
          · obtain ⟨h1, h2, h3, h4, r, rfl, g1, g2, g3, g4⟩ := hdet hne
            simp only [List.take_succ_cons, List.take_zero, foldFrom, List.foldl_cons, List.foldl_nil]
            rw [next_ascii 91 st hst (by omega), next_lead h1 _ (by omega) g1, next_trail,
              next_lead h3 _ (by omega) g3, next_trail, next_ascii 93 _ (by omega) (by omega)]; omega
        by_cases hd : (p.drop n).length = 0
        · refine ⟨ty', p.take n, p.drop n, by simp [hd, pure, Except.pure], by simp, hpre⟩
        · simp only [hd, if_false]
          have hne : p.drop n ≠ [] := by intro h; rw [h] at hd; simp at hd
          rw [skipBlank_spec _ hne]
          -- the optional blank
          by_cases hb : (p.drop n).head? = some 32
          · simp only [hb, if_true]
            obtain ⟨ty'', pre, r, h1, h2, h3⟩ := ih (List.drop 1 (p.drop n)) ty'
              (by simp only [List.length_drop]; omega)
            refine ⟨ty'', p.take n ++ [32] ++ pre, r, h1, ?_, ?_⟩
            · have e : p.drop n = 32 :: List.drop 1 (p.drop n) := by
                match hq : p.drop n, hb with
                | c :: q, hb => simp at hb; simp [hb]
              calc p = p.take n ++ p.drop n := by simp
                _ = p.take n ++ (32 :: List.drop 1 (p.drop n)) := by rw [← e]
                _ = p.take n ++ [32] ++ pre ++ r := by rw [h2]; simp
            · intro hne' st hst
              have hsuf : 0xEF ∉ List.drop 1 (p.drop n) := fun hm =>
                hne' (List.mem_of_mem_drop (List.mem_of_mem_drop hm))
              simp only [foldFrom, List.foldl_append, List.foldl_cons, List.foldl_nil]
              have a1 := hpre hne' st hst
              simp only [foldFrom] at a1
              have a2 : dbcsNextStatus 32 (List.foldl (fun st c => dbcsNextStatus c st) st (p.take n)) ≠ DBCS_LEADING := by
                rw [next_ascii 32 _ a1 (by omega)]; omega
              exact h3 hsuf _ a2
          · simp only [hb, if_false]
            obtain ⟨ty'', pre, r, h1, h2, h3⟩ := ih (p.drop n) ty' (by simp only [List.length_drop]; omega)
            refine ⟨ty'', p.take n ++ pre, r, h1, ?_, ?_⟩
            · calc p = p.take n ++ p.drop n := by simp
                _ = p.take n ++ pre ++ r := by rw [h2]; simp
            · intro hne' st hst
              have hsuf : 0xEF ∉ p.drop n := fun hm => hne' (List.mem_of_mem_drop hm)
              simp only [foldFrom, List.foldl_append]
              exact h3 hsuf _ (hpre hne' st hst)

end PttVerif.C18
