import PttVerif.Proofs.C18Misc
/-
C18 (group 3, continued) — helper lemmas for cmsys.StrcaseStartsWith (after fix ff0e11f: strncasecmp over the
bytes) and cmbbs.SubjectEx: the matcher equals `CstrCaseHasPrefix`; what a match says about the title's first
bytes; totality / termination / suffix; the DBCS-boundary invariant (at full strength).
-/
namespace PttVerif.C18
open PttVerif

/-! ### StrcaseStartsWith -/

theorem startsWithLoop_spec (done s pre : List Nat) (h : pre.length ≤ s.length) :
    startsWithLoop (done ++ s) pre done.length = .ok (hasPrefix (s.map ccharTolower) (pre.map ccharTolower)) := by
  induction pre generalizing done s with
  | nil => simp [startsWithLoop, hasPrefix, pure, Except.pure]
  | cons e rest ih =>
    match s, h with
    | c :: s', h =>
      have hi : idx (done ++ c :: s') done.length = .ok c := idx_append_len done c s'
      simp only [startsWithLoop, hi, bind, Except.bind, List.map_cons, hasPrefix]
      by_cases hne : ccharTolower c = ccharTolower e
      · have := ih (done ++ [c]) s' (by simp at h; omega)
        simp only [List.append_assoc, List.singleton_append, List.length_append, List.length_cons,
          List.length_nil] at this
        simp only [hne, ne_eq, not_true, if_false, beq_self_eq_true, Bool.true_and]
        exact this
      · have : (ccharTolower c == ccharTolower e) = false := by simpa using hne
        simp [hne, this, pure, Except.pure]

/-- the matcher never faults and is exactly "the ASCII-folded prefix is a prefix of the ASCII-folded string". -/
theorem strcaseStartsWith_eq (str pre : List Nat) :
    strcaseStartsWith str pre = .ok (hasPrefix (str.map ccharTolower) (pre.map ccharTolower)) := by
  unfold strcaseStartsWith
  by_cases h : str.length < pre.length
  · rw [if_pos h]
    have : hasPrefix (str.map ccharTolower) (pre.map ccharTolower) = false := by
      cases hp : hasPrefix (str.map ccharTolower) (pre.map ccharTolower) with
      | false => rfl
      | true =>
        have := ((hasPrefix_iff _ _).mp hp).length_le
        simp at this; omega
    rw [this]; rfl
  · rw [if_neg h]
    simpa using startsWithLoop_spec [] str pre (by omega)

/-- the pure reading of the `if / else if` chain. -/
def subjectStepP (p : List Nat) : Option (Nat × Nat) :=
  if hasPrefix (p.map ccharTolower) (STR_REPLY.map ccharTolower) then some (STR_REPLY.length, SUBJECT_REPLY)
  else if hasPrefix (p.map ccharTolower) (STR_FORWARD.map ccharTolower) then some (STR_FORWARD.length, SUBJECT_FORWARD)
  else if hasPrefix (p.map ccharTolower) (STR_LEGACY_FORWARD.map ccharTolower) then
    some (STR_LEGACY_FORWARD.length, SUBJECT_FORWARD)
  else none

theorem subjectStep_eq (p : List Nat) : subjectStep p = .ok (subjectStepP p) := by
  unfold subjectStep subjectStepP
  simp only [strcaseStartsWith_eq, bind, Except.bind]
  split <;> (try split) <;> (try split) <;> rfl

/-! ### what a match says about the title's first bytes -/

theorem lower_reply : STR_REPLY.map ccharTolower = [114, 101, 58] := by decide +kernel
theorem lower_forward : STR_FORWARD.map ccharTolower = [102, 119, 58] := by decide +kernel
theorem lower_legacy : STR_LEGACY_FORWARD.map ccharTolower = [91, 0xC2, 0xE0, 0xBF, 0xFD, 93] := by decide +kernel
theorem subject_lens : STR_REPLY.length = 3 ∧ STR_FORWARD.length = 3 ∧ STR_LEGACY_FORWARD.length = 6 := by
  decide +kernel

theorem lower_ascii_src (b t : Nat) (h : ccharTolower b = t) (ht : t < 128) : b < 128 := by
  unfold ccharTolower at h; split at h <;> omega

theorem lower_high_src (b t : Nat) (h : ccharTolower b = t) (ht : 128 ≤ t) : b = t := by
  unfold ccharTolower at h; split at h <;> omega

theorem match3 (p : List Nat) (a b c : Nat) (h : hasPrefix (p.map ccharTolower) [a, b, c] = true) :
    ∃ x y z r, p = x :: y :: z :: r ∧ ccharTolower x = a ∧ ccharTolower y = b ∧ ccharTolower z = c := by
  match p, h with
  | x :: y :: z :: r, h =>
    simp only [List.map_cons, hasPrefix, Bool.and_eq_true, beq_iff_eq] at h
    exact ⟨x, y, z, r, rfl, h.1, h.2.1, h.2.2.1⟩
  | [_, _], h => simp [hasPrefix] at h
  | [_], h => simp [hasPrefix] at h
  | [], h => simp [hasPrefix] at h

theorem match6 (p : List Nat) (a b c d e f : Nat)
    (h : hasPrefix (p.map ccharTolower) [a, b, c, d, e, f] = true) :
    ∃ x1 x2 x3 x4 x5 x6 r, p = x1 :: x2 :: x3 :: x4 :: x5 :: x6 :: r ∧ ccharTolower x1 = a ∧ ccharTolower x2 = b ∧
      ccharTolower x3 = c ∧ ccharTolower x4 = d ∧ ccharTolower x5 = e ∧ ccharTolower x6 = f := by
  obtain ⟨x1, x2, x3, r, rfl, h1, h2, h3⟩ : ∃ x y z r, p = x :: y :: z :: r ∧ ccharTolower x = a ∧
      ccharTolower y = b ∧ ccharTolower z = c := by
    match p, h with
    | x :: y :: z :: r, h =>
      simp only [List.map_cons, hasPrefix, Bool.and_eq_true, beq_iff_eq] at h
      exact ⟨x, y, z, r, rfl, h.1, h.2.1, h.2.2.1⟩
    | [_, _], h => simp [hasPrefix] at h
    | [_], h => simp [hasPrefix] at h
    | [], h => simp [hasPrefix] at h
  have h' : hasPrefix (r.map ccharTolower) [d, e, f] = true := by
    simp only [List.map_cons, hasPrefix, Bool.and_eq_true, beq_iff_eq] at h
    exact h.2.2.2
  obtain ⟨x4, x5, x6, r', rfl, h4, h5, h6⟩ := match3 r d e f h'
  exact ⟨x1, x2, x3, x4, x5, x6, r', rfl, h1, h2, h3, h4, h5, h6⟩

/-- the step function: what matched, how long it is, and what that says about the title's first bytes —
three ASCII bytes, or exactly the six bytes of the legacy forward tag. -/
theorem subjectStepP_spec (p : List Nat) (n ty : Nat) (h : subjectStepP p = some (n, ty)) :
    n ≤ p.length ∧ 3 ≤ n ∧
    ((∃ x y z r, n = 3 ∧ p = x :: y :: z :: r ∧ x < 128 ∧ y < 128 ∧ z < 128) ∨
     (∃ r, n = 6 ∧ p = 91 :: 0xC2 :: 0xE0 :: 0xBF :: 0xFD :: 93 :: r)) := by
  obtain ⟨l1, l2, l3⟩ := subject_lens
  unfold subjectStepP at h
  rw [lower_reply, lower_forward, lower_legacy] at h
  by_cases c1 : hasPrefix (p.map ccharTolower) [114, 101, 58] = true
  · simp only [c1, if_true, Option.some.injEq, Prod.mk.injEq] at h
    obtain ⟨x, y, z, r, rfl, hx, hy, hz⟩ := match3 p _ _ _ c1
    rw [l1] at h
    exact ⟨by simp; omega, by omega, .inl ⟨x, y, z, r, by omega, rfl,
      lower_ascii_src x _ hx (by omega), lower_ascii_src y _ hy (by omega), lower_ascii_src z _ hz (by omega)⟩⟩
  · simp only [c1, Bool.false_eq_true, if_false] at h
    by_cases c2 : hasPrefix (p.map ccharTolower) [102, 119, 58] = true
    · simp only [c2, if_true, Option.some.injEq, Prod.mk.injEq] at h
      obtain ⟨x, y, z, r, rfl, hx, hy, hz⟩ := match3 p _ _ _ c2
      rw [l2] at h
      exact ⟨by simp; omega, by omega, .inl ⟨x, y, z, r, by omega, rfl,
        lower_ascii_src x _ hx (by omega), lower_ascii_src y _ hy (by omega), lower_ascii_src z _ hz (by omega)⟩⟩
    · simp only [c2, Bool.false_eq_true, if_false] at h
      by_cases c3 : hasPrefix (p.map ccharTolower) [91, 0xC2, 0xE0, 0xBF, 0xFD, 93] = true
      · simp only [c3, if_true, Option.some.injEq, Prod.mk.injEq] at h
        obtain ⟨x1, x2, x3, x4, x5, x6, r, rfl, h1, h2, h3, h4, h5, h6⟩ := match6 p _ _ _ _ _ _ c3
        have e1 : x1 = 91 := by unfold ccharTolower at h1; split at h1 <;> omega
        have e6 : x6 = 93 := by unfold ccharTolower at h6; split at h6 <;> omega
        have e2 := lower_high_src x2 _ h2 (by omega)
        have e3 := lower_high_src x3 _ h3 (by omega)
        have e4 := lower_high_src x4 _ h4 (by omega)
        have e5 := lower_high_src x5 _ h5 (by omega)
        subst e1 e2 e3 e4 e5 e6
        rw [l3] at h
        exact ⟨by simp; omega, by omega, .inr ⟨r, by omega, rfl⟩⟩
      · simp [c3] at h

/-! ### the loop: total, terminating, returns a suffix, always cuts at a character boundary -/

theorem slice_drop (p : List Nat) (n : Nat) (h : n ≤ p.length) : slice p n p.length = .ok (p.drop n) := by
  unfold slice
  rw [if_pos ⟨h, Nat.le_refl _⟩]
  simp

theorem skipBlank_spec (p : List Nat) (h : p ≠ []) :
    skipBlank p = .ok (if p.head? = some 32 then p.drop 1 else p) := by
  match p, h with
  | c :: r, _ =>
    unfold skipBlank
    have hi : idx (c :: r) 0 = .ok c := by simp [idx]
    simp only [hi, bind, Except.bind]
    by_cases hc : c = 32
    · simp only [hc, if_true, List.head?_cons]
      exact slice_drop (32 :: r) 1 (by simp)
    · simp [hc, pure, Except.pure]

/-- the scan state after consuming `pre` from state `st`. -/
def foldFrom (st : Nat) (pre : List Nat) : Nat := pre.foldl (fun st c => dbcsNextStatus c st) st

theorem next_ascii (c st : Nat) (h : st ≠ DBCS_LEADING) (hc : c < 128) : dbcsNextStatus c st = DBCS_ASCII := by
  unfold dbcsNextStatus; rw [if_neg h, if_neg (by omega)]

theorem next_trail (c : Nat) : dbcsNextStatus c DBCS_LEADING = DBCS_TRAILING := by
  unfold dbcsNextStatus; rw [if_pos rfl]

theorem subjectLoop_spec (fuel : Nat) (p : List Nat) (ty : Nat) (hf : fuel ≥ p.length + 1) :
    ∃ ty' pre r, subjectLoop fuel p ty = .ok (ty', r) ∧ p = pre ++ r ∧
      (∀ st, st ≠ DBCS_LEADING → foldFrom st pre ≠ DBCS_LEADING) := by
  obtain ⟨k0, k1, k2⟩ := dbcs_consts
  induction fuel generalizing p ty with
  | zero => omega
  | succ fuel ih =>
    rw [subjectLoop]
    by_cases hp : p.length = 0
    · exact ⟨ty, [], p, by simp [hp, pure, Except.pure], by simp, fun st hst => by simpa [foldFrom] using hst⟩
    · simp only [hp, if_false, subjectStep_eq, bind, Except.bind]
      cases hs : subjectStepP p with
      | none => exact ⟨ty, [], p, by simp [pure, Except.pure], by simp, fun st hst => by simpa [foldFrom] using hst⟩
      | some nt =>
        obtain ⟨n, ty'⟩ := nt
        obtain ⟨hn, hn3, hshape⟩ := subjectStepP_spec p n ty' hs
        simp only [slice_drop p n hn]
        -- what was consumed by the prefix keeps the boundary
        have hpre : ∀ st, st ≠ DBCS_LEADING → foldFrom st (p.take n) ≠ DBCS_LEADING := by
          intro st hst
          rcases hshape with ⟨x, y, z, r, rfl, rfl, hx, hy, hz⟩ | ⟨r, rfl, rfl⟩
          · simp only [List.take_succ_cons, List.take_zero, foldFrom, List.foldl_cons, List.foldl_nil]
            rw [next_ascii x st hst hx, next_ascii y _ (by omega) hy, next_ascii z _ (by omega) hz]; omega
          · simp only [List.take_succ_cons, List.take_zero, foldFrom, List.foldl_cons, List.foldl_nil]
            rw [next_ascii 91 st hst (by omega), next_lead 0xC2 _ (by omega) (by omega), next_trail,
              next_lead 0xBF _ (by omega) (by omega), next_trail, next_ascii 93 _ (by omega) (by omega)]; omega
        by_cases hd : (p.drop n).length = 0
        · refine ⟨ty', p.take n, p.drop n, by simp [hd, pure, Except.pure], by simp, hpre⟩
        · simp only [hd, if_false]
          have hne : p.drop n ≠ [] := by intro h; rw [h] at hd; simp at hd
          rw [skipBlank_spec _ hne]
          by_cases hb : (p.drop n).head? = some 32
          · simp only [hb, if_true]
            obtain ⟨ty'', pre, r, h1, h2, h3⟩ := ih (List.drop 1 (p.drop n)) ty'
              (by simp only [List.length_drop]; omega)
            refine ⟨ty'', p.take n ++ [32] ++ pre, r, h1, ?_, ?_⟩
            · have e : p.drop n = 32 :: List.drop 1 (p.drop n) := by
                match hq : p.drop n, hb with
                | c :: q, hb => simp at hb; simp [hb]
              calc p = p.take n ++ p.drop n := by simp
                _ = p.take n ++ (32 :: List.drop 1 (p.drop n)) := by rw [← e]
                _ = p.take n ++ [32] ++ pre ++ r := by rw [h2]; simp
            · intro st hst
              simp only [foldFrom, List.foldl_append, List.foldl_cons, List.foldl_nil]
              have a1 := hpre st hst
              simp only [foldFrom] at a1
              have a2 : dbcsNextStatus 32 (List.foldl (fun st c => dbcsNextStatus c st) st (p.take n)) ≠ DBCS_LEADING := by
                rw [next_ascii 32 _ a1 (by omega)]; omega
              exact h3 _ a2
          · simp only [hb, if_false]
            obtain ⟨ty'', pre, r, h1, h2, h3⟩ := ih (p.drop n) ty' (by simp only [List.length_drop]; omega)
            refine ⟨ty'', p.take n ++ pre, r, h1, ?_, ?_⟩
            · calc p = p.take n ++ p.drop n := by simp
                _ = p.take n ++ pre ++ r := by rw [h2]; simp
            · intro st hst
              simp only [foldFrom, List.foldl_append]
              exact h3 _ (hpre st hst)

end PttVerif.C18
