import PttVerif.Proofs.C12b
/-
C12 — helper lemmas.  Part 3: histories (on the abstract table and on the model), the state after
ReloadBCache, an insertion sort that satisfies `SortSpec` (non-vacuity, concrete witnesses).
-/
namespace PttVerif.C12
open PttVerif

/-! ### one step on the abstract table -/

theorem specDecide_ne_ok (l : List Nat) (d : List Bytes) (t : List Rec) (q : Req) (b : Nat) :
    specDecide l d t q ≠ some (.ok b) := by
  unfold specDecide
  repeat' split
  all_goals simp

theorem specDecide_none_valid {l : List Nat} {d : List Bytes} {t : List Rec} {q : Req}
    (h : specDecide l d t q = none) : validNameSpec q.name = true ∧ nameTaken t q.name = false := by
  unfold specDecide at h
  repeat' split at h
  all_goals first | cases h | skip
  rename_i h1 h2 h3 h4 h5 h6 h7
  exact ⟨by simpa using h3, by simpa using h4⟩

theorem occupied_normalise {users : List Bytes} {q : Req} (h : validNameSpec q.name = true) :
    occupied (normalise users q) = true := by
  rw [occupied_true_iff]; exact validName_key_ne h

theorem SpecStep.accepted {users : List Bytes} {letters : List Nat} {t t' : List Rec} {d d' : List Bytes}
    {q : Req} {b : Nat} (h : SpecStep users letters t d q (.ok b) t' d') :
    validNameSpec q.name = true ∧ nameTaken t q.name = false ∧ 1 ≤ b ∧ d' = d ++ [cstr q.name] ∧
    t'[b - 1]? = some (normalise users q) ∧ (∀ r, t[b - 1]? = some r → occupied r = false) ∧
    (∀ j, j ≠ b - 1 → j < t.length → t'[j]? = t[j]?) ∧
    ((b - 1 < t.length ∧ t' = t.set (b - 1) (normalise users q)) ∨
     (hasVacant t = false ∧ b - 1 = t.length ∧ t' = t ++ [normalise users q])) := by
  unfold SpecStep at h
  split at h
  · rename_i r hr
    exact absurd (h.1 ▸ hr) (specDecide_ne_ok _ _ _ _ _)
  · rename_i hn
    obtain ⟨hv, hnt⟩ := specDecide_none_valid hn
    obtain ⟨k, hk, hd, hcase⟩ := h
    cases hk
    rw [Nat.add_sub_cancel]
    refine ⟨hv, hnt, by omega, hd, ?_, ?_, ?_, ?_⟩
    · rcases hcase with ⟨hkl, _, ht⟩ | ⟨_, hkl, ht⟩
      · rw [ht, List.getElem?_set_self hkl]
      · rw [ht, hkl, List.getElem?_append_right (Nat.le_refl _)]; simp
    · intro r hr
      rcases hcase with ⟨_, ⟨r0, hr0, ho⟩, _⟩ | ⟨_, hkl, _⟩
      · rw [hr0] at hr; cases hr; exact ho
      · rw [hkl, List.getElem?_eq_none (Nat.le_refl _)] at hr; cases hr
    · intro j hj hjl
      rcases hcase with ⟨_, _, ht⟩ | ⟨_, _, ht⟩
      · rw [ht, List.getElem?_set_ne (Ne.symm hj)]
      · rw [ht, List.getElem?_append_left hjl]
    · rcases hcase with ⟨hkl, _, ht⟩ | ⟨hvv, hkl, ht⟩
      · exact Or.inl ⟨hkl, ht⟩
      · exact Or.inr ⟨hvv, hkl, ht⟩

theorem SpecStep.refused {users : List Bytes} {letters : List Nat} {t t' : List Rec} {d d' : List Bytes}
    {q : Req} {res : Res} (h : SpecStep users letters t d q res t' d') (hr : ∀ b, res ≠ .ok b) :
    t' = t ∧ d' = d := by
  unfold SpecStep at h
  split at h
  · exact ⟨h.2.1, h.2.2⟩
  · obtain ⟨k, hk, _⟩ := h
    exact absurd hk (hr _)

/-- a step never touches an occupied slot. -/
theorem SpecStep.keep {users : List Bytes} {letters : List Nat} {t t' : List Rec} {d d' : List Bytes}
    {q : Req} {res : Res} (h : SpecStep users letters t d q res t' d') {k : Nat} {r : Rec}
    (hr : t[k]? = some r) (ho : occupied r = true) : t'[k]? = some r := by
  cases res with
  | ok b =>
      obtain ⟨_, _, _, _, _, hvac, hframe, _⟩ := h.accepted
      have hkl : k < t.length := by
        rcases Nat.lt_or_ge k t.length with h' | h'
        · exact h'
        · rw [List.getElem?_eq_none h'] at hr; cases hr
      have hne : k ≠ b - 1 := by
        intro e; subst e
        have := hvac r hr
        rw [ho] at this; cases this
      rw [hframe k hne hkl]; exact hr
  | _ =>
      all_goals
        obtain ⟨ht, _⟩ := h.refused (by intro b hb; cases hb)
        rw [ht]; exact hr

/-! ### histories on the abstract table -/

theorem SpecRun.keep {users : List Bytes} {letters : List Nat} {t tf : List Rec} {d df : List Bytes}
    {qs : List Req} {rs : List Res} (h : SpecRun users letters t d qs rs tf df) {k : Nat} {r : Rec}
    (hr : t[k]? = some r) (ho : occupied r = true) : tf[k]? = some r := by
  induction h with
  | nil => exact hr
  | cons hstep _ ih => exact ih (hstep.keep hr ho)

theorem SpecRun.length_eq {users : List Bytes} {letters : List Nat} {t tf : List Rec} {d df : List Bytes}
    {qs : List Req} {rs : List Res} (h : SpecRun users letters t d qs rs tf df) : rs.length = qs.length := by
  induction h with
  | nil => rfl
  | cons _ _ ih => simp [ih]

/-- the slot an accepted request of a history gets was not occupied when the history began. -/
theorem SpecRun.fresh {users : List Bytes} {letters : List Nat} {t tf : List Rec} {d df : List Bytes}
    {qs : List Req} {rs : List Res} (h : SpecRun users letters t d qs rs tf df) {i b : Nat}
    (hi : rs[i]? = some (.ok b)) : ∀ r, t[b - 1]? = some r → occupied r = false := by
  induction h generalizing i with
  | nil => simp at hi
  | cons hstep _ ih =>
      intro r hr
      cases i with
      | zero =>
          simp only [List.getElem?_cons_zero, Option.some.injEq] at hi
          subst hi
          exact hstep.accepted.2.2.2.2.2.1 r hr
      | succ i =>
          simp only [List.getElem?_cons_succ] at hi
          cases ho : occupied r with
          | false => rfl
          | true =>
              have := ih hi r (hstep.keep hr ho)
              rw [ho] at this; cases this

/-- every accepted request of a history holds, at the end, the slot it was given, with the normalised header. -/
theorem SpecRun.final {users : List Bytes} {letters : List Nat} {t tf : List Rec} {d df : List Bytes}
    {qs : List Req} {rs : List Res} (h : SpecRun users letters t d qs rs tf df) {i b : Nat} {q : Req}
    (hi : rs[i]? = some (.ok b)) (hq : qs[i]? = some q) :
    1 ≤ b ∧ tf[b - 1]? = some (normalise users q) ∧ occupied (normalise users q) = true := by
  induction h generalizing i with
  | nil => simp at hi
  | cons hstep hrest ih =>
      cases i with
      | zero =>
          simp only [List.getElem?_cons_zero, Option.some.injEq] at hi hq
          subst hi; subst hq
          obtain ⟨hv, _, hb, _, hget, _⟩ := hstep.accepted
          exact ⟨hb, hrest.keep hget (occupied_normalise hv), occupied_normalise hv⟩
      | succ i =>
          simp only [List.getElem?_cons_succ] at hi hq
          exact ih hi hq

/-- two accepted requests of a history never share a slot. -/
theorem SpecRun.slots_distinct {users : List Bytes} {letters : List Nat} {t tf : List Rec} {d df : List Bytes}
    {qs : List Req} {rs : List Res} (h : SpecRun users letters t d qs rs tf df) {i j b b' : Nat}
    (hij : i < j) (hi : rs[i]? = some (.ok b)) (hj : rs[j]? = some (.ok b')) : b ≠ b' := by
  induction h generalizing i j with
  | nil => simp at hi
  | cons hstep hrest ih =>
      cases j with
      | zero => omega
      | succ j =>
          simp only [List.getElem?_cons_succ] at hj
          cases i with
          | zero =>
              simp only [List.getElem?_cons_zero, Option.some.injEq] at hi
              subst hi
              obtain ⟨hv, _, hb, _, hget, _⟩ := hstep.accepted
              intro e; subst e
              have := hrest.fresh hj _ hget
              rw [occupied_normalise hv] at this; cases this
          | succ i =>
              simp only [List.getElem?_cons_succ] at hi
              exact ih (by omega) hi hj

/-! ### histories on the model -/

theorem run_history {srt : Sorter} (hs : SortSpec srt) (qs : List Req) {s : State} (h : Inv s) :
    ∃ rs, results srt s qs = rs.map .ok ∧ Inv (run srt s qs) ∧
      SpecRun s.users s.letters s.brd s.dirs qs rs (run srt s qs).brd (run srt s qs).dirs ∧
      (run srt s qs).users = s.users ∧ (run srt s qs).letters = s.letters := by
  induction qs generalizing s with
  | nil => exact ⟨[], rfl, h, SpecRun.nil _ _, rfl, rfl⟩
  | cons q qs ih =>
      obtain ⟨res, hres, hI, hstep, hu, hl, _, _⟩ := newBoard_step hs h q
      obtain ⟨rs, hrs, hI', hrun, hu', hl'⟩ := ih hI
      rw [hu, hl] at hrun
      refine ⟨res :: rs, ?_, hI', SpecRun.cons hstep hrun, hu'.trans hu, hl'.trans hl⟩
      simp only [results, hres, hrs, List.map_cons]

end PttVerif.C12
