import PttVerif.Proofs.C12b
/-
C12 — helper lemmas.  Part 3: histories (on the abstract table and on the model), the state after
ReloadBCache, an insertion sort that satisfies `SortSpec` (non-vacuity, concrete witnesses).
-/
namespace PttVerif.C12
open PttVerif

/-! ### one step on the abstract table -/

theorem specDecide_ne_ok (l : List Nat) (d : List Bytes) (t : List Rec) (q : Req) (b : Nat) :
    specDecide l d t q ≠ some (.ok b) := by
  unfold specDecide
  repeat' split
  all_goals simp

theorem specDecide_none_valid {l : List Nat} {d : List Bytes} {t : List Rec} {q : Req}
    (h : specDecide l d t q = none) : validNameSpec q.name = true ∧ nameTaken t q.name = false := by
  unfold specDecide at h
  repeat' split at h
  all_goals first | cases h | skip
  rename_i h1 h1' h2 h3 h4 h5 h6 h7
  exact ⟨by simpa using h3, by simpa using h4⟩

theorem occupied_normalise {users : List Bytes} {q : Req} (h : validNameSpec q.name = true) :
    occupied (normalise users q) = true := by
  rw [occupied_true_iff]; exact validName_key_ne h

theorem SpecStep.accepted {users : List Bytes} {letters : List Nat} {t t' : List Rec} {d d' : List Bytes}
    {q : Req} {b : Nat} (h : SpecStep users letters t d q (.ok b) t' d') :
    validNameSpec q.name = true ∧ nameTaken t q.name = false ∧ 1 ≤ b ∧ d' = d ++ [cstr q.name] ∧
    t'[b - 1]? = some (normalise users q) ∧ (∀ r, t[b - 1]? = some r → occupied r = false) ∧
    (∀ j, j ≠ b - 1 → j < t.length → t'[j]? = t[j]?) ∧
    ((b - 1 < t.length ∧ t' = t.set (b - 1) (normalise users q)) ∨
     (hasVacant t = false ∧ b - 1 = t.length ∧ t' = t ++ [normalise users q])) := by
  unfold SpecStep at h
  split at h
  · rename_i r hr
    exact absurd (h.1 ▸ hr) (specDecide_ne_ok _ _ _ _ _)
  · rename_i hn
    obtain ⟨hv, hnt⟩ := specDecide_none_valid hn
    obtain ⟨k, hk, hd, hcase⟩ := h
    cases hk
    rw [Nat.add_sub_cancel]
    refine ⟨hv, hnt, by omega, hd, ?_, ?_, ?_, ?_⟩
    · rcases hcase with ⟨hkl, _, ht⟩ | ⟨_, hkl, ht⟩
      · rw [ht, List.getElem?_set_self hkl]
      · rw [ht, hkl, List.getElem?_append_right (Nat.le_refl _)]; simp
    · intro r hr
      rcases hcase with ⟨_, ⟨r0, hr0, ho⟩, _⟩ | ⟨_, hkl, _⟩
      · rw [hr0] at hr; cases hr; exact ho
      · rw [hkl, List.getElem?_eq_none (Nat.le_refl _)] at hr; cases hr
    · intro j hj hjl
      rcases hcase with ⟨_, _, ht⟩ | ⟨_, _, ht⟩
      · rw [ht, List.getElem?_set_ne (Ne.symm hj)]
      · rw [ht, List.getElem?_append_left hjl]
    · rcases hcase with ⟨hkl, _, ht⟩ | ⟨hvv, hkl, ht⟩
      · exact Or.inl ⟨hkl, ht⟩
      · exact Or.inr ⟨hvv, hkl, ht⟩

theorem SpecStep.refused {users : List Bytes} {letters : List Nat} {t t' : List Rec} {d d' : List Bytes}
    {q : Req} {res : Res} (h : SpecStep users letters t d q res t' d') (hr : ∀ b, res ≠ .ok b) :
    t' = t ∧ d' = d := by
  unfold SpecStep at h
  split at h
  · exact ⟨h.2.1, h.2.2⟩
  · obtain ⟨k, hk, _⟩ := h
    exact absurd hk (hr _)

/-- a step never touches an occupied slot. -/
theorem SpecStep.keep {users : List Bytes} {letters : List Nat} {t t' : List Rec} {d d' : List Bytes}
    {q : Req} {res : Res} (h : SpecStep users letters t d q res t' d') {k : Nat} {r : Rec}
    (hr : t[k]? = some r) (ho : occupied r = true) : t'[k]? = some r := by
  cases res with
  | ok b =>
      obtain ⟨_, _, _, _, _, hvac, hframe, _⟩ := h.accepted
      have hkl : k < t.length := by
        rcases Nat.lt_or_ge k t.length with h' | h'
        · exact h'
        · rw [List.getElem?_eq_none h'] at hr; cases hr
      have hne : k ≠ b - 1 := by
        intro e; subst e
        have := hvac r hr
        rw [ho] at this; cases this
      rw [hframe k hne hkl]; exact hr
  | _ =>
      all_goals
        obtain ⟨ht, _⟩ := h.refused (by intro b hb; cases hb)
        rw [ht]; exact hr

/-! ### histories on the abstract table -/

theorem SpecRun.keep {users : List Bytes} {letters : List Nat} {t tf : List Rec} {d df : List Bytes}
    {qs : List Req} {rs : List Res} (h : SpecRun users letters t d qs rs tf df) {k : Nat} {r : Rec}
    (hr : t[k]? = some r) (ho : occupied r = true) : tf[k]? = some r := by
  induction h with
  | nil => exact hr
  | cons hstep _ ih => exact ih (hstep.keep hr ho)

theorem SpecRun.length_eq {users : List Bytes} {letters : List Nat} {t tf : List Rec} {d df : List Bytes}
    {qs : List Req} {rs : List Res} (h : SpecRun users letters t d qs rs tf df) : rs.length = qs.length := by
  induction h with
  | nil => rfl
  | cons _ _ ih => simp [ih]

/-- the slot an accepted request of a history gets was not occupied when the history began. -/
theorem SpecRun.fresh {users : List Bytes} {letters : List Nat} {t tf : List Rec} {d df : List Bytes}
    {qs : List Req} {rs : List Res} (h : SpecRun users letters t d qs rs tf df) {i b : Nat}
    (hi : rs[i]? = some (.ok b)) : ∀ r, t[b - 1]? = some r → occupied r = false := by
  induction h generalizing i with
  | nil => simp at hi
  | cons hstep _ ih =>
      intro r hr
      cases i with
      | zero =>
          simp only [List.getElem?_cons_zero, Option.some.injEq] at hi
          subst hi
          exact hstep.accepted.2.2.2.2.2.1 r hr
      | succ i =>
          simp only [List.getElem?_cons_succ] at hi
          cases ho : occupied r with
          | false => rfl
          | true =>
              have := ih hi r (hstep.keep hr ho)
              rw [ho] at this; cases this

/-- every accepted request of a history holds, at the end, the slot it was given, with the normalised header. -/
theorem SpecRun.final {users : List Bytes} {letters : List Nat} {t tf : List Rec} {d df : List Bytes}
    {qs : List Req} {rs : List Res} (h : SpecRun users letters t d qs rs tf df) {i b : Nat} {q : Req}
    (hi : rs[i]? = some (.ok b)) (hq : qs[i]? = some q) :
    1 ≤ b ∧ tf[b - 1]? = some (normalise users q) ∧ occupied (normalise users q) = true := by
  induction h generalizing i with
  | nil => simp at hi
  | cons hstep hrest ih =>
      cases i with
      | zero =>
          simp only [List.getElem?_cons_zero, Option.some.injEq] at hi hq
          subst hi; subst hq
          obtain ⟨hv, _, hb, _, hget, _⟩ := hstep.accepted
          exact ⟨hb, hrest.keep hget (occupied_normalise hv), occupied_normalise hv⟩
      | succ i =>
          simp only [List.getElem?_cons_succ] at hi hq
          exact ih hi hq

/-- two accepted requests of a history never share a slot. -/
theorem SpecRun.slots_distinct {users : List Bytes} {letters : List Nat} {t tf : List Rec} {d df : List Bytes}
    {qs : List Req} {rs : List Res} (h : SpecRun users letters t d qs rs tf df) {i j b b' : Nat}
    (hij : i < j) (hi : rs[i]? = some (.ok b)) (hj : rs[j]? = some (.ok b')) : b ≠ b' := by
  induction h generalizing i j with
  | nil => simp at hi
  | cons hstep hrest ih =>
      cases j with
      | zero => omega
      | succ j =>
          simp only [List.getElem?_cons_succ] at hj
          cases i with
          | zero =>
              simp only [List.getElem?_cons_zero, Option.some.injEq] at hi
              subst hi
              obtain ⟨hv, _, hb, _, hget, _⟩ := hstep.accepted
              intro e; subst e
              have := hrest.fresh hj _ hget
              rw [occupied_normalise hv] at this; cases this
          | succ i =>
              simp only [List.getElem?_cons_succ] at hi
              exact ih (by omega) hi hj

/-! ### histories on the model -/

theorem run_history {srt : Sorter} (hs : SortSpec srt) (qs : List Req) {s : State} (h : Inv s) :
    ∃ rs, results srt s qs = rs.map .ok ∧ Inv (run srt s qs) ∧
      SpecRun s.users s.letters s.brd s.dirs qs rs (run srt s qs).brd (run srt s qs).dirs ∧
      (run srt s qs).users = s.users ∧ (run srt s qs).letters = s.letters := by
  induction qs generalizing s with
  | nil => exact ⟨[], rfl, h, SpecRun.nil _ _, rfl, rfl⟩
  | cons q qs ih =>
      obtain ⟨res, hres, hI, hstep, hu, hl, _, _⟩ := newBoard_step hs h q
      obtain ⟨rs, hrs, hI', hrun, hu', hl'⟩ := ih hI
      rw [hu, hl] at hrun
      refine ⟨res :: rs, ?_, hI', SpecRun.cons hstep hrun, hu'.trans hu, hl'.trans hl⟩
      simp only [results, hres, hrs, List.map_cons]


/-! ### an insertion sort satisfies `SortSpec` -/

def insertBy (key : Nat → Bytes) (x : Nat) : List Nat → List Nat
  | [] => [x]
  | y :: ys => if key x < key y then x :: y :: ys else y :: insertBy key x ys

def insSort : Sorter := fun key n => (List.range n).foldr (insertBy key) []

theorem insertBy_perm (key : Nat → Bytes) (x : Nat) (l : List Nat) : (insertBy key x l).Perm (x :: l) := by
  induction l with
  | nil => exact List.Perm.refl _
  | cons y ys ih =>
      unfold insertBy
      split
      · exact List.Perm.refl _
      · exact (List.Perm.cons y ih).trans (List.Perm.swap x y ys)

theorem insertBy_sorted (key : Nat → Bytes) (x : Nat) (l : List Nat)
    (h : l.Pairwise fun a b => ¬ key b < key a) : (insertBy key x l).Pairwise fun a b => ¬ key b < key a := by
  induction l with
  | nil => simp [insertBy]
  | cons y ys ih =>
      rw [List.pairwise_cons] at h
      unfold insertBy
      split
      · rename_i hxy
        rw [List.pairwise_cons]
        refine ⟨?_, List.pairwise_cons.mpr h⟩
        intro z hz
        rcases List.mem_cons.mp hz with rfl | hz
        · exact key_not_lt_of_lt hxy
        · intro hzx
          exact h.1 z hz (List.lt_trans hzx hxy)
      · rename_i hxy
        rw [List.pairwise_cons]
        refine ⟨?_, ih h.2⟩
        intro z hz
        rcases List.mem_cons.mp ((insertBy_perm key x ys).mem_iff.mp hz) with rfl | hz
        · exact hxy
        · exact h.1 z hz

theorem insSort_spec : SortSpec insSort := by
  intro key n
  unfold insSort
  generalize List.range n = l
  induction l with
  | nil => exact ⟨List.Perm.refl _, List.Pairwise.nil⟩
  | cons x xs ih =>
      simp only [List.foldr_cons]
      exact ⟨(insertBy_perm key x _).trans (List.Perm.cons x ih.1), insertBy_sorted key x _ ih.2⟩

/-! ### the state after ReloadBCache -/

/-- a freshly attached segment (zeroed) and a `.BRD` of at most MAX_BOARD complete records. -/
def fresh (brd : List Rec) (users : List Bytes) (letters : List Nat) (dirs : List Bytes) : State :=
  { brd := brd, tail := [], cache := List.replicate MAXB Rec.zero, bnumber := 0, sortedN := List.replicate MAXB 0,
    sortedC := List.replicate MAXB 0, bmcache := List.replicate MAXB [0, 0, 0, 0], users := users,
    letters := letters, dirs := dirs }

theorem inv_reload {srt : Sorter} (hs : SortSpec srt) (brd : List Rec) (users : List Bytes) (letters : List Nat)
    (dirs : List Bytes) (hlen : brd.length ≤ MAXB)
    (hd : ∀ (i j : Nat) (ri rj : Rec), brd[i]? = some ri → brd[j]? = some rj → occupied ri = true →
      nameKey ri.name = nameKey rj.name → i = j) :
    Inv (reload srt (fresh brd users letters dirs)) := by
  have hmin : min brd.length MAXB = brd.length := Nat.min_eq_left hlen
  have htake : brd.take MAXB = brd := List.take_of_length_le hlen
  unfold reload
  simp only [fresh, hmin, htake, List.drop_replicate]
  refine ⟨rfl, rfl, hlen, ?_, ?_, ?_, ?_, sortBCache_sortN hs _, sortBCache_sortC hs _, hd⟩
  · show (clearFC brd.length (brd ++ List.replicate (MAXB - brd.length) Rec.zero)).length = MAXB
    simp [clearFC]; omega
  · show (List.replicate MAXB [0, 0, 0, 0]).length = MAXB
    simp
  · intro k r hr
    show ∃ c, (clearFC brd.length (brd ++ List.replicate (MAXB - brd.length) Rec.zero))[k]? = some c ∧ CacheOK c r
    have hr' : brd[k]? = some r := hr
    have hk : k < brd.length := by
      rcases Nat.lt_or_ge k brd.length with h' | h'
      · exact h'
      · rw [List.getElem?_eq_none h'] at hr'; cases hr'
    rw [getElem?_clearFC, List.getElem?_append_left hk, hr']
    exact ⟨_, by simp [hk]; rfl, Or.inl rfl⟩
  · intro k hk hkm
    show (clearFC brd.length (brd ++ List.replicate (MAXB - brd.length) Rec.zero))[k]? = some Rec.zero
    have hk' : brd.length ≤ k := hk
    rw [getElem?_clearFC, List.getElem?_append_right hk']
    have : ¬ k < brd.length := by omega
    have hkm' : k < MAXB := hkm
    simp only [this, if_false, Option.map_id']
    rw [List.getElem?_replicate, if_pos (by omega)]

/-! ### the attribute rules -/

/-- the attribute and level rules of `mNewbrd`, bit by bit, for both values of DEFAULT_AUTOCPLOG. -/
theorem attr_rules (q : Req) :
    hasBit (buildAttr q) BRD_GROUP = q.isGroup ∧
    hasBit (buildAttr q) BRD_CPLOG = (!q.isGroup && (q.autoCpLog || hasBit q.attr BRD_CPLOG)) ∧
    hasBit (buildAttr q) BRD_HIDE = hasBit q.attr BRD_HIDE ∧
    restricted q = (!hasBit q.ulevel PERM_BOARD || hasBit q.attr BRD_HIDE) ∧
    hasBit (buildAttr q) BRD_POSTMASK = (!restricted q && hasBit q.attr BRD_POSTMASK) ∧
    buildLevel q = (if restricted q then 0 else q.level) := by
  have hCC : hasBit BRD_CPLOG BRD_CPLOG = true := by decide
  have hCG : hasBit BRD_CPLOG BRD_GROUP = false := by decide
  have hGG : hasBit BRD_GROUP BRD_GROUP = true := by decide
  have hCH : hasBit BRD_CPLOG BRD_HIDE = false := by decide
  have hGH : hasBit BRD_GROUP BRD_HIDE = false := by decide
  have hCP : hasBit BRD_CPLOG BRD_POSTMASK = false := by decide
  have hGP : hasBit BRD_GROUP BRD_POSTMASK = false := by decide
  have a1G : hasBit (attr1 q) BRD_GROUP = q.isGroup := by
    unfold attr1
    cases q.isGroup <;> cases q.autoCpLog <;>
      simp only [Bool.false_eq_true, if_false, if_true] <;>
      first
        | exact hasBit_clearBits_self _ _ (by decide)
        | (rw [hasBit_clearBits_other _ _ _ (by decide), hasBit_or, hGG]; simp)
  have a1C : hasBit (attr1 q) BRD_CPLOG = (!q.isGroup && (q.autoCpLog || hasBit q.attr BRD_CPLOG)) := by
    unfold attr1
    cases q.isGroup <;> cases q.autoCpLog <;>
      simp only [Bool.false_eq_true, if_false, if_true, Bool.not_false, Bool.not_true, Bool.true_and,
        Bool.false_and, Bool.false_or, Bool.true_or]
    · rw [hasBit_clearBits_other _ _ _ (by decide)]
    · rw [hasBit_clearBits_other _ _ _ (by decide), hasBit_or, hCC, Bool.or_true]
    · exact hasBit_clearBits_self _ _ (by decide)
    · exact hasBit_clearBits_self _ _ (by decide)
  have a1H : hasBit (attr1 q) BRD_HIDE = hasBit q.attr BRD_HIDE := by
    unfold attr1
    cases q.isGroup <;> cases q.autoCpLog <;>
      simp only [Bool.false_eq_true, if_false, if_true] <;>
      rw [hasBit_clearBits_other _ _ _ (by decide)] <;>
      simp only [hasBit_or, hCH, hGH, Bool.or_false]
  have a1P : hasBit (attr1 q) BRD_POSTMASK = hasBit q.attr BRD_POSTMASK := by
    unfold attr1
    cases q.isGroup <;> cases q.autoCpLog <;>
      simp only [Bool.false_eq_true, if_false, if_true] <;>
      rw [hasBit_clearBits_other _ _ _ (by decide)] <;>
      simp only [hasBit_or, hCP, hGP, Bool.or_false]
  have hr : restricted q = (!hasBit q.ulevel PERM_BOARD || hasBit q.attr BRD_HIDE) := by
    unfold restricted; rw [a1H]
  refine ⟨?_, ?_, ?_, hr, ?_, rfl⟩
  · unfold buildAttr; split
    · rw [hasBit_clearBits_other _ _ _ (by decide)]; exact a1G
    · exact a1G
  · unfold buildAttr; split
    · rw [hasBit_clearBits_other _ _ _ (by decide)]; exact a1C
    · exact a1C
  · unfold buildAttr; split
    · rw [hasBit_clearBits_other _ _ _ (by decide)]; exact a1H
    · exact a1H
  · unfold buildAttr
    cases hres : restricted q
    · simp only [Bool.false_eq_true, if_false, Bool.not_false, Bool.true_and]; exact a1P
    · simp only [if_true, Bool.not_true, Bool.false_and]; exact hasBit_clearBits_self _ _ (by decide)

end PttVerif.C12
