import PttVerif.Model.C18
/-
C18 (group 1) — helper lemmas for types/cstr.go.
-/
namespace PttVerif.C18
open PttVerif

/-! ### cstr -/

@[simp] theorem cstr_nil : cstr [] = [] := rfl

theorem cstr_cons (x : Nat) (xs : List Nat) : cstr (x :: xs) = if x = 0 then [] else x :: cstr xs := by
  unfold cstr
  by_cases h : x = 0 <;> simp [h]

theorem cstr_nonzero (s : List Nat) : ∀ x ∈ cstr s, x ≠ 0 := by
  induction s with
  | nil => simp
  | cons y ys ih =>
    intro x hx
    rw [cstr_cons] at hx
    by_cases hy : y = 0
    · simp [hy] at hx
    · simp only [hy, if_false, List.mem_cons] at hx
      rcases hx with rfl | hx
      · exact hy
      · exact ih x hx

theorem mem_of_mem_cstr (s : List Nat) (b : Nat) (h : b ∈ cstr s) : b ∈ s := by
  induction s with
  | nil => simp at h
  | cons y ys ih =>
    rw [cstr_cons] at h
    by_cases hy : y = 0
    · simp [hy] at h
    · simp only [hy, if_false, List.mem_cons] at h ⊢
      rcases h with h | h
      · exact .inl h
      · exact .inr (ih h)

theorem flatMap_congr' {α β} (l : List α) (f g : α → List β) (h : ∀ a ∈ l, f a = g a) :
    l.flatMap f = l.flatMap g := by
  induction l with
  | nil => rfl
  | cons a as ih =>
    simp only [List.flatMap_cons]
    rw [h a (by simp), ih (fun b hb => h b (by simp [hb]))]

theorem cstr_of_nonzero' (s : List Nat) (h : ∀ x ∈ s, x ≠ 0) : cstr s = s := by
  induction s with
  | nil => rfl
  | cons x xs ih =>
    have hx : x ≠ 0 := h x (by simp)
    rw [cstr_cons, if_neg hx, ih (fun y hy => h y (by simp [hy]))]

theorem cstr_idem (s : List Nat) : cstr (cstr s) = cstr s := cstr_of_nonzero' _ (cstr_nonzero s)

theorem cstr_length_le (s : List Nat) : (cstr s).length ≤ s.length := by
  induction s with
  | nil => simp
  | cons x xs ih => rw [cstr_cons]; split <;> simp; omega

/-! ### Cstrlen, CstrToBytes -/

theorem indexByte_zero (s : List Nat) :
    (match indexByte s 0 with | none => s.length | some i => i) = (cstr s).length := by
  induction s with
  | nil => rfl
  | cons x xs ih =>
    rw [cstr_cons]
    by_cases h : x = 0
    · simp [indexByte, h]
    · simp only [indexByte, h, if_false, List.length_cons]
      cases hi : indexByte xs 0 with
      | none => simp [hi] at ih ⊢; exact ih
      | some i => simp [hi] at ih ⊢; exact ih

theorem cstrlen_eq' (s : List Nat) : cstrlen s = (cstr s).length := indexByte_zero s

theorem take_cstrlen (s : List Nat) : s.take (cstr s).length = cstr s := by
  induction s with
  | nil => rfl
  | cons x xs ih =>
    rw [cstr_cons]
    by_cases h : x = 0
    · simp [h]
    · simp [h, ih]

theorem cstrToBytes_eq' (s : List Nat) : cstrToBytes s = .ok (cstr s) := by
  unfold cstrToBytes
  simp only [cstrlen_eq']
  by_cases h : (cstr s).length = 0
  · simp [h, List.length_eq_zero_iff.mp h]
  · simp only [h, if_false, slice]
    rw [if_pos ⟨Nat.zero_le _, cstr_length_le s⟩]
    simp [take_cstrlen]

/-! ### Cstrcmp -/

theorem idx_of_lt {α} (a : List α) (i : Nat) (h : i < a.length) : idx a i = .ok a[i] := by
  simp [idx, List.getElem?_eq_getElem h]

theorem drop_cons_of_lt (a : List Nat) (i : Nat) (h : i < a.length) : a.drop i = a[i] :: a.drop (i + 1) :=
  List.drop_eq_getElem_cons h

/-- the part of `Cstrcmp` behind the loop. -/
def cmpFinish (c2 : List Nat) : CmpLoop → M Int
  | .ret v => pure v
  | .fall len1 len2 =>
    if len1 < len2 then do
      let b ← idx c2 len1
      pure (- Int.ofNat b)
    else pure 0

theorem cstrcmp_unfold (c1 c2 : List Nat) : cstrcmp c1 c2 = (cmpLoop c2 c1.length c1 0 >>= cmpFinish c2) := by
  unfold cstrcmp
  congr 1

theorem cmpLoop_spec (c2 : List Nat) (n1 : Nat) (rest : List Nat) (i : Nat)
    (hn : n1 = i + rest.length) (hi : i ≤ c2.length) :
    (cmpLoop c2 n1 rest i >>= cmpFinish c2) = .ok (strcmp (cstr rest) (cstr (c2.drop i))) := by
  induction rest generalizing i with
  | nil =>
    simp only [cmpLoop, List.length_nil, Nat.add_zero] at hn ⊢
    subst hn
    show cmpFinish c2 (.fall n1 c2.length) = _
    simp only [cmpFinish]
    by_cases hlt : n1 < c2.length
    · rw [if_pos hlt, idx_of_lt _ _ hlt, drop_cons_of_lt _ _ hlt, cstr_cons]
      by_cases hb : c2[n1] = 0
      · simp [hb, strcmp, bind, Except.bind, pure, Except.pure]
      · simp [hb, strcmp, bind, Except.bind, pure, Except.pure]
    · have : c2.drop n1 = [] := List.drop_eq_nil_of_le (by omega)
      rw [if_neg hlt, this]; rfl
  | cons each rest ih =>
    rw [cstr_cons]
    by_cases he : each = 0
    · subst he
      simp only [cmpLoop, if_true]
      by_cases hlt : i < c2.length
      · rw [if_pos hlt, idx_of_lt _ _ hlt, drop_cons_of_lt _ _ hlt, cstr_cons]
        by_cases hb : c2[i] = 0
        · simp [hb, strcmp, bind, Except.bind, pure, Except.pure, cmpFinish]
        · simp [hb, strcmp, bind, Except.bind, pure, Except.pure, cmpFinish, hlt, idx_of_lt _ _ hlt]
      · have : c2.drop i = [] := List.drop_eq_nil_of_le (by omega)
        rw [if_neg hlt, this]
        simp [strcmp, bind, Except.bind, pure, Except.pure, cmpFinish, hlt]
    · simp only [cmpLoop, he, if_false]
      by_cases hge : i ≥ c2.length
      · have : c2.drop i = [] := List.drop_eq_nil_of_le hge
        rw [if_pos hge, this]
        simp [strcmp, bind, Except.bind, pure, Except.pure, cmpFinish]
      · have hlt : i < c2.length := by omega
        rw [if_neg hge, idx_of_lt _ _ hlt, drop_cons_of_lt _ _ hlt, cstr_cons]
        by_cases hne : each = c2[i]
        · have hb : c2[i] ≠ 0 := by rw [← hne]; exact he
          have := ih (i + 1) (by simp at hn; omega) (by omega)
          simp only [bind, Except.bind, pure, Except.pure] at this ⊢
          simp only [hne, ne_eq, not_true, if_false, hb, strcmp, if_true]
          simpa [hne] using this
        · by_cases hb : c2[i] = 0
          · simp [hne, he, hb, strcmp, bind, Except.bind, pure, Except.pure, cmpFinish]
          · simp [hne, he, hb, strcmp, bind, Except.bind, pure, Except.pure, cmpFinish]

theorem cstrcmp_eq' (a b : List Nat) : cstrcmp a b = .ok (strcmp (cstr a) (cstr b)) := by
  rw [cstrcmp_unfold]
  simpa using cmpLoop_spec b a.length a 0 (by simp) (by simp)

theorem lower_eq_zero' (c : Nat) : ccharTolower c = 0 ↔ c = 0 := by
  unfold ccharTolower; split <;> omega

/-! ### strcmp and the lexicographic order -/

theorem strcmp_sign (a b : List Nat) (ha : ∀ x ∈ a, x ≠ 0) (hb : ∀ x ∈ b, x ≠ 0) :
    (strcmp a b).sign = ordToInt (lexCmp a b) := by
  induction a generalizing b with
  | nil =>
    cases b with
    | nil => rfl
    | cons y ys =>
      have : y ≠ 0 := hb y (by simp)
      simp only [strcmp, lexCmp, ordToInt]
      have : (0 : Int) < Int.ofNat y := by simp; omega
      rw [Int.sign_eq_neg_one_of_neg (by omega)]
  | cons x xs ih =>
    cases b with
    | nil =>
      have : x ≠ 0 := ha x (by simp)
      simp only [strcmp, lexCmp, ordToInt]
      exact Int.sign_eq_one_of_pos (by simp; omega)
    | cons y ys =>
      simp only [strcmp, lexCmp]
      by_cases h : x = y
      · subst h
        simp only [if_true, Nat.lt_irrefl, if_false]
        exact ih ys (fun z hz => ha z (by simp [hz])) (fun z hz => hb z (by simp [hz]))
      · rw [if_neg h]
        by_cases hlt : x < y
        · rw [if_pos hlt]
          exact Int.sign_eq_neg_one_of_neg (by simp; omega)
        · rw [if_neg hlt, if_pos (by omega)]
          exact Int.sign_eq_one_of_pos (by simp; omega)

theorem lexCmp_refl (a : List Nat) : lexCmp a a = .eq := by
  induction a with
  | nil => rfl
  | cons x xs ih => simp [lexCmp, ih]

theorem lexCmp_eq_iff (a b : List Nat) : lexCmp a b = .eq ↔ a = b := by
  induction a generalizing b with
  | nil => cases b <;> simp [lexCmp]
  | cons x xs ih =>
    cases b with
    | nil => simp [lexCmp]
    | cons y ys =>
      simp only [lexCmp]
      by_cases h1 : x < y
      · simp [h1]; omega
      · by_cases h2 : y < x
        · simp [h1, h2]; omega
        · have : x = y := by omega
          simp [h1, h2, ih, this]

theorem lexCmp_swap (a b : List Nat) : lexCmp b a = (lexCmp a b).swap := by
  induction a generalizing b with
  | nil => cases b <;> rfl
  | cons x xs ih =>
    cases b with
    | nil => rfl
    | cons y ys =>
      simp only [lexCmp]
      by_cases h1 : x < y
      · have : ¬ y < x := by omega
        simp [h1, this]
      · by_cases h2 : y < x
        · simp [h1, h2]
        · simp [h1, h2, ih]

theorem lexCmp_lt_trans (a b c : List Nat) (h1 : lexCmp a b = .lt) (h2 : lexCmp b c = .lt) : lexCmp a c = .lt := by
  induction a generalizing b c with
  | nil =>
    cases b with
    | nil => cases c <;> simp_all [lexCmp]
    | cons y ys => cases c <;> simp_all [lexCmp]
  | cons x xs ih =>
    cases b with
    | nil => simp [lexCmp] at h1
    | cons y ys =>
      cases c with
      | nil => simp [lexCmp] at h2
      | cons z zs =>
        simp only [lexCmp] at h1 h2 ⊢
        by_cases hxy : x < y
        · by_cases hyz : y < z
          · rw [if_pos (by omega)]
          · rw [if_neg hyz] at h2
            by_cases hzy : z < y
            · simp [hzy] at h2
            · rw [if_pos (by omega)]
        · rw [if_neg hxy] at h1
          by_cases hyx : y < x
          · simp [hyx] at h1
          · rw [if_neg hyx] at h1
            have : x = y := by omega
            subst this
            by_cases hyz : x < z
            · rw [if_pos hyz]
            · rw [if_neg hyz] at h2 ⊢
              by_cases hzy : z < x
              · simp [hzy] at h2
              · rw [if_neg hzy] at h2 ⊢
                exact ih ys zs h1 h2

/-- `lexCmp` is the standard-library order on lists of naturals. -/
theorem lexCmp_lt_iff (a b : List Nat) : lexCmp a b = .lt ↔ a < b := by
  induction a generalizing b with
  | nil => cases b <;> simp [lexCmp]
  | cons x xs ih =>
    cases b with
    | nil => simp [lexCmp]
    | cons y ys =>
      simp only [lexCmp, List.cons_lt_cons_iff]
      by_cases h1 : x < y
      · simp [h1]
      · by_cases h2 : y < x
        · simp [h1, h2]; omega
        · have : x = y := by omega
          simp [h1, h2, ih, this]

theorem strcmp_neg_iff (a b : List Nat) (ha : ∀ x ∈ a, x ≠ 0) (hb : ∀ x ∈ b, x ≠ 0) :
    strcmp a b < 0 ↔ lexCmp a b = .lt := by
  have h := strcmp_sign a b ha hb
  rw [← Int.sign_eq_neg_one_iff_neg, h]
  cases lexCmp a b <;> simp [ordToInt]

theorem strcmp_zero_iff (a b : List Nat) (ha : ∀ x ∈ a, x ≠ 0) (hb : ∀ x ∈ b, x ≠ 0) :
    strcmp a b = 0 ↔ a = b := by
  have h := strcmp_sign a b ha hb
  rw [← lexCmp_eq_iff, ← Int.sign_eq_zero_iff_zero, h]
  cases lexCmp a b <;> simp [ordToInt]

theorem strcmp_pos_iff (a b : List Nat) (ha : ∀ x ∈ a, x ≠ 0) (hb : ∀ x ∈ b, x ≠ 0) :
    0 < strcmp a b ↔ lexCmp a b = .gt := by
  have h := strcmp_sign a b ha hb
  rw [← Int.sign_eq_one_iff_pos, h]
  cases lexCmp a b <;> simp [ordToInt]

theorem lexCmp_le_trans (a b c : List Nat) (h1 : lexCmp a b ≠ .gt) (h2 : lexCmp b c ≠ .gt) : lexCmp a c ≠ .gt := by
  cases hab : lexCmp a b with
  | gt => exact absurd hab h1
  | eq =>
    rw [(lexCmp_eq_iff a b).mp hab]; exact h2
  | lt =>
    cases hbc : lexCmp b c with
    | gt => exact absurd hbc h2
    | eq => rw [← (lexCmp_eq_iff b c).mp hbc, hab]; simp
    | lt => rw [lexCmp_lt_trans a b c hab hbc]; simp

theorem map_lower_nonzero (s : List Nat) (h : ∀ x ∈ s, x ≠ 0) : ∀ x ∈ s.map ccharTolower, x ≠ 0 := by
  intro x hx
  simp only [List.mem_map] at hx
  obtain ⟨y, hy, rfl⟩ := hx
  intro h0
  exact h y hy ((lower_eq_zero' y).mp h0)

/-! ### case folding -/

theorem lower_eq_zero (c : Nat) : ccharTolower c = 0 ↔ c = 0 := by
  unfold ccharTolower; split <;> omega

theorem cstr_map_lower (s : List Nat) : cstr (cstrTolower s) = (cstr s).map ccharTolower := by
  unfold cstrTolower
  induction s with
  | nil => rfl
  | cons x xs ih =>
    simp only [List.map_cons, cstr_cons, lower_eq_zero]
    by_cases h : x = 0 <;> simp [h, ih]

theorem lower_idem (c : Nat) : ccharTolower (ccharTolower c) = ccharTolower c := by
  unfold ccharTolower; repeat' split
  all_goals omega

theorem lower_upper (c : Nat) : ccharTolower (ccharToupper c) = ccharTolower c := by
  unfold ccharTolower ccharToupper; repeat' split
  all_goals omega

theorem upper_lower (c : Nat) : ccharToupper (ccharTolower c) = ccharToupper c := by
  unfold ccharTolower ccharToupper; repeat' split
  all_goals omega

/-! ### Cstrstr -/

theorem hasPrefix_iff (s p : List Nat) : hasPrefix s p = true ↔ p <+: s := by
  induction s generalizing p with
  | nil => cases p <;> simp [hasPrefix]
  | cons x xs ih =>
    cases p with
    | nil => simp [hasPrefix]
    | cons y ys =>
      simp only [hasPrefix, Bool.and_eq_true, beq_iff_eq, ih, List.cons_prefix_cons]
      constructor
      · rintro ⟨h, h'⟩; exact ⟨h.symm, h'⟩
      · rintro ⟨h, h'⟩; exact ⟨h.symm, h'⟩

theorem index_spec (h n : List Nat) :
    (∀ i, index h n = some i → IsFirstOcc h n i) ∧ (index h n = none → NoOcc h n) := by
  induction h with
  | nil =>
    cases n with
    | nil => simp [index, IsFirstOcc]
    | cons y ys =>
      simp only [index, List.isEmpty_cons, Bool.false_eq_true, if_false, reduceCtorEq, false_implies,
        implies_true, true_and, NoOcc]
      intro j hj; simp
  | cons x xs ih =>
    obtain ⟨ih1, ih2⟩ := ih
    unfold index
    by_cases hp : hasPrefix (x :: xs) n = true
    · rw [if_pos hp]
      refine ⟨?_, by simp⟩
      intro i hi
      simp only [Option.some.injEq] at hi
      subst hi
      exact ⟨by simpa using (hasPrefix_iff _ _).mp hp, by simp, by intro j hj; omega⟩
    · rw [if_neg hp]
      have hnp : ¬ n <+: x :: xs := fun h => hp ((hasPrefix_iff _ _).mpr h)
      constructor
      · intro i hi
        cases hk : index xs n with
        | none => simp [hk] at hi
        | some k =>
          simp only [hk, Option.map_some, Option.some.injEq] at hi
          subst hi
          obtain ⟨a1, a2, a3⟩ := ih1 k hk
          refine ⟨by simpa using a1, by simp; omega, ?_⟩
          intro j hj
          cases j with
          | zero => simpa using hnp
          | succ j' => simpa using a3 j' (by omega)
      · intro hnone
        have hk : index xs n = none := by
          cases hk : index xs n with
          | none => rfl
          | some k => simp [hk] at hnone
        intro j hj
        cases j with
        | zero => simpa using hnp
        | succ j' => simpa using ih2 hk j' (by simp at hj; omega)

theorem firstOcc_unique (h n : List Nat) (i j : Nat) (hi : IsFirstOcc h n i) (hj : IsFirstOcc h n j) : i = j := by
  obtain ⟨a1, _, a3⟩ := hi
  obtain ⟨b1, _, b3⟩ := hj
  by_cases h1 : i < j
  · exact absurd a1 (b3 i h1)
  · by_cases h2 : j < i
    · exact absurd b1 (a3 j h2)
    · omega

theorem index_of_firstOcc (h n : List Nat) (i : Nat) (hi : IsFirstOcc h n i) : index h n = some i := by
  cases hk : index h n with
  | none => exact absurd hi.1 ((index_spec h n).2 hk i hi.2.1)
  | some k => rw [firstOcc_unique h n k i ((index_spec h n).1 k hk) hi]

theorem index_of_noOcc (h n : List Nat) (hno : NoOcc h n) : index h n = none := by
  cases hk : index h n with
  | none => rfl
  | some k =>
    obtain ⟨a1, a2, _⟩ := (index_spec h n).1 k hk
    exact absurd a1 (hno k a2)

theorem hasPrefix_cstr (s n : List Nat) (h0 : ∀ x ∈ n, x ≠ 0) : hasPrefix (cstr s) n = hasPrefix s n := by
  induction s generalizing n with
  | nil => rfl
  | cons y ys ih =>
    cases n with
    | nil => simp [hasPrefix]
    | cons p ps =>
      have hp : p ≠ 0 := h0 p (by simp)
      rw [cstr_cons]
      by_cases hy : y = 0
      · subst hy
        have : (0 == p) = false := by simp; omega
        simp [hasPrefix, this]
      · simp only [hy, if_false, hasPrefix]
        rw [ih ps (fun x hx => h0 x (by simp [hx]))]

/-- `bytes.Index` on the C reading of the haystack, from `bytes.Index` on the whole slice. -/
theorem index_cstr (h n : List Nat) (hn : n ≠ []) (h0 : ∀ x ∈ n, x ≠ 0) :
    index (cstr h) n = (match index h n with
      | some i => if i < (cstr h).length then some i else none
      | none => none) := by
  induction h with
  | nil =>
    cases n with
    | nil => exact absurd rfl hn
    | cons p ps => simp [index]
  | cons x xs ih =>
    rw [cstr_cons]
    by_cases hx : x = 0
    · subst hx
      cases n with
      | nil => exact absurd rfl hn
      | cons p ps =>
        simp only [if_true, List.length_nil, Nat.not_lt_zero, if_false]
        have : index [] (p :: ps) = none := by simp [index]
        rw [this]
        cases index (0 :: xs) (p :: ps) <;> rfl
    · simp only [hx, if_false, List.length_cons]
      have hpre : hasPrefix (x :: cstr xs) n = hasPrefix (x :: xs) n := by
        have := hasPrefix_cstr (x :: xs) n h0
        rwa [cstr_cons, if_neg hx] at this
      unfold index
      rw [hpre]
      by_cases hp : hasPrefix (x :: xs) n = true
      · simp [hp]
      · simp only [hp, Bool.false_eq_true, if_false]
        rw [ih]
        cases index xs n with
        | none => rfl
        | some k =>
          simp only [Option.map_some]
          by_cases hk : k < (cstr xs).length
          · simp [hk]
          · simp [hk]

theorem cstrstr_some (h n : List Nat) (i : Nat) (hi : index h n = some i) :
    cstrstr h n = if i < (cstr h).length then Int.ofNat i else -1 := by
  unfold cstrstr
  rw [hi, cstrlen_eq']
  show (if Int.ofNat i < 0 ∨ Int.ofNat i ≥ Int.ofNat (cstr h).length then (-1 : Int) else Int.ofNat i) = _
  by_cases hlt : i < (cstr h).length
  · rw [if_pos hlt, if_neg]
    simp only [Int.ofNat_eq_natCast]; omega
  · rw [if_neg hlt, if_pos]
    simp only [Int.ofNat_eq_natCast]; omega

theorem cstrstr_none (h n : List Nat) (hi : index h n = none) : cstrstr h n = -1 := by
  unfold cstrstr
  rw [hi]
  show (if (-1 : Int) < 0 ∨ (-1 : Int) ≥ Int.ofNat (cstrlen h) then (-1 : Int) else -1) = -1
  split <;> rfl

theorem cstrstr_eq' (h n : List Nat) (hn : n ≠ []) (h0 : ∀ x ∈ n, x ≠ 0) :
    cstrstr h n = optToInt (index (cstr h) n) := by
  rw [index_cstr h n hn h0]
  cases hi : index h n with
  | none => rw [cstrstr_none h n hi]; rfl
  | some i =>
    rw [cstrstr_some h n i hi]
    by_cases hlt : i < (cstr h).length
    · simp [hlt, optToInt]
    · simp [hlt, optToInt]

theorem cstrstr_empty' (h : List Nat) : cstrstr h [] = if cstr h = [] then -1 else 0 := by
  have hidx : index h [] = some 0 := by cases h <;> simp [index, hasPrefix]
  rw [cstrstr_some h [] 0 hidx]
  by_cases hc : cstr h = []
  · simp [hc]
  · have : 0 < (cstr h).length := List.length_pos_iff.mpr hc
    simp [hc, this]

/-! ### CstrTokenR -/

def neB (c x : Nat) : Bool := x != c
def notInB (sep : List Nat) (x : Nat) : Bool := !(sep.contains x)

def firstOf (s : List Nat) (c : Nat) : Nat := (s.takeWhile (neB c)).length

theorem takeWhile_length_le (s : List Nat) (p : Nat → Bool) : (s.takeWhile p).length ≤ s.length := by
  induction s with
  | nil => simp
  | cons x xs ih => simp only [List.takeWhile_cons]; split <;> simp <;> omega

theorem indexByte_eq (s : List Nat) (c : Nat) :
    indexByte s c = if firstOf s c < s.length then some (firstOf s c) else none := by
  induction s with
  | nil => simp [indexByte, firstOf]
  | cons x xs ih =>
    by_cases h : x = c
    · subst h
      have hn : neB x x = false := by simp [neB]
      simp [indexByte, firstOf, List.takeWhile_cons, hn]
    · have hn : neB c x = true := by simp [neB, h]
      have e : firstOf (x :: xs) c = firstOf xs c + 1 := by simp [firstOf, List.takeWhile_cons, hn]
      simp only [indexByte, h, if_false, ih, e, List.length_cons]
      by_cases hlt : firstOf xs c < xs.length
      · simp [hlt]
      · simp [hlt]

theorem takeWhile_and_length (s : List Nat) (p q : Nat → Bool) :
    (s.takeWhile (fun x => p x && q x)).length = min (s.takeWhile p).length (s.takeWhile q).length := by
  induction s with
  | nil => simp
  | cons x xs ih =>
    simp only [List.takeWhile_cons]
    cases hp : p x <;> cases hq : q x <;> simp [ih]

theorem takeWhile_true (s : List Nat) : s.takeWhile (fun _ => true) = s := by
  induction s with
  | nil => rfl
  | cons x xs ih => simp [List.takeWhile_cons, ih]

theorem notIn_cons_length (s : List Nat) (c : Nat) (rest : List Nat) :
    (s.takeWhile (notInB (c :: rest))).length = min (firstOf s c) (s.takeWhile (notInB rest)).length := by
  have : notInB (c :: rest) = (fun x => neB c x && notInB rest x) := by
    funext x
    simp only [notInB, neB, List.contains_cons, Bool.not_or]
    rfl
  rw [this, takeWhile_and_length]; rfl

theorem tokenMin_eq (s sep : List Nat) (m : Nat) (hm : m ≤ s.length) :
    tokenMin s sep m = min m (s.takeWhile (notInB sep)).length := by
  induction sep generalizing m with
  | nil =>
    have : s.takeWhile (notInB []) = s := by
      have : notInB [] = fun _ => true := by funext x; simp [notInB]
      rw [this]; exact takeWhile_true s
    simp only [tokenMin, this]; omega
  | cons c rest ih =>
    have hle : firstOf s c ≤ s.length := takeWhile_length_le _ _
    have hL : (s.takeWhile (notInB rest)).length ≤ s.length := takeWhile_length_le _ _
    rw [notIn_cons_length, tokenMin, indexByte_eq]
    by_cases hlt : firstOf s c < s.length
    · simp only [hlt, if_true]
      rw [ih _ (by split <;> omega)]
      split <;> omega
    · simp only [hlt, if_false]
      rw [ih m hm]; omega

/-- where `CstrTokenR` cuts: at the first NUL or the first separator byte, whichever comes first (else at the end). -/
def stopLen (s sep : List Nat) : Nat := min (cstr s).length (s.takeWhile (notInB sep)).length

theorem cstrTokenR_eq' (s sep : List Nat) :
    cstrTokenR s sep = .ok (s.take (stopLen s sep), s.drop (stopLen s sep + 1)) := by
  have hmin : tokenMin s sep (cstrlen s) = stopLen s sep := by
    rw [tokenMin_eq s sep _ (by rw [cstrlen_eq']; exact cstr_length_le s), cstrlen_eq']; rfl
  have hle : stopLen s sep ≤ s.length := by
    have := cstr_length_le s
    unfold stopLen; omega
  have h1 : tokenFirst s (stopLen s sep) = .ok (s.take (stopLen s sep)) := by
    unfold tokenFirst
    by_cases h : stopLen s sep = 0
    · simp [h, pure, Except.pure]
    · simp [h, slice, hle]
  have h2 : tokenRest s (stopLen s sep) = .ok (s.drop (stopLen s sep + 1)) := by
    unfold tokenRest
    by_cases h2 : Int.ofNat (stopLen s sep) ≥ Int.ofNat s.length - 1
    · have : s.drop (stopLen s sep + 1) = [] := List.drop_eq_nil_of_le (by
        simp only [Int.ofNat_eq_natCast] at h2; omega)
      rw [if_pos h2, this]; rfl
    · have hlt : stopLen s sep + 1 ≤ s.length := by
        simp only [Int.ofNat_eq_natCast] at h2; omega
      rw [if_neg h2]
      unfold slice
      rw [if_pos ⟨hlt, Nat.le_refl _⟩]
      simp
  unfold cstrTokenR
  simp only [hmin, h1, h2, bind, Except.bind]
  rfl

end PttVerif.C18
