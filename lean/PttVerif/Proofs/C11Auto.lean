import PttVerif.Proofs.C11
/-
C11 — helper lemmas, part 2: prefixes in the lexicographic order, the successor keyword, the probe loops of
FindBoardAutoCompleteStartIdx.
-/
namespace PttVerif.C11
open PttVerif PttVerif.C18

/-! ### prefixes and the lexicographic order -/

/-- comparing `K` with the first `|K|` elements of `N`: equal exactly when `K` is a prefix of `N`, otherwise the
comparison with `N` itself. -/
theorem lexCmp_take (K N : List Nat) :
    lexCmp K (N.take K.length) = if hasPrefix N K then .eq else lexCmp K N := by
  induction K generalizing N with
  | nil => cases N <;> simp [lexCmp, hasPrefix]
  | cons a K' ih =>
    cases N with
    | nil => simp [lexCmp, hasPrefix]
    | cons b N' =>
      simp only [List.length_cons, List.take_succ_cons, lexCmp, hasPrefix]
      by_cases h1 : a < b
      · have : (b == a) = false := by simp; omega
        simp [h1, this]
      · by_cases h2 : b < a
        · have : (b == a) = false := by simp; omega
          simp [h1, h2, this]
        · have : b = a := by omega
          subst this
          simp [ih N']

/-- a string with prefix `K` is not below `K`. -/
theorem le_of_hasPrefix (K N : List Nat) (h : hasPrefix N K = true) : lexCmp K N ≠ .gt := by
  induction K generalizing N with
  | nil => cases N <;> simp [lexCmp]
  | cons a K' ih =>
    cases N with
    | nil => simp [hasPrefix] at h
    | cons b N' =>
      simp only [hasPrefix, Bool.and_eq_true, beq_iff_eq] at h
      obtain ⟨rfl, h⟩ := h
      simp [lexCmp, ih N' h]

/-- above `K` without the prefix `K`: everything from there on has no prefix `K` (the strings with the prefix
form one block directly above `K`). -/
theorem no_prefix_above (K N N' : List Nat) (h1 : lexCmp K N = .lt) (h2 : hasPrefix N K = false)
    (h3 : lexCmp N N' ≠ .gt) : hasPrefix N' K = false := by
  induction K generalizing N N' with
  | nil => cases N <;> simp [hasPrefix] at h2
  | cons a K' ih =>
    cases N with
    | nil => simp [lexCmp] at h1
    | cons b N1 =>
      cases N' with
      | nil => rfl
      | cons b' N1' =>
        simp only [lexCmp] at h1 h3
        simp only [hasPrefix] at h2 ⊢
        by_cases hab : a < b
        · -- b' ≥ b > a
          by_cases hbb : b < b'
          · have : (b' == a) = false := by simp; omega
            simp [this]
          · rw [if_neg hbb] at h3
            by_cases hbb' : b' < b
            · simp [hbb'] at h3
            · have : (b' == a) = false := by simp; omega
              simp [this]
        · rw [if_neg hab] at h1
          by_cases hba : b < a
          · simp [hba] at h1
          · rw [if_neg hba] at h1
            have e : b = a := by omega
            subst e
            simp only [beq_self_eq_true, Bool.true_and] at h2
            by_cases hbb : b < b'
            · have : (b' == b) = false := by simp; omega
              simp [this]
            · rw [if_neg hbb] at h3
              by_cases hbb' : b' < b
              · simp [hbb'] at h3
              · rw [if_neg hbb'] at h3
                have e : b' = b := by omega
                subst e
                simp only [beq_self_eq_true, Bool.true_and]
                exact ih N1 N1' h1 h2 h3

/-- the successor of a non-empty string: last element + 1. -/
def succStr (K0 : List Nat) (x : Nat) : List Nat := K0 ++ [x + 1]

/-- below the successor = below the string or carrying it as a prefix. -/
theorem lt_succ_iff (K0 : List Nat) (x : Nat) (N : List Nat) :
    lexCmp (succStr K0 x) N = .gt ↔ (lexCmp (K0 ++ [x]) N = .gt ∨ hasPrefix N (K0 ++ [x]) = true) := by
  unfold succStr
  induction K0 generalizing N with
  | nil =>
    cases N with
    | nil => simp [lexCmp]
    | cons b N1 =>
      simp only [List.nil_append, lexCmp, hasPrefix]
      by_cases h1 : x + 1 < b
      · have h2 : x < b := by omega
        have : (b == x) = false := by simp; omega
        simp [h1, h2, this]
      · by_cases h2 : b < x + 1
        · simp only [h1, h2, if_false, if_true, true_iff]
          by_cases h3 : b < x
          · have : ¬ x < b := by omega
            simp [this, h3]
          · have e : b = x := by omega
            subst e
            cases N1 <;> simp [hasPrefix]
        · have e : b = x + 1 := by omega
          subst e
          have : ((x + 1) == x) = false := by simp
          cases N1 <;> simp [lexCmp, this]
  | cons a K' ih =>
    cases N with
    | nil => simp [lexCmp]
    | cons b N1 =>
      simp only [List.cons_append, lexCmp, hasPrefix]
      by_cases h1 : a < b
      · have : (b == a) = false := by simp; omega
        simp [h1, this]
      · by_cases h2 : b < a
        · simp [h1, h2]
        · have e : b = a := by omega
          subst e
          simp [ih N1]

/-! ### C strings: take, copy -/

theorem cstr_take (l : List Nat) (k : Nat) : cstr (l.take k) = (cstr l).take k := by
  induction l generalizing k with
  | nil => simp
  | cons x xs ih =>
    cases k with
    | zero => simp
    | succ k =>
      simp only [List.take_succ_cons, cstr_cons]
      by_cases h : x = 0
      · simp [h]
      · simp [h, ih]

theorem low_take (l : List Nat) (k : Nat) : low (l.take k) = (low l).take k := by
  unfold low
  rw [cstr_take, List.map_take]

theorem cstr_append_zeros (l : List Nat) (n : Nat) (h : ∀ x ∈ l, x ≠ 0) : cstr (l ++ List.replicate n 0) = l := by
  induction l with
  | nil => cases n <;> simp [cstr, List.replicate]
  | cons x xs ih =>
    have hx : x ≠ 0 := h x (by simp)
    simp only [List.cons_append, cstr_cons, hx, if_false]
    rw [ih (fun y hy => h y (by simp [hy]))]

/-- a NUL-free keyword that fits into a `BoardID_t` reads back unchanged. -/
theorem cstr_copyInto (n : Nat) (kw : List Nat) (h0 : ∀ x ∈ kw, x ≠ 0) (hl : kw.length ≤ n) :
    cstr (copyInto n kw) = kw := by
  rw [copyInto_of_le n kw hl]
  exact cstr_append_zeros kw _ h0

theorem low_of_nonzero (kw : List Nat) (h0 : ∀ x ∈ kw, x ≠ 0) : low kw = kw.map ccharTolower := by
  unfold low; rw [cstr_of_nonzero' kw h0]

theorem low_length (kw : List Nat) (h0 : ∀ x ∈ kw, x ≠ 0) : (low kw).length = kw.length := by
  rw [low_of_nonzero kw h0]; simp

/-! ### the prefix test of the listing and of the specification -/

/-- `CstrCaseHasPrefix(Brdname, keyword)`: what loadAutoCompleteBoardStat tests and what "carries the prefix" means. -/
def pref (kw : List Nat) (e : Entry) : Bool := cstrCaseHasPrefix e.b.name kw

theorem pref_iff (kw : List Nat) (h0 : ∀ x ∈ kw, x ≠ 0) (e : Entry) : pref kw e = hasPrefix (nkey e) (low kw) := by
  unfold pref cstrCaseHasPrefix nkey
  rw [low_of_nonzero kw h0]
  have hz : ∀ x ∈ cstrTolower kw, x ≠ 0 := map_lower_nonzero kw h0
  rw [← hasPrefix_cstr (cstrTolower e.b.name) (cstrTolower kw) hz, cstr_map_lower]
  rfl

theorem notPrefixed_eq (kw : List Nat) (e : Entry) : notPrefixed kw e = !pref kw e := rfl

/-! ### scan lemmas -/

theorem scanFirst_eq_of (P : Entry → Bool) (l : List Entry) (i d : Nat) (hd : d < l.length) (h1 : P l[d] = true)
    (h2 : ∀ k (hk : k < d), P (l[k]'(by omega)) = false) : scanFirst P l i = Int.ofNat (i + d) := by
  rcases scanFirst_spec P l i with ⟨_, h⟩ | ⟨d', hd', h3, h4, h5⟩
  · rw [h _ (List.getElem_mem hd)] at h1; cases h1
  · rcases Nat.lt_trichotomy d d' with h | h | h
    · rw [h5 d h] at h1; cases h1
    · subst h; exact h3
    · rw [h2 d' h] at h4; cases h4

theorem scanLast_spec (P : Entry → Bool) (es : List Entry) :
    (scanLast P es = -1 ∧ ∀ e ∈ es, P e = false) ∨
      (∃ p, ∃ hp : p < es.length, scanLast P es = Int.ofNat p ∧ P es[p] = true ∧
        ∀ k (hk : k < es.length), p < k → P es[k] = false) := by
  unfold scanLast
  simp only
  rcases scanFirst_spec P es.reverse 0 with ⟨h1, h2⟩ | ⟨d, hd, h1, h2, h3⟩
  · left
    rw [h1]
    exact ⟨by simp, fun e he => h2 e (List.mem_reverse.mpr he)⟩
  · right
    simp only [List.length_reverse] at hd
    refine ⟨es.length - 1 - d, by omega, ?_, ?_, ?_⟩
    · rw [h1, if_neg (by simp <;> omega)]
      simp; omega
    · rw [List.getElem_reverse] at h2; exact h2
    · intro k hk hlt
      have := h3 (es.length - 1 - k) (by omega)
      rw [List.getElem_reverse] at this
      have e : es.length - 1 - (es.length - 1 - k) = k := by omega
      simpa [e] using this

theorem scanLast_none {P : Entry → Bool} {es : List Entry} (h : ∀ e ∈ es, P e = false) : scanLast P es = -1 := by
  rcases scanLast_spec P es with ⟨h1, _⟩ | ⟨p, hp, _, h2, _⟩
  · exact h1
  · rw [h _ (List.getElem_mem hp)] at h2; cases h2

theorem scanLast_eq_of (P : Entry → Bool) (es : List Entry) (p : Nat) (hp : p < es.length) (h1 : P es[p] = true)
    (h2 : ∀ k (hk : k < es.length), p < k → P es[k] = false) : scanLast P es = Int.ofNat p := by
  rcases scanLast_spec P es with ⟨_, h⟩ | ⟨p', hp', h3, h4, h5⟩
  · rw [h _ (List.getElem_mem hp)] at h1; cases h1
  · rcases Nat.lt_trichotomy p p' with h | h | h
    · rw [h2 p' hp' h] at h4; cases h4
    · subst h; exact h3
    · rw [h5 p hp h] at h1; cases h1

/-! ### one iteration of the probe loops -/

/-- hypotheses on the keyword under which the auto-completion search is specified. -/
structure KwOK (nameLen : Nat) (kw : List Nat) : Prop where
  ne : kw ≠ []
  nz : ∀ x ∈ kw, x ≠ 0
  lt : kw.length < nameLen          -- `len(keyword) <= IDLEN`; `BoardID_t` is `[IDLEN+1]byte`

theorem KwOK.len {nameLen : Nat} {kw : List Nat} (ok : KwOK nameLen kw) : kw.length ≤ nameLen := Nat.le_of_lt ok.lt

theorem cstrcasecmp_eq (a b : List Nat) : cstrcasecmp a b = .ok (strcmp (low a) (low b)) := by
  unfold cstrcasecmp low
  rw [cstrcmp_eq', cstr_map_lower, cstr_map_lower]

/-- the value compared in a probe: the keyword against the first `len(keyword)` bytes of the name. -/
theorem probe_value (nameLen : Nat) (kw : List Nat) (ok : KwOK nameLen kw) (e : Entry) (hl : e.b.name.length = nameLen) :
    (do let p ← slice e.b.name 0 kw.length; cstrcasecmp kw p) =
      .ok (strcmp (low kw) ((nkey e).take (low kw).length)) := by
  unfold slice
  rw [if_pos ⟨Nat.zero_le _, by rw [hl]; exact ok.len⟩]
  simp only [bind, Except.bind, List.drop_zero]
  rw [cstrcasecmp_eq, low_take, low_length kw ok.nz]
  rfl

theorem probe_sign (nameLen : Nat) (kw : List Nat) (ok : KwOK nameLen kw) (e : Entry) :
    let j := strcmp (low kw) ((nkey e).take (low kw).length)
    (j = 0 ↔ pref kw e = true) ∧ (j < 0 ↔ (pref kw e = false ∧ lexCmp (low kw) (nkey e) = .lt)) ∧
      (0 < j ↔ (pref kw e = false ∧ lexCmp (low kw) (nkey e) = .gt)) := by
  intro j
  have nzK := low_nonzero kw
  have nzN : ∀ x ∈ (nkey e).take (low kw).length, x ≠ 0 := fun x hx => low_nonzero _ x (List.mem_of_mem_take hx)
  have s1 := strcmp_neg_iff _ _ nzK nzN
  have s2 := strcmp_zero_iff _ _ nzK nzN
  have s3 := strcmp_pos_iff _ _ nzK nzN
  have ht := lexCmp_take (low kw) (nkey e)
  rw [← pref_iff kw ok.nz e] at ht
  rw [← lexCmp_eq_iff] at s2
  show (j = 0 ↔ _) ∧ (j < 0 ↔ _) ∧ (0 < j ↔ _)
  cases hp : pref kw e with
  | true =>
    rw [hp] at ht
    simp only [if_true] at ht
    rw [ht] at s1 s2 s3
    have : j = 0 := s2.mpr rfl
    simp [this]
  | false =>
    rw [hp] at ht
    simp only [Bool.false_eq_true, if_false] at ht
    rw [ht] at s1 s2 s3
    have hne : lexCmp (low kw) (nkey e) ≠ .eq := by
      intro h
      have := (lexCmp_eq_iff _ _).mp h
      have hh : hasPrefix (nkey e) (low kw) = true := by
        rw [hasPrefix_iff, this]; exact List.prefix_refl _
      rw [← pref_iff kw ok.nz e, hp] at hh; cases hh
    refine ⟨?_, ?_, ?_⟩
    · simp only [Bool.false_eq_true, iff_false]; intro h; exact hne (s2.mp h)
    · simpa using s1
    · simpa using s3

theorem probeAsc_cons (maxBoard nameLen : Nat) (kw : List Nat) (ok : KwOK nameLen kw) (f : Nat) (e : Entry)
    (rest : List Entry) (i : Nat) (hv : e.bid + 1 ≤ maxBoard) (hl : e.b.name.length = nameLen) :
    probeAsc maxBoard kw (f + 1) (e :: rest) i =
      if pref kw e = true then .ok (Int.ofNat i)
      else if lexCmp (low kw) (nkey e) = .gt then probeAsc maxBoard kw f rest (i + 1) else .ok (-1) := by
  have hve : validBid maxBoard e = true := by simp [validBid, hv]
  have hpv := probe_value nameLen kw ok e hl
  obtain ⟨p1, p2, p3⟩ := probe_sign nameLen kw ok e
  rw [probeAsc]
  simp only [hve, not_true_eq_false, if_false]
  simp only [bind, Except.bind] at hpv ⊢
  cases hs : slice e.b.name 0 kw.length with
  | error x => rw [hs] at hpv; cases hpv
  | ok pfx =>
    rw [hs] at hpv
    simp only at hpv ⊢
    rw [hpv]
    simp only [pure, Except.pure]
    by_cases hp : pref kw e = true
    · rw [if_pos (p1.mpr hp), if_pos hp]
    · have hpf : pref kw e = false := by simpa using hp
      rw [if_neg (fun h => hp (p1.mp h)), if_neg hp]
      by_cases hg : lexCmp (low kw) (nkey e) = .gt
      · have : 0 < strcmp (low kw) ((nkey e).take (low kw).length) := p3.mpr ⟨hpf, hg⟩
        rw [if_neg (by omega), if_pos hg]
      · rw [if_neg hg]
        have : ¬ 0 < strcmp (low kw) ((nkey e).take (low kw).length) := fun h => hg (p3.mp h).2
        have h0 : strcmp (low kw) ((nkey e).take (low kw).length) ≠ 0 := fun h => hp (p1.mp h)
        rw [if_pos (by omega)]

theorem probeDesc_cons (maxBoard nameLen : Nat) (kw : List Nat) (ok : KwOK nameLen kw) (f : Nat) (e : Entry)
    (rest : List Entry) (i : Nat) (hv : e.bid + 1 ≤ maxBoard) (hl : e.b.name.length = nameLen) :
    probeDesc maxBoard kw (f + 1) (e :: rest) i =
      if pref kw e = true then .ok (Int.ofNat i)
      else if lexCmp (low kw) (nkey e) = .gt then .ok (-1) else probeDesc maxBoard kw f rest (i - 1) := by
  have hve : validBid maxBoard e = true := by simp [validBid, hv]
  have hpv := probe_value nameLen kw ok e hl
  obtain ⟨p1, p2, p3⟩ := probe_sign nameLen kw ok e
  rw [probeDesc]
  simp only [hve, not_true_eq_false, if_false]
  simp only [bind, Except.bind] at hpv ⊢
  cases hs : slice e.b.name 0 kw.length with
  | error x => rw [hs] at hpv; cases hpv
  | ok pfx =>
    rw [hs] at hpv
    simp only at hpv ⊢
    rw [hpv]
    simp only [pure, Except.pure]
    by_cases hp : pref kw e = true
    · rw [if_pos (p1.mpr hp), if_pos hp]
    · have hpf : pref kw e = false := by simpa using hp
      rw [if_neg (fun h => hp (p1.mp h)), if_neg hp]
      by_cases hg : lexCmp (low kw) (nkey e) = .gt
      · have : 0 < strcmp (low kw) ((nkey e).take (low kw).length) := p3.mpr ⟨hpf, hg⟩
        rw [if_pos (by omega), if_pos hg]
      · rw [if_neg hg]
        have : ¬ 0 < strcmp (low kw) ((nkey e).take (low kw).length) := fun h => hg (p3.mp h).2
        rw [if_neg (by omega)]

/-! ### hypotheses on the table -/

/-- no two non-vacated boards have names that are equal up to case (vacated slots — empty names — may repeat). -/
def DistinctNames (es : List Entry) : Prop := es.Pairwise (fun a b => nkey a = nkey b → nkey a = [])

/-- every `Brdname` is an array of `nameLen` bytes. -/
def NamesLen (nameLen : Nat) (es : List Entry) : Prop := ∀ e ∈ es, e.b.name.length = nameLen

theorem unique0_of_distinct (q : List Nat) (es : List Entry) (D : DistinctNames es) (hq : low q ≠ []) :
    Unique0 (cmpNameP q) es := by
  intro i j hi hj h1 h2
  have e1 : low q = nkey es[i] := (lexCmp_eq_iff _ _).mp ((cmpNameP_sign q es[i]).2.1.mp h1)
  have e2 : low q = nkey es[j] := (lexCmp_eq_iff _ _).mp ((cmpNameP_sign q es[j]).2.1.mp h2)
  have D' := List.pairwise_iff_getElem.mp D
  rcases Nat.lt_trichotomy i j with h | h | h
  · have := D' i j hi hj h (by rw [← e1, ← e2])
    rw [← e1] at this; exact absurd this hq
  · exact h
  · have := D' j i hj hi h (by rw [← e1, ← e2])
    rw [← e2] at this; exact absurd this hq

/-- the specification of FindBoardAutoCompleteStartIdx: the first (last) position whose name carries the keyword
as a prefix up to case, 1-based; `-1`: none. -/
def specAuto (kw : List Nat) (es : List Entry) (isAsc : Bool) : Int :=
  let x := if isAsc then scanFirst (pref kw) es 0 else scanLast (pref kw) es
  if x = -1 then -1 else x + 1

/-! ### ascending -/

/-- probing from a position `m` before which every name is below the keyword and at which the name is not. -/
theorem probeAsc_at (maxBoard nameLen : Nat) (kw : List Nat) (ok : KwOK nameLen kw) (es : List Entry)
    (hv : ∀ e ∈ es, e.bid + 1 ≤ maxBoard) (hn : NamesLen nameLen es) (S : SortedBy lexCmp nkey es) (f m : Nat)
    (hbelow : ∀ k (hk : k < es.length), k < m → lexCmp (low kw) (nkey es[k]) = .gt)
    (hat : ∀ (hm : m < es.length), lexCmp (low kw) (nkey es[m]) ≠ .gt) :
    probeAsc maxBoard kw (f + 1) (es.drop m) m = .ok (scanFirst (pref kw) es 0) := by
  have hnp : ∀ k (hk : k < es.length), k < m → pref kw es[k] = false := by
    intro k hk hlt
    cases hp : pref kw es[k] with
    | false => rfl
    | true =>
      rw [pref_iff kw ok.nz] at hp
      exact absurd (hbelow k hk hlt) (le_of_hasPrefix _ _ hp)
  by_cases hm : m < es.length
  · rw [List.drop_eq_getElem_cons hm,
      probeAsc_cons maxBoard nameLen kw ok f _ _ m (hv _ (List.getElem_mem hm)) (hn _ (List.getElem_mem hm))]
    by_cases hp : pref kw es[m] = true
    · rw [if_pos hp, scanFirst_eq_of (pref kw) es 0 m hm hp (fun k hk => hnp k (by omega) hk)]
      simp
    · rw [if_neg hp, if_neg (hat hm)]
      rw [scanFirst_none]
      intro e he
      obtain ⟨k, hk, rfl⟩ := List.getElem_of_mem he
      have hpf : pref kw es[m] = false := by simpa using hp
      rcases Nat.lt_trichotomy k m with h | h | h
      · exact hnp k hk h
      · subst h; exact hpf
      · rw [pref_iff kw ok.nz] at hpf ⊢
        have hlt : lexCmp (low kw) (nkey es[m]) = .lt := by
          cases hc : lexCmp (low kw) (nkey es[m]) with
          | lt => rfl
          | gt => exact absurd hc (hat hm)
          | eq =>
            have := (lexCmp_eq_iff _ _).mp hc
            rw [← this] at hpf
            have : hasPrefix (low kw) (low kw) = true := by rw [hasPrefix_iff]; exact List.prefix_refl _
            rw [this] at hpf; cases hpf
        exact no_prefix_above _ _ _ hlt hpf ((List.pairwise_iff_getElem.mp S) m k hm hk h)
  · have : es.drop m = [] := List.drop_eq_nil_of_le (by omega)
    rw [this, scanFirst_none (fun e he => by
      obtain ⟨k, hk, rfl⟩ := List.getElem_of_mem he
      exact hnp k hk (by omega))]
    rfl

theorem low_copyInto (nameLen : Nat) (kw : List Nat) (ok : KwOK nameLen kw) : low (copyInto nameLen kw) = low kw := by
  unfold low; rw [cstr_copyInto nameLen kw ok.nz ok.len, cstr_of_nonzero' kw ok.nz]

theorem low_ne_nil (nameLen : Nat) (kw : List Nat) (ok : KwOK nameLen kw) : low kw ≠ [] := by
  intro h
  have := low_length kw ok.nz
  rw [h] at this
  exact ok.ne (List.length_eq_zero_iff.mp this.symm)

/-- FindBoardAutoCompleteStartIdx, ascending = the first board carrying the prefix. -/
theorem autoStart_asc (maxBoard nameLen : Nat) (es : List Entry) (kw : List Nat) (ok : KwOK nameLen kw)
    (hv : ∀ e ∈ es, e.bid + 1 ≤ maxBoard) (hn : NamesLen nameLen es) (S : SortedBy lexCmp nkey es)
    (D : DistinctNames es) : autoStart maxBoard nameLen es kw true = .ok (specAuto kw es true) := by
  have hK := low_copyInto nameLen kw ok
  obtain ⟨q, hq⟩ : ∃ q, q = copyInto nameLen kw := ⟨_, rfl⟩
  rw [← hq] at hK
  have hc := cmpName_eq q
  have hsign : ∀ e, (cmpNameP q e < 0 ↔ lexCmp (low kw) (nkey e) = .lt) ∧ (cmpNameP q e = 0 ↔ lexCmp (low kw) (nkey e) = .eq) ∧
      (0 < cmpNameP q e ↔ lexCmp (low kw) (nkey e) = .gt) := by
    intro e; have := cmpNameP_sign q e; rw [hK] at this; exact this
  have Mn : Mono (cmpNameP q) es :=
    mono_of_sorted lexLaws nkey (low q) (cmpNameP q) es (fun e _ => cmpNameP_sign q e) S
  have U : Unique0 (cmpNameP q) es := unique0_of_distinct q es D (by rw [hK]; exact low_ne_nil nameLen kw ok)
  obtain ⟨r, hr, hpost⟩ := findIdx_post maxBoard (cmpName q) (cmpNameP q) hc es Mn hv false
  have key : ∀ (x : Int), (if x = -1 then (Except.ok (-1) : M Int) else Except.ok (x + 1)) = .ok (if x = -1 then -1 else x + 1) := by
    intro x; split <;> rfl
  have hlen0 : ¬ kw.length = 0 := fun h => ok.ne (List.length_eq_zero_iff.mp h)
  unfold autoStart closestKeyword specAuto
  rw [if_neg (by have := ok.lt; omega), if_neg hlen0]
  simp only [if_true, bind, Except.bind, pure, Except.pure, Bool.not_true]
  rw [← hq, hr]
  simp only
  have h3 : maxIterAutoComplete = 2 + 1 := rfl
  rw [h3]
  rcases hpost with ⟨i, hi, rfl, h0⟩ | ⟨hnz, rfl⟩
  · -- an entry equal to the keyword: it is the first with the prefix
    have e1 : (if Int.ofNat i + 1 = -1 then (1 : Int) else Int.ofNat i + 1) - 1 = Int.ofNat i := by
      simp only [Int.ofNat_eq_natCast]; split <;> omega
    rw [e1]
    simp only [show (Int.ofNat i).toNat = i from rfl]
    rw [probeAsc_at maxBoard nameLen kw ok es hv hn S 2 i]
    · exact key _
    · intro k hk hlt
      have hmono := (Mn.get k i hlt hi)
      have hne : cmpNameP q es[k] ≠ 0 := fun h => by have := U k i hk hi h h0; omega
      have : 0 < cmpNameP q es[k] := by omega
      exact (hsign _).2.2.mp this
    · intro _
      rw [(hsign _).2.1.mp h0]; simp
  · -- no entry equal to the keyword
    rcases scanLast_spec (fun e => decide (0 ≤ cmpNameP q e)) es with ⟨h1, h2⟩ | ⟨p, hp, h1, h2, h3⟩
    · -- every entry is above the keyword: probe from the first
      have hy : nearest (cmpNameP q) es false = -1 := by simp [nearest, h1]
      rw [hy]
      simp only [if_true]
      have : ((1 : Int) - 1).toNat = 0 := rfl
      rw [this, probeAsc_at maxBoard nameLen kw ok es hv hn S 2 0]
      · exact key _
      · intro k hk hlt; omega
      · intro hm
        have := h2 _ (List.getElem_mem hm)
        have hneg : cmpNameP q es[0] < 0 := by simp at this; omega
        rw [(hsign _).1.mp hneg]; simp
    · -- `p` is the last entry below the keyword: one step, then probe at `p + 1`
      have hy : nearest (cmpNameP q) es false = Int.ofNat p := by simp [nearest, h1]
      rw [hy]
      have e1 : (if (if Int.ofNat p = -1 then (-1 : Int) else Int.ofNat p + 1) = -1 then (1 : Int)
          else (if Int.ofNat p = -1 then (-1 : Int) else Int.ofNat p + 1)) - 1 = Int.ofNat p := by
        simp only [Int.ofNat_eq_natCast]; split <;> split <;> omega
      rw [e1]
      simp only [show (Int.ofNat p).toNat = p from rfl]
      have hpos : 0 < cmpNameP q es[p] := by
        have : 0 ≤ cmpNameP q es[p] := by simpa using h2
        have := hnz _ (List.getElem_mem hp)
        omega
      have hgt := (hsign _).2.2.mp hpos
      have hnp : pref kw es[p] = false := by
        cases hpp : pref kw es[p] with
        | false => rfl
        | true =>
          rw [pref_iff kw ok.nz] at hpp
          exact absurd hgt (le_of_hasPrefix _ _ hpp)
      rw [List.drop_eq_getElem_cons hp,
        probeAsc_cons maxBoard nameLen kw ok 2 _ _ p (hv _ (List.getElem_mem hp)) (hn _ (List.getElem_mem hp)),
        if_neg (by simp [hnp]), if_pos hgt, probeAsc_at maxBoard nameLen kw ok es hv hn S 1 (p + 1)]
      · exact key _
      · intro k hk hlt
        by_cases hkp : k = p
        · subst hkp; exact hgt
        · have hmono := (Mn.get k p (by omega) hp)
          have := hnz _ (List.getElem_mem hk)
          have : 0 < cmpNameP q es[k] := by omega
          exact (hsign _).2.2.mp this
      · intro hm
        have := h3 (p + 1) hm (by omega)
        have hneg : cmpNameP q es[p + 1] < 0 := by simp at this; omega
        rw [(hsign _).1.mp hneg]; simp

/-! ### descending -/

/-- the last byte of a descending keyword for which `last byte + 1` is its successor in the case-folded order:
not `0xff` (the increment wraps to NUL), not `'Z'` (`'['` folds below `'z'`), not `'@'` (`'A'` folds to `'a'`,
six byte values above `'@'`). -/
def LastOK (x : Nat) : Prop := x < 255 ∧ x ≠ 64

theorem lower_lt (x : Nat) (h : x < 255) : ccharTolower x < 255 := by
  unfold ccharTolower; split <;> omega

/-- the successor byte the code computes (`CcharTolower(b) + 1`) is its own lower-case form. -/
theorem lower_succ (x : Nat) (h : LastOK x) : ccharTolower (ccharTolower x + 1) = ccharTolower x + 1 := by
  obtain ⟨h1, h3⟩ := h
  unfold ccharTolower
  split <;> split <;> omega

theorem closestKeyword_desc (nameLen : Nat) (kw0 : List Nat) (x : Nat) (hl : (kw0 ++ [x]).length ≤ nameLen) (v : Nat)
    (hv : (ccharTolower x + 1) % 256 = v) :
    closestKeyword nameLen (kw0 ++ [x]) false = .ok (copyInto nameLen (kw0 ++ [v])) := by
  have hl' : (kw0 ++ [v]).length ≤ nameLen := by simpa using hl
  unfold closestKeyword
  simp only [Bool.false_eq_true, if_false]
  rw [if_neg (by simp)]
  rw [copyInto_of_le nameLen _ hl, copyInto_of_le nameLen _ hl']
  have hlen : (kw0 ++ [x]).length - 1 = kw0.length := by simp
  rw [hlen]
  have hget : idx (kw0 ++ [x] ++ List.replicate (nameLen - (kw0 ++ [x]).length) 0) kw0.length = .ok x := by
    rw [idx_of_lt _ _ (by simp)]
    simp
  rw [hget]
  simp only [bind, Except.bind, pure, Except.pure]
  rw [hv]
  congr 1
  simp

theorem low_append_singleton (kw0 : List Nat) (x : Nat) (h0 : ∀ y ∈ kw0 ++ [x], y ≠ 0) :
    low (kw0 ++ [x]) = kw0.map ccharTolower ++ [ccharTolower x] := by
  rw [low_of_nonzero _ h0]; simp

/-- the strings at positions `m-1, m-2, …, 0`. -/
def downTo (es : List Entry) (m : Nat) : List Entry := (es.take m).reverse

theorem downTo_succ (es : List Entry) (m : Nat) (hm : m < es.length) : downTo es (m + 1) = es[m] :: downTo es m := by
  unfold downTo
  rw [List.take_succ_eq_append_getElem hm]
  simp

theorem mem_of_mem_downTo {es : List Entry} {m : Nat} {e : Entry} (h : e ∈ downTo es m) : e ∈ es :=
  List.mem_of_mem_take (List.mem_reverse.mp h)

/-- the facts about the keyword `K = K0 ++ [y]` and its successor `S` used by the descending search. -/
structure SuccOK (K S : List Nat) : Prop where
  iff : ∀ N, lexCmp S N = .gt ↔ (lexCmp K N = .gt ∨ hasPrefix N K = true)

/-- probing downwards from position `m - 1`, when every name from `m` on is at or above the successor keyword and
the name at `m - 1` is below it. -/
theorem probeDesc_at (maxBoard nameLen : Nat) (kw : List Nat) (ok : KwOK nameLen kw) (Sx : List Nat)
    (SO : SuccOK (low kw) Sx) (es : List Entry)
    (hv : ∀ e ∈ es, e.bid + 1 ≤ maxBoard) (hn : NamesLen nameLen es) (S : SortedBy lexCmp nkey es) (f m : Nat)
    (hm : m ≤ es.length)
    (habove : ∀ k (hk : k < es.length), m ≤ k → lexCmp Sx (nkey es[k]) ≠ .gt)
    (hat : ∀ (h0 : 0 < m), lexCmp Sx (nkey (es[m - 1]'(by omega))) = .gt) :
    probeDesc maxBoard kw (f + 1) (downTo es m) (m - 1) = .ok (scanLast (pref kw) es) := by
  have hnp : ∀ k (hk : k < es.length), m ≤ k → pref kw es[k] = false := by
    intro k hk hle
    cases hp : pref kw es[k] with
    | false => rfl
    | true =>
      rw [pref_iff kw ok.nz] at hp
      exact absurd ((SO.iff _).mpr (Or.inr hp)) (habove k hk hle)
  cases m with
  | zero =>
    have : downTo es 0 = [] := by simp [downTo]
    rw [this, probeDesc]
    rw [scanLast_none (fun e he => by
      obtain ⟨k, hk, rfl⟩ := List.getElem_of_mem he
      exact hnp k hk (by omega))]
    rfl
  | succ m' =>
    have hm' : m' < es.length := by omega
    have hlt := hat (by omega)
    simp only [Nat.add_sub_cancel] at hlt ⊢
    rw [downTo_succ es m' hm',
      probeDesc_cons maxBoard nameLen kw ok f _ _ m' (hv _ (List.getElem_mem hm')) (hn _ (List.getElem_mem hm'))]
    by_cases hp : pref kw es[m'] = true
    · rw [if_pos hp, scanLast_eq_of (pref kw) es m' hm' hp (fun k hk hlt => hnp k hk (by omega))]
    · have hpf : pref kw es[m'] = false := by simpa using hp
      have hgt : lexCmp (low kw) (nkey es[m']) = .gt := by
        rcases (SO.iff _).mp hlt with h | h
        · exact h
        · rw [← pref_iff kw ok.nz, hpf] at h; cases h
      rw [if_neg hp, if_pos hgt, scanLast_none]
      intro e he
      obtain ⟨k, hk, rfl⟩ := List.getElem_of_mem he
      rcases Nat.lt_trichotomy k m' with h | h | h
      · cases hpk : pref kw es[k] with
        | false => rfl
        | true =>
          rw [pref_iff kw ok.nz] at hpk
          have h1 := le_of_hasPrefix _ _ hpk
          have h2 := (List.pairwise_iff_getElem.mp S) k m' hk hm' h
          exact absurd hgt (lexLaws.le_trans _ _ _ h1 h2)
      · subst h; exact hpf
      · exact hnp k hk (by omega)

/-- one step down over a name at or above the successor keyword. -/
theorem probeDesc_skip (maxBoard nameLen : Nat) (kw : List Nat) (ok : KwOK nameLen kw) (Sx : List Nat)
    (SO : SuccOK (low kw) Sx) (es : List Entry)
    (hv : ∀ e ∈ es, e.bid + 1 ≤ maxBoard) (hn : NamesLen nameLen es) (f m : Nat) (hm : m < es.length)
    (h : lexCmp Sx (nkey es[m]) ≠ .gt) :
    probeDesc maxBoard kw (f + 1) (downTo es (m + 1)) m = probeDesc maxBoard kw f (downTo es m) (m - 1) := by
  rw [downTo_succ es m hm,
    probeDesc_cons maxBoard nameLen kw ok f _ _ m (hv _ (List.getElem_mem hm)) (hn _ (List.getElem_mem hm))]
  have h1 : ¬ pref kw es[m] = true := by
    intro hp
    rw [pref_iff kw ok.nz] at hp
    exact h ((SO.iff _).mpr (Or.inr hp))
  have h2 : ¬ lexCmp (low kw) (nkey es[m]) = .gt := fun hg => h ((SO.iff _).mpr (Or.inl hg))
  rw [if_neg h1, if_neg h2]

/-- FindBoardAutoCompleteStartIdx, descending = the last board carrying the prefix. -/
theorem autoStart_desc (maxBoard nameLen : Nat) (es : List Entry) (kw0 : List Nat) (x : Nat)
    (ok : KwOK nameLen (kw0 ++ [x])) (hx : LastOK x)
    (hv : ∀ e ∈ es, e.bid + 1 ≤ maxBoard) (hn : NamesLen nameLen es) (S : SortedBy lexCmp nkey es)
    (D : DistinctNames es) : autoStart maxBoard nameLen es (kw0 ++ [x]) false = .ok (specAuto (kw0 ++ [x]) es false) := by
  have hnz' : ∀ y ∈ kw0 ++ [ccharTolower x + 1], y ≠ 0 := by
    intro y hy
    rcases List.mem_append.mp hy with h | h
    · exact ok.nz y (List.mem_append_left _ h)
    · simp at h; omega
  have ok' : KwOK nameLen (kw0 ++ [ccharTolower x + 1]) := ⟨by simp, hnz', by simpa using ok.lt⟩
  obtain ⟨q, hq⟩ : ∃ q, q = copyInto nameLen (kw0 ++ [ccharTolower x + 1]) := ⟨_, rfl⟩
  have hS : low q = succStr (kw0.map ccharTolower) (ccharTolower x) := by
    rw [hq, low_copyInto nameLen _ ok', low_append_singleton kw0 (ccharTolower x + 1) hnz', lower_succ x hx]; rfl
  have hKw : low (kw0 ++ [x]) = kw0.map ccharTolower ++ [ccharTolower x] := low_append_singleton kw0 x ok.nz
  have SO : SuccOK (low (kw0 ++ [x])) (low q) := ⟨fun N => by rw [hS, hKw]; exact lt_succ_iff _ _ N⟩
  have hc := cmpName_eq q
  have hsign := cmpNameP_sign q
  have Mn : Mono (cmpNameP q) es :=
    mono_of_sorted lexLaws nkey (low q) (cmpNameP q) es (fun e _ => cmpNameP_sign q e) S
  have U : Unique0 (cmpNameP q) es := unique0_of_distinct q es D (by rw [hS]; simp [succStr])
  obtain ⟨r, hr, hpost⟩ := findIdx_post maxBoard (cmpName q) (cmpNameP q) hc es Mn hv true
  have key : ∀ (y : Int), (if y = -1 then (Except.ok (-1) : M Int) else Except.ok (y + 1)) = .ok (if y = -1 then -1 else y + 1) := by
    intro y; split <;> rfl
  unfold autoStart specAuto
  rw [if_neg (by have := ok.lt; omega), if_neg (by simp)]
  simp only [bind, Except.bind]
  rw [closestKeyword_desc nameLen kw0 x ok.len (ccharTolower x + 1) (by have := lower_lt x hx.1; omega)]
  simp only [Bool.false_eq_true, if_false, bind, Except.bind, pure, Except.pure, Bool.not_false]
  rw [← hq, hr]
  simp only
  have h3 : maxIterAutoComplete = 2 + 1 := rfl
  rw [h3]
  rcases hpost with ⟨i, hi, rfl, h0⟩ | ⟨hnz, rfl⟩
  · -- a board named like the successor keyword: step over it
    have e1 : (if Int.ofNat i + 1 = -1 then Int.ofNat es.length else Int.ofNat i + 1) - 1 = Int.ofNat i := by
      simp only [Int.ofNat_eq_natCast]; split <;> omega
    rw [e1, if_neg (by simp only [Int.ofNat_eq_natCast]; omega)]
    simp only [show (Int.ofNat i).toNat = i from rfl]
    unfold downFrom
    rw [show (es.take (i + 1)).reverse = downTo es (i + 1) from rfl,
      probeDesc_skip maxBoard nameLen _ ok (low q) SO es hv hn 2 i hi (by rw [(hsign _).2.1.mp h0]; simp),
      probeDesc_at maxBoard nameLen _ ok (low q) SO es hv hn S 1 i (by omega)]
    · exact key _
    · intro k hk hle
      have : cmpNameP q es[k] ≤ 0 := by
        by_cases hki : k = i
        · subst hki; omega
        · exact (Mn.get i k (by omega) hk).1 (by omega)
      intro hg
      have := (hsign _).2.2.mpr hg
      omega
    · intro hpos
      have hk : i - 1 < es.length := by omega
      have hmono := Mn.get (i - 1) i (by omega) hi
      have hne : cmpNameP q es[i - 1] ≠ 0 := fun h => by have := U (i - 1) i hk hi h h0; omega
      have : 0 < cmpNameP q es[i - 1] := by omega
      exact (hsign _).2.2.mp this
  · rcases scanFirst_spec (fun e => decide (cmpNameP q e ≤ 0)) es 0 with ⟨h1, h2⟩ | ⟨p, hp, h1, h2, h3'⟩
    · -- every name is below the successor keyword: probe from the last board
      have hy : nearest (cmpNameP q) es true = -1 := by simp [nearest, h1]
      rw [hy]
      simp only [if_true]
      by_cases hne : es.length = 0
      · have : es = [] := List.length_eq_zero_iff.mp hne
        subst this
        rfl
      · rw [if_neg (by simp only [Int.ofNat_eq_natCast]; omega)]
        have e2 : (Int.ofNat es.length - 1).toNat = es.length - 1 := by
          simp only [Int.ofNat_eq_natCast]; omega
        rw [e2]
        unfold downFrom
        have e3 : es.length - 1 + 1 = es.length := by omega
        rw [e3, show (es.take es.length).reverse = downTo es es.length from rfl,
          probeDesc_at maxBoard nameLen _ ok (low q) SO es hv hn S 2 es.length (Nat.le_refl _)]
        · exact key _
        · intro k hk hle; omega
        · intro hpos
          have hk : es.length - 1 < es.length := by omega
          have := h2 _ (List.getElem_mem hk)
          have hp' : 0 < cmpNameP q es[es.length - 1] := by simp at this; omega
          exact (hsign _).2.2.mp hp'
    · -- `p` is the first name above the successor keyword: step over it
      have hy : nearest (cmpNameP q) es true = Int.ofNat p := by simp [nearest, h1]
      rw [hy]
      have e1 : (if (if Int.ofNat p = -1 then (-1 : Int) else Int.ofNat p + 1) = -1 then Int.ofNat es.length
          else (if Int.ofNat p = -1 then (-1 : Int) else Int.ofNat p + 1)) - 1 = Int.ofNat p := by
        simp only [Int.ofNat_eq_natCast]; split <;> split <;> omega
      rw [e1, if_neg (by simp only [Int.ofNat_eq_natCast]; omega)]
      simp only [show (Int.ofNat p).toNat = p from rfl]
      have hneg : cmpNameP q es[p] < 0 := by
        have : cmpNameP q es[p] ≤ 0 := by simpa using h2
        have := hnz _ (List.getElem_mem hp)
        omega
      unfold downFrom
      rw [show (es.take (p + 1)).reverse = downTo es (p + 1) from rfl,
        probeDesc_skip maxBoard nameLen _ ok (low q) SO es hv hn 2 p hp (by rw [(hsign _).1.mp hneg]; simp),
        probeDesc_at maxBoard nameLen _ ok (low q) SO es hv hn S 1 p (by omega)]
      · exact key _
      · intro k hk hle
        have : cmpNameP q es[k] < 0 := by
          by_cases hkp : k = p
          · subst hkp; exact hneg
          · exact (Mn.get p k (by omega) hk).2 hneg
        rw [(hsign _).1.mp this]; simp
      · intro hpos
        have hk : p - 1 < es.length := by omega
        have := h3' (p - 1) (by omega)
        have hp' : 0 < cmpNameP q es[p - 1] := by simp at this; omega
        exact (hsign _).2.2.mp hp'

/-! ### descending, keywords whose last byte has no usable successor: sound because nothing carries them -/

/-- the probe loop only ever answers with a position that carries the prefix. -/
theorem probeDesc_none (maxBoard nameLen : Nat) (kw : List Nat) (ok : KwOK nameLen kw) (f : Nat) (l : List Entry) (i : Nat)
    (hv : ∀ e ∈ l, e.bid + 1 ≤ maxBoard) (hn : NamesLen nameLen l) (hno : ∀ e ∈ l, pref kw e = false) :
    probeDesc maxBoard kw f l i = .ok (-1) := by
  induction f generalizing l i with
  | zero => rw [probeDesc]; rfl
  | succ f ih =>
    cases l with
    | nil => rw [probeDesc]; rfl
    | cons e rest =>
      rw [probeDesc_cons maxBoard nameLen kw ok f e rest i (hv e (by simp)) (hn e (by simp)),
        if_neg (by rw [hno e (by simp)]; simp)]
      split
      · rfl
      · exact ih rest (i - 1) (fun x hx => hv x (by simp [hx])) (fun x hx => hn x (by simp [hx]))
          (fun x hx => hno x (by simp [hx]))

/-- descending, any last byte: if no board carries the prefix the answer is `-1`. -/
theorem autoStart_desc_none (maxBoard nameLen : Nat) (es : List Entry) (kw0 : List Nat) (x : Nat)
    (ok : KwOK nameLen (kw0 ++ [x])) (hv : ∀ e ∈ es, e.bid + 1 ≤ maxBoard) (hn : NamesLen nameLen es)
    (S : SortedBy lexCmp nkey es) (hno : ∀ e ∈ es, pref (kw0 ++ [x]) e = false) :
    autoStart maxBoard nameLen es (kw0 ++ [x]) false = .ok (specAuto (kw0 ++ [x]) es false) := by
  obtain ⟨q, hq⟩ : ∃ q, q = copyInto nameLen (kw0 ++ [(ccharTolower x + 1) % 256]) := ⟨_, rfl⟩
  have Mn : Mono (cmpNameP q) es :=
    mono_of_sorted lexLaws nkey (low q) (cmpNameP q) es (fun e _ => cmpNameP_sign q e) S
  obtain ⟨r, hr, _⟩ := findIdx_post maxBoard (cmpName q) (cmpNameP q) (cmpName_eq q) es Mn hv true
  have hspec : specAuto (kw0 ++ [x]) es false = -1 := by
    unfold specAuto
    simp only [Bool.false_eq_true, if_false]
    rw [scanLast_none hno]; rfl
  rw [hspec]
  unfold autoStart
  rw [if_neg (by have := ok.lt; omega), if_neg (by simp)]
  simp only [bind, Except.bind]
  rw [closestKeyword_desc nameLen kw0 x ok.len _ rfl]
  simp only [Bool.false_eq_true, if_false, bind, Except.bind, pure, Except.pure, Bool.not_false]
  rw [← hq, hr]
  simp only
  generalize ((if r = -1 then Int.ofNat es.length else r) - 1) = s
  by_cases hs : s < 0
  · rw [if_pos hs]; rfl
  · rw [if_neg hs, probeDesc_none maxBoard nameLen _ ok _ _ _ (fun e he => hv e (mem_of_mem_downFrom he))
      (fun e he => hn e (mem_of_mem_downFrom he)) (fun e he => hno e (mem_of_mem_downFrom he))]
    rfl

/-- no board name contains `'@'` or `0xff` (a fortiori true of valid board names: letters, digits, `_ - .`). -/
def NoAtFF (es : List Entry) : Prop := ∀ e ∈ es, ∀ b ∈ nkey e, b ≠ 64 ∧ b ≠ 255

theorem lower_fix (x : Nat) (h : x = 64 ∨ 255 ≤ x) : ccharTolower x = x := by
  unfold ccharTolower; split <;> omega

/-- FindBoardAutoCompleteStartIdx, descending, for EVERY non-empty NUL-free keyword of at most IDLEN bytes (bytes
below 256), over tables whose names contain neither `'@'` nor `0xff`. -/
theorem autoStart_desc_all (maxBoard nameLen : Nat) (es : List Entry) (kw : List Nat) (ok : KwOK nameLen kw)
    (hb : ∀ x ∈ kw, x < 256)
    (hv : ∀ e ∈ es, e.bid + 1 ≤ maxBoard) (hn : NamesLen nameLen es) (S : SortedBy lexCmp nkey es)
    (D : DistinctNames es) (V : NoAtFF es) : autoStart maxBoard nameLen es kw false = .ok (specAuto kw es false) := by
  rcases List.eq_nil_or_concat kw with h | ⟨kw0, x, h⟩
  · exact absurd h ok.ne
  · rw [List.concat_eq_append] at h
    subst h
    have hx : x < 256 := hb x (by simp)
    by_cases hok : LastOK x
    · exact autoStart_desc maxBoard nameLen es kw0 x ok hok hv hn S D
    · apply autoStart_desc_none maxBoard nameLen es kw0 x ok hv hn S
      intro e he
      cases hp : pref (kw0 ++ [x]) e with
      | false => rfl
      | true =>
        exfalso
        rw [pref_iff _ ok.nz, hasPrefix_iff, low_append_singleton kw0 x ok.nz] at hp
        have hmem : ccharTolower x ∈ nkey e := hp.subset (by simp)
        have hfix : ccharTolower x = x := lower_fix x (by unfold LastOK at hok; omega)
        rw [hfix] at hmem
        have := V e he x hmem
        unfold LastOK at hok
        omega

/-! ### the empty keyword and keywords longer than a board name (fix b555081) -/

theorem pref_nil (e : Entry) : pref [] e = true := by
  unfold pref cstrCaseHasPrefix cstrTolower
  simp only [List.map_nil]
  cases (List.map ccharTolower e.b.name) <;> rfl

theorem autoStart_empty (maxBoard nameLen : Nat) (es : List Entry) (hl : 1 ≤ nameLen) (isAsc : Bool) :
    autoStart maxBoard nameLen es [] isAsc = .ok (specAuto [] es isAsc) := by
  unfold autoStart specAuto
  simp only [List.length_nil]
  rw [if_neg (by omega)]
  simp only [if_true]
  cases es with
  | nil => cases isAsc <;> rfl
  | cons e rest =>
    simp only [List.length_cons]
    rw [if_neg (by omega)]
    cases isAsc with
    | true =>
      simp only [if_true, scanFirst, pref_nil]
      rfl
    | false =>
      simp only [Bool.false_eq_true, if_false]
      have hl : (e :: rest).length - 1 < (e :: rest).length := by simp
      rw [scanLast_eq_of (pref []) (e :: rest) ((e :: rest).length - 1) hl (pref_nil _)
        (fun k hk hlt => by omega)]
      simp only [pure, Except.pure, List.length_cons, Int.ofNat_eq_natCast]
      rw [if_neg (by omega)]
      congr 1

/-- a keyword longer than IDLEN is answered `-1` without touching the table … -/
theorem autoStart_long (maxBoard nameLen : Nat) (es : List Entry) (kw : List Nat) (isAsc : Bool)
    (h : nameLen ≤ kw.length) : autoStart maxBoard nameLen es kw isAsc = .ok (-1) := by
  unfold autoStart
  rw [if_pos (by omega)]
  rfl

/-- … which is what the scan gives when every name is NUL-terminated inside its array. -/
theorem specAuto_long (nameLen : Nat) (es : List Entry) (kw : List Nat) (isAsc : Bool)
    (h0 : ∀ x ∈ kw, x ≠ 0) (h : nameLen ≤ kw.length) (ht : ∀ e ∈ es, (nkey e).length < nameLen) :
    specAuto kw es isAsc = -1 := by
  have hno : ∀ e ∈ es, pref kw e = false := by
    intro e he
    cases hp : pref kw e with
    | false => rfl
    | true =>
      rw [pref_iff kw h0, hasPrefix_iff] at hp
      have := hp.length_le
      rw [low_length kw h0] at this
      have := ht e he
      omega
  unfold specAuto
  cases isAsc with
  | true => simp only [if_true]; rw [scanFirst_none hno]; rfl
  | false => simp only [Bool.false_eq_true, if_false]; rw [scanLast_none hno]; rfl

end PttVerif.C11
