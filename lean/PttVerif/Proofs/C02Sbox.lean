import PttVerif.Proofs.C02Round
/-
C02, stage 4 — the S-box side of the round function: `rho (P (S-boxes x))` is the or of the eight `SPtrans`
entries `dEncrypt` looks up.
-/
namespace PttVerif.C02.Lin
open PttVerif PttVerif.C02 PttVerif.Gen.CryptTables

/-- nibble `b` (S-box `b+1` output position, FIPS bits 4b+1…4b+4) of a 32-bit value, in place. -/
def nibE (b : Nat) : LE := LE.shlN (LE.and (LE.shr LE.inp (4 * (7 - b))) 15) (4 * (7 - b))

def spOfE (b : Nat) : LE := rhoE (LE.perm Spec.P 32 (nibE b))

/-- the or in the order `dEncrypt` writes it. -/
def recombE : LE :=
  LE.or (LE.or (LE.or (LE.or (LE.or (LE.or (LE.or (spOfE 1) (spOfE 3)) (spOfE 5)) (spOfE 7)) (spOfE 0)) (spOfE 2))
    (spOfE 4)) (spOfE 6)

theorem recomb_ok : ok (2 ^ 32 - 1) recombE = true := by decide +kernel
theorem recomb_basis : (List.range 32).all (fun i => eval (2 ^ i) recombE == eval (2 ^ i) (rhoE (LE.perm Spec.P 32 LE.inp))) = true := by
  decide +kernel

theorem recomb (y : Nat) (hy : y < 2 ^ 32) : eval y recombE = rho (Spec.permF Spec.P 32 y) :=
  le_ext 32 recombE (rhoE (LE.perm Spec.P 32 LE.inp)) recomb_ok (by decide +kernel) recomb_basis y hy

end PttVerif.C02.Lin
