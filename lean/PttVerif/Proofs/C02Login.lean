import PttVerif.Model.C02Login
import PttVerif.Proofs.C02
/-
C02 — helper lemmas for the login histories (Model/C02Login.lean).
-/
namespace PttVerif.C02.Login
open PttVerif PttVerif.C02

theorem lookup_set_self (st : Store) (u h : List Nat) : lookup (set st u h) u = some h := by
  induction st with
  | nil => simp [set, lookup]
  | cons p st ih =>
    obtain ⟨v, g⟩ := p
    unfold set
    by_cases hv : v = u
    · simp [hv, lookup]
    · simp [hv, lookup, ih]

theorem lookup_set_other (st : Store) (u v h : List Nat) (hne : v ≠ u) : lookup (set st u h) v = lookup st v := by
  induction st with
  | nil => simp [set, lookup, Ne.symm hne]
  | cons p st ih =>
    obtain ⟨w, g⟩ := p
    unfold set
    by_cases hw : w = u
    · subst hw; simp [lookup, Ne.symm hne]
    · by_cases hwv : w = v
      · subst hwv; simp [hne, lookup]
      · simp [hw, lookup, hwv, ih]

theorem run_append (st : Store) (a b : List Op) :
    run st (a ++ b) = ((run (run st a).1 b).1, (run st a).2 ++ (run (run st a).1 b).2) := by
  induction a generalizing st with
  | nil => simp [run]
  | cons op a ih =>
    simp only [List.cons_append, run]
    rw [ih]

theorem run_single (st : Store) (op : Op) : run st [op] = ((step st op).1, [(step st op).2]) := by
  simp [run]

end PttVerif.C02.Login
