import PttVerif.Model.C07
set_option linter.unusedSimpArgs false
set_option linter.unusedVariables false
/-
C07 — helper lemmas: mask tests on 32-bit words = named bits; the interpreter on guarded statement lists.
Core only.
-/
namespace PttVerif.C07
open PttVerif.Gen.Perm

/-! ### masks and bits -/

theorem twoPow_ne_zero (k : Nat) (hk : k < 32) : BitVec.twoPow 32 k ≠ 0#32 := by
  intro h
  have := congrArg (fun v => v.getLsbD k) h
  simp [hk] at this

/-- `x & (1<<k) != 0` is bit `k` of `x`. -/
theorem and_twoPow_ne_zero (x : W) (k : Nat) (hk : k < 32) :
    ((x &&& BitVec.twoPow 32 k) != 0#32) = x.getLsbD k := by
  rw [BitVec.and_twoPow]
  cases h : x.getLsbD k
  · simp
  · simp [twoPow_ne_zero k hk]

theorem and_twoPow_eq_zero (x : W) (k : Nat) (hk : k < 32) :
    ((x &&& BitVec.twoPow 32 k) == 0#32) = !x.getLsbD k := by
  have := and_twoPow_ne_zero x k hk
  rw [← this]; simp [bne]

/-- `x & y != 0`  iff  some bit is set in both. -/
theorem and_ne_zero_iff (x y : W) :
    (x &&& y) ≠ 0#32 ↔ ∃ i, i < 32 ∧ x.getLsbD i = true ∧ y.getLsbD i = true := by
  constructor
  · intro h
    rw [Ne, BitVec.eq_of_getLsbD_eq_iff] at h
    obtain ⟨i, hi⟩ := Classical.not_forall.mp h
    obtain ⟨hlt, hne⟩ := Classical.not_imp.mp hi
    refine ⟨i, hlt, ?_⟩
    simp only [BitVec.getLsbD_and, BitVec.getLsbD_zero] at hne
    cases hx : x.getLsbD i <;> cases hy : y.getLsbD i <;> simp [hx, hy] at hne ⊢
  · rintro ⟨i, _, hx, hy⟩ h
    have := congrArg (fun v => v.getLsbD i) h
    simp [hx, hy] at this

theorem hasUserPerm_eq_sharesBit (x y : W) : hasUserPerm x y = Spec.sharesBit x y := by
  unfold hasUserPerm Spec.sharesBit Spec.bit
  cases h : (List.range 32).any fun i => x.getLsbD i && y.getLsbD i
  · -- no common bit
    have hz : (x &&& y) = 0#32 := by
      apply Decidable.byContradiction
      intro hne
      obtain ⟨i, hi, hx, hy⟩ := (and_ne_zero_iff x y).1 hne
      have : ((List.range 32).any fun i => x.getLsbD i && y.getLsbD i) = true :=
        List.any_eq_true.2 ⟨i, List.mem_range.2 hi, by simp [hx, hy]⟩
      rw [h] at this; exact Bool.noConfusion this
    simp [hz]
  · obtain ⟨i, hi, hb⟩ := List.any_eq_true.1 h
    have hne : (x &&& y) ≠ 0#32 :=
      (and_ne_zero_iff x y).2 ⟨i, List.mem_range.1 hi, by simpa using (Bool.and_eq_true _ _ ▸ hb).1,
        by simpa using (Bool.and_eq_true _ _ ▸ hb).2⟩
    simp [bne, hne]

/-- the regenerated masks are the single bits the rule names -/
theorem masks :
    w PERM_BASIC = BitVec.twoPow 32 0 ∧ w PERM_LOGINOK = BitVec.twoPow 32 4 ∧ w PERM_BM = BitVec.twoPow 32 10 ∧
    w PERM_BOARD = BitVec.twoPow 32 13 ∧ w PERM_SYSOP = BitVec.twoPow 32 14 ∧ w PERM_POLICE_MAN = BitVec.twoPow 32 28 ∧
    w PERM_POLICE = BitVec.twoPow 32 31 ∧ w BRD_GROUPBOARD = BitVec.twoPow 32 3 ∧ w BRD_HIDE = BitVec.twoPow 32 4 ∧
    w BRD_POSTMASK = BitVec.twoPow 32 5 ∧ w BRD_SYMBOLIC = BitVec.twoPow 32 15 ∧ w BRD_OVER18 = BitVec.twoPow 32 24 := by
  decide

theorem test_BASIC (x : W) : hasUserPerm x (w PERM_BASIC) = Spec.bit x 0 := by
  unfold hasUserPerm; rw [masks.1]; exact and_twoPow_ne_zero x 0 (by omega)
theorem test_LOGINOK (x : W) : hasUserPerm x (w PERM_LOGINOK) = Spec.bit x 4 := by
  unfold hasUserPerm; rw [masks.2.1]; exact and_twoPow_ne_zero x 4 (by omega)
theorem test_BM (x : W) : ((x &&& w PERM_BM) != 0) = Spec.bit x 10 := by
  rw [masks.2.2.1]; exact and_twoPow_ne_zero x 10 (by omega)
theorem test_BOARD (x : W) : hasUserPerm x (w PERM_BOARD) = Spec.bit x 13 := by
  unfold hasUserPerm; rw [masks.2.2.2.1]; exact and_twoPow_ne_zero x 13 (by omega)
theorem test_SYSOP (x : W) : hasUserPerm x (w PERM_SYSOP) = Spec.bit x 14 := by
  unfold hasUserPerm; rw [masks.2.2.2.2.1]; exact and_twoPow_ne_zero x 14 (by omega)
theorem test_POLICE_MAN (x : W) : hasUserPerm x (w PERM_POLICE_MAN) = Spec.bit x 28 := by
  unfold hasUserPerm; rw [masks.2.2.2.2.2.1]; exact and_twoPow_ne_zero x 28 (by omega)
theorem test_POLICE (x : W) : hasUserPerm x (w PERM_POLICE) = Spec.bit x 31 := by
  unfold hasUserPerm; rw [masks.2.2.2.2.2.2.1]; exact and_twoPow_ne_zero x 31 (by omega)
theorem test_HIDE (x : W) : ((x &&& w BRD_HIDE) != 0) = Spec.bit x 4 := by
  rw [masks.2.2.2.2.2.2.2.2.1]; exact and_twoPow_ne_zero x 4 (by omega)
theorem test_POSTMASK (x : W) : ((x &&& w BRD_POSTMASK) != 0) = Spec.bit x 5 := by
  rw [masks.2.2.2.2.2.2.2.2.2.1]; exact and_twoPow_ne_zero x 5 (by omega)
theorem test_POSTMASK0 (x : W) : ((x &&& w BRD_POSTMASK) == 0) = !Spec.bit x 5 := by
  rw [masks.2.2.2.2.2.2.2.2.2.1]; exact and_twoPow_eq_zero x 5 (by omega)
theorem test_OVER18 (x : W) : ((x &&& w BRD_OVER18) != 0) = Spec.bit x 24 := by
  rw [masks.2.2.2.2.2.2.2.2.2.2.2]; exact and_twoPow_ne_zero x 24 (by omega)

/-- `attr & (GROUPBOARD|SYMBOLIC) != 0` -/
theorem test_GROUPSYM (x : W) :
    ((x &&& (w BRD_GROUPBOARD ||| w BRD_SYMBOLIC)) != 0) = (Spec.bit x 3 || Spec.bit x 15) := by
  have h3 := and_twoPow_ne_zero x 3 (by omega)
  have h15 := and_twoPow_ne_zero x 15 (by omega)
  rw [masks.2.2.2.2.2.2.2.1, masks.2.2.2.2.2.2.2.2.2.2.1, BitVec.and_or_distrib_left]
  unfold Spec.bit
  rw [← h3, ← h15]
  generalize (x &&& BitVec.twoPow 32 3) = p
  generalize (x &&& BitVec.twoPow 32 15) = q
  rw [Bool.eq_iff_iff]
  simp only [bne_iff_ne, Bool.or_eq_true, ne_eq]
  by_cases a : p = 0#32 <;> by_cases b : q = 0#32 <;> simp [a, b]

/-! ### the decision -/

theorem hasBasicUserPerm_LOGINOK (x : W) :
    hasBasicUserPerm x (w PERM_LOGINOK) = (Spec.bit x 0 && Spec.bit x 4) := by
  unfold hasBasicUserPerm; rw [test_BASIC, test_LOGINOK]

theorem isBMCache_eq (u : UserView) (r : Relation) : isBMCache u r = Spec.moderator u r := by
  unfold isBMCache Spec.moderator Spec.registered Spec.realUid
  rw [hasBasicUserPerm_LOGINOK, test_BASIC]
  simp only [bne]
  generalize (u.uid == 0) = z
  generalize (u.uid == -1) = m
  cases Spec.bit u.level 0 <;> cases Spec.bit u.level 4 <;> cases z <;> cases m <;> cases r.bmUid <;> rfl

theorem level_ne_zero (x : W) : (x != 0) = !(x == 0) := by simp [bne]

theorem nbrd_vals : NBRD_INVALID = 0 ∧ NBRD_FAV = 1 ∧ NBRD_BOARD = 2 ∧ NBRD_LINE = 4 ∧ NBRD_FOLDER = 8 := by decide

/-- the Go decision = the declarative rule, for all users, boards and relations (both level words arbitrary). -/
theorem boardPermStat_ne_invalid (u : UserView) (b : BoardView) (r : Relation) :
    (boardPermStat u b r != NBRD_INVALID) = Spec.mayRead u b r := by
  unfold boardPermStat boardPermStatNormally Spec.mayRead Spec.sysop Spec.police Spec.moderatorsBoard
    Spec.hidden Spec.restricted Spec.adultOnly
  rw [test_SYSOP, test_POLICE, test_POLICE_MAN, test_BM, isBMCache_eq, test_HIDE, test_POSTMASK, test_POSTMASK0, test_OVER18,
    hasUserPerm_eq_sharesBit, level_ne_zero, nbrd_vals.1, nbrd_vals.2.1, nbrd_vals.2.2.1]
  generalize Spec.bit u.level 14 = sysop
  generalize Spec.bit u.level 31 = pol
  generalize Spec.bit u.level 28 = polman
  generalize Spec.bit b.level 10 = bmb
  generalize Spec.moderator u r = mod
  generalize Spec.bit b.attr 4 = hide
  generalize Spec.bit b.attr 5 = mask
  generalize Spec.bit b.attr 24 = o18
  generalize Spec.sharesBit u.level b.level = sh
  generalize (b.level == 0) = lz
  generalize r.friend = fr
  generalize u.over18 = adult
  cases sysop <;> cases pol <;> cases polman <;> cases bmb <;> cases mod <;> cases hide <;> cases mask <;> cases o18 <;>
    cases sh <;> cases lz <;> cases fr <;> cases adult <;> rfl

/-! ### the interpreter on a guarded statement list -/

theorem lookup_NBRD_INVALID : lookup "NBRD_INVALID" nbrdAll = some NBRD_INVALID := by decide

theorem harmless_not_content (a : String) (h : a ∈ harmlessCallees) : a ∉ contentCallees := by
  simp [harmlessCallees] at h
  rcases h with rfl | rfl <;> decide

/-- a step that can only refuse (argument check, counter) is skipped when no argument check fires -/
theorem runReader_harmless (env : ReadEnv) (hp : env.precheck = false) (s : Step) (rest : List Step) (st : RState)
    (h : isHarmlessStep s = true) : runReader env (s :: rest) st = runReader env rest st := by
  obtain ⟨k, a, b, c, ds⟩ := s
  simp only [isHarmlessStep, Step.kind, Step.a, Step.c, Bool.or_eq_true, Bool.and_eq_true, decide_eq_true_eq] at h
  rcases h with ⟨rfl, hc⟩ | ⟨rfl, ha⟩
  · simp [runReader, Step.kind, Step.a, Step.b, Step.c, hc, hp]
  · have ha' : a ∈ harmlessCallees := by simpa using ha
    simp [runReader, Step.kind, Step.a, Step.b, Step.c, ha', harmless_not_content a ha']

theorem runReader_dropWhile (env : ReadEnv) (hp : env.precheck = false) (steps : List Step) (st : RState) :
    runReader env steps st = runReader env (steps.dropWhile isHarmlessStep) st := by
  induction steps with
  | nil => rfl
  | cons s rest ih =>
    cases h : isHarmlessStep s
    · simp [List.dropWhile, h]
    · rw [runReader_harmless env hp s rest st h, ih]; simp [List.dropWhile, h]

theorem runReader_content (env : ReadEnv) (c : Step) (rest : List Step) (st : RState) (h : isContentStep c = true) :
    runReader env (c :: rest) st = .allow := by
  obtain ⟨k, a, b, cc, ds⟩ := c
  simp only [isContentStep, Step.kind, Step.a, Bool.or_eq_true, Bool.and_eq_true, decide_eq_true_eq] at h
  rcases h with ⟨rfl, ha⟩ | rfl
  · have ha' : a ∈ contentCallees := by simpa using ha
    simp [runReader, Step.kind, Step.a, Step.b, Step.c, ha']
  · simp [runReader, Step.kind]

/-- what an entry point with the guard shape does, for every user, board, relation and bid validity, when no
argument check fires: invalid bid ⇒ the fetch error; otherwise content iff boardPermStat ≠ NBRD_INVALID. -/
theorem runReader_of_guardShape (env : ReadEnv) (hp : env.precheck = false) (steps : List Step) (hg : guardShape steps = true) :
    runReader env steps {} =
      if env.bidValid = false then .invalidBid
      else if boardPermStat env.u env.b env.r = NBRD_INVALID then .deny else .allow := by
  rw [runReader_dropWhile env hp]
  unfold guardShape at hg
  generalize steps.dropWhile isHarmlessStep = gs at hg
  match gs, hg with
  | g1 :: g2 :: g3 :: g4 :: rest, hg =>
    obtain ⟨k1, a1, b1, c1, d1⟩ := g1
    obtain ⟨k2, a2, b2, c2, d2⟩ := g2
    obtain ⟨k3, a3, b3, c3, d3⟩ := g3
    obtain ⟨k4, a4, b4, c4, d4⟩ := g4
    simp only [Step.kind, Step.a, Step.b, Step.c, Bool.and_eq_true, decide_eq_true_eq] at hg
    obtain ⟨⟨⟨⟨⟨⟨⟨⟨⟨rfl, rfl⟩, rfl⟩, rfl⟩, rfl⟩, rfl⟩, rfl⟩, rfl⟩, hdeny⟩, hrest⟩ := hg
    cases hv : env.bidValid
    · simp [runReader, Step.kind, Step.a, Step.b, Step.c, hv]
    · have hcont : runReader env rest { board := some true, errPending := false, stat := some (boardPermStat env.u env.b env.r) } = .allow := by
        rw [runReader_dropWhile env hp]
        revert hrest
        generalize rest.dropWhile isHarmlessStep = cs
        intro hrest
        match cs, hrest with
        | c :: tl, hrest => exact runReader_content env c tl _ hrest
      by_cases hs : boardPermStat env.u env.b env.r = NBRD_INVALID
      · simp [runReader, Step.kind, Step.a, Step.b, Step.c, hv, lookup_NBRD_INVALID, hs, hdeny]
      · simp [runReader, Step.kind, Step.a, Step.b, Step.c, hv, lookup_NBRD_INVALID, hs, hcont]

/-- content is reached only through the permission test, whatever the argument checks do -/
theorem runReader_harmless_allow (env : ReadEnv) (s : Step) (rest : List Step) (st : RState)
    (h : isHarmlessStep s = true) (ha : runReader env (s :: rest) st = .allow) : runReader env rest st = .allow := by
  obtain ⟨k, a, b, c, ds⟩ := s
  simp only [isHarmlessStep, Step.kind, Step.a, Step.c, Bool.or_eq_true, Bool.and_eq_true, decide_eq_true_eq] at h
  rcases h with ⟨rfl, hc⟩ | ⟨rfl, hh⟩
  · cases hp : env.precheck
    · simpa [runReader, Step.kind, Step.a, Step.b, Step.c, hc, hp] using ha
    · simp [runReader, Step.kind, Step.a, Step.b, Step.c, hc, hp] at ha
  · have hh' : a ∈ harmlessCallees := by simpa using hh
    simpa [runReader, Step.kind, Step.a, Step.b, Step.c, hh', harmless_not_content a hh'] using ha

theorem runReader_dropWhile_allow (env : ReadEnv) (steps : List Step) (st : RState)
    (ha : runReader env steps st = .allow) : runReader env (steps.dropWhile isHarmlessStep) st = .allow := by
  induction steps with
  | nil => simpa using ha
  | cons s rest ih =>
    cases h : isHarmlessStep s
    · simpa [List.dropWhile, h] using ha
    · simp only [List.dropWhile, h]; exact ih (runReader_harmless_allow env s rest st h ha)

theorem allow_of_guardShape (env : ReadEnv) (steps : List Step) (hg : guardShape steps = true)
    (ha : runReader env steps {} = .allow) : env.bidValid = true ∧ boardPermStat env.u env.b env.r ≠ NBRD_INVALID := by
  have ha := runReader_dropWhile_allow env steps {} ha
  unfold guardShape at hg
  generalize steps.dropWhile isHarmlessStep = gs at hg ha
  match gs, hg with
  | g1 :: g2 :: g3 :: g4 :: rest, hg =>
    obtain ⟨k1, a1, b1, c1, d1⟩ := g1
    obtain ⟨k2, a2, b2, c2, d2⟩ := g2
    obtain ⟨k3, a3, b3, c3, d3⟩ := g3
    obtain ⟨k4, a4, b4, c4, d4⟩ := g4
    simp only [Step.kind, Step.a, Step.b, Step.c, Bool.and_eq_true, decide_eq_true_eq] at hg
    obtain ⟨⟨⟨⟨⟨⟨⟨⟨⟨rfl, rfl⟩, rfl⟩, rfl⟩, rfl⟩, rfl⟩, rfl⟩, rfl⟩, hdeny⟩, hrest⟩ := hg
    cases hv : env.bidValid
    · simp [runReader, Step.kind, Step.a, Step.b, Step.c, hv] at ha
    · refine ⟨rfl, ?_⟩
      intro hs
      simp [runReader, Step.kind, Step.a, Step.b, Step.c, hv, lookup_NBRD_INVALID, hs, hdeny] at ha

/-! ### listing side -/

theorem groupOp_eq (u : UserView) (r : Relation) : groupOp u r = Spec.administers u r := by
  unfold groupOp Spec.administers Spec.boardAdmin
  rw [test_BOARD]
  cases Spec.bit u.level 13 <;> cases r.namedBM <;> cases hasUserPerm u.level (w PERM_NOCITIZEN) <;> rfl

theorem boardPermStat_range (u : UserView) (b : BoardView) (r : Relation) :
    boardPermStat u b r = 0 ∨ boardPermStat u b r = 1 ∨ boardPermStat u b r = 2 := by
  unfold boardPermStat boardPermStatNormally
  rw [nbrd_vals.1, nbrd_vals.2.1, nbrd_vals.2.2.1]
  repeat' split
  all_goals simp

/-- NBRD_BOARD is the state of a hidden, unmasked board seen by somebody who is neither privileged nor a friend -/
theorem boardPermStat_eq_BOARD (u : UserView) (b : BoardView) (r : Relation) :
    (boardPermStat u b r == NBRD_BOARD) =
      (!Spec.sysop u && !(Spec.moderatorsBoard b && Spec.police u) && !Spec.moderator u r &&
        Spec.hidden b && !r.friend && !Spec.restricted b) := by
  unfold boardPermStat boardPermStatNormally Spec.sysop Spec.police Spec.moderatorsBoard Spec.hidden Spec.restricted
  rw [test_SYSOP, test_POLICE, test_POLICE_MAN, test_BM, isBMCache_eq, test_HIDE, test_POSTMASK, test_POSTMASK0, test_OVER18,
    nbrd_vals.1, nbrd_vals.2.1, nbrd_vals.2.2.1]
  generalize Spec.bit u.level 14 = sysop
  generalize Spec.bit u.level 31 = pol
  generalize Spec.bit u.level 28 = polman
  generalize Spec.bit b.level 10 = bmb
  generalize Spec.moderator u r = mod
  generalize Spec.bit b.attr 4 = hide
  generalize Spec.bit b.attr 5 = mask
  generalize Spec.bit b.attr 24 = o18
  generalize (b.level != 0 && !mask && !hasUserPerm u.level b.level) = lv
  generalize r.friend = fr
  generalize u.over18 = adult
  cases sysop <;> cases pol <;> cases polman <;> cases bmb <;> cases mod <;> cases hide <;> cases mask <;> cases o18 <;>
    cases lv <;> cases fr <;> cases adult <;> rfl

/-- what parseBoardSummary makes of a stat produced by boardPermStat -/
theorem parse_of_range (v : Nat) (g f : Bool) (hv : v = 0 ∨ v = 1 ∨ v = 2) :
    parseBoardSummary { attr := v, isGroupOp := g } f = if !g && v == 0 then .masked else .full := by
  unfold parseBoardSummary
  rw [nbrd_vals.1, nbrd_vals.2.2.2.1, nbrd_vals.2.2.2.2]
  rcases hv with rfl | rfl | rfl <;> cases g <;> cases f <;> decide

/-- the board header with BRD_POSTMASK set -/
def setMask (b : BoardView) : BoardView := { b with attr := b.attr ||| w BRD_POSTMASK }

theorem newBoardStat_eq (v : Nat) (b : BoardView) (g : Bool) :
    newBoardStat v b g =
      ({ attr := v, isGroupOp := g }, if Spec.hidden b && !Spec.restricted b && v == NBRD_BOARD then setMask b else b) := by
  unfold newBoardStat setMask Spec.hidden Spec.restricted
  rw [test_HIDE, test_POSTMASK0]

theorem bit_setMask (x : W) (i : Nat) : Spec.bit (x ||| w BRD_POSTMASK) i = (Spec.bit x i || (i == 5)) := by
  unfold Spec.bit
  rw [masks.2.2.2.2.2.2.2.2.2.1, BitVec.getLsbD_or, BitVec.getLsbD_twoPow]
  by_cases h : 5 = i
  · subst h; simp
  · have : (i == 5) = false := by simp; omega
    simp [h, this]

theorem test_GROUPSYM' (x : W) :
    ((x &&& (w BRD_GROUPBOARD ||| w BRD_SYMBOLIC)) != 0#32) = (Spec.bit x 3 || Spec.bit x 15) := test_GROUPSYM x

/-- newBoardStat writes exactly when the state is NBRD_BOARD (that state already implies hidden and unmasked) -/
theorem mut_cond (u : UserView) (b : BoardView) (r : Relation) :
    (Spec.hidden b && !Spec.restricted b && boardPermStat u b r == NBRD_BOARD) = (boardPermStat u b r == NBRD_BOARD) := by
  rw [boardPermStat_eq_BOARD]; cases Spec.hidden b <;> cases Spec.restricted b <;> simp

end PttVerif.C07
