import PttVerif.Model.C07
set_option linter.unusedSimpArgs false
set_option linter.unusedVariables false
/-
C07 — helper lemmas: mask tests on 32-bit words = named bits; the interpreter on guarded statement lists.
Core only.
-/
namespace PttVerif.C07
open PttVerif.Gen.Perm

/-! ### masks and bits -/

theorem twoPow_ne_zero (k : Nat) (hk : k < 32) : BitVec.twoPow 32 k ≠ 0#32 := by
  intro h
  have := congrArg (fun v => v.getLsbD k) h
  simp [hk] at this

/-- `x & (1<<k) != 0` is bit `k` of `x`. -/
theorem and_twoPow_ne_zero (x : W) (k : Nat) (hk : k < 32) :
    ((x &&& BitVec.twoPow 32 k) != 0#32) = x.getLsbD k := by
  rw [BitVec.and_twoPow]
  cases h : x.getLsbD k
  · simp
  · simp [twoPow_ne_zero k hk]

theorem and_twoPow_eq_zero (x : W) (k : Nat) (hk : k < 32) :
    ((x &&& BitVec.twoPow 32 k) == 0#32) = !x.getLsbD k := by
  have := and_twoPow_ne_zero x k hk
  rw [← this]; simp [bne]

/-- `x & y != 0`  iff  some bit is set in both. -/
theorem and_ne_zero_iff (x y : W) :
    (x &&& y) ≠ 0#32 ↔ ∃ i, i < 32 ∧ x.getLsbD i = true ∧ y.getLsbD i = true := by
  constructor
  · intro h
    rw [Ne, BitVec.eq_of_getLsbD_eq_iff] at h
    obtain ⟨i, hi⟩ := Classical.not_forall.mp h
    obtain ⟨hlt, hne⟩ := Classical.not_imp.mp hi
    refine ⟨i, hlt, ?_⟩
    simp only [BitVec.getLsbD_and, BitVec.getLsbD_zero] at hne
    cases hx : x.getLsbD i <;> cases hy : y.getLsbD i <;> simp [hx, hy] at hne ⊢
  · rintro ⟨i, _, hx, hy⟩ h
    have := congrArg (fun v => v.getLsbD i) h
    simp [hx, hy] at this

theorem hasUserPerm_eq_sharesBit (x y : W) : hasUserPerm x y = Spec.sharesBit x y := by
  unfold hasUserPerm Spec.sharesBit Spec.bit
  cases h : (List.range 32).any fun i => x.getLsbD i && y.getLsbD i
  · -- no common bit
    have hz : (x &&& y) = 0#32 := by
      apply Decidable.byContradiction
      intro hne
      obtain ⟨i, hi, hx, hy⟩ := (and_ne_zero_iff x y).1 hne
      have : ((List.range 32).any fun i => x.getLsbD i && y.getLsbD i) = true :=
        List.any_eq_true.2 ⟨i, List.mem_range.2 hi, by simp [hx, hy]⟩
      rw [h] at this; exact Bool.noConfusion this
    simp [hz]
  · obtain ⟨i, hi, hb⟩ := List.any_eq_true.1 h
    have hne : (x &&& y) ≠ 0#32 :=
      (and_ne_zero_iff x y).2 ⟨i, List.mem_range.1 hi, by simpa using (Bool.and_eq_true _ _ ▸ hb).1,
        by simpa using (Bool.and_eq_true _ _ ▸ hb).2⟩
    simp [bne, hne]

/-- the regenerated masks are the single bits the rule names -/
theorem masks :
    w PERM_BASIC = BitVec.twoPow 32 0 ∧ w PERM_LOGINOK = BitVec.twoPow 32 4 ∧ w PERM_BM = BitVec.twoPow 32 10 ∧
    w PERM_BOARD = BitVec.twoPow 32 13 ∧ w PERM_SYSOP = BitVec.twoPow 32 14 ∧ w PERM_POLICE_MAN = BitVec.twoPow 32 28 ∧
    w PERM_POLICE = BitVec.twoPow 32 31 ∧ w BRD_GROUPBOARD = BitVec.twoPow 32 3 ∧ w BRD_HIDE = BitVec.twoPow 32 4 ∧
    w BRD_POSTMASK = BitVec.twoPow 32 5 ∧ w BRD_SYMBOLIC = BitVec.twoPow 32 15 ∧ w BRD_OVER18 = BitVec.twoPow 32 24 := by
  decide

theorem test_BASIC (x : W) : hasUserPerm x (w PERM_BASIC) = Spec.bit x 0 := by
  unfold hasUserPerm; rw [masks.1]; exact and_twoPow_ne_zero x 0 (by omega)
theorem test_LOGINOK (x : W) : hasUserPerm x (w PERM_LOGINOK) = Spec.bit x 4 := by
  unfold hasUserPerm; rw [masks.2.1]; exact and_twoPow_ne_zero x 4 (by omega)
theorem test_BM (x : W) : ((x &&& w PERM_BM) != 0) = Spec.bit x 10 := by
  rw [masks.2.2.1]; exact and_twoPow_ne_zero x 10 (by omega)
theorem test_BOARD (x : W) : hasUserPerm x (w PERM_BOARD) = Spec.bit x 13 := by
  unfold hasUserPerm; rw [masks.2.2.2.1]; exact and_twoPow_ne_zero x 13 (by omega)
theorem test_SYSOP (x : W) : hasUserPerm x (w PERM_SYSOP) = Spec.bit x 14 := by
  unfold hasUserPerm; rw [masks.2.2.2.2.1]; exact and_twoPow_ne_zero x 14 (by omega)
theorem test_POLICE_MAN (x : W) : hasUserPerm x (w PERM_POLICE_MAN) = Spec.bit x 28 := by
  unfold hasUserPerm; rw [masks.2.2.2.2.2.1]; exact and_twoPow_ne_zero x 28 (by omega)
theorem test_POLICE (x : W) : hasUserPerm x (w PERM_POLICE) = Spec.bit x 31 := by
  unfold hasUserPerm; rw [masks.2.2.2.2.2.2.1]; exact and_twoPow_ne_zero x 31 (by omega)
theorem test_HIDE (x : W) : ((x &&& w BRD_HIDE) != 0) = Spec.bit x 4 := by
  rw [masks.2.2.2.2.2.2.2.2.1]; exact and_twoPow_ne_zero x 4 (by omega)
theorem test_POSTMASK (x : W) : ((x &&& w BRD_POSTMASK) != 0) = Spec.bit x 5 := by
  rw [masks.2.2.2.2.2.2.2.2.2.1]; exact and_twoPow_ne_zero x 5 (by omega)
theorem test_POSTMASK0 (x : W) : ((x &&& w BRD_POSTMASK) == 0) = !Spec.bit x 5 := by
  rw [masks.2.2.2.2.2.2.2.2.2.1]; exact and_twoPow_eq_zero x 5 (by omega)
theorem test_OVER18 (x : W) : ((x &&& w BRD_OVER18) != 0) = Spec.bit x 24 := by
  rw [masks.2.2.2.2.2.2.2.2.2.2.2]; exact and_twoPow_ne_zero x 24 (by omega)

/-- `attr & (GROUPBOARD|SYMBOLIC) != 0` -/
theorem test_GROUPSYM (x : W) :
    ((x &&& (w BRD_GROUPBOARD ||| w BRD_SYMBOLIC)) != 0) = (Spec.bit x 3 || Spec.bit x 15) := by
  have h3 := and_twoPow_ne_zero x 3 (by omega)
  have h15 := and_twoPow_ne_zero x 15 (by omega)
  rw [masks.2.2.2.2.2.2.2.1, masks.2.2.2.2.2.2.2.2.2.2.1, BitVec.and_or_distrib_left]
  unfold Spec.bit
  rw [← h3, ← h15]
  generalize (x &&& BitVec.twoPow 32 3) = p
  generalize (x &&& BitVec.twoPow 32 15) = q
  rw [Bool.eq_iff_iff]
  simp only [bne_iff_ne, Bool.or_eq_true, ne_eq]
  by_cases a : p = 0#32 <;> by_cases b : q = 0#32 <;> simp [a, b]

/-! ### the decision -/

theorem hasBasicUserPerm_LOGINOK (x : W) :
    hasBasicUserPerm x (w PERM_LOGINOK) = (Spec.bit x 0 && Spec.bit x 4) := by
  unfold hasBasicUserPerm; rw [test_BASIC, test_LOGINOK]

theorem isBMCache_eq (u : UserView) (r : Relation) : isBMCache u r = Spec.moderator u r := by
  unfold isBMCache Spec.moderator Spec.registered Spec.realUid
  rw [hasBasicUserPerm_LOGINOK, test_BASIC]
  simp only [bne]
  generalize (u.uid == 0) = z
  generalize (u.uid == -1) = m
  cases Spec.bit u.level 0 <;> cases Spec.bit u.level 4 <;> cases z <;> cases m <;> cases r.bmUid <;> rfl

theorem level_ne_zero (x : W) : (x != 0) = !(x == 0) := by simp [bne]

theorem nbrd_vals : NBRD_INVALID = 0 ∧ NBRD_FAV = 1 ∧ NBRD_BOARD = 2 ∧ NBRD_LINE = 4 ∧ NBRD_FOLDER = 8 := by decide

/-- the Go decision = the declarative rule, for all users, boards and relations (both level words arbitrary). -/
theorem boardPermStat_ne_invalid (u : UserView) (b : BoardView) (r : Relation) :
    (boardPermStat u b r != NBRD_INVALID) = Spec.mayRead u b r := by
  unfold boardPermStat boardPermStatNormally Spec.mayRead Spec.sysop Spec.police Spec.moderatorsBoard
    Spec.hidden Spec.restricted Spec.adultOnly
  rw [test_SYSOP, test_POLICE, test_POLICE_MAN, test_BM, isBMCache_eq, test_HIDE, test_POSTMASK, test_POSTMASK0, test_OVER18,
    hasUserPerm_eq_sharesBit, level_ne_zero, nbrd_vals.1, nbrd_vals.2.1, nbrd_vals.2.2.1]
  generalize Spec.bit u.level 14 = sysop
  generalize Spec.bit u.level 31 = pol
  generalize Spec.bit u.level 28 = polman
  generalize Spec.bit b.level 10 = bmb
  generalize Spec.moderator u r = mod
  generalize Spec.bit b.attr 4 = hide
  generalize Spec.bit b.attr 5 = mask
  generalize Spec.bit b.attr 24 = o18
  generalize Spec.sharesBit u.level b.level = sh
  generalize (b.level == 0) = lz
  generalize r.friend = fr
  generalize u.over18 = adult
  cases sysop <;> cases pol <;> cases polman <;> cases bmb <;> cases mod <;> cases hide <;> cases mask <;> cases o18 <;>
    cases sh <;> cases lz <;> cases fr <;> cases adult <;> rfl

/-! ### the interpreter on a guarded statement list -/

theorem lookup_NBRD_INVALID : lookup "NBRD_INVALID" nbrdAll = some NBRD_INVALID := by decide

theorem harmless_not_content (a : String) (h : a ∈ harmlessCallees) : a ∉ contentCallees := by
  simp [harmlessCallees] at h
  rcases h with rfl | rfl <;> decide

/-- a step that can only refuse (argument check, counter) is skipped when no argument check fires -/
theorem runReader_harmless (env : ReadEnv) (hp : env.precheck = false) (s : Step) (rest : List Step) (st : RState)
    (h : isHarmlessStep s = true) : runReader env (s :: rest) st = runReader env rest st := by
  obtain ⟨k, a, b, c, ds⟩ := s
  simp only [isHarmlessStep, Step.kind, Step.a, Step.c, Bool.or_eq_true, Bool.and_eq_true, decide_eq_true_eq] at h
  rcases h with ⟨rfl, hc⟩ | ⟨rfl, ha⟩
  · simp [runReader, Step.kind, Step.a, Step.b, Step.c, hc, hp]
  · have ha' : a ∈ harmlessCallees := by simpa using ha
    simp [runReader, Step.kind, Step.a, Step.b, Step.c, ha', harmless_not_content a ha']

theorem runReader_dropWhile (env : ReadEnv) (hp : env.precheck = false) (steps : List Step) (st : RState) :
    runReader env steps st = runReader env (steps.dropWhile isHarmlessStep) st := by
  induction steps with
  | nil => rfl
  | cons s rest ih =>
    cases h : isHarmlessStep s
    · simp [List.dropWhile, h]
    · rw [runReader_harmless env hp s rest st h, ih]; simp [List.dropWhile, h]

theorem runReader_content (env : ReadEnv) (c : Step) (rest : List Step) (st : RState) (h : isContentStep c = true) :
    runReader env (c :: rest) st = .allow := by
  obtain ⟨k, a, b, cc, ds⟩ := c
  simp only [isContentStep, Step.kind, Step.a, Bool.or_eq_true, Bool.and_eq_true, decide_eq_true_eq] at h
  rcases h with ⟨rfl, ha⟩ | rfl
  · have ha' : a ∈ contentCallees := by simpa using ha
    simp [runReader, Step.kind, Step.a, Step.b, Step.c, ha']
  · simp [runReader, Step.kind]

/-- what an entry point with the guard shape does, for every user, board, relation and bid validity, when no
argument check fires: invalid bid ⇒ the fetch error; otherwise content iff boardPermStat ≠ NBRD_INVALID. -/
theorem runReader_of_guardShape (env : ReadEnv) (hp : env.precheck = false) (steps : List Step) (hg : guardShape steps = true) :
    runReader env steps {} =
      if env.bidValid = false then .invalidBid
      else if boardPermStat env.u env.b env.r = NBRD_INVALID then .deny else .allow := by
  rw [runReader_dropWhile env hp]
  unfold guardShape at hg
  generalize steps.dropWhile isHarmlessStep = gs at hg
  match gs, hg with
  | g1 :: g2 :: g3 :: g4 :: rest, hg =>
    obtain ⟨k1, a1, b1, c1, d1⟩ := g1
    obtain ⟨k2, a2, b2, c2, d2⟩ := g2
    obtain ⟨k3, a3, b3, c3, d3⟩ := g3
    obtain ⟨k4, a4, b4, c4, d4⟩ := g4
    simp only [Step.kind, Step.a, Step.b, Step.c, Bool.and_eq_true, decide_eq_true_eq] at hg
    obtain ⟨⟨⟨⟨⟨⟨⟨⟨⟨rfl, rfl⟩, rfl⟩, rfl⟩, rfl⟩, rfl⟩, rfl⟩, rfl⟩, hdeny⟩, hrest⟩ := hg
    cases hv : env.bidValid
    · simp [runReader, Step.kind, Step.a, Step.b, Step.c, hv]
    · have hcont : runReader env rest { board := some true, errPending := false, stat := some (boardPermStat env.u env.b env.r) } = .allow := by
        rw [runReader_dropWhile env hp]
        revert hrest
        generalize rest.dropWhile isHarmlessStep = cs
        intro hrest
        match cs, hrest with
        | c :: tl, hrest => exact runReader_content env c tl _ hrest
      by_cases hs : boardPermStat env.u env.b env.r = NBRD_INVALID
      · simp [runReader, Step.kind, Step.a, Step.b, Step.c, hv, lookup_NBRD_INVALID, hs, hdeny]
      · simp [runReader, Step.kind, Step.a, Step.b, Step.c, hv, lookup_NBRD_INVALID, hs, hcont]

/-- content is reached only through the permission test, whatever the argument checks do -/
theorem runReader_harmless_allow (env : ReadEnv) (s : Step) (rest : List Step) (st : RState)
    (h : isHarmlessStep s = true) (ha : runReader env (s :: rest) st = .allow) : runReader env rest st = .allow := by
  obtain ⟨k, a, b, c, ds⟩ := s
  simp only [isHarmlessStep, Step.kind, Step.a, Step.c, Bool.or_eq_true, Bool.and_eq_true, decide_eq_true_eq] at h
  rcases h with ⟨rfl, hc⟩ | ⟨rfl, hh⟩
  · cases hp : env.precheck
    · simpa [runReader, Step.kind, Step.a, Step.b, Step.c, hc, hp] using ha
    · simp [runReader, Step.kind, Step.a, Step.b, Step.c, hc, hp] at ha
  · have hh' : a ∈ harmlessCallees := by simpa using hh
    simpa [runReader, Step.kind, Step.a, Step.b, Step.c, hh', harmless_not_content a hh'] using ha

theorem runReader_dropWhile_allow (env : ReadEnv) (steps : List Step) (st : RState)
    (ha : runReader env steps st = .allow) : runReader env (steps.dropWhile isHarmlessStep) st = .allow := by
  induction steps with
  | nil => simpa using ha
  | cons s rest ih =>
    cases h : isHarmlessStep s
    · simpa [List.dropWhile, h] using ha
    · simp only [List.dropWhile, h]; exact ih (runReader_harmless_allow env s rest st h ha)

theorem allow_of_guardShape (env : ReadEnv) (steps : List Step) (hg : guardShape steps = true)
    (ha : runReader env steps {} = .allow) : env.bidValid = true ∧ boardPermStat env.u env.b env.r ≠ NBRD_INVALID := by
  have ha := runReader_dropWhile_allow env steps {} ha
  unfold guardShape at hg
  generalize steps.dropWhile isHarmlessStep = gs at hg ha
  match gs, hg with
  | g1 :: g2 :: g3 :: g4 :: rest, hg =>
    obtain ⟨k1, a1, b1, c1, d1⟩ := g1
    obtain ⟨k2, a2, b2, c2, d2⟩ := g2
    obtain ⟨k3, a3, b3, c3, d3⟩ := g3
    obtain ⟨k4, a4, b4, c4, d4⟩ := g4
    simp only [Step.kind, Step.a, Step.b, Step.c, Bool.and_eq_true, decide_eq_true_eq] at hg
    obtain ⟨⟨⟨⟨⟨⟨⟨⟨⟨rfl, rfl⟩, rfl⟩, rfl⟩, rfl⟩, rfl⟩, rfl⟩, rfl⟩, hdeny⟩, hrest⟩ := hg
    cases hv : env.bidValid
    · simp [runReader, Step.kind, Step.a, Step.b, Step.c, hv] at ha
    · refine ⟨rfl, ?_⟩
      intro hs
      simp [runReader, Step.kind, Step.a, Step.b, Step.c, hv, lookup_NBRD_INVALID, hs, hdeny] at ha

/-! ### listing side -/

theorem groupOp_eq (u : UserView) (r : Relation) : groupOp u r = Spec.administers u r := by
  unfold groupOp Spec.administers Spec.boardAdmin
  rw [test_BOARD]
  cases Spec.bit u.level 13 <;> cases r.namedBM <;> cases hasUserPerm u.level (w PERM_NOCITIZEN) <;> rfl

theorem boardPermStat_range (u : UserView) (b : BoardView) (r : Relation) :
    boardPermStat u b r = 0 ∨ boardPermStat u b r = 1 ∨ boardPermStat u b r = 2 := by
  unfold boardPermStat boardPermStatNormally
  rw [nbrd_vals.1, nbrd_vals.2.1, nbrd_vals.2.2.1]
  repeat' split
  all_goals simp

/-- NBRD_BOARD is the state of a hidden, unmasked board seen by somebody who is neither privileged nor a friend -/
theorem boardPermStat_eq_BOARD (u : UserView) (b : BoardView) (r : Relation) :
    (boardPermStat u b r == NBRD_BOARD) =
      (!Spec.sysop u && !(Spec.moderatorsBoard b && Spec.police u) && !Spec.moderator u r &&
        Spec.hidden b && !r.friend && !Spec.restricted b) := by
  unfold boardPermStat boardPermStatNormally Spec.sysop Spec.police Spec.moderatorsBoard Spec.hidden Spec.restricted
  rw [test_SYSOP, test_POLICE, test_POLICE_MAN, test_BM, isBMCache_eq, test_HIDE, test_POSTMASK, test_POSTMASK0, test_OVER18,
    nbrd_vals.1, nbrd_vals.2.1, nbrd_vals.2.2.1]
  generalize Spec.bit u.level 14 = sysop
  generalize Spec.bit u.level 31 = pol
  generalize Spec.bit u.level 28 = polman
  generalize Spec.bit b.level 10 = bmb
  generalize Spec.moderator u r = mod
  generalize Spec.bit b.attr 4 = hide
  generalize Spec.bit b.attr 5 = mask
  generalize Spec.bit b.attr 24 = o18
  generalize (b.level != 0 && !mask && !hasUserPerm u.level b.level) = lv
  generalize r.friend = fr
  generalize u.over18 = adult
  cases sysop <;> cases pol <;> cases polman <;> cases bmb <;> cases mod <;> cases hide <;> cases mask <;> cases o18 <;>
    cases lv <;> cases fr <;> cases adult <;> rfl

/-- what parseBoardSummary makes of a stat produced by boardPermStat -/
theorem parse_of_range (v : Nat) (g f : Bool) (hv : v = 0 ∨ v = 1 ∨ v = 2) :
    parseBoardSummary { attr := v, isGroupOp := g } f = if !g && v == 0 then .masked else .full := by
  unfold parseBoardSummary
  rw [nbrd_vals.1, nbrd_vals.2.2.2.1, nbrd_vals.2.2.2.2]
  rcases hv with rfl | rfl | rfl <;> cases g <;> cases f <;> decide

/-- the board header with BRD_POSTMASK set -/
def setMask (b : BoardView) : BoardView := { b with attr := b.attr ||| w BRD_POSTMASK }

theorem newBoardStat_eq (v : Nat) (b : BoardView) (g : Bool) :
    newBoardStat v b g =
      ({ attr := v, isGroupOp := g }, if Spec.hidden b && !Spec.restricted b && v == NBRD_BOARD then setMask b else b) := by
  unfold newBoardStat setMask Spec.hidden Spec.restricted
  rw [test_HIDE, test_POSTMASK0]

theorem bit_setMask (x : W) (i : Nat) : Spec.bit (x ||| w BRD_POSTMASK) i = (Spec.bit x i || (i == 5)) := by
  unfold Spec.bit
  rw [masks.2.2.2.2.2.2.2.2.2.1, BitVec.getLsbD_or, BitVec.getLsbD_twoPow]
  by_cases h : 5 = i
  · subst h; simp
  · have : (i == 5) = false := by simp; omega
    simp [h, this]

theorem test_GROUPSYM' (x : W) :
    ((x &&& (w BRD_GROUPBOARD ||| w BRD_SYMBOLIC)) != 0#32) = (Spec.bit x 3 || Spec.bit x 15) := test_GROUPSYM x

/-- newBoardStat writes exactly when the state is NBRD_BOARD (that state already implies hidden and unmasked) -/
theorem mut_cond (u : UserView) (b : BoardView) (r : Relation) :
    (Spec.hidden b && !Spec.restricted b && boardPermStat u b r == NBRD_BOARD) = (boardPermStat u b r == NBRD_BOARD) := by
  rw [boardPermStat_eq_BOARD]; cases Spec.hidden b <;> cases Spec.restricted b <;> simp

/-! ### is_uBM: from the index form to a left-to-right scan -/

def headOK : Option Nat → Bool
  | none => true
  | some p => !isalnum p

def tailOK (u s : List Nat) : Bool :=
  match s.drop u.length with
  | [] => true
  | c :: _ => !isalnum c

/-- the walk of is_uBM as a scan: stop at the first position where the id is a prefix -/
def scan (u : List Nat) : Option Nat → List Nat → Bool
  | _, [] => false
  | prev, c :: cs => if u.isPrefixOf (c :: cs) then headOK prev && tailOK u (c :: cs) else scan u (some c) cs

/-- the two index tests of is_uBM at index `pre.length + j` of `pre ++ s` -/
def testsAt (u pre s : List Nat) (j : Nat) : Bool :=
  (if pre.length + j > 0 then !isalnum ((pre ++ s).getD (pre.length + j - 1) 0) else true) &&
  (if pre.length + j + u.length < (pre ++ s).length then !isalnum ((pre ++ s).getD (pre.length + j + u.length) 0) else true)

def evalAt (u pre s : List Nat) : Bool :=
  match bytesIndex u s with
  | none => false
  | some j => testsAt u pre s j

theorem bytesIndex_nil (u : List Nat) (hu : u ≠ []) : bytesIndex u [] = none := by
  cases u with
  | nil => exact absurd rfl hu
  | cons a as => simp [bytesIndex]

theorem head_test (pre s : List Nat) :
    (if pre.length + 0 > 0 then !isalnum ((pre ++ s).getD (pre.length + 0 - 1) 0) else true) = headOK pre.getLast? := by
  cases h : pre.getLast? with
  | none =>
    have : pre = [] := List.getLast?_eq_none_iff.1 h
    subst this; simp [headOK]
  | some p =>
    have hne : pre ≠ [] := by intro e; subst e; simp at h
    have hpos : 0 < pre.length := List.length_pos_iff.2 hne
    have hlt : pre.length - 1 < pre.length := by omega
    have : (pre ++ s).getD (pre.length - 1) 0 = p := by
      rw [List.getD_eq_getElem?_getD, List.getElem?_append_left hlt]
      rw [List.getLast?_eq_getElem?] at h
      rw [h]; rfl
    rw [List.getD_eq_getElem?_getD] at this
    simp [headOK, hpos, this]

theorem tail_test (u pre s : List Nat) :
    (if pre.length + 0 + u.length < (pre ++ s).length then !isalnum ((pre ++ s).getD (pre.length + 0 + u.length) 0) else true)
      = tailOK u s := by
  unfold tailOK
  simp only [Nat.add_zero, List.length_append]
  by_cases hk : u.length < s.length
  · have h1 : pre.length + u.length < pre.length + s.length := by omega
    have h2 : (pre ++ s).getD (pre.length + u.length) 0 = s[u.length] := by
      rw [List.getD_eq_getElem?_getD, List.getElem?_append_right (by omega)]
      simp [hk]
    rw [List.drop_eq_getElem_cons hk]
    simp [h1, h2]
  · have h1 : ¬ pre.length + u.length < pre.length + s.length := by omega
    rw [List.drop_eq_nil_of_le (by omega)]
    simp [h1]

theorem testsAt_shift (u pre : List Nat) (c : Nat) (cs : List Nat) (j : Nat) :
    testsAt u pre (c :: cs) (j + 1) = testsAt u (pre ++ [c]) cs j := by
  unfold testsAt
  have e1 : pre ++ c :: cs = (pre ++ [c]) ++ cs := by simp
  have e2 : pre.length + (j + 1) = (pre ++ [c]).length + j := by simp; omega
  rw [e1, e2]

theorem evalAt_eq_scan (u : List Nat) (hu : u ≠ []) (s pre : List Nat) :
    evalAt u pre s = scan u pre.getLast? s := by
  induction s generalizing pre with
  | nil => simp [evalAt, scan, bytesIndex_nil u hu]
  | cons c cs ih =>
    unfold evalAt scan
    by_cases hp : u.isPrefixOf (c :: cs) = true
    · simp only [bytesIndex, hp, ↓reduceIte]
      unfold testsAt
      rw [head_test, tail_test]
    · simp only [bytesIndex, hp, ↓reduceIte]
      have := ih (pre ++ [c])
      simp only [List.getLast?_append, List.getLast?_singleton, Option.some_or] at this
      rw [← this]
      unfold evalAt
      cases bytesIndex u cs with
      | none => rfl
      | some j => simp only [Option.map_some]; exact testsAt_shift u pre c cs j

theorem bytesIndex_lt (u : List Nat) (hu : u ≠ []) (s : List Nat) (i : Nat) (h : bytesIndex u s = some i) : i < s.length := by
  induction s generalizing i with
  | nil => rw [bytesIndex_nil u hu] at h; exact absurd h (by simp)
  | cons c cs ih =>
    unfold bytesIndex at h
    by_cases hp : u.isPrefixOf (c :: cs) = true
    · simp [hp] at h; subst h; simp
    · simp only [hp, ↓reduceIte] at h
      cases hb : bytesIndex u cs with
      | none => rw [hb] at h; exact absurd h (by simp)
      | some j =>
        rw [hb] at h; simp at h; subst h
        have := ih j hb
        simp; omega

theorem cstr_idem (l : List Nat) : cstr (cstr l) = cstr l := by
  unfold cstr
  induction l with
  | nil => rfl
  | cons a as ih =>
    by_cases h : a ≠ 0
    · have hd : decide (a ≠ 0) = true := by simp [h]
      rw [List.takeWhile_cons, hd]
      simp only [↓reduceIte]
      rw [List.takeWhile_cons, hd]
      simp only [↓reduceIte]
      rw [ih]
    · have hd : decide (a ≠ 0) = false := by simp at h; simp [h]
      rw [List.takeWhile_cons, hd]
      simp

/-- is_uBM on C strings = the scan, for a non-empty id -/
theorem isUBMBytes_eq_scan (u b : List Nat) (hu : u ≠ []) (hb : cstr b = b) : isUBMBytes u b = scan u none b := by
  have := evalAt_eq_scan u hu b []
  simp only [List.getLast?_nil] at this
  rw [← this]
  unfold isUBMBytes cstrstr evalAt
  cases h : bytesIndex u b with
  | none => rfl
  | some i =>
    have hlt := bytesIndex_lt u hu b i h
    have : ¬ i ≥ (cstr b).length := by rw [hb]; omega
    simp only [this, ↓reduceIte]
    unfold testsAt
    simp

/-! ### soundness and (conditional) completeness against the '/'-separated names -/

def validId (u : List Nat) : Prop := u ≠ [] ∧ ∀ c ∈ u, isalnum c = true
def wellFormedBM (b : List Nat) : Prop := ∀ c ∈ b, isalnum c = true ∨ c = 47

def atStart : Option Nat → Bool
  | none => true
  | some p => !isalnum p

theorem headOK_eq_atStart (p : Option Nat) : headOK p = atStart p := by cases p <;> rfl

theorem splitSlash_ne_nil (s : List Nat) : Spec.splitSlash s ≠ [] := by
  cases s with
  | nil => simp [Spec.splitSlash]
  | cons c cs =>
    unfold Spec.splitSlash
    by_cases h : c = 47
    · simp [h]
    · simp only [h, ↓reduceIte]; split <;> simp

/-- a '/'-free word in front of a string extends the first name -/
theorem splitSlash_append (u : List Nat) (hu : ∀ c ∈ u, c ≠ 47) (rest : List Nat) :
    Spec.splitSlash (u ++ rest) = (u ++ (Spec.splitSlash rest).headD []) :: (Spec.splitSlash rest).tail := by
  induction u with
  | nil =>
    have := splitSlash_ne_nil rest
    cases h : Spec.splitSlash rest with
    | nil => exact absurd h this
    | cons n ns => simp [h]
  | cons a as ih =>
    have ha : a ≠ 47 := hu a (by simp)
    have ih' := ih (fun c hc => hu c (by simp [hc]))
    simp only [List.cons_append]
    rw [Spec.splitSlash]
    simp only [ha, ↓reduceIte]
    rw [ih']

theorem alnum_ne_slash (c : Nat) (h : isalnum c = true) : c ≠ 47 := by
  intro e; subst e; simp [isalnum] at h

theorem valid_noslash (u : List Nat) (hv : validId u) : ∀ c ∈ u, c ≠ 47 :=
  fun c hc => alnum_ne_slash c (hv.2 c hc)

theorem splitSlash_slash (cs : List Nat) : Spec.splitSlash (47 :: cs) = [] :: Spec.splitSlash cs := by
  rw [Spec.splitSlash]; simp

theorem splitSlash_other (c : Nat) (hc : c ≠ 47) (cs : List Nat) :
    Spec.splitSlash (c :: cs) =
      (c :: (Spec.splitSlash cs).headD []) :: (Spec.splitSlash cs).tail := by
  rw [Spec.splitSlash]
  simp only [hc, ↓reduceIte]
  have := splitSlash_ne_nil cs
  cases h : Spec.splitSlash cs with
  | nil => exact absurd h this
  | cons n ns => simp

/-- the names available for a whole-name match from a scan position: all of them at a name start, all but the
(partial) first one inside a name -/
def avail (prev : Option Nat) (s : List Nat) : List (List Nat) :=
  if atStart prev then Spec.splitSlash s else (Spec.splitSlash s).tail

theorem tail_subset_avail (prev : Option Nat) (s : List Nat) (n : List Nat) (h : n ∈ (Spec.splitSlash s).tail) : n ∈ avail prev s := by
  unfold avail; split
  · exact List.mem_of_mem_tail h
  · exact h

/-- soundness of the scan: a positive answer names one of the '/'-separated names -/
theorem scan_sound (u : List Nat) (hv : validId u) (s : List Nat) (hw : wellFormedBM s) (prev : Option Nat)
    (h : scan u prev s = true) : u ∈ avail prev s := by
  induction s generalizing prev with
  | nil => simp [scan] at h
  | cons c cs ih =>
    have hwc : wellFormedBM cs := fun d hd => hw d (by simp [hd])
    unfold scan at h
    by_cases hp : u.isPrefixOf (c :: cs) = true
    · simp only [hp, ↓reduceIte, Bool.and_eq_true] at h
      obtain ⟨hh, ht⟩ := h
      obtain ⟨rest, hr⟩ := List.isPrefixOf_iff_prefix.1 hp
      rw [headOK_eq_atStart] at hh
      unfold avail; rw [hh]; simp only [↓reduceIte]
      rw [← hr, splitSlash_append u (valid_noslash u hv) rest]
      have hd : (Spec.splitSlash rest).headD [] = [] := by
        unfold tailOK at ht
        rw [← hr, List.drop_left] at ht
        cases rest with
        | nil => simp [Spec.splitSlash]
        | cons d r =>
          simp only [Bool.not_eq_true'] at ht
          have hdw : d = 47 := by
            have := hw d (by rw [← hr]; simp)
            rcases this with h1 | h1
            · rw [h1] at ht; exact absurd ht (by simp)
            · exact h1
          subst hdw; simp [splitSlash_slash]
      rw [hd]; simp
    · simp only [hp, ↓reduceIte] at h
      have ih' := ih hwc (some c) h
      apply tail_subset_avail
      rcases hw c (by simp) with hc | hc
      · -- inside a name
        have hns : c ≠ 47 := alnum_ne_slash c hc
        rw [splitSlash_other c hns cs]
        simpa [avail, atStart, hc] using ih'
      · subst hc
        rw [splitSlash_slash]
        simpa [avail, atStart, isalnum] using ih'

theorem head_prefix (s : List Nat) : (Spec.splitSlash s).headD [] <+: s := by
  induction s with
  | nil => simp [Spec.splitSlash]
  | cons c cs ih =>
    by_cases hc : c = 47
    · subst hc; rw [splitSlash_slash]; simp
    · rw [splitSlash_other c hc cs]
      simp only [List.headD_cons]
      exact List.cons_prefix_cons.2 ⟨rfl, ih⟩

/-- no OTHER moderator name contains the id as a substring -/
def noLookalike (u : List Nat) (names : List (List Nat)) : Prop := ∀ n ∈ names, n ≠ u → ¬ u <:+: n

/-- conditional completeness of the scan -/
theorem scan_complete (u : List Nat) (hv : validId u) (s : List Nat) (hw : wellFormedBM s) (prev : Option Nat)
    (h2 : atStart prev = false → ¬ u <:+: (Spec.splitSlash s).headD [])
    (h3 : noLookalike u (avail prev s))
    (h4 : u ∈ avail prev s) : scan u prev s = true := by
  induction s generalizing prev with
  | nil =>
    exfalso
    unfold avail at h4
    cases hs : atStart prev <;> simp [hs, Spec.splitSlash] at h4
    exact hv.1 h4
  | cons c cs ih =>
    have hwc : wellFormedBM cs := fun d hd => hw d (by simp [hd])
    unfold scan
    by_cases hp : u.isPrefixOf (c :: cs) = true
    · simp only [hp, ↓reduceIte, Bool.and_eq_true]
      obtain ⟨rest, hr⟩ := List.isPrefixOf_iff_prefix.1 hp
      have hsplit := splitSlash_append u (valid_noslash u hv) rest
      rw [hr] at hsplit
      have hinf : u <:+: (Spec.splitSlash (c :: cs)).headD [] := by
        rw [hsplit]; simp only [List.headD_cons]
        exact (List.prefix_append u _).isInfix
      cases hs : atStart prev with
      | false => exact absurd hinf (h2 hs)
      | true =>
        have hmem : (Spec.splitSlash (c :: cs)).headD [] ∈ avail prev (c :: cs) := by
          unfold avail; rw [hs]; simp only [↓reduceIte]; rw [hsplit]; simp
        have heq : (Spec.splitSlash (c :: cs)).headD [] = u := by
          apply Decidable.byContradiction
          intro hne
          exact h3 _ hmem hne hinf
        rw [hsplit] at heq
        simp only [List.headD_cons] at heq
        have hd : (Spec.splitSlash rest).headD [] = [] := by
          have := congrArg List.length heq
          simp only [List.length_append] at this
          exact List.eq_nil_of_length_eq_zero (by omega)
        refine ⟨by rw [headOK_eq_atStart]; exact hs, ?_⟩
        unfold tailOK
        rw [← hr, List.drop_left]
        cases rest with
        | nil => rfl
        | cons d r =>
          by_cases hd47 : d = 47
          · subst hd47; simp [isalnum]
          · rw [splitSlash_other d hd47 r] at hd; simp at hd
    · simp only [hp, ↓reduceIte]
      have hnp : ¬ u <+: c :: cs := fun h => hp (List.isPrefixOf_iff_prefix.2 h)
      rcases hw c (by simp) with hc | hc
      · -- c is inside a name
        have hns : c ≠ 47 := alnum_ne_slash c hc
        have hsplit := splitSlash_other c hns cs
        have hstart : atStart (some c) = false := by simp [atStart, hc]
        -- the (partial) first name c :: n
        have hhead_ne : (Spec.splitSlash (c :: cs)).headD [] ≠ u := by
          intro e
          exact hnp (e ▸ head_prefix (c :: cs))
        have hnot_head : ¬ u <:+: (Spec.splitSlash (c :: cs)).headD [] := by
          cases hs : atStart prev with
          | false => exact h2 hs
          | true =>
            have hmem : (Spec.splitSlash (c :: cs)).headD [] ∈ avail prev (c :: cs) := by
              unfold avail; rw [hs]; simp only [↓reduceIte]; rw [hsplit]; simp
            exact h3 _ hmem hhead_ne
        have hav : avail (some c) cs = (Spec.splitSlash (c :: cs)).tail := by
          unfold avail; rw [hstart, hsplit]; simp
        apply ih hwc (some c)
        · intro _ hinf
          apply hnot_head
          rw [hsplit]; simp only [List.headD_cons]
          obtain ⟨l, r, e⟩ := hinf
          exact ⟨c :: l, r, by rw [← e]; simp⟩
        · intro n hn
          rw [hav] at hn
          exact h3 n (tail_subset_avail prev (c :: cs) n hn)
        · rw [hav]
          unfold avail at h4
          cases hs : atStart prev with
          | false => simpa [hs] using h4
          | true =>
            simp only [hs, ↓reduceIte] at h4
            rw [hsplit] at h4 ⊢
            simp only [List.mem_cons, List.tail_cons] at h4 ⊢
            rcases h4 with h4 | h4
            · exfalso; apply hhead_ne; rw [hsplit]; simp [h4]
            · exact h4
      · subst hc
        have hsplit := splitSlash_slash cs
        have hstart : atStart (some 47) = true := by simp [atStart, isalnum]
        have hav : avail (some 47) cs = (Spec.splitSlash (47 :: cs)).tail := by
          unfold avail; rw [hstart, hsplit]; simp
        apply ih hwc (some 47)
        · intro h; rw [hstart] at h; exact absurd h (by simp)
        · intro n hn
          rw [hav] at hn
          exact h3 n (tail_subset_avail prev (47 :: cs) n hn)
        · rw [hav]
          unfold avail at h4
          cases hs : atStart prev with
          | false => simpa [hs] using h4
          | true =>
            simp only [hs, ↓reduceIte] at h4
            rw [hsplit] at h4 ⊢
            simp only [List.mem_cons, List.tail_cons] at h4 ⊢
            rcases h4 with h4 | h4
            · exact absurd h4 hv.1
            · exact h4

/-- is_uBM = the scan from the start of the moderator string -/
theorem isUBM_eq_scan (id bm : List Nat) (hu : cstr id ≠ []) : isUBM id bm = scan (cstr id) none (cstr bm) :=
  isUBMBytes_eq_scan (cstr id) (cstr bm) hu (cstr_idem bm)

theorem avail_none (s : List Nat) : avail none s = Spec.splitSlash s := by simp [avail, atStart]

theorem namedIn_iff (id bm : List Nat) (hu : cstr id ≠ []) :
    Spec.namedIn id bm = true ↔ cstr id ∈ Spec.splitSlash (cstr bm) := by
  unfold Spec.namedIn
  have : (cstr id).isEmpty = false := by cases h : cstr id <;> simp_all
  simp [this]

/-! ### accounts -/

theorem headD_zero_iff (s : List Nat) : s.headD 0 = 0 ↔ cstr s = [] := by
  cases s with
  | nil => simp [cstr]
  | cons a as =>
    by_cases h : a = 0
    · subst h; simp [cstr]
    · simp [cstr, List.takeWhile, h]

theorem caseEq_iff (a b : List Nat) : caseEq a b = true ↔ (cstr a).map foldCase = (cstr b).map foldCase := by
  simp [caseEq]

theorem caseEq_nil (a b : List Nat) (h : caseEq a b = true) : cstr a = [] ↔ cstr b = [] := by
  rw [caseEq_iff] at h
  constructor
  · intro ha; rw [ha] at h; simpa using h.symm
  · intro hb; rw [hb] at h; simpa using h

theorem caseEq_congr (a b x : List Nat) (h : caseEq a b = true) : caseEq a x = caseEq b x := by
  rw [caseEq_iff] at h
  unfold caseEq; rw [h]

/-- the lookup does not see letter case -/
theorem searchUser_caseEq (tbl : UserTable) (a b : List Nat) (h : caseEq a b = true) : searchUser tbl a = searchUser tbl b := by
  unfold searchUser
  have h0 : (a.headD 0 = 0) ↔ (b.headD 0 = 0) := by rw [headD_zero_iff, headD_zero_iff]; exact caseEq_nil a b h
  have hf : (fun e : Int × List Nat => caseEq a e.2) = (fun e => caseEq b e.2) := by
    funext e; exact caseEq_congr a b e.2 h
  by_cases ha : a.headD 0 = 0
  · rw [if_pos ha, if_pos (h0.1 ha)]
  · have hb : ¬ b.headD 0 = 0 := fun hb => ha (h0.2 hb)
    rw [if_neg ha, if_neg hb, hf]

/-- special-casing that looks at the loaded record only does not depend on what the caller typed -/
theorem applySpecials_loaded (s1 s2 recId : List Nat) (sp : List (String × List Nat × String)) (lv : W)
    (h : ∀ e ∈ sp, e.1 = "loaded") : applySpecials s1 recId sp lv = applySpecials s2 recId sp lv := by
  induction sp generalizing lv with
  | nil => rfl
  | cons e rest ih =>
    obtain ⟨subject, bytes, action⟩ := e
    have hs : subject = "loaded" := h (subject, bytes, action) (by simp)
    subst hs
    have ih' := fun lv => ih lv (fun e he => h e (by simp [he]))
    simp only [applySpecials, ↓reduceIte]
    split <;> (try split) <;> (try split) <;> first | rfl | exact ih' _

/-! ### the moderator cache -/

theorem parseLoop_length (tbl : UserTable) (ns : List (List Nat)) (acc : List Int) (h : acc.length ≤ MAX_BMs) :
    (parseLoop tbl ns acc).length ≤ MAX_BMs := by
  induction ns generalizing acc with
  | nil => simpa [parseLoop] using h
  | cons n ns ih =>
    unfold parseLoop
    by_cases hfull : acc.length ≥ MAX_BMs
    · simp [hfull]; exact h
    · simp only [hfull, ↓reduceIte]
      split
      · apply ih; simp; omega
      · exact ih acc h

/-- every uid the loop collects is a valid uid found under one of the names (or was there before) -/
theorem parseLoop_mem (tbl : UserTable) (ns : List (List Nat)) (acc : List Int) (u : Int) (h : u ∈ parseLoop tbl ns acc) :
    u ∈ acc ∨ (uidValid u = true ∧ ∃ n ∈ ns, searchUser tbl (n.take 13) = u) := by
  induction ns generalizing acc with
  | nil => left; simpa [parseLoop] using h
  | cons n ns ih =>
    unfold parseLoop at h
    by_cases hfull : acc.length ≥ MAX_BMs
    · left; simpa [hfull] using h
    · simp only [hfull, ↓reduceIte] at h
      by_cases hv : uidValid (searchUser tbl (n.take 13)) = true
      · simp only [hv, ↓reduceIte] at h
        rcases ih _ h with h1 | ⟨h1, m, hm, hm2⟩
        · rcases List.mem_append.1 h1 with h2 | h2
          · exact Or.inl h2
          · right; simp at h2; subst h2; exact ⟨hv, n, by simp, rfl⟩
        · right; exact ⟨h1, m, by simp [hm], hm2⟩
      · simp only [hv] at h
        rcases ih _ h with h1 | ⟨h1, m, hm, hm2⟩
        · exact Or.inl h1
        · right; exact ⟨h1, m, by simp [hm], hm2⟩

theorem bmCacheOf_build (tbl : UserTable) (st : BMCacheSt) (b bid : Int) (bm : List Nat) :
    bmCacheOf (buildBMCache tbl st b bm) bid = if b = bid then parseBMList tbl bm else bmCacheOf st bid := by
  unfold bmCacheOf buildBMCache
  by_cases h : b = bid
  · subst h; simp
  · have hne : (b == bid) = false := by simpa using h
    simp only [List.find?_cons, hne, h, ↓reduceIte]
    have : List.find? (fun e => e.1 == bid) (List.filter (fun e => e.1 != b) st) = List.find? (fun e => e.1 == bid) st := by
      induction st with
      | nil => rfl
      | cons e es ih =>
        by_cases he : e.1 = b
        · have hb : (e.1 != b) = false := by simp [he]
          have hb2 : (e.1 == bid) = false := by rw [he]; exact hne
          simp [List.filter, hb, List.find?_cons, hb2, ih]
        · have hb : (e.1 != b) = true := by simp [he]
          simp only [List.filter, hb, List.find?_cons]
          split <;> simp_all
    rw [this]

end PttVerif.C07
