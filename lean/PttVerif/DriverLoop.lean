import PttVerif.Common
/-
Line protocol: one operation per input line, one canonical line out.
-/
namespace PttVerif

structure Handler (σ : Type) where
  init : σ
  step : σ → List String → σ × String

partial def runLoop {σ} (h : Handler σ) (inp : IO.FS.Stream) (out : IO.FS.Stream) (s : σ) : IO Unit := do
  let line ← inp.getLine
  if line.isEmpty then
    out.flush
    return ()
  let ws := words (line.trimAscii.toString)
  let (s', o) := h.step s ws
  out.putStrLn o
  runLoop h inp out s'

def runHandler {σ} (h : Handler σ) : IO Unit := do
  let inp ← IO.getStdin
  let out ← IO.getStdout
  runLoop h inp out h.init

end PttVerif
