import PttVerif.Proofs.C20
/-
C20 — A user's balance is the same in shared memory and .PASSWDS and never negative.
Property theorems only (helper lemmas live in Proofs/C20.lean).

Reading.  `Bal = slot → Int` is the abstract account table with plain integer arithmetic (`specStep`).
`Agree s b D`: the state `s` (SHM array of MAX_USERS int32, .PASSWDS of exactly MAX_USERS records) holds `b` in
SHM on every valid slot and in the `Money` field of the record of every valid slot in `D`.  `NoOverflow b o` is
the property's "values that do not overflow": amounts are int32, a debit is not -2^31 (its negation does not
exist in int32) and the sum that is stored is an int32.
-/
namespace PttVerif.C20.Props
open PttVerif PttVerif.C20

/-! #### what the source says (regenerated data) -/

/-- `passwdUpdateMoney` takes `unsafe.Offsetof` of the field called `Money`; that offset and the stride of its
`Seek` are the offset of `UserecRaw.Money` and `Sizeof(UserecRaw)`; the field is 4 bytes inside the record and
the value written is a little-endian int32. -/
theorem source_layout :
    Gen.Money.writtenField = "Money" ∧ Gen.Money.writtenOffset = Gen.Money.moneyOffset ∧
    Gen.Money.stride = Gen.Money.recSize ∧ Gen.Money.moneyOffset + 4 ≤ Gen.Money.recSize ∧
    Gen.Money.moneySize = 4 ∧ Gen.Money.littleEndian = true ∧ Gen.Money.valueBits = 32 :=
  ⟨gen_facts.1, gen_facts.2.1, gen_facts.2.2.1, gen_facts.2.2.2.1, gen_facts.2.2.2.2.1,
   gen_facts.2.2.2.2.2.2.2.2.1, gen_facts.2.2.2.2.2.2.2.2.2⟩

/-- the slot guards written in `SetUMoney`, `DeUMoney` and `passwdUpdateMoney` let through exactly the slots
`1 ≤ uid ≤ MAX_USERS` (first and last included), for every integer `uid`. -/
theorem guard_accepts_exactly_valid_slots (u : Int) :
    (rejects Gen.Money.setGuard u = false ↔ Valid u) ∧
    (rejects Gen.Money.deGuard u = false ↔ Valid u) ∧
    (rejects Gen.Money.passwdGuard u = false ↔ Valid u) :=
  ⟨setGuard_iff u, deGuard_iff u, passwdGuard_iff u⟩

/-- in `ptt.SetupNewUser` (calls in source order, regenerated), what follows `cache.SetUserID` is: set the balance
(`cache.SetUMoney`), then write the record (`passwdSyncUpdate`) — in that order, nothing else. -/
theorem registration_sets_money_before_record :
    (Gen.Reg.setupNewUserCalls.dropWhile (· != "setUserID")).drop 1 = ["setMoney", "writeRecord"] := by decide

/-! #### one step refines the abstract table -/

/-- what the abstract table says an operation answers (`none`: `MoneyOf` on an invalid slot, not specified). -/
def specAns (b : Bal) : Op → Option (Int × Err)
  | .set u m => if Valid u then some (m, .none) else some (-1, .invalidUID)
  | .de u m => if Valid u then some (deNew (b u) m, .none) else some (-1, .invalidUID)
  | .get u => if Valid u then some (b u, .none) else none
  | .sync u _ perm => if Valid u then some (Int.ofNat perm, .none) else some (0, .invalidUID)
  | .load u => if Valid u then some (b u, .none) else some (0, .invalidUserID)
  | .newuser u _ _ => if Valid u then some (0, .none) else some (0, .invalidUID)

/-- every operation, on every slot (valid or not), inside int32: the new state represents the new abstract table
— SHM on every valid slot, .PASSWDS on every slot that agreed before or was just written — and the answer is
the abstract answer. -/
theorem money_refines (s : State) (b : Bal) (D : Int → Prop) (o : Op) (h : Agree s b D) (hno : NoOverflow b o) :
    Agree (step s o).1 (specStep b o) (fun w => D w ∨ writes o w) ∧
    ∀ r, specAns b o = some r → (step s o).2 = .ok r := by
  refine ⟨agree_step s b D o h hno, ?_⟩
  intro r hr
  cases o with
  | set u m =>
      simp only [specAns] at hr
      simp only [step]
      by_cases hu : Valid u
      · rw [if_pos hu] at hr; cases hr
        exact (agree_set s b D u m h hu hno).1
      · rw [if_neg hu] at hr; cases hr
        rw [setUMoney_invalid s u m hu]
  | de u m =>
      simp only [specAns] at hr
      simp only [step]
      by_cases hu : Valid u
      · rw [if_pos hu] at hr; cases hr
        obtain ⟨hm, hrest⟩ := hno
        obtain ⟨hmin, hnew⟩ := hrest hu
        rw [deUMoney_valid s u m (b u) hu (h.2.1 u hu).1 hm hmin hnew]
        exact (agree_set s b D u _ h hu hnew).1
      · rw [if_neg hu] at hr; cases hr
        rw [deUMoney_invalid s u m hu]
  | get u =>
      simp only [specAns] at hr
      simp only [step]
      by_cases hu : Valid u
      · rw [if_pos hu] at hr; cases hr
        rw [moneyOf_valid s u (b u) hu (h.2.1 u hu).1]; rfl
      · rw [if_neg hu] at hr; cases hr
  | sync u rec perm =>
      simp only [specAns] at hr
      simp only [step]
      by_cases hu : Valid u
      · rw [if_pos hu] at hr; cases hr
        exact (agree_sync s b D u rec perm h hu hno.1).1
      · rw [if_neg hu] at hr; cases hr
        rw [setUserPerm_invalid s u rec perm hu]
  | load u =>
      simp only [specAns] at hr
      simp only [step]
      by_cases hu : Valid u
      · rw [if_pos hu] at hr; cases hr
        obtain ⟨⟨hs, f, hf, hlen⟩, hshm, _⟩ := h
        obtain ⟨h0, hk, _⟩ := valid_bounds u hu
        have hq : ∃ r, passwdQuery s u = .ok r := by
          unfold passwdQuery
          have hin : RSZ * (u - 1).toNat + RSZ ≤ f.length := by
            have h1 : RSZ * ((u - 1).toNat + 1) ≤ RSZ * MAX := Nat.mul_le_mul_left _ hk
            rw [Nat.mul_succ] at h1
            rw [hlen]; exact h1
          simp only [(uidIsValid_iff u).2 hu, Bool.not_true, Bool.false_eq_true, if_false, hf, toIdx_valid u hu]
          rw [if_neg (by omega), if_pos hin]
          exact ⟨_, rfl⟩
        obtain ⟨r, hq⟩ := hq
        rw [hq, moneyOf_valid s u (b u) hu (hshm u hu).1]; rfl
      · rw [if_neg hu] at hr; cases hr
        have hv : uidIsValid u = false := by
          cases h' : uidIsValid u
          · rfl
          · exact absurd ((uidIsValid_iff u).1 h') hu
        simp [passwdQuery, hv]
  | newuser u rec m =>
      simp only [specAns] at hr
      simp only [step]
      by_cases hu : Valid u
      · rw [if_pos hu] at hr; cases hr
        rw [(agree_newuser s b D u m rec h hu hno.1 hno.2).1]; rfl
      · rw [if_neg hu] at hr; cases hr
        rw [newuser_invalid s u m rec hu]; rfl

/-! #### histories -/

/-- after ANY sequence of set / credit / debit / read operations and whole-record writes (`ptt.SetUserPerm`
with ANY record the caller may hold — however stale its Money), record loads and registrations into ANY slot
(whatever balance the slot still held), interleaved in any order, on ANY slots, whose arithmetic stays inside int32, starting from a state where SHM and .PASSWDS hold `b₀`: for every valid slot (first and last included)
the SHM value, the little-endian int32 in the `Money` bytes of the slot's record and the abstract balance are
the same; the state is still well-formed. -/
theorem money_history (s₀ : State) (b₀ : Bal) (os : List Op) (h : Agree s₀ b₀ (fun _ => True))
    (hno : NoOverflowRun b₀ os) :
    WF (run s₀ os) ∧ ∀ u, Valid u →
      shmAt (run s₀ os) u = some (specRun b₀ os u) ∧ diskAt (run s₀ os) u = some (specRun b₀ os u) := by
  have := agree_run os s₀ b₀ _ h hno
  exact ⟨this.1, fun u hu => ⟨(this.2.1 u hu).1, this.2.2 u hu (Or.inl trivial)⟩⟩

/-- the same from a start in which .PASSWDS agrees with SHM only on the slots in `D` (possibly none): SHM
follows the abstract table everywhere, .PASSWDS on every slot of `D` and on every slot a writing operation
addressed. -/
theorem money_history_from_unsynced (s₀ : State) (b₀ : Bal) (D : Int → Prop) (os : List Op)
    (h : Agree s₀ b₀ D) (hno : NoOverflowRun b₀ os) :
    ∀ u, Valid u →
      shmAt (run s₀ os) u = some (specRun b₀ os u) ∧
      ((D u ∨ ∃ o ∈ os, writes o u) → diskAt (run s₀ os) u = some (specRun b₀ os u)) := by
  have := agree_run os s₀ b₀ D h hno
  exact fun u hu => ⟨(this.2.1 u hu).1, this.2.2 u hu⟩

/-- all balances stay int32 values along such a history. -/
theorem money_history_int32 (s₀ : State) (b₀ : Bal) (D : Int → Prop) (os : List Op)
    (h : Agree s₀ b₀ D) (hno : NoOverflowRun b₀ os) : ∀ u, Valid u → Int32 (specRun b₀ os u) :=
  fun u hu => ((agree_run os s₀ b₀ D h hno).2.1 u hu).2

/-! #### a debit larger than the balance leaves 0 -/

theorem debit_below_zero_leaves_zero (s : State) (b : Bal) (D : Int → Prop) (u m : Int) (h : Agree s b D)
    (hu : Valid u) (hm : Int32 m) (hmin : m ≠ -2147483648) (hneg : m < 0) (hlt : b u < -m) :
    (step s (.de u m)).2 = .ok (0, .none) ∧
    shmAt (step s (.de u m)).1 u = some 0 ∧ diskAt (step s (.de u m)).1 u = some 0 := by
  have hd : deNew (b u) m = 0 := by unfold deNew; rw [if_pos ⟨hneg, hlt⟩]
  have hno : NoOverflow b (.de u m) := ⟨hm, fun _ => ⟨hmin, by rw [hd]; unfold Int32; omega⟩⟩
  obtain ⟨hag, hans⟩ := money_refines s b D (.de u m) h hno
  have e : specStep b (.de u m) u = 0 := by simp [specStep, hu, upd, hd]
  refine ⟨?_, ?_, ?_⟩
  · apply hans; simp [specAns, hu, hd]
  · rw [(hag.2.1 u hu).1, e]
  · rw [hag.2.2 u hu (Or.inr rfl), e]

/-! #### an invalid slot fails without writing -/

/-- for EVERY integer slot outside `1..MAX_USERS`, every amount and every state (no well-formedness needed):
`SetUMoney` and `DeUMoney` answer `(-1, ErrInvalidUID)` and the state — SHM and file — is unchanged. -/
theorem invalid_slot_noop (s : State) (u m : Int) (hu : ¬ Valid u) :
    step s (.set u m) = (s, .ok (-1, .invalidUID)) ∧ step s (.de u m) = (s, .ok (-1, .invalidUID)) :=
  ⟨setUMoney_invalid s u m hu, deUMoney_invalid s u m hu⟩

/-- no writing operation panics, whatever the slot, the amount and the file (present or not). -/
theorem writes_never_fault (s : State) (u m : Int) (hs : s.shm.length = MAX) :
    (∃ r, (step s (.set u m)).2 = .ok r) ∧ (∃ r, (step s (.de u m)).2 = .ok r) := by
  have hset : ∀ m', ∃ r, (setUMoney s u m').2 = .ok r := by
    intro m'
    by_cases hu : Valid u
    · cases hf : s.file with
      | some f => rw [setUMoney_valid s f u m' hs hf hu]; exact ⟨_, rfl⟩
      | none =>
          obtain ⟨h0, hk, _⟩ := valid_bounds u hu
          refine ⟨(m', .io), ?_⟩
          unfold setUMoney
          rw [(setGuard_iff u).2 hu]
          simp only [Bool.false_eq_true, if_false, toIdx_valid u hu]
          rw [if_neg (by omega)]
          unfold passwdUpdateMoney
          rw [(passwdGuard_iff u).2 hu]
          simp [hf]
    · rw [setUMoney_invalid s u m' hu]; exact ⟨_, rfl⟩
  refine ⟨hset m, ?_⟩
  simp only [step]
  by_cases hu : Valid u
  · obtain ⟨h0, hk, _⟩ := valid_bounds u hu
    have hc : ∃ cur, shmAt s u = some cur := by
      unfold shmAt
      exact ⟨s.shm[(u - 1).toNat]'(by omega), List.getElem?_eq_getElem (by omega)⟩
    obtain ⟨cur, hc⟩ := hc
    unfold deUMoney
    rw [(deGuard_iff u).2 hu]
    simp only [Bool.false_eq_true, if_false, moneyOf_valid s u cur hu hc]
    split
    · exact hset _
    · exact hset _
  · rw [deUMoney_invalid s u m hu]; exact ⟨_, rfl⟩

/-! #### frame: nothing but the four Money bytes of the addressed record changes -/

/-- the bytes of `.PASSWDS` an operation addressed to the valid slot `u` may change: the four `Money` bytes of
record `u` for set / credit / debit, the whole record `u` for a whole-record write or a registration, nothing
for reads. -/
def span (o : Op) (u : Int) (i : Nat) : Prop :=
  match o with
  | .set _ _ | .de _ _ =>
      Gen.Money.recSize * (u - 1).toNat + Gen.Money.moneyOffset ≤ i ∧
      i < Gen.Money.recSize * (u - 1).toNat + Gen.Money.moneyOffset + 4
  | .sync _ _ _ | .newuser _ _ _ =>
      Gen.Money.recSize * (u - 1).toNat ≤ i ∧ i < Gen.Money.recSize * (u - 1).toNat + Gen.Money.recSize
  | _ => False

/-- EVERY operation (any slot, any amount, overflowing or not, any caller record of `recSize` bytes) on a
well-formed state: the file keeps its length, and every byte outside the span of the valid slot the operation
writes is unchanged — in particular all bytes when the slot is invalid or the operation is a read. -/
theorem money_frame (s : State) (f : List Nat) (o : Op) (hs : s.shm.length = MAX) (hf : s.file = some f)
    (hlen : f.length = Gen.Money.recSize * MAX) (hrec : RecOK o) :
    ∃ f', (step s o).1.file = some f' ∧ f'.length = f.length ∧
      ∀ i, (∀ u, Valid u → writes o u → ¬ span o u i) → f'[i]? = f[i]? := by
  rcases step_shape s f o hs hf hlen hrec with e | ⟨u, m', hu, hw, e⟩ | ⟨u, r, shm', hu, hw, hrw, hr, e, _⟩
  · rw [e]; exact ⟨f, hf, rfl, fun _ _ => rfl⟩
  · rw [e]
    obtain ⟨_, hk, _⟩ := valid_bounds u hu
    have hin : Gen.Money.recSize * (u - 1).toNat + Gen.Money.moneyOffset + (le32 m').length ≤ f.length := by
      rw [le32_length, hlen]; exact field_inside _ hk
    refine ⟨_, rfl, writeAt_length _ _ _ hin, ?_⟩
    intro i hi
    have := hi u hu hw
    have hlay := gen_facts.2.2.2.1
    rw [getElem?_writeAt _ _ _ _ hin, le32_length]
    cases o with
    | set _ _ =>
        rw [if_neg (show ¬ (Gen.Money.recSize * (u - 1).toNat + Gen.Money.moneyOffset ≤ i ∧
          i < Gen.Money.recSize * (u - 1).toNat + Gen.Money.moneyOffset + 4) from this)]
    | de _ _ =>
        rw [if_neg (show ¬ (Gen.Money.recSize * (u - 1).toNat + Gen.Money.moneyOffset ≤ i ∧
          i < Gen.Money.recSize * (u - 1).toNat + Gen.Money.moneyOffset + 4) from this)]
    | get _ => exact absurd hw (by simp [writes])
    | load _ => exact absurd hw (by simp [writes])
    | sync _ _ _ => rw [if_neg (by simp only [span] at this; omega)]
    | newuser _ _ _ => rw [if_neg (by simp only [span] at this; omega)]
  · rw [e]
    obtain ⟨_, hk, _⟩ := valid_bounds u hu
    have hin : Gen.Money.recSize * (u - 1).toNat + r.length ≤ f.length := by
      have h1 : Gen.Money.recSize * ((u - 1).toNat + 1) ≤ Gen.Money.recSize * MAX := Nat.mul_le_mul_left _ hk
      rw [Nat.mul_succ] at h1
      rw [hr, hlen]; exact h1
    refine ⟨_, rfl, writeAt_length _ _ _ hin, ?_⟩
    intro i hi
    have := hi u hu hw
    rw [getElem?_writeAt _ _ _ _ hin, hr]
    cases o with
    | sync _ _ _ => rw [if_neg (show ¬ (_ ∧ _) from this)]
    | newuser _ _ _ => rw [if_neg (show ¬ (_ ∧ _) from this)]
    | set _ _ => simp [recWrite] at hrw
    | de _ _ => simp [recWrite] at hrw
    | get _ => simp [recWrite] at hrw
    | load _ => simp [recWrite] at hrw

/-- EVERY operation: the record of every other valid slot is byte-identical, and the SHM entry of every other
valid slot is unchanged. -/
theorem other_records_identical (s : State) (f : List Nat) (o : Op) (hs : s.shm.length = MAX)
    (hf : s.file = some f) (hlen : f.length = Gen.Money.recSize * MAX) (hrec : RecOK o) (v : Int) (hv : Valid v)
    (hnw : ¬ writes o v) :
    (∃ f', (step s o).1.file = some f' ∧ record f' v = record f v) ∧
    shmAt (step s o).1 v = shmAt s v := by
  rcases step_shape s f o hs hf hlen hrec with e | ⟨u, m', hu, hw, e⟩ | ⟨u, r, shm', hu, hw, _, hr, e, hshm, _⟩
  · rw [e]; exact ⟨⟨f, hf, rfl⟩, rfl⟩
  · rw [e]
    have hne : v ≠ u := by
      intro h; subst h; exact hnw hw
    obtain ⟨_, hk, _⟩ := valid_bounds u hu
    have hin : Gen.Money.recSize * (u - 1).toNat + Gen.Money.moneyOffset + (le32 m').length ≤ f.length := by
      rw [le32_length, hlen]; exact field_inside _ hk
    refine ⟨⟨_, rfl, ?_⟩, ?_⟩
    · unfold record
      apply slice_writeAt_disjoint _ _ _ _ _ hin
      rw [le32_length]
      have hlay := gen_facts.2.2.2.1
      rcases blocks_apart _ _ (slot_ne u v hu hv hne) with h1 | h1 <;> omega
    · rw [shmAt_afterSet s f u m' v hs hu hv, if_neg hne]
  · rw [e]
    have hne : v ≠ u := by
      intro h; subst h; exact hnw hw
    refine ⟨⟨_, rfl, ?_⟩, hshm v hv hne⟩
    rw [record_afterSync f u v _ hlen hr hu hv, if_neg hne]

/-! #### the whole-record path keeps SHM and .PASSWDS in step -/

/-- `ptt.SetUserPerm(_, u, rec, perm)` → `passwdSyncUpdate` on a valid slot, for ANY record `rec` the caller holds
(`recSize` bytes; its Money field may be arbitrarily stale): it succeeds; afterwards the Money bytes of record `u`
decode to the SHM value = the abstract balance (SHM itself is untouched); every other byte of record `u` is the
caller's record with the new UserLevel; the UserLevel bytes hold `perm`; all other records are byte-identical. -/
theorem syncupdate_keeps_agreement (s : State) (b : Bal) (D : Int → Prop) (u : Int) (rec : List Nat) (perm : Nat)
    (h : Agree s b D) (hu : Valid u) (hr : rec.length = Gen.Money.recSize) :
    (step s (.sync u rec perm)).2 = .ok (Int.ofNat perm, .none) ∧
    shmAt (step s (.sync u rec perm)).1 u = some (b u) ∧
    diskAt (step s (.sync u rec perm)).1 u = some (b u) ∧
    (step s (.sync u rec perm)).1.shm = s.shm ∧
    ∃ f', (step s (.sync u rec perm)).1.file = some f' ∧
      (∀ j, ¬ (Gen.Money.moneyOffset ≤ j ∧ j < Gen.Money.moneyOffset + 4) →
          (record f' u)[j]? = (recSetLevel rec perm)[j]?) ∧
      ((record f' u).drop Gen.Money.userLevelOffset).take 4 = le32 (Int.ofNat perm) ∧
      ∀ v, Valid v → v ≠ u → ∃ f, s.file = some f ∧ record f' v = record f v := by
  have hag := agree_sync s b D u rec perm h hu hr
  obtain ⟨⟨hs, f, hf, hlen⟩, hshm, _⟩ := h
  have hl1 := recSetLevel_length rec perm hr
  have hl2 := recSetMoney_length _ (b u) hl1
  simp only [step]
  refine ⟨hag.1, (hag.2.2.1 u hu).1, hag.2.2.2 u hu (Or.inr rfl), ?_, ?_⟩
  · rw [setUserPerm_valid s f u (b u) rec perm hf hu (hshm u hu).1]; rfl
  · rw [setUserPerm_valid s f u (b u) rec perm hf hu (hshm u hu).1]
    refine ⟨_, rfl, ?_, ?_, ?_⟩
    · intro j hj
      rw [record_afterSync f u u _ hlen hl2 hu hu, if_pos rfl, recSetMoney_other _ _ hl1 j hj]
    · rw [record_afterSync f u u _ hlen hl2 hu hu, if_pos rfl]
      obtain ⟨hlv, _, hdis⟩ := gen_facts_level
      have e1 : ((recSetMoney (recSetLevel rec perm) (b u)).drop Gen.Money.userLevelOffset).take 4 =
          ((recSetLevel rec perm).drop Gen.Money.userLevelOffset).take 4 := by
        unfold recSetMoney MOFF
        apply slice_writeAt_disjoint _ _ _ _ _ (by rw [le32_length, hl1]; exact gen_facts.2.2.2.1)
        rw [le32_length]; omega
      rw [e1]
      unfold recSetLevel LOFF
      have := slice_writeAt_same rec (le32 (Int.ofNat perm)) Gen.Money.userLevelOffset
        (by rw [le32_length, hr]; exact hlv)
      rwa [le32_length] at this
    · intro v hv hne
      exact ⟨f, hf, by rw [record_afterSync f u v _ hlen hl2 hu hv, if_neg hne]⟩

/-- an accepted registration (`ptt.SetupNewUser`, after the slot `u` was chosen) with starting balance `m`, on a slot
that may still hold ANY balance of a deleted user (in SHM, on disk, or both — `D` may exclude `u`): it succeeds;
afterwards SHM money = .PASSWDS money = `m`; every other byte of record `u` is the registration record; all other
records and all other SHM entries are unchanged. -/
theorem newuser_balance (s : State) (b : Bal) (D : Int → Prop) (u m : Int) (rec : List Nat)
    (h : Agree s b D) (hu : Valid u) (hm : Int32 m) (hr : rec.length = Gen.Money.recSize) :
    (step s (.newuser u rec m)).2 = .ok (0, .none) ∧
    shmAt (step s (.newuser u rec m)).1 u = some m ∧
    diskAt (step s (.newuser u rec m)).1 u = some m ∧
    ∃ f', (step s (.newuser u rec m)).1.file = some f' ∧
      (∀ j, ¬ (Gen.Money.moneyOffset ≤ j ∧ j < Gen.Money.moneyOffset + 4) → (record f' u)[j]? = rec[j]?) ∧
      ∀ v, Valid v → v ≠ u →
        shmAt (step s (.newuser u rec m)).1 v = shmAt s v ∧ ∃ f, s.file = some f ∧ record f' v = record f v := by
  have hag := agree_newuser s b D u m rec h hu hm hr
  obtain ⟨⟨hs, f, hf, hlen⟩, _, _⟩ := h
  have hl := recSetMoney_length rec m hr
  have e : (step s (.newuser u rec m)).1 = afterNew s f u rec m := by
    simp only [step]; rw [newuser_valid s f u m rec hs hf hlen hr hu]
  have hupd : upd b u m u = m := by simp [upd]
  refine ⟨?_, ?_, ?_, ?_⟩
  · simp only [step]; rw [hag.1]; rfl
  · simp only [step]; rw [(hag.2.2.1 u hu).1, hupd]
  · simp only [step]; rw [hag.2.2.2 u hu (Or.inr rfl), hupd]
  · rw [e]
    refine ⟨_, rfl, ?_, ?_⟩
    · intro j hj
      rw [record_afterSync f u u _ hlen hl hu hu, if_pos rfl, recSetMoney_other rec m hr j hj]
    · intro v hv hne
      refine ⟨?_, f, hf, by rw [record_afterSync f u v _ hlen hl hu hv, if_neg hne]⟩
      exact List.getElem?_set_ne (Ne.symm (slot_ne u v hu hv hne))

/-- `passwdSyncQuery` (through `ptt.GetUser`) on a valid slot returns a record whose Money is the SHM value = the
abstract balance, whatever the Money bytes of .PASSWDS are; every other byte is the (bool-normalised) file record. -/
theorem syncquery_returns_balance (s : State) (b : Bal) (D : Int → Prop) (u : Int) (h : Agree s b D) (hu : Valid u) :
    ∃ f, s.file = some f ∧
      passwdSyncQuery s u = .ok (.ok (recSetMoney (normRec (record f u)) (b u))) := by
  obtain ⟨⟨hs, f, hf, hlen⟩, hshm, _⟩ := h
  obtain ⟨h0, hk, _⟩ := valid_bounds u hu
  refine ⟨f, hf, ?_⟩
  have hin : RSZ * (u - 1).toNat + RSZ ≤ f.length := by
    have h1 : RSZ * ((u - 1).toNat + 1) ≤ RSZ * MAX := Nat.mul_le_mul_left _ hk
    rw [Nat.mul_succ] at h1
    rw [hlen]; exact h1
  unfold passwdSyncQuery passwdQuery
  simp only [(uidIsValid_iff u).2 hu, Bool.not_true, Bool.false_eq_true, if_false, hf, toIdx_valid u hu]
  rw [if_neg (by omega), if_pos hin]
  simp only [moneyOf_valid s u (b u) hu (hshm u hu).1]
  rfl

/-! #### locality: the justification of the per-slot expected image of the concurrent passes -/

/-- after ANY history (money operations, whole-record writes, loads, registrations, on any slots, overflowing or
not), what the property sees of a valid slot `u` — its SHM entry and its whole record — is what the operations
ADDRESSED TO `u` alone produce, in their order.  Operations addressed to other slots do not matter, wherever they
are interleaved. -/
theorem slot_result_depends_only_on_own_operations (s : State) (os : List Op) (u : Int) (h : WF s)
    (hrec : ∀ o ∈ os, RecOK o) (hu : Valid u) :
    slotView (run s os) u = slotView (run s (os.filter fun o => slotOf o = u)) u :=
  view_projection os u s h hrec hu

/-- hence any two interleavings (at operation granularity) of the same per-slot programs end with the same SHM
entry and the same record in every valid slot: if every call is atomic, G concurrent writers of G different slots
must leave exactly the image that each slot's own program leaves — which is what the oracle of the concurrent
passes compares `.PASSWDS` and SHM with, bystander slots (empty program) included. -/
theorem interleavings_agree (s : State) (os₁ os₂ : List Op) (h : WF s) (h₁ : ∀ o ∈ os₁, RecOK o)
    (h₂ : ∀ o ∈ os₂, RecOK o)
    (hsame : ∀ u, Valid u → (os₁.filter fun o => slotOf o = u) = (os₂.filter fun o => slotOf o = u)) :
    ∀ u, Valid u → slotView (run s os₁) u = slotView (run s os₂) u := by
  intro u hu
  rw [view_projection os₁ u s h h₁ hu, view_projection os₂ u s h h₂ hu, hsame u hu]

/-- a bystander slot (no operation addressed to it) keeps its SHM entry and every byte of its record. -/
theorem bystander_untouched (s : State) (os : List Op) (u : Int) (h : WF s) (hrec : ∀ o ∈ os, RecOK o)
    (hu : Valid u) (hby : ∀ o ∈ os, slotOf o ≠ u) : slotView (run s os) u = slotView s u := by
  rw [view_projection os u s h hrec hu]
  have : (os.filter fun o => slotOf o = u) = [] := by
    apply List.filter_eq_nil_iff.2
    intro o ho
    simpa using hby o ho
  rw [this]; rfl

/-- witness for the rule the concurrent passes guard (a whole-record write must put the CALLER's record, stamped
with the SHM balance of ITS slot, into its slot): if the bytes that reach slot `u` are a record stamped with
another balance `w` — what a shared encode buffer or a shared file offset produces — `.PASSWDS` and SHM disagree
on `u`. -/
theorem foreign_record_breaks_agreement (s : State) (b : Bal) (D : Int → Prop) (f : List Nat) (u w : Int)
    (rec : List Nat) (h : Agree s b D) (hf : s.file = some f) (hu : Valid u) (hr : rec.length = Gen.Money.recSize)
    (hw : Int32 w) (hne : w ≠ b u) :
    diskAt (afterSync s f u (recSetMoney rec w)) u = some w ∧
    shmAt (afterSync s f u (recSetMoney rec w)) u = some (b u) ∧
    diskAt (afterSync s f u (recSetMoney rec w)) u ≠ shmAt (afterSync s f u (recSetMoney rec w)) u := by
  obtain ⟨⟨hs, f0, hf0, hlen⟩, hshm, _⟩ := h
  have e : f0 = f := by rw [hf] at hf0; exact (Option.some.inj hf0).symm
  subst e
  have hl := recSetMoney_length rec w hr
  have hd : diskAt (afterSync s f0 u (recSetMoney rec w)) u = some w := by
    unfold diskAt afterSync
    simp only [Option.bind_some]
    rw [moneyBytes_afterSync f0 u u _ hlen hl hu hu, if_pos rfl, recSetMoney_money rec w hr, dec32_le32 w hw]
  refine ⟨hd, (hshm u hu).1, ?_⟩
  rw [hd, shmAt_afterSync, (hshm u hu).1]
  intro e
  exact hne (Option.some.inj e)

/-! #### the loader: where "SHM = .PASSWDS" comes from, under either site configuration -/

/-- what the source says: the block of `cache.userecRawAddToUHash` that fills a slot from its record assigns
`Userid` and `Money` unconditionally; `ptttype.USE_COOLDOWN` guards nothing the balance depends on; and the
"skip invalid ids" counter cannot reach its limit on a table of MAX_USERS slots. -/
theorem loader_copies_money_unconditionally :
    "Money" ∈ Gen.Money.loaderCopies ∧ "Userid" ∈ Gen.Money.loaderCopies ∧
    Gen.Money.maxUsers ≤ Gen.Money.preAllocatedUsers := by decide

/-- the loader treats Userid / Money the same under `USE_COOLDOWN = true` and `= false`, on every file and every
segment. -/
theorem load_independent_of_cooldown (onfly : Bool) (ids : List (List Nat)) (s : State) :
    loadUHash onfly true ids s = loadUHash onfly false ids s := by
  unfold loadUHash
  have : loadRec onfly true = loadRec onfly false := by
    funext f st i; exact loadRec_cooldown onfly f st i
  rw [this]

/-- a fresh start (`Shm.Reset()`, `LoadUHash`) on a complete `.PASSWDS`, whatever SHM held before and under either
configuration value: it succeeds, the file is untouched, and every valid slot's SHM money is the Money of its
record — the state represents the table of the disk balances. -/
theorem fresh_load_establishes_agreement (cd : Bool) (s : State) (h : WF s) :
    (freshLoad cd s).2 = .ok .none ∧ (freshLoad cd s).1.2.file = s.file ∧
    ∃ b : Bal, (∀ u, Valid u → diskAt s u = some (b u)) ∧ Agree (freshLoad cd s).1.2 b (fun _ => True) := by
  obtain ⟨_, f, hf, hlen⟩ := h
  have hc := loadUHash_complete false cd (List.replicate MAX (List.replicate IDSZ 0))
    { s with shm := List.replicate MAX 0 } f (by simp) (by simp) hf hlen
  obtain ⟨h1, h2, h3, _, h5⟩ := hc
  refine ⟨h1, by rw [hf]; exact h2, fun u => fileMoney f (u - 1).toNat, ?_, ?_⟩
  · intro u hu; exact (diskAt_fileMoney s f u hf hlen hu).1
  · refine ⟨⟨h3, f, h2, hlen⟩, ?_, ?_⟩
    · intro u hu
      refine ⟨?_, (diskAt_fileMoney s f u hf hlen hu).2⟩
      have := h5 u hu
      rw [if_pos (by simp [reloadCond])] at this
      exact this
    · intro u hu _
      exact (diskAt_fileMoney (freshLoad cd s).1.2 f u h2 hlen hu).1

/-- an on-the-fly reload on a complete `.PASSWDS`, for ANY contents of the SHM user-id array: a state in which SHM
and `.PASSWDS` agree stays so with the same balances; and in any well-formed state every slot whose owner changed
(its record's user id differs from the one in SHM) ends with SHM money = the Money of its record. -/
theorem reload_keeps_agreement (cd : Bool) (ids : List (List Nat)) (s : State) (b : Bal)
    (h : Agree s b (fun _ => True)) (hi : ids.length = MAX) :
    (loadUHash true cd ids s).2 = .ok .none ∧ Agree (loadUHash true cd ids s).1.2 b (fun _ => True) := by
  obtain ⟨⟨hs, f, hf, hlen⟩, hshm, hdisk⟩ := h
  obtain ⟨h1, h2, h3, _, h5⟩ := loadUHash_complete true cd ids s f hs hi hf hlen
  refine ⟨h1, ⟨h3, f, h2, hlen⟩, ?_, ?_⟩
  · intro u hu
    refine ⟨?_, (hshm u hu).2⟩
    rw [h5 u hu]
    split
    · have hd := hdisk u hu trivial
      rw [(diskAt_fileMoney s f u hf hlen hu).1] at hd
      exact hd
    · exact (hshm u hu).1
  · intro u hu _
    have hd := hdisk u hu trivial
    rw [(diskAt_fileMoney s f u hf hlen hu).1] at hd
    rw [(diskAt_fileMoney (loadUHash true cd ids s).1.2 f u h2 hlen hu).1]
    exact hd

theorem reload_refills_changed_owner (cd : Bool) (ids : List (List Nat)) (s : State) (f : List Nat) (u : Int)
    (h : WF s) (hf : s.file = some f) (hi : ids.length = MAX) (hu : Valid u)
    (hch : cstr (fileId f (u - 1).toNat) ≠ cstr (ids.getD (u - 1).toNat [])) :
    shmAt (loadUHash true cd ids s).1.2 u = diskAt (loadUHash true cd ids s).1.2 u := by
  obtain ⟨hs, f0, hf0, hlen⟩ := h
  have e : f0 = f := by rw [hf] at hf0; exact (Option.some.inj hf0).symm
  subst e
  obtain ⟨_, h2, _, _, h5⟩ := loadUHash_complete true cd ids s f0 hs hi hf hlen
  have hc : reloadCond true f0 ids (u - 1).toNat = true := by
    unfold reloadCond
    rw [Bool.or_eq_true]; right
    exact bne_iff_ne.2 hch
  rw [h5 u hu, if_pos hc, (diskAt_fileMoney _ f0 u h2 hlen hu).1]

/-- start-up followed by ANY history inside int32 (credits, debits, sets, whole-record writes, registrations):
SHM, the record and plain arithmetic STARTING FROM THE DISK BALANCES agree on every valid slot. -/
theorem history_after_fresh_start (cd : Bool) (s : State) (h : WF s) :
    ∃ b : Bal, (∀ u, Valid u → diskAt s u = some (b u)) ∧
      ∀ os, NoOverflowRun b os → ∀ u, Valid u →
        shmAt (run (freshLoad cd s).1.2 os) u = some (specRun b os u) ∧
        diskAt (run (freshLoad cd s).1.2 os) u = some (specRun b os u) := by
  obtain ⟨_, _, b, hb, hag⟩ := fresh_load_establishes_agreement cd s h
  exact ⟨b, hb, fun os hno u hu => (money_history _ b os hag hno).2 u hu⟩

/-- witness for the rule the loader has to keep: if a slot's SHM money does not come from its record (SHM holds `b u`
while the record holds something else — `D` need not contain `u`), the next credit or debit writes
`deNew (b u) c` over the record: the balance that was on disk is gone. -/
theorem stale_shm_overwrites_disk_balance (s : State) (b : Bal) (D : Int → Prop) (u c : Int) (h : Agree s b D)
    (hu : Valid u) (hno : NoOverflow b (.de u c)) :
    diskAt (step s (.de u c)).1 u = some (deNew (b u) c) := by
  have := (money_refines s b D (.de u c) h hno).1.2.2 u hu (Or.inr rfl)
  rw [this]; simp [specStep, hu, upd]

/-! #### account expiry: the clean-up sweep is a whole-record writer too -/

/-- `ptt.killUser` on a valid slot (reached through `SetupNewUser → tryCleanUser → checkAndExpireAccount`): it
succeeds; SHM is untouched; the cleared record still carries the SHM balance in its Money bytes, so SHM money =
.PASSWDS money = the abstract balance of the removed account; every other byte of the record is 0; all other records
are byte-identical. -/
theorem kill_keeps_agreement (s : State) (b : Bal) (D : Int → Prop) (u : Int) (h : Agree s b D) (hu : Valid u) :
    (killUser s u).2 = .ok .none ∧ (killUser s u).1.shm = s.shm ∧
    shmAt (killUser s u).1 u = some (b u) ∧ diskAt (killUser s u).1 u = some (b u) ∧
    Agree (killUser s u).1 b (fun w => D w ∨ w = u) ∧
    ∃ f', (killUser s u).1.file = some f' ∧
      (∀ j, j < Gen.Money.recSize → ¬ (Gen.Money.moneyOffset ≤ j ∧ j < Gen.Money.moneyOffset + 4) →
          (record f' u)[j]? = some 0) ∧
      ∀ v, Valid v → v ≠ u → ∃ f, s.file = some f ∧ record f' v = record f v := by
  have hz : (List.replicate RSZ (0 : Nat)).length = Gen.Money.recSize := by simp [RSZ]
  have hp := agree_psu s b D u (List.replicate RSZ 0) h hu hz
  obtain ⟨⟨hs, f, hf, hlen⟩, hshm, _⟩ := h
  have hl := recSetMoney_length (List.replicate RSZ 0) (b u) hz
  have e : killUser s u = (afterSync s f u (recSetMoney (List.replicate RSZ 0) (b u)), .ok .none) := by
    unfold killUser
    exact passwdSyncUpdate_valid s f u (b u) _ hf hu (hshm u hu).1
  unfold killUser at hp
  refine ⟨by rw [e], by rw [e]; rfl, ?_, ?_, ?_, ?_⟩
  · unfold killUser; exact (hp.2.2.1 u hu).1
  · unfold killUser; exact hp.2.2.2 u hu (Or.inr rfl)
  · unfold killUser; exact hp.2
  · rw [e]
    refine ⟨_, rfl, ?_, ?_⟩
    · intro j hj hnm
      rw [record_afterSync f u u _ hlen hl hu hu, if_pos rfl, recSetMoney_other _ _ hz j hnm,
        List.getElem?_replicate, if_pos (by simpa [RSZ] using hj)]
    · intro v hv hne
      exact ⟨f, hf, by rw [record_afterSync f u v _ hlen hl hu hv, if_neg hne]⟩

/-- the clean-up sweep: `killUser` on any list of valid slots, one after the other. -/
def killAll (s : State) : List Int → State
  | [] => s
  | k :: ks => killAll (killUser s k).1 ks

/-- a whole sweep keeps SHM, `.PASSWDS` and the abstract table in step on EVERY slot, with the balances unchanged
(those of the removed accounts included), and brings every swept slot into step even if it was not before. -/
theorem sweep_keeps_agreement (ks : List Int) : ∀ (s : State) (b : Bal) (D : Int → Prop), Agree s b D →
    (∀ k ∈ ks, Valid k) → Agree (killAll s ks) b (fun w => D w ∨ w ∈ ks) := by
  induction ks with
  | nil =>
      intro s b D h _
      exact agree_mono _ _ _ _ h (fun w hw => by
        rcases hw with hw | hw
        · exact hw
        · simp at hw)
  | cons k ks ih =>
      intro s b D h hv
      have h1 := (kill_keeps_agreement s b D k h (hv k (by simp))).2.2.2.2.1
      have h2 := ih _ b _ h1 (fun k' hk' => hv k' (by simp [hk']))
      exact agree_mono _ _ _ _ h2 (fun w hw => by
        rcases hw with hw | hw
        · exact Or.inl (Or.inl hw)
        · rcases List.mem_cons.1 hw with e | e
          · exact Or.inl (Or.inr e)
          · exact Or.inr e)

/-- witness for the rule `killUser` has to keep (clear the record THROUGH `passwdSyncUpdate`): writing the empty
record directly (`cmbbs.PasswdUpdate(uid, &UserecRaw{})`) leaves Money = 0 in `.PASSWDS` while SHM keeps the balance:
they disagree for every removed account that owned something. -/
theorem kill_without_sync_loses_balance (s : State) (b : Bal) (D : Int → Prop) (f : List Nat) (u : Int)
    (h : Agree s b D) (hf : s.file = some f) (hu : Valid u) (hne : b u ≠ 0) :
    diskAt (afterSync s f u (List.replicate RSZ 0)) u = some 0 ∧
    shmAt (afterSync s f u (List.replicate RSZ 0)) u = some (b u) ∧
    diskAt (afterSync s f u (List.replicate RSZ 0)) u ≠ shmAt (afterSync s f u (List.replicate RSZ 0)) u := by
  obtain ⟨⟨hs, f0, hf0, hlen⟩, hshm, _⟩ := h
  have e : f0 = f := by rw [hf] at hf0; exact (Option.some.inj hf0).symm
  subst e
  have hz : (List.replicate RSZ (0 : Nat)).length = Gen.Money.recSize := by simp [RSZ]
  have hlay := gen_facts.2.2.2.1
  have hd : diskAt (afterSync s f0 u (List.replicate RSZ 0)) u = some 0 := by
    unfold diskAt afterSync
    simp only [Option.bind_some]
    rw [moneyBytes_afterSync f0 u u _ hlen hz hu hu, if_pos rfl, List.drop_replicate, List.take_replicate]
    have : min 4 (RSZ - Gen.Money.moneyOffset) = 4 := by
      have : RSZ = Gen.Money.recSize := rfl
      omega
    rw [this]; rfl
  refine ⟨hd, (hshm u hu).1, ?_⟩
  rw [hd, shmAt_afterSync, (hshm u hu).1]
  intro e
  exact hne (Option.some.inj e).symm

/-! #### renaming / re-assigning a slot -/

/-- `cache.SetUserID` on any slot, valid or not: SHM money and `.PASSWDS` are exactly as before, so every agreement
that held still holds with the same balances; it fails exactly on the slots outside `1..MAX_USERS`. -/
theorem setuserid_touches_no_balance (s : State) (b : Bal) (D : Int → Prop) (u : Int) :
    (setUserID s u).1 = s ∧ (Agree s b D → Agree (setUserID s u).1 b D) ∧
    ((setUserID s u).2 = .none ↔ Valid u) := by
  have e : (setUserID s u).1 = s := by unfold setUserID; split <;> rfl
  refine ⟨e, fun h => by rw [e]; exact h, ?_⟩
  unfold setUserID Valid
  split
  · constructor
    · intro h; cases h
    · intro h; omega
  · constructor
    · intro _; omega
    · intro _; rfl

/-! #### field writers (password, e-mail) on a user whose money moves -/

/-- what the source says: every function of package `ptt` that writes `.PASSWDS` does so through a cmbbs field
writer or through `passwdSyncUpdate`; none hands a whole record to `cmbbs.PasswdUpdate` directly (a whole record
read earlier would carry a stale Money past the re-sync).  `ChangePasswd` and `ChangeEmail` are field writers, and
their fields lie inside the record and apart from the Money field. -/
theorem no_whole_record_writer_bypasses_sync :
    (∀ w ∈ Gen.Money.passwdWriters, w.2 ≠ "direct") ∧
    ("ChangePasswd", "field") ∈ Gen.Money.passwdWriters ∧ ("ChangeEmail", "field") ∈ Gen.Money.passwdWriters ∧
    Gen.Money.passwdHashOffset + Gen.Money.passwdHashSize ≤ Gen.Money.moneyOffset ∧
    Gen.Money.moneyOffset + 4 ≤ Gen.Money.emailOffset ∧
    Gen.Money.emailOffset + Gen.Money.emailSize ≤ Gen.Money.recSize := by decide

/-- a field write on a valid slot, of any bytes, into any field of the record that does not meet the Money field:
it succeeds, SHM is untouched, the Money bytes of every record (this one included) are untouched — so whatever
agreement held before still holds, at any point of any history — and all other records are byte-identical. -/
theorem field_write_keeps_agreement (s : State) (b : Bal) (D : Int → Prop) (u : Int) (off : Nat) (bs : List Nat)
    (h : Agree s b D) (hu : Valid u) (hin : off + bs.length ≤ Gen.Money.recSize)
    (hapart : off + bs.length ≤ Gen.Money.moneyOffset ∨ Gen.Money.moneyOffset + 4 ≤ off) :
    (fieldWrite s u off bs).2 = .none ∧ (fieldWrite s u off bs).1.shm = s.shm ∧
    Agree (fieldWrite s u off bs).1 b D ∧
    ∀ v, Valid v → v ≠ u → ∃ f f', s.file = some f ∧ (fieldWrite s u off bs).1.file = some f' ∧
      record f' v = record f v := by
  obtain ⟨⟨hs, f, hf, hlen⟩, hshm, hdisk⟩ := h
  obtain ⟨h0, hk, _⟩ := valid_bounds u hu
  have hv : uidIsValid u = true := (uidIsValid_iff u).2 hu
  have h1 : Gen.Money.recSize * ((u - 1).toNat + 1) ≤ Gen.Money.recSize * MAX := Nat.mul_le_mul_left _ hk
  rw [Nat.mul_succ] at h1
  have hw : Gen.Money.recSize * (u - 1).toNat + off + bs.length ≤ f.length := by rw [hlen]; omega
  have e : fieldWrite s u off bs =
      ({ s with file := some (writeAt f (Gen.Money.recSize * (u - 1).toNat + off) bs) }, .none) := by
    unfold fieldWrite
    simp only [hv, Bool.not_true, Bool.false_eq_true, if_false, hf, toIdx_valid u hu]
    rw [if_neg (by omega)]
    rfl
  rw [e]
  have hlay := gen_facts.2.2.2.1
  refine ⟨rfl, rfl, ⟨⟨hs, _, rfl, by rw [writeAt_length _ _ _ hw, hlen]⟩, hshm, ?_⟩, ?_⟩
  · intro v hv' hD
    have hd := hdisk v hv' hD
    unfold diskAt at hd ⊢
    rw [hf] at hd
    simp only [Option.bind_some] at hd ⊢
    have : moneyBytes (writeAt f (Gen.Money.recSize * (u - 1).toNat + off) bs) v = moneyBytes f v := by
      unfold moneyBytes
      apply slice_writeAt_disjoint _ _ _ _ _ hw
      by_cases hvu : v = u
      · subst hvu; omega
      · rcases blocks_apart _ _ (slot_ne u v hu hv' hvu) with h2 | h2 <;> omega
    rw [this]; exact hd
  · intro v hv' hne
    refine ⟨f, _, hf, rfl, ?_⟩
    unfold record
    apply slice_writeAt_disjoint _ _ _ _ _ hw
    rcases blocks_apart _ _ (slot_ne u v hu hv' hne) with h2 | h2 <;> omega

/-! #### balances never go negative -/

/-- if every balance is ≥ 0 at the start and every `set` and every registration stores a value ≥ 0, then after any history inside
int32 every valid slot holds one and the same value ≥ 0 in SHM and in .PASSWDS. -/
theorem money_nonneg (s₀ : State) (b₀ : Bal) (os : List Op) (h : Agree s₀ b₀ (fun _ => True))
    (hno : NoOverflowRun b₀ os) (h0 : ∀ u, Valid u → 0 ≤ b₀ u) (hsets : SetsNonneg os) :
    ∀ u, Valid u → ∃ v, shmAt (run s₀ os) u = some v ∧ diskAt (run s₀ os) u = some v ∧ 0 ≤ v := by
  intro u hu
  obtain ⟨_, hh⟩ := money_history s₀ b₀ os h hno
  exact ⟨_, (hh u hu).1, (hh u hu).2, specRun_nonneg os b₀ h0 hsets u hu⟩

/-! #### recorded, not demanded by the property -/

/-- `MoneyOf` on an invalid int32 slot panics (index out of range), as in Go; it never writes. -/
theorem moneyOf_invalid_panics (s : State) (u : Int) (hs : s.shm.length = MAX) (hI : Int32 u) (hu : ¬ Valid u) :
    step s (.get u) = (s, .error .panic) := by
  have hmax := gen_facts.2.2.2.2.2.2.2.1
  have hidx : toIdx u < 0 ∨ (MAX : Int) ≤ toIdx u := by
    unfold Valid at hu; unfold Int32 at hI
    unfold toIdx wrap32
    simp only [Int.ofNat_eq_natCast, Int.negSucc_eq]
    split <;> omega
  simp only [step, moneyOf]
  rcases hidx with h | h
  · rw [if_pos h]; rfl
  · rw [if_neg (by omega)]
    unfold idx
    rw [List.getElem?_eq_none (by omega)]; rfl

/-- the no-overflow hypothesis cannot be dropped for the amount -2^31: `-money` wraps to itself, the floor test
`currentMoney < -money` is false, and a balance `c ≥ 0` becomes `c - 2^31 < 0` in SHM and in .PASSWDS. -/
theorem debit_minInt32_goes_negative (s : State) (b : Bal) (D : Int → Prop) (u : Int) (h : Agree s b D)
    (hu : Valid u) (h0 : 0 ≤ b u) :
    (step s (.de u (-2147483648))).2 = .ok (b u - 2147483648, .none) ∧
    shmAt (step s (.de u (-2147483648))).1 u = some (b u - 2147483648) ∧
    diskAt (step s (.de u (-2147483648))).1 u = some (b u - 2147483648) := by
  obtain ⟨hc, hI⟩ := h.2.1 u hu
  have hI' : Int32 (b u - 2147483648) := by unfold Int32 at *; omega
  have hw1 : wrap32 (- (-2147483648)) = -2147483648 := by
    unfold wrap32; simp only [Int.ofNat_eq_natCast, Int.negSucc_eq]; split <;> omega
  have hw2 : wrap32 (b u + -2147483648) = b u - 2147483648 := by
    rw [wrap32_of_int32 _ (by unfold Int32 at *; omega)]; omega
  have e : deUMoney s u (-2147483648) = setUMoney s u (b u - 2147483648) := by
    unfold deUMoney
    rw [(deGuard_iff u).2 hu]
    simp only [Bool.false_eq_true, if_false, moneyOf_valid s u (b u) hu hc, hw1, hw2]
    rw [if_neg (by omega)]
  have hs := agree_set s b D u (b u - 2147483648) h hu hI'
  simp only [step]
  rw [e]
  refine ⟨hs.1, ?_, ?_⟩
  · rw [(hs.2.2.1 u hu).1]; simp [upd]
  · rw [hs.2.2.2 u hu (Or.inr rfl)]; simp [upd]

/-! #### non-vacuity -/

/-- a well-formed, synced start exists: all balances 0, a zero-filled .PASSWDS of MAX_USERS records. -/
def zeroState : State :=
  { shm := List.replicate MAX 0, file := some (List.replicate (Gen.Money.recSize * MAX) 0) }

theorem zeroState_agree : Agree zeroState (fun _ => 0) (fun _ => True) := by
  refine ⟨⟨by simp [zeroState], _, rfl, by simp⟩, ?_, ?_⟩
  · intro u hu
    obtain ⟨_, hk, _⟩ := valid_bounds u hu
    refine ⟨?_, by show Int32 0; unfold Int32; omega⟩
    show (List.replicate MAX (0 : Int))[(u - 1).toNat]? = some 0
    rw [List.getElem?_replicate, if_pos hk]
  · intro u hu _
    obtain ⟨_, hk, _⟩ := valid_bounds u hu
    have hin := field_inside _ hk
    have e : moneyBytes (List.replicate (Gen.Money.recSize * MAX) 0) u = [0, 0, 0, 0] := by
      unfold moneyBytes
      rw [List.drop_replicate, List.take_replicate]
      have : min 4 (Gen.Money.recSize * MAX - (Gen.Money.recSize * (u - 1).toNat + Gen.Money.moneyOffset)) = 4 := by
        omega
      rw [this]; rfl
    simp only [diskAt, zeroState, Option.bind_some, e, dec32?]
    rfl

/-- a history inside int32 with a credit, a debit below zero, a set at the int32 limit on the last slot and an
operation on an invalid slot. -/
example : NoOverflowRun (fun _ => 0)
    [.de 1 5, .load 1, .de 1 (-7), .sync 1 (List.replicate Gen.Money.recSize 0) 7, .newuser 3 (List.replicate Gen.Money.recSize 0) 25,
     .set (MAX : Int) 2147483647, .de (MAX : Int) (-2147483647), .set 0 9, .get 1] := by
  have hmax : MAX = 50 := by decide
  simp [NoOverflowRun, NoOverflow, specStep, Int32, Valid, upd, deNew, hmax]

example : (∀ u, Valid u → (0 : Int) ≤ (fun _ => (0 : Int)) u) ∧ Valid 1 ∧ Valid (MAX : Int) ∧ ¬ Valid 0 ∧
    ¬ Valid ((MAX : Int) + 1) := by
  have hmax : MAX = 50 := by decide
  simp [Valid, hmax]

end PttVerif.C20.Props
