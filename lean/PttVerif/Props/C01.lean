import PttVerif.Proofs.C01
/-
C01 — Persisted record formats are fixed, padding-free and match pttbbs.
Property theorems only (helper lemmas live in Proofs/C01.lean).

Layout statements are about the field trees regenerated from /repo for BOTH build configurations
(`cfgDefault`, `cfgDocker`: Gen/LayoutDefault.lean, Gen/LayoutDocker.lean) and the hand-written frozen C layouts
(Spec/C01Frozen.lean); they are finite facts checked by kernel evaluation and are re-checked whenever the
source data changes.  The structural theorems (`packed_eq_aligned_of_wellPadded`, `alignUp_least`,
`update_field_frame`, `passwd_update_frame`, `passwd_query_field`, `userLevel2_frame`, `binWrite_image`) are
universal: all layout trees, all files, all slots, all fields, all values.
-/
namespace PttVerif.C01.Props
open PttVerif PttVerif.C01

/-! ### vocabulary -/

/-- the little-endian image `encoding/binary` writes has, field by field and in total, the layout the compiler
gives the struct in memory (`unsafe.Offsetof`, `unsafe.Sizeof`). -/
@[reducible] def PackedEqAligned (c : Config) (name : String) : Prop :=
  (c.ty name).isSome = true ∧ (c.ty name).map Ty.packed = (c.ty name).map Ty.aligned ∧
  (c.ty name).map sizeP = (c.ty name).map sizeA

/-- the in-memory layout (names, offsets, sizes of all fields; total size) is the frozen pttbbs layout. -/
@[reducible] def MatchesFrozen (s : Site) (name : String) : Prop :=
  (s.cfg.ty name).isSome = true ∧ (s.cfg.ty name).map Ty.aligned = (frozenOf s.k name).map Frozen.fields ∧
  (s.cfg.ty name).map sizeA = (frozenOf s.k name).map Frozen.sizeOf

/-- `.fav` entries are written by `types.BinWrite(file, entry, SIZE_OF_…)`: the packed image, then zeros up to
the C `sizeof`.  The packed image is a prefix of the C layout and the padded size is the C size. -/
@[reducible] def FavEntryOK (s : Site) (name szConst : String) : Prop :=
  (s.cfg.ty name).isSome = true ∧ (s.cfg.ty name).map Ty.packed = (frozenOf s.k name).map Frozen.fields ∧
  s.cfg.const szConst = (frozenOf s.k name).map Frozen.sizeOf ∧
  (∀ p ∈ (s.cfg.ty name).map sizeP, ∀ z ∈ s.cfg.const szConst, p ≤ z)

/-- the model's alignment rule reproduces what go/types (gc, amd64) reports for every generated type. -/
def compilerAgrees (c : Config) : Bool :=
  c.types.all fun (n, t) => c.compiler.lookup n == some (sizeA t, alignOf t, t.aligned.map (·.2.1))

/-- the `*_SZ` constants, as evaluated by the Go type checker, are the model's `unsafe.Sizeof`. -/
def szConsts : List (String × String) :=
  [("USEREC_RAW_SZ", "UserecRaw"), ("USEREC2_RAW_SZ", "Userec2Raw"), ("BOARD_HEADER_RAW_SZ", "BoardHeaderRaw"),
   ("FILE_HEADER_RAW_SZ", "FileHeaderRaw"), ("POSTLOG_SZ", "PostLog"), ("SIZE_OF_FAV_BOARD", "FavBoard"),
   ("SIZE_OF_FAV_LINE", "FavLine"), ("SIZE_OF_FAV4_BOARD", "Fav4Board"), ("MSG_QUEUE_RAW_SZ", "MsgQueueRaw"),
   ("USER_INFO_RAW_SZ", "UserInfoRaw"), ("SHM_RAW_SZ", "SHMRaw")]

def constsAgree (c : Config) : Bool :=
  szConsts.all fun (k, n) => (c.const k).isSome && c.const k == (c.ty n).map sizeA

/-- the code of `fn` seeks with the frozen record size as stride to the frozen offset of the intended field. -/
@[reducible] def SeekIsFrozen (s : Site) (fn ty fld : String) (sz off n : Nat) : Prop :=
  s.cfg.seek fn = some ⟨some sz, [(off, n)]⟩ ∧ frozenField s.k ty fld = some (off, n) ∧
  (frozenOf s.k ty).map Frozen.sizeOf = some sz ∧ off + n ≤ sz

/-! ### the alignment rule -/

/-- `alignUp x a` is the least multiple of `a` that is `≥ x` (what the compiler pads to). -/
theorem alignUp_least (x a : Nat) (ha : 0 < a) :
    x ≤ alignUp x a ∧ alignUp x a % a = 0 ∧ ∀ y, x ≤ y → y % a = 0 → alignUp x a ≤ y :=
  ⟨alignUp_ge x a, alignUp_dvd x a ha, fun y h1 h2 => C01.alignUp_least x a y ha h1 h2⟩

/-- UNIVERSAL: for any layout tree in which (at every nesting level) every field starts at a multiple of its
alignment in the packed image and the packed size of every struct is a multiple of its alignment, the packed
image and the memory layout coincide: same size, and for a struct the same offset and size for every field.
This is why the explicit `Pad*`/`Gap*` fields work. -/
theorem packed_eq_aligned_of_wellPadded (t : Ty) (h : wellPadded t = true) :
    sizeA t = sizeP t ∧ t.aligned = t.packed := by
  refine ⟨sizeA_eq_sizeP_of_wellPadded t h, ?_⟩
  cases t with
  | prim s a => rfl
  | arr n e => rfl
  | struct fs =>
    simp only [wellPadded, Bool.and_eq_true] at h
    exact (layout_of_wellPaddedFrom fs 0 h.1).2

/-- non-vacuity, and the converse direction on an example: one unpadded byte before an int32 is rejected. -/
example : wellPadded (.struct [("a", .prim 1 1), ("pad", .arr 3 (.prim 1 1)), ("b", .prim 4 4)]) = true ∧
    wellPadded (.struct [("a", .prim 1 1), ("b", .prim 4 4)]) = false := by decide

/-! ### configuration `default` -/

/-- every disk record type of this configuration satisfies the hypothesis of the universal theorem. -/
theorem wellPadded_disk_types_default :
    ∀ n ∈ ["UserecRaw", "Userec2Raw", "BoardHeaderRaw", "FileHeaderRaw", "PostLog"], ((cfgDefault.ty n).map wellPadded) = some true := by decide +kernel

theorem packed_eq_aligned_UserecRaw_default : PackedEqAligned cfgDefault "UserecRaw" := by decide +kernel
theorem packed_eq_aligned_Userec2Raw_default : PackedEqAligned cfgDefault "Userec2Raw" := by decide +kernel
theorem packed_eq_aligned_BoardHeaderRaw_default : PackedEqAligned cfgDefault "BoardHeaderRaw" := by decide +kernel
theorem packed_eq_aligned_FileHeaderRaw_default : PackedEqAligned cfgDefault "FileHeaderRaw" := by decide +kernel
theorem packed_eq_aligned_PostLog_default : PackedEqAligned cfgDefault "PostLog" := by decide +kernel

theorem fav_entry_FavBoard_default : FavEntryOK siteDefault "FavBoard" "SIZE_OF_FAV_BOARD" := by decide +kernel
theorem fav_entry_FavLine_default : FavEntryOK siteDefault "FavLine" "SIZE_OF_FAV_LINE" := by decide +kernel
theorem fav_entry_Fav4Board_default : FavEntryOK siteDefault "Fav4Board" "SIZE_OF_FAV4_BOARD" := by decide +kernel

/-- the alignment rule of the model = the compiler's (go/types gc/amd64 Sizeof, Alignof, Offsetsof), all types. -/
theorem aligned_eq_compiler_default : compilerAgrees cfgDefault = true := by decide +kernel
theorem consts_eq_model_default : constsAgree cfgDefault = true := by decide +kernel

theorem matches_frozen_UserecRaw_default : MatchesFrozen siteDefault "UserecRaw" := by decide +kernel
theorem matches_frozen_Userec2Raw_default : MatchesFrozen siteDefault "Userec2Raw" := by decide +kernel
theorem matches_frozen_BoardHeaderRaw_default : MatchesFrozen siteDefault "BoardHeaderRaw" := by decide +kernel
theorem matches_frozen_FileHeaderRaw_default : MatchesFrozen siteDefault "FileHeaderRaw" := by decide +kernel
theorem matches_frozen_PostLog_default : MatchesFrozen siteDefault "PostLog" := by decide +kernel
theorem matches_frozen_FavBoard_default : MatchesFrozen siteDefault "FavBoard" := by decide +kernel
theorem matches_frozen_FavLine_default : MatchesFrozen siteDefault "FavLine" := by decide +kernel
theorem matches_frozen_Fav4Board_default : MatchesFrozen siteDefault "Fav4Board" := by decide +kernel
theorem matches_frozen_MsgQueueRaw_default : MatchesFrozen siteDefault "MsgQueueRaw" := by decide +kernel
theorem matches_frozen_UserInfoRaw_default : MatchesFrozen siteDefault "UserInfoRaw" := by decide +kernel
theorem matches_frozen_shmGV2_default : MatchesFrozen siteDefault "shmGV2" := by decide +kernel
theorem matches_frozen_SHMRaw_default : MatchesFrozen siteDefault "SHMRaw" := by decide +kernel

/-- "files written by either implementation are read back field for field by the other": for every record type
that is serialised whole, the image `encoding/binary` reads and writes has exactly the frozen pttbbs members
(names, offsets, sizes) and the frozen total size. -/
theorem disk_images_interchangeable_default :
    ∀ n ∈ ["UserecRaw", "Userec2Raw", "BoardHeaderRaw", "FileHeaderRaw", "PostLog"],
      (cfgDefault.ty n).isSome = true ∧ (cfgDefault.ty n).map Ty.packed = (frozenOf kDefault n).map Frozen.fields ∧
      (cfgDefault.ty n).map sizeP = (frozenOf kDefault n).map Frozen.sizeOf := by decide +kernel

/-- every package-level constant defined as `unsafe.Offsetof(X.Field)` (the `BOARD_HEADER_*_OFFSET` and
`USER_INFO_*_OFFSET` used for direct shared-memory access) has the frozen pttbbs offset of that member. -/
theorem offset_consts_frozen_default :
    ∀ e ∈ cfgDefault.offsetConsts, (frozenField kDefault e.2.1 e.2.2.1).map (·.1) = some e.2.2.2 := by decide +kernel

/-- third opinion: the value the Go type checker computes for every `unsafe.Offsetof` in the partial-update
functions is the model's aligned offset of that field. -/
theorem offsetof_values_default :
    ∀ u ∈ cfgDefault.updates, ∀ o ∈ u.2.2, (cfgDefault.offsetof o.1 o.2.1).map (·.1) = some o.2.2 := by decide +kernel

/-- the documented record sizes. -/
theorem disk_sizes_default :
    ["UserecRaw", "Userec2Raw", "BoardHeaderRaw", "FileHeaderRaw", "PostLog", "FavBoard"].map (fun n => (cfgDefault.ty n).map sizeA) =
      [some 512, some 128, some 256, some 128, some 100, some 12] := by decide +kernel
theorem msgQueue_size_default : (cfgDefault.ty "MsgQueueRaw").map sizeA = some 100 := by decide +kernel

/-! ### configuration `docker` -/

/-- every disk record type of this configuration satisfies the hypothesis of the universal theorem. -/
theorem wellPadded_disk_types_docker :
    ∀ n ∈ ["UserecRaw", "Userec2Raw", "BoardHeaderRaw", "FileHeaderRaw", "PostLog"], ((cfgDocker.ty n).map wellPadded) = some true := by decide +kernel

theorem packed_eq_aligned_UserecRaw_docker : PackedEqAligned cfgDocker "UserecRaw" := by decide +kernel
theorem packed_eq_aligned_Userec2Raw_docker : PackedEqAligned cfgDocker "Userec2Raw" := by decide +kernel
theorem packed_eq_aligned_BoardHeaderRaw_docker : PackedEqAligned cfgDocker "BoardHeaderRaw" := by decide +kernel
theorem packed_eq_aligned_FileHeaderRaw_docker : PackedEqAligned cfgDocker "FileHeaderRaw" := by decide +kernel
theorem packed_eq_aligned_PostLog_docker : PackedEqAligned cfgDocker "PostLog" := by decide +kernel

theorem fav_entry_FavBoard_docker : FavEntryOK siteDocker "FavBoard" "SIZE_OF_FAV_BOARD" := by decide +kernel
theorem fav_entry_FavLine_docker : FavEntryOK siteDocker "FavLine" "SIZE_OF_FAV_LINE" := by decide +kernel
theorem fav_entry_Fav4Board_docker : FavEntryOK siteDocker "Fav4Board" "SIZE_OF_FAV4_BOARD" := by decide +kernel

/-- the alignment rule of the model = the compiler's (go/types gc/amd64 Sizeof, Alignof, Offsetsof), all types. -/
theorem aligned_eq_compiler_docker : compilerAgrees cfgDocker = true := by decide +kernel
theorem consts_eq_model_docker : constsAgree cfgDocker = true := by decide +kernel

theorem matches_frozen_UserecRaw_docker : MatchesFrozen siteDocker "UserecRaw" := by decide +kernel
theorem matches_frozen_Userec2Raw_docker : MatchesFrozen siteDocker "Userec2Raw" := by decide +kernel
theorem matches_frozen_BoardHeaderRaw_docker : MatchesFrozen siteDocker "BoardHeaderRaw" := by decide +kernel
theorem matches_frozen_FileHeaderRaw_docker : MatchesFrozen siteDocker "FileHeaderRaw" := by decide +kernel
theorem matches_frozen_PostLog_docker : MatchesFrozen siteDocker "PostLog" := by decide +kernel
theorem matches_frozen_FavBoard_docker : MatchesFrozen siteDocker "FavBoard" := by decide +kernel
theorem matches_frozen_FavLine_docker : MatchesFrozen siteDocker "FavLine" := by decide +kernel
theorem matches_frozen_Fav4Board_docker : MatchesFrozen siteDocker "Fav4Board" := by decide +kernel
theorem matches_frozen_MsgQueueRaw_docker : MatchesFrozen siteDocker "MsgQueueRaw" := by decide +kernel
theorem matches_frozen_UserInfoRaw_docker : MatchesFrozen siteDocker "UserInfoRaw" := by decide +kernel
theorem matches_frozen_shmGV2_docker : MatchesFrozen siteDocker "shmGV2" := by decide +kernel
theorem matches_frozen_SHMRaw_docker : MatchesFrozen siteDocker "SHMRaw" := by decide +kernel

/-- "files written by either implementation are read back field for field by the other": for every record type
that is serialised whole, the image `encoding/binary` reads and writes has exactly the frozen pttbbs members
(names, offsets, sizes) and the frozen total size. -/
theorem disk_images_interchangeable_docker :
    ∀ n ∈ ["UserecRaw", "Userec2Raw", "BoardHeaderRaw", "FileHeaderRaw", "PostLog"],
      (cfgDocker.ty n).isSome = true ∧ (cfgDocker.ty n).map Ty.packed = (frozenOf kDocker n).map Frozen.fields ∧
      (cfgDocker.ty n).map sizeP = (frozenOf kDocker n).map Frozen.sizeOf := by decide +kernel

/-- every package-level constant defined as `unsafe.Offsetof(X.Field)` (the `BOARD_HEADER_*_OFFSET` and
`USER_INFO_*_OFFSET` used for direct shared-memory access) has the frozen pttbbs offset of that member. -/
theorem offset_consts_frozen_docker :
    ∀ e ∈ cfgDocker.offsetConsts, (frozenField kDocker e.2.1 e.2.2.1).map (·.1) = some e.2.2.2 := by decide +kernel

/-- third opinion: the value the Go type checker computes for every `unsafe.Offsetof` in the partial-update
functions is the model's aligned offset of that field. -/
theorem offsetof_values_docker :
    ∀ u ∈ cfgDocker.updates, ∀ o ∈ u.2.2, (cfgDocker.offsetof o.1 o.2.1).map (·.1) = some o.2.2 := by decide +kernel

/-- the documented record sizes. -/
theorem disk_sizes_docker :
    ["UserecRaw", "Userec2Raw", "BoardHeaderRaw", "FileHeaderRaw", "PostLog", "FavBoard"].map (fun n => (cfgDocker.ty n).map sizeA) =
      [some 512, some 128, some 256, some 128, some 100, some 12] := by decide +kernel
theorem msgQueue_size_docker : (cfgDocker.ty "MsgQueueRaw").map sizeA = some 100 := by decide +kernel

/-- under the production constants a shared-memory user slot is 3484 bytes. -/
theorem userInfo_size_docker : (cfgDocker.ty "UserInfoRaw").map sizeA = some 3484 := by decide +kernel

/-- … and those constants are the ones pttbbs production runs with. -/
theorem docker_userinfo_constants :
    [cfgDocker.const "MAX_FRIEND", cfgDocker.const "MAX_REJECT", cfgDocker.const "MAX_MSGS"] =
      [some 256, some 32, some 10] := by decide +kernel

/-- `MsgQueueRaw`/`UserInfoRaw` are NOT padding-free (97 vs 100 bytes): they are only ever overlaid on shared
memory, never serialised, so only `matches_frozen_*` is claimed for them. -/
example : (cfgDefault.ty "MsgQueueRaw").map sizeP = some 97 := by decide +kernel

/-! ### single-field updates -/

/-- UNIVERSAL over files, strides, slots, field positions and values: seeking to
`sz*(u-1) + off` in a file that holds slot `u` and writing `b` (which fits inside the record)
keeps the length, changes nothing outside `[pos, pos+|b|)`, leaves every other record as it was, and inside
record `u` puts `b` at `off` and keeps every byte range disjoint from the field. -/
theorem update_field_frame (f : List Nat) (sz u off : Nat) (b : List Nat)
    (hu : 1 ≤ u) (hfit : off + b.length ≤ sz) (hin : u * sz ≤ f.length) :
    (writeAt f (seekPos sz u off) b).length = f.length ∧
    (∀ i, (i < seekPos sz u off ∨ seekPos sz u off + b.length ≤ i) →
        (writeAt f (seekPos sz u off) b)[i]? = f[i]?) ∧
    (∀ j, j < b.length → (writeAt f (seekPos sz u off) b)[seekPos sz u off + j]? = b[j]?) ∧
    (∀ v, v ≠ u - 1 → slot (writeAt f (seekPos sz u off) b) sz v = slot f sz v) ∧
    fieldBytes (slot (writeAt f (seekPos sz u off) b) sz (u - 1)) off b.length = b ∧
    (∀ o n, (o + n ≤ off ∨ off + b.length ≤ o) →
        fieldBytes (slot (writeAt f (seekPos sz u off) b) sz (u - 1)) o n = fieldBytes (slot f sz (u - 1)) o n) := by
  obtain ⟨w, rfl⟩ : ∃ w, u = w + 1 := ⟨u - 1, by omega⟩
  simp only [seekPos, Nat.add_sub_cancel]
  have hm : (w + 1) * sz = w * sz + sz := Nat.succ_mul w sz
  have hc : sz * w = w * sz := Nat.mul_comm sz w
  obtain ⟨h1, h2, h3⟩ := slot_frame f sz w off b hfit hin
  have hsl : (slot f sz w).length = sz := by simp [slot]; omega
  have hr := record_frame (slot f sz w) off b (by omega)
  refine ⟨h1, ?_, ?_, h2, ?_, ?_⟩
  · intro i hi; exact writeAt_outside f _ b (by omega) i hi
  · intro j hj; exact writeAt_inside f _ b j hj
  · rw [h3]; exact hr.1
  · intro o n hd; rw [h3]; exact hr.2 o n hd

/-- non-vacuity of `update_field_frame`: slot 2 of a three-record file of stride 8. -/
example : writeAt (List.replicate 24 7) (seekPos 8 2 3) [1, 2] =
    [7,7,7,7,7,7,7,7, 7,7,7,1,2,7,7,7, 7,7,7,7,7,7,7,7] := by decide

/-- every partial update of the tree seeks with the stride and to the field(s) it is meant to
(`Frozen.intended`), as read from the function bodies by the translator; offsets and strides are the frozen
C ones. -/
theorem seek_matches_intended_default :
    ∀ e ∈ Frozen.intended,
      cfgDefault.seek e.1 = some ⟨e.2.2.1.bind cfgDefault.const, e.2.2.2.filterMap (frozenField kDefault e.2.1)⟩ ∧
      (e.2.2.2.filterMap (frozenField kDefault e.2.1)).length = e.2.2.2.length ∧
      (∀ s ∈ e.2.2.1, cfgDefault.const s = (frozenOf kDefault e.2.1).map Frozen.sizeOf) := by decide +kernel

/-- every partial update of the tree seeks with the stride and to the field(s) it is meant to
(`Frozen.intended`), as read from the function bodies by the translator; offsets and strides are the frozen
C ones. -/
theorem seek_matches_intended_docker :
    ∀ e ∈ Frozen.intended,
      cfgDocker.seek e.1 = some ⟨e.2.2.1.bind cfgDocker.const, e.2.2.2.filterMap (frozenField kDocker e.2.1)⟩ ∧
      (e.2.2.2.filterMap (frozenField kDocker e.2.1)).length = e.2.2.2.length ∧
      (∀ s ∈ e.2.2.1, cfgDocker.const s = (frozenOf kDocker e.2.1).map Frozen.sizeOf) := by decide +kernel

/-- cmbbs.PasswdUpdatePasswd / PasswdUpdateEmail / cache.passwdUpdateMoney: whenever the call succeeds the
uid was valid, and (if the file holds that user's record) the file keeps its length, every other user's record
is unchanged, the target field — at its frozen pttbbs offset — holds the new value and every byte range of that
user's record outside the field is unchanged.  All files, all uids, all values. -/
theorem passwd_update_frame (s : Site) (fn fld : String) (sz off n : Nat)
    (hs : SeekIsFrozen s fn "UserecRaw" fld sz off n)
    (f : List Nat) (uid : Int) (b f' : List Nat)
    (h : passwdWrite s.cfg fn f uid b = some f') :
    ∃ u : Nat, uid = (u : Int) ∧ 1 ≤ u ∧ b.length = n ∧
      (u * sz ≤ f.length →
        f'.length = f.length ∧
        (∀ v, v ≠ u - 1 → slot f' sz v = slot f sz v) ∧
        fieldBytes (slot f' sz (u - 1)) off n = b ∧
        ∀ o m, (o + m ≤ off ∨ off + n ≤ o) →
          fieldBytes (slot f' sz (u - 1)) o m = fieldBytes (slot f sz (u - 1)) o m) := by
  obtain ⟨hseek, _, _, hfit⟩ := hs
  obtain ⟨u, hu, hb, rfl⟩ := passwdWrite_some s.cfg fn f uid b f' sz off n hseek h
  obtain ⟨h1, h2, _⟩ := validUid_some s.cfg uid u hu
  refine ⟨u, h1, h2, hb, fun hin => ?_⟩
  subst hb
  obtain ⟨a1, _, _, a4, a5, a6⟩ := update_field_frame f sz u off b h2 hfit hin
  exact ⟨a1, a4, a5, a6⟩

/-- an invalid uid never touches the file. -/
theorem passwd_update_invalid (c : Config) (fn : String) (f : List Nat) (uid : Int) (b : List Nat)
    (h : validUid c uid = none) : passwdWrite c fn f uid b = none := by
  simp [passwdWrite, h]

/-- `uid.IsValid()`: exactly the uids `1 … MAX_USERS`. -/
theorem validUid_iff (c : Config) (m : Nat) (hm : c.const "MAX_USERS" = some m) (uid : Int) (u : Nat) :
    validUid c uid = some u ↔ uid = (u : Int) ∧ 1 ≤ u ∧ u ≤ m := by
  constructor
  · intro h
    obtain ⟨h1, h2, m', hm', h3⟩ := validUid_some c uid u h
    rw [hm] at hm'; cases hm'
    exact ⟨h1, h2, h3⟩
  · rintro ⟨rfl, h2, h3⟩
    show validUid c (Int.ofNat u) = some u
    simp [validUid, hm, h2, h3]

/-- cmbbs.PasswdQueryPasswd / PasswdQueryUserLevel return exactly the field — at its frozen pttbbs offset — of
the record the whole-record reader cmbbs.PasswdQuery returns: the partial and the whole reader agree. -/
theorem passwd_query_field (s : Site) (fn fld : String) (sz off n : Nat) (t : Ty)
    (hs : SeekIsFrozen s fn "UserecRaw" fld sz off n)
    (hq : s.cfg.seek "cmbbs.PasswdQuery" = some ⟨some sz, []⟩) (ht : s.cfg.ty "UserecRaw" = some t)
    (hsz : sizeP t = sz)
    (f : List Nat) (uid : Int) (r : List Nat) (h : passwdQuery s.cfg f uid = some r) :
    passwdRead s.cfg fn f uid = some (fieldBytes r off n) := by
  obtain ⟨hseek, _, _, hfit⟩ := hs
  cases hu : validUid s.cfg uid with
  | none => simp [passwdQuery, hu] at h
  | some u =>
    rw [passwdQuery_eq s.cfg f uid u sz t hq ht hu, hsz] at h
    rw [passwdRead_eq s.cfg fn f uid u sz off n hseek hu]
    have := readAt_field f (seekPos sz u 0) sz off n r hfit h
    simpa [seekPos, Nat.add_assoc] using this

/-! instances for configuration `default`: stride and field are the ones the translator read out of the source -/

theorem passwdUpdatePasswd_seek_default : SeekIsFrozen siteDefault "cmbbs.PasswdUpdatePasswd" "UserecRaw" "PasswdHash" 512 61 14 := by decide +kernel
theorem passwdUpdatePasswd_frame_default (f : List Nat) (uid : Int) (b f' : List Nat)
    (h : passwdWrite cfgDefault "cmbbs.PasswdUpdatePasswd" f uid b = some f') :
    ∃ u : Nat, uid = (u : Int) ∧ 1 ≤ u ∧ b.length = 14 ∧
      (u * 512 ≤ f.length →
        f'.length = f.length ∧
        (∀ v, v ≠ u - 1 → slot f' 512 v = slot f 512 v) ∧
        fieldBytes (slot f' 512 (u - 1)) 61 14 = b ∧
        ∀ o m, (o + m ≤ 61 ∨ 61 + 14 ≤ o) →
          fieldBytes (slot f' 512 (u - 1)) o m = fieldBytes (slot f 512 (u - 1)) o m) :=
  passwd_update_frame siteDefault _ _ 512 61 14 passwdUpdatePasswd_seek_default f uid b f' h

theorem passwdUpdateEmail_seek_default : SeekIsFrozen siteDefault "cmbbs.PasswdUpdateEmail" "UserecRaw" "Email" 512 128 50 := by decide +kernel
theorem passwdUpdateEmail_frame_default (f : List Nat) (uid : Int) (b f' : List Nat)
    (h : passwdWrite cfgDefault "cmbbs.PasswdUpdateEmail" f uid b = some f') :
    ∃ u : Nat, uid = (u : Int) ∧ 1 ≤ u ∧ b.length = 50 ∧
      (u * 512 ≤ f.length →
        f'.length = f.length ∧
        (∀ v, v ≠ u - 1 → slot f' 512 v = slot f 512 v) ∧
        fieldBytes (slot f' 512 (u - 1)) 128 50 = b ∧
        ∀ o m, (o + m ≤ 128 ∨ 128 + 50 ≤ o) →
          fieldBytes (slot f' 512 (u - 1)) o m = fieldBytes (slot f 512 (u - 1)) o m) :=
  passwd_update_frame siteDefault _ _ 512 128 50 passwdUpdateEmail_seek_default f uid b f' h

theorem passwdUpdateMoney_seek_default : SeekIsFrozen siteDefault "cache.passwdUpdateMoney" "UserecRaw" "Money" 512 120 4 := by decide +kernel
theorem passwdUpdateMoney_frame_default (f : List Nat) (uid : Int) (b f' : List Nat)
    (h : passwdWrite cfgDefault "cache.passwdUpdateMoney" f uid b = some f') :
    ∃ u : Nat, uid = (u : Int) ∧ 1 ≤ u ∧ b.length = 4 ∧
      (u * 512 ≤ f.length →
        f'.length = f.length ∧
        (∀ v, v ≠ u - 1 → slot f' 512 v = slot f 512 v) ∧
        fieldBytes (slot f' 512 (u - 1)) 120 4 = b ∧
        ∀ o m, (o + m ≤ 120 ∨ 120 + 4 ≤ o) →
          fieldBytes (slot f' 512 (u - 1)) o m = fieldBytes (slot f 512 (u - 1)) o m) :=
  passwd_update_frame siteDefault _ _ 512 120 4 passwdUpdateMoney_seek_default f uid b f' h

theorem passwdQueryPasswd_seek_default : SeekIsFrozen siteDefault "cmbbs.PasswdQueryPasswd" "UserecRaw" "PasswdHash" 512 61 14 := by decide +kernel
theorem passwdQueryPasswd_field_default (f : List Nat) (uid : Int) (r : List Nat) (h : passwdQuery cfgDefault f uid = some r) :
    passwdRead cfgDefault "cmbbs.PasswdQueryPasswd" f uid = some (fieldBytes r 61 14) :=
  passwd_query_field siteDefault _ _ 512 61 14 _ passwdQueryPasswd_seek_default (by decide +kernel) rfl (by decide +kernel) f uid r h

theorem passwdQueryUserLevel_seek_default : SeekIsFrozen siteDefault "cmbbs.PasswdQueryUserLevel" "UserecRaw" "UserLevel" 512 84 4 := by decide +kernel
theorem passwdQueryUserLevel_field_default (f : List Nat) (uid : Int) (r : List Nat) (h : passwdQuery cfgDefault f uid = some r) :
    passwdRead cfgDefault "cmbbs.PasswdQueryUserLevel" f uid = some (fieldBytes r 84 4) :=
  passwd_query_field siteDefault _ _ 512 84 4 _ passwdQueryUserLevel_seek_default (by decide +kernel) rfl (by decide +kernel) f uid r h

/-! instances for configuration `docker`: stride and field are the ones the translator read out of the source -/

theorem passwdUpdatePasswd_seek_docker : SeekIsFrozen siteDocker "cmbbs.PasswdUpdatePasswd" "UserecRaw" "PasswdHash" 512 61 14 := by decide +kernel
theorem passwdUpdatePasswd_frame_docker (f : List Nat) (uid : Int) (b f' : List Nat)
    (h : passwdWrite cfgDocker "cmbbs.PasswdUpdatePasswd" f uid b = some f') :
    ∃ u : Nat, uid = (u : Int) ∧ 1 ≤ u ∧ b.length = 14 ∧
      (u * 512 ≤ f.length →
        f'.length = f.length ∧
        (∀ v, v ≠ u - 1 → slot f' 512 v = slot f 512 v) ∧
        fieldBytes (slot f' 512 (u - 1)) 61 14 = b ∧
        ∀ o m, (o + m ≤ 61 ∨ 61 + 14 ≤ o) →
          fieldBytes (slot f' 512 (u - 1)) o m = fieldBytes (slot f 512 (u - 1)) o m) :=
  passwd_update_frame siteDocker _ _ 512 61 14 passwdUpdatePasswd_seek_docker f uid b f' h

theorem passwdUpdateEmail_seek_docker : SeekIsFrozen siteDocker "cmbbs.PasswdUpdateEmail" "UserecRaw" "Email" 512 128 50 := by decide +kernel
theorem passwdUpdateEmail_frame_docker (f : List Nat) (uid : Int) (b f' : List Nat)
    (h : passwdWrite cfgDocker "cmbbs.PasswdUpdateEmail" f uid b = some f') :
    ∃ u : Nat, uid = (u : Int) ∧ 1 ≤ u ∧ b.length = 50 ∧
      (u * 512 ≤ f.length →
        f'.length = f.length ∧
        (∀ v, v ≠ u - 1 → slot f' 512 v = slot f 512 v) ∧
        fieldBytes (slot f' 512 (u - 1)) 128 50 = b ∧
        ∀ o m, (o + m ≤ 128 ∨ 128 + 50 ≤ o) →
          fieldBytes (slot f' 512 (u - 1)) o m = fieldBytes (slot f 512 (u - 1)) o m) :=
  passwd_update_frame siteDocker _ _ 512 128 50 passwdUpdateEmail_seek_docker f uid b f' h

theorem passwdUpdateMoney_seek_docker : SeekIsFrozen siteDocker "cache.passwdUpdateMoney" "UserecRaw" "Money" 512 120 4 := by decide +kernel
theorem passwdUpdateMoney_frame_docker (f : List Nat) (uid : Int) (b f' : List Nat)
    (h : passwdWrite cfgDocker "cache.passwdUpdateMoney" f uid b = some f') :
    ∃ u : Nat, uid = (u : Int) ∧ 1 ≤ u ∧ b.length = 4 ∧
      (u * 512 ≤ f.length →
        f'.length = f.length ∧
        (∀ v, v ≠ u - 1 → slot f' 512 v = slot f 512 v) ∧
        fieldBytes (slot f' 512 (u - 1)) 120 4 = b ∧
        ∀ o m, (o + m ≤ 120 ∨ 120 + 4 ≤ o) →
          fieldBytes (slot f' 512 (u - 1)) o m = fieldBytes (slot f 512 (u - 1)) o m) :=
  passwd_update_frame siteDocker _ _ 512 120 4 passwdUpdateMoney_seek_docker f uid b f' h

theorem passwdQueryPasswd_seek_docker : SeekIsFrozen siteDocker "cmbbs.PasswdQueryPasswd" "UserecRaw" "PasswdHash" 512 61 14 := by decide +kernel
theorem passwdQueryPasswd_field_docker (f : List Nat) (uid : Int) (r : List Nat) (h : passwdQuery cfgDocker f uid = some r) :
    passwdRead cfgDocker "cmbbs.PasswdQueryPasswd" f uid = some (fieldBytes r 61 14) :=
  passwd_query_field siteDocker _ _ 512 61 14 _ passwdQueryPasswd_seek_docker (by decide +kernel) rfl (by decide +kernel) f uid r h

theorem passwdQueryUserLevel_seek_docker : SeekIsFrozen siteDocker "cmbbs.PasswdQueryUserLevel" "UserecRaw" "UserLevel" 512 84 4 := by decide +kernel
theorem passwdQueryUserLevel_field_docker (f : List Nat) (uid : Int) (r : List Nat) (h : passwdQuery cfgDocker f uid = some r) :
    passwdRead cfgDocker "cmbbs.PasswdQueryUserLevel" f uid = some (fieldBytes r 84 4) :=
  passwd_query_field siteDocker _ _ 512 84 4 _ passwdQueryUserLevel_seek_docker (by decide +kernel) rfl (by decide +kernel) f uid r h

/-- non-vacuity: the update succeeds on a two-record file, and the query pair returns a value. -/
example : (passwdWrite cfgDefault "cmbbs.PasswdUpdatePasswd" (List.replicate 1024 7) 2 (List.replicate 14 1)).isSome = true ∧
    (passwdQuery cfgDocker (List.replicate 1024 7) 2).isSome = true := by decide +kernel

/-! ### whole records -/

/-- cmbbs.PasswdUpdate (whole-record writer): a successful call rewrites exactly that user's record. -/
theorem passwd_record_update_frame (c : Config) (sz : Nat) (t : Ty)
    (hs : c.seek "cmbbs.PasswdUpdate" = some ⟨some sz, []⟩) (ht : c.ty "UserecRaw" = some t) (hsz : sizeP t = sz)
    (f : List Nat) (uid : Int) (r f' : List Nat) (h : passwdUpdate c f uid r = some f') :
    ∃ u : Nat, uid = (u : Int) ∧ 1 ≤ u ∧ r.length = sz ∧
      (u * sz ≤ f.length →
        f'.length = f.length ∧ (∀ v, v ≠ u - 1 → slot f' sz v = slot f sz v) ∧ slot f' sz (u - 1) = r) := by
  obtain ⟨u, hu, hr, rfl⟩ := passwdUpdate_some c f uid r f' sz t hs ht h
  obtain ⟨h1, h2, _⟩ := validUid_some c uid u hu
  rw [hsz] at hr
  refine ⟨u, h1, h2, hr, fun hin => ?_⟩
  obtain ⟨a1, _, _, a4, a5, _⟩ := update_field_frame f sz u 0 r h2 (by omega) hin
  refine ⟨a1, a4, ?_⟩
  have hl : (slot (writeAt f (seekPos sz u 0) r) sz (u - 1)).length = sz := by
    have hm : u * sz = (u - 1) * sz + sz := by
      obtain ⟨w, rfl⟩ : ∃ w, u = w + 1 := ⟨u - 1, by omega⟩
      simp [Nat.succ_mul]
    simp [slot, a1]; omega
  have : fieldBytes (slot (writeAt f (seekPos sz u 0) r) sz (u - 1)) 0 r.length
      = slot (writeAt f (seekPos sz u 0) r) sz (u - 1) := by
    rw [hr]; unfold fieldBytes
    rw [List.drop_zero]; exact List.take_of_length_le (by omega)
  rw [← this]; exact a5

theorem passwdUpdate_frame_default (f : List Nat) (uid : Int) (r f' : List Nat)
    (h : passwdUpdate cfgDefault f uid r = some f') :
    ∃ u : Nat, uid = (u : Int) ∧ 1 ≤ u ∧ r.length = 512 ∧
      (u * 512 ≤ f.length →
        f'.length = f.length ∧ (∀ v, v ≠ u - 1 → slot f' 512 v = slot f 512 v) ∧ slot f' 512 (u - 1) = r) :=
  passwd_record_update_frame cfgDefault 512 _ (by decide +kernel) rfl (by decide +kernel) f uid r f' h

theorem passwdUpdate_frame_docker (f : List Nat) (uid : Int) (r f' : List Nat)
    (h : passwdUpdate cfgDocker f uid r = some f') :
    ∃ u : Nat, uid = (u : Int) ∧ 1 ≤ u ∧ r.length = 512 ∧
      (u * 512 ≤ f.length →
        f'.length = f.length ∧ (∀ v, v ≠ u - 1 → slot f' 512 v = slot f 512 v) ∧ slot f' 512 (u - 1) = r) :=
  passwd_record_update_frame cfgDocker 512 _ (by decide +kernel) rfl (by decide +kernel) f uid r f' h

/-- UNIVERSAL (all layout trees, fields, values, sizes): the image `types.BinWrite` produces for a zero struct
with one field set has the requested total length, carries the value at the field's packed offset and is
zero everywhere else — so a reader that slices the same (offset, size) gets the value back, which by
`disk_images_interchangeable_*` / `fav_entry_*` is what pttbbs does. -/
theorem binWrite_image (t : Ty) (i : Nat) (val : List Nat) (total : Nat) (img : List Nat)
    (name : String) (off n : Nat) (hf : t.packed[i]? = some (name, off, n))
    (h : writeFieldPacked t i val total = some img) :
    img.length = total ∧ fieldBytes img off n = val ∧
    ∀ j, (j < off ∨ off + n ≤ j) → j < total → img[j]? = some 0 := by
  have hb := packed_field_bound t i _ hf
  simp only at hb
  unfold writeFieldPacked at h
  simp only [hf] at h
  split at h
  · cases h
  · rename_i hv
    split at h
    · cases h
    · rename_i ht
      simp only [Option.some.injEq] at h
      have hv' : val.length = n := by simpa using hv
      have hz : (List.replicate (sizeP t) 0).length = sizeP t := by simp
      have hw : (writeAt (List.replicate (sizeP t) 0) off val).length = sizeP t := by
        rw [writeAt_length_of_le _ _ _ (by rw [hz]; omega), hz]
      subst h
      refine ⟨by simp [hw]; omega, ?_, ?_⟩
      · apply List.ext_getElem?
        intro k
        rw [fieldBytes_getElem?]
        by_cases hk : k < n
        · simp only [hk, if_true]
          rw [List.getElem?_append_left (by rw [hw]; omega)]
          exact writeAt_inside _ off val k (by omega)
        · simp only [hk, if_false]
          rw [List.getElem?_eq_none (by omega)]
      · intro j hj hjt
        by_cases hjs : j < sizeP t
        · rw [List.getElem?_append_left (by rw [hw]; exact hjs),
            writeAt_outside _ off val (by rw [hz]; omega) j (by omega)]
          simp [hjs]
        · rw [List.getElem?_append_right (by rw [hw]; omega), hw, List.getElem?_replicate]
          rw [if_pos (by omega)]

/-- non-vacuity: the 12-byte `.fav` board entry with `Attr` set. -/
example : writeFieldPacked Gen.LayoutDefault.tFavBoard 2 [1] 12 = some [0,0,0,0, 0,0,0,0, 1, 0,0,0] := by
  decide +kernel

/-! ### `.passwd2` (level-2 permissions) -/

/-- cmbbs.PasswdUpdateUserLevel2: the file is first brought to exactly one 128-byte record (`f1`: created, or
zero-extended; a longer file is refused); the call then rewrites exactly bytes [4,8) (the level: old bits with
`perm` set or cleared) and [8,12) (the update time stamp) of it and nothing else. -/
theorem userLevel2_frame (c : Config) (ver : Nat) (f : Option (List Nat)) (perm : Nat) (isSet : Bool) (ts : Nat)
    (f' : List Nat)
    (hs : c.seek "cmbbs.PasswdUpdateUserLevel2" = some ⟨none, [(4, 4), (4, 4), (8, 4)]⟩)
    (hsz : c.const "USEREC2_RAW_SZ" = some 128) (ht : (c.ty "Userec2Raw").map sizeP = some 128)
    (h : updateUserLevel2 c ver f perm isSet ts = some f') :
    ∃ f1, checkPasswd2 c ver f = some f1 ∧ f1.length = 128 ∧ f'.length = 128 ∧
      (∀ bytes, f = some bytes → f1 = bytes ++ List.replicate (128 - bytes.length) 0) ∧
      (∀ i, (i < 4 ∨ 12 ≤ i) → f'[i]? = f1[i]?) ∧
      fieldBytes f' 8 4 = le32 ts ∧
      fieldBytes f' 4 4 = le32 (if isSet then unLe32 (fieldBytes f1 4 4) ||| perm
                                else unLe32 (fieldBytes f1 4 4) &&& (4294967295 - perm)) := by
  unfold updateUserLevel2 at h
  cases h1 : checkPasswd2 c ver f with
  | none => simp [h1] at h
  | some f1 =>
    have hlen : f1.length = 128 ∧ (∀ bytes, f = some bytes → f1 = bytes ++ List.replicate (128 - bytes.length) 0) := by
      unfold checkPasswd2 at h1
      cases hty : c.ty "Userec2Raw" with
      | none => simp [hty] at h1
      | some t =>
        have htt : sizeP t = 128 := by simpa [hty] using ht
        simp only [hty, hsz, Option.bind_eq_bind, Option.bind_some] at h1
        cases f with
        | none =>
          simp only [htt, Option.pure_def, Option.some.injEq] at h1
          subst h1
          exact ⟨by simp [le32], by intro _ hb; cases hb⟩
        | some bytes =>
          simp only at h1
          split at h1
          · simp only [Option.pure_def, Option.some.injEq] at h1
            subst h1
            refine ⟨by simp; omega, ?_⟩
            intro b hb; cases hb; rfl
          · cases h1
    simp only [h1, hs, Option.bind_eq_bind, Option.bind_some, Option.pure_def, Option.some.injEq] at h
    have hr : readAt f1 4 4 = some (fieldBytes f1 4 4) := by
      simp [readAt, hlen.1, fieldBytes]
    rw [hr] at h
    subst h
    have key := fun x => double_write_frame f1 (le32 x) (le32 ts) (le32_length _) (le32_length _) hlen.1
    exact ⟨f1, rfl, hlen.1, (key _).1, hlen.2, (key _).2.1, (key _).2.2.1, (key _).2.2.2⟩

theorem userLevel2_frame_default (ver : Nat) (f : Option (List Nat)) (perm : Nat) (isSet : Bool) (ts : Nat) (f' : List Nat)
    (h : updateUserLevel2 cfgDefault ver f perm isSet ts = some f') :
    ∃ f1, checkPasswd2 cfgDefault ver f = some f1 ∧ f1.length = 128 ∧ f'.length = 128 ∧
      (∀ bytes, f = some bytes → f1 = bytes ++ List.replicate (128 - bytes.length) 0) ∧
      (∀ i, (i < 4 ∨ 12 ≤ i) → f'[i]? = f1[i]?) ∧
      fieldBytes f' 8 4 = le32 ts ∧
      fieldBytes f' 4 4 = le32 (if isSet then unLe32 (fieldBytes f1 4 4) ||| perm
                                else unLe32 (fieldBytes f1 4 4) &&& (4294967295 - perm)) :=
  userLevel2_frame cfgDefault ver f perm isSet ts f' (by decide +kernel) (by decide +kernel) (by decide +kernel) h

theorem userLevel2_frame_docker (ver : Nat) (f : Option (List Nat)) (perm : Nat) (isSet : Bool) (ts : Nat) (f' : List Nat)
    (h : updateUserLevel2 cfgDocker ver f perm isSet ts = some f') :
    ∃ f1, checkPasswd2 cfgDocker ver f = some f1 ∧ f1.length = 128 ∧ f'.length = 128 ∧
      (∀ bytes, f = some bytes → f1 = bytes ++ List.replicate (128 - bytes.length) 0) ∧
      (∀ i, (i < 4 ∨ 12 ≤ i) → f'[i]? = f1[i]?) ∧
      fieldBytes f' 8 4 = le32 ts ∧
      fieldBytes f' 4 4 = le32 (if isSet then unLe32 (fieldBytes f1 4 4) ||| perm
                                else unLe32 (fieldBytes f1 4 4) &&& (4294967295 - perm)) :=
  userLevel2_frame cfgDocker ver f perm isSet ts f' (by decide +kernel) (by decide +kernel) (by decide +kernel) h

example : (updateUserLevel2 cfgDefault 2 none 5 true 99).isSome = true := by decide +kernel


/-! ### histories with failed writes; concurrent entry writers -/

/-- a write that fails (ENOSPC, EFBIG, EBADF, encoding error) leaves no trace: the files after any history are
the files after the same history with the failed writes removed. -/
theorem failed_writes_leave_no_trace (c : Config) (s : HFiles) (h : List HStep) :
    (runHist c s h).2 = (runHist c s (h.filter (fun st => !st.isFail))).2 :=
  (runHist_filter_fail c h s).symm

/-- a single-field update issued after ANY history (failed writes, other updates, whole-record writes, log
appends, in any order) rewrites exactly its field of exactly that user's record of the `.PASSWDS` that history
left behind, and does not touch the `.post` log. -/
theorem update_after_any_history_frame (s : Site) (fn fld : String) (sz off n : Nat)
    (hs : SeekIsFrozen s fn "UserecRaw" fld sz off n)
    (s0 : HFiles) (pre : List HStep) (uid : Int) (b : List Nat)
    (hok : (hstep s.cfg (runHist s.cfg s0 pre).2 (.upd fn uid b)).1 = true) :
    let before := (runHist s.cfg s0 pre).2
    let after := (runHist s.cfg s0 (pre ++ [.upd fn uid b])).2
    after.post = before.post ∧
    ∃ u : Nat, uid = (u : Int) ∧ 1 ≤ u ∧ b.length = n ∧
      (u * sz ≤ before.passwd.length →
        after.passwd.length = before.passwd.length ∧
        (∀ v, v ≠ u - 1 → slot after.passwd sz v = slot before.passwd sz v) ∧
        fieldBytes (slot after.passwd sz (u - 1)) off n = b ∧
        ∀ o m, (o + m ≤ off ∨ off + n ≤ o) →
          fieldBytes (slot after.passwd sz (u - 1)) o m = fieldBytes (slot before.passwd sz (u - 1)) o m) := by
  intro before after
  have ha : after = (hstep s.cfg before (.upd fn uid b)).2 := runHist_append_one s.cfg pre s0 _
  change (hstep s.cfg before (.upd fn uid b)).1 = true at hok
  simp only [hstep] at ha hok
  cases hw : passwdWrite s.cfg fn before.passwd uid b with
  | none => simp [hw] at hok
  | some f' =>
    simp only [hw] at ha
    rw [ha]
    exact ⟨rfl, passwd_update_frame s fn fld sz off n hs before.passwd uid b f' hw⟩

/-- non-vacuity: a failed write, then a password update of user 2, on a two-record file. -/
example : (runHist cfgDefault ⟨List.replicate 1024 7, []⟩ [.fail, .upd "cmbbs.PasswdUpdatePasswd" 2 (List.replicate 14 1)]).1
    = [false, true] := by decide +kernel

/-- `types.BinWrite` image of a whole record: exactly `total` bytes. -/
theorem recordImage_length (fs : Fields) (vals : List (List Nat)) (total : Nat) (img : List Nat)
    (h : recordImage (.struct fs) vals total = some img) : img.length = total := by
  unfold recordImage at h
  split at h
  · rename_i hc
    simp only [Option.some.injEq] at h
    subst h
    have hl : vals.flatten.length = sizeP (.struct fs) := by
      have h1 : (vals.map List.length).sum = ((Ty.struct fs).packed.map (fun x => x.2.2)).sum := by rw [hc.1]
      rw [List.length_flatten, h1]
      simp only [Ty.packed, Ty.fields, sizeP]
      exact fieldsP_sizes_sum fs 0
    have := hc.2
    simp [hl]; omega
  · cases h

/-- CONCURRENCY, all schedules: when every `types.BinWrite` call encodes into storage of its own, then under
every interleaving of the encode and write steps of any number of writers, every file consists of whole copies of
the image of ITS OWN record (never a foreign or mixed entry). -/
theorem concurrent_entries_own_image (img : Nat → List Nat) (sched : List WStep) (i : Nat) :
    ∃ k, (wrun img winit sched).files i = (List.replicate k (img i)).flatten :=
  (wrun_inv img sched winit (winit_inv img) i).2

/-- witness for the broken rule: with ONE scratch area shared by all writers the schedule
encode 0, encode 1, write 0 puts writer 1's entry into writer 0's file. -/
theorem shared_scratch_breaks :
    (srun (fun i => if i = 0 then [1, 0, 0, 0] else [2, 0, 0, 0]) ⟨[], fun _ => []⟩ [.enc 0, .enc 1, .wr 0]).files 0
      = [2, 0, 0, 0] := by decide

/-- the `.fav` image of one board entry: 6 header bytes, type, attribute, the 12-byte entry. -/
example : favFile cfgDefault 3363 1 16843009 5 =
    some [0x23, 0x0d, 1, 0, 0, 0, 1, 1, 1, 0, 0, 0, 1, 1, 1, 1, 5, 0, 0, 0] := by decide +kernel


/-! ### `.BRD`: a new board re-using a vacated slot -/

/-- ptt.addBoardRecord, vacated-slot branch, all files / slots / headers: the 256-byte header lands at record
`bid-1` — the file keeps its length, that record (which was vacated) becomes the new header and EVERY other
board header is unchanged. -/
theorem brd_new_frame (c : Config) (sz : Nat) (t : Ty)
    (hc : c.const "BOARD_HEADER_RAW_SZ" = some sz) (ht : c.ty "BoardHeaderRaw" = some t) (hsz : sizeP t = sz)
    (before : List Nat) (bid : Nat) (r after : List Nat) (h : brdNew c before bid r = some after)
    (hin : bid ≤ before.length / sz) :
    1 ≤ bid ∧ r.length = sz ∧ vacated before sz (bid - 1) = true ∧ after.length = before.length ∧
    (∀ v, v ≠ bid - 1 → slot after sz v = slot before sz v) ∧ slot after sz (bid - 1) = r := by
  unfold brdNew at h
  simp only [hc, ht, Option.bind_eq_bind, Option.bind_some, hsz] at h
  split at h
  · cases h
  · rename_i hcond
    have hr : r.length = sz := by omega
    have hb : 1 ≤ bid := by omega
    have hz : 0 < sz := by omega
    split at h
    · rename_i hv
      simp only [Option.some.injEq] at h
      subst h
      have hfile : bid * sz ≤ before.length := by
        have := Nat.div_mul_le_self before.length sz
        have := Nat.mul_le_mul_right sz hin
        omega
      obtain ⟨a1, _, _, a4, a5, _⟩ := update_field_frame before sz bid 0 r hb (by omega) hfile
      refine ⟨hb, hr, hv, a1, a4, ?_⟩
      have hl : (slot (writeAt before (seekPos sz bid 0) r) sz (bid - 1)).length = sz := by
        have hm : bid * sz = (bid - 1) * sz + sz := by
          obtain ⟨w, rfl⟩ : ∃ w, bid = w + 1 := ⟨bid - 1, by omega⟩
          simp [Nat.succ_mul]
        simp [slot, a1]; omega
      have : fieldBytes (slot (writeAt before (seekPos sz bid 0) r) sz (bid - 1)) 0 r.length
          = slot (writeAt before (seekPos sz bid 0) r) sz (bid - 1) := by
        rw [hr]; unfold fieldBytes
        rw [List.drop_zero]; exact List.take_of_length_le (by omega)
      rw [← this]; exact a5
    · cases h

/-- witness for the broken rule (1-based bid used as the 0-based record index): the header written for bid 1
lands on the record of bid 2. -/
theorem brd_index_off_by_one_breaks :
    slot (writeAt (List.replicate 8 0 ++ List.replicate 8 7) (seekPos 8 (1 + 1) 0) (List.replicate 8 1)) 8 1
      = List.replicate 8 1 ∧
    slot (writeAt (List.replicate 8 0 ++ List.replicate 8 7) (seekPos 8 (1 + 1) 0) (List.replicate 8 1)) 8 0
      = List.replicate 8 0 := by decide


/-! #### the `multi` union: the value the setters store is the value pttbbs reads there -/

theorem unLe32_le32 (n : Nat) (h : n < 4294967296) : unLe32 (le32 n) = n := by
  simp only [le32, unLe32]; omega

theorem toI32_toU32 (v : Int) (lo : -2147483648 ≤ v) (hi : v < 2147483648) : toI32 (toU32 v) = v := by
  unfold toI32 toU32
  split
  · simp only [Int.ofNat_eq_natCast]; omega
  · simp only [Int.negSucc_eq]; omega

/-- for every 32-bit value and every earlier content of the union: the getter returns what the setter stored, the
four bytes are the little-endian two's-complement image of exactly that value (no re-basing), and the length stays 4. -/
theorem multi_set_get (pre : List Nat) (v : Int) (hp : pre.length = 4) (lo : -2147483648 ≤ v) (hi : v < 2147483648) :
    getMulti (setMulti pre v) = v ∧ (setMulti pre v).take 4 = le32 (toU32 v) ∧ (setMulti pre v).length = 4 := by
  have hl : (le32 (toU32 v)).length = 4 := by simp [le32]
  have ht : (setMulti pre v).take 4 = le32 (toU32 v) := by
    unfold setMulti; rw [List.take_append_of_le_length (by omega)]; simp [le32]
  refine ⟨?_, ht, by simp [setMulti, hl, hp]⟩
  unfold getMulti; rw [ht, unLe32_le32 _ (by unfold toU32; omega), toI32_toU32 v lo hi]

example : setMulti [9, 9, 9, 9] 5 = [5, 0, 0, 0] ∧ getMulti [5, 0, 0, 0] = 5 ∧ setMulti [0, 0, 0, 0] (-2) = [254, 255, 255, 255] := by decide

end PttVerif.C01.Props
