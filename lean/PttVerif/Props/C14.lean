import PttVerif.Proofs.C14
/-
C14 — Concurrent appends never lose, tear or double-assign a record.

Every theorem is about ALL states reachable by ANY interleaving of the atomic steps of ANY number of
threads in ANY number of processes (`proc` is arbitrary), from a file of `n0` old records.
-/
namespace PttVerif.C14.Props
open PttVerif.C14

variable (proc : Nat → Nat) (n0 : Nat)

/-- the inductive invariant holds in every reachable state. -/
theorem invariant (s : Sys) (h : Reachable proc true n0 s) : Inv proc n0 s := reachable_inv proc n0 s h

/-- at most one thread is between flock and funlock, system-wide. -/
theorem mutual_exclusion (s : Sys) (h : Reachable proc true n0 s) (t u : Nat)
    (ht : holds (s.pc t) = true) (hu : holds (s.pc u) = true) : t = u :=
  holds_unique (reachable_inv proc n0 s h) t u ht hu

/-- within one process at most one thread owns the lock-table entry. -/
theorem one_owner_per_process (s : Sys) (h : Reachable proc true n0 s) (t u : Nat)
    (ht : owns (s.pc t) = true) (hu : owns (s.pc u) = true) (hp : proc t = proc u) : t = u :=
  (reachable_inv proc n0 s h).owner_unique t u ht hu hp

/-- returned indices are pairwise distinct (also against calls that have written but not yet returned). -/
theorem distinct_indices (s : Sys) (h : Reachable proc true n0 s) (t u i : Nat)
    (ht : wroteAt (s.pc t) = some i) (hu : wroteAt (s.pc u) = some i) : t = u := by
  have inv := reachable_inv proc n0 s h
  have a := inv.written_at t i ht
  have b := inv.written_at u i hu
  rw [a] at b
  exact Option.some.inj (Option.some.inj b)

/-- a returned index holds that call's record, intact, and lies after the old records. -/
theorem records_intact (s : Sys) (h : Reachable proc true n0 s) (t i : Nat) (ht : s.pc t = .doneOk i) :
    s.recs[i]? = some (some t) ∧ n0 ≤ i := by
  have inv := reachable_inv proc n0 s h
  have a := inv.written_at t i (by rw [ht]; rfl)
  refine ⟨a, ?_⟩
  obtain ⟨ws, h1, _, _⟩ := inv.writers
  rcases Nat.lt_or_ge i n0 with hlt | hge
  · exfalso
    rw [h1, List.getElem?_append_left (by simpa using hlt)] at a
    simp [hlt] at a
  · exact hge

/-- the old records are never touched. -/
theorem old_records_untouched (s : Sys) (h : Reachable proc true n0 s) :
    s.recs.take n0 = List.replicate n0 none := by
  obtain ⟨ws, h1, _, _⟩ := (reachable_inv proc n0 s h).writers
  rw [h1]; simp

/-- file length = initial length + one record per call that has written; the writers are exactly
the threads that wrote (each once): `ws` is duplicate-free and its members are those threads. -/
theorem final_length (s : Sys) (h : Reachable proc true n0 s) :
    ∃ ws : List Nat, s.recs.length = n0 + ws.length ∧ ws.Nodup ∧
      ∀ t, t ∈ ws ↔ (wroteAt (s.pc t)).isSome = true := by
  obtain ⟨ws, h1, h2, h3⟩ := (reachable_inv proc n0 s h).writers
  exact ⟨ws, by rw [h1]; simp, h2, h3⟩

/-- a thread is "in flight" between a successful lockFD and its return. -/
def quiescent (s : Sys) : Prop := ∀ t, owns (s.pc t) = false

/-- when every call has returned, every lock table is empty and the kernel lock is free. -/
theorem locks_released (s : Sys) (h : Reachable proc true n0 s) (q : quiescent s) :
    s.holder = none ∧ ∀ p, s.table p = false := by
  have inv := reachable_inv proc n0 s h
  constructor
  · cases hh : s.holder with
    | none => rfl
    | some t =>
      have := (inv.holder_iff t).1 hh
      have hq := q t
      cases hpc : s.pc t <;> rw [hpc] at this hq <;> simp [holds, owns] at this hq
  · intro p
    cases hp : s.table p with
    | false => rfl
    | true =>
      obtain ⟨w, _, hw⟩ := inv.table_owner p hp
      rw [q w] at hw; simp at hw

/-- run thread `t` for `k` consecutive steps. -/
def runThread (t : Nat) : Nat → Sys → Option Sys
  | 0, s => some s
  | k + 1, s => (step proc true s t).bind (runThread t k)

theorem runThread_reachable (t : Nat) : ∀ (k : Nat) (s s' : Sys), Reachable proc true n0 s →
    runThread proc t k s = some s' → Reachable proc true n0 s' := by
  intro k
  induction k with
  | zero => intro s s' r e; simp [runThread] at e; subst e; exact r
  | succ k ih =>
    intro s s' r e
    simp only [runThread] at e
    cases hs : step proc true s t with
    | none => rw [hs] at e; simp at e
    | some s1 => rw [hs] at e; exact ih s1 s' (.step t r hs) e

/-- an append issued after the others have finished always succeeds, at the next index:
the thread's six atomic steps are all enabled and it returns `length + 1`. -/
theorem later_append_succeeds (s : Sys) (h : Reachable proc true n0 s) (q : quiescent s) (t : Nat)
    (ht : s.pc t = .start) :
    ∃ s', runThread proc t 6 s = some s' ∧ s'.pc t = .doneOk s.recs.length ∧
      s'.recs = s.recs ++ [some t] ∧ s'.holder = none ∧ s'.table (proc t) = false := by
  obtain ⟨hh, htab⟩ := locks_released proc n0 s h q
  let s1 : Sys := { s with pc := setPc s t .wantFlock, table := setTable s (proc t) true }
  let s2 : Sys := { s1 with pc := setPc s1 t .haveLock, holder := some t }
  let s3 : Sys := { s2 with pc := setPc s2 t (.seeked s.recs.length) }
  let s4 : Sys := { s3 with pc := setPc s3 t (.written s.recs.length), recs := writeRec s.recs s.recs.length t }
  let s5 : Sys := { s4 with pc := setPc s4 t (.unlocked s.recs.length), holder := none }
  let s6 : Sys := { s5 with pc := setPc s5 t (.doneOk s.recs.length), table := setTable s5 (proc t) false }
  have e1 : step proc true s t = some s1 := by simp [step, ht, htab, s1]
  have e2 : step proc true s1 t = some s2 := by simp [step, s1, s2, hh]
  have e3 : step proc true s2 t = some s3 := by simp [step, s2, s3, s1]
  have e4 : step proc true s3 t = some s4 := by simp [step, s3, s4, s2, s1]
  have e5 : step proc true s4 t = some s5 := by simp [step, s4, s5]
  have e6 : step proc true s5 t = some s6 := by simp [step, s5, s6]
  refine ⟨s6, ?_, ?_, ?_, ?_, ?_⟩
  · simp only [runThread, e1, e2, e3, e4, e5, e6, Option.bind_some]
  · simp [s6]
  · simp [s6, s5, s4, writeRec]
  · simp [s6, s5]
  · simp [s6, setTable]

/-- no deadlock: if some thread is blocked waiting for the flock, the holder has an enabled step;
every thread that has not returned and is not waiting has an enabled step itself. -/
theorem no_deadlock (s : Sys) (h : Reachable proc true n0 s) (t : Nat)
    (ht : ∀ i, s.pc t ≠ .doneOk i) (ht' : s.pc t ≠ .doneErr) (ht'' : s.pc t ≠ .doneFail) :
    (∃ s', step proc true s t = some s') ∨
    (s.pc t = .wantFlock ∧ ∃ u s', s.holder = some u ∧ step proc true s u = some s') := by
  have inv := reachable_inv proc n0 s h
  cases hpc : s.pc t with
  | start => left; unfold step; rw [hpc]; by_cases hb : s.table (proc t) = true <;> simp [hb]
  | wantFlock =>
    cases hh : s.holder with
    | none => left; unfold step; rw [hpc, hh]; exact ⟨_, rfl⟩
    | some u =>
      right
      refine ⟨rfl, u, ?_⟩
      have hu := (inv.holder_iff u).1 hh
      cases hpu : s.pc u <;> rw [hpu] at hu <;> simp [holds] at hu
      · exact ⟨_, rfl, by unfold step; rw [hpu]⟩
      · exact ⟨_, rfl, by unfold step; rw [hpu]⟩
      · exact ⟨_, rfl, by unfold step; rw [hpu]⟩
      · exact ⟨_, rfl, by unfold step; rw [hpu]⟩
  | haveLock => left; unfold step; rw [hpc]; exact ⟨_, rfl⟩
  | seeked i => left; unfold step; rw [hpc]; exact ⟨_, rfl⟩
  | written i => left; unfold step; rw [hpc]; exact ⟨_, rfl⟩
  | unlocked i => left; unfold step; rw [hpc]; exact ⟨_, rfl⟩
  | doneOk i => exact absurd hpc (ht i)
  | doneErr => exact absurd hpc ht'
  | lockFailed => left; unfold step; rw [hpc]; exact ⟨_, rfl⟩
  | bodyFailed => left; unfold step; rw [hpc]; exact ⟨_, rfl⟩
  | unlockedErr => left; unfold step; rw [hpc]; exact ⟨_, rfl⟩
  | doneFail => exact absurd hpc ht''

/-- the schedule-level semantics that the correspondence harness validates against the real code
only ever takes atomic steps: every state it produces is reachable, so every theorem above applies
to every state the driven implementation was observed in. -/
theorem wake_reachable (n : Nat) (sc : Sched) (h : Reachable proc true n0 sc.sys) :
    Reachable proc true n0 (wake proc true n sc).sys := by
  unfold wake
  split
  · exact h
  · split
    · exact h
    · rename_i u _
      split
      · rename_i s' hs; exact .step u h hs
      · exact h

theorem tryLock_reachable (sc : Sched) (t : Nat) (h : Reachable proc true n0 sc.sys) :
    Reachable proc true n0 (tryLock proc true sc t).sys := by
  unfold tryLock
  split
  · split
    · exact h
    · split
      · exact h
      · rename_i s1 hs1
        split
        · exact .step t h hs1
        · rename_i s2 hs2
          split
          · rename_i s3 hs3; exact .step t (.fail t (.step t h hs1) hs2) hs3
          · exact .fail t (.step t h hs1) hs2
  · exact h

theorem release_reachable (n : Nat) (sc : Sched) (t : Nat) (h : Reachable proc true n0 sc.sys) :
    Reachable proc true n0 (release proc true n sc t).sys := by
  unfold release
  split
  · exact tryLock_reachable proc n0 sc t h
  · split
    · exact h
    · split
      · exact h
      · split
        · split
          · exact h
          · rename_i s1 hs1
            split
            · exact .step t h hs1
            · split
              · rename_i s2 hs2; exact .step t (.step t h hs1) hs2
              · exact .step t h hs1
        · split
          · rename_i s1 hs1; exact .step t h hs1
          · exact h
        · split
          · split
            · exact h
            · rename_i s1 hs1
              split
              · exact .fail t h hs1
              · rename_i s2 hs2
                split
                · rename_i s3 hs3
                  exact wake_reachable proc n0 n _ (.step t (.step t (.fail t h hs1) hs2) hs3)
                · exact .step t (.fail t h hs1) hs2
          · split
            · rename_i s1 hs1; exact .step t h hs1
            · exact h
        · split
          · exact h
          · rename_i s1 hs1
            split
            · rename_i s2 hs2
              exact wake_reachable proc n0 n _ (.step t (.step t h hs1) hs2)
            · exact h
        · exact h

theorem schedule_reachable (n : Nat) (sched : List Nat) (sc : Sched) (h : Reachable proc true n0 sc.sys) :
    Reachable proc true n0 (sched.foldl (release proc true n) sc).sys := by
  induction sched generalizing sc with
  | nil => exact h
  | cons t ts ih => exact ih _ (release_reachable proc n0 n sc t h)

/-- read from cmsys/lock.go on every run: GoFlock, GoFlockExNb and GoPttLock take the key out of the
lock table again when the kernel lock is not obtained (`cl = true` in the theorems above). -/
theorem source_cleans_up : sourceCleansUp = true := by decide

/-- read from the source on every run: every function that takes one of these locks registers the
unlock with `defer` before any statement that can return. -/
theorem source_users_defer : usersDeferOf Gen.Lock.lockUsers = true := by decide

/-- a lock attempt that the kernel refuses (EWOULDBLOCK, EINTR, …) leaves nothing behind: the call
returns an error and its process's table entry is free again. -/
theorem failed_lock_released (s : Sys) (t : Nat) (ht : s.pc t = .wantFlock) :
    ∃ s1 s2, failStep s t = some s1 ∧ step proc true s1 t = some s2 ∧
      s2.pc t = .doneErr ∧ s2.table (proc t) = false ∧ s2.holder = s.holder ∧ s2.recs = s.recs := by
  let s1 : Sys := { s with pc := setPc s t .lockFailed }
  let s2 : Sys := { s1 with pc := setPc s1 t .doneErr, table := setTable s1 (proc t) false }
  exact ⟨s1, s2, by simp [failStep, ht, s1], by simp [step, s1, s2], by simp [s2], by simp [s2, setTable], rfl, rfl⟩

/-- actions of a history: an atomic step of a thread, or a refused kernel lock call of a thread. -/
inductive Act where
  | st (t : Nat)
  | fl (t : Nat)

def exec (cl : Bool) : List Act → Sys → Option Sys
  | [], s => some s
  | .st t :: as, s => (step proc cl s t).bind (exec cl as)
  | .fl t :: as, s => (failStep s t).bind (exec cl as)

theorem exec_reachable (cl : Bool) : ∀ (as : List Act) (s s' : Sys), Reachable proc cl n0 s →
    exec proc cl as s = some s' → Reachable proc cl n0 s' := by
  intro as
  induction as with
  | nil => intro s s' r e; simp [exec] at e; subst e; exact r
  | cons a as ih =>
    intro s s' r e
    cases a with
    | st t =>
      simp only [exec] at e
      cases hs : step proc cl s t with
      | none => rw [hs] at e; simp at e
      | some s1 => rw [hs] at e; exact ih s1 s' (.step t r hs) e
    | fl t =>
      simp only [exec] at e
      cases hs : failStep s t with
      | none => rw [hs] at e; simp at e
      | some s1 => rw [hs] at e; exact ih s1 s' (.fail t r hs) e

/-- a thread's state is changed by its own steps only. -/
theorem step_pc_other (cl : Bool) (s s' : Sys) (t u : Nat) (h : step proc cl s t = some s') (hu : u ≠ t) :
    s'.pc u = s.pc u := by
  unfold step at h
  split at h <;> (try split at h) <;>
    first
      | (simp only [Option.some.injEq] at h; subst h; simp [setPc, hu])
      | simp at h

theorem failStep_pc_other (s s' : Sys) (t u : Nat) (h : failStep s t = some s') (hu : u ≠ t) :
    s'.pc u = s.pc u := by
  unfold failStep at h
  split at h <;>
    first
      | (simp only [Option.some.injEq] at h; subst h; simp [setPc, hu])
      | simp at h

def Act.thread : Act → Nat
  | .st t => t
  | .fl t => t

theorem exec_pc_other (cl : Bool) (u : Nat) : ∀ (as : List Act) (s s' : Sys),
    exec proc cl as s = some s' → (∀ a ∈ as, a.thread ≠ u) → s'.pc u = s.pc u := by
  intro as
  induction as with
  | nil => intro s s' e _; simp [exec] at e; subst e; rfl
  | cons a as ih =>
    intro s s' e hne
    have ha : a.thread ≠ u := hne a (by simp)
    have hrest : ∀ b ∈ as, b.thread ≠ u := fun b hb => hne b (by simp [hb])
    cases a with
    | st t =>
      simp only [exec] at e
      cases hs : step proc cl s t with
      | none => rw [hs] at e; simp at e
      | some s1 =>
        rw [hs] at e
        rw [ih s1 s' e hrest]
        exact step_pc_other proc cl s s1 t u hs (fun h => ha (by simp [Act.thread, h]))
    | fl t =>
      simp only [exec] at e
      cases hs : failStep s t with
      | none => rw [hs] at e; simp at e
      | some s1 =>
        rw [hs] at e
        rw [ih s1 s' e hrest]
        exact failStep_pc_other s s1 t u hs (fun h => ha (by simp [Act.thread, h]))

/-- the history of the defect repaired by d86fe7a: thread 0 (process 0) takes the flock, thread 1
(process 1) tries and is refused by the kernel, thread 0 finishes. -/
def leakHistory : List Act := [.st 0, .st 0, .st 1, .fl 1, .st 1, .st 0, .st 0, .st 0, .st 0]

def leakState (cl : Bool) : Sys := (exec (fun t => t % 2) cl leakHistory (init 0)).getD (init 0)

theorem leakState_eq (cl : Bool) : exec (fun t => t % 2) cl leakHistory (init 0) = some (leakState cl) := by
  have : ∀ o : Option Sys, o.isSome = true → o = some (o.getD (init 0)) := by
    intro o h; cases o <;> simp at h ⊢
  exact this _ (by cases cl <;> decide)

/-- the negation without the cleanup: after `leakHistory` every call has returned and the flock is
free, yet process 1's table entry is still set, and the next append of process 1 (thread 3) fails. -/
theorem leak_without_cleanup :
    Reachable (fun t => t % 2) false 0 (leakState false) ∧
      (∀ t, (leakState false).pc t = .start ∨ (∃ i, (leakState false).pc t = .doneOk i) ∨ (leakState false).pc t = .doneErr) ∧
      (leakState false).holder = none ∧ (leakState false).table 1 = true ∧
      ∃ s', step (fun t => t % 2) false (leakState false) 3 = some s' ∧ s'.pc 3 = .doneErr := by
  refine ⟨?_, ?_, by decide, by decide, ?_⟩
  · exact exec_reachable (fun t => t % 2) 0 false leakHistory (init 0) _ .init (leakState_eq false)
  · intro t
    by_cases h0 : t = 0
    · subst h0; right; left; exact ⟨0, by decide⟩
    · by_cases h1 : t = 1
      · subst h1; right; right; decide
      · left
        rw [exec_pc_other (fun t => t % 2) false t leakHistory (init 0) _ (leakState_eq false)]
        · rfl
        · intro a ha
          simp [leakHistory] at ha
          rcases ha with rfl | rfl | rfl | rfl | rfl <;> simp [Act.thread] <;> omega
  · have h3 : (leakState false).pc 3 = .start := by
      rw [exec_pc_other (fun t => t % 2) false 3 leakHistory (init 0) _ (leakState_eq false)]
      · rfl
      · intro a ha
        simp [leakHistory] at ha
        rcases ha with rfl | rfl | rfl | rfl | rfl <;> simp [Act.thread]
    have htab : (leakState false).table 1 = true := by decide
    refine ⟨{ leakState false with pc := setPc (leakState false) 3 .doneErr }, ?_, by simp⟩
    simp [step, h3, htab]

/-- with the cleanup the same history ends with every table entry free (instance of `locks_released`). -/
example : (leakState true).table 0 = false ∧ (leakState true).table 1 = false ∧ (leakState true).holder = none := by
  decide

/-! non-vacuity: the hypotheses are met by reachable states — from the initial system an appender
runs to completion, giving a reachable quiescent state with a returned index. -/
example : ∃ s, Reachable (fun t => t) true 3 s ∧ s.pc 0 = .doneOk 3 ∧ s.recs = [none, none, none, some 0] := by
  have r0 : Reachable (fun t => t) true 3 (init 3) := .init
  obtain ⟨s6, e6, p6, r6, _, _⟩ :=
    later_append_succeeds (fun t => t) 3 (init 3) r0 (by intro t; simp [init, owns]) 0 (by simp [init])
  exact ⟨s6, runThread_reachable (fun t => t) 3 0 6 _ _ r0 e6, by simpa [init] using p6, by simpa [init] using r6⟩

/-! ### other users of the same locks: descriptor numbers and fallback writers (round 4) -/

/-- read from the source on every run, for every function of the repository that takes one of the
locks: the deferred unlock is given the locked file's own descriptor, and the file is closed only
after that unlock has run (`defer file.Close()` registered first, no explicit Close while the unlock is
pending). -/
theorem source_unlock_before_close : unlockBeforeCloseOf Gen.Lock.lockClose = true := by decide

/-- read from the source on every run, for every call of cmsys.AppendRecord in the repository: the
caller hands the error on or drops it (or calls AppendRecord again) — none writes the record by
another route. -/
theorem source_append_callers_no_bypass : noBypassOf Gen.Lock.appendCallers = true := by decide

/-- the facts talk about the same functions: every lock user has its close-order verdict. -/
theorem source_lock_users_covered :
    Gen.Lock.lockClose.map (·.1) = Gen.Lock.lockUsers.map (·.1) := by decide

variable (procU : Nat → Nat)

/-- with the discipline the two facts establish, the system with descriptor numbers, other lock users
and their unlocks is — for the appenders — exactly the system of the theorems above: every reachable
state's appender part is `Reachable`. -/
theorem disciplined_reachable (x : XSys) (h : XReachable proc procU true disciplined n0 x) :
    Reachable proc true n0 x.sys :=
  (xreachable_disciplined proc procU n0 x h).2

/-- no foreign unlock is reachable: whenever a lock user is about to issue its unlock, the number it
passes names its own open description (so `unlockNum` cannot touch an appender's flock). -/
theorem no_foreign_unlock (x : XSys) (h : XReachable proc procU true disciplined n0 x) (u n : Nat)
    (hu : x.upc u = .opened n) :
    x.names (procU u) n = some (.usr u) ∧ unlockNum x (procU u) n = x := by
  have mine := (xreachable_disciplined proc procU n0 x h).1.usr_names u n (Or.inl hu)
  exact ⟨mine, by simp [unlockNum, mine]⟩

/-- … and no unlock is ever pending on a closed file, no fallback write ever starts. -/
theorem disciplined_no_stale (x : XSys) (h : XReachable proc procU true disciplined n0 x) :
    (∀ u n, x.upc u ≠ .closed n) ∧ ∀ t, x.byp t = .idle :=
  ⟨(xreachable_disciplined proc procU n0 x h).1.no_closed, (xreachable_disciplined proc procU n0 x h).1.byp_idle⟩

/-- so all the theorems stand in the presence of the other lock users; the two the seeds break: -/
theorem disciplined_distinct_indices (x : XSys) (h : XReachable proc procU true disciplined n0 x) (t u i : Nat)
    (ht : wroteAt (x.sys.pc t) = some i) (hu : wroteAt (x.sys.pc u) = some i) : t = u :=
  distinct_indices proc n0 x.sys (disciplined_reachable proc n0 procU x h) t u i ht hu

theorem disciplined_final_length (x : XSys) (h : XReachable proc procU true disciplined n0 x) :
    ∃ ws : List Nat, x.sys.recs.length = n0 + ws.length ∧ ws.Nodup ∧
      ∀ t, t ∈ ws ↔ (wroteAt (x.sys.pc t)).isSome = true :=
  final_length proc n0 x.sys (disciplined_reachable proc n0 procU x h)

theorem xexec_reachable (cl : Bool) (d : Disc) : ∀ (as : List XAct) (x x' : XSys),
    XReachable proc procU cl d n0 x → xexec proc procU cl d as x = some x' → XReachable proc procU cl d n0 x' := by
  intro as
  induction as with
  | nil => intro x x' r e; simp [xexec] at e; subst e; exact r
  | cons a as ih =>
    intro x x' r e
    simp only [xexec] at e
    cases hs : xstep proc procU cl d x a with
    | none => rw [hs] at e; simp at e
    | some x1 => rw [hs] at e; exact ih x1 x' (.step a r hs) e

/-- the history a close-before-unlock lock user makes possible (appender 0 and lock user 0 in process
0, appender 1 in process 1): the user opens its file as number 3 and closes it; appender 0's
OpenFile is handed number 3, it takes the flock and reads the length; the user's deferred unlock of
number 3 drops appender 0's flock; appender 1 locks, reads the same length, writes, returns;
appender 0 writes the same slot and returns. -/
def foreignHistory : List XAct :=
  [.uopen 0 3, .uclose 0, .aopen 0 3, .st 0, .st 0, .st 0, .uunlock 0,
   .aopen 1 3, .st 1, .st 1, .st 1, .st 1, .st 1, .st 1, .st 0, .st 0, .st 0]

def closeFirstDisc : Disc := { closeFirst := true, bypass := false }

def foreignState : XSys :=
  (xexec (fun t => t % 2) (fun _ => 0) true closeFirstDisc foreignHistory (xinit 0)).getD (xinit 0)

theorem foreignState_eq :
    xexec (fun t => t % 2) (fun _ => 0) true closeFirstDisc foreignHistory (xinit 0) = some foreignState := by
  have : ∀ o : Option XSys, o.isSome = true → o = some (o.getD (xinit 0)) := by
    intro o h; cases o <;> simp at h ⊢
  exact this _ (by decide)

/-- the negation with ONE foreign unlock: both calls return index 1 (slot 0), the file holds one record
for two successful calls, and it is not call 1's. -/
theorem foreign_unlock_double_assign :
    XReachable (fun t => t % 2) (fun _ => 0) true closeFirstDisc 0 foreignState ∧
      foreignState.sys.pc 0 = .doneOk 0 ∧ foreignState.sys.pc 1 = .doneOk 0 ∧
      foreignState.sys.recs = [some 0] := by
  refine ⟨?_, by decide, by decide, by decide⟩
  exact xexec_reachable (fun t => t % 2) 0 (fun _ => 0) true closeFirstDisc foreignHistory (xinit 0) _ .init foreignState_eq

/-- the same history is not executable under the discipline: the user's close before its unlock is refused. -/
example : xexec (fun t => t % 2) (fun _ => 0) true disciplined foreignHistory (xinit 0) = none := by decide

/-- the history a fallback writer makes possible (one process): call 0 holds the lock and has read the
length; call 1 gets ErrPttLock, counts the records without the lock, stores at that slot and reports
success; call 0 writes the same slot. -/
def bypassHistory : List XAct :=
  [.aopen 0 3, .st 0, .st 0, .st 0, .aopen 1 4, .st 1, .aclose 1, .bread 1, .bstore 1, .st 0, .st 0, .st 0]

def bypassDisc : Disc := { closeFirst := false, bypass := true }

def bypassState : XSys :=
  (xexec (fun _ => 0) (fun _ => 0) true bypassDisc bypassHistory (xinit 0)).getD (xinit 0)

theorem bypassState_eq :
    xexec (fun _ => 0) (fun _ => 0) true bypassDisc bypassHistory (xinit 0) = some bypassState := by
  have : ∀ o : Option XSys, o.isSome = true → o = some (o.getD (xinit 0)) := by
    intro o h; cases o <;> simp at h ⊢
  exact this _ (by decide)

/-- the negation with a fallback writer: two calls report success for slot 0, the file holds one
record, and it is not call 1's. -/
theorem bypass_shares_slot :
    XReachable (fun _ => 0) (fun _ => 0) true bypassDisc 0 bypassState ∧
      bypassState.sys.pc 0 = .doneOk 0 ∧ bypassState.byp 1 = .stored 0 ∧
      bypassState.sys.recs = [some 0] := by
  refine ⟨?_, by decide, by decide, by decide⟩
  exact xexec_reachable (fun _ => 0) 0 (fun _ => 0) true bypassDisc bypassHistory (xinit 0) _ .init bypassState_eq

/-- without the fallback the same calls end with call 1 refused and one record for one success. -/
example : ((xexec (fun _ => 0) (fun _ => 0) true disciplined
    [.aopen 0 3, .st 0, .st 0, .st 0, .aopen 1 4, .st 1, .aclose 1, .st 0, .st 0, .st 0] (xinit 0)).map
      (fun x => (x.sys.pc 0, x.sys.pc 1, x.sys.recs))) = some (.doneOk 0, .doneErr, [some 0]) := by decide

/-! non-vacuity of the disciplined system: a lock user runs open → unlock → close beside an appender
that is handed the user's old number afterwards; the appender's part is the plain run. -/
example : ((xexec (fun _ => 0) (fun _ => 0) true disciplined
    [.uopen 0 3, .uunlock 0, .uclose 0, .aopen 0 3, .st 0, .st 0, .st 0, .st 0, .st 0, .st 0, .aclose 0] (xinit 1)).map
      (fun x => (x.sys.pc 0, x.sys.recs, x.upc 0, x.names 0 3))) = some (.doneOk 1, [none, some 0], .done, none) := by decide

/-! ### the index a request reports (round 5) -/

/-- read from the source on every run, for every call of cmsys.AppendRecord in the repository: a
caller that hands an index on to its own caller hands on the one AppendRecord returned (data flow:
the call's result reaches the function's result); none reports an index obtained another way. -/
theorem source_reported_index_is_appended : reportsAppendedOf Gen.Lock.appendIndex = true := by decide

theorem source_append_index_covered :
    Gen.Lock.appendIndex.map (·.1) = Gen.Lock.appendCallers.map (·.1) := by decide

/-- a request that reports the index its append returned reports — whenever it does so — a slot no
other request reports, and that slot holds its own record. -/
theorem reported_appended_distinct_intact (s : Sys) (h : Reachable proc true n0 s) (t u i : Nat)
    (ht : reportSlot .appended s t = some i) (hu : reportSlot .appended s u = some i) :
    t = u ∧ s.recs[i]? = some (some t) := by
  have key : ∀ v, reportSlot .appended s v = some i → s.pc v = .doneOk i := by
    intro v hv
    unfold reportSlot at hv
    cases hpc : s.pc v <;> rw [hpc] at hv <;> simp at hv
    subst hv; rfl
  have pt := key t ht
  have pu := key u hu
  exact ⟨distinct_indices proc n0 s h t u i (by rw [pt]; rfl) (by rw [pu]; rfl),
    (records_intact proc n0 s h t i pt).1⟩

/-- … and later appends do not change that: the report is the same in every later state. -/
theorem reported_appended_stable (s s' : Sys) (t u : Nat) (hs : step proc true s u = some s') (hne : u ≠ t) (i : Nat)
    (ht : reportSlot .appended s t = some i) : reportSlot .appended s' t = some i := by
  unfold reportSlot at ht ⊢
  rw [step_pc_other proc true s s' u t hs (fun e => hne e.symm)]
  exact ht

/-- the negation for "index := number of records, read after the unlock": call 0 (process 0) appends
and returns; call 1 (process 1) appends and returns; then call 0 looks at the file.  Both report
slot 1, which holds call 1's record; slot 0 is reported by nobody. -/
def lateHistory : List Act := [.st 0, .st 0, .st 0, .st 0, .st 0, .st 0, .st 1, .st 1, .st 1, .st 1, .st 1, .st 1]

def lateState : Sys := (exec (fun t => t % 2) true lateHistory (init 0)).getD (init 0)

theorem lateState_eq : exec (fun t => t % 2) true lateHistory (init 0) = some lateState := by
  have : ∀ o : Option Sys, o.isSome = true → o = some (o.getD (init 0)) := by
    intro o h; cases o <;> simp at h ⊢
  exact this _ (by decide)

theorem length_after_unlock_shares_index :
    Reachable (fun t => t % 2) true 0 lateState ∧
      lateState.pc 0 = .doneOk 0 ∧ lateState.pc 1 = .doneOk 1 ∧
      reportSlot .lengthAfter lateState 0 = some 1 ∧ reportSlot .appended lateState 1 = some 1 ∧
      lateState.recs[1]? = some (some 1) := by
  refine ⟨?_, by decide, by decide, by decide, by decide, by decide⟩
  exact exec_reachable (fun t => t % 2) 0 true lateHistory (init 0) _ .init lateState_eq

/-- with the returned index the same state has the two requests at slots 0 and 1. -/
example : reportSlot .appended lateState 0 = some 0 ∧ reportSlot .appended lateState 1 = some 1 := by decide

/-! ### other writers of the record file beside the append (round 7) -/

/-- read from the source on every run, for every call of cmsys.AppendRecord in the repository: no
other call of the same function that is given the same path creates, truncates, removes, renames or
rewrites the file (directly, or in the body of the repository function it calls); an in-place slot
write is only allowed as the exclusive alternative to the append. -/
theorem source_append_callers_no_side_writer : noSideWriterOf Gen.Lock.appendSideWriters = true := by decide

theorem source_side_writers_covered :
    Gen.Lock.appendSideWriters.map (·.1) = Gen.Lock.appendCallers.map (·.1) := by decide

/-- what the fact protects: a truncation of the file to a length read earlier (no lock held) removes a
record whose append has returned — the invariant's `written_at` cannot survive it. -/
theorem truncate_loses_record (s : Sys) (t i k : Nat) (_hw : s.pc t = .doneOk i) (hk : k ≤ i) :
    ¬ (({ s with recs := s.recs.take k } : Sys).recs[i]? = some (some t)) := by
  simp only []
  rw [List.getElem?_take]
  simp [Nat.not_lt.mpr hk]

end PttVerif.C14.Props
