import PttVerif.Proofs.C14
/-
C14 — Concurrent appends never lose, tear or double-assign a record.

Every theorem is about ALL states reachable by ANY interleaving of the atomic steps of ANY number of
threads in ANY number of processes (`proc` is arbitrary), from a file of `n0` old records.
-/
namespace PttVerif.C14.Props
open PttVerif.C14

variable (proc : Nat → Nat) (n0 : Nat)

/-- the inductive invariant holds in every reachable state. -/
theorem invariant (s : Sys) (h : Reachable proc n0 s) : Inv proc n0 s := reachable_inv proc n0 s h

/-- at most one thread is between flock and funlock, system-wide. -/
theorem mutual_exclusion (s : Sys) (h : Reachable proc n0 s) (t u : Nat)
    (ht : holds (s.pc t) = true) (hu : holds (s.pc u) = true) : t = u :=
  holds_unique (reachable_inv proc n0 s h) t u ht hu

/-- within one process at most one thread owns the lock-table entry. -/
theorem one_owner_per_process (s : Sys) (h : Reachable proc n0 s) (t u : Nat)
    (ht : owns (s.pc t) = true) (hu : owns (s.pc u) = true) (hp : proc t = proc u) : t = u :=
  (reachable_inv proc n0 s h).owner_unique t u ht hu hp

/-- returned indices are pairwise distinct (also against calls that have written but not yet returned). -/
theorem distinct_indices (s : Sys) (h : Reachable proc n0 s) (t u i : Nat)
    (ht : wroteAt (s.pc t) = some i) (hu : wroteAt (s.pc u) = some i) : t = u := by
  have inv := reachable_inv proc n0 s h
  have a := inv.written_at t i ht
  have b := inv.written_at u i hu
  rw [a] at b
  exact Option.some.inj (Option.some.inj b)

/-- a returned index holds that call's record, intact, and lies after the old records. -/
theorem records_intact (s : Sys) (h : Reachable proc n0 s) (t i : Nat) (ht : s.pc t = .doneOk i) :
    s.recs[i]? = some (some t) ∧ n0 ≤ i := by
  have inv := reachable_inv proc n0 s h
  have a := inv.written_at t i (by rw [ht]; rfl)
  refine ⟨a, ?_⟩
  obtain ⟨ws, h1, _, _⟩ := inv.writers
  rcases Nat.lt_or_ge i n0 with hlt | hge
  · exfalso
    rw [h1, List.getElem?_append_left (by simpa using hlt)] at a
    simp [hlt] at a
  · exact hge

/-- the old records are never touched. -/
theorem old_records_untouched (s : Sys) (h : Reachable proc n0 s) :
    s.recs.take n0 = List.replicate n0 none := by
  obtain ⟨ws, h1, _, _⟩ := (reachable_inv proc n0 s h).writers
  rw [h1]; simp

/-- file length = initial length + one record per call that has written; the writers are exactly
the threads that wrote (each once): `ws` is duplicate-free and its members are those threads. -/
theorem final_length (s : Sys) (h : Reachable proc n0 s) :
    ∃ ws : List Nat, s.recs.length = n0 + ws.length ∧ ws.Nodup ∧
      ∀ t, t ∈ ws ↔ (wroteAt (s.pc t)).isSome = true := by
  obtain ⟨ws, h1, h2, h3⟩ := (reachable_inv proc n0 s h).writers
  exact ⟨ws, by rw [h1]; simp, h2, h3⟩

/-- a thread is "in flight" between a successful lockFD and its return. -/
def quiescent (s : Sys) : Prop := ∀ t, owns (s.pc t) = false

/-- when every call has returned, every lock table is empty and the kernel lock is free. -/
theorem locks_released (s : Sys) (h : Reachable proc n0 s) (q : quiescent s) :
    s.holder = none ∧ ∀ p, s.table p = false := by
  have inv := reachable_inv proc n0 s h
  constructor
  · cases hh : s.holder with
    | none => rfl
    | some t =>
      have := (inv.holder_iff t).1 hh
      have hq := q t
      cases hpc : s.pc t <;> rw [hpc] at this hq <;> simp [holds, owns] at this hq
  · intro p
    cases hp : s.table p with
    | false => rfl
    | true =>
      obtain ⟨w, _, hw⟩ := inv.table_owner p hp
      rw [q w] at hw; simp at hw

/-- run thread `t` for `k` consecutive steps. -/
def runThread (t : Nat) : Nat → Sys → Option Sys
  | 0, s => some s
  | k + 1, s => (step proc s t).bind (runThread t k)

theorem runThread_reachable (t : Nat) : ∀ (k : Nat) (s s' : Sys), Reachable proc n0 s →
    runThread proc t k s = some s' → Reachable proc n0 s' := by
  intro k
  induction k with
  | zero => intro s s' r e; simp [runThread] at e; subst e; exact r
  | succ k ih =>
    intro s s' r e
    simp only [runThread] at e
    cases hs : step proc s t with
    | none => rw [hs] at e; simp at e
    | some s1 => rw [hs] at e; exact ih s1 s' (.step t r hs) e

/-- an append issued after the others have finished always succeeds, at the next index:
the thread's six atomic steps are all enabled and it returns `length + 1`. -/
theorem later_append_succeeds (s : Sys) (h : Reachable proc n0 s) (q : quiescent s) (t : Nat)
    (ht : s.pc t = .start) :
    ∃ s', runThread proc t 6 s = some s' ∧ s'.pc t = .doneOk s.recs.length ∧
      s'.recs = s.recs ++ [some t] ∧ s'.holder = none ∧ s'.table (proc t) = false := by
  obtain ⟨hh, htab⟩ := locks_released proc n0 s h q
  let s1 : Sys := { s with pc := setPc s t .wantFlock, table := setTable s (proc t) true }
  let s2 : Sys := { s1 with pc := setPc s1 t .haveLock, holder := some t }
  let s3 : Sys := { s2 with pc := setPc s2 t (.seeked s.recs.length) }
  let s4 : Sys := { s3 with pc := setPc s3 t (.written s.recs.length), recs := writeRec s.recs s.recs.length t }
  let s5 : Sys := { s4 with pc := setPc s4 t (.unlocked s.recs.length), holder := none }
  let s6 : Sys := { s5 with pc := setPc s5 t (.doneOk s.recs.length), table := setTable s5 (proc t) false }
  have e1 : step proc s t = some s1 := by simp [step, ht, htab, s1]
  have e2 : step proc s1 t = some s2 := by simp [step, s1, s2, hh]
  have e3 : step proc s2 t = some s3 := by simp [step, s2, s3, s1]
  have e4 : step proc s3 t = some s4 := by simp [step, s3, s4, s2, s1]
  have e5 : step proc s4 t = some s5 := by simp [step, s4, s5]
  have e6 : step proc s5 t = some s6 := by simp [step, s5, s6]
  refine ⟨s6, ?_, ?_, ?_, ?_, ?_⟩
  · simp only [runThread, e1, e2, e3, e4, e5, e6, Option.bind_some]
  · simp [s6]
  · simp [s6, s5, s4, writeRec]
  · simp [s6, s5]
  · simp [s6, setTable]

/-- no deadlock: if some thread is blocked waiting for the flock, the holder has an enabled step;
every thread that has not returned and is not waiting has an enabled step itself. -/
theorem no_deadlock (s : Sys) (h : Reachable proc n0 s) (t : Nat)
    (ht : ∀ i, s.pc t ≠ .doneOk i) (ht' : s.pc t ≠ .doneErr) :
    (∃ s', step proc s t = some s') ∨
    (s.pc t = .wantFlock ∧ ∃ u s', s.holder = some u ∧ step proc s u = some s') := by
  have inv := reachable_inv proc n0 s h
  cases hpc : s.pc t with
  | start => left; unfold step; rw [hpc]; by_cases hb : s.table (proc t) = true <;> simp [hb]
  | wantFlock =>
    cases hh : s.holder with
    | none => left; unfold step; rw [hpc, hh]; exact ⟨_, rfl⟩
    | some u =>
      right
      refine ⟨rfl, u, ?_⟩
      have hu := (inv.holder_iff u).1 hh
      cases hpu : s.pc u <;> rw [hpu] at hu <;> simp [holds] at hu
      · exact ⟨_, rfl, by unfold step; rw [hpu]⟩
      · exact ⟨_, rfl, by unfold step; rw [hpu]⟩
      · exact ⟨_, rfl, by unfold step; rw [hpu]⟩
  | haveLock => left; unfold step; rw [hpc]; exact ⟨_, rfl⟩
  | seeked i => left; unfold step; rw [hpc]; exact ⟨_, rfl⟩
  | written i => left; unfold step; rw [hpc]; exact ⟨_, rfl⟩
  | unlocked i => left; unfold step; rw [hpc]; exact ⟨_, rfl⟩
  | doneOk i => exact absurd hpc (ht i)
  | doneErr => exact absurd hpc ht'

/-- the schedule-level semantics that the correspondence harness validates against the real code
only ever takes atomic steps: every state it produces is reachable, so every theorem above applies
to every state the driven implementation was observed in. -/
theorem wake_reachable (n : Nat) (sc : Sched) (h : Reachable proc n0 sc.sys) :
    Reachable proc n0 (wake proc n sc).sys := by
  unfold wake
  split
  · exact h
  · split
    · exact h
    · rename_i u _
      split
      · rename_i s' hs; exact .step u h hs
      · exact h

theorem release_reachable (n : Nat) (sc : Sched) (t : Nat) (h : Reachable proc n0 sc.sys) :
    Reachable proc n0 (release proc n sc t).sys := by
  unfold release
  split
  · exact h
  · split
    · exact h
    · split
      · split
        · exact h
        · rename_i s1 hs1
          split
          · exact .step t h hs1
          · split
            · rename_i s2 hs2; exact .step t (.step t h hs1) hs2
            · exact .step t h hs1
      · split
        · rename_i s1 hs1; exact .step t h hs1
        · exact h
      · split
        · rename_i s1 hs1; exact .step t h hs1
        · exact h
      · split
        · exact h
        · rename_i s1 hs1
          split
          · rename_i s2 hs2
            exact wake_reachable proc n0 n _ (.step t (.step t h hs1) hs2)
          · exact h
      · exact h

theorem schedule_reachable (n : Nat) (sched : List Nat) (sc : Sched) (h : Reachable proc n0 sc.sys) :
    Reachable proc n0 (sched.foldl (release proc n) sc).sys := by
  induction sched generalizing sc with
  | nil => exact h
  | cons t ts ih => exact ih _ (release_reachable proc n0 n sc t h)

/-! non-vacuity: the hypotheses are met by reachable states — from the initial system an appender
runs to completion, giving a reachable quiescent state with a returned index. -/
example : ∃ s, Reachable (fun t => t) 3 s ∧ s.pc 0 = .doneOk 3 ∧ s.recs = [none, none, none, some 0] := by
  have r0 : Reachable (fun t => t) 3 (init 3) := .init
  obtain ⟨s6, e6, p6, r6, _, _⟩ :=
    later_append_succeeds (fun t => t) 3 (init 3) r0 (by intro t; simp [init, owns]) 0 (by simp [init])
  exact ⟨s6, runThread_reachable (fun t => t) 3 0 6 _ _ r0 e6, by simpa [init] using p6, by simpa [init] using r6⟩

end PttVerif.C14.Props
