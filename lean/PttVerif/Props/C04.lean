import PttVerif.Proofs.C04
/-
C04 — The user-ID index is always a faithful, cycle-free map of the user table.

Model: `Model/C04.lean` (the Go arrays Userid / HashHead / NextInHash as lists, every access checked, the loop
guards of the source as fuel).  All theorems of the first part are PARAMETRIC in the id operations `e : Env Id`
and hold for every hash with `hash a < B` and `hash (fold a) = hash a` (`Laws`, Proofs/C04.lean): any number of
collisions, one bucket, …  The last part proves the laws for byte-level models of the functions the Go code
really calls (FNV-1a/32 over the upper-cased C string, Cstrcmp, Cstrcasecmp), so the theorems instantiate.

Invariant (`InvD e D s`, `Inv e s = InvD e [] s`):  there are lists `ch h` (h < B) such that the walk
HashHead[h], NextInHash[·], … is exactly `ch h` and ends in -1, `ch h` has no duplicates, every slot on it is
below MAX and holds an id hashing to `h` (so chains of different buckets are disjoint: `wf_disjoint`), and every
slot holding a non-empty id is on the chain its hash selects — except the slots in `D`, which a bare
RemoveFromUHash has detached and which are on no chain until they are added again.  SetUserID detaches and
re-adds in one call, so histories of SetUserID and reloads keep `D = []`.
-/
namespace PttVerif.C04
open PttVerif

section parametric
variable {Id : Type} {e : Env Id} {fold : Id → Id}

/-! ## the invariant is established by the cold load and kept by every operation -/

/-- every stored id is empty (a zeroed segment; what `number == 0 && loaded == 0` assumes) -/
def AllEmpty (e : Env Id) (s : St Id) : Prop := ∀ (k : Nat) (id : Id), s.userid[k]? = some id → e.isEmpty id = true

/-- everything the cold load guarantees, in one statement (the next two theorems are its parts) -/
theorem cold_load_spec (L : Laws e fold) (s : St Id) (recs : List Id) (hs : Shape e s) (hn : s.number = 0)
    (hl : s.loaded = 0) (hempty : AllEmpty e s) (hlen : recs.length ≤ e.MAX) :
    ∃ s', loadUHash e s (some (recs, false)) = .ok (s', .ok) ∧ Inv e s' ∧
      s'.number = (recs.length : Int) ∧ s'.loaded = 1 ∧
      (∀ j, recs.length ≤ j → s'.userid[j]? = s.userid[j]?) ∧
      ((recs.filter (fun r => !e.valid r)).length ≤ e.PRE →
        ∀ j r, recs[j]? = some r → s'.userid[j]? = some r ∧ ∀ ch, WF e s' ch → j ∈ ch (e.hash r)) := by
  have hwf0 : WF e { s with head := List.replicate e.B (-1) } (fun _ => []) := by
    refine ⟨⟨hs.hu, hs.hn, by simp⟩, ?_⟩
    intro h hh
    exact ⟨-1, by simp [hh], rfl, List.nodup_nil, fun k hk => by cases hk⟩
  have hcov0 : Cover e [] { s with head := List.replicate e.B (-1) } (fun _ => []) := by
    intro k id hid hne _
    have := hempty k id hid
    rw [this] at hne
    cases hne
  obtain ⟨s', ch', hrun, hwf', hcov', hn', hl', hout, _, _, htab⟩ :=
    fillLoop_cold L.hash_lt recs 0 0 _ _ hwf0 (fun h hh x hx => by cases hx) hcov0 (by simpa using hlen)
  have hwf'' : WF e { s' with number := (recs.length : Int), loaded := 1 } ch' :=
    ⟨⟨hwf'.1.hu, hwf'.1.hn, hwf'.1.hh⟩, hwf'.2⟩
  refine ⟨{ s' with number := (recs.length : Int), loaded := 1 }, ?_, ⟨ch', hwf'', (fun k hk => by cases hk), hcov'⟩,
    rfl, rfl, ?_, ?_⟩
  · rw [loadUHash, if_pos ⟨hn, hl⟩]
    simp only [fillUHash, initFill, Bool.false_eq_true, if_false, pure_ok, bind_ok, hrun, ne_eq, not_true_eq_false]
  · intro j hj
    exact hout j (Or.inr (by omega))
  · intro hpre j r hj
    have := htab (by simpa using hpre) j r hj
    simp only [Nat.zero_add] at this
    refine ⟨this.1, ?_⟩
    intro ch hwf
    rw [wf_unique hwf hwf'' (L.hash_lt r)]
    exact this.2

/-- Cold load (LoadUHash with Number = Loaded = 0 → fillUHash(false)) over ANY list of at most MAX records,
valid or not, colliding or not: no fault, no error, and the invariant holds afterwards. -/
theorem inv_init_cold (L : Laws e fold) (s : St Id) (recs : List Id) (hs : Shape e s) (hn : s.number = 0)
    (hl : s.loaded = 0) (hempty : AllEmpty e s) (hlen : recs.length ≤ e.MAX) :
    ∃ s', loadUHash e s (some (recs, false)) = .ok (s', .ok) ∧ Inv e s' ∧
      s'.number = (recs.length : Int) ∧ s'.loaded = 1 := by
  obtain ⟨s', h1, h2, h3, h4, _⟩ := cold_load_spec L s recs hs hn hl hempty hlen
  exact ⟨s', h1, h2, h3, h4⟩

/-- What the table holds after the cold load: when at most PRE_ALLOCATED_USERS records have an invalid id (always, in a
build with PRE_ALLOCATED_USERS ≥ MAX_USERS such as the default one), slot j holds exactly the id of record j and is
linked on the chain of its hash — including the empty-id slots kept for registration; slots past the file are untouched. -/
theorem cold_table (L : Laws e fold) (s : St Id) (recs : List Id) (hs : Shape e s) (hn : s.number = 0)
    (hl : s.loaded = 0) (hempty : AllEmpty e s) (hlen : recs.length ≤ e.MAX)
    (hpre : (recs.filter (fun r => !e.valid r)).length ≤ e.PRE) :
    ∃ s', loadUHash e s (some (recs, false)) = .ok (s', .ok) ∧
      (∀ j r, recs[j]? = some r → s'.userid[j]? = some r ∧ ∀ ch, WF e s' ch → j ∈ ch (e.hash r)) ∧
      (∀ j, recs.length ≤ j → s'.userid[j]? = s.userid[j]?) := by
  obtain ⟨s', h1, _, _, _, h5, h6⟩ := cold_load_spec L s recs hs hn hl hempty hlen
  exact ⟨s', h1, h6 hpre, h5⟩

/-- the service start: Reset (or a fresh, zero segment) followed by LoadUHash -/
theorem inv_init_cold_reset (L : Laws e fold) (recs : List Id) (hlen : recs.length ≤ e.MAX) :
    ∃ s', coldLoad e (some (recs, false)) = .ok (s', .ok) ∧ Inv e s' ∧ s'.number = (recs.length : Int) ∧ s'.loaded = 1 := by
  apply inv_init_cold L (resetSt e) recs ⟨by simp [resetSt], by simp [resetSt], by simp [resetSt]⟩ rfl rfl ?_ hlen
  intro k id hid
  simp only [resetSt, List.getElem?_replicate] at hid
  split at hid
  · cases hid; exact L.zero_empty
  · cases hid

/-- AddToUHash on a slot that is on no chain: succeeds (never ErrAddToUHash, never a fault), writes the id,
links the slot; the slot is no longer detached. -/
theorem inv_add (L : Laws e fold) {D : List Nat} {s : St Id} (hinv : InvD e D s) {k : Nat} (hk : k < e.MAX)
    (hun : Unlinked e s k) (id : Id) :
    ∃ s', addToUHash e s (k : Int) id = .ok (s', .ok) ∧ InvD e (D.filter (· ≠ k)) s' ∧
      s'.userid = s.userid.set k id ∧ s'.number = s.number ∧ s'.loaded = s.loaded :=
  inv_add_aux L.hash_lt hinv hk hun id

/-- RemoveFromUHash of any slot (head, middle, tail of its chain, or not linked at all): succeeds, every other
chain node stays reachable, the slot is detached. -/
theorem inv_remove (L : Laws e fold) {D : List Nat} {s : St Id} (hinv : InvD e D s) {k : Nat} (hk : k < e.MAX) :
    ∃ s', removeFromUHash e s (k : Int) = .ok (s', .ok) ∧ InvD e (k :: D) s' ∧
      s'.userid = s.userid ∧ s'.number = s.number ∧ s'.loaded = s.loaded :=
  inv_remove_aux L.hash_lt hinv hk

/-- SetUserID (= RemoveFromUHash + write id + AddToUHash) on any slot, to any id (colliding, empty, a duplicate):
succeeds and keeps the invariant; in particular `Inv` is kept. -/
theorem inv_setUserID (L : Laws e fold) {D : List Nat} {s : St Id} (hinv : InvD e D s) {k : Nat} (hk : k < e.MAX)
    (id : Id) :
    ∃ s', setUserID e s ((k : Int) + 1) id = .ok (s', .ok) ∧ InvD e (D.filter (· ≠ k)) s' ∧
      s'.userid = s.userid.set k id ∧ s'.number = s.number ∧ s'.loaded = s.loaded :=
  inv_set_aux L.hash_lt hinv hk id

theorem setUserID_out_of_range (s : St Id) (uid : Int) (id : Id) (h : uid ≤ 0 ∨ uid > (e.MAX : Int)) :
    setUserID e s uid id = .ok (s, .errInvalidUID) :=
  set_out_of_range s uid id h

/-- the .PASSWDS records agree with the live table: same C strings (Cstrcmp == 0), slot by slot -/
def Agree (e : Env Id) (recs : List Id) (s : St Id) : Prop :=
  ∀ (j : Nat) (r : Id), recs[j]? = some r → ∃ cur, s.userid[j]? = some cur ∧ e.seq r cur = true

/-- Reload on the fly (LoadUHash into a populated segment → checkHash over every bucket, then every record
re-examined) from a file that agrees with the live table: no fault — in particular the two loops that have NO guard in
the source terminate —, nothing is repaired away, no id is rewritten, the invariant is kept. -/
theorem inv_reload_onfly (L : Laws e fold) {s : St Id} (hinv : Inv e s) (hnot : ¬ (s.number = 0 ∧ s.loaded = 0))
    (recs : List Id) (hag : Agree e recs s) :
    ∃ s', loadUHash e s (some (recs, false)) = .ok (s', .ok) ∧ Inv e s' ∧ s'.userid = s.userid ∧
      s'.number = (recs.length : Int) ∧ s'.loaded = s.loaded := by
  obtain ⟨ch, hwf, _, hcov⟩ := hinv
  obtain ⟨s', ch', hrun, hwf', hcov', hu', _, hl', _⟩ :=
    fillLoop_onfly L [] recs 0 0 s ch hwf hcov (fun j r hj => by simpa using hag j r hj)
  refine ⟨{ s' with number := (recs.length : Int) }, ?_, ⟨ch', ⟨⟨hwf'.1.hu, hwf'.1.hn, hwf'.1.hh⟩, hwf'.2⟩,
    (fun k hk => by cases hk), hcov'⟩, hu', rfl, hl'⟩
  simp only [loadUHash, hnot, if_false, fillUHash, initFill_onfly_id hwf, bind_ok, hrun, Bool.false_eq_true, pure_ok]

/-- The same reload when .PASSWDS ends in an incomplete record (the complete records agree): LoadUHash reports the
error, Number is not advanced, and the index is still a faithful map. -/
theorem inv_reload_onfly_torn (L : Laws e fold) {s : St Id} (hinv : Inv e s) (hnot : ¬ (s.number = 0 ∧ s.loaded = 0))
    (recs : List Id) (hag : Agree e recs s) :
    ∃ s', loadUHash e s (some (recs, true)) = .ok (s', .errFile) ∧ Inv e s' ∧ s'.userid = s.userid ∧
      s'.number = s.number ∧ s'.loaded = s.loaded := by
  obtain ⟨ch, hwf, _, hcov⟩ := hinv
  obtain ⟨s', ch', hrun, hwf', hcov', hu', hn', hl', _⟩ :=
    fillLoop_onfly L [] recs 0 0 s ch hwf hcov (fun j r hj => by simpa using hag j r hj)
  refine ⟨s', ?_, ⟨ch', hwf', (fun k hk => by cases hk), hcov'⟩, hu', hn', hl'⟩
  simp only [loadUHash, hnot, if_false, fillUHash, initFill_onfly_id hwf, bind_ok, hrun, if_true, pure_ok]

/-- A reload that cannot open its .PASSWDS (missing file, wrong BBSHOME) into a loaded segment changes NOTHING: the
state afterwards is the state before, whatever slots are detached.  (The cold path, by contrast, resets every hash head
before it opens the file: it must never be taken on a loaded segment.) -/
theorem failed_reload_keeps_index {D : List Nat} {s : St Id} (hinv : InvD e D s)
    (hnot : ¬ (s.number = 0 ∧ s.loaded = 0)) : loadUHash e s none = .ok (s, .errFile) := by
  obtain ⟨ch, hwf, _, _⟩ := hinv
  simp only [loadUHash, hnot, if_false, fillUHash, initFill_onfly_id hwf, bind_ok, pure_ok]

/-- On-the-fly reload with detached slots (bare RemoveFromUHash, or a writer that died inside SetUserID between the
unlink and the relink): every record is re-examined, so a detached slot whose id is still in the table and agrees
with the file is linked again.  When the loader skips nothing (at most PRE invalid ids), exactly the detached slots
beyond the end of the file stay detached. -/
theorem inv_reload_onfly_detached (L : Laws e fold) {D : List Nat} {s : St Id} (hinv : InvD e D s)
    (hnot : ¬ (s.number = 0 ∧ s.loaded = 0)) (recs : List Id) (hag : Agree e recs s)
    (hpre : (recs.filter (fun r => !e.valid r)).length ≤ e.PRE) :
    ∃ s', loadUHash e s (some (recs, false)) = .ok (s', .ok) ∧
      InvD e (D.filter (fun k => decide (recs.length ≤ k))) s' ∧ s'.userid = s.userid ∧
      s'.number = (recs.length : Int) ∧ s'.loaded = s.loaded := by
  obtain ⟨ch, hwf, hfree, hcov⟩ := hinv
  obtain ⟨s', ch', hrun, hwf', hcov', hu', _, hl', _, hbound, hlink⟩ :=
    fillLoop_onfly L D recs 0 0 s ch hwf hcov (fun j r hj => by simpa using hag j r hj)
  refine ⟨{ s' with number := (recs.length : Int) }, ?_, ⟨ch', ⟨⟨hwf'.1.hu, hwf'.1.hn, hwf'.1.hh⟩, hwf'.2⟩, ?_, ?_⟩,
    hu', rfl, hl'⟩
  · simp only [loadUHash, hnot, if_false, fillUHash, initFill_onfly_id hwf, bind_ok, hrun, Bool.false_eq_true, pure_ok]
  · intro k hk h hh hx
    simp only [List.mem_filter, decide_eq_true_eq] at hk
    rcases hbound h k hx with hx | hx
    · exact hfree k hk.1 h hh hx
    · omega
  · intro k id hid hne hD
    by_cases hkD : k ∈ D
    · have hlt : k < recs.length := by
        simp only [List.mem_filter, decide_eq_true_eq, not_and] at hD
        have := hD hkD
        omega
      obtain ⟨r, hr⟩ := getElem?_of_lt hlt
      obtain ⟨cur, hcur, hseq⟩ := hag k r hr
      have hid' : s.userid[k]? = some id := by rw [← hu']; exact hid
      rw [hcur] at hid'; cases hid'
      have := hlink (by simpa using hpre) k r hr
      simp only [Nat.zero_add] at this
      rw [L.hash_eq (L.seq_fold r id hseq)] at this
      exact this
    · exact hcov' k id hid hne hkD

/-! ## the production writer: ptt.SetupNewUser -/

/-- A registration through ptt.SetupNewUser — accepted, refused because the id exists, refused because no slot is free,
or failing at the write of the .PASSWDS record AFTER the slot was assigned — never faults and keeps the invariant;
the index changes only by one SetUserID of the free slot that DoSearchUserRaw("") handed out. -/
theorem inv_setupNewUser (L : Laws e fold) {s : St Id} (hinv : Inv e s) (id : Id) (canWrite : Bool) :
    ∃ s' r uid, setupNewUser e s id canWrite = .ok (s', r, uid) ∧ Inv e s' ∧
      ((r = .errExists ∨ r = .errInvalidUID) → s' = s ∧ uid = 0) ∧
      ((r = .ok ∨ r = .errWrite) → ∃ k : Nat, k < e.MAX ∧ uid = (k : Int) + 1 ∧ s'.userid = s.userid.set k id) ∧
      (r = .ok ↔ (canWrite = true ∧ r ≠ .errExists ∧ r ≠ .errInvalidUID)) := by
  obtain ⟨ch, hwf, hfree, hcov⟩ := hinv
  have hinv : Inv e s := ⟨ch, hwf, hfree, hcov⟩
  unfold setupNewUser
  simp only [doSearch_spec L.hash_lt hwf, bind_ok]
  split
  · refine ⟨s, .errExists, 0, rfl, hinv, fun _ => ⟨rfl, rfl⟩, ?_, ?_⟩
    · intro h; rcases h with h | h <;> cases h
    · simp
  · -- the free slot
    cases hfo : findOn e s e.zero (ch (e.hash e.zero)) with
    | none =>
      simp only [searchResult, set_out_of_range s 0 id (Or.inl (Int.le_refl 0)), bind_ok, pure_ok]
      refine ⟨s, .errInvalidUID, 0, (by simp), hinv, fun _ => ⟨rfl, rfl⟩, ?_, ?_⟩
      · intro h; rcases h with h | h <;> cases h
      · simp
    | some p =>
      obtain ⟨k, idk⟩ := p
      obtain ⟨hk1, _, _⟩ := findOn_some hfo
      have hk : k < e.MAX := wf_lt hwf (L.hash_lt e.zero) hk1
      obtain ⟨s', hrun, hinv', hu, _⟩ := inv_setUserID L hinv hk id
      simp only [searchResult, hrun, bind_ok, pure_ok, ne_eq, not_true_eq_false, if_false]
      have hinv'' : Inv e s' := by simpa [Inv] using hinv'
      cases canWrite
      · refine ⟨s', .errWrite, (k : Int) + 1, (by simp), hinv'', ?_, fun _ => ⟨k, hk, rfl, hu⟩, ?_⟩
        · intro h; rcases h with h | h <;> cases h
        · simp
      · refine ⟨s', .ok, (k : Int) + 1, (by simp), hinv'', ?_, fun _ => ⟨k, hk, rfl, hu⟩, ?_⟩
        · intro h; rcases h with h | h <;> cases h
        · simp

/-- The registration-time sweep of expired accounts (ptt.tryCleanUser → killUser) rewrites records of .PASSWDS only:
the index part of a registration with the sweep due is the plain registration, so it keeps the invariant, and on a full
table it is refused with the index exactly as before — whatever records the sweep emptied on file. -/
theorem inv_setupNewUserSweep (L : Laws e fold) {s : St Id} (hinv : Inv e s) (recs : List Id) (expirable : List Nat)
    (id : Id) :
    ∃ s' r uid recs', setupNewUserSweep e s recs expirable id = .ok (s', r, uid, recs') ∧ Inv e s' ∧
      ((r = .errExists ∨ r = .errInvalidUID) → s' = s) ∧ (r ≠ .errInvalidUID → recs' = recs) := by
  obtain ⟨s', r, uid, hrun, hinv', href, _, _⟩ := inv_setupNewUser L hinv id true
  refine ⟨s', r, uid, (if r = .errInvalidUID then sweepFile e expirable recs else recs), ?_, hinv',
    fun h => (href h).1, ?_⟩
  · simp only [setupNewUserSweep, hrun, bind_ok, pure_ok]
  · intro h
    simp [h]

/-! ## a second process attaching to the live segment -/

/-- NewSHM on an existing segment — as opener or AS CREATOR (what main_init does with IS_NEW_SHM on a restart or a
second server) — writes nothing: not the header, not Number/Loaded, not the index; and it never reports `isNew`. -/
theorem newSHM_existing_untouched (wv ws : Int) (sg : Seg Id) (isCreate : Bool) :
    (newSHM e wv ws (some sg) isCreate).1 = some sg ∧ (newSHM e wv ws (some sg) isCreate).2.1 = false := by
  unfold newSHM
  by_cases h1 : sg.version = wv <;> by_cases h2 : sg.size = ws <;> simp [h1, h2]

/-- …and it succeeds exactly when the header carries the expected Version and Size. -/
theorem newSHM_existing_ok_iff (wv ws : Int) (sg : Seg Id) (isCreate : Bool) :
    (newSHM e wv ws (some sg) isCreate).2.2 = .ok ↔ sg.version = wv ∧ sg.size = ws := by
  unfold newSHM
  by_cases h1 : sg.version = wv <;> by_cases h2 : sg.size = ws <;> simp [h1, h2]

/-- A process that starts against a live, loaded segment (creator or opener) and whose own LoadUHash cannot open
.PASSWDS leaves the segment exactly as it was: every id the other processes are serving still resolves. -/
theorem restart_failed_load_keeps_segment {D : List Nat} (wv ws : Int) (sg : Seg Id) (hv : sg.version = wv)
    (hs : sg.size = ws) (hinv : InvD e D sg.st) (hnot : ¬ (sg.st.number = 0 ∧ sg.st.loaded = 0))
    (isCreate load : Bool) :
    restart e wv ws (some sg) none isCreate load =
      .ok (some sg, .ok, false, if load then some .errFile else none) := by
  unfold restart newSHM
  simp only [hv, hs, ne_eq, not_true_eq_false, if_false]
  cases load
  · simp
  · subst hv hs
    simp [failed_reload_keeps_index hinv hnot]

/-- …and when its LoadUHash reads a file that agrees with the live table, the index stays a faithful map. -/
theorem restart_agreeing_load_keeps_inv (L : Laws e fold) (wv ws : Int) (sg : Seg Id) (hv : sg.version = wv)
    (hs : sg.size = ws) (hinv : Inv e sg.st) (hnot : ¬ (sg.st.number = 0 ∧ sg.st.loaded = 0))
    (recs : List Id) (hag : Agree e recs sg.st) (isCreate : Bool) :
    ∃ s', restart e wv ws (some sg) (some (recs, false)) isCreate true =
        .ok (some { sg with st := s' }, .ok, false, some .ok) ∧ Inv e s' ∧ s'.userid = sg.st.userid := by
  obtain ⟨s', hrun, hinv', hu, _⟩ := inv_reload_onfly L hinv hnot recs hag
  refine ⟨s', ?_, hinv', hu⟩
  unfold restart newSHM
  simp only [hv, hs, ne_eq, not_true_eq_false, if_false, if_true, hrun, bind_ok, pure_ok]

/-- The one-pass loop the model uses for InitFillUHash(true) is the literal loop of the source,
`for idx := 0; idx < 1<<HASH_BITS; idx++ { checkHash(idx) }`, on every state (well-formed or not). -/
theorem initFill_onfly_eq_literal (s : St Id) (hB : s.head.length = e.B) :
    initFill e true s = checkAll e s (List.range e.B) := by
  simp only [initFill, if_true]
  rw [checkAllFrom_eq_checkAll s.head 0 s (by simp), hB, List.range_eq_range']

/-! ## every reachable state satisfies the invariant -/

/-- States reachable by arbitrary sequences of operations inside the property's quantifier, together with the list
of currently detached slots.  (Lookups do not change the state.) -/
inductive Reach (e : Env Id) : St Id → List Nat → Prop
  | cold (s recs s' r) : Shape e s → s.number = 0 → s.loaded = 0 → AllEmpty e s → recs.length ≤ e.MAX →
      loadUHash e s (some (recs, false)) = .ok (s', r) → Reach e s' []
  | set (s D s' r) (k : Nat) (id : Id) : Reach e s D → k < e.MAX →
      setUserID e s ((k : Int) + 1) id = .ok (s', r) → Reach e s' (D.filter (· ≠ k))
  | setRange (s D s' r) (uid : Int) (id : Id) : Reach e s D → (uid ≤ 0 ∨ uid > (e.MAX : Int)) →
      setUserID e s uid id = .ok (s', r) → Reach e s' D
  | remove (s D s' r) (k : Nat) : Reach e s D → k < e.MAX →
      removeFromUHash e s (k : Int) = .ok (s', r) → Reach e s' (k :: D)
  | add (s D s' r) (k : Nat) (id : Id) : Reach e s D → k < e.MAX → Unlinked e s k →
      addToUHash e s (k : Int) id = .ok (s', r) → Reach e s' (D.filter (· ≠ k))
  | onfly (s s' r) (recs : List Id) : Reach e s [] → ¬ (s.number = 0 ∧ s.loaded = 0) → Agree e recs s →
      loadUHash e s (some (recs, false)) = .ok (s', r) → Reach e s' []
  | onflyTorn (s s' r) (recs : List Id) : Reach e s [] → ¬ (s.number = 0 ∧ s.loaded = 0) → Agree e recs s →
      loadUHash e s (some (recs, true)) = .ok (s', r) → Reach e s' []
  | onflyDetached (s D s' r) (recs : List Id) : Reach e s D → ¬ (s.number = 0 ∧ s.loaded = 0) → Agree e recs s →
      (recs.filter (fun r => !e.valid r)).length ≤ e.PRE →
      loadUHash e s (some (recs, false)) = .ok (s', r) → Reach e s' (D.filter (fun k => decide (recs.length ≤ k)))
  | reloadNoFile (s D s' r) : Reach e s D → ¬ (s.number = 0 ∧ s.loaded = 0) →
      loadUHash e s none = .ok (s', r) → Reach e s' D

/-- Induction over arbitrary histories: the invariant holds in every reachable state. -/
theorem reachable_inv (L : Laws e fold) {s : St Id} {D : List Nat} (h : Reach e s D) : InvD e D s := by
  induction h with
  | cold s recs s' r hs hn hl hempty hlen hrun =>
    obtain ⟨s'', hrun', hinv, _, _⟩ := inv_init_cold L s recs hs hn hl hempty hlen
    rw [hrun] at hrun'; cases hrun'; exact hinv
  | set s D s' r k id _ hk hrun ih =>
    obtain ⟨s'', hrun', hinv, _⟩ := inv_setUserID L ih hk id
    rw [hrun] at hrun'; cases hrun'; exact hinv
  | setRange s D s' r uid id _ hr hrun ih =>
    rw [set_out_of_range s uid id hr] at hrun; cases hrun; exact ih
  | remove s D s' r k _ hk hrun ih =>
    obtain ⟨s'', hrun', hinv, _⟩ := inv_remove L ih hk
    rw [hrun] at hrun'; cases hrun'; exact hinv
  | add s D s' r k id _ hk hun hrun ih =>
    obtain ⟨s'', hrun', hinv, _⟩ := inv_add L ih hk hun id
    rw [hrun] at hrun'; cases hrun'; exact hinv
  | onfly s s' r recs _ hnot hag hrun ih =>
    obtain ⟨s'', hrun', hinv, _⟩ := inv_reload_onfly L ih hnot recs hag
    rw [hrun] at hrun'; cases hrun'; exact hinv
  | onflyTorn s s' r recs _ hnot hag hrun ih =>
    obtain ⟨s'', hrun', hinv, _⟩ := inv_reload_onfly_torn L ih hnot recs hag
    rw [hrun] at hrun'; cases hrun'; exact hinv
  | onflyDetached s D s' r recs _ hnot hag hpre hrun ih =>
    obtain ⟨s'', hrun', hinv, _⟩ := inv_reload_onfly_detached L ih hnot recs hag hpre
    rw [hrun] at hrun'; cases hrun'; exact hinv
  | reloadNoFile s D s' r _ hnot hrun ih =>
    rw [failed_reload_keeps_index ih hnot] at hrun; cases hrun; exact ih

/-- between calls of SetUserID and reloads (no bare remove pending) the full invariant holds -/
theorem reachable_inv_nil (L : Laws e fold) {s : St Id} (h : Reach e s []) : Inv e s := reachable_inv L h

/-! ## chains are finite and cycle-free -/

/-- the pointer value after `n` steps of the walk that starts with value `v` -/
def ptrAt (next : List Int) : Nat → Int → Option Int
  | 0, v => some v
  | n + 1, v =>
    match v with
    | .ofNat k => match next[k]? with
      | some nx => ptrAt next n nx
      | none => none
    | .negSucc _ => none

theorem ptrAt_chain {next : List Int} : ∀ {l : List Nat} {v : Int}, IsChain next v l →
    (∀ i (hi : i < l.length), ptrAt next i v = some (l[i] : Int)) ∧ ptrAt next l.length v = some (-1) := by
  intro l
  induction l with
  | nil =>
    intro v h
    simp only [IsChain] at h
    subst h
    exact ⟨fun i hi => by simp at hi, rfl⟩
  | cons a t ih =>
    intro v h
    simp only [IsChain] at h
    obtain ⟨ha, nx, hnx, hc⟩ := h
    subst ha
    obtain ⟨h1, h2⟩ := ih hc
    constructor
    · intro i hi
      cases i with
      | zero => rfl
      | succ i =>
        have : ptrAt next (i + 1) (a : Int) = ptrAt next i nx := by
          show (match next[a]? with | some nx => ptrAt next i nx | none => none) = _
          rw [hnx]
        rw [this]
        simpa using h1 i (by simpa using hi)
    · show (match next[a]? with | some nx => ptrAt next t.length nx | none => none) = _
      rw [hnx]
      exact h2

/-- Under the invariant the walk of every bucket reaches the terminator -1 after at most MAX steps, passes only through
slots in [0,MAX), and never visits a slot twice. -/
theorem chains_acyclic {D : List Nat} {s : St Id} (hinv : InvD e D s) (h : Nat) (hh : h < e.B) :
    ∃ v n, s.head[h]? = some v ∧ n ≤ e.MAX ∧ ptrAt s.next n v = some (-1) ∧
      (∀ i, i < n → ∃ k : Nat, k < e.MAX ∧ ptrAt s.next i v = some (k : Int)) ∧
      (∀ i j, i < j → j < n → ptrAt s.next i v ≠ ptrAt s.next j v) := by
  obtain ⟨ch, hwf, _, _⟩ := hinv
  obtain ⟨v, hv, hc, hnd, _⟩ := hwf.2 h hh
  obtain ⟨h1, h2⟩ := ptrAt_chain hc
  refine ⟨v, (ch h).length, hv, wf_length_le hwf hh, h2, ?_, ?_⟩
  · intro i hi
    exact ⟨(ch h)[i], wf_lt hwf hh (List.getElem_mem hi), h1 i hi⟩
  · intro i j hij hj
    rw [h1 i (by omega), h1 j hj]
    have := (List.pairwise_iff_getElem.1 hnd) i j (by omega) hj hij
    intro heq
    apply this
    have : (((ch h)[i] : Nat) : Int) = (((ch h)[j] : Nat) : Int) := by simpa using heq
    omega

/-- Every occupied slot is on exactly one chain, the one its id's hash selects (and chains of different buckets share
no slot). -/
theorem occupied_on_exactly_one_chain (L : Laws e fold) {s : St Id} (hinv : Inv e s) :
    ∃ ch, WF e s ch ∧
      (∀ (k : Nat) (id : Id), s.userid[k]? = some id → e.isEmpty id = false →
        k ∈ ch (e.hash id) ∧ ∀ h, h < e.B → k ∈ ch h → h = e.hash id) ∧
      (∀ h h' k, h < e.B → h' < e.B → k ∈ ch h → k ∈ ch h' → h = h') := by
  obtain ⟨ch, hwf, _, hcov⟩ := hinv
  refine ⟨ch, hwf, ?_, fun h h' k hh hh' hk hk' => wf_disjoint hwf hh hh' hk hk'⟩
  intro k id hid hne
  have hm := hcov k id hid hne (by simp)
  exact ⟨hm, fun h hh hk => wf_disjoint hwf hh (L.hash_lt id) hk hm⟩

/-! ## lookups -/

/-- The `times < MAX_USERS` guard of DoSearchUserRaw never cuts a lookup short: under the invariant the loop gives the
same answer with any larger bound, and does not fault. -/
theorem search_terminates (L : Laws e fold) {D : List Nat} {s : St Id} (hinv : InvD e D s) (q : Id) (fuel : Nat)
    (hf : e.MAX ≤ fuel) :
    ∃ v r, s.head[e.hash q]? = some v ∧ searchLoop e s q e.MAX v = .ok r ∧ searchLoop e s q fuel v = .ok r := by
  obtain ⟨ch, hwf, _, _⟩ := hinv
  have hh := L.hash_lt q
  obtain ⟨v, hv, hc, _, hids⟩ := hwf.2 _ hh
  have hall : ∀ k ∈ ch (e.hash q), k < e.MAX ∧ ∃ id, s.userid[k]? = some id :=
    fun k hk => ⟨wf_lt hwf hh hk, (hids k hk).imp (fun _ h => h.1)⟩
  have hlen := wf_length_le hwf hh
  exact ⟨v, _, hv, searchLoop_spec e s q e.MAX hc hall hlen, searchLoop_spec e s q fuel hc hall (by omega)⟩

/-- Soundness without any uniqueness assumption: whatever SearchUserRaw returns is a slot below MAX that holds the
queried id up to letter case, together with the id stored there. -/
theorem search_sound (L : Laws e fold) {D : List Nat} {s : St Id} (hinv : InvD e D s) (q : Id) {u : Int} {r : Option Id}
    (hres : searchUserRaw e s q = .ok (u, r)) :
    (u = 0 ∧ r = none) ∨
    ∃ (k : Nat) (id : Id), u = (k : Int) + 1 ∧ k < e.MAX ∧ s.userid[k]? = some id ∧ fold id = fold q ∧ r = some id :=
  search_sound_aux L hinv q hres

/-- Completeness without uniqueness: a non-empty id held (in any letter case) by a slot that is not detached is found. -/
theorem search_complete (L : Laws e fold) {D : List Nat} {s : St Id} (hinv : InvD e D s) (q : Id)
    (hq : e.isEmpty q = false) {k : Nat} {id : Id} (hid : s.userid[k]? = some id) (hf : fold id = fold q) (hD : k ∉ D) :
    ∃ (k' : Nat) (id' : Id), searchUserRaw e s q = .ok ((k' : Int) + 1, some id') ∧ s.userid[k']? = some id' ∧
      fold id' = fold q :=
  search_found L hinv q hq hid hf hD

/-- Under the invariant and pairwise case-distinct non-empty ids, SearchUserRaw is exactly the lookup in the table:
the slot holding the id in any letter case (plus one, with the stored spelling), none for an absent id, none for the
empty id. -/
theorem search_sound_complete (L : Laws e fold) {s : St Id} (hinv : Inv e s) (huniq : UniqueFold e fold s) (q : Id) :
    (e.isEmpty q = true → searchUserRaw e s q = .ok (0, none)) ∧
    (e.isEmpty q = false → ∀ (k : Nat) (id : Id), s.userid[k]? = some id → fold id = fold q →
        searchUserRaw e s q = .ok ((k : Int) + 1, some id)) ∧
    ((∀ (k : Nat) (id : Id), s.userid[k]? = some id → fold id ≠ fold q) → searchUserRaw e s q = .ok (0, none)) := by
  refine ⟨search_empty s q, ?_, search_absent L hinv q⟩
  intro hq k id hid hf
  obtain ⟨k', id', hrun, hid', hf'⟩ := search_found L hinv q hq hid hf (by simp)
  have hne : e.isEmpty id' = false := by rw [L.isEmpty_fold id' q hf']; exact hq
  have hkk : k' = k := huniq k' k id' id hid' hid hne (by rw [hf', hf])
  subst hkk
  rw [hid] at hid'
  cases hid'
  exact hrun

/-- A lookup never resolves to a slot that was removed from the index (detached) and not added again — although
RemoveFromUHash leaves the slot's bytes in `Userid`, so that "read the slot back and compare" still succeeds.
No uniqueness assumption. -/
theorem search_never_detached (L : Laws e fold) {D : List Nat} {s : St Id} (hinv : InvD e D s) (q : Id) {u : Int}
    {r : Option Id} (hres : searchUserRaw e s q = .ok (u, r)) : ∀ k : Nat, k ∈ D → u ≠ (k : Int) + 1 := by
  obtain ⟨ch, hwf, hfree, _⟩ := hinv
  intro k hk hu
  unfold searchUserRaw at hres
  split at hres
  · simp at hres; omega
  · rename_i hq
    rw [doSearch_spec L.hash_lt hwf q] at hres
    cases hfo : findOn e s q (ch (e.hash q)) with
    | none => simp [hfo, searchResult] at hres; omega
    | some p =>
      obtain ⟨k', id'⟩ := p
      obtain ⟨h1, _, _⟩ := findOn_some hfo
      simp [hfo, searchResult] at hres
      have : k' = k := by omega
      subst this
      exact hfree k' hk _ (L.hash_lt q) h1

/-- Lookup – remove – lookup: slot `k` holds `id` (non-empty, no other slot holds it in any letter case).  Before the
removal every spelling `q` of the id resolves to `k+1`; after RemoveFromUHash(k) the same query answers none — while
`Userid[k]` STILL holds `id` (so a lookup may not be short-cut by re-reading the slot it resolved to last time). -/
theorem lookup_remove_lookup (L : Laws e fold) {s : St Id} (hinv : Inv e s) (huniq : UniqueFold e fold s) {k : Nat}
    (hk : k < e.MAX) {id : Id} (hid : s.userid[k]? = some id) (hne : e.isEmpty id = false) (q : Id)
    (hf : fold id = fold q) :
    searchUserRaw e s q = .ok ((k : Int) + 1, some id) ∧
    ∃ s', removeFromUHash e s (k : Int) = .ok (s', .ok) ∧ s'.userid[k]? = some id ∧
      searchUserRaw e s' q = .ok (0, none) := by
  have hq : e.isEmpty q = false := by rw [← L.isEmpty_fold id q hf]; exact hne
  refine ⟨(search_sound_complete L hinv huniq q).2.1 hq k id hid hf, ?_⟩
  obtain ⟨s', hrun, hinv', hu, _⟩ := inv_remove L hinv hk
  refine ⟨s', hrun, by rw [hu]; exact hid, ?_⟩
  cases hres : searchUserRaw e s' q with
  | error x =>
    -- lookups do not fault under the invariant
    obtain ⟨ch, hwf, _, _⟩ := hinv'
    unfold searchUserRaw at hres
    simp only [hq, Bool.false_eq_true, if_false, doSearch_spec L.hash_lt hwf q] at hres
    cases hres
  | ok p =>
    obtain ⟨u, r⟩ := p
    rcases search_sound L hinv' q hres with ⟨h0, hr⟩ | ⟨k', id', hu', _, hid', hf', _⟩
    · rw [h0, hr]
    · exfalso
      rw [hu] at hid'
      have hne' : e.isEmpty id' = false := by rw [L.isEmpty_fold id' q hf']; exact hq
      have hkk : k' = k := huniq k' k id' id hid' hid hne' (by rw [hf', hf])
      subst hkk
      exact search_never_detached L hinv' q hres k' List.mem_cons_self hu'

/-- GetUserID returns the table entry of an in-range uid and ErrInvalidUID otherwise (no fault). -/
theorem getUserID_spec {s : St Id} (hs : Shape e s) (uid : Int) :
    (uid ≤ 0 ∨ uid > (e.MAX : Int) → getUserID e s uid = .ok none) ∧
    (∀ k : Nat, k < e.MAX → uid = (k : Int) + 1 → getUserID e s uid = .ok (s.userid[k]?)) := by
  constructor
  · intro h
    have : uid - 1 < 0 ∨ uid - 1 ≥ (e.MAX : Int) := by omega
    simp [getUserID, this]
  · intro k hk hu
    subst hu
    have : ¬ ((k : Int) < 0 ∨ (k : Int) ≥ (e.MAX : Int)) := by omega
    obtain ⟨id, hid⟩ := getElem?_of_lt (by rw [hs.hu]; exact hk : k < s.userid.length)
    simp only [getUserID, Int.add_sub_cancel, this, if_false, idxI_nat, idx_ok hid, bind_ok, pure_ok, hid]

end parametric

/-! ## the real hash and comparisons satisfy the laws -/

/-- the hash the Go code uses is FNV-1a/32 with the pttbbs offset basis over the upper-cased bytes before the NUL -/
theorem strhash_eq_fnv1a (a : List Nat) :
    stringHash a = (realFold a).foldl (fun h c => ((h ^^^ c) * fnvPrime) % 4294967296) fnvInit := by
  unfold stringHash
  generalize fnvInit = h
  induction a generalizing h with
  | nil => rfl
  | cons c cs ih =>
    unfold realFold at *
    rw [cstr_cons]
    by_cases hc : c = 0
    · simp [hc, fnv1a32StrCase]
    · simp only [hc, if_false, List.map_cons, List.foldl_cons, fnv1a32StrCase]
      exact ih _

/-- ids that differ only in letter case (and in the bytes after the NUL) hash to the same bucket -/
theorem strhash_case_insensitive (a b : List Nat) (h : realFold a = realFold b) :
    stringHashWithHashBits a = stringHashWithHashBits b :=
  real_laws.hash_eq h

theorem strhash_upper_lower (a : List Nat) :
    stringHashWithHashBits (a.map toupper) = stringHashWithHashBits a ∧
    stringHashWithHashBits (a.map tolower) = stringHashWithHashBits a := by
  constructor
  · apply strhash_case_insensitive
    simp only [realFold, cstr_map toupper_eq_zero_iff, List.map_map]
    congr 1
    funext c
    exact toupper_idem c
  · apply strhash_case_insensitive
    simp only [realFold, cstr_map tolower_eq_zero_iff, List.map_map]
    congr 1
    funext c
    exact toupper_tolower c

/-- the reduced hash indexes HashHead within bounds -/
theorem hashbits_lt (a : List Nat) : stringHashWithHashBits a < 2 ^ Gen.UHash.hashBits :=
  Nat.mod_lt _ hashMod_pos

/-- Cstrcasecmp(a, b) == 0 exactly when the ids are equal up to letter case as C strings -/
theorem cstrcasecmp_zero_iff (a b : List Nat) : cstrcasecmp a b = 0 ↔ realFold a = realFold b := by
  have := ceq_iff_real a b
  simpa using this

/-- the parametric theorems apply to the real build -/
theorem real_instance : Laws realEnv realFold := real_laws

/-- e.g. the lookup theorem for the real hash, comparisons and constants -/
theorem real_search_sound_complete {s : St (List Nat)} (hinv : Inv realEnv s) (huniq : UniqueFold realEnv realFold s)
    (q : List Nat) :
    (realEnv.isEmpty q = true → searchUserRaw realEnv s q = .ok (0, none)) ∧
    (realEnv.isEmpty q = false → ∀ (k : Nat) (id : List Nat), s.userid[k]? = some id → realFold id = realFold q →
        searchUserRaw realEnv s q = .ok ((k : Int) + 1, some id)) ∧
    ((∀ (k : Nat) (id : List Nat), s.userid[k]? = some id → realFold id ≠ realFold q) →
        searchUserRaw realEnv s q = .ok (0, none)) :=
  search_sound_complete real_laws hinv huniq q

/-- in the default build no record is ever skipped by the loader: PRE_ALLOCATED_USERS ≥ MAX_USERS -/
theorem real_no_skip (recs : List (List Nat)) (hlen : recs.length ≤ realEnv.MAX) :
    (recs.filter (fun r => !realEnv.valid r)).length ≤ realEnv.PRE := by
  have h1 := List.length_filter_le (fun r => !realEnv.valid r) recs
  have h2 : realEnv.MAX ≤ realEnv.PRE := by decide
  omega

/-! ### the api-level conversion in front of the lookup: bbs.UUserID.ToRaw -/

theorem cstr_of_no_zero : ∀ (l : List Nat), (∀ c ∈ l, c ≠ 0) → cstr l = l := by
  intro l
  induction l with
  | nil => intro _; rfl
  | cons c cs ih =>
    intro h
    rw [cstr_cons]
    have hc : c ≠ 0 := h c (by simp)
    simp only [hc, if_false]
    rw [ih (fun x hx => h x (List.mem_cons_of_mem _ hx))]

/-- An id longer than IDLEN is REJECTED by the conversion, never cut to a stored prefix: the lookup that follows is always
for the id that was asked for. -/
theorem uuserToRaw_rejects_overlong (name : List Nat) (hlen : name.length > Gen.UHash.idLen)
    (hsz : idSize = Gen.UHash.idLen + 1) (hnz : ∀ c ∈ name, c ≠ 0) : uuserToRaw name = none := by
  unfold uuserToRaw copyInto
  have htake : (name.take idSize).length = idSize := by rw [List.length_take]; omega
  simp only [htake, Nat.sub_self, List.replicate_zero, List.append_nil]
  have hnz' : ∀ c ∈ name.take idSize, c ≠ 0 := fun c hc => hnz c (List.mem_of_mem_take hc)
  unfold idValid
  simp only [cstr_of_no_zero _ hnz', htake]
  have : idSize > Gen.UHash.idLen := by omega
  simp [this]

/-- the size hypothesis of `uuserToRaw_rejects_overlong` holds for the regenerated constants -/
theorem real_idSize : idSize = Gen.UHash.idLen + 1 := by decide

/-- witness for the broken rule (seed C04-r7-2: copy into the first IDLEN bytes only): "abcdefghijklX" (13 characters) is
rejected by the real conversion and becomes the stored id "abcdefghijkl" under the cut -/
example : uuserToRaw [97, 98, 99, 100, 101, 102, 103, 104, 105, 106, 107, 108, 88] = none ∧
    (let cut := copyInto idSize ([97, 98, 99, 100, 101, 102, 103, 104, 105, 106, 107, 108, 88].take Gen.UHash.idLen)
     idValid cut = true ∧ cstr cut = [97, 98, 99, 100, 101, 102, 103, 104, 105, 106, 107, 108]) := by
  decide +kernel

/-- NewSHM's handshake accepts exactly the expected Version and Size -/
theorem handshake_ok_iff (v s wv ws : Int) : handshake v s wv ws = "ok" ↔ v = wv ∧ s = ws := by
  unfold handshake
  split
  · simp_all
  · split <;> simp_all

/-! ## non-vacuity -/

section toy
/-- a 4-slot table, ONE bucket (every id collides), ids are numbers, 0 is the empty id, no case -/
def toyEnv : Env Nat where
  MAX := 4
  B := 1
  PRE := 1
  hash _ := 0
  ceq a b := a == b
  seq a b := a == b
  isEmpty a := a == 0
  valid a := a != 0
  zero := 0

theorem toy_laws : Laws toyEnv id where
  hash_lt _ := Nat.zero_lt_one
  hash_fold _ := rfl
  ceq_iff a b := by simp [toyEnv]
  seq_fold a b h := by simpa [toyEnv] using h
  isEmpty_fold a b h := by simp only [id] at h; subst h; rfl
  zero_empty := rfl

/-- slots 0,1,2 hold 11,22,33 and form the chain 0 → 1 → 2; slot 3 is free -/
def toySt : St Nat := { userid := [11, 22, 33, 0], head := [0], next := [1, 2, -1, 7], number := 4, loaded := 1 }

theorem toy_inv : Inv toyEnv toySt := by
  refine ⟨fun _ => [0, 1, 2], ⟨⟨rfl, rfl, rfl⟩, ?_⟩, (fun k hk => by cases hk), ?_⟩
  · intro h hh
    have : h = 0 := by simp [toyEnv] at hh; exact hh
    subst this
    refine ⟨0, rfl, ?_, by decide, ?_⟩
    · exact ⟨rfl, 1, rfl, rfl, 2, rfl, rfl, -1, rfl, rfl⟩
    · intro k hk
      simp at hk
      rcases hk with rfl | rfl | rfl
      · exact ⟨11, rfl, rfl⟩
      · exact ⟨22, rfl, rfl⟩
      · exact ⟨33, rfl, rfl⟩
  · intro k id hid hne _
    match k, hid with
    | 0, _ => simp
    | 1, _ => simp
    | 2, _ => simp
    | 3, hid => simp [toySt] at hid; subst hid; simp [toyEnv] at hne
    | k + 4, hid => simp [toySt] at hid

/-- removing the MIDDLE node of an all-colliding chain keeps the invariant, and the model really computes 0 → 2 -/
example : ∃ s', removeFromUHash toyEnv toySt 1 = .ok (s', .ok) ∧ InvD toyEnv [1] s' ∧ s'.next = [2, 2, -1, 7] := by
  obtain ⟨s', hrun, hinv, _⟩ := inv_remove toy_laws toy_inv (k := 1) (by decide)
  refine ⟨s', hrun, hinv, ?_⟩
  have : removeFromUHash toyEnv toySt ((1 : Nat) : Int) = .ok ({ toySt with next := [2, 2, -1, 7] }, .ok) := by rfl
  rw [this] at hrun
  cases hrun
  rfl

/-- the hypotheses of `search_sound_complete` are satisfiable, and its three cases occur -/
example : UniqueFold toyEnv id toySt := by
  intro i j idi idj hi hj hne hf
  simp only [id] at hf
  subst hf
  match i, j, hi, hj with
  | 0, 0, _, _ => rfl
  | 1, 1, _, _ => rfl
  | 2, 2, _, _ => rfl
  | 3, _, hi, _ => simp [toySt] at hi; subst hi; simp [toyEnv] at hne
  | 0, 1, hi, hj => simp [toySt] at hi hj; omega
  | 0, 2, hi, hj => simp [toySt] at hi hj; omega
  | 0, 3, hi, hj => simp [toySt] at hi hj; omega
  | 1, 0, hi, hj => simp [toySt] at hi hj; omega
  | 1, 2, hi, hj => simp [toySt] at hi hj; omega
  | 1, 3, hi, hj => simp [toySt] at hi hj; omega
  | 2, 0, hi, hj => simp [toySt] at hi hj; omega
  | 2, 1, hi, hj => simp [toySt] at hi hj; omega
  | 2, 3, hi, hj => simp [toySt] at hi hj; omega
  | i + 4, _, hi, _ => simp [toySt] at hi
  | 0, j + 4, _, hj => simp [toySt] at hj
  | 1, j + 4, _, hj => simp [toySt] at hj
  | 2, j + 4, _, hj => simp [toySt] at hj

example : searchUserRaw toyEnv toySt 33 = .ok (3, some 33) ∧ searchUserRaw toyEnv toySt 44 = .ok (0, none) ∧
    searchUserRaw toyEnv toySt 0 = .ok (0, none) := ⟨by rfl, by rfl, by rfl⟩

/-- the hypotheses of `inv_reload_onfly` are satisfiable: the toy table reloaded on the fly from an agreeing file
(slot 3, empty and unlinked so far, gets linked for registration: 0 → 1 → 2 → 3) -/
example : ∃ s', loadUHash toyEnv toySt (some ([11, 22, 33, 0], false)) = .ok (s', .ok) ∧ Inv toyEnv s' ∧
    s'.next = [1, 2, 3, -1] := by
  have hag : Agree toyEnv [11, 22, 33, 0] toySt := by
    intro j r hj
    match j, hj with
    | 0, hj => simp at hj; subst hj; exact ⟨11, rfl, rfl⟩
    | 1, hj => simp at hj; subst hj; exact ⟨22, rfl, rfl⟩
    | 2, hj => simp at hj; subst hj; exact ⟨33, rfl, rfl⟩
    | 3, hj => simp at hj; subst hj; exact ⟨0, rfl, rfl⟩
    | j + 4, hj => simp at hj
  obtain ⟨s', hrun, hinv, _⟩ := inv_reload_onfly toy_laws toy_inv (by decide) [11, 22, 33, 0] hag
  refine ⟨s', hrun, hinv, ?_⟩
  have : loadUHash toyEnv toySt (some ([11, 22, 33, 0], false)) =
      .ok ({ userid := [11, 22, 33, 0], head := [0], next := [1, 2, 3, -1], number := 4, loaded := 1 }, .ok) := by rfl
  rw [this] at hrun
  cases hrun
  rfl

/-! ### witness for a broken rule: a per-process "last hit" memo in front of the chain walk

`searchMemo` is SearchUserRaw with the shortcut of seeded change C04-r3-1: the last id that resolved and its uid are
remembered; a following query of the same id (case-insensitively) is answered from the memo after re-reading
`Userid[uid-1]` and comparing it with the query.  The re-validation survives a removal, because RemoveFromUHash leaves
the bytes in place. -/

def searchMemo {Id' : Type} (e : Env Id') (memo : Option (Id' × Int)) (s : St Id') (q : Id') : M ((Int × Option Id') × Option (Id' × Int)) :=
  if e.isEmpty q then pure ((0, none), memo) else do
    let fromMemo : Option (Int × Id') :=
      match memo with
      | some (mid, uid) =>
        if 1 ≤ uid ∧ uid ≤ (e.MAX : Int) ∧ e.ceq q mid then
          match s.userid[(uid - 1).toNat]? with
          | some cur => if e.ceq q cur then some (uid, cur) else none
          | none => none
        else none
      | none => none
    match fromMemo with
    | some (uid, cur) => pure ((uid, some cur), memo)
    | none => do
      let r ← doSearchUserRaw e s q
      pure (r, if r.1 ≠ 0 then some (q, r.1) else memo)

/-- with the memo, "lookup 22 — remove its slot — lookup 22" answers slot 2 for an id that is absent from the index;
the real SearchUserRaw (and DoSearchUserRaw) answer none -/
theorem memo_breaks_lookup_after_remove :
    ∃ m1 s', searchMemo toyEnv none toySt 22 = .ok ((2, some 22), m1) ∧
      removeFromUHash toyEnv toySt 1 = .ok (s', .ok) ∧
      searchMemo toyEnv m1 s' 22 = .ok ((2, some 22), m1) ∧
      searchUserRaw toyEnv s' 22 = .ok (0, none) ∧ doSearchUserRaw toyEnv s' 22 = .ok (0, none) :=
  ⟨some (22, 2), { toySt with next := [2, 2, -1, 7] }, by rfl, by rfl, by rfl, by rfl, by rfl⟩

/-! ### witness for a broken rule: the creator writes the header whenever it asked to create

`newSHMSeed` is NewSHM with the change of seeded patch C04-r4-1: `if isCreate` instead of `if isNew` around the header
initialisation.  A second creator then zeroes Number and Loaded of the live segment, its LoadUHash takes the COLD path,
and that path resets every hash head before it opens the file. -/

def newSHMSeed {Id' : Type} (e : Env Id') (wantV wantS : Int) (seg : Option (Seg Id')) (isCreate : Bool) :
    Option (Seg Id') × Bool × AttachRet :=
  match seg, isCreate with
  | some sg, true => (some { version := wantV, size := wantS, st := { sg.st with number := 0, loaded := 0 } }, false, .ok)
  | _, _ => newSHM e wantV wantS seg isCreate

/-- a second creator whose .PASSWDS is missing: with the real NewSHM the live segment is untouched; with the seeded one
every id of the table (still in Userid) has become unreachable -/
theorem creator_header_reset_wipes_index :
    restart toyEnv 7 9 (some ⟨7, 9, toySt⟩) none true true = .ok (some ⟨7, 9, toySt⟩, .ok, false, some .errFile) ∧
    ∃ sg', (newSHMSeed toyEnv 7 9 (some ⟨7, 9, toySt⟩) true).1 = some sg' ∧
      ∃ s', loadUHash toyEnv sg'.st none = .ok (s', .errFile) ∧ s'.userid = [11, 22, 33, 0] ∧ s'.head = [-1] ∧
        searchUserRaw toyEnv s' 11 = .ok (0, none) ∧ searchUserRaw toyEnv s' 22 = .ok (0, none) ∧
        searchUserRaw toyEnv s' 33 = .ok (0, none) ∧ searchUserRaw toyEnv toySt 22 = .ok (2, some 22) :=
  ⟨by rfl, _, rfl, _, by rfl, rfl, rfl, by rfl, by rfl, by rfl, by rfl⟩

/-- the hypotheses of `inv_reload_onfly_detached` are satisfiable: slot 1 detached, then linked again by the reload -/
example : ∃ s1 s2, removeFromUHash toyEnv toySt 1 = .ok (s1, .ok) ∧
    loadUHash toyEnv s1 (some ([11, 22, 33], false)) = .ok (s2, .ok) ∧ Inv toyEnv s2 ∧
    searchUserRaw toyEnv s1 22 = .ok (0, none) ∧ searchUserRaw toyEnv s2 22 = .ok (2, some 22) := by
  obtain ⟨s1, h1, hinv1, hu1, hn1, hl1⟩ := inv_remove toy_laws toy_inv (k := 1) (by decide)
  have e1 : removeFromUHash toyEnv toySt ((1 : Nat) : Int) = .ok ({ toySt with next := [2, 2, -1, 7] }, .ok) := by rfl
  rw [e1] at h1; cases h1
  have hag : Agree toyEnv [11, 22, 33] { toySt with next := [2, 2, -1, 7] } := by
    intro j r hj
    match j, hj with
    | 0, hj => simp at hj; subst hj; exact ⟨11, rfl, rfl⟩
    | 1, hj => simp at hj; subst hj; exact ⟨22, rfl, rfl⟩
    | 2, hj => simp at hj; subst hj; exact ⟨33, rfl, rfl⟩
    | j + 3, hj => simp at hj
  obtain ⟨s2, h2, hinv2, _⟩ := inv_reload_onfly_detached toy_laws hinv1 (by decide) [11, 22, 33] hag (by decide)
  refine ⟨_, s2, e1, h2, hinv2, by rfl, ?_⟩
  have e2 : loadUHash toyEnv { toySt with next := [2, 2, -1, 7] } (some ([11, 22, 33], false)) =
      .ok ({ userid := [11, 22, 33, 0], head := [0], next := [2, -1, 1, 7], number := 3, loaded := 1 }, .ok) := by rfl
  rw [e2] at h2; cases h2
  rfl

/-- `Reach` is inhabited beyond the cold load: cold load of three colliding records, a rename, a bare remove -/
example : ∃ s, Reach toyEnv s [0] ∧ s.userid = [11, 55, 33, 0] := by
  obtain ⟨s1, h1, _, hn1, hl1⟩ := inv_init_cold_reset toy_laws [11, 22, 33] (by decide)
  have r1 : Reach toyEnv s1 [] :=
    Reach.cold (resetSt toyEnv) [11, 22, 33] s1 .ok ⟨rfl, rfl, rfl⟩ rfl rfl
      (by intro k id hid
          simp only [resetSt, List.getElem?_replicate] at hid
          split at hid
          · cases hid; rfl
          · cases hid) (by decide) h1
  obtain ⟨s2, h2, _, hu2, _⟩ := inv_setUserID toy_laws (reachable_inv toy_laws r1) (k := 1) (by decide) 55
  have r2 := Reach.set s1 [] s2 .ok 1 55 r1 (by decide) h2
  obtain ⟨s3, h3, _, hu3, _⟩ := inv_remove toy_laws (reachable_inv toy_laws r2) (k := 0) (by decide)
  have r3 := Reach.remove s2 _ s3 .ok 0 r2 (by decide) h3
  refine ⟨s3, r3, ?_⟩
  rw [hu3, hu2]
  have : coldLoad toyEnv (some ([11, 22, 33], false)) =
      .ok ({ userid := [11, 22, 33, 0], head := [0], next := [1, 2, -1, 0], number := 3, loaded := 1 }, .ok) := by rfl
  rw [this] at h1
  cases h1
  rfl

end toy


/-! ## outside the quantifier: an on-the-fly reload from a file that DISAGREES with the live table -/

section disagree
/-- three slots, two buckets (parity), ids are numbers -/
def toy2 : Env Nat where
  MAX := 3
  B := 2
  PRE := 3
  hash a := a % 2
  ceq a b := a == b
  seq a b := a == b
  isEmpty a := a == 0
  valid a := a != 0
  zero := 0

theorem toy2_laws : Laws toy2 id where
  hash_lt a := Nat.mod_lt a (by decide)
  hash_fold _ := rfl
  ceq_iff a b := by simp [toy2]
  seq_fold a b h := by simpa [toy2] using h
  isEmpty_fold a b h := by simp only [id] at h; subst h; rfl
  zero_empty := rfl

/-- Recorded, NOT claimed by the property (its quantifier is "reloads from a .PASSWDS that agrees with the live table"):
from a reachable state (cold load of [5, 22, 11], then slot 0 renamed to 13, so the odd chain is 2 → 0) an on-the-fly
reload from a file that says slot 2 now holds 12 links slot 2 behind the even chain, which cuts the odd chain after
slot 2: slot 0 still holds 13 and the lookup of 13 answers none. -/
theorem onfly_disagreeing_file_loses_slot :
    ∃ s s', Reach toy2 s [] ∧ loadUHash toy2 s (some ([13, 22, 12], false)) = .ok (s', .ok) ∧
      s'.userid[0]? = some 13 ∧ searchUserRaw toy2 s' 13 = .ok (0, none) ∧ ¬ Inv toy2 s' := by
  have h1 : coldLoad toy2 (some ([5, 22, 11], false)) =
      .ok ({ userid := [5, 22, 11], head := [1, 0], next := [2, -1, -1], number := 3, loaded := 1 }, .ok) := by rfl
  have r1 : Reach toy2 { userid := [5, 22, 11], head := [1, 0], next := [2, -1, -1], number := 3, loaded := 1 } [] :=
    Reach.cold (resetSt toy2) [5, 22, 11] _ .ok ⟨rfl, rfl, rfl⟩ rfl rfl
      (by intro k id hid
          simp only [resetSt, List.getElem?_replicate] at hid
          split at hid
          · cases hid; rfl
          · cases hid) (by decide) h1
  have h2 : setUserID toy2 { userid := [5, 22, 11], head := [1, 0], next := [2, -1, -1], number := 3, loaded := 1 }
      (((0 : Nat) : Int) + 1) 13 =
      .ok ({ userid := [13, 22, 11], head := [1, 2], next := [-1, -1, 0], number := 3, loaded := 1 }, .ok) := by rfl
  have r2 := Reach.set _ [] _ .ok 0 13 r1 (by decide) h2
  have h3 : loadUHash toy2 { userid := [13, 22, 11], head := [1, 2], next := [-1, -1, 0], number := 3, loaded := 1 }
      (some ([13, 22, 12], false)) =
      .ok ({ userid := [13, 22, 12], head := [1, 2], next := [-1, 2, -1], number := 3, loaded := 1 }, .ok) := by rfl
  refine ⟨_, _, r2, h3, rfl, by rfl, ?_⟩
  intro hinv
  have := (search_sound_complete toy2_laws hinv (by
    intro i j idi idj hi hj _ hf
    simp only [id] at hf
    subst hf
    match i, j, hi, hj with
    | 0, 0, _, _ => rfl
    | 1, 1, _, _ => rfl
    | 2, 2, _, _ => rfl
    | 0, 1, hi, hj => simp at hi hj; omega
    | 0, 2, hi, hj => simp at hi hj; omega
    | 1, 0, hi, hj => simp at hi hj; omega
    | 1, 2, hi, hj => simp at hi hj; omega
    | 2, 0, hi, hj => simp at hi hj; omega
    | 2, 1, hi, hj => simp at hi hj; omega
    | i + 3, _, hi, _ => simp at hi
    | 0, j + 3, _, hj => simp at hj
    | 1, j + 3, _, hj => simp at hj
    | 2, j + 3, _, hj => simp at hj) 13).2.1 (by rfl) 0 13 rfl rfl
  have h4 : searchUserRaw toy2 { userid := [13, 22, 12], head := [1, 2], next := [-1, 2, -1], number := 3, loaded := 1 } 13 =
      .ok (0, none) := by rfl
  rw [h4] at this
  cases this

/-- Which disagreeing files are judged: NONE as an explicit reload — every on-the-fly reload from a file that differs
from the live table in the id of a slot leaves that slot on its old chain (the loader never unlinks), so the unchanged
loader itself breaks the invariant there; what IS judged is every state the production writers reach, and they never
reload from such a file.  The smallest instance of the class "slot emptied on file" (what the sweep leaves behind):
odd chain 2 → 0, the file says slot 2 is empty; the reload moves slot 2 to the even chain with `next = -1`, and the live
id 13 in the LOWER slot 0, which sat behind it, answers none. -/
theorem reload_after_sweep_loses_live_id :
    ∃ s', loadUHash toy2 { userid := [13, 22, 11], head := [1, 2], next := [-1, -1, 0], number := 3, loaded := 1 }
        (some (sweepFile toy2 [2] [13, 22, 11], false)) = .ok (s', .ok) ∧
      sweepFile toy2 [2] [13, 22, 11] = [13, 22, 0] ∧
      s'.userid = [13, 22, 0] ∧ searchUserRaw toy2 s' 13 = .ok (0, none) :=
  ⟨_, by rfl, by rfl, rfl, by rfl⟩

end disagree

/-! ### witness for a broken rule: rolling a failed registration back with AddToUHash(slot, "") (no removal first) -/

section rollback
/-- four slots, two buckets (parity), ids are numbers, 0 is the empty id -/
def toy4 : Env Nat where
  MAX := 4
  B := 2
  PRE := 4
  hash a := a % 2
  ceq a b := a == b
  seq a b := a == b
  isEmpty a := a == 0
  valid a := a != 0
  zero := 0

/-- SetupNewUser with the rollback of seeded change C04-r5-2: when the .PASSWDS write fails, the slot is "put back on
the free chain" by AddToUHash(slot, "") — while it is still linked on the chain of the id that failed -/
def setupNewUserSeed (s : St Nat) (id : Nat) (canWrite : Bool) : M (St Nat × Ret × Int) := do
  let (s', r, uid) ← setupNewUser toy4 s id canWrite
  if r = .errWrite then do
    let (s'', _) ← addToUHash toy4 s' (uid - 1) toy4.zero
    pure (s'', r, uid)
  else pure (s', r, uid)

def regHistory (reg : St Nat → Nat → Bool → M (St Nat × Ret × Int)) : M (St Nat × List (Ret × Int)) := do
  let (s0, _) ← coldLoad toy4 (some ([0, 0, 0, 0], false))
  let (s1, r1, u1) ← reg s0 13 false     -- the write of this registration fails
  let (s2, r2, u2) ← reg s1 15 true      -- collides with 13
  let (s3, r3, u3) ← reg s2 22 true
  let (s4, r4, u4) ← reg s3 24 true
  let (s5, r5, u5) ← reg s4 26 true      -- with the rollback: slot 0 is free again and handed out here
  pure (s5, [(r1, u1), (r2, u2), (r3, u3), (r4, u4), (r5, u5)])

/-- With the rollback every later registration reports success, the table ends as [26, 15, 22, 24] — and the lookup of 15,
which slot 1 holds, answers none: re-assigning the doubly linked slot 0 cut the odd chain in front of slot 1.
The unchanged code keeps slot 0 assigned to 13, refuses the fifth registration, and finds 15. -/
theorem rollback_by_add_loses_registered_id :
    (∃ s, regHistory setupNewUserSeed =
        .ok (s, [(.errWrite, 1), (.ok, 2), (.ok, 3), (.ok, 4), (.ok, 1)]) ∧
      s.userid = [26, 15, 22, 24] ∧ searchUserRaw toy4 s 15 = .ok (0, none)) ∧
    (∃ s, regHistory (setupNewUser toy4) =
        .ok (s, [(.errWrite, 1), (.ok, 2), (.ok, 3), (.ok, 4), (.errInvalidUID, 0)]) ∧
      s.userid = [13, 15, 22, 24] ∧ searchUserRaw toy4 s 15 = .ok (2, some 15)) :=
  ⟨⟨_, by rfl, rfl, by rfl⟩, ⟨_, by rfl, rfl, by rfl⟩⟩

end rollback

/-- the real hash: "SYSOP" and "sysop" share a bucket; two different ids need not -/
example : stringHashWithHashBits [83, 89, 83, 79, 80, 0] = stringHashWithHashBits [115, 121, 115, 111, 112, 0, 7, 7] := by
  decide +kernel

end PttVerif.C04
