import PttVerif.Proofs.C18
import PttVerif.Proofs.C18Ansi
import PttVerif.Proofs.C18Misc
import PttVerif.Proofs.C18Misc2
import PttVerif.Proofs.C18Subject
import PttVerif.Proofs.C18Alias
import PttVerif.Proofs.C18Move
/-
C18 — Byte-string primitives agree with their C counterparts and never crash.
Property theorems only (helper lemmas live in Proofs/C18*.lean).  All statements are over arbitrary
`List Nat` byte strings, no length bound; `cstr` is the NUL-terminated prefix (Common.lean).
-/
namespace PttVerif.C18.Props
open PttVerif PttVerif.C18

/-! ## Group 1 — types/cstr.go -/

/-- `Cstrlen` is C `strlen` of the NUL-terminated prefix (slice end counts as terminator). -/
theorem Cstrlen_eq (s : List Nat) : cstrlen s = (cstr s).length := cstrlen_eq' s

/-- `CstrToBytes` never faults and returns exactly the bytes before the first NUL. -/
theorem CstrToBytes_eq (s : List Nat) : cstrToBytes s = .ok (cstr s) := cstrToBytes_eq' s

/-- `Cstrcmp` never faults and returns *the value* glibc's `strcmp` returns on the two C strings
(difference of the first differing unsigned bytes), for arrays with or without a terminating NUL. -/
theorem cstrcmp_eq_strcmp (a b : List Nat) : cstrcmp a b = .ok (strcmp (cstr a) (cstr b)) := cstrcmp_eq' a b

/-- the property's clause: same sign as the lexicographic comparison of unsigned bytes. -/
theorem cstrcmp_sign (a b : List Nat) :
    ∃ v, cstrcmp a b = .ok v ∧ v.sign = ordToInt (lexCmp (cstr a) (cstr b)) :=
  ⟨_, cstrcmp_eq' a b, strcmp_sign _ _ (cstr_nonzero a) (cstr_nonzero b)⟩

/-- `lexCmp` is not an ad-hoc order: it is the standard-library order on `List Nat`. -/
theorem lexCmp_is_list_order (a b : List Nat) :
    (lexCmp a b = .lt ↔ a < b) ∧ (lexCmp a b = .eq ↔ a = b) ∧ (lexCmp a b = .gt ↔ b < a) := by
  refine ⟨lexCmp_lt_iff a b, lexCmp_eq_iff a b, ?_⟩
  rw [← lexCmp_lt_iff b a, lexCmp_swap a b]
  cases lexCmp a b <;> simp [Ordering.swap]

/-- `Cstrcasecmp` never faults, equals C-locale `strcasecmp` on the C strings; only ASCII letters fold. -/
theorem cstrcasecmp_sign (a b : List Nat) :
    ∃ v, cstrcasecmp a b = .ok v ∧ v = strcasecmp (cstr a) (cstr b) ∧
      v.sign = ordToInt (lexCmp ((cstr a).map ccharTolower) ((cstr b).map ccharTolower)) := by
  refine ⟨_, ?_, rfl, ?_⟩
  · unfold cstrcasecmp
    rw [cstrcmp_eq', cstr_map_lower, cstr_map_lower]; rfl
  · exact strcmp_sign _ _ (map_lower_nonzero _ (cstr_nonzero a)) (map_lower_nonzero _ (cstr_nonzero b))

/-- the folding helper touches `'A'..'Z'` only: every other byte (in particular every byte ≥ 0x80, i.e. every
Big5 lead/trail byte) is left alone. -/
theorem tolower_ascii_only (c : Nat) :
    ccharTolower c = (if 65 ≤ c ∧ c ≤ 90 then c + 32 else c) ∧ (128 ≤ c → ccharTolower c = c) := by
  unfold ccharTolower
  constructor
  · split <;> omega
  · intro h; rw [if_neg (by omega)]

theorem toupper_ascii_only (c : Nat) :
    ccharToupper c = (if 97 ≤ c ∧ c ≤ 122 then c - 32 else c) ∧ (128 ≤ c → ccharToupper c = c) := by
  unfold ccharToupper
  constructor
  · rfl
  · intro h; rw [if_neg (by omega)]

/-! ### consequences used by the sorted-index properties (C04, C11) -/

theorem cmp_refl (a : List Nat) : cstrcmp a a = .ok 0 := by
  rw [cstrcmp_eq', (strcmp_zero_iff _ _ (cstr_nonzero a) (cstr_nonzero a)).mpr rfl]

/-- `Cstrcmp` returns 0 exactly when the two C strings are equal. -/
theorem cmp_eq_zero_iff (a b : List Nat) : cstrcmp a b = .ok 0 ↔ cstr a = cstr b := by
  rw [cstrcmp_eq']
  constructor
  · intro h
    have : strcmp (cstr a) (cstr b) = 0 := by injection h
    exact (strcmp_zero_iff _ _ (cstr_nonzero a) (cstr_nonzero b)).mp this
  · intro h
    rw [(strcmp_zero_iff _ _ (cstr_nonzero a) (cstr_nonzero b)).mpr h]

/-- swapping the arguments flips the sign. -/
theorem cmp_antisym (a b : List Nat) :
    ∃ v w, cstrcmp a b = .ok v ∧ cstrcmp b a = .ok w ∧ w.sign = - v.sign := by
  refine ⟨_, _, cstrcmp_eq' a b, cstrcmp_eq' b a, ?_⟩
  rw [strcmp_sign _ _ (cstr_nonzero b) (cstr_nonzero a), strcmp_sign _ _ (cstr_nonzero a) (cstr_nonzero b),
    lexCmp_swap (cstr a) (cstr b)]
  cases lexCmp (cstr a) (cstr b) <;> simp [Ordering.swap, ordToInt]

/-- `<` is transitive. -/
theorem cmp_trans (a b c : List Nat) (u v : Int) (h1 : cstrcmp a b = .ok u) (h2 : cstrcmp b c = .ok v)
    (hu : u < 0) (hv : v < 0) : ∃ w, cstrcmp a c = .ok w ∧ w < 0 := by
  rw [cstrcmp_eq'] at h1 h2
  injection h1 with h1; injection h2 with h2
  subst h1; subst h2
  refine ⟨_, cstrcmp_eq' a c, ?_⟩
  rw [strcmp_neg_iff _ _ (cstr_nonzero _) (cstr_nonzero _)] at hu hv ⊢
  exact lexCmp_lt_trans _ _ _ hu hv

/-- `≤` is transitive (with `cmp_refl`, `cmp_antisym`: a total preorder whose kernel is `cstr a = cstr b`). -/
theorem cmp_trans_le (a b c : List Nat) (u v : Int) (h1 : cstrcmp a b = .ok u) (h2 : cstrcmp b c = .ok v)
    (hu : u ≤ 0) (hv : v ≤ 0) : ∃ w, cstrcmp a c = .ok w ∧ w ≤ 0 := by
  rw [cstrcmp_eq'] at h1 h2
  injection h1 with h1; injection h2 with h2
  subst h1; subst h2
  refine ⟨_, cstrcmp_eq' a c, ?_⟩
  have key : ∀ x y : List Nat, (strcmp (cstr x) (cstr y) ≤ 0 ↔ lexCmp (cstr x) (cstr y) ≠ .gt) := by
    intro x y
    have := strcmp_pos_iff _ _ (cstr_nonzero x) (cstr_nonzero y)
    rw [Ne, ← this]
    omega
  rw [key] at hu hv ⊢
  exact lexCmp_le_trans _ _ _ hu hv

/-- `Cstrcasecmp` returns 0 exactly when the C strings are equal up to ASCII case. -/
theorem casecmp_eq_zero_iff (a b : List Nat) :
    cstrcasecmp a b = .ok 0 ↔ (cstr a).map ccharTolower = (cstr b).map ccharTolower := by
  unfold cstrcasecmp
  rw [cmp_eq_zero_iff, cstr_map_lower, cstr_map_lower]

theorem casecmp_trans_le (a b c : List Nat) (u v : Int) (h1 : cstrcasecmp a b = .ok u)
    (h2 : cstrcasecmp b c = .ok v) (hu : u ≤ 0) (hv : v ≤ 0) : ∃ w, cstrcasecmp a c = .ok w ∧ w ≤ 0 :=
  cmp_trans_le _ _ _ u v h1 h2 hu hv

/-! ### search -/

/-- the model of `bytes.Index` is "first occurrence". -/
theorem index_is_first (h n : List Nat) :
    (∀ i, index h n = some i ↔ IsFirstOcc h n i) ∧ (index h n = none ↔ NoOcc h n) :=
  ⟨fun i => ⟨(index_spec h n).1 i, index_of_firstOcc h n i⟩, ⟨(index_spec h n).2, index_of_noOcc h n⟩⟩

/-- `Cstrstr` = C `strstr` on the C string of the haystack, for a non-empty NUL-free needle:
the position of the first occurrence … -/
theorem cstrstr_eq (h n : List Nat) (hn : n ≠ []) (h0 : ∀ x ∈ n, x ≠ 0) (i : Nat)
    (hi : IsFirstOcc (cstr h) n i) : cstrstr h n = Int.ofNat i := by
  rw [cstrstr_eq' h n hn h0, index_of_firstOcc _ _ _ hi]; rfl

/-- … and −1 exactly when there is none (a hit behind or across the haystack's NUL does not count). -/
theorem cstrstr_absent (h n : List Nat) (hn : n ≠ []) (h0 : ∀ x ∈ n, x ≠ 0)
    (hno : NoOcc (cstr h) n) : cstrstr h n = -1 := by
  rw [cstrstr_eq' h n hn h0, index_of_noOcc _ _ hno]; rfl

/-- the two cases above are exhaustive: the result is always one of them. -/
theorem cstrstr_cases (h n : List Nat) (hn : n ≠ []) (h0 : ∀ x ∈ n, x ≠ 0) :
    (cstrstr h n = -1 ∧ NoOcc (cstr h) n) ∨ (∃ i, cstrstr h n = Int.ofNat i ∧ IsFirstOcc (cstr h) n i) := by
  rw [cstrstr_eq' h n hn h0]
  cases hk : index (cstr h) n with
  | none => exact .inl ⟨rfl, (index_spec _ _).2 hk⟩
  | some k => exact .inr ⟨k, rfl, (index_spec _ _).1 k hk⟩

/-- observation O6 (not judged): for the empty needle C returns 0 always; Go returns −1 on an empty haystack. -/
theorem cstrstr_empty_needle (h : List Nat) : cstrstr h [] = if cstr h = [] then -1 else 0 := cstrstr_empty' h

/-! ### tokenizer -/

/-- `CstrTokenR` never faults (empty slice, separator in the last position, no separator at all included) and
cuts at the first NUL or the first separator byte, whichever comes first: `first` is everything before the cut,
`theRest` everything behind the byte at the cut. -/
theorem cstrTokenR_eq (s sep : List Nat) :
    cstrTokenR s sep = .ok (s.take (stopLen s sep), s.drop (stopLen s sep + 1)) ∧
    stopLen s sep = min (cstr s).length (s.takeWhile (fun x => !(sep.contains x))).length :=
  ⟨cstrTokenR_eq' s sep, rfl⟩

/-! ### non-vacuity -/
example : cstrTokenR [97, 98, 32, 99, 0, 100] [32, 44] = .ok ([97, 98], [99, 0, 100]) := by rfl
example : cstrTokenR [] [32] = .ok ([], []) := by rfl
example : IsFirstOcc (cstr [97, 98, 99, 98, 99, 0, 98]) [98, 99] 1 := by
  refine ⟨by decide, by decide, ?_⟩
  intro j hj
  have : j = 0 := by omega
  subst this; decide
example : cstrstr [97, 98, 99, 98, 99, 0, 98] [98, 99] = 1 := by decide
example : cstrstr [97, 0, 98, 99] [98, 99] = -1 := by decide
example : cstrcmp [97, 98] [97, 98, 0, 7] = .ok 0 := by rfl
example : cstrcmp [97, 200] [97, 98, 99] = .ok 102 := by rfl

/-! ## Group 2 — cmsys.StripAnsi

`Bytes s` says every element is below 256 (what a Go `[]byte` holds); the model indexes the regenerated
256-entry table with `idx`, so a shorter table would make these theorems fail rather than hold vacuously. -/

def paramChars : List Nat := [48, 49, 50, 51, 52, 53, 54, 55, 56, 57, 59, 61]                      -- 0-9 ; =
def cmdChars : List Nat := [65, 66, 67, 68, 72, 73, 74, 75, 102, 104, 108, 109, 115, 117]         -- ABCDHIJKfhlmsu

/-- the table regenerated from cmsys/const.go is the C one (pttbbs `common/sys/string.c`): 256 entries,
`0-9;=` are parameter bytes (1), `ABCDHIJKfhlmsu` are the known commands (2), everything else 0.
Kernel evaluation over the whole table: one flipped entry breaks this theorem. -/
theorem escape_flag_classes :
    escapeFlag.length = 256 ∧
    ∀ x, x < 256 → flagOf x = (if x ∈ paramChars then 1 else if x ∈ cmdChars then 2 else 0) := by
  decide +kernel

/-- the constants the model's branches test. -/
theorem strip_constants :
    ESC = 27 ∧ STRIP_ANSI_ALL = 0 ∧ STRIP_ANSI_ONLY_COLOR = 1 ∧ STRIP_ANSI_NO_RELOAD = 2 := by
  decide +kernel

/-- totality: no index, slice or table access faults and the fuel suffices — on every input and every flag
value, including sequences cut off after `ESC`, after `ESC [` and inside the parameters. -/
theorem strip_total (src : List Nat) (flag : Nat) (hb : Bytes src) : ∃ out, stripAnsi src flag = .ok out :=
  ⟨_, stripAnsi_eq_run src flag hb⟩

/-- a NUL ends the text: only the C string is looked at. -/
theorem strip_cstr (src : List Nat) (flag : Nat) (hb : Bytes src) :
    stripAnsi src flag = stripAnsi (cstr src) flag := by
  have hb' : Bytes (cstr src) := fun b h => hb b (mem_of_mem_cstr _ _ h)
  rw [stripAnsi_eq_run src flag hb, stripAnsi_eq_run _ flag hb', run_cstr]

/-- every byte string has a lexing (plain bytes, `ESC x`, complete CSI sequences, at most one cut-off unit
at the very end), so the next theorem speaks about all NUL-free inputs. -/
theorem lex_complete (s : List Nat) : ∃ toks, WF toks ∧ bytesOf toks = s :=
  ⟨lexRun .text s, lexRun_wf .text s trivial, by simpa [St.pend] using lexRun_bytes .text s⟩

/-- the main statement, all modes: the output is the concatenation, in order, of what the mode keeps of each
lexical unit — plain bytes always; a complete `ESC [ params final` byte-identical iff its final byte is allowed
(`m` under ONLY_COLOR, a byte flagged 2 under NO_RELOAD, none otherwise); every other unit is removed whole. -/
theorem strip_eq_lex (toks : List Tok) (flag : Nat) (hwf : WF toks) (hb : Bytes (bytesOf toks))
    (h0 : ∀ b ∈ bytesOf toks, b ≠ 0) :
    stripAnsi (bytesOf toks) flag = .ok (toks.flatMap (keepTok flag)) := by
  rw [stripAnsi_eq_run _ flag hb, run_toks flag toks hwf h0]

def keepAll : Tok → List Nat
  | .plain b => [b]
  | _ => []

def keepColor : Tok → List Nat
  | .plain b => [b]
  | .csi ps f => if f = 109 then ESC :: 91 :: (ps ++ [f]) else []
  | _ => []

def keepNoReload : Tok → List Nat
  | .plain b => [b]
  | .csi ps f => if f ∈ cmdChars then ESC :: 91 :: (ps ++ [f]) else []
  | _ => []

/-- strip-all: exactly the plain bytes survive. -/
theorem strip_all_eq_lex (toks : List Tok) (hwf : WF toks) (hb : Bytes (bytesOf toks))
    (h0 : ∀ b ∈ bytesOf toks, b ≠ 0) :
    stripAnsi (bytesOf toks) STRIP_ANSI_ALL = .ok (toks.flatMap keepAll) := by
  rw [strip_eq_lex toks _ hwf hb h0]
  congr 2
  funext t
  have h1 : STRIP_ANSI_ALL ≠ STRIP_ANSI_NO_RELOAD := by decide +kernel
  have h2 : STRIP_ANSI_ALL ≠ STRIP_ANSI_ONLY_COLOR := by decide +kernel
  cases t <;> simp [keepTok, keepAll, h1, h2]

/-- only-colour: plain bytes and exactly the `ESC [ … m` sequences survive, byte-identical. -/
theorem strip_color_eq_lex (toks : List Tok) (hwf : WF toks) (hb : Bytes (bytesOf toks))
    (h0 : ∀ b ∈ bytesOf toks, b ≠ 0) :
    stripAnsi (bytesOf toks) STRIP_ANSI_ONLY_COLOR = .ok (toks.flatMap keepColor) := by
  rw [strip_eq_lex toks _ hwf hb h0]
  congr 2
  funext t
  have hne : STRIP_ANSI_ONLY_COLOR ≠ STRIP_ANSI_NO_RELOAD := by decide +kernel
  cases t <;> simp [keepTok, keepColor, hne, Tok.bytes]

/-- no-reload: plain bytes and exactly the CSI sequences whose final byte is one of `ABCDHIJKfhlmsu` survive. -/
theorem strip_noreload_eq_lex (toks : List Tok) (hwf : WF toks) (hb : Bytes (bytesOf toks))
    (h0 : ∀ b ∈ bytesOf toks, b ≠ 0) :
    stripAnsi (bytesOf toks) STRIP_ANSI_NO_RELOAD = .ok (toks.flatMap keepNoReload) := by
  rw [strip_eq_lex toks _ hwf hb h0]
  have hne : STRIP_ANSI_NO_RELOAD ≠ STRIP_ANSI_ONLY_COLOR := by decide +kernel
  have hb' : ∀ t ∈ toks, ∀ b ∈ t.bytes, b < 256 := fun t ht b hbm => hb b (by
    simp only [bytesOf, List.mem_flatMap]; exact ⟨t, ht, hbm⟩)
  apply congrArg
  apply flatMap_congr'
  intro t ht
  cases t with
  | csi ps f =>
    have hf : f < 256 := hb' _ ht f (by simp [Tok.bytes])
    have hcls := escape_flag_classes.2 f hf
    have : isCmdB f = true ↔ f ∈ cmdChars := by
      unfold isCmdB
      rw [hcls]
      by_cases h1 : f ∈ paramChars
      · have : f ∉ cmdChars := by
          revert h1; unfold paramChars cmdChars; simp; omega
        simp [h1, this]
      · by_cases h2 : f ∈ cmdChars <;> simp [h1, h2]
    simp [keepTok, keepNoReload, hne, Tok.bytes, this]
  | _ => simp [keepTok, keepNoReload]

/-- strip-all: no ESC byte survives (for every flag value that is not one of the two keeping modes). -/
theorem strip_all_no_esc (src : List Nat) (flag : Nat) (hb : Bytes src)
    (h1 : flag ≠ STRIP_ANSI_NO_RELOAD) (h2 : flag ≠ STRIP_ANSI_ONLY_COLOR) (out : List Nat)
    (h : stripAnsi src flag = .ok out) : ESC ∉ out := by
  rw [stripAnsi_eq_run src flag hb] at h
  injection h with h
  subst h
  exact run_all_no_esc flag h1 h2 .text src

/-- no mode lets a NUL through, and the output is never longer than the C string. -/
theorem strip_no_nul (src : List Nat) (flag : Nat) (hb : Bytes src) (out : List Nat)
    (h : stripAnsi src flag = .ok out) : 0 ∉ out := by
  rw [stripAnsi_eq_run src flag hb] at h
  injection h with h
  subst h
  exact run_no_nul flag .text src (by simp [St.pend])

/-- stripping twice equals stripping once — in strip-all mode (the property's clause) and in the two keeping
modes as well. -/
theorem strip_idem (src : List Nat) (flag : Nat) (hb : Bytes src) (out : List Nat)
    (h : stripAnsi src flag = .ok out) : stripAnsi out flag = .ok out := by
  rw [strip_cstr src flag hb] at h
  have hb' : Bytes (cstr src) := fun b h => hb b (mem_of_mem_cstr _ _ h)
  obtain ⟨toks, hwf, hbytes⟩ := lex_complete (cstr src)
  have h0 : ∀ b ∈ bytesOf toks, b ≠ 0 := by rw [hbytes]; exact cstr_nonzero src
  rw [← hbytes, strip_eq_lex toks flag hwf (by rw [hbytes]; exact hb') h0] at h
  injection h with h
  subst h
  have hbo : Bytes (toks.flatMap (keepTok flag)) := by
    intro b hbm
    simp only [List.mem_flatMap] at hbm
    obtain ⟨t, ht, hbt⟩ := hbm
    have : b ∈ t.bytes := by
      rcases keepTok_cases flag t with hk | ⟨hk, _⟩
      · rw [hk] at hbt; simp at hbt
      · rwa [hk] at hbt
    exact hb' b (by rw [← hbytes]; simp only [bytesOf, List.mem_flatMap]; exact ⟨t, ht, this⟩)
  rw [stripAnsi_eq_run _ flag hbo, run_kept_toks flag toks hwf h0]

theorem strip_all_idem (src : List Nat) (hb : Bytes src) (out : List Nat)
    (h : stripAnsi src STRIP_ANSI_ALL = .ok out) : stripAnsi out STRIP_ANSI_ALL = .ok out :=
  strip_idem src _ hb out h

/-! non-vacuity: a lexing with all five kinds of unit, and the three modes on it (kernel evaluation of the
index/fuel model itself) -/
def sampleToks : List Tok :=
  [.plain 97, .csi [51, 49] 109, .escOther 99, .csi [] 72, .plain 98, .csi [50] 90, .csiTrunc [51, 59]]
example : WF sampleToks := by
  simp only [sampleToks, WF, Tok.ok, Tok.complete]
  decide +kernel
example : stripAnsi (bytesOf sampleToks) 0 = .ok [97, 98] := by rfl
example : stripAnsi (bytesOf sampleToks) 1 = .ok [97, 27, 91, 51, 49, 109, 98] := by rfl
example : stripAnsi (bytesOf sampleToks) 2 = .ok [97, 27, 91, 51, 49, 109, 27, 91, 72, 98] := by rfl
example : stripAnsi [27, 91, 51] 0 = .ok [] ∧ stripAnsi [27, 91] 2 = .ok [] ∧ stripAnsi [27] 1 = .ok [] := by
  refine ⟨by rfl, by rfl, by rfl⟩

/-! ## Group 3 — ReadLine, hashes, DBCS helpers, Trim, TrimDBCS -/

/-! ### types.ReadLine (the bufio reader is a byte string; `readLines` iterates `ReadLine` until io.EOF) -/

/-- what "one CR removed" means. -/
theorem stripCR_spec : stripCR [] = [] ∧ ∀ (L : List Nat) (b : Nat), stripCR (L ++ [b]) = if b = 13 then L else L ++ [b] :=
  ⟨rfl, stripCR_snoc⟩

/-- every line comes back without its terminator — one LF and at most one CR removed —, empty lines included,
a last line without LF included, nothing after a final LF; no fault, the loop ends. -/
theorem readLine_spec (ls : List (List Nat)) (tail : List Nat) (hls : ∀ l ∈ ls, 10 ∉ l) (ht : 10 ∉ tail) :
    readLines (joinLF ls ++ tail) = .ok (ls.map stripCR ++ (if tail = [] then [] else [stripCR tail])) := by
  unfold readLines
  apply readAll_spec ls tail _ hls ht
  have := joinLF_length ls
  by_cases h : tail = []
  · simp [h]; omega
  · have : 0 < tail.length := List.length_pos_iff.mpr h
    simp [h]; omega

/-- the previous statement covers every input: each byte string is LF-terminated lines plus an LF-free rest. -/
theorem readLine_complete (s : List Nat) :
    ∃ ls tail, s = joinLF ls ++ tail ∧ (∀ l ∈ ls, 10 ∉ l) ∧ 10 ∉ tail := lines_complete s

theorem readLine_total (s : List Nat) : ∃ r, readLines s = .ok r := by
  obtain ⟨ls, tail, rfl, h1, h2⟩ := lines_complete s
  exact ⟨_, readLine_spec ls tail h1 h2⟩

example : readLines [97, 10, 10, 98, 13, 10, 13, 10, 99, 13] = .ok [[97], [], [98], [], [99]] := by rfl
example : readLines [10] = .ok [[]] := by rfl

/-! ### cmsys.StringHash / StringHashWithHashBits / fnv1a32StrCase -/

theorem fnv_constants : FNV_32_PRIME = 16777619 ∧ FNV1_32_INIT = 33554467 ∧ HASH_BITS = 16 :=
  ⟨fnv_prime_eq, fnv_init_eq, hash_bits_eq⟩

/-- the hash is FNV-1a (32 bit, pttbbs offset basis) over the upper-cased NUL-terminated prefix. -/
theorem strhash_eq_fnv1a (s : List Nat) : stringHash s = fnv1a ((cstr s).map ccharToupper) 33554467 := by
  unfold stringHash
  rw [fnv1a32StrCase_eq, fnv_init_eq]

/-- strings that are equal up to ASCII case (on their C strings) have the same hash. -/
theorem strhash_case_insensitive (a b : List Nat)
    (h : (cstr a).map ccharTolower = (cstr b).map ccharTolower) :
    stringHash a = stringHash b ∧ stringHashWithHashBits a = stringHashWithHashBits b := by
  have : stringHash a = stringHash b := by
    rw [strhash_eq_fnv1a, strhash_eq_fnv1a, map_upper_of_lower_eq _ _ h]
  exact ⟨this, by unfold stringHashWithHashBits; rw [this]⟩

/-- in particular `Cstrcasecmp a b = 0` implies equal hashes (what the user-id index of C04 relies on). -/
theorem strhash_of_casecmp_zero (a b : List Nat) (h : cstrcasecmp a b = .ok 0) : stringHash a = stringHash b :=
  (strhash_case_insensitive a b ((casecmp_eq_zero_iff a b).mp h)).1

theorem hashbits_lt (s : List Nat) : stringHashWithHashBits s < 2 ^ HASH_BITS := by
  unfold stringHashWithHashBits
  rw [Nat.one_shiftLeft]
  exact Nat.mod_lt _ (Nat.two_pow_pos _)

/-! ### cmsys.DBCSNextStatus / DBCSStatus / DBCSSafeTrim -/

/-- for a non-empty string and `pos ≥ 0`: no fault, and the status is the one the left-to-right scan assigns to
the byte at `pos` (the last byte when `pos` is past the end). -/
theorem dbcsStatus_spec (str : List Nat) (p : Nat) (h : str ≠ []) :
    dbcsStatus str (Int.ofNat p) = .ok (dbcsFold (str.take (p + 1))) := dbcsStatus_spec' str p h

theorem dbcsStatus_neg (str : List Nat) (n : Nat) : dbcsStatus str (Int.negSucc n) = .ok DBCS_ASCII := rfl

/-- observation (not judged): on the empty string with `pos ≥ 0` the code indexes `str[0]` and panics;
`DBCSSafeTrim`, the only caller, checks the length first. -/
theorem dbcsStatus_empty_faults (p : Nat) : dbcsStatus [] (Int.ofNat p) = .error .panic := rfl

/-- the scan's meaning: after whole characters (ASCII bytes, lead+any byte) the status is never LEADING;
after whole characters plus one more byte ≥ 0x80 it is LEADING. -/
theorem dbcsFold_units (us : List DUnit) (hok : ∀ u ∈ us, u.ok) :
    dbcsFold (unitsBytes us) ≠ DBCS_LEADING ∧ ∀ l, 128 ≤ l → dbcsFold (unitsBytes us ++ [l]) = DBCS_LEADING := by
  have h1 := foldl_units us hok DBCS_ASCII (by have := dbcs_consts; omega)
  refine ⟨h1, fun l hl => ?_⟩
  simp only [dbcsFold, List.foldl_append, List.foldl_cons, List.foldl_nil]
  exact next_lead _ _ h1 hl

/-- `DBCSSafeTrim` never splits a double-byte character: whole characters are returned unchanged, a dangling
lead byte at the end is removed and nothing else. -/
theorem dbcsSafeTrim_no_split (us : List DUnit) (hok : ∀ u ∈ us, u.ok) :
    dbcsSafeTrim (unitsBytes us) = .ok (unitsBytes us) ∧
    ∀ l, 128 ≤ l → dbcsSafeTrim (unitsBytes us ++ [l]) = .ok (unitsBytes us) :=
  ⟨dbcsSafeTrim_whole' us hok, fun l hl => dbcsSafeTrim_dangling' us hok l hl⟩

/-- the two forms above are all byte strings. -/
theorem dbcs_units_complete (s : List Nat) :
    ∃ us, (∀ u ∈ us, u.ok) ∧ (s = unitsBytes us ∨ ∃ l, 128 ≤ l ∧ s = unitsBytes us ++ [l]) := units_complete s

/-- totality, empty string included: the result is always a whole number of characters. -/
theorem dbcs_total (s : List Nat) : ∃ us, (∀ u ∈ us, u.ok) ∧ dbcsSafeTrim s = .ok (unitsBytes us) := by
  obtain ⟨us, hok, h | ⟨l, hl, h⟩⟩ := units_complete s
  · exact ⟨us, hok, by rw [h]; exact dbcsSafeTrim_whole' us hok⟩
  · exact ⟨us, hok, by rw [h]; exact dbcsSafeTrim_dangling' us hok l hl⟩

example : dbcsSafeTrim [97, 164, 164, 164] = .ok [97, 164, 164] := by rfl
example : dbcsSafeTrim [] = .ok [] := by rfl

/-! ### cmsys.Trim -/

/-- `Trim` never faults; it returns the C string without its trailing blanks, all of them and only them. -/
theorem trim_spec (s : List Nat) :
    ∃ r k, trim s = .ok r ∧ cstr s = r ++ List.replicate k 32 ∧ (r = [] ∨ ∃ L x, r = L ++ [x] ∧ x ≠ 32) := by
  obtain ⟨k, h1, h2⟩ := trimRightSp_spec (cstr s)
  refine ⟨trimRightSp (cstr s), k, ?_, h1, h2⟩
  unfold trim
  rw [cstrToBytes_eq']; rfl

/-! ### types.TrimDBCS (after fix 279321c) -/

/-- `TrimDBCS` never splits a double-byte character, at full strength: a C string made of whole characters is
returned unchanged (array untouched); one that ends in a dangling lead byte loses exactly that byte (zeroed in
the caller's array). No fault in either case. -/
theorem trimDBCS_no_split (s : List Nat) (us : List DUnit) (hok : ∀ u ∈ us, u.ok) :
    (cstr s = unitsBytes us → trimDBCS s = .ok (unitsBytes us, s)) ∧
    (∀ l, 128 ≤ l → cstr s = unitsBytes us ++ [l] →
      trimDBCS s = .ok (unitsBytes us, s.set (unitsBytes us).length 0)) := by
  obtain ⟨h1, h2⟩ := dbcsFold_units us hok
  constructor
  · intro h
    have := trimDBCS_keep s (by rw [h]; exact h1)
    rw [h] at this; exact this
  · intro l hl h
    exact trimDBCS_cut s _ l h (by rw [h]; exact h2 l hl)

/-- totality, the empty string included (O7 is gone): the result is always a whole number of characters and a
prefix of the C string. -/
theorem trimDBCS_total (s : List Nat) :
    ∃ us buf, (∀ u ∈ us, u.ok) ∧ trimDBCS s = .ok (unitsBytes us, buf) ∧ unitsBytes us <+: cstr s := by
  obtain ⟨us, hok, h | ⟨l, hl, h⟩⟩ := units_complete (cstr s)
  · exact ⟨us, s, hok, (trimDBCS_no_split s us hok).1 h, by rw [h]; exact List.prefix_refl _⟩
  · exact ⟨us, _, hok, (trimDBCS_no_split s us hok).2 l hl h, by rw [h]; exact List.prefix_append _ _⟩

/-- `TrimDBCS` and `DBCSSafeTrim` agree on the C string. -/
theorem trimDBCS_eq_safeTrim (s : List Nat) :
    ∃ r buf, trimDBCS s = .ok (r, buf) ∧ dbcsSafeTrim (cstr s) = .ok r := by
  obtain ⟨us, hok, h | ⟨l, hl, h⟩⟩ := units_complete (cstr s)
  · exact ⟨_, _, (trimDBCS_no_split s us hok).1 h, by rw [h]; exact dbcsSafeTrim_whole' us hok⟩
  · exact ⟨_, _, (trimDBCS_no_split s us hok).2 l hl h, by rw [h]; exact dbcsSafeTrim_dangling' us hok l hl⟩

/-- before fix 279321c (finding `split:trimdbcs`, now recorded as fixed): the old body cut the trail byte of a
complete character and faulted on the empty string; the current model does neither on the same inputs. -/
theorem trimDBCS_before_fix_witness :
    trimDBCSOld [164, 164, 0] = .ok ([164], [164, 0, 0]) ∧ dbcsFold [164] = DBCS_LEADING ∧
    trimDBCSOld [0] = .error .panic ∧
    trimDBCS [164, 164, 0] = .ok ([164, 164], [164, 164, 0]) ∧ trimDBCS [0] = .ok ([], [0]) := by
  refine ⟨by rfl, by decide +kernel, by rfl, by rfl, by rfl⟩

example : trimDBCS [97, 164, 164, 164, 0, 7] = .ok ([97, 164, 164], [97, 164, 164, 0, 0, 7]) := by rfl

/-! ### cmsys.StripNoneBig5 (works in place; the model returns the slice and the array afterwards) -/

/-- totality and exact effect, for every input (no index is read or written outside the slice, the loop ends):
the result is the filter `nb5` of the input, the array holds the result, then — only if there is room — one NUL,
then the untouched rest of the original bytes. -/
theorem stripNoneBig5_total (s : List Nat) :
    stripNoneBig5 s = .ok (nb5 s,
      nb5 s ++ (if (nb5 s).length < s.length then 0 :: s.drop ((nb5 s).length + 1) else [])) :=
  stripNoneBig5_eq s

/-- what survives is well-formed and nothing is invented: printable ASCII bytes and (lead ≥ 0x80, valid Big5
trail byte) pairs — so no double-byte character is ever split, no control byte and no lone lead byte survives —,
in the original order, all taken from before the first NUL. -/
theorem stripNoneBig5_safe (s : List Nat) (hb : Bytes s) : Big5Safe (nb5 s) ∧ (nb5 s).Sublist (cstr s) :=
  nb5_props s hb

/-- nothing well-formed is lost: a well-formed string is returned unchanged … -/
theorem stripNoneBig5_keeps_wellformed (s : List Nat) (h : Big5Safe s) : nb5 s = s := nb5_of_safe s h

/-- … hence sanitizing twice equals sanitizing once. -/
theorem stripNoneBig5_idem (s : List Nat) (hb : Bytes s) : nb5 (nb5 s) = nb5 s :=
  nb5_of_safe _ (nb5_props s hb).1

example : stripNoneBig5 [97, 1, 164, 64, 164, 32, 200, 0, 98] = .ok ([97, 164, 64, 32], [97, 164, 64, 32, 0, 32, 200, 0, 98]) := by rfl
example : stripNoneBig5 [164] = .ok ([], [0]) := by rfl
example : Big5Safe [97, 164, 64, 32] := .ascii 97 _ (by omega) (by omega) (.dbcs 164 64 _ (by omega) (by omega) (by decide) (.ascii 32 _ (by omega) (by omega) .nil))

/-! ### cmsys.StrcaseStartsWith / cmbbs.SubjectEx (after fix ff0e11f) -/

/-- the prefix test never faults and is `strncasecmp(str, prefix, len(prefix)) == 0` with ASCII-only folding:
the folded prefix is a prefix of the folded string (bytes ≥ 0x80 are compared as they are). -/
theorem strcaseStartsWith_spec (str pre : List Nat) :
    strcaseStartsWith str pre = .ok (hasPrefix (str.map ccharTolower) (pre.map ccharTolower)) ∧
    strcaseStartsWith str pre = .ok (cstrCaseHasPrefix str pre) :=
  ⟨strcaseStartsWith_eq str pre, strcaseStartsWith_eq str pre⟩

/-- which bytes a matched prefix stands for: three ASCII bytes for `Re:` / `Fw:`, exactly the six bytes
`[` C2 E0 BF FD `]` for the legacy forward tag. -/
theorem subjectEx_prefix_shape (p : List Nat) (n ty : Nat) (h : subjectStep p = .ok (some (n, ty))) :
    n ≤ p.length ∧ 3 ≤ n ∧
    ((∃ x y z r, n = 3 ∧ p = x :: y :: z :: r ∧ x < 128 ∧ y < 128 ∧ z < 128) ∨
     (∃ r, n = 6 ∧ p = 91 :: 0xC2 :: 0xE0 :: 0xBF :: 0xFD :: 93 :: r)) := by
  rw [subjectStep_eq] at h
  injection h with h
  exact subjectStepP_spec p n ty h

/-- totality: no slice or index faults, the loop ends, and the returned title is a suffix of the title's
C string — for every 65-byte array, with or without a NUL. -/
theorem subjectEx_total (title : List Nat) :
    ∃ ty pre r, subjectEx title = .ok (ty, r) ∧ cstr title = pre ++ r := by
  unfold subjectEx
  rw [cstrToBytes_eq']
  obtain ⟨ty, pre, r, h1, h2, _⟩ := subjectLoop_spec ((cstr title).length + 1) (cstr title) SUBJECT_NORMAL (by omega)
  exact ⟨ty, pre, r, h1, h2⟩

/-- `SubjectEx` never splits a double-byte character, at full strength (every title): what is cut off in front
ends at a character boundary of the title. -/
theorem subjectEx_no_split (title : List Nat) :
    ∃ ty pre r, subjectEx title = .ok (ty, r) ∧ cstr title = pre ++ r ∧ dbcsFold pre ≠ DBCS_LEADING := by
  unfold subjectEx
  rw [cstrToBytes_eq']
  obtain ⟨ty, pre, r, h1, h2, h3⟩ := subjectLoop_spec ((cstr title).length + 1) (cstr title) SUBJECT_NORMAL (by omega)
  exact ⟨ty, pre, r, h1, h2, h3 DBCS_ASCII (by have := dbcs_consts; omega)⟩

/-- the former witnesses of finding `split:subjectex` and observation O8 (both gone with ff0e11f): a bracketed tag
of other bytes ≥ 0x80 is no longer taken for the legacy forward tag, the real tag still is. -/
theorem subjectEx_former_witnesses :
    subjectEx [91, 0xEF, 0xBF, 0xBD, 0xA4, 0xA4, 0xA4, 93, 120, 0] =
      .ok (SUBJECT_NORMAL, [91, 0xEF, 0xBF, 0xBD, 0xA4, 0xA4, 0xA4, 93, 120]) ∧
    subjectEx [91, 0xB6, 0xA2, 0xB2, 0xE1, 93, 32, 104, 105, 0] =
      .ok (SUBJECT_NORMAL, [91, 0xB6, 0xA2, 0xB2, 0xE1, 93, 32, 104, 105]) ∧
    subjectEx [91, 0xC2, 0xE0, 0xBF, 0xFD, 93, 32, 104, 105, 0] = .ok (SUBJECT_FORWARD, [104, 105]) := by
  refine ⟨by rfl, by rfl, by rfl⟩

example : subjectEx [82, 69, 58, 32, 102, 119, 58, 91, 0xC2, 0xE0, 0xBF, 0xFD, 93, 32, 32, 120, 0] = .ok (SUBJECT_FORWARD, [32, 120]) := by
  rfl
example : subjectEx [82, 101, 0] = .ok (SUBJECT_NORMAL, [82, 101]) := by rfl

/-! ## Result ownership — a result stays what it was, whatever is called afterwards

`Model/C18Alias.lean`: slices are (backing array, offset, length) over a heap; a history is a list of calls whose
arguments are literals or earlier results still held by the caller. The driver prints what the caller holds as
read from the heap AFTER the history. -/

/-- for every history `s1 ++ s2` of calls of the slice-returning helpers (StripAnsi in any mode, CstrToBytes,
CstrTolower/Toupper, CstrTokenR, DBCSSafeTrim, Trim, ReadLine, StripNoneBig5, TrimDBCS, SubjectEx): everything the
caller holds after `s1` is still held and reads byte for byte the same after `s2` — no call writes into memory
that an earlier result occupies. -/
theorem hist_stable (s1 s2 : List Step) (h1 hF : Heap) (held1 heldF : List Res)
    (hr1 : histRun [] [] s1 = some (.ok (h1, held1)))
    (hrF : histRun [] [] (s1 ++ s2) = some (.ok (hF, heldF))) :
    held1 <+: heldF ∧ ∀ r ∈ held1, ∀ s ∈ r.sls, hF.rd s = h1.rd s := by
  have hv0 : HeldValid [] [] := by intro r hr; simp at hr
  obtain ⟨_, hv1, _⟩ := histRun_spec s1 [] [] h1 held1 hv0 hr1
  rw [histRun_append s1 s2 [] [] h1 held1 hr1] at hrF
  obtain ⟨⟨extra, rfl⟩, _, hp⟩ := histRun_spec s2 h1 held1 hF heldF hv1 hrF
  exact ⟨hp, fun r hr s hs => rd_append h1 extra s (hv1 r hr s hs)⟩

/-- what a StripAnsi call on a literal hands to its caller is the stripped text of its input. -/
theorem strip_result_value (h : Heap) (held : List Res) (flag : Nat) (b : List Nat) (h' : Heap) (r : Res)
    (hrun : stepRun h held (.strip flag (.lit b)) = some (.ok (h', r))) :
    ∃ out, stripAnsi b flag = .ok out ∧ r.sls.map h'.rd = [out] := by
  have hrd : (h ++ [b]).rd ⟨h.length, 0, b.length⟩ = b := (alloc_spec h b).2.2
  simp only [stepRun, resolve, alloc, Option.map_some, Option.some.injEq, bind, Except.bind, hrd] at hrun
  cases ho : stripAnsi b flag with
  | error e => simp [ho] at hrun
  | ok out =>
    simp only [ho, pure, Except.pure, Except.ok.injEq, Prod.mk.injEq] at hrun
    obtain ⟨rfl, rfl⟩ := hrun
    refine ⟨out, rfl, ?_⟩
    simp [Heap.rd, List.getD]

/-- the two together, the clause the property needs: a StripAnsi result, read after ANY later history (more
stripping in other modes, of other messages, of this very result), is still the stripped text of its own input
(so in strip-all mode it still holds no ESC byte, and stripping it again still gives the same). -/
theorem strip_held_value (pre s2 : List Step) (flag : Nat) (b : List Nat) (h0 h1 hF : Heap)
    (held0 heldF : List Res) (r : Res)
    (hpre : histRun [] [] pre = some (.ok (h0, held0)))
    (hstep : stepRun h0 held0 (.strip flag (.lit b)) = some (.ok (h1, r)))
    (hall : histRun [] [] ((pre ++ [.strip flag (.lit b)]) ++ s2) = some (.ok (hF, heldF))) :
    ∃ out, stripAnsi b flag = .ok out ∧ r.sls.map hF.rd = [out] ∧ r ∈ heldF := by
  have h1run : histRun [] [] (pre ++ [.strip flag (.lit b)]) = some (.ok (h1, held0 ++ [r])) := by
    rw [histRun_append pre _ [] [] h0 held0 hpre]
    simp [histRun, hstep, pure, Except.pure]
  obtain ⟨hp, hst⟩ := hist_stable _ s2 h1 hF (held0 ++ [r]) heldF h1run hall
  obtain ⟨out, ho, hv⟩ := strip_result_value h0 held0 flag b h1 r hstep
  refine ⟨out, ho, ?_, hp.subset (by simp)⟩
  rw [← hv]
  apply List.map_congr_left
  intro s hs
  exact hst r (by simp) s hs

/-- the broken rule (seed C18-r4-2): with ONE scratch buffer shared by all calls, an earlier result changes under
its holder — the strip-all result `ab` of the first call reads `ESC [` after an only-colour call. -/
theorem stripPooled_witness :
    ∃ h1 s1 h2 s2, stripPooled [] [97, 27, 91, 72, 98] STRIP_ANSI_ALL = .ok (h1, s1) ∧ h1.rd s1 = [97, 98] ∧
      stripPooled h1 [27, 91, 109, 120] STRIP_ANSI_ONLY_COLOR = .ok (h2, s2) ∧ h2.rd s1 = [27, 91] := by
  refine ⟨_, _, _, _, by rfl, by rfl, by rfl, by rfl⟩

/-! non-vacuity: a history that re-reads and re-uses earlier results -/
example : histObserve [.strip 0 (.lit [97, 27, 91, 72, 98]), .strip 1 (.lit [27, 91, 109, 120]), .strip 0 (.ref 0),
    .nb5 [97, 1, 164], .toBytes (.ref 1)] =
    some (.ok [(none, [[97, 98]]), (none, [[27, 91, 109, 120]]), (none, [[97, 98]]), (none, [[97]]),
      (none, [[27, 91, 109, 120]])]) := by rfl

/-! ## ptt.StripANSIMoveCmd (ptt/kaede.go) -/

/-- totality (the loop ends on every line, also when an ESC directly follows an ESC or a cut-off sequence) and the
exact result: the two-state scan; the length never changes. -/
theorem moveCmd_total (l : List Nat) :
    stripANSIMoveCmd l = .ok (mvScan false l) ∧ (mvScan false l).length = l.length :=
  ⟨stripANSIMoveCmd_eq_scan l, mvScan_length false l⟩

/-- the clause: after StripANSIMoveCmd no `ESC code* final` with `code ∈ 0-9;,[` and `final ∈ ABCDfjHJRu` remains
anywhere in the line — none that was there, and none that the rewriting could have formed. -/
theorem moveCmd_no_move (l r : List Nat) (h : stripANSIMoveCmd l = .ok r) :
    ¬ ∃ pre codes c post, r = pre ++ MV_ESC :: (codes ++ c :: post) ∧ (∀ x ∈ codes, mvIsCode x = true) ∧
      mvIsMove c = true := by
  rw [stripANSIMoveCmd_eq_scan] at h
  cases h
  intro hex
  have := (mvHasMove_iff _).mpr hex
  rw [(mvScan_no_move l).1] at this
  cases this

/-- the broken rule (seed C18-r5-1) as a witness: resuming the scan BEHIND the byte just examined swallows an ESC
in that position — `ESC ESC [ 2 J` and `ESC [ 1 ; ESC [ H` keep their commands; the real scan defuses both. -/
theorem moveCmd_skip_witness :
    mvHasMove (mvScanSkip false [27, 27, 91, 50, 74]) = true ∧
    mvHasMove (mvScanSkip false [27, 91, 49, 59, 27, 91, 72]) = true ∧
    stripANSIMoveCmd [27, 27, 91, 50, 74] = .ok [27, 27, 91, 50, 115] ∧
    stripANSIMoveCmd [27, 91, 49, 59, 27, 91, 72] = .ok [27, 91, 49, 59, 27, 91, 115] := by
  refine ⟨by decide +kernel, by decide +kernel, by rfl, by rfl⟩

/-! ## cmsys.StrcaseStartsWith on single bytes (seed C18-r5-2) -/

/-- two single bytes match iff they are equal after folding `A`–`Z` only — in particular bytes that differ just
in bit 5 match only when they are a letter pair. -/
theorem startsWith_byte (a b : Nat) :
    strcaseStartsWith [a] [b] = .ok (decide (ccharTolower a = ccharTolower b)) := by
  rw [strcaseStartsWith_eq]
  by_cases h : ccharTolower a = ccharTolower b <;> simp [hasPrefix, h]

/-- the broken rule as a witness: `[`/`{`, `:`/0x1a and 0xC2/0xE2 differ in bit 5 only and must NOT match. -/
theorem startsWith_bit5_witness :
    (91 ^^^ 123) &&& 223 = 0 ∧ strcaseStartsWith [123] [91] = .ok false ∧
    strcaseStartsWith [26] [58] = .ok false ∧ strcaseStartsWith [0xE2] [0xC2] = .ok false ∧
    strcaseStartsWith [65] [97] = .ok true := by
  refine ⟨by decide, by rfl, by rfl, by rfl, by rfl⟩

/-! ## Call sites (seeds C18-r6-1, C18-r6-2) -/

/-- regenerated from ptt/talk.go and ptt/bbs.go on every run: `myWrite` passes EVERY message through
`cmsys.StripAnsi(prompt, cmsys.STRIP_ANSI_ALL)` (a statement of the function body itself, the only assignment of
`msg`, which is what `myWriteMsg` gets); `CrossPost` first copies the title into the 65-byte field and then calls
`TrimDBCS` on the field. A fast path around the stripping, or the two title statements in another order or
shape, breaks this theorem. -/
theorem callsite_facts :
    Gen.C18Str.myWriteStripsUnconditionally = true ∧
    Gen.C18Str.crossPostTitleStmts = ["copy(xFileHeader.Title[:], title)", "types.TrimDBCS(xFileHeader.Title[:])"] ∧
    LAST_CALL_IN = 76 := by
  decide +kernel

/-- what the receiver's message queue holds (`LastCallIn`) never contains an ESC byte, whatever the sender's
text — ESC not followed by `[`, a lone ESC at the end, ESC ESC included — and the call never faults. -/
theorem lastCallIn_no_esc (prompt : List Nat) (hb : Bytes prompt) :
    ∃ f, lastCallIn prompt = .ok f ∧ f.length = LAST_CALL_IN ∧ ESC ∉ f := by
  obtain ⟨out, ho⟩ := strip_total prompt STRIP_ANSI_ALL hb
  have hne := strip_all_no_esc prompt STRIP_ANSI_ALL hb (by decide +kernel) (by decide +kernel) out ho
  refine ⟨copyInto LAST_CALL_IN out, by simp [lastCallIn, ho, bind, Except.bind, pure, Except.pure], by simp, ?_⟩
  intro hm
  simp only [copyInto, List.mem_append, List.mem_replicate] at hm
  rcases hm with hm | ⟨_, hm⟩
  · exact hne (List.mem_of_mem_take hm)
  · exact ESC_ne_zero hm

/-- the broken rule (seed C18-r6-1): stripping only texts that contain `ESC [` lets `hi ESC * s` through. -/
theorem lastCallIn_fastpath_witness :
    ∃ f, lastCallInFastPath [104, 105, 27, 42, 115] = .ok f ∧ ESC ∈ f ∧
      lastCallIn [104, 105, 27, 42, 115] = .ok (copyInto LAST_CALL_IN [104, 105, 115]) := by
  refine ⟨_, by rfl, by decide +kernel, by rfl⟩

/-- the Title stored for a cross-posted article never ends in half a character: the call never faults, the
field keeps its 65 bytes, and its C string is a whole number of characters — for every original title, in
particular the 62–64 byte ones whose byte 60 is a lead byte (cut by the copy, repaired by TrimDBCS). -/
theorem crossPostTitle_no_split (title : List Nat) :
    ∃ f r us, crossPostTitle title = .ok f ∧ (∀ u ∈ us, u.ok) ∧
      trimDBCS (copyInto (TTLEN + 1) (STR_FORWARD ++ [32] ++ cstr title)) = .ok (r, f) ∧ r = unitsBytes us := by
  obtain ⟨us, buf, hok, hrun, _⟩ := trimDBCS_total (copyInto (TTLEN + 1) (STR_FORWARD ++ [32] ++ cstr title))
  refine ⟨buf, unitsBytes us, us, ?_, hok, hrun, rfl⟩
  unfold crossPostTitle
  simp only [bind, Except.bind]
  rw [hrun]; rfl

set_option maxRecDepth 8000 in
/-- the broken order (seed C18-r6-2) on a 62-byte title whose byte 60 is a lead byte: trimming the temporary and
copying afterwards leaves the lead byte A4 as the 65th byte; the real order zeroes it. -/
theorem crossPostTitle_order_witness :
    (∃ f, crossPostTitleTrimFirst (List.replicate 60 97 ++ [164, 164]) = .ok f ∧ f.getLast? = some 164 ∧
      dbcsFold f = DBCS_LEADING) ∧
    (∃ f, crossPostTitle (List.replicate 60 97 ++ [164, 164]) = .ok f ∧ f.getLast? = some 0) := by
  refine ⟨⟨_, by rfl, by decide +kernel, by decide +kernel⟩, ⟨_, by rfl, by decide +kernel⟩⟩

end PttVerif.C18.Props
