import PttVerif.Proofs.C15
/-
C15 — Concurrent registrations cannot duplicate a user id or share a slot.

Theorems quantify over ALL states reachable by ANY interleaving of the atomic steps of ANY number of
registration threads, any initial duplicate-free table, any capacity and any slot search `pick` that
returns empty slots — under the one fact about the source that the existence lookup is repeated under
the passwd lock, which is read from ptt.SetupNewUser by the translator (`source_checks_under_lock`).
-/
namespace PttVerif.C15.Props
open PttVerif.C15

/-- the source (regenerated on every run) repeats the existence lookup under the passwd lock. -/
theorem source_checks_under_lock : sourceChecksUnderLock = true := by decide

/-- the source has the unlocked lookup, the slot search, both writes and the unlock. -/
theorem source_calls_wellformed : wellFormedCalls Gen.Reg.setupNewUserCalls = true := by decide

section
variable (P : Params) (tbl0 : Nat → Option Nat) (pk : PickOK P) (hcul : P.checkUnderLock = true)
  (h0 : ∀ i j a, tbl0 i = some a → tbl0 j = some a → i = j) (hb : ∀ k, P.cap ≤ k → tbl0 k = none)
include pk hcul h0 hb

theorem invariant (s : Sys) (h : Reachable P tbl0 s) : Inv P tbl0 s :=
  reachable_inv P tbl0 pk hcul h0 hb s h

/-- the shared index never holds one (case-folded) id in two slots. -/
theorem table_never_duplicates (s : Sys) (h : Reachable P tbl0 s) (i j a : Nat)
    (hi : s.table i = some a) (hj : s.table j = some a) : i = j :=
  (reachable_inv P tbl0 pk hcul h0 hb s h).nodup i j a hi hj

/-- at most one request for the same id reports success. -/
theorem at_most_one_success_per_id (s : Sys) (h : Reachable P tbl0 s) (t u k l : Nat)
    (ht : s.pc t = .done (.ok k)) (hu : s.pc u = .done (.ok l)) (hid : P.idOf t = P.idOf u) : t = u := by
  have inv := reachable_inv P tbl0 pk hcul h0 hb s h
  obtain ⟨a1, _, a3⟩ := inv.ok_slot t k (by rw [ht]; rfl)
  obtain ⟨b1, _, b3⟩ := inv.ok_slot u l (by rw [hu]; rfl)
  rw [hid] at a1
  have hkl : k = l := inv.nodup k l _ a1 b1
  subst hkl
  rw [a3] at b3; exact Option.some.inj b3

/-- two different successful requests never receive the same slot. -/
theorem slots_distinct (s : Sys) (h : Reachable P tbl0 s) (t u k : Nat)
    (ht : s.pc t = .done (.ok k)) (hu : s.pc u = .done (.ok k)) : t = u := by
  have inv := reachable_inv P tbl0 pk hcul h0 hb s h
  have a := (inv.ok_slot t k (by rw [ht]; rfl)).2.2
  have b := (inv.ok_slot u k (by rw [hu]; rfl)).2.2
  rw [a] at b; exact Option.some.inj b

/-- a success is recorded in the index and in .PASSWDS at its slot, which was free before and is below the capacity. -/
theorem success_recorded (s : Sys) (h : Reachable P tbl0 s) (t k : Nat) (ht : s.pc t = .done (.ok k)) :
    s.table k = some (P.idOf t) ∧ s.disk k = some (P.idOf t) ∧ tbl0 k = none ∧ k < P.cap := by
  have inv := reachable_inv P tbl0 pk hcul h0 hb s h
  obtain ⟨a1, a2, a3⟩ := inv.ok_slot t k (by rw [ht]; rfl)
  refine ⟨a1, a2, (inv.who_spec k t a3).1, ?_⟩
  rcases Nat.lt_or_ge k P.cap with hlt | hge
  · exact hlt
  · rw [inv.bound k hge] at a1; simp at a1

/-- accounts present before are never touched. -/
theorem old_accounts_kept (s : Sys) (h : Reachable P tbl0 s) (k a : Nat) (hk : tbl0 k = some a) :
    s.table k = some a ∧ s.disk k = some a :=
  (reachable_inv P tbl0 pk hcul h0 hb s h).old_kept k a hk

/-- a request refused with "already exists" is right: the id is in the table. -/
theorem exists_refusal_sound (s : Sys) (h : Reachable P tbl0 s) (t : Nat) (ht : s.pc t = .done .exists_) :
    ∃ k, k < P.cap ∧ s.table k = some (P.idOf t) :=
  (hasId_iff _ _ _).1 ((reachable_inv P tbl0 pk hcul h0 hb s h).exists_sound t (by rw [ht]; rfl))

/-- no request is in flight. -/
def quiescent (s : Sys) : Prop := ∀ t, s.pc t = .start ∨ ∃ r, s.pc t = .done r

/-- afterwards the id index and .PASSWDS agree with each other and with exactly the set of requests
that reported success. -/
theorem final_agreement (s : Sys) (h : Reachable P tbl0 s) (q : quiescent s) :
    (∀ k, s.disk k = s.table k) ∧
    (∀ k a, tbl0 k = none → (s.table k = some a ↔ ∃ t, s.pc t = .done (.ok k) ∧ P.idOf t = a)) := by
  have inv := reachable_inv P tbl0 pk hcul h0 hb s h
  constructor
  · intro k
    cases hd : decide (s.disk k = s.table k) with
    | true => exact of_decide_eq_true hd
    | false =>
      exfalso
      obtain ⟨w, hw⟩ := inv.disk_agree k (of_decide_eq_false hd)
      rcases q w with h1 | ⟨r, h1⟩ <;> rw [h1] at hw <;> simp at hw
  · intro k a hk
    constructor
    · intro hta
      have hne : s.table k ≠ none := by rw [hta]; simp
      cases hw : s.who k with
      | none => exact absurd hw (inv.fresh_owned k hk hne)
      | some w =>
        obtain ⟨_, h2, h3⟩ := inv.who_spec k w hw
        refine ⟨w, ?_, by rw [h2] at hta; exact Option.some.inj hta⟩
        rcases q w with h1 | ⟨r, h1⟩
        · rw [h1] at h3; simp [okAt] at h3
        · rw [h1] at h3 ⊢
          rcases h3 with h3 | h3
          · simp at h3
          · cases r <;> simp [okAt] at h3 ⊢; exact h3
    · rintro ⟨t, ht, rfl⟩
      exact (inv.ok_slot t k (by rw [ht]; rfl)).1

/-- the semaphore excludes: at most one registration is inside the locked section. -/
theorem mutual_exclusion (s : Sys) (h : Reachable P tbl0 s) (t u : Nat)
    (ht : inLock (s.pc t) = true) (hu : inLock (s.pc u) = true) : t = u :=
  inLock_unique (reachable_inv P tbl0 pk hcul h0 hb s h) t u ht hu

end

/-! ### the lookup under the lock is necessary: without it the property fails

Two registrations of the same id, a capacity of two, an empty table; the schedule
`check₀ check₁ (lock … unlock)₀ (lock … unlock)₁` makes both succeed, in different slots. -/

def unlockedParams : Params :=
  { cap := 2, idOf := fun _ => 7, pick := pickLowest 2, checkUnderLock := false }

def runSteps (P : Params) : List Nat → Sys → Option Sys
  | [], s => some s
  | t :: ts, s => (step P s t).bind (runSteps P ts)

theorem runSteps_reachable (P : Params) (tbl0 : Nat → Option Nat) : ∀ (ts : List Nat) (s s' : Sys),
    Reachable P tbl0 s → runSteps P ts s = some s' → Reachable P tbl0 s' := by
  intro ts
  induction ts with
  | nil => intro s s' r e; simp [runSteps] at e; subst e; exact r
  | cons t ts ih =>
    intro s s' r e
    simp only [runSteps] at e
    cases hs : step P s t with
    | none => rw [hs] at e; simp at e
    | some s1 => rw [hs] at e; exact ih s1 s' (.step t r hs) e

def witnessSchedule : List Nat := [0, 1, 0, 0, 0, 0, 0, 0, 1, 1, 1, 1, 1, 1]

theorem duplicate_possible_unlocked :
    ∃ s, Reachable unlockedParams (fun _ => none) s ∧
      s.pc 0 = .done (.ok 0) ∧ s.pc 1 = .done (.ok 1) ∧
      unlockedParams.idOf 0 = unlockedParams.idOf 1 ∧ s.table 0 = some 7 ∧ s.table 1 = some 7 := by
  have e : ∃ s, runSteps unlockedParams witnessSchedule (init (fun _ => none)) = some s ∧
      s.pc 0 = .done (.ok 0) ∧ s.pc 1 = .done (.ok 1) ∧ s.table 0 = some 7 ∧ s.table 1 = some 7 := by
    simp [runSteps, witnessSchedule, step, init, unlockedParams, hasId, setPc, setSlot, pickLowest,
      List.range, List.range.loop, Option.bind]
  obtain ⟨s, hs, h1, h2, h3, h4⟩ := e
  exact ⟨s, runSteps_reachable _ _ _ _ _ .init hs, h1, h2, rfl, h3, h4⟩

/-! ### tie to the schedule-level semantics the harness validates against the real code -/

theorem runWhile_reachable (P : Params) (tbl0 : Nat → Option Nat) (t : Nat) : ∀ (fuel : Nat) (s : Sys),
    Reachable P tbl0 s → Reachable P tbl0 (runWhile P t fuel s) := by
  intro fuel
  induction fuel with
  | zero => intro s h; exact h
  | succ n ih =>
    intro s h
    unfold runWhile
    split
    · exact h
    · exact h
    · split
      · rename_i s' hs; exact ih s' (.step t h hs)
      · exact h

theorem wake_reachable (P : Params) (tbl0 : Nat → Option Nat) (n : Nat) (sc : Sched)
    (h : Reachable P tbl0 sc.sys) : Reachable P tbl0 (wake P n sc).sys := by
  unfold wake
  split
  · exact h
  · split
    · exact h
    · rename_i u _
      split
      · rename_i s' hs; exact .step u h hs
      · exact h

theorem release_reachable (P : Params) (tbl0 : Nat → Option Nat) (n : Nat) (sc : Sched) (t : Nat)
    (h : Reachable P tbl0 sc.sys) : Reachable P tbl0 (release P n sc t).sys := by
  unfold release
  split
  · exact h
  · split
    · split
      · rename_i s' hs; exact .step t h hs
      · exact h
    · split
      · exact h
      · split
        · rename_i s' hs; exact .step t h hs
        · exact h
    · exact runWhile_reachable P tbl0 t 6 _ h
    · split
      · rename_i s' hs; exact wake_reachable P tbl0 n _ (.step t h hs)
      · exact h
    · exact h

theorem schedule_reachable (P : Params) (tbl0 : Nat → Option Nat) (n : Nat) (sched : List Nat) (sc : Sched)
    (h : Reachable P tbl0 sc.sys) : Reachable P tbl0 (sched.foldl (release P n) sc).sys := by
  induction sched generalizing sc with
  | nil => exact h
  | cons t ts ih => exact ih _ (release_reachable P tbl0 n sc t h)

/-! ### server processes: threads in (process, goroutine) pairs, processes starting up -/

/-- the step of a thread does not depend on which server process it (or any other thread) lives in. -/
theorem stepP_ignores_proc (proc proc' : Nat → Nat) (P : Params) (s : Sys) (t : Nat) :
    stepP proc P s t = stepP proc' P s t := rfl

/-- a starting server process (PasswdInit on an existing semaphore) changes nothing: not the holder,
not the index, not .PASSWDS, no thread's position. -/
theorem init_is_noop (s : Sys) (q : Nat) : procInit s q = s := rfl

/-- whatever the assignment of threads to processes and whenever processes start, the reachable
states are exactly those of the process-free transition system. -/
theorem reachableP_iff (proc : Nat → Nat) (P : Params) (tbl0 : Nat → Option Nat) (s : Sys) :
    ReachableP proc P tbl0 s ↔ Reachable P tbl0 s := by
  constructor
  · intro h
    induction h with
    | init => exact .init
    | step t _ hs ih => exact .step t ih hs
    | procInit q _ ih => exact ih
  · intro h
    induction h with
    | init => exact .init
    | step t _ hs ih => exact .step t ih hs

/-- the reachable states do not depend on the assignment. -/
theorem reachableP_proc_irrelevant (proc proc' : Nat → Nat) (P : Params) (tbl0 : Nat → Option Nat) (s : Sys) :
    ReachableP proc P tbl0 s ↔ ReachableP proc' P tbl0 s :=
  (reachableP_iff proc P tbl0 s).trans (reachableP_iff proc' P tbl0 s).symm

section
variable (proc : Nat → Nat) (P : Params) (tbl0 : Nat → Option Nat) (pk : PickOK P) (hcul : P.checkUnderLock = true)
  (h0 : ∀ i j a, tbl0 i = some a → tbl0 j = some a → i = j) (hb : ∀ k, P.cap ≤ k → tbl0 k = none)
include pk hcul h0 hb

/-- the semaphore excludes across processes: at most one registration of any process is inside the locked
section, also while other servers start up. -/
theorem mutual_exclusion_any_proc (s : Sys) (h : ReachableP proc P tbl0 s) (t u : Nat)
    (ht : inLock (s.pc t) = true) (hu : inLock (s.pc u) = true) : t = u :=
  mutual_exclusion P tbl0 pk hcul h0 hb s ((reachableP_iff proc P tbl0 s).1 h) t u ht hu

/-- at most one request for the same id succeeds, wherever the requests are served. -/
theorem at_most_one_success_any_proc (s : Sys) (h : ReachableP proc P tbl0 s) (t u k l : Nat)
    (ht : s.pc t = .done (.ok k)) (hu : s.pc u = .done (.ok l)) (hid : P.idOf t = P.idOf u) : t = u :=
  at_most_one_success_per_id P tbl0 pk hcul h0 hb s ((reachableP_iff proc P tbl0 s).1 h) t u k l ht hu hid

/-- two successful requests never share a slot, wherever they are served. -/
theorem slots_distinct_any_proc (s : Sys) (h : ReachableP proc P tbl0 s) (t u k : Nat)
    (ht : s.pc t = .done (.ok k)) (hu : s.pc u = .done (.ok k)) : t = u :=
  slots_distinct P tbl0 pk hcul h0 hb s ((reachableP_iff proc P tbl0 s).1 h) t u k ht hu

/-- afterwards index and .PASSWDS agree with exactly the successful requests, wherever they were served. -/
theorem final_agreement_any_proc (s : Sys) (h : ReachableP proc P tbl0 s) (q : quiescent s) :
    (∀ k, s.disk k = s.table k) ∧
    (∀ k a, tbl0 k = none → (s.table k = some a ↔ ∃ t, s.pc t = .done (.ok k) ∧ P.idOf t = a)) :=
  final_agreement P tbl0 pk hcul h0 hb s ((reachableP_iff proc P tbl0 s).1 h) q

end

/-- a waiter cannot proceed while somebody holds the semaphore, in whatever process either lives: its step is disabled. -/
theorem waiter_stays_blocked (proc : Nat → Nat) (P : Params) (s : Sys) (u w : Nat)
    (hu : s.pc u = .checked) (hs : s.sem = some w) : stepP proc P s u = none := by
  simp [stepP, step, hu, hs]

/-! the schedule elements of the `regp` ops only take atomic steps (of some thread, of a starting process) -/

theorem releaseP_reachable (proc : Nat → Nat) (P : Params) (tbl0 : Nat → Option Nat) (n : Nat) (sc : Sched) (t : Nat)
    (h : ReachableP proc P tbl0 sc.sys) : ReachableP proc P tbl0 (releaseP P n sc t).sys := by
  rw [reachableP_iff] at h ⊢
  unfold releaseP
  split
  · exact h
  · split
    · split
      · rename_i s' hs; exact .step t h hs
      · exact h
    · split
      · rename_i s' hs; exact .step t h hs
      · exact h
    · exact runWhile_reachable P tbl0 t 6 _ h
    · split
      · rename_i s' hs
        split
        · exact wake_reachable P tbl0 n _ (.step t h hs)
        · exact .step t h hs
      · exact h
    · exact h

theorem wakeTid_reachable (proc : Nat → Nat) (P : Params) (tbl0 : Nat → Option Nat) (sc : Sched) (u : Nat)
    (h : ReachableP proc P tbl0 sc.sys) : ReachableP proc P tbl0 (wakeTid P sc u).sys := by
  unfold wakeTid
  split
  · split
    · rename_i s' hs; exact .step u h hs
    · exact h
  · exact h

theorem startProc_reachable (proc : Nat → Nat) (P : Params) (tbl0 : Nat → Option Nat) (sc : Sched) (q : Nat)
    (h : ReachableP proc P tbl0 sc.sys) : ReachableP proc P tbl0 (startProc sc q).sys :=
  .procInit q h

theorem applyEv_reachable (proc : Nat → Nat) (P : Params) (tbl0 : Nat → Option Nat) (n : Nat) (sc : Sched) (e : Nat)
    (h : ReachableP proc P tbl0 sc.sys) : ReachableP proc P tbl0 (applyEv P n sc e).sys := by
  unfold applyEv
  split
  · exact releaseP_reachable proc P tbl0 n sc _ h
  · exact wakeTid_reachable proc P tbl0 sc _ h
  · exact startProc_reachable proc P tbl0 sc _ h

theorem scheduleP_reachable (proc : Nat → Nat) (P : Params) (tbl0 : Nat → Option Nat) (n : Nat) (sched : List Nat)
    (sc : Sched) (h : ReachableP proc P tbl0 sc.sys) :
    ReachableP proc P tbl0 (sched.foldl (applyEv P n) sc).sys := by
  induction sched generalizing sc with
  | nil => exact h
  | cons e es ih => exact ih _ (applyEv_reachable proc P tbl0 n sc e h)

/-- when the posted semaphore goes to waiter `u`, every other waiter stays where it was: blocked, at `checked`. -/
theorem wakeTid_others_stay (P : Params) (sc : Sched) (u v : Nat) (hv : v ≠ u) :
    (wakeTid P sc u).blocked v = sc.blocked v := by
  unfold wakeTid
  split
  · split
    · simp [hv]
    · rfl
  · rfl

/-- a second `wake` right after a successful one does nothing: the semaphore has exactly one taker. -/
theorem wake_exactly_one (P : Params) (sc : Sched) (u v : Nat) (hv : v ≠ u)
    (hu : sc.blocked u = true) (hcu : sc.sys.pc u = .checked) (hcv : sc.sys.pc v = .checked)
    (hfree : sc.sys.sem = none) :
    wakeTid P (wakeTid P sc u) v = wakeTid P sc u ∧ (wakeTid P sc u).sys.sem = some u := by
  have e1 : wakeTid P sc u =
      { sys := { sc.sys with pc := setPc sc.sys u .locked, sem := some u },
        blocked := fun w => if w = u then false else sc.blocked w } := by
    simp [wakeTid, hu, step, hcu, hfree]
  rw [e1]
  constructor
  · unfold wakeTid
    split
    · simp [step, setPc, hv, hcv]
    · rfl
  · rfl

/-- whatever schedule of releases, wake-ups and process starts the harness drives, in whatever processes the
threads live: the state it leaves satisfies mutual exclusion. -/
theorem scheduleP_mutual_exclusion (proc : Nat → Nat) (P : Params) (tbl0 : Nat → Option Nat) (pk : PickOK P)
    (hcul : P.checkUnderLock = true)
    (h0 : ∀ i j a, tbl0 i = some a → tbl0 j = some a → i = j) (hb : ∀ k, P.cap ≤ k → tbl0 k = none)
    (n : Nat) (sched : List Nat) (t u : Nat) :
    let s := (sched.foldl (applyEv P n) { sys := init tbl0, blocked := fun _ => false }).sys
    inLock (s.pc t) = true → inLock (s.pc u) = true → t = u := by
  intro s ht hu
  exact mutual_exclusion_any_proc proc P tbl0 pk hcul h0 hb s
    (scheduleP_reachable proc P tbl0 n sched _ .init) t u ht hu

/-! ### the clean-up before the lock -/

/-- the clean-up SetupNewUser runs before PasswdLock (tryCleanUser and what it calls) does not write the
id index: no slot joins the free chain outside the lock (regenerated from the source on every run). -/
theorem source_clean_leaves_index : sourceCleanWritesIndex = false := by decide

/-- the extraction is not vacuous: the clean-up reaches killUser and the zero-record write, takes no lock
itself, and SetupNewUser calls it before PasswdLock. -/
theorem source_clean_wellformed :
    wellFormedClean Gen.Reg.cleanUserCalls = true ∧ cleanBeforeLockOf Gen.Reg.setupNewUserCalls = true := by decide

/-- in the source's order the tear-down never changes the index … -/
theorem clean_source_order_keeps_index (s : Sys) (v : Nat) :
    (cleanBegin false s v).table = s.table ∧ (cleanEnd s v).table = s.table := ⟨rfl, rfl⟩

/-- … so the slot of the expired account is never handed to a registration: the slot search returns
empty slots only, and the slot still holds the old id. -/
theorem expired_slot_not_picked (P : Params) (pk : PickOK P) (s : Sys) (v : Nat) (h : s.table v ≠ none) :
    P.pick (cleanEnd (cleanBegin false s v) v).table ≠ some v := by
  intro e
  exact h (pk.sound _ _ e).2

def runXSteps (P : Params) (unindex : Bool) (v : Nat) : List (XAct × Nat) → XSys → Option XSys
  | [], x => some x
  | (a, t) :: r, x => (xstep P unindex v x a t).bind (runXSteps P unindex v r)

theorem runXSteps_reachable (P : Params) (unindex : Bool) (v : Nat) (tbl0 : Nat → Option Nat) :
    ∀ (l : List (XAct × Nat)) (x x' : XSys),
    ReachableX P unindex v tbl0 x → runXSteps P unindex v l x = some x' → ReachableX P unindex v tbl0 x' := by
  intro l
  induction l with
  | nil => intro x x' r e; simp [runXSteps] at e; subst e; exact r
  | cons at_ r ih =>
    intro x x' hx e
    obtain ⟨a, t⟩ := at_
    simp only [runXSteps] at e
    cases hs : xstep P unindex v x a t with
    | none => rw [hs] at e; simp at e
    | some x1 => rw [hs] at e; exact ih x1 x' (.step a t hx hs) e

/-- a full table of two accounts, slot 1 expirable; thread 0 (the cleaner) and thread 1 register different ids. -/
def cleanParams : Params :=
  { cap := 2, idOf := fun t => 7 + t, pick := pickLowest 2, checkUnderLock := true }
def cleanTable : Nat → Option Nat := fun k => if k < 2 then some (10 + k) else none

/-- cleaner: check, enter the tear-down; racer: check, lock, re-check, pick, setUserID, write, unlock; cleaner: zero record. -/
def cleanWitness : List (XAct × Nat) :=
  [(.reg, 0), (.enter, 0), (.reg, 1), (.reg, 1), (.reg, 1), (.reg, 1), (.reg, 1), (.reg, 1), (.reg, 1), (.leave, 0)]

/-- the broken order — the id leaves the index FIRST, the record is zeroed after the home-directory work —
loses a success: a registration that ran in between reported success for slot 1, the index holds its id
there, .PASSWDS holds nothing: the last clause of the property fails. -/
theorem unindex_first_loses_success :
    ∃ x, ReachableX cleanParams true 1 cleanTable x ∧
      x.sys.pc 1 = .done (.ok 1) ∧ x.sys.table 1 = some 8 ∧ x.sys.disk 1 = none := by
  have e : ∃ x, runXSteps cleanParams true 1 cleanWitness { sys := init cleanTable, kill := fun _ => false } = some x ∧
      x.sys.pc 1 = .done (.ok 1) ∧ x.sys.table 1 = some 8 ∧ x.sys.disk 1 = none := by
    simp [runXSteps, cleanWitness, xstep, step, init, cleanParams, cleanTable, hasId, hasEmpty, cleanBegin, cleanEnd,
      setPc, setSlot, pickLowest, List.range, List.range.loop, Option.bind]
  obtain ⟨x, hx, h1, h2, h3⟩ := e
  exact ⟨x, runXSteps_reachable _ _ _ _ _ _ _ .init hx, h1, h2, h3⟩

/-- the same schedule in the source's order: the racer finds no empty slot and is refused; nothing is lost. -/
example : ∃ x, ReachableX cleanParams false 1 cleanTable x ∧ x.sys.pc 1 = .done .noSlot ∧
    x.sys.table 1 = some 11 ∧ x.sys.disk 1 = none := by
  have e : ∃ x, runXSteps cleanParams false 1
      [(.reg, 0), (.enter, 0), (.reg, 1), (.reg, 1), (.reg, 1), (.reg, 1), (.reg, 1), (.leave, 0)]
      { sys := init cleanTable, kill := fun _ => false } = some x ∧ x.sys.pc 1 = .done .noSlot ∧
      x.sys.table 1 = some 11 ∧ x.sys.disk 1 = none := by
    simp [runXSteps, xstep, step, init, cleanParams, cleanTable, hasId, hasEmpty, cleanBegin, cleanEnd,
      setPc, setSlot, pickLowest, List.range, List.range.loop, Option.bind]
  obtain ⟨x, hx, h⟩ := e
  exact ⟨x, runXSteps_reachable _ _ _ _ _ _ _ .init hx, h⟩

/-! ### the request entry -/

/-- the record ptt.NewRegister hands to SetupNewUser is built for that request alone (regenerated on every
run): no other request can change the id a registration works on. -/
theorem source_request_record_is_local : sourceRequestRecordLocal = true := by decide

/-- what that buys in the model: the id a registration works on is the constant `P.idOf t` of its own
request, so the id a successful registration leaves in its slot — index and record — is its request's. -/
theorem success_carries_own_id (P : Params) (tbl0 : Nat → Option Nat) (pk : PickOK P) (hcul : P.checkUnderLock = true)
    (h0 : ∀ i j a, tbl0 i = some a → tbl0 j = some a → i = j) (hb : ∀ k, P.cap ≤ k → tbl0 k = none)
    (s : Sys) (h : Reachable P tbl0 s) (t k : Nat) (ht : s.pc t = .done (.ok k)) :
    s.table k = some (P.idOf t) ∧ s.disk k = some (P.idOf t) :=
  let r := success_recorded P tbl0 pk hcul h0 hb s h t k ht
  ⟨r.1, r.2.1⟩

/-- the slot search the driver uses satisfies the assumption made on `pick`. -/
theorem pickLowest_ok (cap : Nat) (idOf : Nat → Nat) (b : Bool) :
    PickOK { cap := cap, idOf := idOf, pick := pickLowest cap, checkUnderLock := b } where
  sound := by
    intro tbl k h
    simp only [pickLowest] at h
    have h1 := List.find?_some h
    have h2 := List.mem_of_find?_eq_some h
    exact ⟨by simpa using h2, by simpa using h1⟩

/-! non-vacuity: with the lookup under the lock the witness schedule ends with one success and one
refusal — the hypotheses of the theorems are met by a reachable, non-trivial state. -/
example : ∃ s, Reachable { unlockedParams with checkUnderLock := true } (fun _ => none) s ∧
    s.pc 0 = .done (.ok 0) ∧ s.pc 1 = .done .exists_ := by
  have e : ∃ s, runSteps { unlockedParams with checkUnderLock := true } [0, 1, 0, 0, 0, 0, 0, 0, 1, 1, 1]
      (init (fun _ => none)) = some s ∧ s.pc 0 = .done (.ok 0) ∧ s.pc 1 = .done .exists_ := by
    simp [runSteps, step, init, unlockedParams, hasId, setPc, setSlot, pickLowest,
      List.range, List.range.loop, Option.bind]
  obtain ⟨s, hs, h1, h2⟩ := e
  exact ⟨s, runSteps_reachable _ _ _ _ _ .init hs, h1, h2⟩

end PttVerif.C15.Props
