import PttVerif.Proofs.C12
namespace PttVerif.C12.Props
open PttVerif PttVerif.C12

/-- what the source says at the two call sites and about the layout (regenerated data). -/
theorem source_facts :
    Gen.NewBoard.substituteIndex = "zeroBased" ∧ Gen.NewBoard.isValidIndex = "b[idx]" := by decide

end PttVerif.C12.Props
