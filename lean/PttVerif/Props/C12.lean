import PttVerif.Proofs.C12c
import PttVerif.Props.C07
/-
C12 — Creating boards keeps .BRD, the shared cache and the indexes coherent.
Property theorems only (helper lemmas live in Proofs/C12*.lean).

Reading.  The abstract board table is the list of 256-byte headers of `.BRD` (`Rec`: the fields the creation
path sets, FirstChild, and every other byte); a slot is vacated when its name is the empty C string.
`specDecide` is the refusal a request meets (invalid parent, insufficient rights, malformed name, name taken up
to letter case, boards/<c> missing, directory already there, no capacity) and `SpecStep` one request on the
table: a refusal changes nothing, an accepted request puts `normalise req` into SOME vacated slot if there is
one, else appends it.  `Inv s` is "the three mirrors agree": `.BRD` has exactly BNumber ≤ MAX_BOARD records,
the shared copy of every slot is the record with FirstChild cleared (`CacheOK`), both `BSorted` prefixes are
sorted permutations of the slots, occupied names are pairwise distinct up to case.  `sort.Sort` is any sorter
that returns a sorted permutation (`SortSpec`): all theorems are for EVERY such sorter, every well-formed state
(dense, vacated slots anywhere, full) and every request / list of requests.
-/
namespace PttVerif.C12.Props
open PttVerif PttVerif.C12

/-! #### what the source says (regenerated data) -/

def callsBefore (l : List String) (a b : String) : Bool := l.idxOf a < l.idxOf b && l.contains b

/-- `addBoardRecord` hands `SubstituteRecord` the 0-based slot; `IsValid`'s loop reads the byte at its loop
variable; in `mNewbrd` the name checks and the duplicate lookup precede `Mkdir`, `addBoardRecord` follows it and
the directory is removed again when it fails; `NewBoard` refuses a parent that is vacated or not a group board
and decides the permission before `mNewbrd`. -/
theorem source_facts :
    Gen.NewBoard.substituteIndex = "zeroBased" ∧ Gen.NewBoard.isValidIndex = "b[idx]" ∧
    Gen.NewBoard.parentCheck = "vacatedOrNonGroup" ∧
    Gen.NewBoard.isValidLenLo = 2 ∧ Gen.NewBoard.isValidLenHi = Gen.NewBoard.idLen ∧
    callsBefore Gen.NewBoard.mNewbrdCalls "brdname.IsValid" "cache.GetBid" = true ∧
    callsBefore Gen.NewBoard.mNewbrdCalls "cache.GetBid" "types.Mkdir" = true ∧
    callsBefore Gen.NewBoard.mNewbrdCalls "types.Mkdir" "addBoardRecord" = true ∧
    callsBefore Gen.NewBoard.mNewbrdCalls "addBoardRecord" "os.Remove" = true ∧
    callsBefore Gen.NewBoard.newBoardCalls "groupOp" "mNewbrd" = true ∧
    callsBefore Gen.NewBoard.addBoardRecordCalls "cmsys.SubstituteRecord" "cache.SortBCache" = true := by decide

/-- the layout the record images are built with (cross-checked against the compiled code by the `layout` op). -/
theorem source_layout :
    Gen.NewBoard.recSize = 256 ∧ Gen.NewBoard.maxBoard = 100 ∧
    Gen.NewBoard.fields = [("Brdname", 0, 13), ("Title", 13, 49), ("BM", 62, 39), ("BrdAttr", 104, 4),
      ("ChessCountry", 108, 1), ("Level", 124, 4), ("Gid", 132, 4), ("FirstChild", 144, 8)] := by decide

/-! #### the name validator -/

/-- for ALL byte arrays: `BoardID_t.IsValid` never faults and is the declarative predicate — a C string of 2..12
characters, the first a letter, the rest letters, digits, `_`, `-`, `.`. -/
theorem boardIdValid_eq_spec (b : Bytes) : isValidName b = .ok (validNameSpec b) := isValidName_eq b

/-- the name that used to pass (F1) and an ordinary one. -/
example : validNameSpec ([97, 98, 47, 46, 46, 47, 99, 100] ++ zeros 5) = false := by decide
example : validNameSpec ([65, 108, 112, 104, 97] ++ zeros 8) = true := by decide

/-! #### the name index -/

/-- on every well-formed state `cache.GetBid` never faults, answers 0 exactly when no slot carries the name up
to letter case, and otherwise a slot that does. -/
theorem getBid_scan {s : State} (h : Inv s) (key : Bytes) :
    ∃ b, getBid s key = .ok b ∧
      ((b = 0 ∧ ∀ (k : Nat) (r : Rec), s.brd[k]? = some r → nameKey r.name ≠ nameKey key) ∨
       (∃ (k : Nat) (r : Rec), s.brd[k]? = some r ∧ b = k + 1 ∧ nameKey r.name = nameKey key)) :=
  getBid_brd h key

/-! #### one request -/

/-- one request on any well-formed state, for any sorter: no panic, no divergence; the answer and the new
`.BRD` / `boards/` are those of the abstract table; the new state is well-formed again (shared copy and both
indexes mirror the new table). -/
theorem create_refines {srt : Sorter} (hs : SortSpec srt) {s : State} (h : Inv s) (q : Req) :
    ∃ res, (newBoard srt s q).2 = .ok res ∧
      SpecStep s.users s.letters s.brd s.dirs q res (newBoard srt s q).1.brd (newBoard srt s q).1.dirs ∧
      Inv (newBoard srt s q).1 := by
  obtain ⟨res, h1, h2, h3, _⟩ := newBoard_step hs h q
  exact ⟨res, h1, h3, h2⟩

/-- an accepted request leaves every other slot alone: `.BRD` record (all 256 bytes), shared copy and BM cache
of every other slot are identical; the slot it took was vacated or is the one after the last; BNumber grows
exactly on the append path and equals the number of records. -/
theorem create_frame {srt : Sorter} (hs : SortSpec srt) {s : State} (h : Inv s) (q : Req) (b : Nat)
    (hb : (newBoard srt s q).2 = .ok (.ok b)) :
    1 ≤ b ∧
    (∀ j, j ≠ b - 1 → (newBoard srt s q).1.brd[j]? = s.brd[j]? ∧ (newBoard srt s q).1.cache[j]? = s.cache[j]? ∧
      (newBoard srt s q).1.bmcache[j]? = s.bmcache[j]?) ∧
    (∀ r, s.brd[b - 1]? = some r → occupied r = false) ∧
    (hasVacant s.brd = true → b - 1 < s.brd.length) ∧ (hasVacant s.brd = false → b - 1 = s.brd.length) ∧
    (newBoard srt s q).1.bnumber = (if hasVacant s.brd then s.bnumber else s.bnumber + 1) ∧
    (newBoard srt s q).1.brd.length = (newBoard srt s q).1.bnumber := by
  obtain ⟨res, h1, hI, hstep, _, _, _, hacc⟩ := newBoard_step hs h q
  rw [hb] at h1; cases h1
  obtain ⟨hb1, ha⟩ := hacc b rfl
  obtain ⟨_, _, _, _, _, hvac, _, hcase⟩ := hstep.accepted
  refine ⟨hb1, fun j hj => ⟨ha.frameBrd j hj, ha.frameCache j hj, ha.frameBmc j hj⟩, hvac, ?_, ?_, ha.count, hI.len⟩
  · intro hv
    rcases hcase with ⟨hl, _⟩ | ⟨hnv, _, _⟩
    · exact hl
    · rw [hv] at hnv; cases hnv
  · intro hv
    rcases hcase with ⟨hl, _⟩ | ⟨_, hl, _⟩
    · exfalso
      have := (hasVacant_false_iff s.brd).mp hv (b - 1) _ (List.getElem?_eq_getElem hl)
      rw [hvac _ (List.getElem?_eq_getElem hl)] at this; cases this
    · exact hl

/-
FULL STATEMENT (false on one recorded class of requests, see `create_coherent_fails_hidden`):

  theorem create_coherent … (hb : (newBoard srt s q).2 = .ok (.ok b)) :
      s'.brd[b-1]? = some (normalise s.users q) ∧ s'.cache[b-1]? = some (shmOf (normalise s.users q)) ∧
      s'.bmcache[b-1]? = some (parseBMList s.users (normalise s.users q).bm) ∧
      ∀ n, nameKey n = nameKey q.name → getBid s' n = .ok b

What is missing: when `postMaskWritten s.users q` — a hidden board (BRD_HIDE) created by a caller who is neither
sysop nor one of its cached moderators — `NewBoard → LoadBoardSummary → newBoardStat` ORs BRD_POSTMASK into the
shared copy only (pttbbs `addnewbrdstat`; known finding `coherent:cache:hidden-postmask`).  The partial theorem
states the shared copy exactly (`newCopy`), i.e. it excludes precisely that class.
-/

/-- record = shared copy = index for an accepted request: slot `b-1` of `.BRD` is the normalised header (name,
class and title, attributes and level by the creation rules, the requested moderators that exist), the shared
copy is that header with FirstChild cleared — plus BRD_POSTMASK exactly when `postMaskWritten` —, the BM cache
holds the first MAX_BMs of its moderators, and the name index resolves the requested name in ANY letter case
to `b`. -/
theorem create_coherent_partial {srt : Sorter} (hs : SortSpec srt) {s : State} (h : Inv s) (q : Req) (b : Nat)
    (hb : (newBoard srt s q).2 = .ok (.ok b)) :
    (newBoard srt s q).1.brd[b - 1]? = some (normalise s.users q) ∧
    (newBoard srt s q).1.cache[b - 1]? = some (newCopy s.users q) ∧
    (postMaskWritten s.users q = false → newCopy s.users q = shmOf (normalise s.users q)) ∧
    (newBoard srt s q).1.bmcache[b - 1]? = some (parseBMList s.users (normalise s.users q).bm) ∧
    (∀ n, nameKey n = nameKey q.name → getBid (newBoard srt s q).1 n = .ok b) := by
  obtain ⟨res, h1, hI, hstep, _, _, _, hacc⟩ := newBoard_step hs h q
  rw [hb] at h1; cases h1
  obtain ⟨hb1, ha⟩ := hacc b rfl
  obtain ⟨hv, _⟩ := hstep.accepted
  refine ⟨ha.brd, ha.cache, fun hp => by simp [newCopy, hp], ha.bmc, ?_⟩
  intro n hn
  have := index_resolves hI ha.brd (occupied_normalise hv) n hn
  rwa [Nat.sub_add_cancel hb1] at this

/-- the request of the known finding: caller with PERM_BOARD (not sysop), BRD_HIDE, no moderators. -/
def hiddenReq : Req :=
  { user := [98, 114, 100, 109, 97, 110] ++ zeros 7, ulevel := 8209, uid := 2, cls := 1,
    name := [72, 105, 100, 100, 101, 110] ++ zeros 7, bclass := [67, 76, 83, 32], btitle := [116], bms := none,
    attr := 16, level := 0, chess := 0, isGroup := false, autoCpLog := true }

/-- the full `create_coherent` is false: whenever `hiddenReq` is accepted (any well-formed state without
users, any sorter) the shared copy carries BRD_POSTMASK and the `.BRD` record does not. -/
theorem create_coherent_fails_hidden {srt : Sorter} (hs : SortSpec srt) {s : State} (h : Inv s)
    (hu : s.users = []) (b : Nat) (hb : (newBoard srt s hiddenReq).2 = .ok (.ok b)) :
    ∃ c r, (newBoard srt s hiddenReq).1.cache[b - 1]? = some c ∧ (newBoard srt s hiddenReq).1.brd[b - 1]? = some r ∧
      c ≠ shmOf r ∧ hasBit c.attr BRD_POSTMASK = true ∧ hasBit r.attr BRD_POSTMASK = false := by
  obtain ⟨h1, h2, _⟩ := create_coherent_partial hs h hiddenReq b hb
  refine ⟨_, _, h2, h1, ?_, ?_, ?_⟩ <;> rw [hu] <;> decide

/-- a class (group board) "Cl" in slot 0. -/
def classRec : Rec := { Rec.zero with name := [67, 108] ++ zeros 11, attr := 8 }

/-- … and it is accepted, e.g. on the table that holds one class (so the statement above is not vacuous). -/
example : ∃ b, (newBoard insSort (reload insSort (fresh [classRec] [] [72] [])) hiddenReq).2 = .ok (.ok b) := by
  have hI : Inv (reload insSort (fresh [classRec] [] [72] [])) :=
    inv_reload insSort_spec [classRec] [] [72] [] (by decide) (by
      intro i j ri rj hi hj _ _
      have hi' : i < 1 := by
        rcases Nat.lt_or_ge i 1 with h | h
        · exact h
        · rw [List.getElem?_eq_none (by simpa using h)] at hi; cases hi
      have hj' : j < 1 := by
        rcases Nat.lt_or_ge j 1 with h | h
        · exact h
        · rw [List.getElem?_eq_none (by simpa using h)] at hj; cases hj
      omega)
  obtain ⟨res, h1, hstep, _⟩ := create_refines insSort_spec hI hiddenReq
  have hd : specDecide [72] [] [classRec] hiddenReq = none := by decide
  have hs' : SpecStep [] [72] [classRec] [] hiddenReq res _ _ := hstep
  simp only [SpecStep, hd] at hs'
  obtain ⟨k, hk, _⟩ := hs'
  exact ⟨k + 1, by rw [h1, hk]⟩

/-- a refused request — whatever the reason — has no side effect at all: `.BRD`, torn tail, shared copy,
BNumber, both indexes, BM cache and the `boards/` tree are unchanged (the directory made before a capacity
refusal is removed again). -/
theorem refused_noop {srt : Sorter} (hs : SortSpec srt) {s : State} (h : Inv s) (q : Req) (res : Res)
    (hr : (newBoard srt s q).2 = .ok res) (hno : ∀ b, res ≠ .ok b) : (newBoard srt s q).1 = s := by
  obtain ⟨res', h1, _, _, _, _, hsame, _⟩ := newBoard_step hs h q
  rw [hr] at h1; cases h1
  exact hsame hno

/-- each cause named by the property is a refusal: an invalid parent (out of range, vacated, beyond the table,
not a group board), insufficient rights, a malformed name, a
name that exists in any letter case, no capacity (and the two environment refusals of `Mkdir`). -/
theorem refusal_causes (letters : List Nat) (dirs : List Bytes) (t : List Rec) (q : Req)
    (hc : validBid q.cls = false ∨ parentIsClass t q.cls = false ∨ permitted t q = false ∨ validNameSpec q.name = false ∨
      nameTaken t q.name = true ∨ hasLetter letters q.name = false ∨ hasDir dirs q.name = true ∨
      (hasVacant t = false ∧ MAXB ≤ t.length)) :
    ∃ r, specDecide letters dirs t q = some r ∧ ∀ b, r ≠ .ok b := by
  have key : ∀ o, specDecide letters dirs t q = o → o ≠ none → ∃ r, o = some r ∧ ∀ b, r ≠ .ok b := by
    intro o ho hne
    cases o with
    | none => exact absurd rfl hne
    | some r => exact ⟨r, rfl, fun b e => specDecide_ne_ok letters dirs t q b (by rw [ho, e])⟩
  apply key _ rfl
  intro hnone
  unfold specDecide at hnone
  repeat' split at hnone
  all_goals first | cases hnone | skip
  rename_i h1 h1' h2 h3 h4 h5 h6 h7
  rcases hc with h | h | h | h | h | h | h | ⟨h, h'⟩ <;> simp_all

/-- a refusal named by the abstract table is what `NewBoard` answers, and nothing changes. -/
theorem refused_refines {srt : Sorter} (hs : SortSpec srt) {s : State} (h : Inv s) (q : Req) (r : Res)
    (hd : specDecide s.letters s.dirs s.brd q = some r) :
    newBoard srt s q = (s, .ok r) := by
  obtain ⟨res, h1, _, hstep, _, _, hsame, _⟩ := newBoard_step hs h q
  simp only [SpecStep, hd] at hstep
  obtain ⟨hres, _, _⟩ := hstep
  subst hres
  have hno : ∀ b, res ≠ .ok b := fun b e => specDecide_ne_ok _ _ _ _ b (by rw [hd, e])
  exact Prod.ext (hsame hno) h1

/-! #### who may create without PERM_BOARD: the moderators of the parent class -/

theorem specDecide_none_permitted {l : List Nat} {d : List Bytes} {t : List Rec} {q : Req}
    (h : specDecide l d t q = none) : permitted t q = true := by
  unfold specDecide at h
  repeat' split at h
  all_goals first | cases h | skip
  rename_i h1 h1' h2 h3 h4 h5 h6 h7
  simpa using h2

/-- LEAK DIRECTION of the permission test, for every state, sorter and request: a creator without PERM_BOARD whose
request is accepted IS one of the '/'-separated names of the parent class's moderator string (ids alphanumeric,
the moderator string made of ids and '/').  `is_uBM` is C07's model; this is its `is_uBM_sound` carried to
`NewBoard`. -/
theorem group_operator_sound {srt : Sorter} (hs : SortSpec srt) {s : State} (h : Inv s) (q : Req) (b : Nat)
    (hb : (newBoard srt s q).2 = .ok (.ok b)) (hnb : hasBit q.ulevel PERM_BOARD = false)
    (hv : C07.validId (cstr q.user))
    (hw : C07.wellFormedBM (cstr (s.brd.getD (q.cls.toNat - 1) Rec.zero).bm)) :
    C07.Spec.namedIn q.user (s.brd.getD (q.cls.toNat - 1) Rec.zero).bm = true := by
  obtain ⟨res, h1, hstep, _⟩ := create_refines hs h q
  rw [hb] at h1; cases h1
  have hp : permitted s.brd q = true := by
    unfold SpecStep at hstep
    split at hstep
    · rename_i r hr
      exact absurd (hstep.1 ▸ hr) (specDecide_ne_ok _ _ _ _ _)
    · rename_i hn
      exact specDecide_none_permitted hn
  simp only [permitted, groupOpOf, hnb, Bool.false_or] at hp
  exact C07.Props.is_uBM_sound _ _ hv hw hp

/-- an id that merely OCCURS in a moderator's id — repeated back to back, overlapping, with a prefix or a suffix — is
not that moderator: "Kahou" in "KahouKahou", "ab" in "abab" / "xabab" / "ababy", "aa" in "aaa", and at a later
position of the list ("modA/abab").  (The rule seed C12-r5-2 broke.) -/
theorem repeated_id_is_not_moderator :
    let f := fun (u b : String) => isUBM (u.toUTF8.toList.map (·.toNat)) (b.toUTF8.toList.map (·.toNat))
    f "Kahou" "KahouKahou" = false ∧ f "Kahou" "xKahouKahou" = false ∧ f "ab" "abab" = false ∧
    f "ab" "xabab" = false ∧ f "ab" "ababy" = false ∧ f "aa" "aaa" = false ∧ f "aa" "aaaa" = false ∧
    f "ab" "modA/abab" = false ∧ f "ab" "abab/modB" = false ∧ f "ab" "modA/ab" = true ∧ f "ab" "ab/abab" = true := by
  decide +kernel

/-! #### the bbs wrapper -/

theorem bbsDerive_ok {users : List Bytes} {levels : List Nat} {a : BbsArgs} {q : Req}
    (hd : bbsDerive users levels a = .ok q) :
    q.name = copyInto 13 a.name ∧ q.bms = some (newBM (a.bms.map (copyInto 13))) ∧ q.cls = a.cls := by
  simp only [bbsDerive] at hd
  by_cases h1 : (!validUserId (copyInto 13 a.userID)) = true
  · rw [if_pos h1] at hd; cases hd
  · rw [if_neg h1] at hd
    by_cases h2 : (!decide (1 ≤ searchUser users (copyInto 13 a.userID) ∧
        searchUser users (copyInto 13 a.userID) ≤ MAXU)) = true
    · rw [if_pos h2] at hd; cases hd
    · rw [if_neg h2] at hd
      cases hd
      exact ⟨rfl, rfl, rfl⟩

/-- `bbs.CreateBoard` either refuses in the wrapper (invalid caller id, unknown caller) without touching
anything, or is `ptt.NewBoard` on the derived request — whose name is the first 13 bytes of the requested
string, whose caller is a record of the user table and whose moderator string is `NewBM` of the given ids — so
every theorem above applies to it; in particular any answer other than an accepted creation leaves the state
unchanged. -/
theorem bbs_wrapper {srt : Sorter} (hs : SortSpec srt) {s : State} (h : Inv s) (levels : List Nat) (a : BbsArgs) :
    ((∃ e, bbsDerive s.users levels a = .error e ∧ bbsCreate srt s levels a = (s, .ok e)) ∨
     (∃ q, bbsDerive s.users levels a = .ok q ∧ q.name = copyInto 13 a.name ∧
        q.bms = some (newBM (a.bms.map (copyInto 13))) ∧ q.cls = a.cls ∧
        (bbsCreate srt s levels a).1 = (newBoard srt s q).1 ∧
        (bbsCreate srt s levels a).2 = (newBoard srt s q).2.map .inner)) ∧
    (∀ r, (bbsCreate srt s levels a).2 = .ok r → (∀ b, r ≠ .inner (.ok b)) → (bbsCreate srt s levels a).1 = s) := by
  unfold bbsCreate
  cases hd : bbsDerive s.users levels a with
  | error e => exact ⟨Or.inl ⟨e, rfl, rfl⟩, fun _ _ _ => rfl⟩
  | ok q =>
      refine ⟨Or.inr ⟨q, rfl, ?_, ?_, ?_, rfl, rfl⟩, ?_⟩
      · exact (bbsDerive_ok hd).1
      · exact (bbsDerive_ok hd).2.1
      · exact (bbsDerive_ok hd).2.2
      · intro r hr hno
        simp only at hr ⊢
        obtain ⟨res, h1, _⟩ := create_refines hs h q
        rw [h1] at hr
        simp only [Except.map] at hr
        cases hr
        exact refused_noop hs h q res h1 (fun b e => hno b (by rw [e]))

/-! #### the creation rules -/

/-- the normalised header: name, class/title layout, parent and chess code as requested; BRD_GROUPBOARD iff a
group is created; BRD_CPLOG never for a group, for a board when the site has DEFAULT_AUTOCPLOG or the bit was
requested; BRD_HIDE as requested; a caller without PERM_BOARD and every hidden board
lose the post-mask bit and get level 0, otherwise both are as requested; the moderators are the requested ones
that exist (`sanitizeBMs`). -/
theorem normalise_rules (users : List Bytes) (q : Req) :
    (normalise users q).name = q.name ∧
    (normalise users q).title = copyInto 4 q.bclass ++ [32] ++
      (if q.isGroup then [163, 85] else [161, 183]) ++ copyInto 42 q.btitle ∧
    (normalise users q).gid = q.cls.toNat ∧ (normalise users q).chess = q.chess ∧
    (normalise users q).bm = sanitizeBMs users q.bms ∧
    hasBit (normalise users q).attr BRD_GROUP = q.isGroup ∧
    hasBit (normalise users q).attr BRD_CPLOG = (!q.isGroup && (q.autoCpLog || hasBit q.attr BRD_CPLOG)) ∧
    hasBit (normalise users q).attr BRD_HIDE = hasBit q.attr BRD_HIDE ∧
    hasBit (normalise users q).attr BRD_POSTMASK =
      (hasBit q.ulevel PERM_BOARD && !hasBit q.attr BRD_HIDE && hasBit q.attr BRD_POSTMASK) ∧
    (normalise users q).level = (if hasBit q.ulevel PERM_BOARD && !hasBit q.attr BRD_HIDE then q.level else 0) := by
  obtain ⟨hg, hc, hh, hr, hp, hl⟩ := attr_rules q
  refine ⟨rfl, ?_, rfl, rfl, rfl, hg, hc, hh, ?_, ?_⟩
  · show buildTitle q = _
    unfold buildTitle
    cases q.isGroup <;> rfl
  · show hasBit (buildAttr q) BRD_POSTMASK = _
    rw [hp, hr]
    cases hasBit q.ulevel PERM_BOARD <;> cases hasBit q.attr BRD_HIDE <;> rfl
  · show buildLevel q = _
    rw [hl, hr]
    cases hasBit q.ulevel PERM_BOARD <;> cases hasBit q.attr BRD_HIDE <;> rfl

/-- the configuration the default build does not have: with DEFAULT_AUTOCPLOG = false an ordinary board keeps
a requested BRD_CPLOG (and does not get the bit when it was not requested). -/
theorem cplog_without_autocplog (users : List Bytes) (q : Req) (hg : q.isGroup = false) (ha : q.autoCpLog = false) :
    hasBit (normalise users q).attr BRD_CPLOG = hasBit q.attr BRD_CPLOG := by
  rw [(normalise_rules users q).2.2.2.2.2.2.1, hg, ha]; simp

/-! #### histories -/

/-- any list of requests from any well-formed state: no request faults, the answers and the final `.BRD` and
`boards/` are those of the abstract table, and the final state is well-formed (record = shared copy = index,
BNumber = number of records). -/
theorem create_history {srt : Sorter} (hs : SortSpec srt) {s : State} (h : Inv s) (qs : List Req) :
    ∃ rs, results srt s qs = rs.map .ok ∧ Inv (run srt s qs) ∧
      SpecRun s.users s.letters s.brd s.dirs qs rs (run srt s qs).brd (run srt s qs).dirs := by
  obtain ⟨rs, h1, h2, h3, _⟩ := run_history hs qs h
  exact ⟨rs, h1, h2, h3⟩

/-- after any history every accepted request occupies one slot of its own: at the END of the history that slot
of `.BRD` still is its normalised header, the shared copy mirrors it, the name index resolves its name in any
letter case to it, and no other accepted request of the history got the same slot. -/
theorem history_accepted {srt : Sorter} (hs : SortSpec srt) {s : State} (h : Inv s) (qs : List Req)
    (i b : Nat) (q : Req) (hq : qs[i]? = some q) (hi : (results srt s qs)[i]? = some (.ok (.ok b))) :
    1 ≤ b ∧ (run srt s qs).brd[b - 1]? = some (normalise s.users q) ∧
    (∃ c, (run srt s qs).cache[b - 1]? = some c ∧ CacheOK c (normalise s.users q)) ∧
    (∀ n, nameKey n = nameKey q.name → getBid (run srt s qs) n = .ok b) ∧
    (∀ j b', j ≠ i → (results srt s qs)[j]? = some (.ok (.ok b')) → b' ≠ b) := by
  obtain ⟨rs, hrs, hI, hrun, _⟩ := run_history hs qs h
  have hget : ∀ (j : Nat) (r : Res), (results srt s qs)[j]? = some (Except.ok r) → rs[j]? = some r := by
    intro j r hj
    rw [hrs, List.getElem?_map] at hj
    cases hx : rs[j]? with
    | none => rw [hx] at hj; cases hj
    | some x => rw [hx] at hj; simp only [Option.map_some, Option.some.injEq, Except.ok.injEq] at hj; rw [hj]
  have hi' := hget i _ hi
  obtain ⟨hb1, hfin, hocc⟩ := hrun.final hi' hq
  refine ⟨hb1, hfin, hI.copy _ _ hfin, ?_, ?_⟩
  · intro n hn
    have := index_resolves hI hfin hocc n hn
    rwa [Nat.sub_add_cancel hb1] at this
  · intro j b' hji hj
    have hj' := hget j _ hj
    rcases Nat.lt_or_gt_of_ne hji with hlt | hgt
    · exact hrun.slots_distinct hlt hj' hi'
    · exact (hrun.slots_distinct hgt hi' hj').symm

/-- after any history every board that existed before is where it was, byte for byte, and still resolves. -/
theorem history_keeps {srt : Sorter} (hs : SortSpec srt) {s : State} (h : Inv s) (qs : List Req)
    (k : Nat) (r : Rec) (hr : s.brd[k]? = some r) (ho : occupied r = true) :
    (run srt s qs).brd[k]? = some r ∧ getBid (run srt s qs) r.name = .ok (k + 1) := by
  obtain ⟨rs, _, hI, hrun, _⟩ := run_history hs qs h
  have := hrun.keep hr ho
  exact ⟨this, index_resolves hI this ho r.name rfl⟩

/-! #### non-vacuity -/

/-- a sorter with the assumed contract exists (an insertion sort). -/
theorem sortSpec_inhabited : SortSpec insSort := insSort_spec

/-- the states every history starts from are well-formed: a zeroed segment and any `.BRD` of at most MAX_BOARD
complete records whose occupied names are distinct up to case, after `ReloadBCache` — dense, with vacated slots
anywhere, or full. -/
theorem reload_wellformed {srt : Sorter} (hs : SortSpec srt) (brd : List Rec) (users : List Bytes)
    (letters : List Nat) (dirs : List Bytes) (hlen : brd.length ≤ MAXB)
    (hd : ∀ (i j : Nat) (ri rj : Rec), brd[i]? = some ri → brd[j]? = some rj → occupied ri = true →
      nameKey ri.name = nameKey rj.name → i = j) :
    Inv (reload srt (fresh brd users letters dirs)) := inv_reload hs brd users letters dirs hlen hd

end PttVerif.C12.Props
