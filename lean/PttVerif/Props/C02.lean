import PttVerif.Proofs.C02
import PttVerif.Proofs.C02Pw
import PttVerif.Proofs.C02Final
import PttVerif.Proofs.C02Login
import PttVerif.Gen.LoginSave
/-
C02 — Password hashes are crypt(3) DES and verify only the right password.
Property theorems only (helper lemmas live in Proofs/C02.lean; the model in Model/C02.lean; the hand-written
FIPS-46 / crypt(3) specification in Model/C02Spec.lean).

What is proved, against the clauses of the property
 (a) "the hash equals traditional DES crypt(3)": PROVED IN FULL —
       `fcrypt_eq_crypt3`: for every password (any bytes, any length) and every salt whose first two characters are
       7-bit (in particular every two-character salt of the crypt alphabet, `fcrypt_eq_crypt3_alphabet`),
       `Fcrypt p s = .ok (Spec.crypt3 p c0 c1)`, where `Spec.crypt3` (Model/C02Spec.lean) is the hand-written
       textbook definition: FIPS-46 IP/FP/E/P/PC-1/PC-2/S1–S8/shift schedule, the crypt(3) salt perturbation of E,
       25 encryptions of the zero block, base-64 packing.  (`Spec.crypt3` itself is tied to libc crypt(3) only by
       the oracle: it is run next to the implementation and libc on every generated pair.)
       How: every step of DES except the S-box lookup is GF(2)-linear; Proofs/C02Lin.lean is a reflective checker
       for such word circuits (two checked circuits that agree on the unit vectors agree on every input), so the
       bit-swap networks (PC-1, FP), the rotations, the `skb` key-schedule lookups, the E-expansion-by-rotation and
       the salt swap network (bilinear in data and salt: all 4096 salts) reduce to `decide +kernel` on closed
       terms; the S-boxes enter through table exactness (`sptrans_eq_P_S`) and the or of the eight entries is an
       xor because their supports are disjoint; then inductions over 16 rounds and 25 passes, and the 66-bit
       output reader against the arithmetic base-64 packing.
       Also kept as separate statements: table exactness (`sptrans_eq_P_S`, `skb_eq_pc2`, `con_salt_eq`,
       `cov_2char_eq`, `shifts2_eq`), the format (`fcrypt_format`), totality (`fcrypt_total_on_alphabet`), the key
       schedule (`key_schedule_eq_textbook`), one half-round (`half_round_eq_textbook`), `final_perm_eq_FP`.
 (b) a fresh hash verifies: `check_gen`, for every value of the random source.
 (c) only the low seven bits of the first eight bytes up to a NUL matter: `fcrypt_effective_key`,
     `fcrypt_effective_key8`, `checkPasswd_same_key`.
 (d) "rejected for any password whose effective key differs" — NOT a theorem and almost certainly false as a
     universal statement (2^56 keys into 2^64 results of a fixed-plaintext cipher collide somewhere):

           reject_other_keys : effKey8 p ≠ effKey8 p' → Fcrypt p s = .ok h → CheckPasswd h p' = .ok false

     It stays unproved; the oracle samples it (all 56 single-bit flips of sampled keys must be rejected).
-/
namespace PttVerif.C02.Props
open PttVerif PttVerif.C02 PttVerif.Gen.CryptTables

/-! #### (a) table exactness — whole tables, kernel evaluation over the regenerated data -/

/-- every one of the 8×64 entries of `SPtrans` is the permutation P applied to the output of the FIPS S-box,
in the bit order and rotation the round function uses. -/
theorem sptrans_eq_P_S (b x : Nat) (hb : b < 8) (hx : x < 64) : tbl SPtrans b x = Spec.spEntry b x := by
  rw [SPtrans_table]; exact tbl_map_range _ b x hb hx

/-- every one of the 8×64 entries of `skb` is PC-2 applied to the six C/D bits its index stands for. -/
theorem skb_eq_pc2 (b x : Nat) (hb : b < 8) (hx : x < 64) : tbl skb b x = Spec.skbEntry b x := by
  rw [skb_table]; exact tbl_map_range _ b x hb hx

/-- all 128 entries of `con_salt` are the crypt(3) value of the salt character. -/
theorem con_salt_eq (c : Nat) (hc : c < 128) : con_salt[c]? = some (Spec.saltValue c) := by
  rw [con_salt_table]; simp [hc]

/-- the output alphabet is `./0-9A-Za-z`, in this order. -/
theorem cov_2char_eq : cov_2char = Spec.alphabet64 := by decide +kernel

theorem alphabet64_eq :
    Spec.alphabet64 = "./0123456789ABCDEFGHIJKLMNOPQRSTUVWXYZabcdefghijklmnopqrstuvwxyz".toList.map Char.toNat := by
  decide +kernel

/-- the two-bit-shift flags are the FIPS shift schedule (1 1 2 2 2 2 2 2 1 2 2 2 2 2 2 1) minus one. -/
theorem shifts2_eq : shifts2 = Spec.shifts.map (· - 1) := by decide +kernel

/-- the tables have the shapes the code's masked indices assume (no lookup of the model falls outside). -/
theorem table_shapes :
    (SPtrans.length = 8 ∧ ∀ row ∈ SPtrans, row.length = 64) ∧ (skb.length = 8 ∧ ∀ row ∈ skb, row.length = 64) ∧
      con_salt.length = 128 ∧ cov_2char.length = 64 ∧ shifts2.length = 16 ∧ ITERATIONS = 16 ∧
      PASSLEN = 14 ∧ ptttypePASSLEN = 14 :=
  ⟨SPtrans_shape, skb_shape, con_salt_length, cov_2char_length, shifts2_length, iterations_eq, passlen_eq.1, passlen_eq.2⟩

/-! #### (a) output format and totality -/

/-- when `Fcrypt` returns, the result is 14 bytes: the two salt characters (a NUL salt byte reads as 'A'),
eleven characters of the crypt alphabet, and a NUL. -/
theorem fcrypt_format (p s h : List Nat) (hh : Fcrypt p s = .ok h) :
    h.length = 14 ∧ h[13]? = some 0 ∧
      (∃ s0 s1, s[0]? = some s0 ∧ s[1]? = some s1 ∧ h[0]? = some (saltChar s0) ∧ h[1]? = some (saltChar s1)) ∧
      ∀ i, 2 ≤ i → i < 13 → ∃ c, h[i]? = some c ∧ c ∈ Spec.alphabet64 := by
  obtain ⟨s0, s1, e0, e1, h0, h1, _, _, rfl⟩ := (cFcrypt_ok_iff p s h).mp hh
  refine ⟨hashOf_length .., ?_, ⟨s0, s1, h0, h1, ?_, ?_⟩, ?_⟩
  · simp [hashOf, outChars_length]
  · simp [hashOf]
  · simp [hashOf]
  · intro i h2 h13
    rw [← cov_2char_eq]
    have hl := outChars_length
      (l2c (body (desSetKey ((effKey8 p).map (· * 2))) e0 (shl e1 4)).1 ++
        l2c (body (desSetKey ((effKey8 p).map (· * 2))) e0 (shl e1 4)).2 ++ [0]) 11 (0, 0x80)
    obtain ⟨j, rfl⟩ : ∃ j, i = j + 2 := ⟨i - 2, by omega⟩
    have hj : j < 11 := by omega
    refine ⟨_, ?_, outChars_mem _ 11 (0, 0x80) _ (List.getElem_mem (by rw [hl]; exact hj))⟩
    simp only [hashOf, List.cons_append, List.nil_append, List.getElem?_cons_succ]
    rw [List.getElem?_append_left (by rw [hl]; exact hj), List.getElem?_eq_getElem]

/-- `Fcrypt` panics exactly when the salt is shorter than two bytes or one of its two characters is ≥ 128
(outside `con_salt`); it never diverges.  In particular it is total on two-character alphabet salts. -/
theorem fcrypt_panics_iff (p s : List Nat) :
    (∃ e, Fcrypt p s = .error e) ↔ ¬ ∃ s0 s1, s[0]? = some s0 ∧ s[1]? = some s1 ∧ saltChar s0 < 128 ∧ saltChar s1 < 128 := by
  constructor
  · rintro ⟨e, he⟩ ⟨s0, s1, h0, h1, l0, l1⟩
    have ⟨e0, he0⟩ : ∃ e0, con_salt[saltChar s0]? = some e0 :=
      ⟨_, List.getElem?_eq_getElem (by rw [con_salt_length]; exact l0)⟩
    have ⟨e1, he1⟩ : ∃ e1, con_salt[saltChar s1]? = some e1 :=
      ⟨_, List.getElem?_eq_getElem (by rw [con_salt_length]; exact l1)⟩
    have := (cFcrypt_ok_iff p s _).mpr ⟨s0, s1, e0, e1, h0, h1, he0, he1, rfl⟩
    rw [Fcrypt] at he; rw [he] at this; cases this
  · intro hn
    cases hr : Fcrypt p s with
    | error e => exact ⟨e, rfl⟩
    | ok h =>
      exfalso; apply hn
      obtain ⟨s0, s1, e0, e1, h0, h1, c0, c1, _⟩ := (cFcrypt_ok_iff p s h).mp hr
      have l0 := (List.getElem?_eq_some_iff.mp c0).1
      have l1 := (List.getElem?_eq_some_iff.mp c1).1
      rw [con_salt_length] at l0 l1
      exact ⟨s0, s1, h0, h1, l0, l1⟩

theorem fcrypt_error_is_panic (p s : List Nat) (e : Fault) (h : Fcrypt p s = .error e) : e = .panic :=
  cFcrypt_error p s e h

/-- for every password and every salt whose first two characters are from the crypt alphabet, `Fcrypt` returns. -/
theorem fcrypt_total_on_alphabet (p s : List Nat) (c0 c1 : Nat) (h0 : s[0]? = some c0) (h1 : s[1]? = some c1)
    (a0 : c0 ∈ Spec.alphabet64) (a1 : c1 ∈ Spec.alphabet64) : ∃ h, Fcrypt p s = .ok h := by
  have key : ∀ c ∈ Spec.alphabet64, saltChar c < 128 := by decide +kernel
  cases hr : Fcrypt p s with
  | ok h => exact ⟨h, rfl⟩
  | error e =>
    exfalso
    exact (fcrypt_panics_iff p s).mp ⟨e, hr⟩ ⟨c0, c1, h0, h1, key c0 a0, key c1 a1⟩

/-- clause (a), in full: for every password and every salt whose two characters index `con_salt` (7-bit; a NUL reads
as 'A'), the result of `Fcrypt` is the textbook traditional DES crypt(3) of the password under those two salt
characters. -/
theorem fcrypt_eq_crypt3 (p s : List Nat) (s0 s1 : Nat) (h0 : s[0]? = some s0) (h1 : s[1]? = some s1)
    (l0 : saltChar s0 < 128) (l1 : saltChar s1 < 128) :
    Fcrypt p s = .ok (Spec.crypt3 p (saltChar s0) (saltChar s1)) :=
  (cFcrypt_ok_iff p s _).mpr ⟨s0, s1, _, _, h0, h1, con_salt_eq _ l0, con_salt_eq _ l1,
    (Lin.hashOf_eq_crypt3 p (saltChar s0) (saltChar s1)).symm⟩

/-- … in particular for every salt of the crypt alphabet (any length ≥ 2: only the first two characters count). -/
theorem fcrypt_eq_crypt3_alphabet (p s : List Nat) (c0 c1 : Nat) (h0 : s[0]? = some c0) (h1 : s[1]? = some c1)
    (a0 : c0 ∈ Spec.alphabet64) (a1 : c1 ∈ Spec.alphabet64) : Fcrypt p s = .ok (Spec.crypt3 p c0 c1) := by
  have key : ∀ c ∈ Spec.alphabet64, saltChar c = c ∧ saltChar c < 128 := by decide +kernel
  have := fcrypt_eq_crypt3 p s c0 c1 h0 h1 (key c0 a0).2 (key c1 a1).2
  rw [(key c0 a0).1, (key c1 a1).1] at this
  exact this

example : ∃ p s c0 c1, s[0]? = some c0 ∧ s[1]? = some c1 ∧ c0 ∈ Spec.alphabet64 ∧ c1 ∈ Spec.alphabet64 ∧
    Fcrypt p s = .ok (Spec.crypt3 p c0 c1) :=
  ⟨[48, 49, 50, 51, 52, 53, 54, 55, 56, 57, 48, 49], [65, 65], 65, 65, rfl, rfl, by decide, by decide, by decide +kernel⟩


/-! #### (a) the main stages of the proof of `fcrypt_eq_crypt3`, each for all inputs -/

/-- for every password, the 32 schedule words `desSetKey` computes from the key block `cFcrypt` builds are the
sixteen textbook round keys (PC-1, left rotations by the FIPS shift schedule, PC-2) of the crypt(3) key of that
password, laid out as `kw0`/`kw1`. -/
theorem key_schedule_eq_textbook (p : List Nat) :
    desSetKey (mkKey (if p.length > 8 then p.take 8 else p)) =
      Lin.ksWords (Spec.keySchedule (Spec.keyOfBytes (Spec.cstr8 p))) := by
  rw [Lin.mkKey_eq_crypt3_key, Lin.desSetKey_eq_keySchedule _ (Lin.keyOfBytes_lt p)]

/-- the same for an arbitrary 64-bit key block. -/
theorem desSetKey_eq_keySchedule (K : Nat) (hK : K < 2 ^ 64) :
    desSetKey (Lin.bytesBE K) = Lin.ksWords (Spec.keySchedule K) := Lin.desSetKey_eq_keySchedule K hK

example : ∃ p, Spec.keySchedule (Spec.keyOfBytes (Spec.cstr8 p)) ≠ List.replicate 16 0 := ⟨[65], by decide +kernel⟩

/-- the layout is the one `dEncrypt` reads: the six key bits it xors into the index of `SPtrans[b]` are block
`B_{b+1}` (bits 6b+1 … 6b+6) of the round key, first bit least significant. -/
theorem round_key_reaches_sbox (K b : Nat) (hK : K < 2 ^ 48) (hb : b < 8) :
    Lin.keyIdx K b = Spec.revBits 6 ((K >>> (6 * (7 - b))) &&& 63) := Lin.keyIdx_eq_block K b hK hb

/-- the six data bits `dEncrypt` feeds to `SPtrans[b]` (salt 0) are block `b+1` of the textbook expansion `E(R)`. -/
theorem expansion_eq_E (R b : Nat) (hR : R < 2 ^ 32) (hb : b < 8) :
    Lin.dataIdx R b = Spec.revBits 6 ((Spec.permF Spec.E 32 R >>> (6 * (7 - b))) &&& 63) := Lin.dataIdx_eq_Eblock R b hR hb

/-- the tail of `body` is the textbook final permutation: the eight output bytes, read big-endian, are `FP(A‖B)` for
the pre-output halves held in the implementation's representation `rho`. -/
theorem final_perm_eq_FP (A B : Nat) (hA : A < 2 ^ 32) (hB : B < 2 ^ 32) :
    Lin.outVal (finalPerm (Lin.rho A, Lin.rho B)) = Spec.permF Spec.FP 64 (A * 4294967296 + B) :=
  Lin.finalPerm_eq_FP A B hA hB

/-- one call of `dEncrypt` with the two schedule words of round key `K` is one textbook half-round
`L ⊕ f(R, K)` (salted E, S-boxes, P) on halves held as `rho`, for every half, round key and salt `σ = v0 + 64·v1`. -/
theorem half_round_eq_textbook (L R K σ S : Nat) (s : List Nat) (hR : R < 2 ^ 32) (hK : K < 2 ^ 48) (hσ : σ < 2 ^ 12)
    (h0 : s.getD S 0 = Lin.kw0 K) (h1 : s.getD (S + 1) 0 = Lin.kw1 K) :
    dEncrypt L (Lin.rho R) S (σ &&& 63) (shl (σ >>> 6) 4) s =
      L ^^^ Lin.rho (Spec.f (Spec.saltMaskOf (σ &&& 63) (σ >>> 6)) R K) :=
  Lin.dEncrypt_spec L R K σ S s hR hK hσ h0 h1

/-- IP and FP cancel, so chaining 25 encryptions without re-permuting (as `body` does) is sound. -/
theorem ip_fp_cancel (x : Nat) (hx : x < 2 ^ 64) : Spec.permF Spec.IP 64 (Spec.permF Spec.FP 64 x) = x :=
  Lin.ip_fp_cancel x hx

/-! #### (c) the effective key -/

/-- two passwords with the same effective key (first eight bytes, up to the first NUL, low seven bits each) hash
alike under every salt — bytes after the eighth, bytes after a NUL and the high bits are ignored. -/
theorem fcrypt_effective_key8 (p p' s : List Nat) (h : effKey8 p = effKey8 p') : Fcrypt p s = Fcrypt p' s := by
  cases hr : Fcrypt p' s with
  | ok r =>
    obtain ⟨s0, s1, e0, e1, h0, h1, c0, c1, rfl⟩ := (cFcrypt_ok_iff p' s r).mp hr
    exact (cFcrypt_ok_iff p s _).mpr ⟨s0, s1, e0, e1, h0, h1, c0, c1, by simp [hashOf, h]⟩
  | error e =>
    cases hq : Fcrypt p s with
    | ok r =>
      obtain ⟨s0, s1, e0, e1, h0, h1, c0, c1, rfl⟩ := (cFcrypt_ok_iff p s r).mp hq
      have := (cFcrypt_ok_iff p' s _).mpr ⟨s0, s1, e0, e1, h0, h1, c0, c1, rfl⟩
      rw [Fcrypt] at hr; rw [hr] at this; cases this
    | error e' => rw [fcrypt_error_is_panic _ _ _ hr, fcrypt_error_is_panic _ _ _ hq]

theorem fcrypt_effective_key (p p' s : List Nat) (h : effKey p = effKey p') : Fcrypt p s = Fcrypt p' s :=
  fcrypt_effective_key8 p p' s (by simp [effKey8, h])

example : effKey [0x41, 0xC2, 0, 9, 9] = effKey [0xC1, 0x42] ∧ [0x41, 0xC2, 0, 9, 9] ≠ [0xC1, 0x42] := by decide
example : effKey [1, 2, 3, 4, 5, 6, 7, 8, 9, 10] = effKey [1, 2, 3, 4, 5, 6, 7, 8] := by decide

/-! #### (b) generate, then verify -/

/-- feeding a hash back as the salt reproduces it (only its first two bytes are read, and they are non-NUL). -/
theorem fcrypt_salt_idem (p s h : List Nat) (hh : Fcrypt p s = .ok h) : Fcrypt p h = .ok h := by
  obtain ⟨s0, s1, e0, e1, h0, h1, c0, c1, rfl⟩ := (cFcrypt_ok_iff p s h).mp hh
  refine (cFcrypt_ok_iff p _ _).mpr ⟨saltChar s0, saltChar s1, e0, e1, by simp [hashOf], by simp [hashOf], ?_, ?_, ?_⟩
  · rw [saltChar_idem]; exact c0
  · rw [saltChar_idem]; exact c1
  · rw [saltChar_idem, saltChar_idem]

/-- `CheckPasswd` accepts exactly when re-hashing with the stored hash as salt gives the stored hash back. -/
theorem checkPasswd_iff (e p : List Nat) : CheckPasswd e p = .ok true ↔ Fcrypt p e = .ok e := by
  unfold CheckPasswd
  cases h : Fcrypt p e with
  | error x => simp [bind, Except.bind]
  | ok r => simp [bind, Except.bind, pure, Except.pure]

/-- `GenPasswd` never panics (since repo fix cf9020f also not on the empty slice); an empty password or a leading
NUL gives the all-zero hash, otherwise the result is the `Fcrypt` hash under the salt drawn from `r`. -/
theorem genPasswd_ok (r : Nat) (p : List Nat) :
    ∃ h, GenPasswdWith r p = .ok h ∧ h.length = 14 ∧
      (p ≠ [] → p[0]? ≠ some 0 → Fcrypt p [r &&& 0x7f, (r >>> 8) &&& 0x7f] = .ok h) ∧
      ((p = [] ∨ p[0]? = some 0) → h = List.replicate 14 0) := by
  have hP : ptttypePASSLEN = 14 := passlen_eq.2
  unfold GenPasswdWith
  cases p with
  | nil => exact ⟨_, by simp [pure, Except.pure]; rfl, by simp [hP], by simp, by simp [hP]⟩
  | cons p0 ps =>
  by_cases hz : p0 = 0
  · subst hz
    exact ⟨_, by simp [idx, bind, Except.bind, pure, Except.pure]; rfl, by simp [hP], by simp, by simp [hP]⟩
  · have lt : ∀ x : Nat, saltChar (x &&& 0x7f) < 128 := by
      intro x
      have : x &&& 0x7f < 128 := by rw [show (0x7f : Nat) = 2 ^ 7 - 1 from rfl, Nat.and_two_pow_sub_one_eq_mod]; omega
      unfold saltChar; split <;> omega
    have hno : ¬ ∃ e, Fcrypt (p0 :: ps) [r &&& 0x7f, (r >>> 8) &&& 0x7f] = .error e := by
      rw [fcrypt_panics_iff]
      exact fun hn => hn ⟨_, _, rfl, rfl, lt r, lt (r >>> 8)⟩
    cases hf : Fcrypt (p0 :: ps) [r &&& 0x7f, (r >>> 8) &&& 0x7f] with
    | error e => exact absurd ⟨e, hf⟩ hno
    | ok h =>
      have hl := (fcrypt_format _ _ _ hf).1
      refine ⟨h, ?_, hl, fun _ _ => rfl, by simp [hz]⟩
      simp only [List.length_cons, Nat.succ_ne_zero, if_false, idx,
        List.getElem?_cons_zero, bind, Except.bind, hz, hf, pure, Except.pure]
      rw [hP, copyInto_of_le _ _ (by omega), hl]; simp

/-- the guard before repo fix cf9020f (`if passwd[0] == 0`): `GenPasswd` panicked on the empty slice. -/
def GenPasswdWithPreFix (num : Nat) (passwd : List Nat) : M (List Nat) := do
  let p0 ← idx passwd 0
  if p0 = 0 then pure (List.replicate ptttypePASSLEN 0) else
  let result ← Fcrypt passwd [num &&& 0x7f, (num >>> 8) &&& 0x7f]
  pure (copyInto ptttypePASSLEN result)

/-- the before-fix witness: every value of the random source, empty password. -/
theorem genPasswd_prefix_panics (r : Nat) : GenPasswdWithPreFix r [] = .error .panic := rfl

/-- `GenPasswd` is total: no password and no value of the random source makes it panic or diverge. -/
theorem genPasswd_total (r : Nat) (p : List Nat) : ∃ h, GenPasswdWith r p = .ok h :=
  let ⟨h, hh, _⟩ := genPasswd_ok r p; ⟨h, hh⟩

/-- clause (b): for every value `r` of the random source, the hash generated for a password whose first byte is
not NUL verifies against that password. -/
theorem check_gen (r : Nat) (p : List Nat) (hp : p ≠ []) (h0 : p[0]? ≠ some 0) :
    ∃ h, GenPasswdWith r p = .ok h ∧ CheckPasswd h p = .ok true := by
  obtain ⟨h, hg, _, hf, _⟩ := genPasswd_ok r p
  exact ⟨h, hg, (checkPasswd_iff h p).mpr (fcrypt_salt_idem _ _ _ (hf hp h0))⟩

example : ∃ r p, p ≠ [] ∧ p[0]? ≠ some 0 ∧ GenPasswdWith r p = .ok [44, 1, 107, 53, 103, 79, 105, 107, 47, 85, 114, 89, 54, 0] :=
  ⟨300, [0x41, 0x42], by decide, by decide, by decide +kernel⟩

/-- …and so does every password with the same effective key. -/
theorem checkPasswd_same_key (e p p' : List Nat) (h : effKey8 p = effKey8 p') : CheckPasswd e p = CheckPasswd e p' := by
  unfold CheckPasswd; rw [fcrypt_effective_key8 p p' e h]

/-- the empty password and a password whose first byte is NUL get the all-zero hash, which no password verifies
against (the re-hash starts with the salt characters "AA"). -/
theorem empty_hash_never_verifies (r : Nat) (p p' : List Nat) (hp : p = [] ∨ p[0]? = some 0) :
    GenPasswdWith r p = .ok (List.replicate 14 0) ∧ CheckPasswd (List.replicate 14 0) p' = .ok false := by
  constructor
  · obtain ⟨h, hg, _, _, hz⟩ := genPasswd_ok r p
    rw [hg, hz hp]
  · unfold CheckPasswd
    cases hf : Fcrypt p' (List.replicate 14 0) with
    | error e =>
      exfalso
      exact (fcrypt_panics_iff p' _).mp ⟨e, hf⟩ ⟨0, 0, by simp [List.replicate], by simp [List.replicate], by decide, by decide⟩
    | ok h =>
      obtain ⟨_, _, ⟨s0, s1, e0, _, f0, _⟩, _⟩ := fcrypt_format _ _ _ hf
      simp [List.replicate] at e0; subst e0
      simp only [bind, Except.bind, pure, Except.pure, Except.ok.injEq, beq_eq_false_iff_ne, ne_eq]
      intro hc; rw [hc] at f0; simp [List.replicate, saltChar] at f0

/-- only a 14-byte stored hash of the crypt(3) shape can ever be accepted. -/
theorem checkPasswd_accepts_only_wellformed (e p : List Nat) (h : CheckPasswd e p = .ok true) :
    e.length = 14 ∧ e[13]? = some 0 ∧ ∀ i, 2 ≤ i → i < 13 → ∃ c, e[i]? = some c ∧ c ∈ Spec.alphabet64 := by
  have := fcrypt_format p e e ((checkPasswd_iff e p).mp h)
  exact ⟨this.1, this.2.1, this.2.2.2⟩

/-! #### "verify only the right password" at the callers of CheckPasswd, over histories

`Model/C02Login.lean`: the store user ↦ hash is the only state; ops are logins (ptt.LoginQuery / Login / CheckPasswd),
ChangePasswd and outside writes of the stored hash. -/

open Login in
/-- a login is accepted exactly when re-hashing the password under the hash stored NOW gives that hash. -/
theorem login_iff_current_hash (st : Store) (u pw : List Nat) :
    loginQuery st u pw = .ok true ↔ ∃ h, lookup st u = some h ∧ Fcrypt pw h = .ok h := by
  unfold loginQuery
  cases hl : lookup st u with
  | none => simp [pure, Except.pure]
  | some h => simp [checkPasswd_iff]

open Login in
/-- … i.e. (clause (a)) exactly when the textbook crypt(3) of the password, under the two salt characters of the
stored hash, IS the stored hash — for every stored hash whose salt characters are 7-bit and not NUL. -/
theorem login_iff_crypt3_of_current_hash (st : Store) (u pw h : List Nat) (c0 c1 : Nat) (hl : lookup st u = some h)
    (h0 : h[0]? = some c0) (h1 : h[1]? = some c1) (n0 : c0 ≠ 0) (n1 : c1 ≠ 0) (l0 : c0 < 128) (l1 : c1 < 128) :
    loginQuery st u pw = .ok true ↔ Spec.crypt3 pw c0 c1 = h := by
  have e0 : saltChar c0 = c0 := by simp [saltChar, n0]
  have e1 : saltChar c1 = c1 := by simp [saltChar, n1]
  have := fcrypt_eq_crypt3 pw h c0 c1 h0 h1 (by rw [e0]; exact l0) (by rw [e1]; exact l1)
  rw [e0, e1] at this
  rw [login_iff_current_hash]
  constructor
  · rintro ⟨g, hg, hf⟩
    rw [hl] at hg; cases hg
    rw [this] at hf; cases hf; rfl
  · intro hc; exact ⟨h, hl, by rw [this, hc]⟩

open Login in
/-- at every point of every history the answer to a login is decided by the store as it is at that point: whatever
the earlier operations `pre` were (successful logins with other passwords included), it is `CheckPasswd` of the hash
stored after them. -/
theorem history_login_decided_by_current_hash (st : Store) (pre : List Op) (u pw : List Nat) :
    run st (pre ++ [Op.login u pw]) =
      ((run st pre).1, (run st pre).2 ++ [ofBool (loginQuery (run st pre).1 u pw)]) := by
  rw [run_append, run_single]; rfl

open Login in
/-- once the stored hash of `u` has been replaced (an outside write), every login of `u` is judged against the new
hash only — in particular a password that logged in before is refused unless it also verifies against the new hash. -/
theorem login_after_sethash (st : Store) (u h' pw : List Nat) (hu : lookup st u ≠ none) :
    (step (step st (Op.sethash u h')).1 (Op.login u pw)).2 = ofBool (CheckPasswd h' pw) := by
  cases hl : lookup st u with
  | none => exact absurd hl hu
  | some h => simp [step, hl, loginQuery, lookup_set_self]

open Login in
/-- … and the other users' logins are not affected by it. -/
theorem login_other_user_unaffected (st : Store) (u v h' pw : List Nat) (hne : v ≠ u) :
    (step (step st (Op.sethash u h')).1 (Op.login v pw)).2 = (step st (Op.login v pw)).2 := by
  cases hl : lookup st u with
  | none => simp [step, hl]
  | some h => simp [step, hl, loginQuery, lookup_set_other _ _ _ _ hne]

open Login in
/-- a successful ChangePasswd to a password whose first byte is not NUL: afterwards the new password logs in, for
every value of the random source, and any password is judged against the new hash only. -/
theorem login_after_changePasswd (st st' : Store) (u old new : List Nat) (num : Nat) (hn : new ≠ []) (h0 : new[0]? ≠ some 0)
    (hc : changePasswd st u old new num = .ok (st', true)) :
    loginQuery st' u new = .ok true ∧
      ∃ g, GenPasswdWith num new = .ok g ∧ ∀ pw, loginQuery st' u pw = CheckPasswd g pw := by
  obtain ⟨g, hg, hchk⟩ := check_gen num new hn h0
  unfold changePasswd at hc
  cases hl : lookup st u with
  | none => simp [hl, pure, Except.pure] at hc
  | some h =>
    simp only [hl] at hc
    cases hck : CheckPasswd h old with
    | error e => simp [hck, bind, Except.bind] at hc
    | ok b =>
      cases b with
      | false => simp [hck, bind, Except.bind, pure, Except.pure] at hc
      | true =>
        simp only [hck, hg, bind, Except.bind, pure, Except.pure, Bool.not_true, Bool.false_eq_true, if_false,
          Except.ok.injEq, Prod.mk.injEq, and_true] at hc
        subst hc
        have hq : ∀ pw, loginQuery (set st u g) u pw = CheckPasswd g pw := by
          intro pw; simp [loginQuery, lookup_set_self]
        exact ⟨by rw [hq]; exact hchk, g, hg, hq⟩

open Login in
/-- the broken rule, as a witness: a LoginQuery that remembers the last accepted password per user accepts the old
password after the stored hash has been replaced, although the store refuses it. -/
theorem remembering_login_accepts_stale :
    ∃ (u A hA hB : List Nat),
      let st := [(u, hA)]
      let r1 := loginRemembering [] st u A
      let st' := set st u hB
      r1.2 = Out.ok ∧ (loginRemembering r1.1 st' u A).2 = Out.ok ∧ ofBool (loginQuery st' u A) = Out.refused :=
  ⟨[97, 98], [65], [65, 65, 68, 112, 50, 47, 113, 83, 122, 117, 75, 116, 85, 0],
    [65, 65, 85, 104, 87, 70, 66, 90, 66, 50, 46, 119, 89, 0], by decide +kernel⟩


open Login in
/-- whatever the stored hash is (any bytes: salt positions ≥ 0x80, non-alphabet, damaged), a login / password check
answers `ok` only if re-hashing the candidate under the stored hash gives the stored hash; a panic of the check
(`fault`) is never an acceptance. -/
theorem login_accept_only_if_verifies (st : Store) (u pw : List Nat)
    (h : (step st (Op.login u pw)).2 = Out.ok) : ∃ g, lookup st u = some g ∧ Fcrypt pw g = .ok g := by
  apply (login_iff_current_hash st u pw).mp
  simp only [step] at h
  cases hq : loginQuery st u pw with
  | error e => rw [hq] at h; simp [ofBool] at h
  | ok b => cases b with
    | true => rfl
    | false => rw [hq] at h; simp [ofBool] at h

open Login in
/-- a stored hash with a byte ≥ 0x80 in a salt position verifies nothing: every check of it panics. -/
theorem unverifiable_hash_never_accepts (st : Store) (u pw g : List Nat) (c0 c1 : Nat) (hl : lookup st u = some g)
    (h0 : g[0]? = some c0) (h1 : g[1]? = some c1) (hi : 128 ≤ c0 ∨ 128 ≤ c1) :
    (step st (Op.login u pw)).2 = Out.fault := by
  have hp : ∃ e, Fcrypt pw g = .error e := by
    rw [fcrypt_panics_iff]
    rintro ⟨s0, s1, e0, e1, l0, l1⟩
    rw [h0] at e0; cases e0; rw [h1] at e1; cases e1
    have : ∀ c, 128 ≤ c → ¬ saltChar c < 128 := by intro c hc; unfold saltChar; split <;> omega
    rcases hi with hi | hi
    · exact this _ hi l0
    · exact this _ hi l1
  obtain ⟨e, he⟩ := hp
  simp [step, loginQuery, hl, CheckPasswd, he, bind, Except.bind, ofBool]

open Login in
/-- ChangePasswd that does not succeed — wrong old password, or a check that panics — leaves the store unchanged. -/
theorem changePasswd_unauthorised_leaves_store (st : Store) (u old new : List Nat) (num : Nat)
    (h : (step st (Op.chpw u old new num)).2 ≠ Out.ok) : (step st (Op.chpw u old new num)).1 = st := by
  simp only [step] at h ⊢
  cases hc : changePasswd st u old new num with
  | error e => rfl
  | ok r =>
    obtain ⟨st', b⟩ := r
    rw [hc] at h
    cases b with
    | true => simp at h
    | false =>
      unfold changePasswd at hc
      cases hl : lookup st u with
      | none => simp [hl, pure, Except.pure] at hc; exact hc.symm
      | some g =>
        simp only [hl] at hc
        cases hck : CheckPasswd g old with
        | error e => simp [hck, bind, Except.bind] at hc
        | ok b2 =>
          cases b2 with
          | false => simp [hck, bind, Except.bind, pure, Except.pure] at hc; exact hc.symm
          | true =>
            cases hg : GenPasswdWith num new with
            | error e => simp [hck, hg, bind, Except.bind, pure, Except.pure] at hc
            | ok g' => simp [hck, hg, bind, Except.bind, pure, Except.pure] at hc

/-- the broken rule, as a witness: a check that recovers from the panic of `Fcrypt` and falls through to "no error"
accepts every candidate for a stored hash with a salt byte ≥ 0x80. -/
theorem recovering_check_accepts_anything (pw : List Nat) :
    let g := [200, 65, 65, 65, 65, 65, 65, 65, 65, 65, 65, 65, 65, 0]
    CheckPasswd g pw = .error .panic ∧
      (match CheckPasswd g pw with | .ok b => b | .error _ => true) = true := by
  have : CheckPasswd [200, 65, 65, 65, 65, 65, 65, 65, 65, 65, 65, 65, 65, 0] pw = .error .panic := by
    have hp : ∃ e, Fcrypt pw [200, 65, 65, 65, 65, 65, 65, 65, 65, 65, 65, 65, 65, 0] = .error e := by
      rw [fcrypt_panics_iff]
      rintro ⟨s0, s1, e0, _, l0, _⟩
      simp at e0; subst e0
      simp [saltChar] at l0
    obtain ⟨e, he⟩ := hp
    have := fcrypt_error_is_panic _ _ _ he
    subst this
    simp [CheckPasswd, he, bind, Except.bind]
  exact ⟨this, by rw [this]⟩



/-! #### a login in flight never undoes a password change that completed meanwhile

`ptt.Login` = `LoginQuery` … `userLogin` (→ `pwcuLoginSave` → `pwcuEnd`, a write of the whole record).  Which record is
written back is read from the source on every run (`Gen/LoginSave.lean`). -/

/-- source facts (regenerated): `ptt.Login` is `LoginQuery` then `userLogin`; `pwcuLoginSave` writes back a record it
read itself (`pwcuStart`), not the one its caller loaded for the password check. -/
theorem loginSave_rereads :
    Gen.LoginSave.loginSaveRereads = true ∧ Gen.LoginSave.loginCalls = ["LoginQuery", "userLogin"] := by decide

/-- source fact (regenerated): every pwcu setter of package ptt writes back a record it read itself. -/
theorem pwcu_setters_reread : ∀ r ∈ Gen.LoginSave.writeBackSources, r.2 = "reread" := by decide

open Login in
/-- with the write-back rule of the source, a login in flight equals the sequential history: its decision is that of
`LoginQuery` on the store at its start, the operations completing between its halves act as if the login were not
there, and the login itself leaves the store alone — for every store, user, password and operation list. -/
theorem login_in_flight_eq_sequential (st : Store) (u pw : List Nat) (mid : List Op) :
    loginInFlight Gen.LoginSave.loginSaveRereads st u pw mid
      = ((run st mid).1, (step st (.login u pw)).2, (run st mid).2) := by
  have h : Gen.LoginSave.loginSaveRereads = true := loginSave_rereads.1
  rw [h]
  unfold loginInFlight loginBegin loginEnd
  simp only [step]
  cases ofBool (loginQuery st u pw) <;> simp

open Login in
/-- clause (b) under that schedule: a `ChangePasswd` that succeeds while a login of the same user is in flight decides
every later login, exactly as if it had run alone. -/
theorem change_during_login_survives (st st' : Store) (u A old new : List Nat) (num : Nat)
    (hc : changePasswd st u old new num = .ok (st', true)) :
    (loginInFlight Gen.LoginSave.loginSaveRereads st u A [.chpw u old new num]).1 = st'
    ∧ (loginInFlight Gen.LoginSave.loginSaveRereads st u A [.chpw u old new num]).2.2 = [Out.ok] := by
  rw [login_in_flight_eq_sequential, run_single]
  simp [step, hc]

open Login in
/-- the broken rule, as a witness: a login that writes back the record its first half loaded restores the old hash
over a `ChangePasswd` that reported success meanwhile — afterwards the old password logs in and the new one does not. -/
theorem carried_record_undoes_change :
    ∃ (u A B hA : List Nat),
      let st := [(u, hA)]
      let r := loginInFlight false st u A [.chpw u A B 0]
      r.2.1 = Out.ok ∧ r.2.2 = [Out.ok] ∧ r.1 = st
      ∧ ofBool (loginQuery r.1 u A) = Out.ok ∧ ofBool (loginQuery r.1 u B) = Out.refused
      ∧ ofBool (loginQuery (run st [.chpw u A B 0]).1 u B) = Out.ok :=
  ⟨[97, 98], [65], [66], [65, 65, 68, 112, 50, 47, 113, 83, 122, 117, 75, 116, 85, 0], by decide +kernel⟩

end PttVerif.C02.Props
