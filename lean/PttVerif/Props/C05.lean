import PttVerif.Proofs.C05
/-
C05 — Record-file operations touch exactly the addressed record.
Property theorems only (helper lemmas live in Proofs/C05.lean).  `record f sz k` is the byte range
`[k*sz, (k+1)*sz)` of file `f`; byte `p` belongs to record `p / sz`.
-/
namespace PttVerif.C05.Props
open PttVerif PttVerif.C05

/-! #### the regenerated data: every record type fills its stride exactly -/

/-- packed size (what `encoding/binary` writes) = stride (what the seek arithmetic uses), for the four
record files.  This discharges the hypothesis `img.length = sz` of the append theorems per record type;
it is the statement that failed for `.post` before c0b4139 (99 ≠ 100). -/
theorem packed_eq_stride :
    Gen.RecFile.packedFileHeaderRaw = Gen.RecFile.FILE_HEADER_RAW_SZ ∧
    Gen.RecFile.packedBoardHeaderRaw = Gen.RecFile.BOARD_HEADER_RAW_SZ ∧
    Gen.RecFile.packedUserecRaw = Gen.RecFile.USEREC_RAW_SZ ∧
    Gen.RecFile.packedPostLog = Gen.RecFile.POSTLOG_SZ := by decide

/-- the safe-delete mark fits into one record of every stride, and all strides are positive. -/
theorem mark_fits_strides :
    safeDelMark.length ≤ Gen.RecFile.POSTLOG_SZ ∧ safeDelMark.length ≤ Gen.RecFile.FILE_HEADER_RAW_SZ ∧
    safeDelMark.length ≤ Gen.RecFile.BOARD_HEADER_RAW_SZ ∧ safeDelMark.length ≤ Gen.RecFile.USEREC_RAW_SZ ∧
    0 < Gen.RecFile.POSTLOG_SZ := by decide

/-! #### append -/

/-- AppendRecord on any file (any length, torn tail or not, absent or not): the result is the complete
records followed by the image, and the returned index is count+1. -/
theorem append_spec (s : FS) (sz : Nat) (img : List Nat) (hsz : 0 < sz) (himg : img.length = sz) :
    appendRecord s sz img =
      (⟨true, s.bytes.take (s.bytes.length / sz * sz) ++ img⟩, .idx .ok (s.bytes.length / sz + 1)) := by
  unfold appendRecord
  rw [if_neg (by omega), appendBytes_eq _ _ _ hsz himg]

example : appendRecord ⟨true, [1, 2, 3, 4, 5]⟩ 2 [8, 9] = (⟨true, [1, 2, 3, 4, 8, 9]⟩, .idx .ok 3) := by decide

/-- the returned index is the new record count (and the old count plus one). -/
theorem append_returns_count_succ (s : FS) (sz : Nat) (img : List Nat) (hsz : 0 < sz) (himg : img.length = sz) :
    ∃ s', appendRecord s sz img = (s', .idx .ok (s.bytes.length / sz + 1)) ∧
      getNumRecords s' sz = .count (s.bytes.length / sz + 1) := by
  refine ⟨_, append_spec s sz img hsz himg, ?_⟩
  have h1 := div_mul_le' s.bytes.length sz
  have hl : (s.bytes.take (s.bytes.length / sz * sz) ++ img).length = (s.bytes.length / sz + 1) * sz := by
    rw [List.length_append, List.length_take, himg, Nat.add_mul]; omega
  simp only [getNumRecords, Bool.not_true, Bool.false_eq_true, if_false]
  rw [if_neg (by omega), hl, Nat.mul_div_cancel _ hsz]

/-- every acknowledged (complete) record is intact after an append — for ANY image length. -/
theorem append_preserves_prefix (s : FS) (sz : Nat) (img : List Nat) (k : Nat) (hk : k < s.bytes.length / sz) :
    record (appendRecord s sz img).1.bytes sz k = record s.bytes sz k ∧
    (appendRecord s sz img).1.bytes.take (s.bytes.length / sz * sz) = s.bytes.take (s.bytes.length / sz * sz) := by
  have hsz : sz ≠ 0 := by intro h; subst h; simp at hk
  have h1 := div_mul_le' s.bytes.length sz
  unfold appendRecord
  rw [if_neg hsz]
  simp only [appendBytes]
  refine ⟨?_, take_writeAt _ _ _ _ (Nat.le_refl _) h1⟩
  apply record_writeAt_other _ _ _ _ _ (mul_succ_le_of_lt_div hk)
  right; exact Nat.mul_le_mul_right sz hk

/-- the crash clause: a tail of any length `< sz` left by an interrupted append is overwritten by the
next append; the `n` acknowledged records `g` stay byte-identical. -/
theorem append_over_torn_tail (p : Bool) (g t img : List Nat) (sz n : Nat) (hsz : 0 < sz)
    (hg : g.length = n * sz) (ht : t.length < sz) (himg : img.length = sz) :
    appendRecord ⟨p, g ++ t⟩ sz img = (⟨true, g ++ img⟩, .idx .ok (n + 1)) := by
  have hn : (g ++ t).length / sz = n := by
    apply Nat.div_eq_of_lt_le
    · rw [List.length_append, hg]; omega
    · rw [List.length_append, hg, Nat.add_mul]; omega
  rw [append_spec _ _ _ hsz himg]
  simp only [hn]
  rw [← hg, List.take_left']
  rfl

example : appendRecord ⟨true, [1, 2, 3, 4] ++ [7]⟩ 2 [8, 9] = (⟨true, [1, 2, 3, 4] ++ [8, 9]⟩, .idx .ok 3) := by decide

/-- the record count ignores a torn tail. -/
theorem numRecords_ignores_tail (g t : List Nat) (sz n : Nat) (hsz : 0 < sz)
    (hg : g.length = n * sz) (ht : t.length < sz) :
    getNumRecords ⟨true, g ++ t⟩ sz = .count n ∧ getNumRecords ⟨true, g ++ t⟩ sz = getNumRecords ⟨true, g⟩ sz := by
  have hn : (g ++ t).length / sz = n := by
    apply Nat.div_eq_of_lt_le
    · rw [List.length_append, hg]; omega
    · rw [List.length_append, hg, Nat.add_mul]; omega
  have hn' : g.length / sz = n := by rw [hg, Nat.mul_div_cancel _ hsz]
  have h0 : sz ≠ 0 := by omega
  rw [List.length_append] at hn
  simp [getNumRecords, h0, hn, hn']

/-! #### substitute / delete: only the addressed record -/

/-- SubstituteRecord with any (also negative, also far-beyond-EOF) index: the file never shrinks and no
byte that existed before and belongs to another record (`p / sz ≠ i`) changes. -/
theorem substitute_frame (s : FS) (sz : Nat) (i : Int) (img : List Nat) (hsz : 0 < sz) (himg : img.length ≤ sz) :
    s.bytes.length ≤ (substituteRecord s sz i img).1.bytes.length ∧
    ∀ p, p < s.bytes.length → ((p / sz : Nat) : Int) ≠ i →
      (substituteRecord s sz i img).1.bytes[p]? = s.bytes[p]? :=
  writeRecordAt_frame s sz i img hsz himg

/-- ... and the addressed record then holds the image. -/
theorem substitute_stores (s : FS) (sz i : Nat) (img : List Nat) (himg : img.length = sz) :
    substituteRecord s sz (i : Int) img = (⟨true, writeAt s.bytes (i * sz) img⟩, .unit .ok) ∧
    record (substituteRecord s sz (i : Int) img).1.bytes sz i = img := by
  unfold substituteRecord
  rw [writeRecordAt_nat]
  exact ⟨rfl, record_writeAt_same _ _ _ _ himg⟩

example : substituteRecord ⟨true, [1, 2, 3, 4, 5, 6, 7]⟩ 2 1 [8, 9] = (⟨true, [1, 2, 8, 9, 5, 6, 7]⟩, .unit .ok) := by decide
example : substituteRecord ⟨true, [1, 2, 3]⟩ 2 3 [8, 9] = (⟨true, [1, 2, 3, 0, 0, 0, 8, 9]⟩, .unit .ok) := by decide

/-- DeleteRecord: same frame (the mark is 2 bytes, see `mark_fits_strides`). -/
theorem delete_frame (s : FS) (sz : Nat) (i : Int) (hsz : 0 < sz) (hm : safeDelMark.length ≤ sz) :
    s.bytes.length ≤ (deleteRecord s sz i).1.bytes.length ∧
    ∀ p, p < s.bytes.length → ((p / sz : Nat) : Int) ≠ i →
      (deleteRecord s sz i).1.bytes[p]? = s.bytes[p]? :=
  writeRecordAt_frame s sz i safeDelMark hsz hm

/-- inside an existing addressed record only the mark bytes change. -/
theorem delete_marks (s : FS) (sz i : Nat) (hm : safeDelMark.length ≤ sz) (hi : i < s.bytes.length / sz) :
    record (deleteRecord s sz (i : Int)).1.bytes sz i = safeDelMark ++ (record s.bytes sz i).drop safeDelMark.length ∧
    (deleteRecord s sz (i : Int)).1.bytes.length = s.bytes.length := by
  unfold deleteRecord
  rw [writeRecordAt_nat]
  have hle := mul_succ_le_of_lt_div hi
  refine ⟨record_writeAt_prefix _ _ _ _ hm hle, ?_⟩
  show (writeAt s.bytes (i * sz) safeDelMark).length = _
  apply length_writeAt_inside
  rw [Nat.add_mul] at hle; omega

example : deleteRecord ⟨true, [1, 2, 3, 4, 5, 6, 7, 8, 9]⟩ 4 1 = (⟨true, [1, 2, 3, 4, 46, 100, 7, 8, 9]⟩, .unit .ok) := by decide

/-! #### ModifyDirLite -/

/-- the pair (index, name) is stale when the record does not exist or carries another name. -/
def Stale (s : FS) (idx : Int) (name : List Nat) : Prop :=
  s.present = false ∨ idx < 1 ∨ (s.bytes.length : Int) < (dirSz : Int) * idx ∨
  cstr (field (record s.bytes dirSz (idx - 1).toNat) Gen.RecFile.offFilename Gen.RecFile.lenFilename) ≠ cstr name

/-- ModifyDirLite changes no byte outside record `idx` (1-based) and never changes the file length. -/
theorem modify_frame (s : FS) (idx : Int) (a : ModArgs) :
    (modifyDirLite s idx a).1.bytes.length = s.bytes.length ∧
    ∀ p, p < s.bytes.length → ((p / dirSz : Nat) : Int) ≠ idx - 1 →
      (modifyDirLite s idx a).1.bytes[p]? = s.bytes[p]? := by
  rcases modifyDirLite_cases s idx a with h | h | ⟨k, hk, _, hle, _, h⟩
  · rw [h]; exact ⟨rfl, fun _ _ _ => rfl⟩
  · rw [h]; exact ⟨rfl, fun _ _ _ => rfl⟩
  · rw [h]
    have hlen : (modifyRecord (record s.bytes dirSz k) a).length = dirSz :=
      modifyRecord_length _ _ (length_record_of_le _ _ _ hle)
    refine ⟨length_writeAt_inside _ _ _ (by rw [hlen]; rw [Nat.add_mul] at hle; omega), ?_⟩
    intro p hp hne
    have hne' : p / dirSz ≠ k := by intro h'; apply hne; rw [h', hk]; omega
    rcases outside_of_div_ne hne' with h1 | h1
    · exact getElem?_writeAt_before _ _ _ _ h1 hp
    · apply getElem?_writeAt_after
      rw [hlen]; rw [Nat.add_mul] at h1; omega

/-- a stale (index, name) pair is refused and the file is left exactly as it was. -/
theorem modify_refuses_stale (s : FS) (idx : Int) (a : ModArgs) (h : Stale s idx a.name) :
    ∃ e, e ≠ Err.ok ∧ modifyDirLite s idx a = (s, .unit e) := by
  rcases modifyDirLite_cases s idx a with h' | h' | ⟨k, hk, hp, hle, hn, _⟩
  · exact ⟨.invalidIdx, by decide, h'⟩
  · exact ⟨.err, by decide, h'⟩
  · exfalso
    subst hk
    rcases h with h | h | h | h
    · rw [hp] at h; cases h
    · omega
    · rw [dirSz_eq] at h hle; omega
    · have : ((k : Int) + 1 - 1).toNat = k := by omega
      rw [this] at h
      exact h ((cstrcmpEq_iff _ _).1 hn)

/-- conversely a matching pair is accepted: the record is rewritten in place by `modifyRecord`. -/
theorem modify_accepts (s : FS) (k : Nat) (a : ModArgs) (h : ¬ Stale s ((k : Int) + 1) a.name) :
    modifyDirLite s ((k : Int) + 1) a =
      (⟨true, writeAt s.bytes (k * dirSz) (modifyRecord (record s.bytes dirSz k) a)⟩, .unit .ok) := by
  unfold Stale at h
  have hk : ((k : Int) + 1 - 1).toNat = k := by omega
  rw [hk] at h
  simp only [not_or, Decidable.not_not] at h
  obtain ⟨h1, _, h3, h4⟩ := h
  apply modifyDirLite_ok s k a (by simpa using h1)
  · rw [dirSz_eq] at h3 ⊢; omega
  · exact (cstrcmpEq_iff _ _).2 h4

/-- an accepted ModifyDirLite keeps the record's file name (so the (index, name) pair stays valid) and the
stored recommend count, when a delta is given, is within ±MAX_RECOMMENDS (the int8 sum wraps first: mirrored). -/
theorem modify_keeps_name (s : FS) (k : Nat) (a : ModArgs) (h : ¬ Stale s ((k : Int) + 1) a.name) :
    field (record (modifyDirLite s ((k : Int) + 1) a).1.bytes dirSz k) Gen.RecFile.offFilename Gen.RecFile.lenFilename =
      field (record s.bytes dirSz k) Gen.RecFile.offFilename Gen.RecFile.lenFilename := by
  have hle : (k + 1) * dirSz ≤ s.bytes.length := by
    unfold Stale at h
    simp only [not_or] at h
    have := h.2.2.1
    rw [dirSz_eq] at this ⊢; omega
  have hfull : (record s.bytes dirSz k).length = dirSz := length_record_of_le _ _ _ hle
  rw [modify_accepts s k a h]
  show field (record (writeAt s.bytes (k * dirSz) _) dirSz k) _ _ = _
  rw [record_writeAt_same _ _ _ _ (modifyRecord_length _ _ hfull)]
  show List.take Gen.RecFile.lenFilename (List.drop 0 _) = List.take Gen.RecFile.lenFilename (List.drop 0 _)
  rw [List.drop_zero, List.drop_zero]
  exact modifyRecord_take_name _ _ hfull

theorem recommend_clamped (cur : Nat) (delta : Int) (hd : delta ≠ 0) :
    -maxRec ≤ toInt8 (recommendUpdate cur delta) ∧ toInt8 (recommendUpdate cur delta) ≤ maxRec :=
  recommendUpdate_range cur delta hd

/-- non-vacuity: a one-record file, matching name, recommend 100 + 100 wraps in int8 to -56 (byte 200). -/
example :
    let r := (List.replicate 28 77) ++ [0, 0, 0, 0, 0, 100] ++ List.replicate 94 1
    (modifyDirLite ⟨true, r⟩ 1 ⟨List.replicate 28 77, 0, none, none, none, 100, none, 0, 0⟩).1.bytes[33]? = some 200 := by
  decide +kernel

/-! #### window read -/

/-- ascending window: records `start, start+1, …`, at most `n`, not beyond `cnt`. -/
def windowAsc (f : File) (cnt start n : Nat) : List (Nat × List Nat) :=
  (List.range' start (min n (cnt + 1 - start))).map (fun i => (i, record f dirSz (i - 1)))

/-- descending window: records `start, start-1, …, 1`, at most `n`; empty when `start` is beyond `cnt`. -/
def windowDesc (f : File) (cnt start n : Nat) : List (Nat × List Nat) :=
  if start > cnt then [] else (List.range (min n start)).map (fun j => (start - j, record f dirSz (start - j - 1)))

/-- GetRecords returns exactly the requested run of consecutive records in the requested direction,
clipped to `[1, count]` (count = complete records; a torn tail is never returned). -/
theorem getRecords_window (s : FS) (start n : Nat) (desc : Bool) (hp : s.present = true) (h1 : 1 ≤ start) :
    getRecords s (start : Int) (n : Int) desc =
      .recs .ok (if desc then windowDesc s.bytes (s.bytes.length / dirSz) start n
                 else windowAsc s.bytes (s.bytes.length / dirSz) start n) := by
  unfold getRecords
  rw [if_neg (by omega)]
  simp only [hp, Bool.not_true, Bool.false_eq_true, if_false]
  rw [if_neg (by omega)]
  simp only [Int.toNat_natCast]
  cases desc with
  | false => simp only [Bool.false_eq_true, if_false]; rw [getLoop_asc _ _ _ h1]; rfl
  | true =>
    simp only [if_true]
    unfold windowDesc
    by_cases hc : start > s.bytes.length / dirSz
    · rw [if_pos hc]
      cases n with
      | zero => rfl
      | succ n => unfold getLoop; rw [if_pos (Or.inr hc)]
    · rw [if_neg hc, getLoop_desc _ _ _ (by omega)]

theorem getRecords_invalid_start (s : FS) (start n : Int) (desc : Bool) (h : start < 1) :
    getRecords s start n desc = .recs .invalidIdx [] := by
  unfold getRecords; rw [if_pos h]

example : getRecords ⟨true, List.replicate 300 7⟩ 2 5 true =
    .recs .ok [(2, List.replicate 128 7), (1, List.replicate 128 7)] := by decide +kernel

/-! #### histories -/

/-- an operation is well-formed for a record file of stride `sz`: it uses that stride and writes at
most one record's worth of bytes (appends may carry any image: they never reach a complete record). -/
def OpAt (sz : Nat) : Op → Prop
  | .append sz' _ => sz' = sz
  | .subst sz' _ img => sz' = sz ∧ img.length ≤ sz
  | .delete sz' _ => sz' = sz ∧ safeDelMark.length ≤ sz
  | .modify _ _ => sz = dirSz
  | .num _ => True
  | .get _ _ _ => True

/-- the 0-based record an operation addresses explicitly (append addresses the slot behind the last
complete record, which is never an existing complete record). -/
def addressed : Op → Option Int
  | .subst _ i _ => some i
  | .delete _ i => some i
  | .modify idx _ => some (idx - 1)
  | _ => none

/-- one step: a complete record that is not addressed is byte-identical afterwards; the file never shrinks. -/
theorem step_frame (s : FS) (op : Op) (sz k : Nat) (hsz : 0 < sz) (hop : OpAt sz op)
    (hk : k < s.bytes.length / sz) (hne : addressed op ≠ some (k : Int)) :
    record (step s op).1.bytes sz k = record s.bytes sz k ∧ s.bytes.length ≤ (step s op).1.bytes.length := by
  cases op with
  | append sz' img =>
    obtain rfl : sz' = sz := hop
    refine ⟨(append_preserves_prefix s sz' img k hk).1, ?_⟩
    show _ ≤ (appendRecord s sz' img).1.bytes.length
    unfold appendRecord
    rw [if_neg (by omega)]
    exact length_writeAt_ge _ _ _
  | subst sz' i img =>
    obtain ⟨rfl, himg⟩ := hop
    have hne' : (k : Int) ≠ i := by intro h; apply hne; rw [h]; rfl
    exact ⟨writeRecordAt_record_other s sz' i img hsz himg k hk hne', (writeRecordAt_frame s sz' i img hsz himg).1⟩
  | delete sz' i =>
    obtain ⟨rfl, hm⟩ := hop
    have hne' : (k : Int) ≠ i := by intro h; apply hne; rw [h]; rfl
    exact ⟨writeRecordAt_record_other s sz' i _ hsz hm k hk hne', (writeRecordAt_frame s sz' i _ hsz hm).1⟩
  | modify idx a =>
    have hd : sz = dirSz := hop
    subst hd
    show record (modifyDirLite s idx a).1.bytes dirSz k = _ ∧ _ ≤ (modifyDirLite s idx a).1.bytes.length
    refine ⟨?_, by rw [(modify_frame s idx a).1]; exact Nat.le_refl _⟩
    rcases modifyDirLite_cases s idx a with h | h | ⟨k', hk', _, hle, _, h⟩
    · rw [h]
    · rw [h]
    · rw [h]
      have hlen : (modifyRecord (record s.bytes dirSz k') a).length = dirSz :=
        modifyRecord_length _ _ (length_record_of_le _ _ _ hle)
      apply record_writeAt_other _ _ _ _ _ (mul_succ_le_of_lt_div hk)
      have hkk : k' ≠ k := by
        intro h'; apply hne; subst h'; subst hk'; show some _ = some _; congr 1; omega
      rw [hlen]
      rcases record_ranges_disjoint (sz := dirSz) hkk with h1 | h1
      · left; exact h1
      · right; exact h1
  | num sz' => exact ⟨rfl, Nat.le_refl _⟩
  | get st n d => exact ⟨rfl, Nat.le_refl _⟩

/-- **history frame**: over an arbitrary sequence of well-formed operations, every complete record of
the initial file that no operation addresses is byte-identical at the end, and the file has not shrunk. -/
theorem history_frame (ops : List Op) (s : FS) (sz k : Nat) (hsz : 0 < sz)
    (hops : ∀ op ∈ ops, OpAt sz op) (hk : k < s.bytes.length / sz)
    (hne : ∀ op ∈ ops, addressed op ≠ some (k : Int)) :
    record (run s ops).bytes sz k = record s.bytes sz k ∧ s.bytes.length ≤ (run s ops).bytes.length := by
  induction ops generalizing s with
  | nil => exact ⟨rfl, Nat.le_refl _⟩
  | cons op ops ih =>
    have h1 := step_frame s op sz k hsz (hops op (List.mem_cons_self ..)) hk (hne op (List.mem_cons_self ..))
    have hk' : k < (step s op).1.bytes.length / sz :=
      Nat.lt_of_lt_of_le hk (Nat.div_le_div_right h1.2)
    have h2 := ih (step s op).1 (fun o ho => hops o (List.mem_cons_of_mem _ ho)) hk'
      (fun o ho => hne o (List.mem_cons_of_mem _ ho))
    show record (run (step s op).1 ops).bytes sz k = _ ∧ _ ≤ (run (step s op).1 ops).bytes.length
    exact ⟨h2.1.trans h1.1, Nat.le_trans h1.2 h2.2⟩

/-- non-vacuity: a history that appends, overwrites record 1, deletes record 2 and extends the file leaves record 0 alone. -/
example : record (run ⟨true, [1, 2, 3, 4, 5, 6, 7]⟩
    [.append 2 [8, 9], .subst 2 1 [0, 0], .delete 2 2, .subst 2 9 [1, 1], .num 2]).bytes 2 0 = [1, 2] := by decide

/-! #### the file is the fold of the abstract record-list operations -/

/-- `present = false` means there are no bytes. -/
def FS.Valid (s : FS) : Prop := s.present = false → s.bytes = []

/-- the abstract operation on the list of complete records; `none` when the operation is not an
in-range, well-typed record operation at stride `sz` (out-of-range writes extend the file with zero
records / partial records and are covered by the frame theorems instead). -/
def absStep (sz : Nat) (rs : List (List Nat)) : Op → Option (List (List Nat))
  | .append sz' img => if sz' = sz ∧ img.length = sz then some (rs ++ [img]) else none
  | .subst sz' i img =>
    if sz' = sz ∧ img.length = sz ∧ 0 ≤ i ∧ i.toNat < rs.length then some (rs.set i.toNat img) else none
  | .delete sz' i =>
    if sz' = sz ∧ safeDelMark.length ≤ sz ∧ 0 ≤ i ∧ i.toNat < rs.length then
      some (rs.set i.toNat (safeDelMark ++ (rs.getD i.toNat []).drop safeDelMark.length))
    else none
  | .modify idx a =>
    if sz = dirSz ∧ 1 ≤ idx ∧ (idx - 1).toNat < rs.length ∧
        cstr (field (rs.getD (idx - 1).toNat []) Gen.RecFile.offFilename Gen.RecFile.lenFilename) = cstr a.name then
      some (rs.set (idx - 1).toNat (modifyRecord (rs.getD (idx - 1).toNat []) a))
    else none
  | .num _ => some rs
  | .get _ _ _ => some rs

def absRun (sz : Nat) (rs : List (List Nat)) : List Op → Option (List (List Nat))
  | [] => some rs
  | op :: ops => (absStep sz rs op).bind (fun rs' => absRun sz rs' ops)

theorem refine_step (s : FS) (op : Op) (sz : Nat) (rs : List (List Nat)) (hsz : 0 < sz) (hv : FS.Valid s)
    (h : absStep sz (recs s.bytes sz) op = some rs) :
    recs (step s op).1.bytes sz = rs ∧ FS.Valid (step s op).1 := by
  cases op with
  | append sz' img =>
    simp only [absStep] at h
    split at h
    · rename_i hc
      obtain ⟨rfl, himg⟩ := hc
      injection h with h
      subst h
      show recs (appendRecord s sz' img).1.bytes sz' = _ ∧ FS.Valid (appendRecord s sz' img).1
      unfold appendRecord
      rw [if_neg (by omega)]
      exact ⟨recs_append _ _ _ hsz himg, fun h => by cases h⟩
    · cases h
  | subst sz' i img =>
    simp only [absStep] at h
    split at h
    · rename_i hc
      obtain ⟨rfl, himg, hi0, hi⟩ := hc
      injection h with h
      subst h
      obtain ⟨n, rfl⟩ := Int.eq_ofNat_of_zero_le hi0
      rw [length_recs] at hi
      simp only [Int.toNat_natCast] at hi ⊢
      show recs (writeRecordAt s sz' (n : Int) img).1.bytes sz' = _ ∧ FS.Valid (writeRecordAt s sz' (n : Int) img).1
      rw [writeRecordAt_nat]
      refine ⟨?_, fun h => by cases h⟩
      show recs (writeAt s.bytes (n * sz') img) sz' = _
      rw [recs_writeAt _ _ _ _ (by omega) hi]
      congr 1
      rw [List.drop_eq_nil_of_le (by rw [length_record_of_le _ _ _ (mul_succ_le_of_lt_div hi)]; omega), List.append_nil]
    · cases h
  | delete sz' i =>
    simp only [absStep] at h
    split at h
    · rename_i hc
      obtain ⟨rfl, hm, hi0, hi⟩ := hc
      injection h with h
      subst h
      obtain ⟨n, rfl⟩ := Int.eq_ofNat_of_zero_le hi0
      rw [length_recs] at hi
      simp only [Int.toNat_natCast] at hi ⊢
      show recs (writeRecordAt s sz' (n : Int) safeDelMark).1.bytes sz' = _ ∧ FS.Valid (writeRecordAt s sz' (n : Int) _).1
      rw [writeRecordAt_nat]
      refine ⟨?_, fun h => by cases h⟩
      show recs (writeAt s.bytes (n * sz') safeDelMark) sz' = _
      rw [recs_writeAt _ _ _ _ hm hi, getD_recs _ _ _ hi]
    · cases h
  | modify idx a =>
    simp only [absStep] at h
    split at h
    · rename_i hc
      obtain ⟨rfl, hi1, hi, hn⟩ := hc
      injection h with h
      subst h
      obtain ⟨k, rfl⟩ : ∃ k : Nat, idx = (k : Int) + 1 := ⟨(idx - 1).toNat, by omega⟩
      have hk : ((k : Int) + 1 - 1).toNat = k := by omega
      rw [hk, length_recs] at hi
      rw [hk, getD_recs _ _ _ hi] at hn
      rw [hk, getD_recs _ _ _ hi]
      have hle := mul_succ_le_of_lt_div hi
      have hp : s.present = true := by
        cases hpp : s.present with
        | true => rfl
        | false =>
          have := hv hpp
          rw [this] at hi; simp at hi
      show recs (modifyDirLite s ((k : Int) + 1) a).1.bytes dirSz = _ ∧ FS.Valid (modifyDirLite s ((k : Int) + 1) a).1
      rw [modifyDirLite_ok s k a hp hle ((cstrcmpEq_iff _ _).2 hn)]
      refine ⟨?_, fun h => by cases h⟩
      show recs (writeAt s.bytes (k * dirSz) _) dirSz = _
      have hlen : (modifyRecord (record s.bytes dirSz k) a).length = dirSz :=
        modifyRecord_length _ _ (length_record_of_le _ _ _ hle)
      rw [recs_writeAt _ _ _ _ (by omega) hi]
      congr 1
      rw [List.drop_eq_nil_of_le (by rw [length_record_of_le _ _ _ hle]; omega), List.append_nil]
    · cases h
  | num sz' => simp only [absStep] at h; injection h with h; subst h; exact ⟨rfl, hv⟩
  | get st n d => simp only [absStep] at h; injection h with h; subst h; exact ⟨rfl, hv⟩

/-- **refinement over histories**: whenever the abstract record-list run is defined, the complete
records of the real file after the run are exactly its result — for every initial file (torn tail or
not) and every operation sequence. -/
theorem history_refines (ops : List Op) (s : FS) (sz : Nat) (rs : List (List Nat)) (hsz : 0 < sz) (hv : FS.Valid s)
    (h : absRun sz (recs s.bytes sz) ops = some rs) :
    recs (run s ops).bytes sz = rs := by
  induction ops generalizing s with
  | nil => simp only [absRun] at h; injection h
  | cons op ops ih =>
    simp only [absRun] at h
    cases hs : absStep sz (recs s.bytes sz) op with
    | none => rw [hs] at h; cases h
    | some rs' =>
      rw [hs] at h
      have := refine_step s op sz rs' hsz hv hs
      show recs (run (step s op).1 ops).bytes sz = rs
      apply ih (step s op).1 this.2
      rw [this.1]; exact h

/-- non-vacuity: the abstract run is defined on ordinary histories, e.g. -/
example : absRun 2 [[1, 2], [3, 4]] [.append 2 [5, 6], .subst 2 0 [9, 9], .delete 2 1, .num 2] =
    some [[9, 9], [46, 100], [5, 6]] := by decide

/-! #### callers: ptt.addBoardRecord on .BRD -/

/-- regenerated from ptt/admin.go: addBoardRecord converts the 1-based board id to the 0-based record index. -/
theorem addBoard_index_is_store_index : Gen.RecFile.addBoardIndexIsStoreIndex = true := by decide

/-- what `cache.GetBid("")` finds: a complete record with an empty board name, and no earlier one. -/
theorem vacatedSlot_spec (f : File) (k : Nat) (h : vacatedSlot f = some k) :
    k < f.length / brdSz ∧ (record f brdSz k).head? = some 0 := by
  unfold vacatedSlot at h
  have h1 := List.mem_of_find?_eq_some h
  have h2 := List.find?_some h
  exact ⟨List.mem_range.1 h1, by simpa using h2⟩

/-- a board created while slot `k` is vacated is written into exactly that record: same file length, the
slot holds the image, every other record — in particular the FOLLOWING (`k+1`) and the PRECEDING
(`k-1`) one — is byte-identical, and the returned board id is `k+1`. -/
theorem addBoard_reuses_vacated (s : FS) (img : List Nat) (k : Nat) (hv : vacatedSlot s.bytes = some k)
    (hmax : s.bytes.length / brdSz ≤ maxBoard) (himg : img.length = brdSz) :
    addBoardRecord s img = (⟨true, writeAt s.bytes (k * brdSz) img⟩, .idx .ok (k + 1)) ∧
    (addBoardRecord s img).1.bytes.length = s.bytes.length ∧
    record (addBoardRecord s img).1.bytes brdSz k = img ∧
    (∀ j, j < s.bytes.length / brdSz → j ≠ k →
      record (addBoardRecord s img).1.bytes brdSz j = record s.bytes brdSz j) ∧
    recs (addBoardRecord s img).1.bytes brdSz = (recs s.bytes brdSz).set k img := by
  obtain ⟨hk, _⟩ := vacatedSlot_spec _ _ hv
  have hle := mul_succ_le_of_lt_div hk
  have heq : addBoardRecord s img = (⟨true, writeAt s.bytes (k * brdSz) img⟩, .idx .ok (k + 1)) := by
    unfold addBoardRecord
    rw [hv]
    simp only []
    rw [if_pos (by omega)]
    unfold addBoardIndex
    rw [addBoard_index_is_store_index]
    simp only [if_true]
    unfold substituteRecord
    rw [writeRecordAt_nat]
  refine ⟨heq, ?_⟩
  rw [heq]
  refine ⟨length_writeAt_inside _ _ _ (by rw [Nat.add_mul] at hle; omega), record_writeAt_same _ _ _ _ himg, ?_, ?_⟩
  · intro j hj hjk
    apply record_writeAt_other _ _ _ _ _ (mul_succ_le_of_lt_div hj)
    rcases record_ranges_disjoint (sz := brdSz) (Ne.symm hjk) with h | h
    · left; omega
    · right; exact h
  · show recs (writeAt s.bytes (k * brdSz) img) brdSz = _
    rw [recs_writeAt _ _ _ _ (by omega) hk]
    congr 1
    rw [List.drop_eq_nil_of_le (by rw [length_record_of_le _ _ _ hle]; omega), List.append_nil]

/-- without a vacated slot the board is appended: one more record, id = count + 1, all others intact. -/
theorem addBoard_appends (s : FS) (img : List Nat) (hv : vacatedSlot s.bytes = none)
    (hn : s.bytes.length / brdSz < maxBoard) (himg : img.length = brdSz) :
    addBoardRecord s img =
      (⟨true, s.bytes.take (s.bytes.length / brdSz * brdSz) ++ img⟩, .idx .ok (s.bytes.length / brdSz + 1)) ∧
    recs (addBoardRecord s img).1.bytes brdSz = recs s.bytes brdSz ++ [img] := by
  have heq : addBoardRecord s img = appendRecord s brdSz img := by
    unfold addBoardRecord
    rw [hv]
    simp only []
    rw [if_neg (by omega)]
  rw [heq]
  refine ⟨append_spec s brdSz img brdSz_pos himg, ?_⟩
  unfold appendRecord
  rw [if_neg (by have := brdSz_pos; omega)]
  exact recs_append _ _ _ brdSz_pos himg

/-- a full board table refuses the board and leaves `.BRD` as it is. -/
theorem addBoard_full (s : FS) (img : List Nat) (hv : vacatedSlot s.bytes = none)
    (hn : maxBoard ≤ s.bytes.length / brdSz) : addBoardRecord s img = (s, .idx .err 0) := by
  unfold addBoardRecord
  rw [hv]
  simp only []
  rw [if_pos hn]

/-- witness for the broken rule (the 1-based id handed to the 0-based SubstituteRecord): the record
FOLLOWING the vacated slot is replaced by the image and the slot itself stays as it was. -/
theorem one_based_index_overwrites_next (s : FS) (img : List Nat) (k : Nat) (himg : img.length = brdSz)
    (hk : k + 1 < s.bytes.length / brdSz) (hdiff : record s.bytes brdSz (k + 1) ≠ img) :
    record (substituteRecord s brdSz ((k : Int) + 1) img).1.bytes brdSz (k + 1) ≠ record s.bytes brdSz (k + 1) ∧
    record (substituteRecord s brdSz ((k : Int) + 1) img).1.bytes brdSz k = record s.bytes brdSz k := by
  have h1 := (substitute_stores s brdSz (k + 1) img himg).2
  have hc : ((k + 1 : Nat) : Int) = (k : Int) + 1 := by omega
  rw [hc] at h1
  refine ⟨by rw [h1]; exact fun h => hdiff h.symm, ?_⟩
  exact writeRecordAt_record_other s brdSz _ img brdSz_pos (by omega) k (by omega) (by omega)

/-! #### callers: the .DIR.bottom count behind the board cache -/

/-- regenerated from cache/cache_board.go: both guards on the pinned-article count are strict (`n > 5`),
with the same limit — 5 pinned articles, the legal maximum, is NOT over the limit. -/
theorem bottom_guards :
    Gen.RecFile.setBottomStrict = true ∧ Gen.RecFile.reloadBottomStrict = true ∧
    Gen.RecFile.setBottomLimit = Gen.RecFile.reloadBottomLimit ∧ Gen.RecFile.setBottomLimit < 256 := by decide

def maxPinned : Nat := Gen.RecFile.setBottomLimit

/-- ReloadBCache never touches the file; with at most `maxPinned` records the cached count is the count. -/
theorem reloadBottom_frame (f : FS) :
    (reloadBottom f).file = f ∧ (reloadBottom f).cold = true ∧
    (bottomCount f ≤ maxPinned → (reloadBottom f).nBottom = bottomCount f) := by
  refine ⟨rfl, rfl, ?_⟩
  intro h
  obtain ⟨_, h2, h3, _⟩ := bottom_guards
  unfold maxPinned at h
  simp only [reloadBottom, overLimit, h2, if_true]
  rw [← h3]
  have : ¬ (bottomCount f > Gen.RecFile.setBottomLimit) := by omega
  simp [this]

/-- SetBottomTotal (the cold path of every first read of a board) on a file with 0..maxPinned records —
the whole legal range, the full set of 5 included — leaves the file exactly as it is and caches its count. -/
theorem setBottomTotal_preserves (f : FS) (h : bottomCount f ≤ maxPinned) :
    setBottomTotal f = (f, bottomCount f) := by
  obtain ⟨h1, _, _, h4⟩ := bottom_guards
  unfold maxPinned at h
  unfold setBottomTotal setBottomTotalG
  have hm : bottomCount f % 256 = bottomCount f := Nat.mod_eq_of_lt (by omega)
  simp only [hm, overLimit, h1, if_true]
  have : ¬ (bottomCount f > Gen.RecFile.setBottomLimit) := by omega
  simp [this]

/-- witness for the broken rule: with the non-strict guard (`n >= 5`) a first read of a board with the
full set of pinned articles unlinks .DIR.bottom. -/
theorem nonstrict_guard_destroys_full_set (f : FS) (h : bottomCount f = 5) :
    setBottomTotalG false 5 f = (FS.absent, 0) := by
  simp [setBottomTotalG, overLimit, h]

/-- `n` successive reads of the board (each goes through GetBTotalWithRetry). -/
def coldReads : Nat → Bottom → Bottom
  | 0, b => b
  | n + 1, b => coldReads n (coldRead b)

/-- any number of reads of the board after a reload: the file is byte-identical and the cached count is
the record count (legal range). -/
theorem bottom_reads_frame (f : FS) (h : bottomCount f ≤ maxPinned) (n : Nat) :
    (coldReads n (reloadBottom f)).file = f ∧
    (coldReads n (reloadBottom f)).nBottom = bottomCount f := by
  have hr := reloadBottom_frame f
  suffices hs : ∀ n (b : Bottom), b.file = f → b.nBottom = bottomCount f →
      (coldReads n b).file = f ∧ (coldReads n b).nBottom = bottomCount f from
    hs n _ hr.1 (hr.2.2 h)
  intro n
  induction n with
  | zero => intro b h1 h2; exact ⟨h1, h2⟩
  | succ n ih =>
    intro b h1 h2
    show (coldReads n (coldRead b)).file = f ∧ (coldReads n (coldRead b)).nBottom = bottomCount f
    apply ih
    · unfold coldRead; split
      · simp only [h1, setBottomTotal_preserves f h]
      · exact h1
    · unfold coldRead; split
      · simp only [h1, setBottomTotal_preserves f h]
      · exact h2

/-- ... and the bottom window then returns exactly all pinned records, in order. -/
theorem loadBottom_window (f : FS) (h : bottomCount f ≤ maxPinned) (n : Nat) :
    loadBottom (coldReads n (reloadBottom f)) =
      .recs .ok ((List.range' 1 (bottomCount f)).map (fun i => (i, record f.bytes dirSz (i - 1)))) := by
  obtain ⟨h1, h2⟩ := bottom_reads_frame f h n
  unfold loadBottom
  rw [h1, h2]
  by_cases h0 : bottomCount f = 0
  · simp [h0]
  · rw [if_neg h0]
    have hp : f.present = true := by
      cases hpp : f.present with
      | true => rfl
      | false => simp [bottomCount, hpp] at h0
    have hw := getRecords_window f 1 (bottomCount f) false hp (Nat.le_refl _)
    simp only [Bool.false_eq_true, if_false] at hw
    have hc : ((1 : Nat) : Int) = 1 := rfl
    rw [hc] at hw
    rw [hw]
    unfold windowAsc
    have : bottomCount f = f.bytes.length / dirSz := by simp [bottomCount, hp]
    rw [← this]
    congr 3
    omega

example : loadBottom (coldRead (reloadBottom ⟨true, List.replicate 640 7⟩)) =
    .recs .ok ((List.range' 1 5).map (fun i => (i, List.replicate 128 7))) := by decide +kernel

/-! #### the request layer: a looked-up name is confirmed before its record is touched -/

/-- regenerated: cmsys.GetRecord compares the hit with the requested name; bbs.DeleteArticles compares
the article id of the hit with the requested id (not merely its create-time). -/
theorem lookup_confirmations :
    Gen.RecFile.getRecordConfirmsName = true ∧ Gen.RecFile.deleteConfirmsArticleID = true ∧
    Gen.RecFile.deleteConfirmsCreateTimeOnly = false := by decide

theorem getRecordReq_eq (s : FS) (name : List Nat) : getRecordReq s name = getRecordG true s name := by
  unfold getRecordReq; rw [lookup_confirmations.1]

theorem delConfirm_eq : delConfirm = .articleID := by
  unfold delConfirm; rw [lookup_confirmations.2.2]; rfl

/-- whatever index the search returns (it falls back to the nearest entry for an absent name), a hit of the
confirmed lookup is an existing complete record that carries the requested name. -/
theorem getRecord_hit_spec (s : FS) (name : List Nat) (i : Nat) (r : List Nat)
    (h : getRecordG true s name = .hit i r) :
    1 ≤ i ∧ i ≤ s.bytes.length / dirSz ∧ r = record s.bytes dirSz (i - 1) ∧ fnEq name (recName r) = true := by
  unfold getRecordG at h
  by_cases hp : s.present = true
  · simp only [hp, if_true] at h
    by_cases hc : s.bytes.length / dirSz = 0
    · rw [if_pos hc] at h; cases h
    · rw [if_neg hc] at h
      cases hct : C13.fnCreateTime name with
      | none => rw [hct] at h; cases h
      | some ct =>
        rw [hct] at h
        simp only [] at h
        generalize C06.findRecordStartIdx _ _ _ _ _ = res at h
        cases res with
        | error e => cases e <;> cases h
        | ok j =>
          simp only [] at h
          by_cases hj : 1 ≤ j ∧ j ≤ ((s.bytes.length / dirSz : Nat) : Int)
          · rw [if_pos hj] at h
            by_cases he : fnEq name (recName (record s.bytes dirSz (j.toNat - 1))) = true
            · rw [if_pos he] at h
              injection h with h1 h2
              subst h1; subst h2
              exact ⟨by omega, by omega, rfl, he⟩
            · rw [if_neg he] at h; cases h
          · rw [if_neg hj] at h; cases h
  · have hp' : s.present = false := by simpa using hp
    simp only [hp', Bool.false_eq_true, if_false, if_true] at h
    cases h

/-- ptt.Recommend for ANY requested name: the length of .DIR is unchanged and a byte changes only inside a
record that carries the requested name (`Filename_t.Eq`). -/
theorem recommend_request_frame (s : FS) (name : List Nat) (ctype : Nat) (mtime : Int) :
    (recommendReq s name ctype mtime).1.bytes.length = s.bytes.length ∧
    ∀ p, p < s.bytes.length → (recommendReq s name ctype mtime).1.bytes[p]? ≠ s.bytes[p]? →
      fnEq name (recName (record s.bytes dirSz (p / dirSz))) = true := by
  unfold recommendReq
  rw [getRecordReq_eq]
  cases hl : getRecordG true s name with
  | fault => exact ⟨rfl, fun _ _ h => absurd rfl h⟩
  | miss => exact ⟨rfl, fun _ _ h => absurd rfl h⟩
  | hit i r =>
    obtain ⟨h1, _, hr, he⟩ := getRecord_hit_spec s name i r hl
    simp only []
    split
    · exact ⟨rfl, fun _ _ h => absurd rfl h⟩
    · split
      · exact ⟨rfl, fun _ _ h => absurd rfl h⟩
      · split
        · have hf := modify_frame s (i : Int) ⟨recName r, mtime, none, none, none,
            (if ctype = 1 ∧ toInt8 (r.getD Gen.RecFile.offRecommend 0) < maxRec then 1
             else if ctype = 2 ∧ toInt8 (r.getD Gen.RecFile.offRecommend 0) > -maxRec then -1 else 0), none, 0, 0⟩
          refine ⟨hf.1, ?_⟩
          intro p hp hne
          by_cases hk : ((p / dirSz : Nat) : Int) = (i : Int) - 1
          · have : p / dirSz = i - 1 := by omega
            rw [this, ← hr]; exact he
          · exact absurd (hf.2 p hp hk) hne
        · exact ⟨rfl, fun _ _ h => absurd rfl h⟩

/-- ... so a request for a name that no record carries (stale, expired, forged) is refused and
changes nothing — whatever neighbour the search fell back to. -/
theorem recommend_absent_refused (s : FS) (name : List Nat) (ctype : Nat) (mtime : Int)
    (habs : ∀ k, k < s.bytes.length / dirSz → fnEq name (recName (record s.bytes dirSz k)) = false) :
    (recommendReq s name ctype mtime).1 = s ∧ (recommendReq s name ctype mtime).2 ≠ .unit .ok := by
  unfold recommendReq
  rw [getRecordReq_eq]
  cases hl : getRecordG true s name with
  | fault => exact ⟨rfl, by simp⟩
  | miss => exact ⟨rfl, by simp⟩
  | hit i r =>
    obtain ⟨h1, h2, hr, he⟩ := getRecord_hit_spec s name i r hl
    have := habs (i - 1) (by omega)
    rw [← hr, he] at this
    cases this

/-- the two ways bbs.DeleteArticles (article-id confirmation) can end for one id: nothing is written and
nothing is reported as deleted, or exactly the record whose article id IS the requested id is delete-marked. -/
theorem deleteReq_cases (s : FS) (aid : List Nat) :
    ((deleteReqG .articleID s aid).1.bytes = s.bytes ∧ (deleteReqG .articleID s aid).2 ≠ .idx .ok 1) ∨
    ∃ k, k < s.bytes.length / dirSz ∧ aid = C13.toArticleID (recName (record s.bytes dirSz k)) ∧
      (deleteReqG .articleID s aid).1 = (deleteRecord s dirSz (k : Int)).1 := by
  unfold deleteReqG
  cases C13.articleIDToRaw aid with
  | error e => left; exact ⟨rfl, by simp⟩
  | ok fname =>
    simp only []
    cases C13.fnCreateTime fname with
    | none => left; exact ⟨rfl, by simp⟩
    | some ct =>
      simp only []
      by_cases hc : (if s.present = true then s.bytes.length / dirSz else 0) = 0
      · rw [if_pos hc]; left; exact ⟨rfl, by simp⟩
      · rw [if_neg hc]
        have hp : s.present = true := by
          cases hpp : s.present with
          | true => rfl
          | false => simp [hpp] at hc
        simp only [hp, if_true] at hc ⊢
        generalize C06.findRecordStartIdx _ _ _ _ _ = res
        cases res with
        | error e => cases e <;> (left; exact ⟨rfl, by simp⟩)
        | ok start =>
          simp only []
          by_cases hst : 1 ≤ (if start = 0 then ((s.bytes.length / dirSz : Nat) : Int) else start) ∧
              (if start = 0 then ((s.bytes.length / dirSz : Nat) : Int) else start) ≤ ((s.bytes.length / dirSz : Nat) : Int)
          · rw [if_pos hst]
            by_cases hsame : aid = C13.toArticleID (recName (record s.bytes dirSz
                ((if start = 0 then ((s.bytes.length / dirSz : Nat) : Int) else start).toNat - 1)))
            · simp only [hsame, decide_true, if_true]
              rw [← hsame]
              by_cases h0 : start = 0
              · subst h0
                left
                unfold deleteRecord
                rw [writeRecordAt_neg s dirSz (0 - 1) safeDelMark dirSz_pos (by omega)]
                constructor <;> simp
              · right
                simp only [h0, if_false] at hst hsame
                obtain ⟨k, rfl⟩ : ∃ k : Nat, start = (k : Int) + 1 := ⟨(start - 1).toNat, by omega⟩
                refine ⟨k, by omega, ?_, ?_⟩
                · have : ((k : Int) + 1).toNat - 1 = k := by omega
                  rw [this] at hsame; exact hsame
                · have : (k : Int) + 1 - 1 = (k : Int) := by omega
                  rw [this]
            · simp only [hsame, decide_false, Bool.false_eq_true, if_false]
              left; constructor <;> simp
          · rw [if_neg hst]; left; exact ⟨rfl, by simp⟩

/-- bbs.DeleteArticles for ANY requested id: .DIR keeps its length and a byte changes only inside a record
whose article id is the requested id. -/
theorem delete_request_frame (s : FS) (aid : List Nat) :
    (deleteReq s aid).1.bytes.length = s.bytes.length ∧
    ∀ p, p < s.bytes.length → (deleteReq s aid).1.bytes[p]? ≠ s.bytes[p]? →
      C13.toArticleID (recName (record s.bytes dirSz (p / dirSz))) = aid := by
  unfold deleteReq
  rw [delConfirm_eq]
  rcases deleteReq_cases s aid with ⟨h, _⟩ | ⟨k, hk, hid, h⟩
  · rw [h]; exact ⟨rfl, fun _ _ hne => absurd rfl hne⟩
  · rw [h]
    refine ⟨(delete_marks s dirSz k mark_le_dirSz hk).2, ?_⟩
    intro p hp hne
    by_cases hpk : ((p / dirSz : Nat) : Int) = (k : Int)
    · have : p / dirSz = k := by omega
      rw [this]; exact hid.symm
    · exact absurd ((delete_frame s dirSz (k : Int) dirSz_pos mark_le_dirSz).2 p hp hpk) hne

/-- a delete request for an id that no record carries (stale / forged id, e.g. a same-second sibling of
existing articles) delete-marks nothing and reports nothing as deleted. -/
theorem delete_absent_refused (s : FS) (aid : List Nat)
    (habs : ∀ k, k < s.bytes.length / dirSz → C13.toArticleID (recName (record s.bytes dirSz k)) ≠ aid) :
    (deleteReq s aid).1.bytes = s.bytes ∧ (deleteReq s aid).2 ≠ .idx .ok 1 := by
  unfold deleteReq
  rw [delConfirm_eq]
  rcases deleteReq_cases s aid with h | ⟨k, hk, hid, _⟩
  · exact h
  · exact absurd hid.symm (habs k hk)

/-- "M.1500000000.A.00" followed by one more suffix digit, as a 28-byte Filename_t. -/
def wName (d : Nat) : List Nat :=
  [77, 46, 49, 53, 48, 48, 48, 48, 48, 48, 48, 48, 46, 65, 46, 48, 48, d] ++ List.replicate 10 0

/-- a .DIR with two articles of the same second: suffixes 001 and 002. -/
def wDir : FS := ⟨true, wName 49 ++ List.replicate 100 0 ++ (wName 50 ++ List.replicate 100 0)⟩

/-- witness for the broken rule of C05-r4-1: without the `Eq` confirmation the lookup of the absent name
`…A.003` answers with a neighbour, with it the request is a miss. -/
theorem unconfirmed_lookup_hits_neighbour :
    getRecordG false wDir (wName 51) = .hit 2 (record wDir.bytes dirSz 1) ∧
    getRecordG true wDir (wName 51) = .miss := by
  decide +kernel

/-- witness for the broken rule of C05-r4-2: confirming the hit by its create-time only, a delete request
for the absent third sibling `…A.003` (id "1PQ2y003") delete-marks one of the two present siblings and
reports success; with the article-id confirmation nothing happens. -/
theorem createtime_confirmation_deletes_sibling :
    (deleteReqG .createTime wDir [49, 80, 81, 50, 121, 48, 48, 51]).2 = .idx .ok 1 ∧
    (deleteReqG .createTime wDir [49, 80, 81, 50, 121, 48, 48, 51]).1.bytes ≠ wDir.bytes ∧
    deleteReqG .articleID wDir [49, 80, 81, 50, 121, 48, 48, 51] = (wDir, .idx .ok 0) := by
  decide +kernel

/-! #### the .PASSWDS accessors of cmbbs: substitute-at-index for the user file -/

/-- regenerated from cmbbs/passwd.go and ptttype/types.go: every accessor starts with `!uid.IsValid()`,
`UID.IsValid` is `1 <= u <= MAX_USERS`, and the three fields lie inside one record. -/
theorem passwd_guard :
    Gen.RecFile.passwdGuardIsUidValid = true ∧ Gen.RecFile.uidValidIsRange = true ∧
    Gen.RecFile.uidLo = 1 ∧ Gen.RecFile.uidHi = Gen.RecFile.MAX_USERS ∧
    Gen.RecFile.pwOffPasswdHash + Gen.RecFile.pwLenPasswdHash ≤ Gen.RecFile.USEREC_RAW_SZ ∧
    Gen.RecFile.pwOffUserLevel + Gen.RecFile.pwLenUserLevel ≤ Gen.RecFile.USEREC_RAW_SZ ∧
    Gen.RecFile.pwOffEmail + Gen.RecFile.pwLenEmail ≤ Gen.RecFile.USEREC_RAW_SZ ∧
    Gen.RecFile.packedUserecRaw = Gen.RecFile.USEREC_RAW_SZ := by decide

theorem uidValid_iff (uid : Int) : uidValid uid = true ↔ 1 ≤ uid ∧ uid ≤ (maxUsers : Int) := by
  obtain ⟨_, _, h1, h2, _⟩ := passwd_guard
  unfold uidValid maxUsers
  rw [h1, h2]
  simp

/-- a uid that names no user record (≤ 0, MAX_USERS+1, MAX_USERS+2, …) is refused by every writer: no byte
of .PASSWDS changes and its length stays. -/
theorem passwd_refused_unchanged (s : FS) (uid : Int) (off : Nat) (bs : List Nat)
    (h : uid < 1 ∨ (maxUsers : Int) < uid) :
    passwdUpdate s uid off bs = (s, .unit .invalidIdx) := by
  have hv : uidValid uid = false := by
    cases hc : uidValid uid with
    | false => rfl
    | true => have := (uidValid_iff uid).1 hc; omega
  simp [passwdUpdate, passwdUpdateG, hv]

theorem passwd_query_refused (s : FS) (uid : Int) (off len : Nat) (h : uid < 1 ∨ (maxUsers : Int) < uid) :
    passwdQuery s uid off len = .recs .invalidIdx [] := by
  have hv : uidValid uid = false := by
    cases hc : uidValid uid with
    | false => rfl
    | true => have := (uidValid_iff uid).1 hc; omega
  simp [passwdQuery, hv]

/-- an accepted write of a field that lies inside one record (`off + |bs| ≤ USEREC_RAW_SZ`) changes no
existing byte of another user's record, never shrinks the file, and leaves the length of a file that holds
all MAX_USERS records exactly as it is. -/
theorem passwd_update_frame (s : FS) (uid : Int) (off : Nat) (bs : List Nat) (hin : off + bs.length ≤ pwSz) :
    s.bytes.length ≤ (passwdUpdate s uid off bs).1.bytes.length ∧
    (∀ p, p < s.bytes.length → ((p / pwSz : Nat) : Int) ≠ uid - 1 →
      (passwdUpdate s uid off bs).1.bytes[p]? = s.bytes[p]?) ∧
    (maxUsers * pwSz ≤ s.bytes.length → (passwdUpdate s uid off bs).1.bytes.length = s.bytes.length) := by
  unfold passwdUpdate passwdUpdateG
  by_cases hv : uidValid uid = true
  · obtain ⟨h1, h2⟩ := (uidValid_iff uid).1 hv
    simp only [hv, Bool.not_true, Bool.false_eq_true, if_false]
    by_cases hp : s.present = true
    · simp only [hp, Bool.not_true, Bool.false_eq_true, if_false]
      obtain ⟨k, rfl⟩ : ∃ k : Nat, uid = (k : Int) + 1 := ⟨(uid - 1).toNat, by omega⟩
      have ho : (pwSz : Int) * ((k : Int) + 1 - 1) + (off : Int) = ((k * pwSz + off : Nat) : Int) := by
        have : (k : Int) + 1 - 1 = (k : Int) := by omega
        rw [this]; push_cast; rw [Int.mul_comm]
      rw [ho]
      rw [if_neg (by omega)]
      simp only [Int.toNat_natCast]
      refine ⟨length_writeAt_ge _ _ _, ?_, ?_⟩
      · intro p hpl hne
        have hne' : p / pwSz ≠ k := by intro h'; apply hne; rw [h']; omega
        rcases outside_of_div_ne hne' with hlt | hge
        · exact getElem?_writeAt_before _ _ _ _ (by omega) hpl
        · apply getElem?_writeAt_after
          rw [Nat.add_mul] at hge; omega
      · intro hfull
        apply length_writeAt_inside
        have hk : k < maxUsers := by omega
        have : (k + 1) * pwSz ≤ maxUsers * pwSz := Nat.mul_le_mul_right _ hk
        rw [Nat.add_mul] at this; omega
    · have hp' : s.present = false := by simpa using hp
      simp only [hp', Bool.not_false, if_true]
      exact ⟨Nat.le_refl _, fun _ _ _ => trivial, fun _ => trivial⟩
  · have hv' : uidValid uid = false := by simpa using hv
    simp only [hv', Bool.not_false, if_true]
    exact ⟨Nat.le_refl _, fun _ _ _ => trivial, fun _ => trivial⟩

/-- witness for the broken rule (validating the in-file index with `> MAX_USERS` instead of `>=`): uid
MAX_USERS+1 is accepted and a full user file grows. -/
theorem off_by_one_uid_bound_grows_file (s : FS) (off : Nat) (bs : List Nat) (hp : s.present = true)
    (hfull : s.bytes.length = maxUsers * pwSz) (hbs : bs ≠ []) :
    s.bytes.length <
      (passwdUpdateG (fun u => decide (0 ≤ u - 1 ∧ u - 1 ≤ (maxUsers : Int))) s ((maxUsers : Int) + 1) off bs).1.bytes.length := by
  unfold passwdUpdateG
  have hacc : decide (0 ≤ ((maxUsers : Int) + 1) - 1 ∧ ((maxUsers : Int) + 1) - 1 ≤ (maxUsers : Int)) = true := by
    simp
  simp only [hacc, hp, Bool.not_true, Bool.false_eq_true, if_false]
  have ho : (pwSz : Int) * ((maxUsers : Int) + 1 - 1) + (off : Int) = ((maxUsers * pwSz + off : Nat) : Int) := by
    have : (maxUsers : Int) + 1 - 1 = (maxUsers : Int) := by omega
    rw [this]; push_cast; rw [Int.mul_comm]
  rw [ho, if_neg (by omega)]
  simp only [Int.toNat_natCast]
  rw [length_writeAt _ _ _ hbs]
  have : 0 < bs.length := by
    cases bs with
    | nil => exact absurd rfl hbs
    | cons _ _ => simp
  omega

/-! #### concurrent single-field updates and the session read-modify-write of a user record -/

/-- regenerated: ptt.pwcuStart refuses unless the user-ids are equal as C strings (case-sensitive); the
Money field lies inside the record. -/
theorem pwcu_compares_exact :
    Gen.RecFile.pwcuStartComparesExact = true ∧
    Gen.RecFile.pwOffMoney + Gen.RecFile.pwLenMoney ≤ Gen.RecFile.USEREC_RAW_SZ ∧ Gen.RecFile.pwLenMoney = 4 ∧
    Gen.RecFile.pwOffUserID + Gen.RecFile.pwLenUserID ≤ Gen.RecFile.pwOffMoney := by decide

/-- an in-place field update changes no existing byte outside the addressed field `[o, o+|bs|)`,
`o = USEREC_RAW_SZ*(uid-1) + off`, and never shrinks the file. -/
theorem passwd_update_field_frame (s : FS) (uid : Int) (off : Nat) (bs : List Nat) :
    s.bytes.length ≤ (passwdUpdate s uid off bs).1.bytes.length ∧
    ∀ p, p < s.bytes.length →
      ¬ ((pwSz : Int) * (uid - 1) + (off : Int) ≤ (p : Int) ∧ (p : Int) < (pwSz : Int) * (uid - 1) + (off : Int) + (bs.length : Int)) →
      (passwdUpdate s uid off bs).1.bytes[p]? = s.bytes[p]? := by
  unfold passwdUpdate passwdUpdateG
  by_cases hv : uidValid uid = true
  · simp only [hv, Bool.not_true, Bool.false_eq_true, if_false]
    by_cases hp : s.present = true
    · simp only [hp, Bool.not_true, Bool.false_eq_true, if_false]
      by_cases ho : (pwSz : Int) * (uid - 1) + (off : Int) < 0
      · rw [if_pos ho]; exact ⟨Nat.le_refl _, fun _ _ _ => rfl⟩
      · rw [if_neg ho]
        refine ⟨length_writeAt_ge _ _ _, ?_⟩
        intro p hpl hout
        generalize hO : (pwSz : Int) * (uid - 1) + (off : Int) = O at ho hout
        by_cases h1 : p < O.toNat
        · exact getElem?_writeAt_before _ _ _ _ h1 hpl
        · apply getElem?_writeAt_after; omega
    · have hp' : s.present = false := by simpa using hp
      simp only [hp', Bool.not_false, if_true]
      exact ⟨Nat.le_refl _, fun _ _ _ => trivial⟩
  · have hv' : uidValid uid = false := by simpa using hv
    simp only [hv', Bool.not_false, if_true]
    exact ⟨Nat.le_refl _, fun _ _ _ => trivial⟩

/-- in whatever order a batch of money updates (cache.SetUMoney / DeUMoney of any users) is served: a byte
that lies in none of the addressed 4-byte Money fields keeps its value, and the file does not shrink. -/
theorem money_batch_frame (us : List (Int × Int)) (s : FS) (p : Nat) (hp : p < s.bytes.length)
    (hout : ∀ u ∈ us, ¬ ((pwSz : Int) * (u.1 - 1) + (Gen.RecFile.pwOffMoney : Int) ≤ (p : Int) ∧
      (p : Int) < (pwSz : Int) * (u.1 - 1) + (Gen.RecFile.pwOffMoney : Int) + 4)) :
    (moneyBatch s us).bytes[p]? = s.bytes[p]? ∧ s.bytes.length ≤ (moneyBatch s us).bytes.length := by
  induction us generalizing s with
  | nil => exact ⟨rfl, Nat.le_refl _⟩
  | cons u us ih =>
    have hf := passwd_update_field_frame s u.1 Gen.RecFile.pwOffMoney (le32 (u.2 % 4294967296).toNat)
    have h4 : (le32 (u.2 % 4294967296).toNat).length = 4 := rfl
    have h1 := hf.2 p hp (by rw [h4]; exact hout u (List.mem_cons_self ..))
    have h2 := ih (moneyUpdate s u.1 u.2).1 (Nat.lt_of_lt_of_le hp hf.1)
      (fun v hv => hout v (List.mem_cons_of_mem _ hv))
    show (moneyBatch (moneyUpdate s u.1 u.2).1 us).bytes[p]? = _ ∧ _ ≤ (moneyBatch (moneyUpdate s u.1 u.2).1 us).bytes.length
    exact ⟨h2.1.trans h1, Nat.le_trans hf.1 h2.2⟩

/-- the session read-modify-write, for ANY comparison `same`: either nothing is written, or the record at
`uid` was read in full and `same` accepted the held user-id against the record's. -/
theorem pwcu_writes_only_if_same (same : List Nat → List Nat → Bool) (s : FS) (uid : Int) (held : List Nat)
    (m : Int) (f : List Nat → List Nat) :
    pwcuModifyG same s uid held m f = (s, .unit .invalidIdx) ∨ pwcuModifyG same s uid held m f = (s, .unit .err) ∨
    ∃ r, passwdQuery s uid 0 Gen.RecFile.packedUserecRaw = .recs .ok [(uid.toNat, r)] ∧
      same held (field r Gen.RecFile.pwOffUserID Gen.RecFile.pwLenUserID) = true := by
  unfold pwcuModifyG
  have hq : ∀ e rs, passwdQuery s uid 0 Gen.RecFile.packedUserecRaw = .recs e rs →
      (e = .ok → ∃ r, rs = [(uid.toNat, r)]) := by
    intro e rs h he
    unfold passwdQuery at h
    split at h
    · injection h with h1 _; rw [he] at h1; cases h1
    · split at h
      · injection h with h1 _; rw [he] at h1; cases h1
      · simp only [] at h
        split at h
        · injection h with h1 _; rw [he] at h1; cases h1
        · split at h
          · injection h with h1 _; rw [he] at h1; cases h1
          · injection h with _ h2; exact ⟨_, h2.symm⟩
  cases hres : passwdQuery s uid 0 Gen.RecFile.packedUserecRaw with
  | recs e rs =>
    cases e with
    | ok =>
      obtain ⟨r, rfl⟩ := hq _ _ hres rfl
      simp only []
      by_cases hs : same held (field r Gen.RecFile.pwOffUserID Gen.RecFile.pwLenUserID) = true
      · right; right; exact ⟨r, rfl, hs⟩
      · left; rw [if_neg hs]
    | err => right; left; rfl
    | invalidIdx => left; rfl
  | unit e => right; left; rfl
  | idx e i => right; left; rfl
  | count n => right; left; rfl
  | panic => right; left; rfl

/-- with the comparison the source has, a session whose held user-id is not (as a C string) the user-id in
the slot — the slot was reused by another account, e.g. one that differs only in letter case — is refused
and .PASSWDS is left exactly as it is. -/
theorem pwcu_stale_refused (s : FS) (uid : Int) (held : List Nat) (m : Int) (r : List Nat)
    (hq : passwdQuery s uid 0 Gen.RecFile.packedUserecRaw = .recs .ok [(uid.toNat, r)])
    (hne : cstr held ≠ cstr (field r Gen.RecFile.pwOffUserID Gen.RecFile.pwLenUserID)) :
    pwcuModify s uid held m = (s, .unit .invalidIdx) := by
  have hsame : pwcuSame held (field r Gen.RecFile.pwOffUserID Gen.RecFile.pwLenUserID) = false := by
    unfold pwcuSame
    rw [pwcu_compares_exact.1]
    simp only [if_true]
    cases hc : cstrcmpEq held (field r Gen.RecFile.pwOffUserID Gen.RecFile.pwLenUserID) with
    | false => rfl
    | true => exact absurd ((cstrcmpEq_iff _ _).1 hc) hne
  unfold pwcuModify pwcuModifyG
  rw [hq]
  simp only [hsame, Bool.false_eq_true, if_false]

/-- witness for the broken rule: compared case-insensitively the held id "Chloe" equals the id "chloe" of
the account that now owns the slot; compared exactly it does not. -/
theorem case_insensitive_pair_accepts_other_account :
    cstrcmpEq [67, 104, 108, 111, 101, 0] [99, 104, 108, 111, 101, 0] = false ∧
    cstrcmpEq ([67, 104, 108, 111, 101, 0].map fun c => if 65 ≤ c ∧ c ≤ 90 then c + 32 else c)
      ([99, 104, 108, 111, 101, 0].map fun c => if 65 ≤ c ∧ c ≤ 90 then c + 32 else c) = true := by decide

/-! #### an acknowledged in-place field modify survives a later whole-record store of an earlier copy -/

/-- regenerated: ptt.passwdSyncUpdate, the funnel of every whole-record store, re-syncs Money from the
shared-memory cache before the write. -/
theorem store_funnel_resyncs_money : Gen.RecFile.storeFunnelResyncsMoney = true := by decide

theorem field_setField (r : List Nat) (off len : Nat) (bs : List Nat) (h : off ≤ r.length) (hb : bs.length = len) :
    field (setField r off len bs) off len = bs := by
  unfold field setField
  rw [List.append_assoc, List.drop_append_of_le_length (by simp [List.length_take]; omega)]
  have : (List.take off r).length = off := by simp [List.length_take]; omega
  rw [List.drop_of_length_le (by omega), List.nil_append, copyInto_of_le _ _ (by omega), hb, Nat.sub_self]
  simp [hb]

/-- history "load the record of a valid `uid`; set its Money in place (acknowledged); store the EARLIER copy
with a new level": the record on disk afterwards carries the acknowledged money, not the stale one. -/
theorem store_keeps_acknowledged_money (s : FS) (k : Nat) (money : Int) (perm : Nat) (r : List Nat)
    (hk : (k : Int) + 1 ≤ (maxUsers : Int))
    (hq : passwdQuery s ((k : Int) + 1) 0 Gen.RecFile.packedUserecRaw = .recs .ok [(((k : Int) + 1).toNat, r)])
    (hr : r.length = pwSz) :
    field (record (storeEarlierCopy s ((k : Int) + 1) money perm).bytes pwSz k)
      Gen.RecFile.pwOffMoney Gen.RecFile.pwLenMoney = le32 (money % 4294967296).toNat := by
  have hv : uidValid ((k : Int) + 1) = true := (uidValid_iff _).2 ⟨by omega, hk⟩
  have hp : s.present = true := by
    cases hpp : s.present with
    | true => rfl
    | false => simp [passwdQuery, hv, hpp] at hq
  unfold storeEarlierCopy
  rw [hq]
  simp only [store_funnel_resyncs_money, if_true]
  have hl1 : (setField r Gen.RecFile.pwOffUserLevel Gen.RecFile.pwLenUserLevel (le32 perm)).length = pwSz := by
    rw [length_setField _ _ _ _ (by rw [hr]; decide)]; exact hr
  have hl2 : (setField (setField r Gen.RecFile.pwOffUserLevel Gen.RecFile.pwLenUserLevel (le32 perm))
      Gen.RecFile.pwOffMoney Gen.RecFile.pwLenMoney (le32 (money % 4294967296).toNat)).length = pwSz := by
    rw [length_setField _ _ _ _ (by rw [hl1]; decide)]; exact hl1
  have hpres : (moneyUpdate s ((k : Int) + 1) money).1.present = true := by
    simp [moneyUpdate, passwdUpdate, passwdUpdateG, hv, hp]; split <;> simp [hp]
  unfold passwdUpdate passwdUpdateG
  simp only [hv, hpres, Bool.not_true, Bool.false_eq_true, if_false]
  have ho : (pwSz : Int) * ((k : Int) + 1 - 1) + ((0 : Nat) : Int) = ((k * pwSz : Nat) : Int) := by
    have : (k : Int) + 1 - 1 = (k : Int) := by omega
    rw [this]; push_cast; rw [Int.mul_comm]; omega
  rw [ho, if_neg (by omega)]
  simp only [Int.toNat_natCast]
  rw [record_writeAt_same _ _ _ _ hl2]
  exact field_setField _ _ _ _ (by rw [hl1]; decide) rfl

end PttVerif.C05.Props
