import PttVerif.Proofs.C09
/-
C09 — A published article is stored once, completely, and is immediately retrievable.
Property theorems only (helper lemmas and the pure readings `pTitle`, `pBody`, `pContent`, `pRecord`, `nextSt`
live in Proofs/C09.lean).  Every statement is for all byte contents; "accepted" means the request passed the
permission checks of DoPostArticle (property C08), which the model takes as given.
-/
namespace PttVerif.C09.Props
open PttVerif PttVerif.C09

/-! #### the title: announcement tag -/

/-- tnSafeStrip never faults, whatever the title's length (0..5 bytes included) and the author's role. -/
theorem tnSafeStrip_total (c : Cfg) (role : Bool) (title : Bytes) : ∃ t, tnSafeStrip c role title = .ok t :=
  ⟨_, tnSafeStrip_eq c role title⟩

/-- before 2df0902 (`title[:len(TN)]`) a non-privileged author's one-byte title panicked ... -/
theorem before_fix_panics : tnSafeStripOld {} false [88] = .error .panic := by rfl

/-- ... and so did exactly every title shorter than the tag (capacity = length). -/
theorem before_fix_panics_iff (c : Cfg) (hA : c.allowFreeTn = false) (title : Bytes) :
    tnSafeStripOld c false title = .error .panic ↔ title.length < TN.length := by
  unfold tnSafeStripOld tnSafeStripWith isTnAllowedWith isTnAnnounceOld
  simp only [hA, Bool.false_eq_true, if_false]
  by_cases h : TN.length ≤ title.length
  · have : ¬ title.length < TN.length := by omega
    simp only [slice, Nat.zero_le, h, and_self, if_true, bind, Except.bind, pure, Except.pure, this, iff_false]
    split <;> simp [h]
  · have : title.length < TN.length := by omega
    simp [slice, h, this, bind, Except.bind]

/-- what tnSafeStrip returns: a leading announcement tag is cut off for an author who may not use it
(`role = false`); every other title is returned unchanged. -/
theorem tnSafeStrip_spec (c : Cfg) (role : Bool) (title : Bytes) :
    (∀ r, role = false → c.allowFreeTn = false → title = TN ++ r → tnSafeStrip c role title = .ok r) ∧
    (role = true ∨ c.allowFreeTn = true → tnSafeStrip c role title = .ok title) ∧
    ((¬ ∃ r, title = TN ++ r) → tnSafeStrip c role title = .ok title) := by
  refine ⟨?_, ?_, ?_⟩
  · intro r hr hA he
    have hp : hasPrefix title TN = true := (hasPrefix_iff _ _).mpr ⟨r, he⟩
    have hk : tnKeeps c role title = false := by simp [tnKeeps, hr, hA, hp]
    rw [tnSafeStrip_eq, hk, he]
    simp
  · intro hr
    rw [tnSafeStrip_eq]
    rcases hr with hr | hr <;> simp [tnKeeps, hr]
  · intro hn
    have hp : hasPrefix title TN = false := by
      cases h : hasPrefix title TN
      · rfl
      · exact absurd ((hasPrefix_iff _ _).mp h) hn
    rw [tnSafeStrip_eq]; simp [tnKeeps, hp]

example : tnSafeStrip {} false (TN ++ [104, 105]) = .ok [104, 105] := by rfl
example : tnSafeStrip {} true (TN ++ [104, 105]) = .ok (TN ++ [104, 105]) := by rfl
example : tnSafeStrip {} false [91, 164] = .ok [91, 164] := by rfl
example : tnSafeStrip { allowFreeTn := true } false (TN ++ [104, 105]) = .ok (TN ++ [104, 105]) := by rfl

/-- The predicate and the cut agree on WHERE the tag is: the published title is either the submitted full title,
or the submitted full title minus exactly the announcement tag at its very start — never anything else
(in particular nothing is cut from a title that has blanks or other bytes in front of the tag). -/
theorem title_submitted_or_minus_leading_tag (q : Req) :
    pTitle q = fullTitle q.cls q.title ∨ fullTitle q.cls q.title = TN ++ pTitle q := by
  unfold pTitle
  simp only
  cases hk : tnKeeps q.cfg q.role (fullTitle q.cls q.title)
  · right
    have hp : hasPrefix (fullTitle q.cls q.title) TN = true := by
      simp only [tnKeeps, Bool.or_eq_false_iff, Bool.not_eq_false'] at hk
      exact hk.2
    obtain ⟨r, hr⟩ := (hasPrefix_iff _ _).mp hp
    simp [hr]
  · left; rfl

/-- a blank in front of the tag: nothing is cut ... -/
example : postTitle {} false [] ([32] ++ TN ++ [32, 120]) = .ok ([32] ++ TN ++ [32, 120]) := by rfl
/-- ... whereas "look behind leading blanks, cut from the start" leaves the tail of the tag (`"] x"`). -/
theorem trimleft_predicate_mangles :
    tnSafeStripWith {} isTnAnnounceTrimLeft false ([32] ++ TN ++ [32, 120]) = .ok [93, 32, 120] := by rfl

/-- the zone every date and time of a post is rendered in is the configured one, whatever was in effect before
(`InitConfig` always reloads it) ... -/
theorem zone_follows_config (s : TZ) (z : String) : (initConfigTZ s (some z)).zone = z := rfl

theorem zone_kept_without_config (s : TZ) (h : s.zone = s.location) : (initConfigTZ s none).zone = s.zone := by
  simp [initConfigTZ, initConfigTZWith, setTimeLocation, h]

/-- ... whereas with "nothing to do when the name is unchanged" the start-up path never loads a configured zone:
`config()` has already stored the name, so the zone of package initialisation stays in effect. -/
theorem lazy_setTimeLocation_ignores_config (s : TZ) (z : String) :
    (initConfigTZWith setTimeLocationLazy s (some z)).zone = s.zone := by
  simp [initConfigTZWith, setTimeLocationLazy]

/-- `"[class] title"`: the class prefix rule of doPostArticleFullTitle. -/
theorem fullTitle_spec (cls title : Bytes) :
    fullTitle cls title = if cls = [] then title else [91] ++ cls ++ [93, 32] ++ title := by
  unfold fullTitle
  cases cls <;> simp

/-- the published title of any request is computed without a fault. -/
theorem postTitle_total (q : Req) : postTitle q.cfg q.role q.cls q.title = .ok (pTitle q) := postTitle_eq q

/-! #### cursor-movement escapes are defused -/

/-- StripANSIMoveCmd terminates on every line (fuel = length + 1 is never exhausted) and equals the scan. -/
theorem defuse_terminates (l : Bytes) : stripANSIMoveCmd l = .ok (scan false l) := stripANSIMoveCmd_eq l

/-- after StripANSIMoveCmd no `ESC params* final` with `params ⊆ PATTERN_ANSI_CODE`, `final ∈ PATTERN_ANSI_MOVECMD`
remains anywhere in the line — in particular none that the rewriting itself could have formed from neighbours. -/
theorem defuse_no_move (l r : Bytes) (h : stripANSIMoveCmd l = .ok r) :
    ¬ ∃ pre codes c post, r = pre ++ ESC :: (codes ++ c :: post) ∧ (∀ x ∈ codes, isCode x = true) ∧ isMove c = true := by
  rw [stripANSIMoveCmd_eq] at h
  cases h
  intro hex
  have := (hasMove_iff _).mpr hex
  rw [(scan_no_move l).1] at this
  cases this

/-- the specification is not vacuous: the input of the design question contains a movement sequence,
its image does not, and stripping one sequence did not create another (`ESC [ ESC [ 2 s H`). -/
example : hasMove [27, 91, 27, 91, 50, 74, 72] = true := by decide
example : stripANSIMoveCmd [27, 91, 27, 91, 50, 74, 72] = .ok [27, 91, 27, 91, 50, 115, 72] := by rfl

theorem defuse_length (l r : Bytes) (h : stripANSIMoveCmd l = .ok r) : r.length = l.length := by
  rw [stripANSIMoveCmd_eq] at h; cases h; exact scan_length _ _

theorem defuse_idem (l r : Bytes) (h : stripANSIMoveCmd l = .ok r) : stripANSIMoveCmd r = .ok r := by
  rw [stripANSIMoveCmd_eq] at h; cases h
  rw [stripANSIMoveCmd_eq, (scan_idem l).1]

/-- nothing but movement finals changes, and they change to 's'. -/
theorem defuse_only_finals (l r : Bytes) (h : stripANSIMoveCmd l = .ok r) (i : Nat) :
    r[i]? = l[i]? ∨ ∃ c, l[i]? = some c ∧ isMove c = true ∧ r[i]? = some 115 := by
  rw [stripANSIMoveCmd_eq] at h; cases h; exact scan_pointwise false l i

/-- a line without a movement sequence is stored byte for byte. -/
theorem defuse_id_of_clean (l : Bytes) (h : hasMove l = false) : stripANSIMoveCmd l = .ok l := by
  rw [stripANSIMoveCmd_eq, (scan_id_of_no_move l).1 h]

/-! #### trailing blanks -/

/-- cmsys.Trim: the result is the C string of the line without its trailing spaces — a prefix of it, followed
only by spaces, not ending in a space, free of NUL. -/
theorem trim_spec (s : Bytes) :
    (∃ k, cstr s = trim s ++ List.replicate k 32) ∧ (trim s).getLast? ≠ some 32 ∧ ∀ c ∈ trim s, c ≠ 0 := by
  obtain ⟨h1, h2⟩ := trimRight_spec (cstr s)
  exact ⟨h1, h2, fun c hc => cstr_no_nul s c (trimRight_sublist_mem _ c hc)⟩

example : trim [97, 32, 98, 32, 32, 0, 99] = [97, 32, 98] := by decide

/-! #### the article file -/

/-- which lines are written: all, except a last line that is empty. -/
theorem keptLines_eq (ls : List Bytes) : keptLines ls = if ls.getLast? = some [] then ls.dropLast else ls :=
  keptLines_spec ls

/-- the file of an accepted post, for all line lists and all byte contents:
header ++ (every kept line, trimmed, defused, "\n") ++ signature ++ URL line. -/
theorem writeFile_content (q : Req) (e : Env) :
    articleFile q e (pTitle q) = .ok
      (header q.cfg q.anon q.userID q.nick q.board (pTitle q) e.ctime
        ++ (keptLines q.lines).flatMap (fun l => scan false (trim l) ++ [10])
        ++ signature (useAnony q.cfg q.anon) q.ip q.frm ++ urlLine q.cfg q.board e.name, pEntropy q) :=
  articleFile_eq q e

/-- Header rendering is verbatim in every field: whatever bytes the nickname, the user id, the board name, the
title and the time text contain — `%` and printf verbs included (37 is just a byte to `%s` of a byte slice) —
the file starts with the author line, then the title line, then the time line, then an empty line. -/
theorem header_verbatim (c : Cfg) (anon : Bool) (userID nick board title ctime : Bytes) :
    header c anon userID nick board title ctime =
      (Gen.Post.STR_AUTHOR1_BIG5 ++ [32] ++ (headerAuthor c anon userID nick).1 ++ [32, 40]
        ++ (headerAuthor c anon userID nick).2 ++ [41, 32] ++ Gen.Post.STR_POST1_BIG5 ++ [32] ++ board ++ [10])
      ++ (Gen.Post.STR_TITLE_BIG5 ++ [32] ++ title ++ [10])
      ++ (Gen.Post.STR_TIME_BIG5 ++ [32] ++ ctime ++ [10]) ++ [10] := by
  simp [header, List.append_assoc]

/-- "100% pure" as a nickname, "%s%d" as a title: both appear as they are. -/
example : header {} false [65, 0] [49, 48, 48, 37, 32, 112, 117, 114, 101] [87] [37, 115, 37, 100] [67] =
    Gen.Post.STR_AUTHOR1_BIG5 ++ [32, 65, 32, 40, 49, 48, 48, 37, 32, 112, 117, 114, 101, 41, 32] ++ Gen.Post.STR_POST1_BIG5
      ++ [32, 87, 10] ++ Gen.Post.STR_TITLE_BIG5 ++ [32, 37, 115, 37, 100, 10] ++ Gen.Post.STR_TIME_BIG5 ++ [32, 67, 10, 10] := by
  decide

/-- every stored body line is free of cursor-movement sequences and of trailing blanks. -/
theorem stored_lines_clean (l : Bytes) :
    hasMove (pLine l) = false ∧ (∃ k, cstr l = trim l ++ List.replicate k 32) ∧ (pLine l).length = (trim l).length :=
  ⟨(scan_no_move _).1, (trim_spec l).1, scan_length _ _⟩

/-! #### the title field -/

/-- the stored title is the first `TTLEN+1` bytes of the published title, zero padded; the field is exactly
`lenTitle` bytes at `offTitle` of the index record. (No DBCS-aware cut is made: see `title_may_split_dbcs`.) -/
theorem title_fits (q : Req) (e : Env) :
    C05.field (pRecord q e) Gen.RecFile.offTitle Gen.RecFile.lenTitle = copyInto Gen.RecFile.lenTitle (pTitle q) ∧
    copyInto Gen.RecFile.lenTitle (pTitle q)
      = (pTitle q).take Gen.RecFile.lenTitle ++ List.replicate (Gen.RecFile.lenTitle - ((pTitle q).take Gen.RecFile.lenTitle).length) 0 ∧
    ((pTitle q).take Gen.RecFile.lenTitle).length ≤ TITLE_SZ ∧ Gen.RecFile.lenTitle = TITLE_SZ := by
  refine ⟨?_, rfl, ?_, by decide⟩
  · unfold pRecord postRecord; split <;> exact recordImage_title ..
  · simp only [List.length_take]
    have : Gen.RecFile.lenTitle = TITLE_SZ := by decide
    omega

/-- the copy into the title field can end between the two bytes of a DBCS character (65 'a'-free bytes:
64 ASCII bytes, then a two-byte character). -/
theorem title_may_split_dbcs :
    (copyInto Gen.RecFile.lenTitle (List.replicate 64 97 ++ [164, 189])).getLast? = some 164 := by decide

/-! #### the effect of one accepted post -/

/-- publishing never faults: every request either finds no board directory or is carried out. -/
theorem post_total (s : St) (q : Req) (e : Env) : ∃ r, post s q e = .ok r := by
  cases h : findBoard s.boards q.dirBoard with
  | none => exact ⟨_, post_noBoard s q e h⟩
  | some b => exact ⟨_, post_eq s q e b h⟩

/-- `bbs.CreateArticle` carries out only requests whose board id is consistent (469db79). -/
theorem createArticle_wellformed (s s' : St) (q : Req) (e : Env) (p : Posted)
    (h : createArticle s q e = .ok (s', .posted p)) : q.dirBoard = q.board := by
  unfold createArticle at h
  split at h
  · assumption
  · cases h

/-- The effect of an accepted post (board `q.board` exists, consistent board id, not the read-only ALLPOST):
* the index is the old complete records followed by exactly one new record, which carries the chosen name,
  the owner, the date and the title field;
* every earlier record is byte-identical;
* the cached total equals the new record count = old count + 1 = the returned index;
* the article file is stored under the chosen name;
* the author's NumPosts rises by one (not on anonymous boards), nobody else's changes. -/
theorem post_effect (s : St) (q : Req) (e : Env) (b : BoardSt)
    (hb : findBoard s.boards q.board = some b) (hwf : q.dirBoard = q.board) (hx : q.board ≠ ALLPOST) :
    ∃ s' b', post s q e = .ok (s', .posted (nextPosted q e b)) ∧ findBoard s'.boards q.board = some b' ∧
      b'.dir.bytes = b.dir.bytes.take (b.dir.bytes.length / dirSz * dirSz) ++ pRecord q e ∧
      (pRecord q e).length = dirSz ∧
      (∀ k, k < b.dir.bytes.length / dirSz → C05.record b'.dir.bytes dirSz k = C05.record b.dir.bytes dirSz k) ∧
      b'.total = b'.dir.bytes.length / dirSz ∧ b'.total = b.dir.bytes.length / dirSz + 1 ∧
      (nextPosted q e b).idx = b'.total ∧
      lookupFile b'.files e.name = some (pContent q e) ∧
      (∀ n, n ≠ e.name → lookupFile b'.files n = lookupFile b.files n) ∧
      (∀ u, numPostsOf s'.users u =
        (numPostsOf s.users u).map fun n => if u = q.userID ∧ useAnony q.cfg q.anon = false then n + 1 else n) := by
  have hrl : (pRecord q e).length = dirSz := postRecord_length ..
  have hpub := publish_eq b e.name (pContent q e) (pRecord q e) hrl
  refine ⟨nextSt s q e b, (b.publish e.name (pContent q e) (pRecord q e)).1.setTotal, post_eq s q e b (hwf ▸ hb), ?_, ?_, hrl, ?_, ?_, ?_, ?_, ?_, ?_, ?_⟩
  · rw [nextSt_board s q e b hb hwf hx]; simp
  · rw [hpub]; rfl
  · intro k hk
    have := (C05.Props.append_preserves_prefix b.dir dirSz (pRecord q e) k hk).1
    simpa [BoardSt.setTotal, BoardSt.publish] using this
  · rfl
  · rw [hpub]
    simp only [BoardSt.setTotal, List.length_append, List.length_take, hrl]
    have h1 := C05.div_mul_le' b.dir.bytes.length dirSz
    rw [Nat.min_eq_left h1, ← Nat.succ_mul, Nat.mul_div_cancel _ dirSz_pos]
  · rw [hpub]
    simp only [nextPosted, BoardSt.setTotal, List.length_append, List.length_take, hrl]
    have h1 := C05.div_mul_le' b.dir.bytes.length dirSz
    rw [Nat.min_eq_left h1, ← Nat.succ_mul, Nat.mul_div_cancel _ dirSz_pos]
  · simp [BoardSt.setTotal, BoardSt.publish, lookupFile]
  · intro n hn
    have : ¬ e.name = n := fun h => hn h.symm
    simp [BoardSt.setTotal, BoardSt.publish, lookupFile, List.find?_cons, this]
  · intro u
    simp only [nextSt]
    cases ha : useAnony q.cfg q.anon
    · simp only [Bool.false_eq_true, if_false, and_true]
      exact bumpUser_lookup s.users q.userID u q.callerNp
    · simp only [if_true]
      cases numPostsOf s.users u <;> simp

/-- the frame of a post: a board that is neither the posted one nor ALLPOST is not touched at all; ALLPOST
receives exactly one record (the copy) when the board is open, nothing otherwise. -/
theorem post_frame (s : St) (q : Req) (e : Env) (b : BoardSt)
    (hb : findBoard s.boards q.board = some b) (hwf : q.dirBoard = q.board) (hx : q.board ≠ ALLPOST) :
    ∃ s', post s q e = .ok (s', .posted (nextPosted q e b)) ∧
      (∀ m, m ≠ q.board → m ≠ ALLPOST → findBoard s'.boards m = findBoard s.boards m) ∧
      (q.isOpen = false → findBoard s'.boards ALLPOST = findBoard s.boards ALLPOST) ∧
      (q.isOpen = true → ∀ a, findBoard s.boards ALLPOST = some a → ∃ a', findBoard s'.boards ALLPOST = some a' ∧
        a'.dir.bytes = a.dir.bytes.take (a.dir.bytes.length / dirSz * dirSz) ++ pCross q e ∧
        a'.total = a'.dir.bytes.length / dirSz ∧ a'.total = a.dir.bytes.length / dirSz + 1 ∧
        lookupFile a'.files e.name = some (pContent q e)) := by
  refine ⟨nextSt s q e b, post_eq s q e b (hwf ▸ hb), ?_, ?_, ?_⟩
  · intro m h1 h2
    rw [nextSt_board s q e b hb hwf hx]; simp [h1, h2]
  · intro ho
    have hx' : ¬ ALLPOST = q.board := fun h => hx h.symm
    rw [nextSt_board s q e b hb hwf hx]; simp [ho, hx']
  · intro ho a ha
    have hx' : ¬ ALLPOST = q.board := fun h => hx h.symm
    have hcl : (pCross q e).length = dirSz := crossRecord_length ..
    refine ⟨a.crossPublish e.name (pContent q e) (pCross q e), ?_, ?_, rfl, ?_, ?_⟩
    · rw [nextSt_board s q e b hb hwf hx]; simp [ho, hx', ha]
    · simp only [BoardSt.crossPublish]
      rw [C05.Props.append_spec a.dir dirSz (pCross q e) dirSz_pos hcl]
    · simp only [BoardSt.crossPublish]
      rw [C05.Props.append_spec a.dir dirSz (pCross q e) dirSz_pos hcl]
      simp only [List.length_append, List.length_take, hcl]
      have h1 := C05.div_mul_le' a.dir.bytes.length dirSz
      rw [Nat.min_eq_left h1, ← Nat.succ_mul, Nat.mul_div_cancel _ dirSz_pos]
    · simp [BoardSt.crossPublish, lookupFile]

/-- before 4ca0e38 the copy only added 1 to the cached total: on a board whose total had not been counted yet
(0 after `ReloadBCache`) with two records on disk, the cache said 1 while the index held 3 — and 1 ≠ 0 is never
recounted.  After the fix the total is the record count. -/
theorem before_fix_cold_logboard_total (rec : Bytes) (h : rec.length = dirSz) (two : Bytes) (h2 : two.length = 2 * dirSz) :
    let b : BoardSt := ⟨ALLPOST, ⟨true, two⟩, [], 0⟩
    (b.crossPublishOld [77] [] rec).total = 1 ∧ (b.crossPublishOld [77] [] rec).dir.bytes.length / dirSz = 3 ∧
    (b.crossPublish [77] [] rec).total = 3 := by
  have hs := C05.Props.append_spec ⟨true, two⟩ dirSz rec dirSz_pos h
  have e : dirSz = 128 := by decide
  simp only [BoardSt.crossPublishOld, BoardSt.crossPublish, hs, List.length_append, List.length_take, h, h2]
  rw [e]
  decide

/-- the record written names the owner and date as well (title: `title_fits`). -/
theorem record_fields (q : Req) (e : Env) :
    C05.field (pRecord q e) Gen.RecFile.offFilename Gen.RecFile.lenFilename = copyInto Gen.RecFile.lenFilename e.name ∧
    C05.field (pRecord q e) Gen.RecFile.offOwner Gen.RecFile.lenOwner
      = copyInto Gen.RecFile.lenOwner (if useAnony q.cfg q.anon then Gen.Post.ANONYMOUS_ID else q.userID) ∧
    C05.field (pRecord q e) Gen.RecFile.offDate Gen.RecFile.lenDate = copyInto Gen.RecFile.lenDate e.date := by
  unfold pRecord postRecord
  cases useAnony q.cfg q.anon
  · exact ⟨recordImage_filename .., recordImage_owner .., recordImage_date ..⟩
  · exact ⟨recordImage_filename .., recordImage_owner .., recordImage_date ..⟩

/-- the reward (entropy of the stored lines, capped, zero on boards without credit) — or, on an anonymous board,
the real author's uid — is recorded little-endian in the `Multi` field of the new index entry. -/
theorem multi_recorded (q : Req) (e : Env) :
    C05.field (pRecord q e) Gen.RecFile.offMulti Gen.RecFile.lenMulti
      = le32 (if useAnony q.cfg q.anon then q.uid else pMoney q) := by
  unfold pRecord postRecord storedMulti
  cases useAnony q.cfg q.anon
  · exact recordImage_multi ..
  · exact recordImage_multi ..

/-- before e2eca4c neither was recorded: the setters wrote into a reallocated copy. -/
theorem before_fix_multi_lost (v : Nat) : le32 (storedMultiOld v) = [0, 0, 0, 0] := by
  simp [storedMultiOld, le32, C05.le32]

/-- the reward never exceeds the entropy bound nor the configured maximum. -/
theorem money_bounded (q : Req) : pMoney q ≤ ENTROPY_MAX ∨ pMoney q ≤ Gen.Post.MAX_POST_MONEY := by
  unfold pMoney postMoney
  simp only
  split
  · left; omega
  · split
    · right; omega
    · left
      have : ∀ (ls : List Bytes) (e0 : Nat), e0 ≤ ENTROPY_MAX →
          ls.foldl (fun e l => addEntropy e (pLine l)) e0 ≤ ENTROPY_MAX := by
        intro ls
        induction ls with
        | nil => intro e0 h; simpa using h
        | cons l rest ih =>
          intro e0 _
          simp only [List.foldl_cons]
          apply ih
          unfold addEntropy
          simp only
          generalize (if e0 < ENTROPY_MAX then e0 + lineEntropy (pLine l) else e0) = e1
          by_cases h : e1 > ENTROPY_MAX
          · rw [if_pos h]; exact Nat.le_refl _
          · rw [if_neg h]; exact Nat.le_of_not_gt h
      apply this
      unfold initEntropy; split <;> simp

/-- a post whose article file cannot be written completely fails as a whole: boards (indexes, files, totals)
and counters are exactly as before; only the .post log has its record. -/
theorem write_failure_frame (s : St) (q : Req) (e : Env) :
    ∃ s', postWriteFails s q e = .ok s' ∧ s'.boards = s.boards ∧ s'.users = s.users := by
  unfold postWriteFails
  rw [postTitle_eq]
  exact ⟨_, rfl, rfl, rfl⟩

/-! #### anonymity is one fact (site switch AND board attribute), used by every site that depends on it -/

/-- the model's decision sites consult exactly the configuration variables the source's functions read
(regenerated by the translator from the function bodies and `ptttype.config()`); dropping or adding a guard in
`checkBoardAnonymous`, `writeHeaderAuthor`, `isTnAllowed`, ... changes `Gen.Post.siteConfig`. -/
theorem config_sites_match : Gen.Post.siteConfig = consults := by decide

/-- A post is anonymous iff the site offers anonymous boards (`HAVE_ANONYMOUS`) AND the board carries
`BRD_ANONYMOUS`.  Header author and nickname, the owner and file mode of the index entry, the `Multi` field and
the signature's host all follow that ONE fact, for every configuration. -/
theorem anonymity_consistent (q : Req) (e : Env) :
    let a := q.cfg.haveAnonymous && q.anon
    useAnony q.cfg q.anon = a ∧
    headerAuthor q.cfg q.anon q.userID q.nick
      = (if a then (cstr Gen.Post.ANONYMOUS_ID, Gen.Post.ANONYMOUS_NICKNAME) else (cstr q.userID, cstr q.nick)) ∧
    C05.field (pRecord q e) Gen.RecFile.offOwner Gen.RecFile.lenOwner
      = copyInto Gen.RecFile.lenOwner (if a then Gen.Post.ANONYMOUS_ID else q.userID) ∧
    C05.field (pRecord q e) Gen.RecFile.offFilemode Gen.RecFile.lenFilemode = [if a then Gen.Post.FILE_ANONYMOUS else 0] ∧
    signature (useAnony q.cfg q.anon) q.ip q.frm = signature a q.ip q.frm := by
  refine ⟨rfl, ?_, ?_, ?_, rfl⟩
  · unfold headerAuthor
    cases q.cfg.haveAnonymous <;> cases q.anon <;> rfl
  · exact (record_fields q e).2.1
  · unfold pRecord postRecord useAnony
    cases q.cfg.haveAnonymous && q.anon
    · exact recordImage_filemode ..
    · exact recordImage_filemode ..

/-- the seeded rule "the attribute bit alone makes a post anonymous" disagrees with the header site exactly on
such a site: the entry would say `Anonymous.` while the header of the same file names the author. -/
theorem attribute_alone_is_inconsistent :
    let c : Cfg := { haveAnonymous := false }
    (headerAuthor c true [65, 0] [66]).1 = [65] ∧ useAnony c true = false ∧ (true : Bool) ≠ useAnony c true := by
  decide

example : useAnony {} true = true := by decide

/-! #### the id of the new entry fetches the new file -/

/-- the names Stampfile produces: `M.<t>.A.<XXX>` with a 10-digit time. -/
def stampName (t p : Nat) : Bytes := C13.body 77 t p

/-- instance of C13's round trip: the article id computed from the new index entry decodes back to exactly
the chosen name, for every 10-digit time below 2^31 and every suffix. -/
theorem post_then_get (e : Env) (t p : Nat) (hd : C13.InDomain t p) (hn : e.name = stampName t p) :
    fetchName (articleID e) = .ok e.name := by
  have hbody : ∀ c ∈ C13.body 77 t p, c ≠ 0 := by
    intro c hc
    simp only [C13.body, List.mem_append, List.mem_cons, List.mem_nil_iff, or_false] at hc
    rcases hc with ((((rfl | rfl) | hc) | (rfl | rfl | rfl)) | hc)
    · decide
    · decide
    · have := C13.digitsFixed_isDigit 10 t c hc
      simp [C13.isDigit] at this; omega
    · decide
    · decide
    · decide
    · simp only [C13.hex3, List.mem_cons, List.mem_nil_iff, or_false] at hc
      rcases hc with rfl | rfl | rfl <;> (unfold C13.upHex; split <;> omega)
  have hr : copyInto C13.FNLEN e.name = C13.render true t p := by rw [hn]; rfl
  unfold fetchName articleID
  rw [hr, C13.Props.articleId_roundtrip true t p hd]
  simp only [bind, Except.bind, pure, Except.pure]
  rw [C13.Props.render_eq, hn]
  congr 1
  show cstr (C13.body 77 t p ++ List.replicate 10 0) = C13.body 77 t p
  exact cstr_append_zero _ (List.replicate 9 0) hbody

/-- ... hence, after an accepted post, looking up the file the returned id designates yields the article. -/
theorem post_then_get_file (s : St) (q : Req) (e : Env) (b : BoardSt) (t p : Nat)
    (hb : findBoard s.boards q.board = some b) (hwf : q.dirBoard = q.board) (hx : q.board ≠ ALLPOST)
    (hd : C13.InDomain t p) (hn : e.name = stampName t p) :
    ∃ s' b' f, post s q e = .ok (s', .posted (nextPosted q e b)) ∧ findBoard s'.boards q.board = some b' ∧
      fetchName (articleID e) = .ok f ∧ lookupFile b'.files f = some (pContent q e) := by
  obtain ⟨s', b', h1, h2, _, _, _, _, _, _, h9, _, _⟩ := post_effect s q e b hb hwf hx
  exact ⟨s', b', e.name, h1, h2, post_then_get e t p hd hn, h9⟩

example : C13.InDomain 1790742966 0x976 := by unfold C13.InDomain; omega

/-! #### sequences of posts -/

/-- a request the history theorem speaks about: consistent board id, an existing board other than ALLPOST. -/
def Accepted (s : St) (q : Req) : Prop :=
  q.dirBoard = q.board ∧ q.board ≠ ALLPOST ∧ (findBoard s.boards q.board).isSome

/-- the records a post appends to board `m`: its own record, and its copy when `m` is ALLPOST. -/
def recsFor (m : Bytes) (qe : Req × Env) : List Bytes :=
  (if qe.1.board = m then [pRecord qe.1 qe.2] else []) ++
  (if m = ALLPOST ∧ qe.1.isOpen = true then [pCross qe.1 qe.2] else [])

/-- every index is a whole number of records. -/
def Aligned (s : St) : Prop := ∀ m b, findBoard s.boards m = some b → b.dir.bytes.length % dirSz = 0

theorem post_step_index (s : St) (q : Req) (e : Env) (ha : Accepted s q) (hal : Aligned s) :
    ∃ s', post s q e = .ok (s', .posted (nextPosted q e ((findBoard s.boards q.board).get ha.2.2))) ∧ Aligned s' ∧
      (∀ m, (findBoard s'.boards m).isSome = (findBoard s.boards m).isSome) ∧
      (∀ m b, findBoard s.boards m = some b → ∃ b', findBoard s'.boards m = some b' ∧
        b'.dir.bytes = b.dir.bytes ++ (recsFor m (q, e)).flatten) := by
  obtain ⟨hwf, hx, hsome⟩ := ha
  obtain ⟨b, hb⟩ := Option.isSome_iff_exists.mp hsome
  have hget : (findBoard s.boards q.board).get hsome = b := by simp [hb]
  rw [hget]
  have hrl : (pRecord q e).length = dirSz := postRecord_length ..
  have hcl : (pCross q e).length = dirSz := crossRecord_length ..
  have htake : ∀ (x : BoardSt) m, findBoard s.boards m = some x →
      x.dir.bytes.take (x.dir.bytes.length / dirSz * dirSz) = x.dir.bytes := by
    intro x m hxm
    have := hal m x hxm
    rw [Nat.div_mul_cancel (Nat.dvd_of_mod_eq_zero this), List.take_length]
  -- the board entry of every name after the post
  have key : ∀ m x, findBoard s.boards m = some x → ∃ x', findBoard (nextSt s q e b).boards m = some x' ∧
      x'.dir.bytes = x.dir.bytes ++ (recsFor m (q, e)).flatten := by
    intro m x hxm
    rw [nextSt_board s q e b hb hwf hx]
    by_cases hm : m = q.board
    · subst hm
      have : x = b := by rw [hb] at hxm; cases hxm; rfl
      subst this
      refine ⟨(x.publish e.name (pContent q e) (pRecord q e)).1.setTotal, by simp, ?_⟩
      rw [publish_eq _ _ _ _ hrl]
      simp only [BoardSt.setTotal, recsFor, if_true, hx, false_and, if_false, List.append_nil, List.flatten_cons,
        List.flatten_nil]
      rw [htake x _ hxm]
    · have hm' : ¬ q.board = m := fun h => hm h.symm
      by_cases hA : m = ALLPOST ∧ q.isOpen = true
      · obtain ⟨rfl, ho⟩ := hA
        refine ⟨x.crossPublish e.name (pContent q e) (pCross q e), by simp [hm, ho, hxm], ?_⟩
        simp only [BoardSt.crossPublish, recsFor, hm', if_false, ho, and_self, if_true, List.nil_append,
          List.flatten_cons, List.flatten_nil, List.append_nil]
        rw [C05.Props.append_spec x.dir dirSz (pCross q e) dirSz_pos hcl, htake x _ hxm]
      · refine ⟨x, by simp [hm, hA, hxm], ?_⟩
        simp [recsFor, hm', hA]
  refine ⟨nextSt s q e b, post_eq s q e b (hwf ▸ hb), ?_, ?_, key⟩
  · intro m x' hx'
    cases hsm : findBoard s.boards m with
    | none =>
      rw [nextSt_board s q e b hb hwf hx] at hx'
      by_cases hm : m = q.board
      · subst hm; rw [hb] at hsm; cases hsm
      · by_cases hA : m = ALLPOST ∧ q.isOpen = true
        · obtain ⟨rfl, ho⟩ := hA
          simp [hm, ho, hsm] at hx'
        · simp [hm, hA, hsm] at hx'
    | some x =>
      obtain ⟨x'', h1, h2⟩ := key m x hsm
      rw [h1] at hx'; cases hx'
      rw [h2, List.length_append, Nat.add_mod, hal m x hsm, Nat.zero_add, Nat.mod_mod]
      unfold recsFor
      by_cases c1 : q.board = m <;> by_cases c2 : m = ALLPOST ∧ q.isOpen = true <;>
        simp [c1, c2, hx, hrl, hcl, Nat.add_mod]
  · intro m
    rw [nextSt_board s q e b hb hwf hx]
    by_cases hm : m = q.board
    · subst hm; simp [hb]
    · by_cases hA : m = ALLPOST ∧ q.isOpen = true
      · obtain ⟨rfl, ho⟩ := hA
        cases findBoard s.boards ALLPOST <;> simp [hm, ho]
      · simp [hm, hA]

/-- After ANY sequence of accepted posts to any boards, each board's index is its initial index followed by the
records of the posts made to it — and, for ALLPOST, the copies of the posts to open boards — in order. -/
theorem posts_sequence (ps : List (Req × Env)) : ∀ (s : St), Aligned s → (∀ qe ∈ ps, Accepted s qe.1) →
    ∃ s', runPosts s ps = .ok s' ∧ Aligned s' ∧
      ∀ m b, findBoard s.boards m = some b → ∃ b', findBoard s'.boards m = some b' ∧
        b'.dir.bytes = b.dir.bytes ++ (ps.flatMap (recsFor m)).flatten := by
  induction ps with
  | nil =>
    intro s hal _
    exact ⟨s, rfl, hal, fun m b hb => ⟨b, hb, by simp⟩⟩
  | cons qe rest ih =>
    intro s hal hacc
    obtain ⟨q, e⟩ := qe
    obtain ⟨s1, h1, hal1, hsome, hidx⟩ := post_step_index s q e (hacc (q, e) (by simp)) hal
    have hacc1 : ∀ qe ∈ rest, Accepted s1 qe.1 := by
      intro qe hqe
      obtain ⟨a1, a2, a3⟩ := hacc qe (by simp [hqe])
      exact ⟨a1, a2, by rw [hsome]; exact a3⟩
    obtain ⟨s', h2, hal', hfin⟩ := ih s1 hal1 hacc1
    refine ⟨s', ?_, hal', ?_⟩
    · simp only [runPosts, h1, bind, Except.bind]
      exact h2
    · intro m b hb
      obtain ⟨b1, hb1, hd1⟩ := hidx m b hb
      obtain ⟨b', hb', hd'⟩ := hfin m b1 hb1
      refine ⟨b', hb', ?_⟩
      rw [hd', hd1, List.flatMap_cons, List.flatten_append, List.append_assoc]

/-! #### the post counter does not depend on the caller's copy of the user record -/

/-- `pwcuIncNumPost` increments the re-read stored counter: whatever (stale) value the caller's record holds,
the stored counter rises by exactly one and the caller's record is brought up to date. -/
theorem incNumPost_spec (stored caller : Nat) : incNumPost stored caller = (stored + 1, stored + 1) := rfl

/-- the seeded variant (increment the caller's copy, write that back) does not raise a stored counter the
caller's copy is behind of. -/
theorem from_caller_copy_loses_posts (stored caller : Nat) (h : caller < stored) :
    (incNumPostFromCaller stored caller).1 ≤ stored := by
  simp only [incNumPostFromCaller]; omega

theorem post_accepted (s : St) (q : Req) (e : Env) (b : BoardSt)
    (hb : findBoard s.boards q.board = some b) (hwf : q.dirBoard = q.board) (hx : q.board ≠ ALLPOST) :
    post s q e = .ok (nextSt s q e b, .posted (nextPosted q e b)) ∧
    (∀ m, (findBoard (nextSt s q e b).boards m).isSome = (findBoard s.boards m).isSome) ∧
    (∀ u, numPostsOf (nextSt s q e b).users u =
      (numPostsOf s.users u).map fun n => if u = q.userID ∧ useAnony q.cfg q.anon = false then n + 1 else n) := by
  refine ⟨post_eq s q e b (hwf ▸ hb), ?_, ?_⟩
  · intro m
    rw [nextSt_board s q e b hb hwf hx]
    by_cases hm : m = q.board
    · subst hm; simp [hb]
    · by_cases hA : m = ALLPOST ∧ q.isOpen = true
      · obtain ⟨rfl, ho⟩ := hA
        cases findBoard s.boards ALLPOST <;> simp [hm, ho]
      · simp [hm, hA]
  · intro u
    simp only [nextSt]
    cases ha : useAnony q.cfg q.anon
    · simp only [Bool.false_eq_true, if_false, and_true]
      exact bumpUser_lookup s.users q.userID u q.callerNp
    · simp only [if_true]
      cases numPostsOf s.users u <;> simp

/-- For EVERY value `c` the caller's record may hold (a session that loaded the user before other sessions
posted), an accepted post raises the STORED counter of the author by exactly one (not on anonymous boards) and
leaves every other user's counter alone. -/
theorem numposts_independent_of_caller_copy (s : St) (q : Req) (e : Env) (b : BoardSt) (c : Nat)
    (hb : findBoard s.boards q.board = some b) (hwf : q.dirBoard = q.board) (hx : q.board ≠ ALLPOST) :
    ∃ s' p, post s { q with callerNp := c } e = .ok (s', .posted p) ∧
      ∀ u, numPostsOf s'.users u =
        (numPostsOf s.users u).map fun n => if u = q.userID ∧ useAnony q.cfg q.anon = false then n + 1 else n := by
  obtain ⟨h1, _, h3⟩ := post_accepted s { q with callerNp := c } e b hb hwf hx
  exact ⟨_, _, h1, h3⟩

/-- ... and the caller's record afterwards holds the new stored value. -/
theorem caller_copy_refreshed (us : List (Bytes × Nat)) (id : Bytes) (n c : Nat) (h : numPostsOf us id = some n) :
    callerAfter us id false c = n + 1 := by
  simp [callerAfter, h, incNumPost]

/-- On a site configured without anonymous boards, a board record that still carries the attribute bit is an
ordinary board: the post is recorded under its author, with the author's header and host, and counts. -/
theorem flagged_board_on_site_without_anonymous (s : St) (q : Req) (e : Env) (b : BoardSt)
    (hc : q.cfg.haveAnonymous = false)
    (hb : findBoard s.boards q.board = some b) (hwf : q.dirBoard = q.board) (hx : q.board ≠ ALLPOST) :
    ∃ s' p, post s q e = .ok (s', .posted p) ∧
      C05.field p.record Gen.RecFile.offOwner Gen.RecFile.lenOwner = copyInto Gen.RecFile.lenOwner q.userID ∧
      C05.field p.record Gen.RecFile.offFilemode Gen.RecFile.lenFilemode = [0] ∧
      headerAuthor q.cfg q.anon q.userID q.nick = (cstr q.userID, cstr q.nick) ∧
      signature (useAnony q.cfg q.anon) q.ip q.frm = signature false q.ip q.frm ∧
      (∀ n, numPostsOf s.users q.userID = some n → numPostsOf s'.users q.userID = some (n + 1)) := by
  obtain ⟨h1, _, h3⟩ := post_accepted s q e b hb hwf hx
  obtain ⟨ha, hh, ho, hf, _⟩ := anonymity_consistent q e
  simp only [hc, Bool.false_and, Bool.false_eq_true, if_false] at ha hh ho hf
  refine ⟨_, _, h1, ho, hf, hh, by rw [ha], ?_⟩
  intro n hn
  rw [h3, hn, ha]; simp

/-- posts a session operation makes in the name of user `u` that count. -/
def postsBy (u : Bytes) : SOp → Nat
  | .load _ _ => 0
  | .postAs _ q _ => if u = q.userID ∧ useAnony q.cfg q.anon = false then 1 else 0
  | .create q _ => if u = q.userID ∧ useAnony q.cfg q.anon = false then 1 else 0

def OpAccepted (s : St) : SOp → Prop
  | .load _ _ => True
  | .postAs _ q _ => Accepted s q
  | .create q _ => Accepted s q

theorem stepS_users (s : SSt) (op : SOp) (ha : OpAccepted s.st op) :
    ∃ s' o, stepS s op = .ok (s', o) ∧
      (∀ m, (findBoard s'.st.boards m).isSome = (findBoard s.st.boards m).isSome) ∧
      (∀ u, numPostsOf s'.st.users u = (numPostsOf s.st.users u).map (· + postsBy u op)) := by
  cases op with
  | load sess user =>
    simp only [stepS]
    cases hn : numPostsOf s.st.users user <;>
      exact ⟨_, _, rfl, fun _ => rfl, fun u => by cases numPostsOf s.st.users u <;> simp [postsBy]⟩
  | postAs sess q e =>
    obtain ⟨hwf, hx, hsome⟩ := ha
    obtain ⟨b, hb⟩ := Option.isSome_iff_exists.mp hsome
    cases hs : findSession s.sessions sess with
    | none =>
      obtain ⟨h1, h2, h3⟩ := post_accepted s.st q e b hb hwf hx
      simp only [stepS, hs, h1, bind, Except.bind, pure, Except.pure]
      refine ⟨_, _, rfl, ?_, fun u => ?_⟩
      · exact h2
      · show numPostsOf (nextSt s.st q e b).users u = _
        rw [h3 u]; cases numPostsOf s.st.users u <;> simp [postsBy] <;> split <;> simp
    | some x =>
      obtain ⟨h1, h2, h3⟩ := post_accepted s.st { q with callerNp := x.numPosts } e b hb hwf hx
      simp only [stepS, hs, h1, bind, Except.bind, pure, Except.pure]
      refine ⟨_, _, rfl, ?_, fun u => ?_⟩
      · exact h2
      · show numPostsOf (nextSt s.st { q with callerNp := x.numPosts } e b).users u = _
        rw [h3 u]; cases numPostsOf s.st.users u <;> simp [postsBy] <;> split <;> simp
  | create q e =>
    obtain ⟨hwf, hx, hsome⟩ := ha
    obtain ⟨b, hb⟩ := Option.isSome_iff_exists.mp hsome
    obtain ⟨h1, h2, h3⟩ := post_accepted s.st { q with callerNp := (numPostsOf s.st.users q.userID).getD 0 } e b hb hwf hx
    have hq : createArticle s.st { q with callerNp := (numPostsOf s.st.users q.userID).getD 0 } e =
        post s.st { q with callerNp := (numPostsOf s.st.users q.userID).getD 0 } e := by
      unfold createArticle; exact if_pos hwf
    simp only [stepS, hq, h1, bind, Except.bind, pure, Except.pure]
    refine ⟨_, _, rfl, ?_, fun u => ?_⟩
    · exact h2
    · show numPostsOf (nextSt s.st { q with callerNp := (numPostsOf s.st.users q.userID).getD 0 } e b).users u = _
      rw [h3 u]; cases numPostsOf s.st.users u <;> simp [postsBy] <;> split <;> simp

/-- Interleaved sessions: however often and whenever the user's record was loaded (`load`), and through
whichever kept copy (`postAs`) or fresh reload (`create`) the posts are made, after any sequence of accepted
operations the STORED counter of every user is its initial value plus the number of that user's accepted
non-anonymous posts. -/
theorem sessions_sequence (ops : List SOp) : ∀ (s : SSt), (∀ op ∈ ops, OpAccepted s.st op) →
    ∃ s', runS s ops = .ok s' ∧
      ∀ u, numPostsOf s'.st.users u = (numPostsOf s.st.users u).map (· + (ops.map (postsBy u)).sum) := by
  induction ops with
  | nil => intro s _; exact ⟨s, rfl, fun u => by cases numPostsOf s.st.users u <;> simp⟩
  | cons op rest ih =>
    intro s hacc
    obtain ⟨s1, o, h1, hsome, hu⟩ := stepS_users s op (hacc op (by simp))
    have hacc1 : ∀ op' ∈ rest, OpAccepted s1.st op' := by
      intro op' hop
      have := hacc op' (by simp [hop])
      cases op' with
      | load _ _ => trivial
      | postAs _ q _ => exact ⟨this.1, this.2.1, by rw [hsome]; exact this.2.2⟩
      | create q _ => exact ⟨this.1, this.2.1, by rw [hsome]; exact this.2.2⟩
    obtain ⟨s', h2, hfin⟩ := ih s1 hacc1
    refine ⟨s', ?_, fun u => ?_⟩
    · simp only [runS, h1, bind, Except.bind]; exact h2
    · rw [hfin u, hu u]
      cases numPostsOf s.st.users u <;> simp [Nat.add_assoc]

/-! non-vacuity: a state and requests that satisfy the hypotheses, and what the theorem says about them. -/

def exState : St :=
  { boards := [⟨[87], ⟨true, []⟩, [], 0⟩, ⟨ALLPOST, ⟨true, []⟩, [], 0⟩], users := [([65], 3)], postLog := C05.FS.absent }
def exReq (open' : Bool) (title : Bytes) : Req :=
  { board := [87], dirBoard := [87], userID := [65], nick := [], uid := 1, role := false, anon := false, isOpen := open',
    credit := true, ip := [49], frm := [], cls := [], title := title, lines := [[104, 105, 32, 32], []] }
def exEnv (p : Nat) : Env :=
  { name := stampName 1790742966 p, date := [], mtime := 0, ctime := [], logDate := 0, xtitle := [], xmtime := 0 }

example : Accepted exState (exReq true [120]) := by unfold Accepted; decide
example : Aligned exState := by
  intro m b h
  have := List.mem_of_find?_eq_some h
  simp only [exState, List.mem_cons, List.mem_nil_iff, or_false] at this
  rcases this with rfl | rfl <;> rfl
/-- two posts, the first to an open board: the board has both records in order, ALLPOST the copy of the first. -/
example : ∃ s', runPosts exState [(exReq true [120], exEnv 1), (exReq false [121], exEnv 2)] = .ok s' ∧
    ((findBoard s'.boards [87]).map (·.dir.bytes)) =
      some (pRecord (exReq true [120]) (exEnv 1) ++ pRecord (exReq false [121]) (exEnv 2)) ∧
    ((findBoard s'.boards ALLPOST).map (·.dir.bytes)) = some (pCross (exReq true [120]) (exEnv 1)) ∧
    numPostsOf s'.users [65] = some 5 := by
  refine ⟨_, rfl, ?_, ?_, ?_⟩ <;> decide +kernel

/-- two sessions of one user loaded up front; A posts twice, then B (whose copy still says 3) posts:
the stored counter is 3 + 3, and B's record is brought up to date. -/
example : ∃ s', runS ⟨exState, []⟩ [.load [1] [65], .load [2] [65], .postAs [1] (exReq false [120]) (exEnv 1),
      .postAs [1] (exReq false [121]) (exEnv 2), .postAs [2] (exReq false [122]) (exEnv 3)] = .ok s' ∧
    numPostsOf s'.st.users [65] = some 6 ∧ (findSession s'.sessions [2]).map (·.numPosts) = some 6 ∧
    (findSession s'.sessions [1]).map (·.numPosts) = some 5 := by
  refine ⟨_, rfl, ?_, ?_, ?_⟩ <;> decide +kernel

/-! #### a board id whose halves disagree (repaired at the bbs boundary by 469db79) -/

/-- `ptt.NewPost` itself still takes paths from the name and the cached total from the number: handed an
inconsistent pair it grows the index of the named board while refreshing the total of the other one. -/
theorem name_mismatch_total_stale :
    let s : St := { boards := [⟨[65], ⟨true, []⟩, [], 0⟩, ⟨[66], ⟨true, []⟩, [], 0⟩], users := [], postLog := C05.FS.absent }
    let q : Req := { board := [65], dirBoard := [66], userID := [], nick := [], uid := 0, role := false, anon := false,
                     isOpen := false, credit := false, ip := [], frm := [], cls := [], title := [], lines := [] }
    let e : Env := { name := [77], date := [], mtime := 0, ctime := [], logDate := 0, xtitle := [], xmtime := 0 }
    ∃ s' p, post s q e = .ok (s', .posted p) ∧
      ((findBoard s'.boards [66]).map fun b => (b.dir.bytes.length / dirSz, b.total)) = some (1, 0) ∧
      createArticle s q e = .ok (s, .badBoardID) := by
  refine ⟨_, _, post_eq _ _ _ _ rfl, ?_, rfl⟩
  decide +kernel

end PttVerif.C09.Props
