import PttVerif.Proofs.C06
/-
C06 — Article lookup and paging over a board index equal a linear scan.
Property theorems only.  Model: Model/C06.lean (mirrors cmsys/record.go, ptt/article_list.go,
bbs/load_general_articles.go, bbs/article_summary.go).  Specification: `Spec.*` in Proofs/C06.lean —
`Spec.position idx T ct fn dir` scans the first `T` records once: the entry `(ct, fn)` itself if present
(last such for desc, first for asc), else the last parsable entry with time ≤ ct (desc) / the first with
time ≥ ct (asc), else none.

Hypotheses, always explicit:
  `SortedValid idx`  the parsable entries are in non-decreasing creation-time order; entries without a time
                     (delete-marked ones keep theirs; unparsable ones have none) may sit ANYWHERE;
  `UniqueKeys idx`   no two parsable entries share (time, name[2:]).
-/
namespace PttVerif.C06.Props
open PttVerif PttVerif.C06

/-! #### the bisection: loop measure, termination, landing -/

/-- one iteration under the invariant `BInv` (start ≤ end inside the file, both parsable) either ends the
loop on a parsable position inside `[start, end]` whose header is the one returned, or continues with a
strictly smaller `end - start` and the invariant intact — including the odd `idx == start ⇒ jump to end`
step and every branch of findRecordStartIdxBinSearchValidIdxInStore. No branch fails or reads outside. -/
theorem binsearch_measure {idx : Index} {s e : Int} (B : BInv idx s e) (ct : Int) :
    ∃ out, binStep idx ct s e = .ok out ∧ BPost idx s e out := binStep_post B ct

/-- the unbounded `for` terminates: `(end - start) + 1` iterations always suffice (the model passes
`binFuel = (end - start) + 2`), so `Fault.diverge` is unreachable. -/
theorem binsearch_terminates {idx : Index} {s e : Int} (B : BInv idx s e) (ct : Int) (fuel : Nat)
    (hf : (e - s).toNat + 1 ≤ fuel) : ∃ r, binSearch idx ct fuel s e = .ok r := by
  obtain ⟨i, h, _⟩ := binSearch_lands (idx := idx) ct fuel s e B hf
  exact ⟨_, h⟩

/-- whatever the comparison results are (`subT4` is never inspected: int32 wrap-around cannot hurt), the
bisection returns a parsable position inside `[startStart, endEnd]` together with that position's header.
In particular the `start == end` exit on an unparsable header is unreachable. -/
theorem binsearch_lands {idx : Index} {s e : Int} (B : BInv idx s e) (ct : Int) :
    ∃ i, binSearch idx ct (binFuel s e) s e = .ok (i, ent idx i) ∧ s ≤ i ∧ i ≤ e ∧ Valid idx i :=
  binSearch_lands ct (binFuel s e) s e B (by unfold binFuel; omega)

/-! #### the directional post-searches are correct from ANY landing position -/

/-- descending: from any position `p` of the frame `[ss, ee]` (parsable or not) the two scans return exactly
the linear-scan position. Correctness does not depend on where the bisection lands. -/
theorem postsearch_correct_desc {idx : Index} {T : Nat} {ss ee : Int} (F : Frame idx T ss ee) (S : SortedT idx T)
    (ct p : Int) (fn : Option (List Nat)) (hp1 : ss ≤ p) (hp2 : p ≤ ee) :
    postSearchDesc idx p ss ee ct fn = pos0 idx T ct fn true := postSearchDesc_spec F S ct p fn hp1 hp2

/-- ascending (the code after repair db2703a): symmetric. -/
theorem postsearch_correct_asc {idx : Index} {T : Nat} {ss ee : Int} (F : Frame idx T ss ee) (S : SortedT idx T)
    (ct p : Int) (fn : Option (List Nat)) (hp1 : ss ≤ p) (hp2 : p ≤ ee) :
    postSearchAsc idx p ss ee ct fn = pos0 idx T ct fn false := postSearchAsc_spec F S ct p fn hp1 hp2

/-! #### FindRecordStartIdx = linear scan -/

/-- for every index, every cursor (present, absent, before the first, after the last, nil name), both
directions: FindRecordStartIdx with the true record count returns what the linear scan returns. -/
theorem find_eq_scan (idx : Index) (S : SortedValid idx) (U : UniqueKeys idx)
    (ct : Int) (fn : Option (List Nat)) (isDesc : Bool) :
    findRecordStartIdx idx idx.length ct fn isDesc = Spec.find idx idx.length ct fn isDesc := by
  have hS : SortedValid (idx.take idx.length) := by rw [List.take_length]; exact S
  have hU : UniqueKeys (idx.take idx.length) := by rw [List.take_length]; exact U
  exact find_spec (Nat.le_refl _) (sortedT_of (Nat.le_refl _) hS) (uniqueT_of (Nat.le_refl _) hU) ct fn isDesc

/-- a cached total that lags behind the file answers for the prefix it covers: only the first `T` records
are read and only they need to be sorted. -/
theorem find_stale_total (idx : Index) (T : Nat) (hT : T ≤ idx.length) (S : SortedValid (idx.take T))
    (U : UniqueKeys (idx.take T)) (ct : Int) (fn : Option (List Nat)) (isDesc : Bool) :
    findRecordStartIdx idx T ct fn isDesc = Spec.find (idx.take T) T ct fn isDesc := by
  rw [find_spec hT (sortedT_of hT S) (uniqueT_of hT U)]
  unfold Spec.find
  rw [Spec.position_take]

/-- no fault, no read error, no Atoi error: the answer is a position in `1..T` or ErrRecordNotFound. -/
theorem find_nopanic (idx : Index) (T : Nat) (hT : T ≤ idx.length) (S : SortedValid (idx.take T))
    (U : UniqueKeys (idx.take T)) (ct : Int) (fn : Option (List Nat)) (isDesc : Bool) :
    (∃ i : Nat, i < T ∧ findRecordStartIdx idx T ct fn isDesc = .ok ((i : Int) + 1)) ∨
      findRecordStartIdx idx T ct fn isDesc = .error .notFound := by
  rw [find_spec hT (sortedT_of hT S) (uniqueT_of hT U)]
  unfold Spec.find
  cases h : Spec.position idx T ct fn isDesc with
  | none => right; rfl
  | some i => left; exact ⟨i, Spec.position_lt h, rfl⟩

/-! #### GetRecord = lookup by name -/

/-- GetRecord returns the position and header of the entry with that name, or not-found.  `hkt`: an entry
carrying the looked-up name key carries the looked-up time (true of real names: the key contains the digits). -/
theorem getRecord_eq_lookup (idx : Index) (T : Nat) (hT : T ≤ idx.length) (S : SortedValid (idx.take T))
    (U : UniqueKeys (idx.take T)) (name : Entry) (ct : Int) (hct : name.time? = some ct)
    (hkt : ∀ j t, j < (T : Int) → tm idx j = some t → (ent idx j).key = name.key → t = ct) :
    getRecord idx name T =
      match Spec.lastBelow (Spec.hitAt idx ct name.key) T with
      | some i => .ok ((i : Int) + 1, ent idx i)
      | none => .error .notFound :=
  getRecord_spec hT (sortedT_of hT S) (uniqueT_of hT U) name ct hct hkt

/-- a name whose time field does not parse is rejected before the file is opened. -/
theorem getRecord_unparsable (idx : Index) (name : Entry) (T : Int) (h : name.time? = none) :
    getRecord idx name T = .error .atoi := by
  unfold getRecord; rw [h]

/-! #### GetRecords = the window -/

/-- GetRecords lists the positions `start, start±1, …`: at most `n`, clipped to `1..len`, nothing when
`start` is beyond the file; each with the record stored there. -/
theorem getRecords_window (idx : Index) (start n : Int) (isDesc : Bool) (hs : 1 ≤ start) (hn : 0 ≤ n) :
    getRecords idx start n isDesc = .ok ((Spec.window idx.length start n.toNat isDesc).map (withEntry idx)) :=
  getRecords_spec idx start n isDesc hs hn

/-! #### the page walk

Full statement of the property (NOT a theorem of the code — recorded finding `walk:unparsable-lookahead`):
    ∀ idx n, SortedValid idx → UniqueKeys idx → 1 ≤ n →
      walk idx n false = .ok (pagesOf n (idx.length + 1) (upFrom 1 idx.length))            (and desc)
It fails when a look-ahead element (the entry after a full page, whose (time, name) becomes the next cursor)
is unparsable: such an entry has no cursor (`walk_asc_unparsable_lookahead`, `walk_witness_*` below; at the
`bbs` level its cursor text "0@00000000" does not deserialise).  What holds is the statement under the
explicit hypothesis that every look-ahead element is parsable; delete-marked and unparsable entries may sit
anywhere else.  `walk` is the client loop on the abstract index (cursor = `(time, key)` of the look-ahead
element, positioned with FindRecordStartIdx); `pagewalk_bbs` below carries the result to the
`bbs.LoadGeneralArticles` loop over cursor texts. -/

/-- ascending: the look-ahead elements are the 0-based positions `n, 2n, 3n, …`. -/
def LookaheadOKAsc (idx : Index) (n : Nat) : Prop :=
  ∀ m : Nat, 1 ≤ m → m * n < idx.length → Valid idx ((m * n : Nat) : Int)

/-- descending: `len-1-n, len-1-2n, …`. -/
def LookaheadOKDesc (idx : Index) (n : Nat) : Prop :=
  ∀ m : Nat, 1 ≤ m → m * n < idx.length → Valid idx ((idx.length : Int) - 1 - ((m * n : Nat) : Int))

/-- following the next cursor from the first page, ascending, page size `n ≥ 1`: the walk terminates and
its pages are exactly `1..len` cut into pages of `n`. -/
theorem pagewalk_complete_asc (idx : Index) (S : SortedValid idx) (U : UniqueKeys idx) (n : Nat) (hn : 1 ≤ n)
    (hla : LookaheadOKAsc idx n) :
    walk idx n false = .ok (pagesOf n (idx.length + 1) (upFrom 1 idx.length)) := by
  have hS : SortedValid (idx.take idx.length) := by rw [List.take_length]; exact S
  have hU : UniqueKeys (idx.take idx.length) := by rw [List.take_length]; exact U
  exact walk_asc_eq (sortedT_of (Nat.le_refl _) hS) (uniqueT_of (Nat.le_refl _) hU) n hn hla

/-- descending: `len, len-1, …, 1` cut into pages of `n`. -/
theorem pagewalk_complete_desc (idx : Index) (S : SortedValid idx) (U : UniqueKeys idx) (n : Nat) (hn : 1 ≤ n)
    (hla : LookaheadOKDesc idx n) :
    walk idx n true = .ok (pagesOf n (idx.length + 1) (downFrom idx.length idx.length)) := by
  have hS : SortedValid (idx.take idx.length) := by rw [List.take_length]; exact S
  have hU : UniqueKeys (idx.take idx.length) := by rw [List.take_length]; exact U
  exact walk_desc_eq (sortedT_of (Nat.le_refl _) hS) (uniqueT_of (Nat.le_refl _) hU) n hn hla

/-- cutting into pages loses, repeats and reorders nothing: the concatenation of the pages is the listing. -/
theorem pages_concat (n f : Nat) (l : List Int) : (pagesOf n f l).flatten = l := pagesOf_flatten n f l

/-- every entry exactly once, in order (both directions), and the walk ends. -/
theorem pagewalk_visits_all (idx : Index) (S : SortedValid idx) (U : UniqueKeys idx) (n : Nat) (hn : 1 ≤ n)
    (isDesc : Bool) (hla : if isDesc then LookaheadOKDesc idx n else LookaheadOKAsc idx n) :
    ∃ pages, walk idx n isDesc = .ok pages ∧
      pages.flatten = (if isDesc then downFrom idx.length idx.length else upFrom 1 idx.length) := by
  cases isDesc
  · exact ⟨_, pagewalk_complete_asc idx S U n hn (by simpa using hla), by simp [pagesOf_flatten]⟩
  · exact ⟨_, pagewalk_complete_desc idx S U n hn (by simpa using hla), by simp [pagesOf_flatten]⟩

/-- the recorded finding, in general form: an unparsable first look-ahead element stops the ascending walk
with the cursor error, whatever else the index contains. -/
theorem pagewalk_unparsable_lookahead (idx : Index) (n : Nat) (hlen : (1 : Int) + n ≤ idx.length)
    (hbad : tm idx n = none) : walk idx n false = .error .atoi :=
  walk_asc_unparsable_lookahead idx n hlen hbad

/-! #### the `bbs` cursor text designates the look-ahead entry

`bbs.LoadGeneralArticles` turns the look-ahead element into the text `"<time>@<article id>"` and the next call
turns the text back into `(time, file name)` for `FindRecordStartIdx`.  On the names of the article-id domain
of C13 (`render`: `M.`/`G.` + 10-digit time below 2^31 + `.A.` + 3 hex digits) this round trip yields exactly
the entry's `(time, key)`, so the `bbs` walk is the abstract `walk` above; composed from C13's theorems
`articleId_roundtrip` and `toArticleID_deleted`. -/

theorem cursor_roundtrip_live (isM : Bool) (t p : Nat) (hd : C13.InDomain t p) :
    ∃ fnm, deserializeIdx (serializeIdx (C13.render isM t p)) = .ok ((t : Int), fnm) ∧
      (absEntry (C13.render isM t p)).time? = some (t : Int) ∧
      (absEntry fnm).key = (absEntry (C13.render isM t p)).key :=
  C06.cursor_roundtrip_live isM t p hd

/-- a delete-marked look-ahead entry (repair 7c79b33) yields a cursor that positions on that entry. -/
theorem cursor_roundtrip_deleted (isM : Bool) (t p : Nat) (hd : C13.InDomain t p) :
    ∃ fnm, deserializeIdx (serializeIdx (C13.Props.markDeleted (C13.render isM t p))) = .ok ((t : Int), fnm) ∧
      (absEntry (C13.Props.markDeleted (C13.render isM t p))).time? = some (t : Int) ∧
      (absEntry fnm).key = (absEntry (C13.Props.markDeleted (C13.render isM t p))).key :=
  C06.cursor_roundtrip_deleted isM t p hd

/-- the `bbs.LoadGeneralArticles` client loop (empty cursor first, then `nextIdx` of each page, fresh cached
total) over a board file whose names are in the article-id domain or unparsable (`NamesOK`) visits every entry
exactly once, in order, and ends — same pages as the abstract walk; both directions. -/
theorem pagewalk_bbs (names : List Name) (hok : NamesOK names) (S : SortedValid (names.map absEntry))
    (U : UniqueKeys (names.map absEntry)) (n : Nat) (hn : 1 ≤ n) (isDesc : Bool)
    (hla : if isDesc then LookaheadOKDesc (names.map absEntry) n else LookaheadOKAsc (names.map absEntry) n) :
    ∃ bp, bbsWalk names n isDesc (names.length + 1) names.length [] = (bp, "end") ∧
      (bp.map (·.items)).flatten =
        (if isDesc then downFrom names.length names.length else upFrom 1 names.length) := by
  obtain ⟨pages, hw, hfl⟩ := pagewalk_visits_all (names.map absEntry) S U n hn isDesc hla
  unfold walk at hw
  simp only [List.length_map] at hw hfl
  obtain ⟨bp, h1, h2⟩ := bbsWalk_eq_walkFrom names hok n hn isDesc _ pages hw
  exact ⟨bp, h1, by rw [h2]; exact hfl⟩

/-! #### the posting path keeps the cached total exact

The `total` that bounds every search and listing above is the value cached in shared memory.
`ptt.DoPostArticle` (NewPost) appends the record and then re-counts `.DIR` (`cache.SetBTotal`), so after every
post the cached total equals the record count WHATEVER it was before — cold, exact, lagging behind because a
record reached the file without the cache being told, or too large. -/

/-- for every previous cached value: after a post the file is the old file plus the new record and the
cached total is its record count. -/
theorem post_resyncs_total (names : List Name) (cached : Int) (nm : Name) :
    (postArticle names cached nm).2.1 = names ++ [nm] ∧
      (postArticle names cached nm).2.2 = ((names ++ [nm]).length : Int) :=
  postArticle_total names cached nm

/-- a post whose name has a parsable time succeeds (SetBTotal reads the last name for the last-post time). -/
theorem post_ok (names : List Name) (cached : Int) (nm : Name) (t : Int) (ht : C13.fnCreateTime nm = some t) :
    (postArticle names cached nm).1 = .ok () := postArticle_ok names cached nm t ht

/-- history "anything; post; look the newest article up by name": found at the last position, both
directions, with the cached total the post left behind. -/
theorem post_then_find_newest (names : List Name) (cached : Int) (nm : Name) (t : Int)
    (ht : C13.fnCreateTime nm = some t) (S : SortedValid ((names ++ [nm]).map absEntry))
    (U : UniqueKeys ((names ++ [nm]).map absEntry)) (isDesc : Bool) :
    findNewest (postArticle names cached nm).2.1 (postArticle names cached nm).2.2 isDesc =
      (.ok ((names ++ [nm]).length : Int), ((names ++ [nm]).length : Int)) := by
  obtain ⟨h1, h2⟩ := postArticle_total names cached nm
  rw [h1, h2]
  have hS : SortedValid (((names ++ [nm]).map absEntry).take ((names ++ [nm]).map absEntry).length) := by
    rw [List.take_length]; exact S
  have hU : UniqueKeys (((names ++ [nm]).map absEntry).take ((names ++ [nm]).map absEntry).length) := by
    rw [List.take_length]; exact U
  exact findNewest_synced names nm t ht (sortedT_of (Nat.le_refl _) hS) (uniqueT_of (Nat.le_refl _) hU) isDesc

/-- history "anything; post; page both ways": the `bbs` walk started with the cached total the post left
behind visits every record of the new file exactly once, in order, and ends. -/
theorem post_then_pagewalk (names : List Name) (cached : Int) (nm : Name) (hok : NamesOK (names ++ [nm]))
    (S : SortedValid ((names ++ [nm]).map absEntry)) (U : UniqueKeys ((names ++ [nm]).map absEntry))
    (n : Nat) (hn : 1 ≤ n) (isDesc : Bool)
    (hla : if isDesc then LookaheadOKDesc ((names ++ [nm]).map absEntry) n
           else LookaheadOKAsc ((names ++ [nm]).map absEntry) n) :
    ∃ bp, bbsWalk (postArticle names cached nm).2.1 n isDesc ((names ++ [nm]).length + 1)
        (postArticle names cached nm).2.2 [] = (bp, "end") ∧
      (bp.map (·.items)).flatten =
        (if isDesc then downFrom (names ++ [nm]).length (names ++ [nm]).length else upFrom 1 (names ++ [nm]).length) := by
  obtain ⟨h1, h2⟩ := postArticle_total names cached nm
  rw [h1, h2]
  exact pagewalk_bbs (names ++ [nm]) hok S U n hn isDesc hla

/-- the log boards a post is copied to (ALLPOST, …; repair 4ca0e38) are re-counted too: whatever the log
board's cached total was before — in particular 0 right after `cache.ReloadBCache` — after the copy it is the
record count of the log board's `.DIR`. -/
theorem post_resyncs_logboard (logLen : Nat) (logCached : Int) :
    (logCopy logLen logCached).1 = logLen + 1 ∧ (logCopy logLen logCached).2 = (((logCopy logLen logCached).1 : Nat) : Int) :=
  ⟨rfl, rfl⟩

/-- the defect that was repaired (`post:logboard-total-cold-bump`): bumping the zeroed total by one instead of
re-counting leaves a log board with `N ≥ 1` earlier records at total 1 ≠ N + 1; since totals are only
re-counted when they are 0 it never healed. -/
theorem logboard_bump_witness (N : Nat) (hN : 1 ≤ N) (c : Int) :
    reloadTotal c + 1 ≠ (logCopy N (reloadTotal c)).2 := by
  unfold reloadTotal logCopy; simp; omega

/-- the broken rule (seeded change C06-r5-2: bump the cached total by one instead of re-counting): a board with
one counted record, one record appended behind the cache's back and the new post has 3 records but a cached
total of 1 + 1 = 2; the newest article (time 30) is then not found ascending and another article is returned
descending — contrary to the scan of the file. -/
theorem bump_witness :
    let idx : Index := [⟨some 10, [1]⟩, ⟨some 20, [2]⟩, ⟨some 30, [3]⟩]
    pttFindStart idx (1 + 1) 30 (some [3]) false = .error .notFound ∧
    pttFindStart idx (1 + 1) 30 (some [3]) true = .ok 2 ∧
    Spec.find idx 3 30 (some [3]) false = .ok 3 ∧ Spec.find idx 3 30 (some [3]) true = .ok 3 := by
  refine ⟨by rfl, by rfl, by rfl, by rfl⟩

/-- `getRecords_window` and `pagewalk_complete_*` hold for EVERY page size: GetRecords has no size-dependent
case.  The broken rule of seeded change C06-r6-1 (GetRecords silently reads at most `cap` records while
ptt.LoadGeneralArticles recognises a further page by getting `n + 1` records back), on a small scale (cap 2,
4 records, page size 2): the capped listing reports no next page after the first one, the real one names
record 3 as the next cursor. -/
def getRecordsCapped (cap : Int) (idx : Index) (start n : Int) (isDesc : Bool) : R (List (Int × Entry)) :=
  getRecords idx start (min n cap) isDesc

theorem cap_witness :
    let idx : Index := [⟨some 10, [1]⟩, ⟨some 11, [2]⟩, ⟨some 12, [3]⟩, ⟨some 13, [4]⟩]
    (pttLoadWith (getRecordsCapped 2 idx) 4 1 2 false).map (fun p => (p.items.map (·.1), p.next.map (·.1)))
        = .ok ([1, 2], none) ∧
    (pttLoad idx 4 1 2 false).map (fun p => (p.items.map (·.1), p.next.map (·.1))) = .ok ([1, 2], some 3) := by
  refine ⟨by rfl, by rfl⟩

/-- first access after a restart (`cache.ReloadBCache` zeroes the total): the by-name lookup in front of
EditPost / CrossPost (`ptt.getFileHeader`, total from `GetBTotalWithRetry`) answers exactly as with the exact
total — so by `getRecord_eq_lookup` an article that is in the index is found — and leaves the exact total
cached.  (`hlast`: the re-count accepts the last name: ".d" or parsable.) -/
theorem lookup_cold_first_access (names : List Name) (nm : Name) (hne : names ≠ [])
    (hlast : ∀ last, names.getLast? = some last → cstr last = [46, 100] ∨ ∃ t, C13.fnCreateTime last = some t) :
    lookupByName names 0 nm = lookupByName names names.length nm := lookupByName_cold names nm hne hlast

/-- the broken rule of seeded change C06-r7-2 (bound the lookup by the raw cached total): on a cold cache the
total is 0 and the lookup refuses every name, whatever the index contains. -/
def lookupNoRetry (names : List Name) (cached : Int) (nm : Name) : R Unit :=
  if cached = 0 then .error .invalidFilename
  else (getRecord (names.map absEntry) (absEntry nm) cached).map (fun _ => ())

theorem cold_witness (names : List Name) (nm : Name) : lookupNoRetry names (reloadTotal names.length) nm = .error .invalidFilename := rfl

/-! #### non-vacuity and witnesses (kernel evaluation of the model) -/

def exIdx : Index :=
  [⟨none, [0]⟩, ⟨some 10, [1]⟩, ⟨some 10, [2]⟩, ⟨none, [3]⟩, ⟨some 12, [4]⟩, ⟨none, [5]⟩]

example : SortedValid exIdx ∧ UniqueKeys exIdx := by
  unfold SortedValid UniqueKeys exIdx; constructor <;> simp
/-- the hypotheses of the bisection / post-search theorems are satisfiable: positions 1..4 bracket the
parsable entries of `exIdx`, with an unparsable entry strictly inside and at both ends of the file. -/
example : BInv exIdx 1 4 := by
  refine ⟨by omega, by omega, by simp [exIdx], by decide, by decide⟩
example : Frame exIdx 6 1 4 := by
  refine ⟨by omega, by omega, by omega, by simp [exIdx], ?_, ?_⟩
  · intro j hj
    by_cases h0 : j < 0
    · exact tm_none_of_neg h0
    · have : j = 0 := by omega
      subst this; rfl
  · intro j h1 h2
    have : j = 5 := by omega
    subst this; rfl
example : SortedT exIdx 6 :=
  sortedT_of (by simp [exIdx]) (by unfold SortedValid exIdx; simp)
example : LookaheadOKAsc exIdx 2 := by
  intro m hm hlt
  have : m = 1 ∨ m = 2 := by simp [exIdx] at hlt; omega
  rcases this with rfl | rfl <;> decide
example : findRecordStartIdx exIdx 6 11 none true = .ok 3 := by rfl
example : findRecordStartIdx exIdx 6 11 none false = .ok 5 := by rfl
example : walk exIdx 2 false = .ok [[1, 2], [3, 4], [5, 6]] := by rfl
example : walk exIdx 4 true = .ok [[6, 5, 4, 3], [2, 1]] := by rfl
/-- `NamesOK` is satisfiable with all three sorts of names present. -/
example : NamesOK [C13.render true 1234567890 1, C13.Props.markDeleted (C13.render false 1234567891 2), []] := by
  intro nm h
  simp only [List.mem_cons, List.not_mem_nil, or_false] at h
  rcases h with h | h | h
  · exact Or.inr ⟨true, 1234567890, 1, by unfold C13.InDomain; omega, Or.inl h⟩
  · exact Or.inr ⟨false, 1234567891, 2, by unfold C13.InDomain; omega, Or.inr h⟩
  · subst h; exact Or.inl (by decide)
/-- the repaired defect db2703a: times [10, 20], cursor time 5, ascending: the first entry. -/
example : findRecordStartIdx [⟨some 10, [1]⟩, ⟨some 20, [2]⟩] 2 5 none false = .ok 1 := by rfl
/-- the recorded finding on a concrete index: the look-ahead of the first page is unparsable. -/
theorem walk_witness_asc : walk [⟨some 10, [1]⟩, ⟨none, [2]⟩, ⟨some 20, [3]⟩] 1 false = .error .atoi := by rfl
theorem walk_witness_desc : walk [⟨some 10, [1]⟩, ⟨none, [2]⟩, ⟨some 20, [3]⟩] 1 true = .error .atoi := by rfl

end PttVerif.C06.Props
