import PttVerif.Proofs.C03
import PttVerif.Proofs.C03Crypt
/-
C03 — Registration, login and password change follow the account model.
Property theorems only (helper lemmas: Proofs/C03.lean; the model and the specification: Model/C03.lean; the
instantiation of the hashing interface with the DES model of property C02: Proofs/C03Crypt.lean, Props/C03Crypt.lean).

Reading.
* Specification (`specStep`): a table `folded id ↦ Account {id, pw, email}` + the number of free slots + the keys
  that hold a session.  `pw : Option key` is the EFFECTIVE KEY of the current password (first 8 bytes up to a NUL,
  7 bits each — "current password" means equal effective key: that is crypt(3), and inside the property);
  `none` = no password is accepted (GenPasswd stores the all-zero hash for the empty password and for a leading
  NUL).  Result classes: ok / invalidId / reserved / exists / noSlot / badPassword / noSuchUser; `errOf` maps a class
  to the error VALUE the code returns (several classes share ptttype.ErrInvalidUserID).
  A registration judges the id AS SUBMITTED (`WellFormed id`: 2–12 alphanumerics, leading letter); every other
  entry point reads the submitted id as a C string (`cstr id`: what `copy` into `[13]byte` + `UUserID.ToRaw` do), so
  a lookup by "qb\0cd" addresses the account "qb" — recorded (`lookup_reads_c_string`), not judged.
* Implementation model (`step`): .PASSWDS as MAX_USERS records (UserID, PasswdHash, Email, opaque rest), the id
  index as "first slot whose id compares equal with strcasecmp" (property C04), the session table occupancy.
* `R C pws s t`: state `s` represents table `t` — every slot in use holds a valid id that no other slot holds in
  any letter case, its account is `t.acc (folded id)` with that id and e-mail and a hash that verifies exactly the
  passwords (of the universe `pws`) with the account's effective key; nothing else is in `t`; `t.free` counts the
  free slots; `t.sess` are the keys of the uids in the session table.
* Hashing is a parameter `C : Crypto` with the laws `Lawful C` (the three facts C02 proves) and the hypothesis
  `Sep C pws` (C02's unprovable clause (d): hashes of different effective keys do not collide — among the passwords
  `pws` that occur).  `ideal_lawful`/`ideal_sep` and `Props/C03Crypt.lean: des_lawful` show the laws are satisfiable.
* Session hypothesis `Room` / `RoomRun`: fewer than USHM_SIZE sessions have been opened since the segment was
  loaded.  Without it the statement is FALSE for the code as it is (known finding, see the last section).
-/
namespace PttVerif.C03.Props
open PttVerif PttVerif.C03

/-! #### what the source says (regenerated data) -/

/-- `UserID_t.IsValid` measures `types.Cstrlen(u[:])`, rejects `theLen < 2 || theLen > 12`, tests the first byte
with `Isalpha` and the others with `Isalnum`; `Isalpha` is A–Z | a–z, `Isnumber` 0–9; `PasswdQueryPasswd` /
`PasswdUpdatePasswd` address the `PasswdHash` field and `PasswdUpdateEmail` the `Email` field; the three fields lie
inside the record and do not overlap. -/
theorem source_facts :
    Gen.Acct.lenSource = "types.Cstrlen(u[:])" ∧ Gen.Acct.lenGuard = [(0, 2), (2, Gen.Acct.idLen)] ∧
    Gen.Acct.firstCharTest = "Isalpha" ∧ Gen.Acct.loopCharTest = "Isalnum" ∧
    Gen.Acct.alphaRanges = [(65, 90), (97, 122)] ∧ Gen.Acct.numberRanges = [(48, 57)] ∧
    Gen.Acct.queryPasswdField = "PasswdHash" ∧ Gen.Acct.updatePasswdField = "PasswdHash" ∧
    Gen.Acct.updateEmailField = "Email" ∧ Gen.Acct.userIDSize = Gen.Acct.idLen + 1 ∧
    Gen.Acct.userIDOffset + Gen.Acct.userIDSize ≤ Gen.Acct.passwdOffset ∧
    Gen.Acct.passwdOffset + Gen.Acct.passwdSize ≤ Gen.Acct.emailOffset ∧
    Gen.Acct.emailOffset + Gen.Acct.emailSize ≤ Gen.Acct.recSize := by decide

/-! #### the id validator -/

/-- for ALL byte arrays (in particular all 13-byte ones): `UserID_t.IsValid` = "the C-string reading is 2–12
alphanumerics with a leading letter". -/
theorem validId_spec (u : Bytes) : isValidId u = true ↔ WellFormed (cstr u) := isValidId_iff u

/-- for ALL submitted strings (any length, any bytes) and every reserved list: the three gates of a registration
(the NUL test of `bbs.Register`, `isBadUserID`, `isReservedUserID`, on the 13-byte copy) let through exactly the
ids that are — as submitted — 2–12 alphanumerics with a leading letter and neither "new" nor "guest" in any
letter case nor on the reserved list. -/
theorem register_gate_spec (reserved : List Bytes) (name : Bytes) :
    (name.contains 0 = false ∧ isBadUserID (copyInto IDSZ name) = false ∧
      isReservedUserID reserved (copyInto IDSZ name) = false) ↔ (WellFormed name ∧ ¬ Reserved reserved name) :=
  gate_iff reserved name

/-- the fixed-size copy cannot make an invalid id valid or merge two ids: for every string without a NUL, the copy
is valid only if the string itself is, and then its C-string reading is the string. -/
theorem truncation_is_harmless (name : Bytes) (hz : ∀ c ∈ name, c ≠ 0) (hv : isValidId (copyInto IDSZ name) = true) :
    WellFormed name ∧ cstr (copyInto IDSZ name) = name := by
  have hc : cstr name = name := cstr_of_no_zero name hz
  have hw : WellFormed (cstr name) := (wf_copy_iff name).1 ((isValidId_iff _).1 hv)
  exact ⟨hc ▸ hw, by rw [cstr_copy_of_wf hw, hc]⟩

example : ¬ WellFormed ("abcdefghijklm".toList.map Char.toNat) ∧ ¬ WellFormed ("1abc".toList.map Char.toNat) ∧
    WellFormed ("Ab".toList.map Char.toNat) ∧ WellFormed ("abcdefghijkl".toList.map Char.toNat) ∧
    Reserved [] ("GuEsT".toList.map Char.toNat) ∧ Reserved [[114, 111, 111, 116]] ("Root".toList.map Char.toNat) := by
  decide

/-- recorded, not judged: the entry points other than `Register` read a submitted id as a C string — "qb\0cd" is
valid after the copy and addresses the account "qb"; `Register` refuses it (it contains a NUL). -/
theorem lookup_reads_c_string :
    isValidId (copyInto IDSZ [113, 98, 0, 99, 100]) = true ∧ foldId (copyInto IDSZ [113, 98, 0, 99, 100]) = [113, 98] ∧
    ¬ WellFormed [113, 98, 0, 99, 100] ∧ ([113, 98, 0, 99, 100] : Bytes).contains 0 = true := by decide

/-! #### the hashing interface is satisfiable -/

theorem ideal_is_lawful : Lawful ideal ∧ ∀ pws, Sep ideal pws := ⟨ideal_lawful, ideal_sep⟩

/-- the DES model of property C02 (cmbbs.GenPasswd / CheckPasswd over crypt.Fcrypt) satisfies the three laws — by
C02's `check_gen`, `checkPasswd_same_key`, `empty_hash_never_verifies` — with C02's effective key, and the model's
`genPasswd` on that instance is C02's model of GenPasswd.  (`Sep des pws` is C02's clause (d): not provable.) -/
theorem des_is_lawful :
    Lawful des ∧ (∀ p, effKey8 p = C02.effKey8 p) ∧ ∀ r p, C02.GenPasswdWith r p = .ok (genPasswd des r p) :=
  ⟨des_lawful, effKey8_eq, des_gen_total⟩

/-! #### every operation refines the abstract table -/

variable {C : Crypto} {pws : List Bytes} {s : State C} {t : Table}

/-- registration: for ALL submitted ids, passwords (of the universe) and e-mails — the answer is the error value of
the specification's class (invalid / reserved / exists / no slot / ok with the id) and the new state represents the
specification's new table. -/
theorem register_refines (L : Lawful C) (S : Sep C pws) (reserved : List Bytes) (h : R C pws s t) (id pw email : Bytes)
    (salt rest : Nat) (hp : pw ∈ pws) (hroom : Room t (.register id pw email salt rest)) :
    R C pws (register reserved s id pw email salt rest).1 (specStep reserved t (.register id pw email salt rest)).1 ∧
      AnsAgree (.register id pw email salt rest) (register reserved s id pw email salt rest).2
        (specStep reserved t (.register id pw email salt rest)).2 :=
  C03.register_refines L S reserved h id pw email salt rest hp hroom

/-- login: succeeds exactly when the account exists and (it is "guest" or the password has the effective key of the
current one). -/
theorem login_refines (reserved : List Bytes) (h : R C pws s t) (id pw : Bytes) (rest : Nat) (hp : pw ∈ pws)
    (hroom : Room t (.login id pw rest)) :
    R C pws (login s id pw rest).1 (specStep reserved t (.login id pw rest)).1 ∧
      AnsAgree (.login id pw rest) (login s id pw rest).2 (specStep reserved t (.login id pw rest)).2 :=
  C03.login_refines reserved h id pw rest hp hroom

theorem checkPasswd_refines (reserved : List Bytes) (h : R C pws s t) (id pw : Bytes) (hp : pw ∈ pws) :
    R C pws (checkPasswd s id pw).1 (specStep reserved t (.checkPasswd id pw)).1 ∧
      AnsAgree (.checkPasswd id pw) (checkPasswd s id pw).2 (specStep reserved t (.checkPasswd id pw)).2 :=
  C03.checkPasswd_refines reserved h id pw hp

/-- a password change needs the old password (effective key) and replaces it. -/
theorem changePasswd_refines (L : Lawful C) (S : Sep C pws) (reserved : List Bytes) (h : R C pws s t)
    (id old new : Bytes) (salt : Nat) (hp : old ∈ pws) (hn : new ∈ pws) :
    R C pws (changePasswd s id old new salt).1 (specStep reserved t (.changePasswd id old new salt)).1 ∧
      AnsAgree (.changePasswd id old new salt) (changePasswd s id old new salt).2
        (specStep reserved t (.changePasswd id old new salt)).2 :=
  C03.changePasswd_refines L S reserved h id old new salt hp hn

theorem changeEmail_refines (reserved : List Bytes) (h : R C pws s t) (id email : Bytes) :
    R C pws (changeEmail s id email).1 (specStep reserved t (.changeEmail id email)).1 ∧
      AnsAgree (.changeEmail id email) (changeEmail s id email).2 (specStep reserved t (.changeEmail id email)).2 :=
  C03.changeEmail_refines reserved h id email

/-- `CheckExistsUser` and `GetUser` answer from the table (GetUser hands out the stored id and e-mail). -/
theorem lookup_refines (reserved : List Bytes) (h : R C pws s t) (id : Bytes) :
    (R C pws (checkExists s id).1 (specStep reserved t (.exists_ id)).1 ∧
      AnsAgree (.exists_ id) (checkExists s id).2 (specStep reserved t (.exists_ id)).2) ∧
    (R C pws (getUser s id).1 (specStep reserved t (.getUser id)).1 ∧
      AnsAgree (.getUser id) (getUser s id).2 (specStep reserved t (.getUser id)).2) :=
  ⟨exists_refines reserved h id, getUser_refines reserved h id⟩

/-! #### only "guest" is password-less -/

/-- the source tests the STORED id for equality with STR_GUEST (C-string comparison), in LoginQuery and in
InitCurrentUser — not for a prefix, not through a helper. -/
theorem guest_test_source :
    Gen.Acct.loginGuestTest = "types.Cstrcmp(user.UserID[:], []byte(ptttype.STR_GUEST)) == 0" ∧
    Gen.Acct.initGuestTest = "types.Cstrcmp(user.UserID[:], []byte(ptttype.STR_GUEST)) == 0" := by decide

/-- ids that merely start or end with "guest" are ordinary ids: well-formed, not reserved (only the id that equals
"guest" in some letter case is), so they can be registered. -/
theorem guest_like_ids_registrable :
    ∀ name ∈ (["guest01", "guestbook", "GuestX", "guests", "myguest", "Aguest", "GUEST9"].map fun (x : String) =>
      x.toList.map Char.toNat), WellFormed name ∧ ¬ Reserved [] name ∧ name ≠ STR_GUEST := by decide

/-- in ANY represented state, for EVERY account whose id is not exactly "guest" and EVERY password (of the universe)
that does not have the effective key of the current one: the login is refused (ErrInvalidUserID) and the state is
untouched.  With `login_refines` (which lets the stored id "guest" in without a password) this is the clause "login
succeeds exactly with the account's current password (guest needs none)". -/
theorem login_needs_password (reserved : List Bytes) (h : R C pws s t) (id pw : Bytes) (rest : Nat) (hp : pw ∈ pws)
    (hw : WellFormed (cstr id)) (a : Account) (ha : t.acc (foldId id) = some a) (hg : a.id ≠ STR_GUEST)
    (hpw : ¬ pwOk a pw) :
    (specStep reserved t (.login id pw rest)).2 = ⟨.badPassword, [[]]⟩ ∧
      login s id pw rest = (s, ⟨.invalidUserID, [[]]⟩) :=
  C03.login_needs_password reserved h id pw rest hp hw a ha hg hpw

/-- the witness history (ideal hash, empty table): register "guest01" with "p"; a wrong password, the empty password
are refused, the right one accepted; after a change to "q" the OLD password is refused and the new one accepted; a
letter-case variant of the id is the same account. -/
theorem guest01_history :
    (outputs (C := ideal) [] (emptyState ideal)
      [.register [103, 117, 101, 115, 116, 48, 49] [112] [] 0 0, .login [103, 117, 101, 115, 116, 48, 49] [120] 1,
       .login [103, 117, 101, 115, 116, 48, 49] [] 2, .login [103, 117, 101, 115, 116, 48, 49] [112] 3,
       .changePasswd [103, 117, 101, 115, 116, 48, 49] [112] [113] 4, .login [71, 85, 69, 83, 84, 48, 49] [112] 5,
       .login [103, 117, 101, 115, 116, 48, 49] [113] 6]).map (·.err) =
      [.none, .invalidUserID, .invalidUserID, .none, .none, .invalidUserID, .none] := by decide +kernel

/-! #### histories -/

/-- after ANY finite sequence of register / login / check / change-password / change-e-mail / exists / get
operations (ids and e-mails arbitrary byte strings, passwords from the universe `pws`) from a state that
represents a table, under the session hypothesis: the final state represents the table the specification computes,
and every answer along the way is the specification's. -/
theorem history_refines (L : Lawful C) (S : Sep C pws) (reserved : List Bytes) (ops : List Op) (s : State C) (t : Table)
    (h : R C pws s t) (hp : ∀ o ∈ ops, OpPws pws o) (hroom : RoomRun reserved t ops) :
    R C pws (run reserved s ops) (specRun reserved t ops) ∧
      AnsAgreeAll ops (outputs reserved s ops) (specOutputs reserved t ops) :=
  run_refines L S reserved ops s t h hp hroom

/-- a start exists: the all-zero .PASSWDS represents the empty table, for every hash and every universe. -/
theorem empty_represents (C : Crypto) (pws : List Bytes) : R C pws (emptyState C) emptyTable := R_empty C pws

/-! #### concurrent requests

What is PROVED about concurrency is the read-only class: password checks and lookups change nothing, so in EVERY
schedule of such requests (any order, any interleaving of whole requests, also several against one account) each one
gets the answer it gets alone in the state they started from.  For requests that write (login, password change) the
model states that groups addressing DIFFERENT accounts answer as if run one group after the other (`register_frame`
/ `own_record_fields`: each touches only its own record); that commutation is not proved as a theorem — it is
judged on every run by the `conc` histories (K against the sequential model, P-hat per account).  The computation
of a hash is atomic in the model; an implementation that shares the result buffer of crypt between goroutines breaks
exactly that and is caught there. -/

theorem concurrent_checks_schedule_free (reserved : List Bytes) (s : State C) (ops : List Op) (h : ∀ o ∈ ops, Pure o) :
    run reserved s ops = s ∧ outputs reserved s ops = ops.map (fun o => (step reserved s o).2) :=
  pure_run reserved s ops h

/-! #### frame -/

/-- EVERY operation in EVERY state (no invariant needed): every record except the one of the target uid — the first
free slot for a registration, the slot the index resolves the id to otherwise — is exactly what it was (id, hash,
e-mail and the opaque rest: all 512 bytes). -/
theorem register_frame (reserved : List Bytes) (s : State C) (op : Op) (j : Nat) (h : j + 1 ≠ target s op) :
    (step reserved s op).1.recs[j]? = s.recs[j]? := frame_all reserved s op j h

/-- …and in the target record: a login rewrites only the clock-dependent rest, a password change only the hash, an
e-mail change only the e-mail, a check or a lookup nothing (`Kept`). -/
theorem own_record_fields (reserved : List Bytes) (s : State C) (op : Op) (j : Nat) (r r1 : Rec C)
    (hr : s.recs[j]? = some r) (h1 : (step reserved s op).1.recs[j]? = some r1) : Kept op r r1 :=
  kept_all reserved s op j r r1 hr h1

/-- EVERY operation in EVERY state: an operation that returns an error leaves file and session table untouched —
except file errors (never under the invariant) and a registration answering ErrNewUtmp (the known finding below). -/
theorem refused_is_noop (reserved : List Bytes) (s : State C) (op : Op) (h1 : (step reserved s op).2.err ≠ .none)
    (h2 : (step reserved s op).2.err ≠ .io)
    (h3 : ∀ id pw em sa re, op = .register id pw em sa re → (step reserved s op).2.err ≠ .newUtmp) :
    (step reserved s op).1 = s := refused_noop reserved s op h1 h2 h3

/-! #### known finding: the session table is never vacated

The full statement — `history_refines` WITHOUT the hypothesis `RoomRun` —

    theorem history_refines_full (L : Lawful C) (S : Sep C pws) reserved ops s t (h : R C pws s t)
        (hp : ∀ o ∈ ops, OpPws pws o) :
        R C pws (run reserved s ops) (specRun reserved t ops) ∧
          AnsAgreeAll ops (outputs reserved s ops) (specOutputs reserved t ops)

is false for the code as it is: `history_refines_full_fails` below is its negation with a concrete witness, and
`register_session_full` / `login_session_full` describe the failing class exactly (keys
`register:utmp-full-account-created`, `login:utmp-full` of known_findings.json). -/

/-- in ANY represented state whose session table is full: a registration the specification accepts returns
ErrNewUtmp, yet the account has been written (the id resolves, the file changed). -/
theorem register_session_full (L : Lawful C) (S : Sep C pws) (reserved : List Bytes) (h : R C pws s t)
    (id pw email : Bytes) (salt rest : Nat) (hp : pw ∈ pws) (hw : WellFormed id) (hres : ¬ Reserved reserved id)
    (hnone : t.acc (id.map tolower) = none) (hfree : t.free ≠ 0) (hfull : ¬ t.sess.length < USHM) :
    (specStep reserved t (.register id pw email salt rest)).2 = ⟨.ok, [id]⟩ ∧
    (register reserved s id pw email salt rest).2 = ⟨.newUtmp, [[]]⟩ ∧
    searchUserRaw (register reserved s id pw email salt rest).1 (copyInto IDSZ id) ≠ 0 ∧
    (register reserved s id pw email salt rest).1.recs ≠ s.recs :=
  C03.register_session_full L S reserved h id pw email salt rest hp hw hres hnone hfree hfull

/-- in ANY represented state whose session table is full: the right password of a user without an entry is refused
with ErrNewUtmp (the state stays as it was). -/
theorem login_session_full (reserved : List Bytes) (h : R C pws s t) (id pw : Bytes) (rest : Nat) (hp : pw ∈ pws)
    (hw : WellFormed (cstr id)) (a : Account) (ha : t.acc (foldId id) = some a) (hpw : pwOk a pw)
    (hk : foldId id ∉ t.sess) (hfull : ¬ t.sess.length < USHM) :
    (specStep reserved t (.login id pw rest)).2 = ⟨.ok, [a.id]⟩ ∧ login s id pw rest = (s, ⟨.newUtmp, [[]]⟩) :=
  C03.login_session_full reserved h id pw rest hp hw a ha hpw hk hfull

/-- the witness history: 32 registrations "s00" … "s31" with password "p" on the empty table. -/
def witnessOps : List Op :=
  (List.range 32).map fun i => Op.register [115, 48 + i / 10, 48 + i % 10] [112] [] 0 0

/-- the negation of the full statement, with the witness: from the empty table (which `emptyState` represents), with
the ideal hash (lawful, collision-free), the 32nd registration answers ErrNewUtmp where the specification answers
ok — and the id is registered all the same. -/
theorem history_refines_full_fails :
    Lawful ideal ∧ Sep ideal [[112]] ∧ R ideal [[112]] (emptyState ideal) emptyTable ∧
    (∀ o ∈ witnessOps, OpPws [[112]] o) ∧
    ¬ AnsAgreeAll witnessOps (outputs [] (emptyState ideal) witnessOps) (specOutputs [] emptyTable witnessOps) ∧
    searchUserRaw (run [] (emptyState ideal) witnessOps) (copyInto IDSZ [115, 51, 49]) ≠ 0 := by
  refine ⟨ideal_lawful, ideal_sep _, R_empty _ _, ?_, ?_, ?_⟩
  · intro o ho
    unfold witnessOps at ho
    rw [List.mem_map] at ho
    obtain ⟨i, _, rfl⟩ := ho
    simp [OpPws]
  · intro hall
    have h1 : (outputs [] (emptyState ideal) witnessOps)[31]? = some ⟨.newUtmp, [[]]⟩ := by decide +kernel
    have h2 : ((specOutputs [] emptyTable witnessOps)[31]?).map (·.res) = some .ok := by decide +kernel
    have h3 : witnessOps[31]? = some (Op.register [115, 51, 49] [112] [] 0 0) := by decide +kernel
    cases hb : (specOutputs [] emptyTable witnessOps)[31]? with
    | none => rw [hb] at h2; cases h2
    | some b =>
      rw [hb] at h2
      have hres : b.res = .ok := by simpa using h2
      have := (agreeAll_get _ _ _ hall 31 _ _ b h3 h1 hb).1
      rw [hres] at this
      cases this
  · decide +kernel

/-! #### non-vacuity: a three-account table reached through the theorems -/

instance (pws : List Bytes) (o : Op) : Decidable (OpPws pws o) := by
  cases o <;> unfold OpPws <;> exact inferInstance

instance (t : Table) (o : Op) : Decidable (Room t o) := by
  cases o <;> unfold Room <;> exact inferInstance

def decRoomRun (reserved : List Bytes) : (t : Table) → (ops : List Op) → Decidable (RoomRun reserved t ops)
  | _, [] => isTrue trivial
  | t, o :: os =>
    have := decRoomRun reserved (specStep reserved t o).1 os
    by unfold RoomRun; exact inferInstance

instance (reserved : List Bytes) (t : Table) (ops : List Op) : Decidable (RoomRun reserved t ops) :=
  decRoomRun reserved t ops

/-- the hypotheses of `history_refines` hold for a concrete history (ideal hash): three registrations (one refused as
a letter-case duplicate), a login with a password that shares the effective key, a password change, a lookup. -/
example :
    let pws : List Bytes := [[112, 119, 49], [112, 247, 49], [112, 119, 50]]
    let ops : List Op := [.register [65, 98] [112, 119, 49] [97] 1 1, .register [97, 66] [112, 119, 50] [] 2 2,
      .register [113, 98] [112, 119, 50] [] 3 3, .register [122, 49] [112, 119, 49] [] 4 4,
      .login [65, 66] [112, 247, 49] 5, .changePasswd [97, 98] [112, 119, 49] [112, 119, 50] 6, .getUser [113, 98]]
    (∀ o ∈ ops, OpPws pws o) ∧ RoomRun [] emptyTable ops ∧
      (specOutputs [] emptyTable ops).map (·.res) = [.ok, .exists_, .ok, .ok, .ok, .ok, .ok] := by
  refine ⟨by decide, ?_, by decide +kernel⟩
  decide +kernel

end PttVerif.C03.Props
