import PttVerif.Proofs.C11Walk
/-
C11 — Board lookup and board listings equal a scan of the board table.
Property theorems only (helper lemmas: Proofs/C11.lean, C11Auto.lean, C11Walk.lean; model: Model/C11.lean).

Vocabulary
  `es : List Entry`       a sorted view `BCache[BSorted[k][i]]`, i < BNumber (any length);
  `low s`                 the C string of `s`, ASCII lower-cased — what `Cstrcasecmp` compares;
  `nkey e`, `ckey e`      the sort keys: `low name`, resp. `(C string of Title[:4], low name)`;
  `SortedBy cmp key es`   non-decreasing keys (what sort.Sort with the corresponding `Less` establishes; the harness
                          checks it on the real BSorted after every reload; `sorted_of_adjacent_*` below);
  `scanFirst P es 0`, `scanLast P es`   position of the first / last entry satisfying `P`, `-1` if none
                          (`scanFirst_means`, `scanLast_means`).

Hypotheses — the property's domain is the board tables the system can produce (C12), always explicit:
  `DistinctNames es`      no two NON-vacated boards have names equal up to case (vacated slots may repeat);
  `ClassOK e`             `Title.BoardClass()` reads as the same C string as `Title[:4]` (title byte 4 is a blank);
  `NoAtFF es`             no name contains `'@'` or `0xff` (implied by `ValidNames`: letters, digits, `_ - .`);
  `NamesLen nameLen es`   every Brdname is an array of `nameLen` = IDLEN+1 bytes;
  `∀ e ∈ es, e.bid + 1 ≤ maxBoard`   the bids of the view are valid (BNumber ≤ MAX_BOARD).
What happens outside them is shown by the witnesses at the end of the file.
-/
namespace PttVerif.C11.Props
open PttVerif PttVerif.C18 PttVerif.C11

/-! ## (i) the two orders are total preorders; adjacent order suffices -/

/-- the by-name comparison (lexicographic on `low name`) is a total preorder whose kernel is equality of keys. -/
theorem cmp_total_preorder_name : OrdLaws lexCmp := lexLaws

/-- the by-class comparison (C string of `Title[:4]`, then `low name`) likewise. -/
theorem cmp_total_preorder_class : OrdLaws cmpC := classLaws

/-- `Cstrcasecmp(q, Brdname)` never faults and its sign is the comparison of the keys. -/
theorem cmpName_is_key_order (q : List Nat) (e : Entry) :
    ∃ v, cmpName q e = .ok v ∧ (v < 0 ↔ lexCmp (low q) (nkey e) = .lt) ∧ (v = 0 ↔ lexCmp (low q) (nkey e) = .eq) ∧
      (0 < v ↔ lexCmp (low q) (nkey e) = .gt) :=
  ⟨_, cmpName_eq q e, cmpNameP_sign q e⟩

/-- `cmpBoardByClass` agrees with the order the table is sorted in — provided `ClassOK` (see `class5_witness`). -/
theorem cmpClass_is_key_order (cls q : List Nat) (e : Entry) (h : ClassOK e) :
    ∃ v, cmpClass cls q e = .ok v ∧ (v < 0 ↔ cmpC (cstr cls, low q) (ckey e) = .lt) ∧
      (v = 0 ↔ cmpC (cstr cls, low q) (ckey e) = .eq) ∧ (0 < v ↔ cmpC (cstr cls, low q) (ckey e) = .gt) :=
  ⟨_, cmpClass_eq cls q e, cmpClassP_sign cls q e h⟩

/-- checking neighbours (what the harness does on the real `BSorted` after every reload) gives sortedness. -/
theorem sorted_of_adjacent_name (es : List Entry)
    (h : ∀ i (h : i + 1 < es.length), lexCmp (nkey es[i]) (nkey es[i + 1]) ≠ .gt) : SortedBy lexCmp nkey es :=
  sortedBy_of_adjacent lexLaws nkey es h

theorem sorted_of_adjacent_class (es : List Entry)
    (h : ∀ i (h : i + 1 < es.length), cmpC (ckey es[i]) (ckey es[i + 1]) ≠ .gt) : SortedBy cmpC ckey es :=
  sortedBy_of_adjacent classLaws ckey es h

/-! ## loading: the table the lookups run on is `.BRD`, whatever the busy flag said -/

/-- cache.ReloadBCache on a segment nobody else is loading (a restarted daemon): for EVERY prior state of the segment
— `BBusyState` set or clear (set = the leftover of a loader that died between taking the flag and its deferred
release; the flag lives in SysV memory and survives the process), any stale records — the cache afterwards holds the
records of `.BRD`, both orders are rebuilt from them, and the flag is released. -/
theorem reload_loads_whatever_the_flag (maxBoard : Nat) (s : LoadState) (file : List Board) :
    reloadBCache maxBoard s file = { busy := false, boards := file.take maxBoard, sorted := true } := rfl

/-- a `.BRD` of ANY length: the number of boards the lookups and sorts run over never exceeds MAX_BOARD (the size of
`BCache`/`BSorted`), the loaded records are the first MAX_BOARD of the file, and a file that fits is loaded whole. -/
theorem reload_clamps_to_table (maxBoard : Nat) (s : LoadState) (file : List Board) :
    (reloadBCache maxBoard s file).boards.length ≤ maxBoard ∧
      (reloadBCache maxBoard s file).boards = file.take maxBoard ∧
      (file.length ≤ maxBoard → (reloadBCache maxBoard s file).boards = file) := by
  refine ⟨by simp [reloadBCache]; omega, rfl, fun h => by simp [reloadBCache, List.take_of_length_le h]⟩

/-- without the clamp (seeded change C11-r7-2) 103 records give BNumber 103 over a 100-slot table. -/
theorem reload_unclamped_witness : ¬ ((List.replicate 103 (default : Board)).length ≤ 100) ∧
    (reloadBCache 100 ⟨false, [], false⟩ (List.replicate 103 default)).boards.length = 100 := by
  constructor
  · simp
  · simp [reloadBCache]

/-- the rule "still busy after the wait ⇒ give up" (seeded change C11-r6-1) leaves a restarted daemon without a
board table for ever: the flag is never released, nothing is loaded, nothing is sorted. -/
def reloadGiveUp (s : LoadState) (file : List Board) : LoadState := if s.busy then s else reloadBCache 100 s file

theorem reload_give_up_witness (file : List Board) :
    reloadGiveUp { busy := true, boards := [], sorted := false } file = { busy := true, boards := [], sorted := false } ∧
      ∀ k, (Nat.repeat (fun s => reloadGiveUp s file) k { busy := true, boards := [], sorted := false }).busy = true := by
  refine ⟨rfl, ?_⟩
  intro k
  induction k with
  | zero => rfl
  | succ k ih =>
    simp only [Nat.repeat]
    generalize Nat.repeat (fun s => reloadGiveUp s file) k { busy := true, boards := [], sorted := false } = x at ih ⊢
    unfold reloadGiveUp
    rw [if_pos ih]; exact ih

/-! ## the bisection terminates and lands -/

/-- getBidByNameCore / getBidByClassCore on ANY non-empty sorted view and ANY query: the unbounded `for` ends within
`n + 1` iterations (`Fault.diverge` unreachable), reads inside the table only, and returns either an entry equal to
the query or a landing position `p` with every entry before `p` below the query and every entry behind `p` above it
(the three-way step, the `idx == start` jump and the fix 8b5eb5b included). -/
theorem bisect_terminates_and_lands (cmp : Entry → M Int) (c : Entry → Int) (hc : ∀ e, cmp e = .ok (c e))
    (es : List Entry) (Mn : Mono c es) (hne : es ≠ []) : ∃ r, bisect cmp es = .ok r ∧ BPost c es r :=
  bisect_post cmp c hc es Mn hne

/-- the comparator of a name query is monotone along a by-name view … -/
theorem mono_name (q : List Nat) (es : List Entry) (S : SortedBy lexCmp nkey es) : Mono (cmpNameP q) es :=
  mono_of_sorted lexLaws nkey (low q) (cmpNameP q) es (fun e _ => cmpNameP_sign q e) S

/-- … and of a (class, name) query along a by-class view whose boards satisfy `ClassOK`. -/
theorem mono_class (cls q : List Nat) (es : List Entry) (S : SortedBy cmpC ckey es) (C : ∀ e ∈ es, ClassOK e) :
    Mono (cmpClassP cls q) es :=
  mono_of_sorted classLaws ckey (cstr cls, low q) (cmpClassP cls q) es (fun e he => cmpClassP_sign cls q e (C e he)) S

/-! ## (ii) GetBid -/

/-- GetBid on any by-name view, any query, in any letter case: the bid of SOME board whose name equals the query up
to case, or 0 when there is none.  (A vacated slot has the empty name: `GetBid("")` may return one.) -/
theorem getBid_eq_scan (es : List Entry) (q : List Nat) (S : SortedBy lexCmp nkey es) :
    ∃ b, getBid es q = .ok b ∧
      ((b = 0 ∧ ∀ e ∈ es, nkey e ≠ low q) ∨ (∃ e ∈ es, b = e.bid + 1 ∧ nkey e = low q)) := by
  have Mn := mono_name q es S
  have hz : ∀ e, cmpNameP q e = 0 ↔ nkey e = low q := fun e => by
    rw [(cmpNameP_sign q e).2.1, lexCmp_eq_iff]; exact eq_comm
  by_cases hne : es = []
  · subst hne; exact ⟨0, rfl, Or.inl ⟨rfl, by simp⟩⟩
  · obtain ⟨r, hr, hp⟩ := bisect_post (cmpName q) (cmpNameP q) (cmpName_eq q) es Mn hne
    unfold getBid
    rw [hr]
    cases r with
    | empty => exact absurd hp (by simp [BPost])
    | hit i b =>
      obtain ⟨hi, h0, hb⟩ := hp
      exact ⟨b + 1, rfl, Or.inr ⟨es[i], List.getElem_mem hi, by rw [hb], (hz _).mp h0⟩⟩
    | miss p =>
      obtain ⟨hpl, h0, hB, hA⟩ := hp
      refine ⟨0, rfl, Or.inl ⟨rfl, ?_⟩⟩
      intro e he hk
      obtain ⟨k, hk', rfl⟩ := List.getElem_of_mem he
      have hzero := (hz _).mpr hk
      rcases Nat.lt_trichotomy k p with h | h | h
      · have := hB k hk' h; omega
      · subst h; exact h0 hzero
      · have := hA k hk' h; omega

/-- the sorted view of a board table: `BSorted[k]` is a permutation of the slots. -/
def IsView (boards : List Board) (es : List Entry) : Prop :=
  ∃ perm : List Nat, perm.Perm (List.range boards.length) ∧ es = perm.map (fun i => ⟨i, boards.getD i default⟩)

theorem mem_view {boards : List Board} {es : List Entry} (h : IsView boards es) (e : Entry) :
    e ∈ es ↔ ∃ i, ∃ hi : i < boards.length, e = ⟨i, boards[i]⟩ := by
  obtain ⟨perm, hp, rfl⟩ := h
  simp only [List.mem_map]
  constructor
  · rintro ⟨i, hi, rfl⟩
    have : i < boards.length := List.mem_range.mp (hp.mem_iff.mp hi)
    exact ⟨i, this, by simp [List.getD_eq_getElem?_getD, this]⟩
  · rintro ⟨i, hi, rfl⟩
    exact ⟨i, hp.mem_iff.mpr (List.mem_range.mpr hi), by simp [List.getD_eq_getElem?_getD, hi]⟩

/-- (ii) in terms of the board TABLE (slot order, vacated slots included): `GetBid q` is 0 and no slot carries the
name, or it is the 1-based number of a slot whose name equals `q` up to case. -/
theorem getBid_table (boards : List Board) (es : List Entry) (V : IsView boards es) (q : List Nat)
    (S : SortedBy lexCmp nkey es) :
    ∃ b, getBid es q = .ok b ∧
      ((b = 0 ∧ ∀ brd ∈ boards, low brd.name ≠ low q) ∨
        (∃ i, ∃ hi : i < boards.length, b = i + 1 ∧ low boards[i].name = low q)) := by
  obtain ⟨b, hb, h⟩ := getBid_eq_scan es q S
  refine ⟨b, hb, ?_⟩
  rcases h with ⟨rfl, hno⟩ | ⟨e, he, rfl, hk⟩
  · left
    refine ⟨rfl, ?_⟩
    intro brd hbrd
    obtain ⟨i, hi, rfl⟩ := List.getElem_of_mem hbrd
    exact hno ⟨i, boards[i]⟩ ((mem_view V _).mpr ⟨i, hi, rfl⟩)
  · right
    obtain ⟨i, hi, rfl⟩ := (mem_view V e).mp he
    exact ⟨i, hi, rfl, hk⟩

/-- with pairwise distinct names the board is unique: two slots answering to `q` are the same slot. -/
theorem getBid_unique (es : List Entry) (q : List Nat) (D : DistinctNames es) (hq : low q ≠ [])
    (i j : Nat) (hi : i < es.length) (hj : j < es.length) (h1 : nkey es[i] = low q) (h2 : nkey es[j] = low q) : i = j := by
  have U := unique0_of_distinct q es D hq
  apply U i j hi hj
  · rw [(cmpNameP_sign q _).2.1, lexCmp_eq_iff]; exact h1.symm
  · rw [(cmpNameP_sign q _).2.1, lexCmp_eq_iff]; exact h2.symm

/-! ## (iii) FindBoardIdxByName / FindBoardIdxByClass -/

/-- what the scans mean. -/
theorem scanFirst_means (P : Entry → Bool) (es : List Entry) :
    (scanFirst P es 0 = -1 ∧ ∀ e ∈ es, P e = false) ∨
      (∃ d, ∃ h : d < es.length, scanFirst P es 0 = Int.ofNat d ∧ P es[d] = true ∧
        ∀ k (hk : k < d), P (es[k]'(by omega)) = false) := by
  have := scanFirst_spec P es 0
  simpa using this

theorem scanLast_means (P : Entry → Bool) (es : List Entry) :
    (scanLast P es = -1 ∧ ∀ e ∈ es, P e = false) ∨
      (∃ p, ∃ hp : p < es.length, scanLast P es = Int.ofNat p ∧ P es[p] = true ∧
        ∀ k (hk : k < es.length), p < k → P es[k] = false) := scanLast_spec P es

/-- FindBoardIdxByName, every by-name view, every query (present, absent, below the first, above the last, the empty
name), both directions, WITHOUT assuming distinct names: never faults; the answer is the 1-based position of an
entry equal to the query, or — when no entry equals it — the least position above it (asc) / the greatest position
below it (desc), or -1. -/
theorem findIdx_name_post (maxBoard : Nat) (es : List Entry) (q : List Nat) (S : SortedBy lexCmp nkey es)
    (hv : ∀ e ∈ es, e.bid + 1 ≤ maxBoard) (isAsc : Bool) :
    ∃ r, findIdx maxBoard (cmpName q) es isAsc = .ok r ∧
      ((∃ i, ∃ h : i < es.length, r = Int.ofNat i + 1 ∧ cmpNameP q es[i] = 0) ∨
        ((∀ e ∈ es, cmpNameP q e ≠ 0) ∧
          r = if nearest (cmpNameP q) es isAsc = -1 then -1 else nearest (cmpNameP q) es isAsc + 1)) :=
  findIdx_post maxBoard (cmpName q) (cmpNameP q) (cmpName_eq q) es (mono_name q es S) hv isAsc

/-- with distinct names: FindBoardIdxByName = the linear scan `specFind` (the entry itself if present, else the
nearest entry in the requested direction, else -1). -/
theorem findIdx_eq_scan_name (maxBoard : Nat) (es : List Entry) (q : List Nat) (S : SortedBy lexCmp nkey es)
    (hv : ∀ e ∈ es, e.bid + 1 ≤ maxBoard) (D : DistinctNames es) (hq : low q ≠ []) (isAsc : Bool) :
    findIdx maxBoard (cmpName q) es isAsc = .ok (specFind (cmpNameP q) es isAsc) :=
  findIdx_eq_specFind maxBoard (cmpName q) (cmpNameP q) (cmpName_eq q) es (mono_name q es S) hv
    (unique0_of_distinct q es D hq) isAsc

/-- FindBoardIdxByClass, same statement for the (class, name) order. -/
theorem findIdx_class_post (maxBoard : Nat) (es : List Entry) (cls q : List Nat) (S : SortedBy cmpC ckey es)
    (C : ∀ e ∈ es, ClassOK e) (hv : ∀ e ∈ es, e.bid + 1 ≤ maxBoard) (isAsc : Bool) :
    ∃ r, findIdx maxBoard (cmpClass cls q) es isAsc = .ok r ∧
      ((∃ i, ∃ h : i < es.length, r = Int.ofNat i + 1 ∧ cmpClassP cls q es[i] = 0) ∨
        ((∀ e ∈ es, cmpClassP cls q e ≠ 0) ∧
          r = if nearest (cmpClassP cls q) es isAsc = -1 then -1 else nearest (cmpClassP cls q) es isAsc + 1)) :=
  findIdx_post maxBoard (cmpClass cls q) (cmpClassP cls q) (cmpClass_eq cls q) es (mono_class cls q es S C) hv isAsc

theorem findIdx_eq_scan_class (maxBoard : Nat) (es : List Entry) (cls q : List Nat) (S : SortedBy cmpC ckey es)
    (C : ∀ e ∈ es, ClassOK e) (hv : ∀ e ∈ es, e.bid + 1 ≤ maxBoard) (D : DistinctNames es) (hq : low q ≠ [])
    (isAsc : Bool) :
    findIdx maxBoard (cmpClass cls q) es isAsc = .ok (specFind (cmpClassP cls q) es isAsc) := by
  apply findIdx_eq_specFind maxBoard (cmpClass cls q) (cmpClassP cls q) (cmpClass_eq cls q) es (mono_class cls q es S C) hv
  apply unique0_of_key _ _ (low q) hq _ D
  intro e he h0
  have := (classLaws.eq_iff _ _).mp ((cmpClassP_sign cls q e (C e he)).2.1.mp h0)
  have h2 : (cstr cls, low q).2 = (ckey e).2 := by rw [this]
  exact h2.symm

/-- the answer of a positional search is -1 or a position of the table. -/
theorem findIdx_in_range (c : Entry → Int) (es : List Entry) (isAsc : Bool) :
    specFind c es isAsc = -1 ∨ (1 ≤ specFind c es isAsc ∧ specFind c es isAsc ≤ Int.ofNat es.length) :=
  specFind_range c es isAsc

/-! ## (iv) FindBoardAutoCompleteStartIdx -/

/-- ascending: for every non-empty NUL-free keyword of at most IDLEN bytes, the first board (in by-name order) whose
name carries the keyword as a prefix up to case, else -1.  The ≤3-step probe always suffices (2 steps are used). -/
theorem autocomplete_eq_scan_asc (maxBoard nameLen : Nat) (es : List Entry) (kw : List Nat) (ok : KwOK nameLen kw)
    (hv : ∀ e ∈ es, e.bid + 1 ≤ maxBoard) (hn : NamesLen nameLen es) (S : SortedBy lexCmp nkey es)
    (D : DistinctNames es) : autoStart maxBoard nameLen es kw true = .ok (specAuto kw es true) :=
  autoStart_asc maxBoard nameLen es kw ok hv hn S D

/-- descending — THE HYPOTHESIS THE PROOF FORCES: the successor keyword `CcharTolower(last) + 1` is the least string
above everything carrying the prefix only when the last byte is neither `0xff` (uint8 wrap to NUL) nor `'@'`
(`'A'` folds to `'a'`, skipping `[ \ ] ^ _ \``); `'Z'` was a third exception before fix b555081.  Under `LastOK`
the last board carrying the prefix is found, for tables with arbitrary name bytes. -/
theorem autocomplete_eq_scan_desc (maxBoard nameLen : Nat) (es : List Entry) (kw0 : List Nat) (x : Nat)
    (ok : KwOK nameLen (kw0 ++ [x])) (hx : LastOK x)
    (hv : ∀ e ∈ es, e.bid + 1 ≤ maxBoard) (hn : NamesLen nameLen es) (S : SortedBy lexCmp nkey es)
    (D : DistinctNames es) : autoStart maxBoard nameLen es (kw0 ++ [x]) false = .ok (specAuto (kw0 ++ [x]) es false) :=
  autoStart_desc maxBoard nameLen es kw0 x ok hx hv hn S D

/-- descending, EVERY keyword byte (keywords are client input), over tables whose names contain neither `'@'` nor
`0xff` (all tables C12 can produce): a keyword ending in such a byte is carried by no board, and the probe loop
never answers with a board that does not carry the prefix. -/
theorem autocomplete_eq_scan_desc_all (maxBoard nameLen : Nat) (es : List Entry) (kw : List Nat) (ok : KwOK nameLen kw)
    (hb : ∀ x ∈ kw, x < 256)
    (hv : ∀ e ∈ es, e.bid + 1 ≤ maxBoard) (hn : NamesLen nameLen es) (S : SortedBy lexCmp nkey es)
    (D : DistinctNames es) (V : NoAtFF es) : autoStart maxBoard nameLen es kw false = .ok (specAuto kw es false) :=
  autoStart_desc_all maxBoard nameLen es kw ok hb hv hn S D V

/-- names made of letters, digits, `_`, `-`, `.` (what C12 accepts) contain neither `'@'` nor `0xff`. -/
def ValidNames (es : List Entry) : Prop :=
  ∀ e ∈ es, ∀ b ∈ cstr e.b.name, (48 ≤ b ∧ b ≤ 57) ∨ (65 ≤ b ∧ b ≤ 90) ∨ (97 ≤ b ∧ b ≤ 122) ∨ b = 95 ∨ b = 45 ∨ b = 46

theorem noAtFF_of_valid (es : List Entry) (h : ValidNames es) : NoAtFF es := by
  intro e he b hb
  unfold nkey low at hb
  obtain ⟨a, ha, rfl⟩ := List.mem_map.mp hb
  have := h e he a ha
  unfold ccharTolower
  split <;> omega

/-- the empty keyword (fix b555081): every board carries it — position 1 ascending, the last position descending. -/
theorem autocomplete_empty (maxBoard nameLen : Nat) (es : List Entry) (hl : 1 ≤ nameLen) (isAsc : Bool) :
    autoStart maxBoard nameLen es [] isAsc = .ok (specAuto [] es isAsc) := autoStart_empty maxBoard nameLen es hl isAsc

/-- a keyword longer than IDLEN (fix b555081; before it the code panicked) is answered -1, which is what the scan
gives when every name is NUL-terminated inside its array. -/
theorem autocomplete_long (maxBoard nameLen : Nat) (es : List Entry) (kw : List Nat) (isAsc : Bool)
    (h0 : ∀ x ∈ kw, x ≠ 0) (h : nameLen ≤ kw.length) (ht : ∀ e ∈ es, (nkey e).length < nameLen) :
    autoStart maxBoard nameLen es kw isAsc = .ok (specAuto kw es isAsc) := by
  rw [autoStart_long maxBoard nameLen es kw isAsc h, specAuto_long nameLen es kw isAsc h0 h ht]

/-- no keyword makes FindBoardAutoCompleteStartIdx fault. -/
theorem autocomplete_never_faults (maxBoard nameLen : Nat) (es : List Entry) (kw : List Nat) (isAsc : Bool)
    (hv : ∀ e ∈ es, e.bid + 1 ≤ maxBoard) (hn : NamesLen nameLen es) (S : SortedBy lexCmp nkey es)
    (D : DistinctNames es) (V : NoAtFF es) (h0 : ∀ x ∈ kw, x ≠ 0) (hb : ∀ x ∈ kw, x < 256) (hl : 1 ≤ nameLen) :
    ∃ r, autoStart maxBoard nameLen es kw isAsc = .ok r := by
  by_cases hlong : nameLen ≤ kw.length
  · exact ⟨_, autoStart_long maxBoard nameLen es kw isAsc hlong⟩
  · by_cases hem : kw = []
    · subst hem; exact ⟨_, autoStart_empty maxBoard nameLen es hl isAsc⟩
    · have ok : KwOK nameLen kw := ⟨hem, h0, by omega⟩
      cases isAsc with
      | true => exact ⟨_, autoStart_asc maxBoard nameLen es kw ok hv hn S D⟩
      | false => exact ⟨_, autoStart_desc_all maxBoard nameLen es kw ok hb hv hn S D V⟩

/-! ## (v) paging a listing through its next-cursor -/

/-- cutting into pages loses, repeats and reorders nothing … -/
theorem pages_concat {α : Type} (n f : Nat) (l : List α) : (pagesOf n f l).flatten = l := pagesOf_flatten n f l

/-- … and every page but the last is full. -/
theorem pages_full {α : Type} (n : Nat) (hn : 1 ≤ n) (l : List α) :
    ∀ p ∈ (pagesOf n l.length l).dropLast, p.length = n := pagesOf_sizes n hn l.length l (Nat.le_refl _)

/-- bbs.LoadGeneralBoards by name, caller SYSOP, no filters, any page size `n ≥ 1`, both directions: following the
next-cursor from the first page ends (within `len + 2` requests) and returns exactly the listable boards (not
vacated, not group boards) of the view, each once, in sorted order (reverse order descending), in pages of `n`. -/
theorem listing_pagewalk_complete_name (t : Tbl) (hn : NamesLen t.nameLen t.byName)
    (hv : ∀ e ∈ t.byName, e.bid + 1 ≤ t.maxBoard) (S : SortedBy lexCmp nkey t.byName) (D : DistinctNames t.byName)
    (n : Nat) (h1 : 1 ≤ n) (isAsc : Bool) :
    walkGeneral t .name (n : Int) isAsc = .ok (pagesOf n (visible t.byName isAsc).length (visible t.byName isAsc)) :=
  walkGeneral_name t hn hv S D n h1 isAsc

/-- bbs.LoadGeneralBoards by class. -/
theorem listing_pagewalk_complete_class (t : Tbl) (H : ClassView t) (n : Nat) (h1 : 1 ≤ n) (isAsc : Bool) :
    walkGeneral t .cls (n : Int) isAsc = .ok (pagesOf n (visible t.byClass isAsc).length (visible t.byClass isAsc)) :=
  walkGeneral_class t H n h1 isAsc

/-- bbs.LoadAutoCompleteBoards: every listable board carrying the keyword, once, in order — for every NUL-free
keyword (empty, over-long, any last byte) over tables without `'@'`/`0xff` in names. -/
theorem listing_pagewalk_complete_auto (t : Tbl) (kw : List Nat) (h0 : ∀ x ∈ kw, x ≠ 0) (hb : ∀ x ∈ kw, x < 256)
    (hl : 1 ≤ t.nameLen) (hn : NamesLen t.nameLen t.byName) (ht : ∀ e ∈ t.byName, (nkey e).length < t.nameLen)
    (hv : ∀ e ∈ t.byName, e.bid + 1 ≤ t.maxBoard) (S : SortedBy lexCmp nkey t.byName) (D : DistinctNames t.byName)
    (V : NoAtFF t.byName) (n : Nat) (h1 : 1 ≤ n) (isAsc : Bool) :
    walkAuto t (n : Int) kw isAsc =
      .ok (pagesOf n (visibleAuto kw t.byName isAsc).length (visibleAuto kw t.byName isAsc)) := by
  apply walkAuto_eq t kw h0 hn hv S D n h1 isAsc
  by_cases hlong : t.nameLen ≤ kw.length
  · exact autocomplete_long t.maxBoard t.nameLen t.byName kw isAsc h0 hlong ht
  · by_cases hem : kw = []
    · subst hem; exact autoStart_empty t.maxBoard t.nameLen t.byName hl isAsc
    · have ok : KwOK t.nameLen kw := ⟨hem, h0, by omega⟩
      cases isAsc with
      | true => exact autoStart_asc t.maxBoard t.nameLen t.byName kw ok hv hn S D
      | false => exact autoStart_desc_all t.maxBoard t.nameLen t.byName kw ok hb hv hn S D V

/-! ### the cursor the bbs layer serialises resolves to its own entry; bbs.LoadGeneralBoardDetails -/

/-- by name: the cursor of the board at position `p` (its name as `NewBoardSummaryFromRaw` / `NewBoardDetailFromRaw`
serialise it) resolves to `p + 1` in both directions — for every non-vacated board, listable or not. -/
theorem cursor_resolves_name (t : Tbl) (hn : NamesLen t.nameLen t.byName)
    (hv : ∀ e ∈ t.byName, e.bid + 1 ≤ t.maxBoard) (S : SortedBy lexCmp nkey t.byName) (D : DistinctNames t.byName)
    (p : Nat) (hp : p < t.byName.length) (hne : nkey t.byName[p] ≠ []) (isAsc : Bool) :
    startOfCursor t .name (some (cursorOf t.byName[p])) isAsc = .ok (Int.ofNat p + 1) :=
  startOfCursor_name_self t hn hv S D p hp hne isAsc

/-- by class: the cursor carries the class column AS STORED — the C string of `Title[:4]`, blank padding included
(`"bb  "`), which is the key the table is sorted and searched by; it resolves to its own entry.  A cursor with the
padding stripped does not (`stripped_cursor_witness`). -/
theorem cursor_resolves_class (t : Tbl) (H : ClassView t) (p : Nat) (hp : p < t.byClass.length)
    (hne : nkey t.byClass[p] ≠ []) (isAsc : Bool) :
    startOfCursor t .cls (some (cursorOf t.byClass[p])) isAsc = .ok (Int.ofNat p + 1) :=
  startOfCursor_class_self t H p hp hne isAsc

/-- bbs.LoadGeneralBoardDetails by name (no group / permission filter; since fix 6f287ee vacated slots are skipped and
skipped entries do not count against the page): for EVERY view — vacated slots anywhere — paging through the
next-cursor returns every non-vacated slot once, in order, and ends. -/
theorem listing_pagewalk_complete_details_name (t : Tbl) (hn : NamesLen t.nameLen t.byName)
    (hv : ∀ e ∈ t.byName, e.bid + 1 ≤ t.maxBoard) (S : SortedBy lexCmp nkey t.byName) (D : DistinctNames t.byName)
    (n : Nat) (h1 : 1 ≤ n) (isAsc : Bool) :
    walkDetails t .name (n : Int) isAsc =
      .ok (pagesOf n (visibleDetails t.maxBoard t.byName isAsc).length (visibleDetails t.maxBoard t.byName isAsc)) :=
  walk_details t .name (fun p hp hne a => startOfCursor_name_self t hn hv S D p hp hne a) n h1 isAsc

/-- bbs.LoadGeneralBoardDetails by class, every view. -/
theorem listing_pagewalk_complete_details_class (t : Tbl) (H : ClassView t) (n : Nat) (h1 : 1 ≤ n) (isAsc : Bool) :
    walkDetails t .cls (n : Int) isAsc =
      .ok (pagesOf n (visibleDetails t.maxBoard t.byClass isAsc).length (visibleDetails t.maxBoard t.byClass isAsc)) :=
  walk_details t .cls (fun p hp hne a => startOfCursor_class_self t H p hp hne a) n h1 isAsc

/-- with valid bids, "kept by LoadGeneralBoardDetails" = "not a vacated slot". -/
theorem detailOK_iff (maxBoard : Nat) (e : Entry) (hv : e.bid + 1 ≤ maxBoard) :
    detailOK maxBoard e = (e.b.name.getD 0 0 != 0) := by
  simp [detailOK, validBid, hv]

/-! ### the class listings (slot order, paged by `next_bid`) -/

/-- bbs.LoadFullClassBoards: for every board table in slot order (`slots[i].bid = i`, at most MAX_BOARD slots) and
every page size `n ≥ 1`, following `next_bid` from bid 1 ends and returns every class (non-vacated group/symbolic
board) of the table exactly once, in slot order, in pages of `n` — in whichever slot the class sits. -/
theorem listing_pagewalk_complete_fullclass (maxBoard : Nat) (slots : List Entry)
    (hb : ∀ i (h : i < slots.length), slots[i].bid = i) (hlen : slots.length ≤ maxBoard) (hmb : 1 ≤ maxBoard)
    (n : Nat) (h1 : 1 ≤ n) :
    walkFullClass maxBoard slots (n : Int) = .ok (pagesOf n (slots.filter isClass).length (slots.filter isClass)) :=
  walkFullClass_eq maxBoard slots hb hlen hmb n h1

/-- in particular a class in the LAST slot of the table (where a newly created class lands) is returned. -/
theorem fullclass_returns_last_slot (maxBoard : Nat) (slots : List Entry) (e : Entry)
    (hb : ∀ i (h : i < (slots ++ [e]).length), (slots ++ [e])[i].bid = i) (hlen : (slots ++ [e]).length ≤ maxBoard)
    (hmb : 1 ≤ maxBoard) (he : isClass e = true) (n : Nat) (h1 : 1 ≤ n) :
    ∃ pages, walkFullClass maxBoard (slots ++ [e]) (n : Int) = .ok pages ∧ e ∈ pages.flatten := by
  refine ⟨_, walkFullClass_eq maxBoard (slots ++ [e]) hb hlen hmb n h1, ?_⟩
  rw [pagesOf_flatten]
  simp [he]

/-- an invalid start bid is refused. -/
theorem fullclass_invalid_bid (maxBoard : Nat) (slots : List Entry) (b n : Int)
    (h : ¬ (1 ≤ b ∧ b ≤ Int.ofNat maxBoard)) : loadFullClass maxBoard slots b n = .error .invalidBid := by
  unfold loadFullClass; rw [if_pos h]

/-- bbs.LoadClassBoards, first request after a (re)load (`FirstChild` zeroed by cache.SortBCache): whatever
`ChildCount` the record stored, the answer is every sub-class of the class — the non-vacated group boards whose
`Gid` is the class — once, in the order of the sorted view (by class for the root class 1).  No "at most
ChildCount + 5" hypothesis any more: cache.ResolveBoardGroup runs and (fix ebc3be0) stores the number of children. -/
theorem loadClassBoards_eq_scan (t : Tbl) (links : List (Nat × Nat)) (c : Int) (by_ : SortBy)
    (hv : 1 ≤ c ∧ c ≤ Int.ofNat t.maxBoard) (hi : (c - 1).toNat < links.length)
    (hlen : ∀ c' b b', (childrenOf t links c' b).length = (childrenOf t links c' b').length) :
    ∃ st', loadClassBoards t (ClsState.fresh links) c by_ = .ok (subclasses t links c (byOf c by_), st') := by
  obtain ⟨st', h, _⟩ := loadClassBoards_step t (ClsState.fresh links) c by_ hv hi hlen (clsInv_fresh t links)
  exact ⟨st', h⟩

/-- … and for EVERY history of requests on the table (any classes, any sort keys, repeated): each request answers the
full list of sub-classes — in particular a second identical request answers the same.  (`hlen`: the two sorted views
hold the same boards, so a class has as many children by name as by class.)
Where the `ChildCount + 5` bound of the chain walk still applies: only when the resolve is skipped, i.e. `FirstChild`
is set and `ChildCount ≠ 0`; the invariant `ClsInv` shows that on an unchanging table `ChildCount` is then the number
of children.  A stale state needs a write to the cache that neither re-sorts nor re-resolves — cache.ResetBoard
without cache.SortBCache (its only caller, ptt.addBoardRecord, sorts right after); see docs/asbuilt/C11.md. -/
theorem loadClassBoards_history (t : Tbl) (links : List (Nat × Nat)) (calls : List (Int × SortBy))
    (hv : ∀ cb ∈ calls, 1 ≤ cb.1 ∧ cb.1 ≤ Int.ofNat t.maxBoard ∧ (cb.1 - 1).toNat < links.length)
    (hlen : ∀ c' b b', (childrenOf t links c' b).length = (childrenOf t links c' b').length) :
    runCalls t (ClsState.fresh links) calls = .ok (calls.map fun cb => subclasses t links cb.1 (byOf cb.1 cb.2)) :=
  runCalls_eq t links (ClsState.fresh links) calls (fun _ => rfl) rfl hv hlen (clsInv_fresh t links)

/-- `hlen` holds when both views are permutations of the same slots. -/
theorem children_count_of_perm (t : Tbl) (links : List (Nat × Nat)) (h : t.byName.Perm t.byClass) :
    ∀ c' b b', (childrenOf t links c' b).length = (childrenOf t links c' b').length := by
  intro c' b b'
  have key : (childrenOf t links c' .name).length = (childrenOf t links c' .cls).length :=
    (h.filter _).length_eq
  cases b <;> cases b' <;> first | rfl | exact key | exact key.symm

/-- every board visited exactly once: the concatenation of the pages is the visible list (all three listings). -/
theorem pagewalk_visits_all_name (t : Tbl) (hn : NamesLen t.nameLen t.byName)
    (hv : ∀ e ∈ t.byName, e.bid + 1 ≤ t.maxBoard) (S : SortedBy lexCmp nkey t.byName) (D : DistinctNames t.byName)
    (n : Nat) (h1 : 1 ≤ n) (isAsc : Bool) :
    ∃ pages, walkGeneral t .name (n : Int) isAsc = .ok pages ∧ pages.flatten = visible t.byName isAsc :=
  ⟨_, walkGeneral_name t hn hv S D n h1 isAsc, pagesOf_flatten _ _ _⟩

/-! ## non-vacuity, and what happens outside the hypotheses (kernel evaluation of the model) -/

def nm (s : List Nat) : List Nat := copyInto 13 s
def brd (name : List Nat) (cls : List Nat) (c4 : Nat) : Board := ⟨nm name, cls ++ [c4, 161, 183, 120], false⟩

/-- boards `ab`, vacated, `a_`, `B` (class `aaaa`), by name: vacated, `a_`, `ab`, `B`. -/
def exBoards : List Board := [brd [97, 98] [97, 97, 97, 97] 32, ⟨nm [], [0, 0, 0, 0, 0, 0, 0, 0], false⟩,
  brd [97, 95] [97, 97, 97, 98] 32, brd [66] [97, 97, 97, 97] 32]
def exByName : List Entry := [⟨1, exBoards[1]⟩, ⟨2, exBoards[2]⟩, ⟨0, exBoards[0]⟩, ⟨3, exBoards[3]⟩]
def exByClass : List Entry := [⟨1, exBoards[1]⟩, ⟨0, exBoards[0]⟩, ⟨3, exBoards[3]⟩, ⟨2, exBoards[2]⟩]
def exTbl : Tbl := ⟨100, 13, exByName, exByClass⟩

example : IsView exBoards exByName := ⟨[1, 2, 0, 3], by decide, by decide⟩
example : SortedBy lexCmp nkey exByName := by unfold SortedBy exByName; decide
example : SortedBy cmpC ckey exByClass := by unfold SortedBy exByClass; decide
example : DistinctNames exByName := by unfold DistinctNames exByName; decide
example : NamesLen 13 exByName := by unfold NamesLen exByName; decide
example : ∀ e ∈ exByClass, ClassOK e := by unfold exByClass; decide
example : ValidNames exByName := by
  unfold ValidNames exByName; decide
example : KwOK 13 [97] ∧ LastOK 97 ∧ LastOK 90 ∧ ¬ LastOK 64 ∧ ¬ LastOK 255 := by
  refine ⟨⟨by decide, by decide, by decide⟩, ?_, ?_, ?_, ?_⟩ <;> unfold LastOK <;> decide
example : getBid exByName (nm [65, 66]) = .ok 1 := by rfl
example : getBid exByName (nm [98, 98]) = .ok 0 := by rfl
example : findIdx 100 (cmpName (nm [48])) exByName true = .ok 2 := by rfl
example : findIdx 100 (cmpName (nm [48])) exByName false = .ok 1 := by rfl
example : findIdx 100 (cmpName (nm [122])) exByName true = .ok (-1) := by rfl
example : autoStart 100 13 exByName [65] true = .ok 2 := by rfl
example : autoStart 100 13 exByName [65] false = .ok 3 := by rfl
example : (walkGeneral exTbl .name 1 true).map (·.map (·.map (·.bid))) = .ok [[2], [0], [3]] := by rfl
example : (walkGeneral exTbl .cls 2 false).map (·.map (·.map (·.bid))) = .ok [[2, 3], [0]] := by rfl
example : (walkAuto exTbl 1 [65] false).map (·.map (·.map (·.bid))) = .ok [[0], [2]] := by rfl

/-- the defect repaired by 8b5eb5b, now answered correctly: the key sorts before the first entry. -/
example : findIdx 100 (cmpName (nm [48])) [⟨0, brd [97] [97] 32⟩, ⟨1, brd [98] [97] 32⟩, ⟨2, brd [99] [97] 32⟩] true
    = .ok 1 := by rfl

/-- outside `DistinctNames`: boards `a`, `A`; the by-name page walk with page size 1 never ends (the cursor `A`
resolves to position 1 again). -/
theorem dupname_witness :
    walkGeneral ⟨100, 13, [⟨0, brd [97] [97] 32⟩, ⟨1, brd [65] [97] 32⟩], []⟩ .name 1 true = .error (.fault .diverge) := by
  rfl

/-- outside `ClassOK`: title byte 4 is `'Z'` on board `a`: the by-class search for the exact cursor of board `b`
answers position 1 (board `a`) although `b` is at position 2. -/
theorem class5_witness :
    findIdx 100 (cmpClass [97, 98, 99, 100] (nm [98]))
      [⟨0, brd [97] [97, 98, 99, 100] 90⟩, ⟨1, brd [98] [97, 98, 99, 100] 32⟩] true = .ok 1 := by rfl

/-- outside `LastOK`/`NoAtFF`: names with `'@'`: the descending search for `x@` misses board `x@a` (three boards
between it and the successor keyword `xA` exhaust the probe). -/
theorem lastAt_witness :
    autoStart 100 13 [⟨0, brd [120, 64, 97] [97] 32⟩, ⟨1, brd [120, 95, 49] [97] 32⟩, ⟨2, brd [120, 95, 50] [97] 32⟩,
      ⟨3, brd [120, 95, 51] [97] 32⟩] [120, 64] false = .ok (-1) := by rfl

/-- boards `a`, `b`, both of the blank-padded class `"bb  "` (a class shorter than 4 bytes): page boundaries inside
the class are crossed correctly … -/
def padTbl : Tbl :=
  let v : List Entry := [⟨0, brd [97] [98, 98, 32, 32] 32⟩, ⟨1, brd [98] [98, 98, 32, 32] 32⟩]
  ⟨100, 13, v, v⟩

example : ClassView padTbl := by
  refine ⟨?_, ?_, ?_, ?_, ?_, ?_⟩ <;> simp only [padTbl] <;> first | decide | (unfold SortedBy; decide) | (unfold DistinctNames; decide) | (unfold NamesLen; decide)
example : (walkGeneral padTbl .cls 1 true).map (·.map (·.map (·.bid))) = .ok [[0], [1]] := by rfl
example : (walkDetails padTbl .cls 1 false).map (·.map (·.map (·.bid))) = .ok [[1], [0]] := by rfl
example : startOfCursor padTbl .cls (some (cursorOf ⟨1, brd [98] [98, 98, 32, 32] 32⟩)) true = .ok 2 := by rfl

/-- … but only because the cursor carries the class as stored: with the blank padding stripped (`"bb"`) the cursor of
board `b` is an absent key below its whole class and resolves to board `a` (ascending: the same page for ever). -/
theorem stripped_cursor_witness :
    startOfCursor padTbl .cls (some ⟨[98, 98], [98]⟩) true = .ok 1 ∧
      startOfCursor padTbl .cls (some ⟨[98, 98], [98]⟩) false = .ok (-1) := ⟨by rfl, by rfl⟩

/-- the loop of ptt.LoadGeneralBoardDetails BEFORE fix 6f287ee: no filter, and an entry skipped for an invalid bid
still counted against `nBoards + 1`. -/
def collectDOld (maxBoard : Nat) : List Entry → Nat → List Entry
  | [], _ => []
  | _ :: _, 0 => []
  | e :: rest, cap + 1 =>
    if validBid maxBoard e then e :: collectDOld maxBoard rest cap else collectDOld maxBoard rest cap

def walkDetailsOld (t : Tbl) (by_ : SortBy) (nBoards : Int) (isAsc : Bool) : R (List (List Entry)) :=
  walkFrom (fun c => do
      let startIdx ← startOfCursor t by_ c isAsc
      if startIdx < 0 then pure ⟨[], none⟩
      else liftM (pttLoadG (collectDOld t.maxBoard) (t.view by_) startIdx nBoards isAsc))
    by_ (walkFuel (t.view by_).length) none

def vacTbl : Tbl :=
  let v : List Entry := [⟨0, ⟨nm [], [0, 0, 0, 0, 0, 0, 0, 0], false⟩⟩, ⟨1, ⟨nm [], [0, 0, 0, 0, 0, 0, 0, 0], false⟩⟩,
    ⟨2, brd [97] [97, 97, 97, 97] 32⟩, ⟨3, brd [98] [97, 97, 97, 97] 32⟩]
  ⟨100, 13, v, v⟩

/-- the defect repaired by 6f287ee (found by this check): two vacated slots, by name, page size 1: under the OLD rule
the look-ahead was a vacated slot, whose name serialises to the empty cursor = "no next page": the walk ended after the
first slot and boards `a`, `b` were never returned; by class all vacated slots share one key and the walk never
ended.  Keys `walk:details-name+vacated`, `walk:details-class+vacated`. -/
theorem details_vacated_witness :
    (walkDetailsOld vacTbl .name 1 true).map (·.map (·.map (·.bid))) = .ok [[0]] ∧
      walkDetailsOld ⟨100, 13, [], [⟨0, ⟨nm [], [0, 0, 0, 0, 0, 0, 0, 0], false⟩⟩, ⟨1, ⟨nm [], [0, 0, 0, 0, 0, 0, 0, 0], false⟩⟩,
        ⟨2, ⟨nm [], [0, 0, 0, 0, 0, 0, 0, 0], false⟩⟩]⟩ .cls 1 true = .error (.fault .diverge) := ⟨by rfl, by rfl⟩

/-- … and the repaired code on the same table. -/
example : (walkDetails vacTbl .name 1 true).map (·.map (·.map (·.bid))) = .ok [[2], [3]] := by rfl
example : (walkDetails vacTbl .cls 1 false).map (·.map (·.map (·.bid))) = .ok [[3], [2]] := by rfl

/-- the class listing on a table whose only (= last) slot is a class, and what a loop that stops one slot early
(seeded change C11-r4-1: the 1-based bid compared with the slot count) would return. -/
def oneClass : List Entry := [⟨0, ⟨nm [99, 97], [97, 97, 97, 97, 32, 161, 183, 120], true⟩⟩]
example : (walkFullClass 100 oneClass 1).map (·.map (·.map (·.bid))) = .ok [[0]] := by rfl
theorem fullclass_off_by_one_witness :
    (walkFullClass 100 oneClass.dropLast 1).map (·.map (·.map (·.bid))) = .ok [[]] := by rfl
example : loadFullClass 100 oneClass 0 1 = .error .invalidBid := by rfl
example : loadFullClass 100 oneClass 101 1 = .error .invalidBid := by rfl

/-- LoadClassBoards: class 2 with six sub-classes and stored `ChildCount` 0. -/
def sixSubs : List Entry :=
  (List.range 8).map fun i => ⟨i, ⟨nm [115, 48 + i], [97, 97, 97, 97, 32, 161, 183, 120], true⟩⟩
def sixLinks : List (Nat × Nat) := [(0, 0), (1, 0), (2, 0), (2, 0), (2, 0), (2, 0), (2, 0), (2, 0)]
def sixTbl : Tbl := ⟨100, 13, sixSubs, sixSubs⟩

/-- the walk of the chain BEFORE fix ebc3be0 (ResolveBoardGroup did not store the count: the bound was the stored
`ChildCount + 5`): only five of the six sub-classes were listed.  Key `list:children+cap`. -/
theorem children_cap_witness :
    (gather (fun _ => false) isClass (childrenOf sixTbl sixLinks 2 .name) (0 + 5)).map (·.bid) = [2, 3, 4, 5, 6] := by rfl

/-- the repaired code lists all six, and again on the second request. -/
example : (runCalls sixTbl (ClsState.fresh sixLinks) [(2, .name), (2, .name), (2, .cls)]).map (·.map (·.map (·.bid))) =
    .ok [[2, 3, 4, 5, 6, 7], [2, 3, 4, 5, 6, 7], [2, 3, 4, 5, 6, 7]] := by rfl

end PttVerif.C11.Props
