import PttVerif.Proofs.C19
/-
C19 — Favourites survive save/load unchanged; a crash never leaves a torn file.
Property theorems only (definitions of `wfFav`, `serFav`, `renumFav`, `keepValid`, `canon`, `ApiInv` and the
helper lemmas live in Proofs/C19.lean; the model of the Go code in Model/C19.lean).

Vocabulary.  `wfFav f`: at every level the three stored counters equal the numbers of board / line / folder
entries, these fit the header fields (`< 128` lines, `< 128` folders, `< 32768` entries), board ids and
last-visit stamps fit 32 bits, titles have `BTLEN+1` bytes.  `serFav f`: the `.fav` grammar below the version
word (header, entries, then each folder's record depth first).  `renumFav`: lines and folders numbered 1..k
per level.  `keepValid`: the entries carrying the FAV bit, in order, counters recounted.  `canon = renumFav ∘
keepValidFav`.
-/
namespace PttVerif.C19.Props
open PttVerif PttVerif.C19

/-! #### the data regenerated from the source (kernel-checked on every run) -/

/-- version word, type codes and the FAV bit are the pttbbs values the model's format is written for. -/
theorem format_constants :
    Gen.Fav.FAV_VERSION = 3363 ∧ Gen.Fav.FAVT_BOARD = 1 ∧ Gen.Fav.FAVT_FOLDER = 2 ∧ Gen.Fav.FAVT_LINE = 3
      ∧ Gen.Fav.FAVH_FAV = 1 := by decide

/-- a board payload is `int32, int32, int8` (9 bytes) inside a 12-byte C struct, a line payload one byte, of a
folder `Fid` and the 49-byte title are transferred; the header is `int16, int8, int8`. -/
theorem entry_layout :
    Gen.Fav.favBoardFields = [4, 4, 1] ∧ Gen.Fav.SIZE_OF_FAV_BOARD = 12
      ∧ Gen.Fav.favBoardFields.sum ≤ Gen.Fav.SIZE_OF_FAV_BOARD
      ∧ Gen.Fav.favLineFields = [1] ∧ Gen.Fav.SIZE_OF_FAV_LINE = 1
      ∧ Gen.Fav.favFolderFields = [1, 49] ∧ Gen.Fav.headerFieldWidths = [2, 1, 1] := by decide

/-- `WriteFavrec` and `ReadFavrec` transfer the three counters in the same order, the order of the format. -/
theorem header_order :
    Gen.Fav.writeHeader = ["NBoards", "NLines", "NFolders"] ∧ Gen.Fav.readHeader = Gen.Fav.writeHeader := by
  decide

/-- the API limits keep every level inside the header fields. -/
theorem limits_fit_header :
    Gen.Fav.MAX_LINE < 128 ∧ Gen.Fav.MAX_FOLDER < 128 ∧ Gen.Fav.MAX_FAV < 32768
      ∧ Gen.Fav.MAX_BOARD < 4294967296 := by decide

/-- both savers write the file they later rename over `.fav`, and its name is built with a call of the
random-suffix function `types.GetRandom` (read off the source of `ptt.WriteFavorites` and `FavRaw.Save`):
the hypothesis "temporary names pairwise distinct" of `concurrent_saves_atomic`, up to the collision
probability of a random 128-bit suffix. -/
theorem tmp_names_random :
    Gen.Fav.writeFavoritesTmpRandom = true ∧ Gen.Fav.writeFavoritesWritesTmp = true
      ∧ Gen.Fav.saveTmpRandom = true ∧ Gen.Fav.saveWritesTmp = true := by decide

/-! #### (ii) the bytes follow the `.fav` grammar -/

/-- `WriteFavrec` of a well-formed tree is the grammar: header, the entries, the folders' records depth first. -/
theorem write_is_grammar (f : Fav) (h : wfFav f = true) : writeFavrec f = .ok (serFav f) :=
  writeFavrec_eq f h

/-- the file `Save` produces: version word 3363 (little endian), then the grammar of the cleaned tree. -/
theorem serialize_grammar (f : Fav) (h : wfFav f = true) :
    ∃ g, cleanup f = .ok g ∧ wfFav g = true ∧ saveBytes f = .ok ([35, 13] ++ serFav g) := by
  obtain ⟨g, hc, hg, _⟩ := cleanup_spec f h
  exact ⟨g, hc, hg, by simp [saveBytes, hc, writeFavrec_eq g hg, le16, bind, Except.bind, pure, Except.pure]⟩

/-- the shape of a level: 4 header bytes (`int16` boards, `int8` lines, `int8` folders), the entries, the
sub-folders. -/
theorem grammar_level (f : Fav) :
    serFav f = [f.nB % 256, f.nB / 256 % 256, f.nL, f.nF] ++ encEntries f.items ++ serSubs f.items := by
  simp [serFav, hdr, le16]

/-- sub-folders are written depth first: a folder's whole record precedes the record of the next folder. -/
theorem grammar_depth_first (a fid : Nat) (t : List Nat) (nB nL nF : Nat) (sub rest : List Item) :
    serSubs (.folder a fid t nB nL nF sub :: rest) = serFav ⟨nB, nL, nF, sub⟩ ++ serSubs rest := by
  simp [serSubs, serFav]

/-- entry sizes: type byte + attr byte + payload; a board payload is padded to 12 bytes (14 in all), a line is
3 bytes, a folder 2 + 1 + 49. -/
theorem entry_sizes (it : Item) (h : rtOK it = true) :
    (encEntry it).length = if it.isBoard then 14 else if it.isLine then 3 else 52 :=
  encEntry_length it h

/-- a board entry, byte for byte: type 1, attr, bid and last visit little endian, board attr, three pad bytes. -/
theorem board_entry (a bid lv ba : Nat) :
    encEntry (.board a bid lv ba) =
      [1, a, bid % 256, bid / 256 % 256, bid / 65536 % 256, bid / 16777216 % 256,
       lv % 256, lv / 256 % 256, lv / 65536 % 256, lv / 16777216 % 256, ba, 0, 0, 0] := by
  simp [encEntry, le32, List.replicate]

/-- total size of the serialisation: 4 bytes per level, 14 per board, 3 per line, 52 per folder. -/
theorem serialize_length (f : Fav) (h : wfFav f = true) :
    (serFav f).length = 4 * (1 + deepF f.items) + 14 * deepB f.items + 3 * deepL f.items + 52 * deepF f.items := by
  simp [wfFav] at h
  have h1 := serSubs_length f.items h.2
  have h2 := encEntries_length f.items (rtOK_of_wf f.items h.2)
  simp [serFav, hdr, le16, h2]
  omega

/-- every element of the serialisation is a byte. -/
theorem serialize_bytes (f : Fav) (h : wfFav f = true) (hb : bytesOK f.items = true) :
    ∀ b ∈ serFav f, b < 256 := by
  intro b hmem
  simp [wfFav] at h
  obtain ⟨⟨⟨⟨_, hL⟩, hF⟩, hfit⟩, hw⟩ := h
  obtain ⟨_, kl, kf, _⟩ := fits_bounds hfit
  simp only [serFav, List.mem_append] at hmem
  rcases hmem with (hm | hm) | hm
  · simp [hdr, le16] at hm; omega
  · exact encEntries_bytes _ hb b hm
  · exact serSubs_bytes _ hb hw b hm

/-! #### (i) save then load -/

/-- loading what `WriteFavrec` wrote returns the same entries in the same order with the same counters;
lines and folders are renumbered 1..k. (All trees whose counts fit the header fields; any attr bytes.) -/
theorem parse_serialize (f : Fav) (h : wfFav f = true) :
    ∃ b, writeFavrec f = .ok b ∧ load (le16 VERSION ++ b) = .ok (some (renumFav f)) := by
  refine ⟨serFav f, writeFavrec_eq f h, ?_⟩
  simpa [le16] using load_ser f (VERSION % 256) (VERSION / 256 % 256) h

/-- `Save` (cleanup, write) then `Load`: exactly the entries carrying the FAV bit, in order, renumbered, with
recounted counters. -/
theorem save_then_load (f : Fav) (h : wfFav f = true) :
    ∃ bytes, saveBytes f = .ok bytes ∧ load bytes = .ok (some (canon f)) :=
  save_load f h

/-- when every entry carries the FAV bit nothing is dropped: the loaded tree is the saved one, renumbered. -/
theorem save_then_load_all_valid (f : Fav) (h : wfFav f = true) (hv : allValid f.items = true) :
    ∃ bytes, saveBytes f = .ok bytes ∧ load bytes = .ok (some (renumFav f)) := by
  obtain ⟨bytes, hs, hl⟩ := save_load f h
  refine ⟨bytes, hs, ?_⟩
  have hk : canon f = renumFav f := by
    obtain ⟨nB, nL, nF, items⟩ := f
    simp [wfFav] at h
    simp [canon, keepValidFav, renumFav,
      keepValid_of_noRebuild items h.2 (noRebuild_of_allValid items hv), h.1.1.1.1, h.1.1.1.2, h.1.1.2]
  rw [← hk]; exact hl

/-- the counters of the loaded tree are consistent at every level and fit their fields. -/
theorem counters_consistent (f : Fav) (h : wfFav f = true) :
    wfFav (canon f) = true
      ∧ (canon f).nB = cntB (canon f).items ∧ (canon f).nL = cntL (canon f).items
      ∧ (canon f).nF = cntF (canon f).items := by
  have hw := wfFav_canon f h
  refine ⟨hw, ?_⟩
  simp [wfFav] at hw
  exact ⟨hw.1.1.1.1, hw.1.1.1.2, hw.1.1.2⟩

/-- `FavNum` as `ReadFavrec` computes it is the number of entries of the subtree. -/
theorem favNum_consistent (items : List Item) (h : totalCount items < 65536) : favNum items = totalCount items := by
  have := favSum_eq items h
  simp [favNum, this]
  omega

/-! #### (iii) arbitrary bytes -/

/-- for ALL byte strings `Load` returns a tree or an error: no panic, no unbounded recursion. -/
theorem parse_total (bs : List Nat) : ∃ r, load bs = .ok r := load_total bs

/-- the guard of fix 1e8ac82: a negative count (here `NLines = -1`) is an error, not a `make` panic. -/
example : load [35, 13, 0, 0, 255, 0] = .ok none := by
  simp [load, readFavrec, dec16, total16, sext8, neg16, neg8, bind, Except.bind, pure, Except.pure]

/-! #### (iv) a crash during a save -/

/-- after ANY prefix of `create tmp; write tmp c₁; …; write tmp cₙ; rename tmp .fav` the file `.fav` holds the
old content or the complete new content — for all old directory states, all contents, all chunkings. -/
theorem save_atomic (fs : FS) (tmp : String) (hne : tmp ≠ FAVFILE) (chunks : List (List Nat)) (k : Nat) :
    run fs ((atomicSteps tmp chunks).take k) FAVFILE = fs FAVFILE
      ∨ run fs ((atomicSteps tmp chunks).take k) FAVFILE = some chunks.flatten :=
  atomic_prefix fs tmp hne chunks k

/-- the uninterrupted sequence installs the new content. -/
theorem save_complete (fs : FS) (tmp : String) (hne : tmp ≠ FAVFILE) (chunks : List (List Nat)) :
    run fs (atomicSteps tmp chunks) FAVFILE = some chunks.flatten := by
  have h := atomic_prefix fs tmp hne chunks ((atomicSteps tmp chunks).length + 1)
  rw [List.take_of_length_le (by omega)] at h
  rcases h with h | h
  · -- the full sequence ends with the rename: compute it
    have hsteps : atomicSteps tmp chunks = (.create tmp :: chunks.map (Step.write tmp)) ++ [.rename tmp FAVFILE] := by
      simp [atomicSteps]
    have hc : run fs (.create tmp :: chunks.map (Step.write tmp)) tmp = some chunks.flatten := by
      have h0 : applyStep fs (.create tmp) tmp = some [] := by simp [applyStep, FS.set]
      simpa [run] using run_writes tmp chunks _ [] h0
    rw [hsteps, run_append]
    generalize run fs (.create tmp :: chunks.map (Step.write tmp)) = fs1 at hc
    simp [run, applyStep, hc, FS.set, Ne.symm hne]
  · exact h

/-- `FavRaw.Save`: whatever the tree, however the content is cut into `write` calls. -/
theorem favSave_atomic (f : Fav) (bytes : List Nat) (_ : saveBytes f = .ok bytes) (chunks : List (List Nat))
    (hc : chunks.flatten = bytes) (fs : FS) (tmp : String) (hne : tmp ≠ FAVFILE) (k : Nat) :
    run fs ((atomicSteps tmp chunks).take k) FAVFILE = fs FAVFILE
      ∨ run fs ((atomicSteps tmp chunks).take k) FAVFILE = some bytes := by
  rw [← hc]; exact atomic_prefix fs tmp hne chunks k

/-- `ptt.WriteFavorites` (after fix 6502117): one `write` of the content. -/
theorem writeFavorites_atomic (content : List Nat) (fs : FS) (tmp : String) (hne : tmp ≠ FAVFILE) (k : Nat) :
    run fs ((atomicSteps tmp [content]).take k) FAVFILE = fs FAVFILE
      ∨ run fs ((atomicSteps tmp [content]).take k) FAVFILE = some content := by
  simpa using atomic_prefix fs tmp hne [content] k

/-- writing `.fav` in place (`os.WriteFile`, what `WriteFavorites` did before the fix) is NOT atomic: killed
after the truncating open, the file is empty. -/
theorem direct_overwrite_not_atomic :
    ∃ (fs : FS) (chunks : List (List Nat)) (k : Nat),
      run fs ((directSteps chunks).take k) FAVFILE ≠ fs FAVFILE
        ∧ run fs ((directSteps chunks).take k) FAVFILE ≠ some chunks.flatten := by
  refine ⟨fun n => if n = FAVFILE then some [1] else none, [[2, 3]], 1, ?_, ?_⟩ <;>
    simp [directSteps, run, applyStep, FS.set]

/-- nothing is written unless the file is absent or older than the tree in memory. -/
theorem save_writes_iff (m : Option Nat) (t : Nat) :
    checkIsToSave m t = .write ↔ (m = none ∨ ∃ x, m = some x ∧ x < t) := by
  cases m with
  | none => simp [checkIsToSave]
  | some x =>
    simp only [checkIsToSave]
    by_cases h1 : x < t
    · simp [h1]
    · by_cases h2 : x = t <;> simp [h1, h2]

/-! #### overlapping saves -/

/-- a directory in which `.fav` and the temporary names are not hard links of one another. -/
def WorldOK (tmp : Nat → String) (w : World) : Prop :=
  (∀ a b x, InS tmp a → InS tmp b → w.names a = some x → w.names b = some x → a = b)
    ∧ (∀ a x, InS tmp a → w.names a = some x → x < w.next)

/-- any number of savers, each running `open(tmp i, O_CREAT|O_TRUNC); write…; rename(tmp i, .fav)` on inodes
and descriptors, interleaved in ANY order (`sched`, so every prefix of every interleaving is covered): if the
temporary names are pairwise distinct and differ from `.fav`, then `.fav` always holds the old content or the
complete content of one saver; once any saver has finished, it holds the complete content of one of them. -/
theorem concurrent_saves_atomic (tmp : Nat → String) (chunks : Nat → List (List Nat))
    (htmp : ∀ i j, tmp i = tmp j → i = j) (hne : ∀ i, tmp i ≠ FAVFILE)
    (w0 : World) (hw : WorldOK tmp w0) (sched : List Nat) :
    ((concRun tmp chunks (concInit w0) sched).w.read FAVFILE = w0.read FAVFILE
        ∨ ∃ i, (concRun tmp chunks (concInit w0) sched).w.read FAVFILE = some (chunks i).flatten)
      ∧ ((∃ i, (concRun tmp chunks (concInit w0) sched).st i = .done) →
          ∃ j, (concRun tmp chunks (concInit w0) sched).w.read FAVFILE = some (chunks j).flatten) := by
  have h0 : CInv tmp chunks (w0.read FAVFILE) (concInit w0) :=
    ⟨hw.1, hw.2, by intro i ino off rest h; simp [concInit] at h, Or.inl rfl,
     by intro ⟨i, h⟩; simp [concInit] at h⟩
  have h := concRun_inv tmp chunks (w0.read FAVFILE) htmp hne sched _ h0
  exact ⟨h.fav, h.fin⟩

def sharedTmp : Nat → String := fun _ => ".fav.tmp"
def tearChunks : Nat → List (List Nat) := fun i => if i = 0 then [[1, 2, 3]] else [[9]]
def tearWorld : World := ⟨fun n => if n = FAVFILE then some 0 else none, fun _ => [7], 1⟩
/-- A opens, B opens (truncating the same inode), A writes, A renames, B writes — into the live `.fav` —, B's
rename finds nothing. -/
def tearSched : List Nat := [0, 1, 0, 0, 1, 1]

/-- with ONE temporary name shared by the savers (everything else as above) there is an interleaving after
which both savers have finished and `.fav` is a mixture: the head of B's image over the tail of A's. -/
theorem shared_tmp_name_tears :
    (∀ i, sharedTmp i ≠ FAVFILE) ∧ WorldOK sharedTmp tearWorld
      ∧ (concRun sharedTmp tearChunks (concInit tearWorld) tearSched).w.read FAVFILE = some [9, 2, 3]
      ∧ some [9, 2, 3] ≠ tearWorld.read FAVFILE
      ∧ (∀ i, some [9, 2, 3] ≠ some (tearChunks i).flatten)
      ∧ (concRun sharedTmp tearChunks (concInit tearWorld) tearSched).st 0 = .done
      ∧ (concRun sharedTmp tearChunks (concInit tearWorld) tearSched).st 1 = .done := by
  refine ⟨fun i => by show ".fav.tmp" ≠ ".fav"; decide, ⟨?_, ?_⟩, ?_, by decide, ?_, by decide, by decide⟩
  · intro a b x ha hb hxa hxb
    simp only [tearWorld] at hxa hxb
    by_cases ea : a = FAVFILE <;> by_cases eb : b = FAVFILE <;> simp [ea, eb] at hxa hxb
    rw [ea, eb]
  · intro a x _ hxa
    simp only [tearWorld] at hxa ⊢
    by_cases ea : a = FAVFILE <;> simp [ea] at hxa
    omega
  · decide
  · intro i
    by_cases h : i = 0 <;> simp [tearChunks, h]

/-- distinct temporary names exist, and so do directories satisfying `WorldOK` with a `.fav` in them. -/
def tmpX (i : Nat) : String := ".fav.tmp." ++ String.ofList (List.replicate i 'x')

theorem tmpX_len (i : Nat) : (tmpX i).length = 9 + i := by
  simp [tmpX, String.length_append]
  decide

example : (∀ i j, tmpX i = tmpX j → i = j) ∧ (∀ i, tmpX i ≠ FAVFILE) ∧ WorldOK tmpX tearWorld
    ∧ tearWorld.read FAVFILE = some [7] := by
  have hne : ∀ i, tmpX i ≠ FAVFILE := by
    intro i h
    have := congrArg String.length h
    have e : FAVFILE.length = 4 := by decide
    rw [tmpX_len, e] at this
    omega
  refine ⟨?_, hne, ⟨?_, ?_⟩, by decide⟩
  · intro i j h
    have := congrArg String.length h
    simp [tmpX_len] at this; exact this
  · intro a b x _ _ hxa hxb
    simp only [tearWorld] at hxa hxb
    by_cases ea : a = FAVFILE <;> by_cases eb : b = FAVFILE <;> simp [ea, eb] at hxa hxb
    rw [ea, eb]
  · intro a x _ hxa
    simp only [tearWorld] at hxa ⊢
    by_cases ea : a = FAVFILE <;> simp [ea] at hxa
    omega


/-! #### a write error in the middle of a save -/

/-- `types.BinaryWrite` hands the error of `binary.Write` to its caller (read off the source). -/
theorem binary_write_reports_errors : Gen.Fav.binaryWriteReturnsError = true := by decide

/-- whatever write fails, after however many bytes, and wherever the process is killed afterwards: `.fav`
keeps the old content (the faulted save touches only its temporary file and never renames). -/
theorem save_write_error_keeps_old (fs : FS) (tmp : String) (hne : tmp ≠ FAVFILE) (chunks : List (List Nat))
    (i p k : Nat) : run fs ((faultedSteps tmp chunks i p).take k) FAVFILE = fs FAVFILE := by
  apply run_other tmp FAVFILE (Ne.symm hne)
  intro s hs
  have hs := List.mem_of_mem_take hs
  simp only [faultedSteps, List.mem_cons, List.mem_append, List.mem_map, List.not_mem_nil, or_false] at hs
  rcases hs with rfl | ⟨c, _, rfl⟩ | rfl <;> simp [onlyFile]

/-- the save reports an error iff the new version did not land: a faulted save returns an error and leaves
the old file, an unfaulted one returns success and leaves the complete new file. -/
theorem save_error_iff_not_landed (fs : FS) (tmp : String) (hne : tmp ≠ FAVFILE) (chunks : List (List Nat))
    (fault : Option (Nat × Nat)) :
    ((saveUnderFault tmp chunks fault).2 = .err ∧ run fs (saveUnderFault tmp chunks fault).1 FAVFILE = fs FAVFILE)
      ∨ ((saveUnderFault tmp chunks fault).2 = .ok
          ∧ run fs (saveUnderFault tmp chunks fault).1 FAVFILE = some chunks.flatten) := by
  cases fault with
  | none => exact Or.inr ⟨rfl, save_complete fs tmp hne chunks⟩
  | some ip =>
    obtain ⟨i, p⟩ := ip
    refine Or.inl ⟨rfl, ?_⟩
    have := save_write_error_keeps_old fs tmp hne chunks i p ((faultedSteps tmp chunks i p).length)
    rw [List.take_length] at this
    exact this

/-- a saver that does not notice the failed write renames a torn file over `.fav`: neither old nor new. -/
theorem swallowed_write_error_tears :
    ∃ (fs : FS) (tmp : String) (chunks : List (List Nat)) (i p : Nat), tmp ≠ FAVFILE
      ∧ run fs (swallowingSteps tmp chunks i p) FAVFILE ≠ fs FAVFILE
      ∧ run fs (swallowingSteps tmp chunks i p) FAVFILE ≠ some chunks.flatten := by
  refine ⟨fun n => if n = FAVFILE then some [7] else none, ".fav.tmp", [[1, 2], [3, 4]], 1, 1, by decide, ?_, ?_⟩ <;>
    simp [swallowingSteps, faultedSteps, run, applyStep, FS.set, FAVFILE]

/-! #### the byte-level pair WriteFavorites / GetFavorites -/

/-- no legal tree (well-formed, at most `MAX_FAV` entries in all) serialises to more than
`2 + 4 + MAX_FAV·(52+4) = 57350` bytes … -/
theorem max_fav_file_size (f : Fav) (h : wfFav f = true) (ht : totalCount f.items ≤ MAX_FAV) :
    (le16 VERSION ++ serFav f).length ≤ MAX_FILE := by
  have h1 := serFav_length f h
  have h2 := deep_total f.items
  simp [MAX_FAV_eq] at ht
  simp [le16, h1, MAX_FILE_eq]
  omega

/-- … and that size is reached (1024 nested folders): a reader limited to fewer bytes loses data. -/
theorem max_fav_file_size_attained :
    wfFav (chainFav 1024) = true ∧ totalCount (chainFav 1024).items = MAX_FAV
      ∧ (le16 VERSION ++ serFav (chainFav 1024)).length = MAX_FILE := by
  refine ⟨chainFav_wf 1024, ?_, ?_⟩
  · simp [chainFav, (chain_facts 1024).2.2.2.2.2.1]
  · simp [le16, chainFav_length, MAX_FILE_eq]

/-- the reader of `GetFavorites` as it is in the source reads at least a largest legal file. -/
theorem read_limit_covers_format : limitOK = true := by decide

/-- `GetFavorites` hands back exactly what is stored — for every content up to the largest legal file —
whenever the caller's copy is older than the file. -/
theorem get_returns_stored (c : List Nat) (hc : c.length ≤ MAX_FILE) (m ts : Nat) (hm : ts < m) :
    getFavorites (some (c, m)) ts = (some c, m) := by
  have h0 : m ≠ 0 := by omega
  have h1 : ¬ m ≤ ts := by omega
  simp [getFavorites, h0, h1, readAllLimited_id c read_limit_covers_format hc]

/-- `WriteFavorites` then `GetFavorites`: after the complete step sequence the stored bytes come back. -/
theorem write_then_get (fs : FS) (tmp : String) (hne : tmp ≠ FAVFILE) (c : List Nat) (hc : c.length ≤ MAX_FILE)
    (m ts : Nat) (hm : ts < m) :
    ∃ stored, run fs (atomicSteps tmp [c]) FAVFILE = some stored
      ∧ getFavorites (some (stored, m)) ts = (some c, m) := by
  refine ⟨c, by simpa using save_complete fs tmp hne [c], get_returns_stored c hc m ts hm⟩

/-- not modified since `retrieveTS`: no content, the file's mtime; no file: `(nil, 0)`. -/
theorem get_not_modified (c : List Nat) (m ts : Nat) (h0 : m ≠ 0) (hm : m ≤ ts) :
    getFavorites (some (c, m)) ts = (none, m) ∧ getFavorites none ts = (none, 0) := by
  simp [getFavorites, h0, hm]

/-- save through the tree API, fetch through `GetFavorites`, load: the saved entries — for EVERY tree within
the API limits, up to the largest. -/
theorem save_get_load (f : Fav) (h : wfFav f = true) (ht : totalCount f.items ≤ MAX_FAV) (m ts : Nat) (hm : ts < m) :
    ∃ bytes, saveBytes f = .ok bytes ∧ getFavorites (some (bytes, m)) ts = (some bytes, m)
      ∧ load bytes = .ok (some (canon f)) := by
  obtain ⟨g, hc, hg, hr⟩ := cleanup_spec f h
  have hs : saveBytes f = .ok (le16 VERSION ++ serFav g) := by
    simp [saveBytes, hc, writeFavrec_eq g hg, bind, Except.bind, pure, Except.pure]
  obtain ⟨b, hb, hl⟩ := save_load f h
  rw [hs] at hb
  cases hb
  refine ⟨_, hs, get_returns_stored _ ?_ m ts hm, hl⟩
  -- the cleaned tree has no more entries than the original
  have hcnt : totalCount g.items ≤ totalCount f.items := by
    by_cases hn : needRebuild f.items = true
    · have : g = canon f := by
        have := rebuildFav_eq f h
        simp [cleanup, hn, this] at hc
        exact hc.symm
      subst this
      simp [canon, renumFav, keepValidFav, totalCount_renum]
      exact totalCount_keepValid f.items
    · have : g = f := by simp [cleanup, hn] at hc; exact hc.symm
      subst this; exact Nat.le_refl _
  exact max_fav_file_size g hg (by omega)

/-- a reader capped at "every entry is a 14-byte board" (`2 + 4 + MAX_FAV·14 = 14342` bytes) truncates a
legal file. -/
theorem board_only_cap_truncates :
    ∃ f, wfFav f = true ∧ totalCount f.items ≤ MAX_FAV
      ∧ readAllLimited (some (2 + 4 + MAX_FAV * 14)) (le16 VERSION ++ serFav f) ≠ le16 VERSION ++ serFav f := by
  refine ⟨chainFav 1024, chainFav_wf 1024, by simp [chainFav, (chain_facts 1024).2.2.2.2.2.1], ?_⟩
  intro h
  have := congrArg List.length h
  simp [readAllLimited, le16, chainFav_length] at this


/-! #### every tree the API can build is covered -/

/-- the trees reachable from `NewFavRaw(nil)` by `AddBoard`/`AddLine`/`AddFolder` on any folder of the tree. -/
inductive Reachable : Fav → Prop
  | empty : Reachable emptyFav
  | add {f g : Fav} (k : AddKind) (path : List Nat) : Reachable f → apiAdd k path f = .added g → Reachable g

theorem reachable_inv {f : Fav} (h : Reachable f) : ApiInv f ∧ totalCount f.items ≤ MAX_FAV := by
  induction h with
  | empty => exact ⟨apiInv_empty, by simp [emptyFav, totalCount]⟩
  | @add f g k path _ hadd ih =>
    by_cases hfull : MAX_FAV ≤ totalCount f.items
    · -- a full tree refuses every add
      simp only [apiAdd, hfull, decide_true] at hadd
      exact (addAt_full k path f g hadd).elim
    · simp only [apiAdd, hfull, decide_false] at hadd
      have := addAt_inv false k path f g ih.1 (by intro _; omega) hadd
      exact ⟨this.1, by rw [this.2]; omega⟩

/-- every API-built tree satisfies the count-fit predicate of the round-trip theorems. -/
theorem reachable_fits {f : Fav} (h : Reachable f) : wfFav f = true := (reachable_inv h).1.1

/-- … and respects the limits of the API. -/
theorem reachable_limits {f : Fav} (h : Reachable f) :
    totalCount f.items ≤ MAX_FAV ∧ cntL f.items < 128 ∧ cntF f.items < 128 := by
  obtain ⟨⟨hw, _, _⟩, ht⟩ := reachable_inv h
  simp [wfFav] at hw
  obtain ⟨_, kl, kf, _⟩ := fits_bounds hw.1.2
  exact ⟨ht, kl, kf⟩

/-- save then load is the identity on every tree built through the API. -/
theorem api_roundtrip {f : Fav} (h : Reachable f) :
    ∃ bytes, saveBytes f = .ok bytes ∧ load bytes = .ok (some f) := by
  obtain ⟨hinv, _⟩ := reachable_inv h
  obtain ⟨bytes, hs, hl⟩ := save_load f hinv.1
  rw [canon_of_apiInv f hinv] at hl
  exact ⟨bytes, hs, hl⟩

/-- the per-folder quotas keep EVERY counter of EVERY folder (at any depth) of every API-built tree inside
its header field: the stored counters are the counts, lines and folders stay below 128 (`int8`), entries
below 32768 (`int16`). -/
theorem reachable_every_folder_within_int8 {f : Fav} (h : Reachable f) (path : List Nat) (g : Fav)
    (hg : levelAt path f = some g) :
    g.nB = cntB g.items ∧ g.nL = cntL g.items ∧ g.nF = cntF g.items
      ∧ g.nL < 128 ∧ g.nF < 128 ∧ g.nB < 32768 := by
  have hw := wf_levelAt path f g (reachable_fits h) hg
  simp [wfFav] at hw
  obtain ⟨⟨⟨⟨hB, hL⟩, hF⟩, hfit⟩, _⟩ := hw
  obtain ⟨kb, kl, kf, _⟩ := fits_bounds hfit
  exact ⟨hB, hL, hF, by omega, by omega, by omega⟩

/-- the quota is the RECEIVING folder's: with 64 lines in a nested folder the add is refused there even
though the root has none, and a root with 64 lines does not stop a nested folder from taking one. -/
example :
    (∀ g, addAt false .line [0] ⟨0, 0, 1, [.folder 1 1 [] 0 64 0 []]⟩ ≠ .added g)
      ∧ (∃ g, addAt false .line [0] ⟨0, 64, 1, [.folder 1 1 [] 0 0 0 []]⟩ = .added g) := by
  constructor
  · intro g hadd
    simp [addAt, addHere, neg8] at hadd
  · exact ⟨_, by simp [addAt, addHere, neg8]; rfl⟩


/-! #### non-vacuity -/

/-- a three-level tree with an entry lacking the FAV bit. -/
def sample : Fav :=
  ⟨1, 1, 1, [.board 1 7 0 0, .line 0 9,
    .folder 3 5 (List.replicate 49 65) 1 0 1 [.board 1 8 99 2, .folder 1 1 (List.replicate 49 0) 0 1 0 [.line 1 1]]]⟩

example : wfFav sample = true := by
  simp [sample, wfFav, wfItems, rtOK, fitsLevel, Item.isBoard, Item.isLine, Item.isFolder]
example : needRebuild sample.items = true := by
  simp [sample, needRebuild, Item.attr, isValidAttr]
example : (canon sample).items.length = 2 := by
  simp [sample, canon, renumFav, keepValidFav, keepValid, renumFrom_length, isValidAttr]

/-- three adds through the API: a folder, a board inside it, a line beside it. -/
example : ∃ f, Reachable f ∧ totalCount f.items = 3 := by
  refine ⟨⟨0, 1, 1, [.folder 1 1 (List.replicate 49 0) 1 0 0 [.board 1 5 0 0], .line 1 1]⟩, ?_, by simp [totalCount]⟩
  have h1 : Reachable ⟨0, 0, 1, [.folder 1 1 (List.replicate 49 0) 0 0 0 []]⟩ :=
    .add .folder [] .empty (by simp [apiAdd, addAt, addHere, emptyFav, totalCount, neg8])
  have h2 : Reachable ⟨0, 0, 1, [.folder 1 1 (List.replicate 49 0) 1 0 0 [.board 1 5 0 0]]⟩ :=
    .add (.board 5) [0] h1 (by
      have : (5 : Nat) ≤ MAX_BOARD := by decide
      simp [apiAdd, addAt, addHere, totalCount, hasBoard, this])
  exact .add .line [] h2 (by simp [apiAdd, addAt, addHere, totalCount, neg8])

end PttVerif.C19.Props
