/-
C08 — Posting, commenting, editing and cross-posting obey one authorisation rule set.

Spec  : `Spec/C08.lean`      the rule set `rules`, written from the property statement
Model : `Model/C08.lean`     the hand-modelled decisions + the interpreter of the regenerated bodies
Gen   : `Gen/WriteGuards.lean` the bodies of DoPostArticle / Recommend / EditPost / CrossPost as event lists,
                             the flood-limit table, masks, bits, reserved names (regenerated from /repo on every run)

FULL STATEMENT (kept visible; it is FALSE of the code in exactly three (operation, clause) cells, see below):

    theorem write_accepted_implies_rules (op : Op) (x : Row) : accepted op x → Spec.rulesFor op x

  refuted by `recommend_accepts_unverified`, `editpost_accepts_unverified`, `editpost_accepts_cooling_down`
  (known findings missing:recommend:verified, missing:editpost:verified, missing:editpost:cooldown — they mirror
  upstream pttbbs and are recorded, not repaired).  Proved instead:
    * `newpost_implies_rules`, `crosspost_implies_rules`      the statement at full strength for these two operations
    * `write_accepted_implies_rules_partial`                  every operation implies its own clause set `enforcedFor`
    * `rules_iff_enforced_and_missing`                        `enforcedFor` differs from `rulesFor` in exactly those cells
  "every permission refusal leaves the board index, the article files and the user's counters unchanged":
    * `guards_before_effects_<op>` (source shape) and `refused_untouched` (no refusal of the model happens after a
      persistent effect); that the effects are the only writers is C05's `step_frame` / `history_frame`.
-/
import PttVerif.Proofs.C08
set_option linter.unusedSimpArgs false
namespace PttVerif.C08
open PttVerif

/-! ### what the translator read, against what the model and the specification assume -/

/-- the regenerated bits are those of pttbbs perm.h / pttstruct.h. -/
theorem source_constants :
    PERM_BASIC = Spec.PERM_BASIC ∧ PERM_POST = Spec.PERM_POST ∧ PERM_LOGINOK = Spec.PERM_LOGINOK ∧ PERM_BM = Spec.PERM_BM ∧
    PERM_SYSOP = Spec.PERM_SYSOP ∧ PERM_VIOLATELAW = Spec.PERM_VIOLATELAW ∧ PERM_POLICE_MAN = Spec.PERM_POLICE_MAN ∧
    PERM_POLICE = Spec.PERM_POLICE ∧ BRD_HIDE = Spec.BRD_HIDE ∧ BRD_POSTMASK = Spec.BRD_POSTMASK ∧
    BRD_RESTRICTEDPOST = Spec.BRD_RESTRICTEDPOST ∧ BRD_GUESTPOST = Spec.BRD_GUESTPOST ∧ BRD_COOLDOWN = Spec.BRD_COOLDOWN ∧
    BRD_OVER18 = Spec.BRD_OVER18 := consts_eq

/-- NewPost only delegates to DoPostArticle, CheckPostPerm2 is postpermMsg, and the configuration the model
mirrors (new ban system, flood rejection, cool-down) is the default one. -/
theorem source_wrappers :
    Gen.WriteGuards.newPostDelegates = true ∧ Gen.WriteGuards.checkPostPerm2IsPostpermMsg = true ∧
    Gen.WriteGuards.USE_NEW_BAN_SYSTEM = true ∧ Gen.WriteGuards.REJECT_FLOOD_POST = true ∧
    Gen.WriteGuards.USE_COOLDOWN = true := by decide

/-- the `limit` array of checkCooldown lists the pttbbs flood table, and the masks split the word 28/4. -/
theorem source_flood_table :
    Gen.WriteGuards.cooldownLimit = flattenPairs Spec.floodLimits ∧
    Gen.WriteGuards.cooldownTimeMask = 0x7FFFFFF0 ∧ Gen.WriteGuards.checkCooldownMask = 0x7FFFFFF0 ∧
    Gen.WriteGuards.posttimesMask = 0xF := by decide

/-! ### each Go decision is its declarative clause, for all inputs -/

/-- boardPermStat ≠ NBRD_INVALID exactly when the user may read the board. -/
theorem read_eq_spec (u : User) (b : Board) : boardPermStat u b ≠ 0 ↔ Spec.mayRead u b := by
  obtain ⟨h1, h2, h3, h4, h5, h6, h7, h8, h9, h10, h11, h12, h13, h14⟩ := consts_eq
  unfold boardPermStat boardPermStatNormally Spec.mayRead
  rw [← isBMCache_iff]
  unfold Spec.sysop Spec.police Spec.hidden Spec.postMask Spec.over18Board
  rw [← h4, ← h5, ← h7, ← h8, ← h9, ← h10, ← h14]
  simp only [← has_iff]
  have e1 : (b.attr &&& BRD_HIDE != 0) = has b.attr BRD_HIDE := rfl
  have e2 : (b.attr &&& BRD_POSTMASK != 0) = has b.attr BRD_POSTMASK := rfl
  have e3 : (b.attr &&& BRD_OVER18 != 0) = has b.attr BRD_OVER18 := rfl
  have e4 : ((b.attr &&& BRD_POSTMASK) == 0) = !has b.attr BRD_POSTMASK := by
    simp only [has, bne, Bool.not_not]
  rw [e1, e2, e3, e4]
  repeat' split
  all_goals first | (simp_all; done) | (simp_all; grind)


/-- bannedMsg (ban file + clock) exactly when a ban with a future expiry exists. -/
theorem banned_eq_spec (b : Board) (now : Nat) : bannedMsg b now = true ↔ Spec.banned b now := by
  unfold bannedMsg isBannedBy isBannedByRec Board.banRec Spec.banned
  cases hbr : b.banBroken
  · cases hb : b.ban with
    | none => simp
    | some e =>
      simp only [Option.some.injEq, exists_eq_left', Bool.false_eq_true, if_false, true_and]
      split <;> simp <;> omega
  · simp

theorem readonly_eq_spec (b : Board) : isReadonlyBoard b.name = true ↔ Spec.readOnly b := by
  have e1 : Gen.WriteGuards.bnSecurity = Spec.securityName := by decide
  have e2 : Gen.WriteGuards.bnAllpost = Spec.allpostName := by decide
  unfold isReadonlyBoard cstrCaseEq Spec.readOnly Spec.sameNameNoCase
  rw [e1, e2, lowerByte_eq]
  simp


theorem default_eq_spec (b : Board) : cstrEq b.name Gen.WriteGuards.defaultBoard = true ↔ Spec.defaultBoard b := by
  have e1 : cstr Gen.WriteGuards.defaultBoard = Spec.sysopName := by decide
  unfold cstrEq Spec.defaultBoard
  rw [e1]; simp


/-- postpermMsg returns nil exactly when the board is not read-only and the posting rules hold. -/
theorem postperm_eq_spec (u : User) (b : Board) (now : Nat) :
    postpermMsg u b now = none ↔ (¬ Spec.readOnly b ∧ Spec.postRules u b now) := by
  obtain ⟨h1, h2, h3, h4, h5, h6, h7, h8, h9, h10, h11, h12, h13, h14⟩ := consts_eq
  unfold postpermMsg Spec.postRules
  rw [← readonly_eq_spec, ← banned_eq_spec, ← default_eq_spec]
  unfold Spec.sysop Spec.guestPost Spec.hasPost Spec.hidden Spec.restrictedPost Spec.violateLaw Spec.boardAdmitsVL
    Spec.extraLevelOK Spec.extraLevel
  rw [← h2, ← h5, ← h6, ← h9, ← h11, ← h12]
  simp only [← has_iff]
  generalize has u.level PERM_SYSOP = sys
  generalize isReadonlyBoard b.name = ro
  generalize bannedMsg b now = bn
  generalize cstrEq b.name Gen.WriteGuards.defaultBoard = df
  generalize has b.attr BRD_GUESTPOST = gp
  generalize has u.level PERM_POST = po
  generalize has b.attr BRD_HIDE = hd
  generalize has b.attr BRD_RESTRICTEDPOST = rp
  generalize has u.level PERM_VIOLATELAW = vl
  generalize has b.level PERM_VIOLATELAW = bvl
  generalize b.friend = fr
  cases ro <;> cases sys <;> cases bn <;> cases df <;> cases gp <;> cases po <;> cases hd <;> simp
  cases rp <;> cases fr <;> cases vl <;> cases bvl <;> simp
  all_goals (by_cases hz : b.level &&& ~~~PERM_POST = 0 <;> simp [hz])


/-- getBoardRestrictionReason (uint8/uint32 arithmetic) returns NONE exactly when the limits clause holds. -/
theorem restriction_eq_spec (u : User) (b : Board) :
    getBoardRestrictionReason u b = 0 ↔ Spec.limitsOK u b := by
  obtain ⟨h1, h2, h3, h4, h5, h6, h7, h8, h9, h10, h11, h12, h13, h14⟩ := consts_eq
  unfold getBoardRestrictionReason Spec.limitsOK Spec.sysop
  rw [← isBMCache_iff, ← h5, ← has_iff, ← getRestrictionReason_eq]
  cases has u.level PERM_SYSOP <;> cases isBMCache u b <;> simp


/-- checkCooldown returns true exactly when the user is cooling down on the board. -/
theorem cooldown_eq_spec (u : User) (b : Board) (w : UInt32) (now : Nat) :
    checkCooldown u b w now = true ↔ Spec.coolingDown u b w now := by
  obtain ⟨h1, h2, h3, h4, h5, h6, h7, h8, h9, h10, h11, h12, h13, h14⟩ := consts_eq
  have m1 : Gen.WriteGuards.cooldownTimeMask.toUInt32 = 0x7FFFFFF0 := by decide
  have m2 : Gen.WriteGuards.posttimesMask.toUInt32 = 0xF := by decide
  have m3 : Gen.WriteGuards.REJECT_FLOOD_POST = true := rfl
  unfold checkCooldown checkCooldownW Spec.coolingDown Spec.sysop Spec.cooldownBoard cooldownTimeOf posttimesOf
    Spec.cdTime Spec.postTimes
  rw [m1, m2, m3, limit_table, ← h5, ← h13]
  simp only [← has_iff]
  have e1 : (b.attr &&& BRD_COOLDOWN != 0) = has b.attr BRD_COOLDOWN := rfl
  rw [e1]
  generalize (w &&& 0x7FFFFFF0).toNat = t
  generalize w &&& 0xF = q
  have e2 : (q == 0xf) = true ↔ q.toNat = 15 := by
    rw [beq_iff_eq, ← UInt32.toNat_inj]; rfl
  by_cases c1 : t < now
  · simp only [c1, if_true]; simp; omega
  · simp only [c1, if_false]
    have c1' : now ≤ t := by omega
    cases hs : has u.level PERM_SYSOP
    · cases hc : has b.attr BRD_COOLDOWN
      · by_cases c4 : (q == 0xf) = true
        · have := e2.mp c4
          simp [c4, c1', this]
        · have n4 : ¬ q.toNat = 15 := mt e2.mpr c4
          simp only [Bool.not_eq_true] at c4
          simp only [c4, Bool.true_and, c1', true_and, n4, false_or, Bool.false_eq_true, if_false, not_false_eq_true]
          rw [← limitHit_flatten]
          cases limitHit b.nuser (q.toNat : Int) (flattenPairs Spec.floodLimits) <;> simp
      · simp [c1']
    · simp

/-- isFileOwner is "the article's author". -/
theorem owner_eq_spec (u : User) (a : Article) : isFileOwner a u = true ↔ Spec.isAuthor u a := by
  unfold isFileOwner Spec.isAuthor cstrEq
  by_cases h1 : cstr a.entOwner = cstr u.id
  · by_cases h2 : (cstr a.entName).length ≤ 3
    · have : ¬ 3 < (cstr a.entName).length := by omega
      simp [h1, h2, this]
    · have : 3 < (cstr a.entName).length := by omega
      simp [h1, h2, this]
  · simp [h1]

/-! ### exactly which clauses each operation enforces (derived from the regenerated bodies) -/

/-- NewPost is accepted exactly when the whole rule set holds. -/
theorem accepted_iff_newpost (x : Row) : accepted .newpost x ↔ Spec.rules x.u x.src x.cd x.now := by
  rw [accepted_newpost_model, read_eq_spec, postperm_eq_spec, restriction_eq_spec, has_iff, source_constants.2.2.1]
  unfold Spec.rules Spec.verified
  rw [← cooldown_eq_spec]
  cases checkCooldown x.u x.src x.cd x.now <;> simp
  all_goals grind

/-- Recommend: read, read-only, posting rules, limits, cool-down — NOT "verified"; then the content refusals
(empty index, entry not found, no-recommend board, link entry, marked∧solved). -/
theorem accepted_iff_recommend (x : Row) :
    accepted .recommend x ↔
      (Spec.mayRead x.u x.src ∧ (¬ Spec.readOnly x.src ∧ Spec.postRules x.u x.src x.now) ∧ Spec.limitsOK x.u x.src ∧
        ¬ Spec.coolingDown x.u x.src x.cd x.now) ∧
      (x.art.total0 = false ∧ x.art.found = true ∧ has x.src.attr BRD_NORECOMMEND = false ∧
        firstIs x.art.entName 76 = false ∧
        ¬ (has x.art.entMode.toUInt32 FILE_MARKED = true ∧ has x.art.entMode.toUInt32 FILE_SOLVED = true)) := by
  rw [accepted_recommend_model, read_eq_spec, postperm_eq_spec, restriction_eq_spec, ← cooldown_eq_spec]
  cases checkCooldown x.u x.src x.cd x.now <;> cases has x.art.entMode.toUInt32 FILE_MARKED <;>
    cases has x.art.entMode.toUInt32 FILE_SOLVED <;> simp <;> grind

/-- EditPost: read, read-only, posting rules, limits, author-or-sysop — NOT "verified", NOT "no cool-down"; plus
the content refusals (vote board, entry not found, vote entry, delete-marked entry) and PERM_BASIC. -/
theorem accepted_iff_editpost (x : Row) :
    accepted .editpost x ↔
      (Spec.mayRead x.u x.src ∧ (¬ Spec.readOnly x.src ∧ Spec.postRules x.u x.src x.now) ∧ Spec.limitsOK x.u x.src ∧
        (Spec.isAuthor x.u x.art ∨ Spec.sysop x.u)) ∧
      (has x.src.attr BRD_VOTEBOARD = false ∧ x.art.found = true ∧ has x.art.entMode.toUInt32 FILE_VOTE = false ∧
        firstIs x.art.entName 46 = false ∧ has x.u.level PERM_BASIC = true) := by
  rw [accepted_editpost_model, read_eq_spec, postperm_eq_spec, restriction_eq_spec, owner_eq_spec]
  have hs : has x.u.level PERM_SYSOP = true ↔ Spec.sysop x.u := by
    rw [has_iff, source_constants.2.2.2.2.1]; rfl
  rw [hs]
  have hr : isReadonlyBoard x.src.name = false ↔ ¬ Spec.readOnly x.src := by
    rw [← readonly_eq_spec]; simp
  rw [hr]
  grind

/-- CrossPost: the whole rule set on the TARGET board; on the source board read access, and under BRD_CPLOG the
posting rules and limits; never for a violate-law user; the content refusals. -/
theorem accepted_iff_crosspost (x : Row) :
    accepted .crosspost x ↔
      Spec.rules x.u x.tgt x.cd x.now ∧
      (Spec.mayRead x.u x.src ∧ ¬ Spec.violateLaw x.u ∧
        (has x.src.attr BRD_CPLOG = true →
          (¬ Spec.readOnly x.src ∧ Spec.postRules x.u x.src x.now) ∧ Spec.limitsOK x.u x.src)) ∧
      (has x.src.attr BRD_VOTEBOARD = false ∧ x.art.found = true ∧ firstIs x.art.entOwner 45 = false ∧
        x.art.fileExists = true) := by
  rw [accepted_crosspost_model, read_eq_spec, read_eq_spec, postperm_eq_spec, postperm_eq_spec, restriction_eq_spec,
    restriction_eq_spec]
  have hv : has x.u.level PERM_LOGINOK = true ↔ Spec.verified x.u := by
    rw [has_iff, source_constants.2.2.1]; rfl
  have hl : has x.u.level PERM_VIOLATELAW = false ↔ ¬ Spec.violateLaw x.u := by
    have : has x.u.level PERM_VIOLATELAW = true ↔ Spec.violateLaw x.u := by
      rw [has_iff, source_constants.2.2.2.2.2.1]; rfl
    rw [← this]; simp
  have hc : checkCooldown x.u x.tgt x.cd x.now = false ↔ ¬ Spec.coolingDown x.u x.tgt x.cd x.now := by
    rw [← cooldown_eq_spec]; simp
  rw [hv, hl, hc]
  unfold Spec.rules
  grind

/-! ### the property -/

/-- the rule set with the clauses "verified" and "no cool-down" switchable. -/
def rulesWith (needVerified needCooldown : Bool) (u : User) (b : Board) (w : UInt32) (now : Nat) : Prop :=
  Spec.mayRead u b ∧ ¬ Spec.readOnly b ∧ Spec.postRules u b now ∧ Spec.limitsOK u b ∧
  (needVerified = true → Spec.verified u) ∧ (needCooldown = true → ¬ Spec.coolingDown u b w now)

/-- the clause set each operation enforces. -/
def enforcedFor (op : Op) (x : Row) : Prop :=
  match op with
  | .newpost => rulesWith true true x.u x.src x.cd x.now
  | .recommend => rulesWith false true x.u x.src x.cd x.now
  | .editpost => rulesWith false false x.u x.src x.cd x.now ∧ (Spec.isAuthor x.u x.art ∨ Spec.sysop x.u)
  | .crosspost => rulesWith true true x.u x.tgt x.cd x.now

/-- the (operation, clause) cells `enforcedFor` leaves out. -/
def missingFor (op : Op) (x : Row) : Prop :=
  match op with
  | .newpost => True
  | .recommend => Spec.verified x.u
  | .editpost => Spec.verified x.u ∧ ¬ Spec.coolingDown x.u x.src x.cd x.now
  | .crosspost => True

/-- `enforcedFor` is the rule set minus exactly: (recommend, verified), (editpost, verified), (editpost, cool-down). -/
theorem rules_iff_enforced_and_missing (op : Op) (x : Row) :
    Spec.rulesFor op x ↔ enforcedFor op x ∧ missingFor op x := by
  cases op <;> simp only [Spec.rulesFor, enforcedFor, missingFor, rulesWith, Spec.rules] <;> grind

/-- every accepted write satisfies the clause set of its operation. -/
theorem write_accepted_implies_rules_partial (op : Op) (x : Row) : accepted op x → enforcedFor op x := by
  cases op
  · rw [accepted_iff_newpost]; simp only [enforcedFor, rulesWith, Spec.rules]; grind
  · rw [accepted_iff_recommend]; simp only [enforcedFor, rulesWith]; grind
  · rw [accepted_iff_editpost]; simp only [enforcedFor, rulesWith]; grind
  · rw [accepted_iff_crosspost]; simp only [enforcedFor, rulesWith, Spec.rules]; grind

/-- NewPost, full strength. -/
theorem newpost_implies_rules (x : Row) : accepted .newpost x → Spec.rulesFor .newpost x := by
  rw [accepted_iff_newpost]; exact id

/-- CrossPost, full strength (the rule set on the board written to). -/
theorem crosspost_implies_rules (x : Row) : accepted .crosspost x → Spec.rulesFor .crosspost x := by
  rw [accepted_iff_crosspost]; exact fun h => h.1

/-! ### the three recorded gaps: the negation of the full statement, with the witness rows
(`Model/C08.lean`; replayed on the real code on every run: ops `reset witness …`) -/

theorem witness_unverified_is_unverified : ¬ Spec.verified witnessUnverified.u := by
  unfold Spec.verified; decide

theorem witness_coolingdown_cools : Spec.coolingDown witnessCoolingDown.u witnessCoolingDown.src
    witnessCoolingDown.cd witnessCoolingDown.now := by
  rw [← cooldown_eq_spec]; decide

/-- known finding missing:recommend:verified. -/
theorem recommend_accepts_unverified : ∃ x, accepted .recommend x ∧ ¬ Spec.rulesFor .recommend x :=
  ⟨witnessUnverified, by decide, fun h => witness_unverified_is_unverified h.2.2.2.2.1⟩

/-- known finding missing:editpost:verified. -/
theorem editpost_accepts_unverified : ∃ x, accepted .editpost x ∧ ¬ Spec.rulesFor .editpost x :=
  ⟨witnessUnverified, by decide, fun h => witness_unverified_is_unverified h.1.2.2.2.2.1⟩

/-- known finding missing:editpost:cooldown. -/
theorem editpost_accepts_cooling_down : ∃ x, accepted .editpost x ∧ ¬ Spec.rulesFor .editpost x :=
  ⟨witnessCoolingDown, by decide, fun h => h.1.2.2.2.2.2 witness_coolingdown_cools⟩

/-- the same rows are refused by the two operations that do enforce the clause. -/
theorem witnesses_refused_elsewhere :
    ¬ accepted .newpost witnessUnverified ∧ ¬ accepted .crosspost witnessUnverified ∧
    ¬ accepted .newpost witnessCoolingDown ∧ ¬ accepted .recommend witnessCoolingDown ∧
    ¬ accepted .crosspost witnessCoolingDown := by decide

/-! ### refusals leave no trace -/

/-- in the body of DoPostArticle no refusal (other than a failing I/O call) follows the first persistent effect. -/
theorem guards_before_effects_newpost : guardsFirst Gen.WriteGuards.newpost = true := by decide
theorem guards_before_effects_recommend : guardsFirst Gen.WriteGuards.recommend = true := by decide
/-- EditPost: the only later refusal is the content-hash check (`oldsum != newsum`), not a permission test. -/
theorem guards_before_effects_editpost : guardsFirst Gen.WriteGuards.editpost = true := by decide
theorem guards_before_effects_crosspost : guardsFirst Gen.WriteGuards.crosspost = true := by decide

/-- a refused write has executed no persistent effect (Stampfile, WriteFile, AppendRecord, ModifyDirLite,
doAddRecommend, pwcu*, the cool-down word …). -/
theorem refused_untouched (op : Op) (x : Row) : (run op x).err ≠ none → (run op x).touched = false := by
  cases op
  · exact refused_untouched_of_guardsFirst x _ guards_before_effects_newpost
  · exact refused_untouched_of_guardsFirst x _ guards_before_effects_recommend
  · exact refused_untouched_of_guardsFirst x _ guards_before_effects_editpost
  · exact refused_untouched_of_guardsFirst x _ guards_before_effects_crosspost

/-! ### one step of history: the word an accepted post leaves behind -/

/-- After any accepted post (DoPostArticle / CrossPost tail: AddCooldownTime, AddPosttimes), for as long as the
cool-down time of the word lasts, a non-sysop is refused on every board with more than 4000 users
(first row of the flood table).  That the time part lasts ~5 minutes is tied by the `flood` ops only. -/
theorem busy_board_refuses_next_post (u : User) (b b' : Board) (w : UInt32) (now now' : Nat)
    (hs : ¬ Spec.sysop u) (hn : 4000 < b'.nuser) (hact : now' ≤ Spec.cdTime (afterPost b w now)) :
    checkCooldown u b' (afterPost b w now) now' = true := by
  rw [cooldown_eq_spec]
  refine ⟨hact, hs, Or.inr (Or.inr ⟨(4000, 1), by simp [Spec.floodLimits], hn, ?_⟩)⟩
  unfold afterPost
  exact post_counts _

/-- non-vacuity: a post at `fixedNow` on a board with 4001 users opens a window that is still running 100 s later. -/
example : fixedNow + 100 ≤ Spec.cdTime (afterPost { plainBoard nameSrc with nuser := 4001 } 0 fixedNow) := by decide

/-! ### the friend list of a board: what a reload leaves in shared memory (histories on the list) -/

/-- cache.HbflReload builds the new list in a zeroed local array and copies it over the whole row. -/
theorem source_hbfl_replaces_row : Gen.WriteGuards.hbflReloadReplacesRow = true := by decide

/-- since fix 1b78546 a missing list file is an empty list: HbflReload does not return early. -/
theorem source_hbfl_missing_file_replaces : Gen.WriteGuards.hbflMissingFileKeepsRow = false := by decide

/-- after a reload the friend decision is membership among the first MAX_FRIEND names of the file that resolve to a
user (no file: nobody) — whatever the row held before. -/
theorem friend_after_reload (row : List Nat) (file : Option (List Nat)) (now uid : Nat) :
    hbflScan uid (((hbflReload true false row file now).drop 1).take MAX_FRIEND) = true ↔ uid ∈ hbflFill (file.getD []) := by
  have hl := hbflFill_length (file.getD [])
  have e : hbflReload true false row file now =
      now :: (hbflFill (file.getD []) ++ List.replicate (MAX_FRIEND - (hbflFill (file.getD [])).length) 0) := by
    cases file <;> simp [hbflReload]
  rw [e]
  simp only [List.drop_succ_cons, List.drop_zero]
  rw [List.take_of_length_le (by simp; omega)]
  rw [hbflScan_nonzero_append _ _ _ (hbflFill_nonzero _), hbflScan_zeros]
  simp

/-- after a reload with the list file gone nobody is a friend. -/
theorem no_friend_after_reload_without_file (row : List Nat) (now uid : Nat) :
    hbflScan uid (((hbflReload true false row none now).drop 1).take MAX_FRIEND) = false := by
  cases h : hbflScan uid (((hbflReload true false row none now).drop 1).take MAX_FRIEND)
  · rfl
  · have := (friend_after_reload row none now uid).mp h
    simp [hbflFill] at this

/-- the look-up of an expired row (the reload inside IsHiddenBoardFriend) answers from the file alone. -/
theorem friend_lookup_after_expiry (row : List Nat) (file : Option (List Nat)) (now uid : Nat)
    (hexp : ((row.headD 0 : Nat) : Int) < (now : Int) - (HBFLexpire : Int)) :
    (isHiddenBoardFriend true false row file uid now).1 = true ↔ uid ∈ hbflFill (file.getD []) := by
  unfold isHiddenBoardFriend
  simp only [hexp, if_true]
  exact friend_after_reload row file now uid

/-- the written board of an operation. -/
def Op.written (op : Op) (x : Row) : Board :=
  match op with
  | .crosspost => x.tgt
  | _ => x.src

/-- A user who is not among the (first MAX_FRIEND resolvable) names of the list file is refused by all four operations
on a restricted-post board once the list has been loaded again (or found gone) — whatever history the shared-memory row has behind
it (`row` is arbitrary) — unless one of the rule set's own exemptions applies (sysop, default board, guest-post,
hidden). -/
theorem removed_friend_refused (op : Op) (x : Row) (row : List Nat) (file : Option (List Nat)) (now uid : Nat)
    (hfriend : (op.written x).friend = hbflScan uid (((hbflReload true false row file now).drop 1).take MAX_FRIEND))
    (hnot : uid ∉ hbflFill (file.getD []))
    (hr : Spec.restrictedPost (op.written x)) (hh : ¬ Spec.hidden (op.written x))
    (hd : ¬ Spec.defaultBoard (op.written x)) (hg : ¬ Spec.guestPost (op.written x)) (hs : ¬ Spec.sysop x.u) :
    ¬ accepted op x := by
  intro hacc
  have hf : (op.written x).friend = false := by
    rw [hfriend]
    cases h : hbflScan uid (((hbflReload true false row file now).drop 1).take MAX_FRIEND)
    · rfl
    · exact absurd ((friend_after_reload row file now uid).mp h) hnot
  have he := write_accepted_implies_rules_partial op x hacc
  have hp : Spec.postRules x.u (op.written x) x.now := by
    cases op <;> simp only [enforcedFor, rulesWith, Op.written] at he ⊢
    · exact he.2.2.1
    · exact he.2.2.1
    · exact he.1.2.2.1
    · exact he.2.2.1
  unfold Spec.postRules at hp
  rcases hp with h | ⟨_, h | h | ⟨_, h | ⟨h, _⟩⟩⟩
  · exact hs h
  · exact hd h
  · exact hg h
  · exact hh h
  · have := h hr
    rw [hf] at this
    exact absurd this (by decide)

/-- non-vacuity: user 40 taken off the list [2, 40] -> [2]; the old row still names him. -/
example : (40 : Nat) ∉ hbflFill [2] ∧
    hbflScan 40 (((hbflReload true false (hbflReload true false (hbflFresh 5) (some [2, 40]) 6) (some [2]) 7).drop 1).take MAX_FRIEND) = false := by
  decide

/-- The broken rule, if the row were filled in place (what a regenerated `hbflReloadReplacesRow = false` means):
user 40 is taken off the list [2, 40] -> [2], the list is loaded again, and he is still found. -/
theorem stale_friend_if_filled_in_place :
    ∃ row es uid now, uid ≠ 0 ∧ uid ∉ hbflFill es ∧
      hbflScan uid (((hbflReload false false row (some es) now).drop 1).take MAX_FRIEND) = true :=
  ⟨hbflReload true false (hbflFresh 5) (some [2, 40]) 6, [2], 40, 7, by decide, by decide, by decide⟩

/-- BEFORE fix 1b78546 (finding stale-friendlist:file-removed; what a regenerated `hbflMissingFileKeepsRow = true`
means): when the list file no longer existed HbflReload left the row — friends and load time — as it was, so the
friends of a removed list were still found. -/
theorem before_fix_removed_list_kept_friends :
    (∀ r row now, hbflReload r true row none now = row) ∧
    ∃ row uid now, uid ≠ 0 ∧ hbflScan uid (((hbflReload true true row none now).drop 1).take MAX_FRIEND) = true :=
  ⟨fun _ _ _ => rfl, hbflReload true false (hbflFresh 5) (some [40]) 6, 40, 7, by decide, by decide⟩

/-! ### the ban record: the permission check only reads it -/

/-- ptt.isBannedBy removes the record only under `err == nil && now > expireTS`. -/
theorem source_ban_cleanup_only_readable : Gen.WriteGuards.banCleanupOnReadError = false := by decide

/-- the check changes the record exactly when it could be read and has expired (then it removes it). -/
theorem ban_check_removes_only_expired (r : BanRec) (now : Nat) :
    (isBannedByRec false r now).2 ≠ r ↔ ∃ e, r = .expiry e ∧ e < (now : Int) := by
  cases r with
  | absent => simp [isBannedByRec]
  | unreadable => simp [isBannedByRec]
  | expiry e =>
    simp only [isBannedByRec, BanRec.expiry.injEq, exists_eq_left']
    split <;> simp <;> omega

/-- a record that exists but cannot be read (empty, a directory, being written) survives any number of checks, and
nobody is banned by it. -/
theorem unreadable_record_survives (now : Nat) : isBannedByRec false .unreadable now = (0, .unreadable) := rfl

/-- `Spec.banned` in terms of the record. -/
theorem banned_iff_record (b : Board) (now : Nat) :
    Spec.banned b now ↔ ∃ e, b.banRec = .expiry e ∧ (now : Int) < e := by
  unfold Spec.banned Board.banRec
  cases b.banBroken <;> cases b.ban <;> simp

/-- once the record is complete — readable, expiry in the future — every one of the four operations refuses the
user on that board (unless sysop), whatever the other facts and whatever checks ran while it was incomplete. -/
theorem ban_in_force_refused (op : Op) (x : Row) (e : Int) (hrec : (op.written x).banRec = .expiry e)
    (hfut : (x.now : Int) < e) (hs : ¬ Spec.sysop x.u) : ¬ accepted op x := by
  intro hacc
  have hb : Spec.banned (op.written x) x.now := (banned_iff_record _ _).mpr ⟨e, hrec, hfut⟩
  have he := write_accepted_implies_rules_partial op x hacc
  have hp : Spec.postRules x.u (op.written x) x.now := by
    cases op <;> simp only [enforcedFor, rulesWith, Op.written] at he ⊢
    · exact he.2.2.1
    · exact he.2.2.1
    · exact he.1.2.2.1
    · exact he.2.2.1
  unfold Spec.postRules at hp
  rcases hp with h | ⟨h, _⟩
  · exact hs h
  · exact h hb

/-- non-vacuity: the record `act` of the harness. -/
example : ({ plainBoard nameSrc with ban := some ((fixedNow : Int) + 3600) } : Board).banRec = .expiry ((fixedNow : Int) + 3600) := by
  decide

/-- The broken rule (clean-up `if err != nil || now > expireTS`): a check that meets the record while it cannot be read
removes it, so the ban the moderator is writing is lost. -/
theorem cleanup_on_read_error_loses_ban (now : Nat) : (isBannedByRec true .unreadable now).2 = .absent := rfl

/-! ### histories on one article: comments and edits move `Modified`, never the authorship -/

/-- isFileOwner does not look at the entry's `Modified`. -/
theorem owner_ignores_modified (a : Article) (u : User) (m : Int) :
    isFileOwner { a with entModified := m } u = isFileOwner a u := rfl

/-- whatever sequence of accepted comments / edits (each storing its file time in `Modified`) an article has been
through, its author is who it was. -/
theorem history_keeps_author (u : User) (a : Article) (ms : List Int) :
    Spec.isAuthor u (ms.foldl touch a) ↔ Spec.isAuthor u a := by
  induction ms generalizing a with
  | nil => exact Iff.rfl
  | cons m r ih => exact (ih (touch a m)).trans Iff.rfl

/-- A LATER account carrying the author's id (FirstLogin after the creation time in the article's name) that is not
a sysop is refused by EditPost after any history of comments and edits on the article, whatever the other facts. -/
theorem later_account_never_edits (x : Row) (ms : List Int) (hs : ¬ Spec.sysop x.u)
    (hl : nameTime x.art.entName < x.u.firstLogin) :
    ¬ accepted .editpost { x with art := ms.foldl touch x.art } := by
  intro hacc
  have h := ((accepted_iff_editpost _).mp hacc).1.2.2.2
  rcases h with h | h
  · have h' := (history_keeps_author x.u x.art ms).mp h
    have := h'.2.2
    omega
  · exact hs h

/-- non-vacuity: the later account of the thread histories (FirstLogin 1550000000, article of 1500000000). -/
example : nameTime ownArticle.entName < (1550000000 : Int) := by decide

/-- The broken rule (what a regression taking the entry's time from `Modified` would do): after one comment at
`fixedNow` the later account passes the author test although it is not the author. -/
theorem modified_time_rule_admits_later_account :
    ∃ a u m, ¬ Spec.isAuthor u a ∧ isFileOwner (touch a m) u = false ∧ isFileOwnerByModified (touch a m) u = true :=
  ⟨ownArticle, { witnessCoolingDown.u with firstLogin := 1550000000 }, (fixedNow : Int),
    by intro h; have := h.2.2; revert this; decide, by decide, by decide⟩

/-! ### non-vacuity: the base row of the decision table is accepted by all four operations and satisfies the rules -/

def baseRow : Row := { witnessUnverified with u := { witnessUnverified.u with level := 0o31 } }

example : accepted .newpost baseRow ∧ accepted .recommend baseRow ∧ accepted .editpost baseRow ∧
    accepted .crosspost baseRow := by decide
example : Spec.rulesFor .editpost baseRow := by
  have h := (rules_iff_enforced_and_missing .editpost baseRow).mpr
    ⟨write_accepted_implies_rules_partial .editpost baseRow (by decide), by
      refine ⟨by unfold Spec.verified; decide, ?_⟩
      rw [← cooldown_eq_spec]; decide⟩
  exact h
example : ∃ x, ¬ accepted .newpost x := ⟨witnessUnverified, by decide⟩
example : (run .newpost witnessUnverified).err ≠ none := by decide

end PttVerif.C08
